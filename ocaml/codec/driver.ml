(* model-side and spec-side driver for C18: reads commands on stdin, prints canonical lines.
   Commands X run the extracted MODEL (CodecModel.v); commands SX run the extracted SPEC
   (CodecSpec.v) and print the same line format.  Trusted glue: int <-> extracted N/nat
   conversion, parsing, printing, rolling digest. *)
open Codecx

let rec pos_of_int i = if i = 1 then XH else if i land 1 = 0 then XO (pos_of_int (i lsr 1)) else XI (pos_of_int (i lsr 1))
let n_of_int i = if i = 0 then N0 else Npos (pos_of_int i)
let rec int_of_pos = function XH -> 1 | XO p -> 2 * int_of_pos p | XI p -> 2 * int_of_pos p + 1
let int_of_n = function N0 -> 0 | Npos p -> int_of_pos p
let rec nat_of_int i = if i = 0 then O else S (nat_of_int (i - 1))

let bytes_of_hex s =
  let n = String.length s / 2 in
  List.init n (fun i -> n_of_int (int_of_string ("0x" ^ String.sub s (2 * i) 2)))
let hex_of_bytes l = String.concat "" (List.map (fun b -> Printf.sprintf "%02x" (int_of_n b)) l)
let ints_of_csv s = if s = "-" then [] else List.map int_of_string (String.split_on_char ',' s)
let csv_of_ints l = if l = [] then "-" else String.concat "," (List.map string_of_int l)
let cps_of_csv s = List.map n_of_int (ints_of_csv s)
let csv_of_cps l = csv_of_ints (List.map int_of_n l)

let prime = 2147483647
let step h r = (h * 1000003 + r + 1) mod prime

let ts_of_ints = function
  | [y; m; d; h; mi; s] -> { year_since_1970 = n_of_int y; zero_indexed_month = n_of_int m; zero_indexed_day = n_of_int d;
                             hours = n_of_int h; minutes = n_of_int mi; seconds = n_of_int s }
  | _ -> failwith "timestamp needs 6 fields"
let ints_of_ts t = List.map int_of_n [t.year_since_1970; t.zero_indexed_month; t.zero_indexed_day; t.hours; t.minutes; t.seconds]
let str_of_ts t = csv_of_ints (ints_of_ts t)

let ft_of_string = function "16" -> Fat16 | "32" -> Fat32 | _ -> failwith "fat type"
let val16 l = match l with [a; b] -> int_of_n a + 256 * int_of_n b | _ -> failwith "val16"

(* ---- timestamps *)
type tfun = { dec : n -> n -> timestamp; enc : timestamp -> n list outcome;
              cal : n -> n -> n -> n -> n -> n -> (timestamp, calError) result }
let t_model = { dec = from_fat; enc = serialize_to_fat; cal = from_calendar }
let t_spec = { dec = spec_from_fat; enc = spec_serialize_to_fat; cal = spec_from_calendar }

let decode_bytes f b = match b with
  | [t0; t1; d0; d1] -> f.dec (n_of_int (val16 [d0; d1])) (n_of_int (val16 [t0; t1]))
  | _ -> failwith "4 bytes expected"

let td f list args =
  match List.map int_of_string args with
  | [d0; nd; sd; t0; nt; st] ->
    for i = 0 to nd - 1 do
      let date = (d0 + i * sd) land 0xFFFF in
      let h = ref 0 in
      let nd = n_of_int date in
      for j = 0 to nt - 1 do
        let time = (t0 + j * st) land 0xFFFF in
        let ts = f.dec nd (n_of_int time) in
        let e = f.enc ts in
        if list then
          Printf.printf "R %d %d %s %s\n" date time (str_of_ts ts) (match e with Val b -> hex_of_bytes b | Panic -> "panic")
        else begin
          List.iter (fun x -> h := step !h x) (ints_of_ts ts);
          (match e with Val b -> List.iter (fun x -> h := step !h (int_of_n x)) b | Panic -> h := step !h 256)
        end
      done;
      if not list then Printf.printf "D %d %d\n" date !h
    done
  | _ -> print_string "ERR TD args\n"

(* all 65536 times for each date of a range, from two tables of model evaluations
   (C18_time_sweep_separable); prints the same digest lines as TD d0 nd 1 0 65536 1 *)
let time_table = lazy (Array.init 65536 (fun time ->
  let ts = from_fat N0 (n_of_int time) in
  let b = List.map int_of_n (le16 (fat_time_of ts)) in
  (int_of_n ts.hours, int_of_n ts.minutes, int_of_n ts.seconds, List.nth b 0, List.nth b 1)))
let tx args =
  match List.map int_of_string args with
  | [d0; nd] ->
    let tt = Lazy.force time_table in
    for i = 0 to nd - 1 do
      let date = (d0 + i) land 0xFFFF in
      let ts = from_fat (n_of_int date) N0 in
      let y = int_of_n ts.year_since_1970 and m = int_of_n ts.zero_indexed_month and d = int_of_n ts.zero_indexed_day in
      let db = match fat_date_of ts with Val dt -> Some (List.map int_of_n (le16 dt)) | Panic -> None in
      let h = ref 0 in
      for time = 0 to 65535 do
        let (hh, mi, s, t0, t1) = tt.(time) in
        h := step (step (step (step (step (step !h y) m) d) hh) mi) s;
        (match db with
         | Some [b0; b1] -> h := step (step (step (step !h t0) t1) b0) b1
         | _ -> h := step !h 256)
      done;
      Printf.printf "D %d %d\n" date !h
    done
  | _ -> print_string "ERR TX args\n"

let te f ts =
  match f.enc ts with
  | Val b -> Printf.sprintf "%s %s" (hex_of_bytes b) (str_of_ts (decode_bytes f b))
  | Panic -> "panic -"

let cal_err = function BadYear -> "BadYear" | BadMonth -> "BadMonth" | BadDay -> "BadDay"
  | BadHours -> "BadHours" | BadMinutes -> "BadMinutes" | BadSeconds -> "BadSeconds"

(* ---- entries *)
type efun = { ser : dirEntry -> fatType -> n list outcome; get : n list -> fatType -> n -> n -> dirEntry outcome;
              cs : n list -> n; spec : bool }
let e_model = { ser = serialize; get = get_entry; cs = csum; spec = false }
let e_spec = { ser = spec_serialize; get = spec_get_entry; cs = spec_csum; spec = true }

let str_of_entry e =
  Printf.sprintf "E name=%s attr=%d cl=%d sz=%d c=%s m=%s blk=%d off=%d" (hex_of_bytes e.name) (int_of_n e.attributes)
    (int_of_n e.cluster) (int_of_n e.size) (str_of_ts e.ctime) (str_of_ts e.mtime) (int_of_n e.entry_block) (int_of_n e.entry_offset)

let ob = function Val true -> "t" | Val false -> "f" | Panic -> "p"
let on = function Val x -> string_of_int (int_of_n x) | Panic -> "p"

(* flags of a raw slot: model functions, or (spec side) plain reading of the bytes *)
let flags f (d : n list) =
  if not f.spec then (ob (is_end d), ob (is_valid d), ob (is_lfn d))
  else
    let di = List.map int_of_n d in
    let e = match di with [] -> "p" | b :: _ -> if b = 0 then "t" else "f" in
    let v = match di with [] -> "p" | b :: _ -> if b <> 0 && b <> 0xE5 then "t" else "f" in
    let l = if List.length di > 11 then (if attr_lfn (List.nth d 11) then "t" else "f") else "p" in
    (e, v, l)

let matches_str f d nm =
  if not f.spec then ob (matches d nm)
  else if List.length d < 12 then "p"
  else if attr_lfn (List.nth d 11) then "f"      (* a long-name fragment carries no 8.3 name *)
  else if List.map int_of_n (List.filteri (fun i _ -> i < 11) d) = List.map int_of_n nm then "t" else "f"

let es f args =
  match args with
  | [ft; nm; attr; cl; sz; cts; mts; blk; off] ->
    let ft = ft_of_string ft in
    let e = { name = bytes_of_hex nm; mtime = ts_of_ints (ints_of_csv mts); ctime = ts_of_ints (ints_of_csv cts);
              attributes = n_of_int (int_of_string attr); cluster = n_of_int (int_of_string cl);
              size = n_of_int (int_of_string sz); entry_block = n_of_int 0; entry_offset = n_of_int 0 } in
    (match f.ser e ft with
     | Panic -> print_string "R panic\n"
     | Val b ->
       let g = f.get b ft (n_of_int (int_of_string blk)) (n_of_int (int_of_string off)) in
       let (fe, fv, fl) = flags f b in
       Printf.printf "R %s %s F %s %s %s M %s %s C %d\n" (hex_of_bytes b)
         (match g with Val x -> str_of_entry x | Panic -> "panic") fe fv fl
         (matches_str f b e.name) (matches_str f b parent_dir) (int_of_n (f.cs e.name)))
  | _ -> print_string "ERR ES args\n"

let ep f args =
  match args with
  | [ft; hx; blk; off] ->
    let ft = ft_of_string ft in
    let d = bytes_of_hex (if hx = "-" then "" else hx) in
    let g = f.get d ft (n_of_int (int_of_string blk)) (n_of_int (int_of_string off)) in
    let (fe, fv, fl) = flags f d in
    let acc =
      if not f.spec then
        [on (raw_attr d); on (create_time d); on (create_date d); on (last_access_data d); on (first_cluster_hi d);
         on (write_time d); on (write_date d); on (first_cluster_lo d); on (file_size d); on (first_cluster_fat32 d)]
      else begin
        let di = Array.of_list (List.map int_of_n d) in
        let len = Array.length di in
        let rd off k = if off + k <= len then (let v = ref 0 in for i = k - 1 downto 0 do v := !v * 256 + di.(off + i) done; string_of_int !v) else "p" in
        [rd 11 1; rd 14 2; rd 16 2; rd 18 2; rd 20 2; rd 22 2; rd 24 2; rd 26 2; rd 28 4;
         (if 28 <= len then string_of_int ((di.(20) + 256 * di.(21)) * 65536 + di.(26) + 256 * di.(27)) else "p")]
      end in
    Printf.printf "R %s A %s F %s %s %s\n" (match g with Val x -> str_of_entry x | Panic -> "panic")
      (String.concat " " acc) fe fv fl
  | _ -> print_string "ERR EP args\n"

(* ---- names *)
let fn_err = function InvalidCharacter -> "InvalidCharacter" | FilenameEmpty -> "FilenameEmpty" | NameTooLong -> "NameTooLong"
  | MisplacedPeriod -> "MisplacedPeriod" | Utf8Error -> "Utf8Error"
let fn_err_code = function InvalidCharacter -> 0 | FilenameEmpty -> 1 | NameTooLong -> 2 | MisplacedPeriod -> 3 | Utf8Error -> 4

(* result of one name: either Error kind, or (bytes, display, reparse, csum) *)
type nres = NErr of filenameError | NOk of n list * n list * (n list, filenameError) result * n

let name_model s =
  match create_from_str s with
  | Err k -> NErr k
  | Ok b -> let d = display b in NOk (b, d, create_from_str d, csum b)

let name_spec s =
  match spec_sfn s with
  | Err k -> NErr k
  | Ok b ->
    let si = List.map int_of_n s in
    let d = if si = [] || si = [46] then [n_of_int 46] else if si = [46; 46] then [n_of_int 46; n_of_int 46]
      else (let (ba, e) = split_dot s in display_spec ba (match e with Some x -> x | None -> [])) in
    NOk (b, d, Ok b, spec_csum b)

let str_of_nres = function
  | NErr k -> "Err " ^ fn_err k
  | NOk (b, d, r, c) ->
    Printf.sprintf "Ok %s D %s P %s C %d" (hex_of_bytes b) (csv_of_cps d)
      (match r with Ok x -> "Ok " ^ hex_of_bytes x | Err k -> "Err " ^ fn_err k) (int_of_n c)

let digest_nres h = function
  | NErr k -> step (step h 2) (fn_err_code k)
  | NOk (b, d, r, c) ->
    let h = List.fold_left (fun h x -> step h (int_of_n x)) (step h 1) b in
    let h = List.fold_left (fun h x -> step h (int_of_n x)) (step h 1000) d in
    let h = match r with
      | Ok x -> List.fold_left (fun h x -> step h (int_of_n x)) (step h 1001) x
      | Err k -> step (step h 1002) (fn_err_code k) in
    step h (int_of_n c)

let str_of_idx alpha len k =
  let a = Array.of_list alpha in
  let base = Array.length a in
  let rec go len k acc = if len = 0 then acc else go (len - 1) (k / base) (n_of_int a.(k mod base) :: acc) in
  go len k []

let ne f list args =
  match args with
  | [alpha; len; start; count] ->
    let alpha = ints_of_csv alpha and len = int_of_string len and start = int_of_string start and count = int_of_string count in
    let h = ref 0 in
    for t = 0 to count - 1 do
      let s = str_of_idx alpha len (start + t) in
      let r = f s in
      if list then Printf.printf "R %d %s\n" (start + t) (str_of_nres r)
      else begin
        h := digest_nres !h r;
        if (t + 1) mod 4096 = 0 || t = count - 1 then begin Printf.printf "D %d %d\n" (t + 1) !h; h := 0 end
      end
    done
  | _ -> print_string "ERR NE args\n"

let () =
  try
    while true do
      let line = input_line stdin in
      match String.split_on_char ' ' (String.trim line) with
      | "TD" :: a -> td t_model false a
      | "TL" :: a -> td t_model true a
      | "TX" :: a -> tx a
      | "STD" :: a -> td t_spec false a
      | "STL" :: a -> td t_spec true a
      | ["TE"; ts] -> Printf.printf "R %s\n" (te t_model (ts_of_ints (ints_of_csv ts)))
      | ["STE"; ts] -> Printf.printf "R %s\n" (te t_spec (ts_of_ints (ints_of_csv ts)))
      | [("TC" | "STC") as c; v] ->
        let f = if c = "TC" then t_model else t_spec in
        (match List.map n_of_int (ints_of_csv v) with
         | [y; m; d; h; mi; s] ->
           (match f.cal y m d h mi s with
            | Err k -> Printf.printf "R Err %s\n" (cal_err k)
            | Ok t -> Printf.printf "R Ok %s %s\n" (str_of_ts t) (te f t))
         | _ -> print_string "ERR TC args\n")
      | "ES" :: a -> es e_model a
      | "SES" :: a -> es e_spec a
      | "EP" :: a -> ep e_model a
      | "SEP" :: a -> ep e_spec a
      | ["N"; s] -> Printf.printf "R %s\n" (str_of_nres (name_model (cps_of_csv s)))
      | ["SN"; s] -> Printf.printf "R %s\n" (str_of_nres (name_spec (cps_of_csv s)))
      | "NE" :: a -> ne name_model false a
      | "NL" :: a -> ne name_model true a
      | "SNE" :: a -> ne name_spec false a
      | "SNL" :: a -> ne name_spec true a
      | [""] -> ()
      | _ -> Printf.printf "ERR bad command %s\n" line
    done
  with End_of_file -> ()
