(* model-side driver for C15: same commands and canonical lines as harness/src/bin/mountrun.rs
   (RESET, B, LIMIT, MOUNT), plus the spec-side command G (formatter, validity decider and
   prescribed layout of a geometry).  Trusted glue: int <-> extracted N conversion, parsing,
   printing. *)
open Mountx

let rec pos_of_int i = if i = 1 then XH else if i land 1 = 0 then XO (pos_of_int (i lsr 1)) else XI (pos_of_int (i lsr 1))
let n_of_int i = if i = 0 then N0 else Npos (pos_of_int i)
let rec int_of_pos = function XH -> 1 | XO p -> 2 * int_of_pos p | XI p -> 2 * int_of_pos p + 1
let int_of_n = function N0 -> 0 | Npos p -> int_of_pos p

let unhex s = String.init (String.length s / 2) (fun i -> Char.chr (int_of_string ("0x" ^ String.sub s (2 * i) 2)))
let hex s = String.concat "" (List.map (fun c -> Printf.sprintf "%02x" (Char.code c)) (List.init (String.length s) (String.get s)))

let blocks : (int, string) Hashtbl.t = Hashtbl.create 64
let limit = ref max_int

let dev : device = fun idx ->
  let i = int_of_n idx in
  if i >= !limit then None
  else
    let s = try Some (Hashtbl.find blocks i) with Not_found -> None in
    Some (fun off -> let o = int_of_n off in
            match s with Some s when o < String.length s -> n_of_int (Char.code s.[o]) | _ -> N0)

let msg = function
  | MbrSig -> "Invalid MBR signature" | PartStatus -> "Invalid partition status"
  | PartType -> "Partition type not supported" | BpbFooter -> "Bad BPB footer"
  | BpbCounts -> "Bad BPB block counts" | BpbSpc -> "Bad BPB blocks per cluster"
  | Fat12 -> "FAT12 is unsupported" | FatFormat -> "Invalid FAT format"
  | NoFit -> "Volume does not fit the device" | FatSmall -> "FAT too small for the cluster count" | InfoLoc -> "Bad FS info location"
  | LeadSig -> "Bad lead signature on InfoSector" | StrucSig -> "Bad struc signature on InfoSector"
  | TrailSig -> "Bad trail signature on InfoSector"

let opt = function None -> "none" | Some x -> string_of_int (int_of_n x)

(* the label as the crate's Debug output lets one observe it: trailing ASCII whitespace removed *)
let label_hex l =
  let a = Array.of_list (List.map int_of_n l) in
  let n = ref (Array.length a) in
  let ws c = c = 0x20 || c = 0x09 || c = 0x0a || c = 0x0c || c = 0x0d in
  while !n > 0 && ws a.(!n - 1) do decr n done;
  String.concat "" (List.init !n (fun i -> Printf.sprintf "%02x" a.(i)))

let show_volume v =
  Printf.sprintf "ok lba_start=%d num_blocks=%d label=%s bpc=%d first_data=%d fat_start=%d second_fat=%s free=%s next_free=%s clusters=%d %s"
    (int_of_n v.lba_start) (int_of_n v.num_blocks) (label_hex v.name) (int_of_n v.blocks_per_cluster)
    (int_of_n v.first_data_block) (int_of_n v.fat_start) (opt v.second_fat_start)
    (opt v.free_clusters_count) (opt v.next_free_cluster) (int_of_n v.cluster_count)
    (match v.fat_specific_info with
     | Fat16Info (frdb, rec_) -> Printf.sprintf "fat16 first_root_dir_block=%d root_entries=%d" (int_of_n frdb) (int_of_n rec_)
     | Fat32Info (rc, il) -> Printf.sprintf "fat32 root_cluster=%d info_location=%d" (int_of_n rc) (int_of_n il))

let show = function
  | Ok v -> show_volume v
  | Err DeviceError -> "err DeviceError"
  | Err (FormatError m) -> Printf.sprintf "err FormatError \"%s\"" (msg m)
  | Err NoSuchVolume -> "err NoSuchVolume"
  | Err (BadBlockSize n) -> Printf.sprintf "err BadBlockSize(%d)" (int_of_n n)
  | Panic -> "panic"

let block_string (b : block) = String.init 512 (fun k -> Char.chr ((int_of_n (b (n_of_int k))) land 255))

let () =
  try
    while true do
      let line = input_line stdin in
      match String.split_on_char ' ' (String.trim line) with
      | ["RESET"] -> Hashtbl.reset blocks; limit := max_int
      | ["B"; idx; h] -> Hashtbl.replace blocks (int_of_string idx) (unhex h)
      | ["LIMIT"; n] -> limit := int_of_string n
      | ["MOUNT"; slot] -> print_endline (show (mount dev (n_of_int (int_of_string slot))))
      | "G" :: rest when List.length rest = 20 ->
          let a = Array.of_list rest in
          let i k = n_of_int (int_of_string a.(k)) in
          let lbl = unhex a.(19) in
          let g = { g_slot = i 0; g_status = i 1; g_ptype = i 2; g_lba = i 3; g_part_blocks = i 4;
                    g_total = i 5; g_use16 = (a.(6) = "1"); g_spc = i 7; g_reserved = i 8; g_nfats = i 9;
                    g_fat_size = i 10; g_root_entries = i 11; g_root_cluster = i 12; g_fs_info = i 13;
                    g_backup_boot = i 14; g_media = i 15; g_hidden = i 16; g_info_free = i 17; g_info_next = i 18;
                    g_label = (fun k -> let k = int_of_n k in if k < String.length lbl then n_of_int (Char.code lbl.[k]) else N0) } in
          let f32 = is_fat32 g in
          Printf.printf "geom valid=%d fat32=%d clusters=%d first_data=%d\n" (if valid_geomb g then 1 else 0)
            (if f32 then 1 else 0) (int_of_n (n_clusters g)) (int_of_n (spec_first_data g));
          let d = format g in
          let idxs = [0; int_of_n g.g_lba] @ (if f32 then [int_of_n g.g_lba + int_of_n g.g_fs_info] else []) in
          List.iter (fun ix -> match d (n_of_int ix) with
                               | Some b -> Printf.printf "B %d %s\n" ix (hex (block_string b))
                               | None -> ()) (List.sort_uniq compare idxs);
          Printf.printf "expect %s\n" (show_volume (layout g));
          Printf.printf "model %s\n" (show (mount d g.g_slot))
      | [""] -> ()
      | _ -> Printf.printf "ERR bad command %s\n" (String.sub line 0 (min 40 (String.length line)))
    done
  with End_of_file -> ()
