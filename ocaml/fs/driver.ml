(* model-side driver for the file-system properties: runs the extracted layer-B model
   (Fsx.step) on a script and prints the canonical trace.  Trusted glue only:
   int <-> extracted N/Z, parsing, printing, hashing. *)
open Fsx

let rec pos_of_int i = if i = 1 then XH else if i land 1 = 0 then XO (pos_of_int (i lsr 1)) else XI (pos_of_int (i lsr 1))
let n_of_int i = if i = 0 then N0 else Npos (pos_of_int i)
let rec int_of_pos = function XH -> 1 | XO p -> 2 * int_of_pos p | XI p -> 2 * int_of_pos p + 1
let int_of_n = function N0 -> 0 | Npos p -> int_of_pos p
let z_of_int i = if i = 0 then Z0 else if i > 0 then Zpos (pos_of_int i) else Zneg (pos_of_int (-i))
(* i64::MIN does not negate in OCaml's 63-bit ints: scripts give it as the token "i64min" *)
let z_i64min = Zneg (let rec p k = if k = 0 then XH else XO (p (k - 1)) in p 63)
(* decimal strings of any size -> Z, by repeated halving of the digit list *)
let z_of_string s =
  if s = "i64min" then z_i64min else
  let s = if s = "u64max" then "18446744073709551615" else s in
  let neg = String.length s > 0 && s.[0] = '-' in
  let digits = List.init (String.length s - (if neg then 1 else 0)) (fun i -> Char.code s.[i + (if neg then 1 else 0)] - 48) in
  let rec halve ds carry acc = match ds with
    | [] -> (List.rev acc, carry)
    | d :: r -> let v = carry * 10 + d in halve r (v mod 2) ((v / 2) :: acc) in
  let rec strip = function 0 :: r -> strip r | l -> l in
  let rec bits ds = match strip ds with
    | [] -> []
    | ds -> let (q, r) = halve ds 0 [] in r :: bits q in
  let rec pos_of_bits = function
    | [] -> None
    | b :: r -> (match pos_of_bits r with
        | None -> if b = 1 then Some XH else None
        | Some p -> Some (if b = 1 then XI p else XO p)) in
  match pos_of_bits (bits digits) with
  | None -> Z0
  | Some p -> if neg then Zneg p else Zpos p

let prime = 2147483647
let hash_bytes (l : int list) = List.fold_left (fun h b -> (h * 1000003 + b + 1) mod prime) (List.length l) l
let hex_of_ints l = String.concat "" (List.map (Printf.sprintf "%02x") l)
let ints_of_hex s = List.init (String.length s / 2) (fun i -> int_of_string ("0x" ^ String.sub s (2 * i) 2))
let ints_of_block (b : n list) = List.map int_of_n b

(* UTF-8 decode (names are passed as hex of UTF-8, the Rust side passes the &str) *)
let utf8_decode (bs : int list) : int list =
  let rec go = function
    | [] -> []
    | b :: r when b < 0x80 -> b :: go r
    | b :: c :: r when b land 0xE0 = 0xC0 -> (((b land 0x1F) lsl 6) lor (c land 0x3F)) :: go r
    | b :: c :: d :: r when b land 0xF0 = 0xE0 -> (((b land 0x0F) lsl 12) lor ((c land 0x3F) lsl 6) lor (d land 0x3F)) :: go r
    | b :: c :: d :: e :: r when b land 0xF8 = 0xF0 ->
        (((b land 0x07) lsl 18) lor ((c land 0x3F) lsl 12) lor ((d land 0x3F) lsl 6) lor (e land 0x3F)) :: go r
    | _ -> failwith "bad utf8 in script"
  in go bs
let name_of_hex h = List.map n_of_int (utf8_decode (ints_of_hex (if h = "-" then "" else h)))

let pattern len seed = List.init len (fun i -> n_of_int ((seed * 131 + i * 7 + (i / 256) * 13 + (i / 65536) * 101) land 255))

let load_image path =
  let ic = open_in path in
  let d = ref PositiveMap.empty in
  (try while true do
     let line = input_line ic in
     match String.split_on_char ' ' (String.trim line) with
     | [idx; hex] -> d := disk_set !d (n_of_int (int_of_string idx)) (List.map n_of_int (ints_of_hex hex))
     | _ -> ()
   done with End_of_file -> ());
  close_in ic; !d

let err_name = function
  | DeviceError -> "DeviceError" | FormatError -> "FormatError" | NoSuchVolume -> "NoSuchVolume"
  | FilenameError -> "FilenameError" | TooManyOpenVolumes -> "TooManyOpenVolumes"
  | TooManyOpenDirs -> "TooManyOpenDirs" | TooManyOpenFiles -> "TooManyOpenFiles" | BadHandle -> "BadHandle"
  | NotFound -> "NotFound" | FileAlreadyOpen -> "FileAlreadyOpen" | DirAlreadyOpen -> "DirAlreadyOpen"
  | OpenedDirAsFile -> "OpenedDirAsFile" | OpenedFileAsDir -> "OpenedFileAsDir" | DeleteDirAsFile -> "DeleteDirAsFile"
  | VolumeStillInUse -> "VolumeStillInUse" | VolumeAlreadyOpen -> "VolumeAlreadyOpen" | Unsupported -> "Unsupported"
  | EndOfFile -> "EndOfFile" | BadCluster -> "BadCluster" | ConversionError -> "ConversionError"
  | NotEnoughSpace -> "NotEnoughSpace" | AllocationError -> "AllocationError"
  | UnterminatedFatChain -> "UnterminatedFatChain" | ReadOnlyErr -> "ReadOnly" | FileAlreadyExists -> "FileAlreadyExists"
  | BadBlockSize -> "BadBlockSize" | InvalidOffset -> "InvalidOffset" | DiskFull -> "DiskFull"
  | DirAlreadyExists -> "DirAlreadyExists" | LockError -> "LockError"

let ts_str (t : ts) = Printf.sprintf "%d-%d-%d-%d-%d-%d" (int_of_n t.t_year) (int_of_n t.t_month) (int_of_n t.t_day)
    (int_of_n t.t_hours) (int_of_n t.t_minutes) (int_of_n t.t_seconds)
let entry_str (e : dirent) = Printf.sprintf "%s %d %d %d %s %s %d %d" (hex_of_ints (ints_of_block e.e_name)) (int_of_n e.e_attr)
    (int_of_n e.e_cluster) (int_of_n e.e_size) (ts_str e.e_mtime) (ts_str e.e_ctime) (int_of_n e.e_block) (int_of_n e.e_offset)

let bytes_str (l : n list) =
  let il = ints_of_block l in
  Printf.sprintf "bytes %d %d%s" (List.length il) (hash_bytes il) (if List.length il <= 32 then " " ^ hex_of_ints il else "")

let rec res_str = function
  | RUnit -> "unit" | RHandle h -> Printf.sprintf "handle %d" (int_of_n h) | RNum x -> Printf.sprintf "num %d" (int_of_n x)
  | RBool b -> Printf.sprintf "bool %d" (if b then 1 else 0) | RBytes l -> bytes_str l
  | REntry e -> "entry " ^ entry_str e
  | RIter (l, inner) -> Printf.sprintf "iter %d%s" (List.length l)
      (match inner with None -> "" | Some (Inl r) -> " inner ok " ^ res_str r | Some (Inr e) -> " inner err " ^ err_name e)
  | RLabel None -> "label none" | RLabel (Some l) -> "label " ^ hex_of_ints (ints_of_block l)

let mode_of = function
  | "RO" -> ReadOnly | "RWA" -> ReadWriteAppend | "RWT" -> ReadWriteTruncate | "RWC" -> ReadWriteCreate
  | "RWCT" -> ReadWriteCreateOrTruncate | "RWCA" -> ReadWriteCreateOrAppend | m -> failwith ("mode " ^ m)
let mode_str = function
  | ReadOnly -> "RO" | ReadWriteAppend -> "RWA" | ReadWriteTruncate -> "RWT" | ReadWriteCreate -> "RWC"
  | ReadWriteCreateOrTruncate -> "RWCT" | ReadWriteCreateOrAppend -> "RWCA"

let slots : (string, int) Hashtbl.t = Hashtbl.create 16
let file_slots : string list ref = ref []
let handle tok =
  if String.length tok > 0 && tok.[0] = '#' then int_of_string (String.sub tok 1 (String.length tok - 1))
  else match Hashtbl.find_opt slots tok with Some h -> h | None -> 3735928559
let h tok = n_of_int (handle tok)

let rec parse_op (t : string list) : op =
  match t with
  | ["openvol"; i] -> OpenVol (n_of_int (int_of_string i))
  | ["closevol"; v] -> CloseVol (h v)
  | ["openroot"; v] -> OpenRoot (h v)
  | ["opendir"; d; nm] -> OpenDir (h d, name_of_hex nm)
  | ["closedir"; d] -> CloseDir (h d)
  | ["find"; d; nm] -> Find (h d, name_of_hex nm)
  | "iter" :: d :: [] -> Iter (h d, None)
  | "iter" :: d :: "|" :: rest -> Iter (h d, Some (parse_op rest))
  | ["open"; d; nm; m] -> OpenFile (h d, name_of_hex nm, mode_of m)
  | ["close"; f] -> CloseFile (h f)
  | ["flush"; f] -> Flush (h f)
  | ["read"; f; n] -> Read (h f, n_of_int (int_of_string n))
  | ["write"; f; len; seed] -> Write (h f, pattern (int_of_string len) (int_of_string seed))
  | ["seekstart"; f; x] -> SeekStart (h f, n_of_int (int_of_string x))
  | ["seekcur"; f; x] -> SeekCur (h f, z_of_string x)
  | ["seekend"; f; x] -> SeekEnd (h f, n_of_int (int_of_string x))
  | ["len"; f] -> Length (h f) | ["off"; f] -> Offset (h f) | ["eof"; f] -> Eof (h f)
  | ["delete"; d; nm] -> Delete (h d, name_of_hex nm)
  | ["mkdir"; d; nm] -> Mkdir (h d, name_of_hex nm)
  | ["label"; v] -> Label (h v)
  | ["hasopen"] -> HasOpen
  | ["ioseek"; f; w; x] -> IoSeek (h f, (match w with "start" -> FromStart | "end" -> FromEnd | _ -> FromCurrent), z_of_string x)
  | ["ioread"; f; n] -> IoRead (h f, n_of_int (int_of_string n))
  | ["iowrite"; f; len; seed] -> IoWrite (h f, pattern (int_of_string len) (int_of_string seed))
  | ["remount"; id] -> Remount (n_of_int (int_of_string id))
  | _ -> failwith ("bad op: " ^ String.concat " " t)

(* the extended alphabet (FsExt.xop): iterate_dir_lfn at manager level and the RAII wrappers *)
let parse_xop (t : string list) : xop =
  match t with
  | ["iterlfn"; d; n] -> XIterLfn (h d, n_of_int (int_of_string n))
  | ["dropfile"; f] -> XDropFile (h f)
  | ["dropdir"; d] -> XDropDir (h d)
  | ["dropvol"; v] -> XDropVol (h v)
  | ["chdir"; d; nm] -> XChangeDir (h d, name_of_hex nm)
  | ["weof"; f] -> XWEof (h f)
  | ["wlen"; f] -> XWLength (h f)
  | ["woff"; f] -> XWOffset (h f)
  | _ -> XOp (parse_op t)

let opt_str = function None -> "-" | Some x -> string_of_int (int_of_n x)
let int_line (s : st) =
  let vols = String.concat ";" (List.map (fun (v : vol) ->
      Printf.sprintf "%d:%d:%s:%s:%d:%d:%d:%d:%d:%s:%d:%s" (int_of_n v.v_id) (int_of_n v.v_idx) (opt_str v.v_free) (opt_str v.v_next_free)
        (int_of_n v.v_lba) (int_of_n v.v_nblocks) (int_of_n v.v_spc) (int_of_n v.v_first_data) (int_of_n v.v_fat_start) (opt_str v.v_second_fat)
        (int_of_n v.v_clusters)
        (if v.v_fat32 then Printf.sprintf "32:%d:%d" (int_of_n v.v_root_cluster) (int_of_n v.v_info)
         else Printf.sprintf "16:%d:%d" (int_of_n v.v_root_block) (int_of_n v.v_root_entries))) s.s_vols) in
  let dirs = String.concat ";" (List.map (fun (d : dirinfo) -> Printf.sprintf "%d:%d:%d" (int_of_n d.d_id) (int_of_n d.d_vol) (int_of_n d.d_cluster)) s.s_dirs) in
  let files = String.concat ";" (List.map (fun (f : fileinfo) ->
      Printf.sprintf "%d:%d:%d:%d:%d:%s:%d:%d:%d:%d:%d:%s" (int_of_n f.f_id) (int_of_n f.f_vol) (int_of_n f.f_cur_off) (int_of_n f.f_cur_cluster)
        (int_of_n f.f_offset) (mode_str f.f_mode) (int_of_n f.f_entry.e_size) (int_of_n f.f_entry.e_cluster) (if f.f_dirty then 1 else 0)
        (int_of_n f.f_entry.e_block) (int_of_n f.f_entry.e_offset) (ts_str f.f_entry.e_mtime)) s.s_files) in
  Printf.sprintf "id=%d vols=[%s] dirs=[%s] files=[%s] tag=%s cache=%d clk=%d" (int_of_n s.s_next_id) vols dirs files (opt_str s.s_tag)
    (hash_bytes (ints_of_block s.s_cache)) (int_of_n s.s_clock)

let print_dev n (calls : devcall list) =
  List.iter (function
      | DRead i -> Printf.printf "DEV %d R %d\n" n (int_of_n i)
      | DWrite (i, b) -> Printf.printf "DEV %d W %d %d\n" n (int_of_n i) (hash_bytes (ints_of_block b))
      | DReadFail i -> Printf.printf "DEV %d RF %d\n" n (int_of_n i)
      | DWriteFail i -> Printf.printf "DEV %d WF %d\n" n (int_of_n i)) (List.rev calls)

let run_script path =
  let ic = open_in path in
  let state = ref None in
  let cfg = ref (1, 4, 4, 5000) and faults = ref [] and img = ref PositiveMap.empty in
  let get_state () = match !state with
    | Some s -> s
    | None -> let (mv, md, mf, off) = !cfg in
      let s = init_state !img (n_of_int off) (n_of_int mv) (n_of_int md) (n_of_int mf) (List.map n_of_int !faults) in
      state := Some s; s in
  let dead = ref false in
  (try while true do
     let line = String.trim (input_line ic) in
     let toks = List.filter (fun x -> x <> "") (String.split_on_char ' ' line) in
     match toks with
     | [] -> ()
     | "#" :: _ -> ()
     | ["CFG"; mv; md; mf; off] -> cfg := (int_of_string mv, int_of_string md, int_of_string mf, int_of_string off)
     | "FAULTS" :: l -> faults := List.map int_of_string l
     | ["IMG"; p] -> img := load_image p
     | nstr :: rest when not !dead ->
         let n = int_of_string nstr in
         (* split off "-> $slot" *)
         let rec split acc = function
           | ["->"; s] -> (List.rev acc, Some s)
           | x :: r -> split (x :: acc) r
           | [] -> (List.rev acc, None) in
         let (optoks, bind) = split [] rest in
         let xo = parse_xop optoks in
         let o = (match xo with XOp o -> o | _ -> HasOpen) in
         let s0 = { (get_state ()) with s_trace = [] } in
         let (xout, s1) = xstep xo s0 in
         let lfn_count = ref (-1) in
         let out = (match xout with
             | Ok (XR r) -> Ok r
             | Ok (XRLfn l) ->
               List.iter (fun ((e : dirent), nm) -> Printf.printf "CB %d %s %s\n" n (entry_str e)
                             (match nm with None -> "nolfn" | Some b -> "lfn " ^ hex_of_ints (ints_of_block b))) l;
               lfn_count := List.length l; Ok RUnit
             | Err e -> Err e | Panic -> Panic | OutOfFuel -> OutOfFuel) in
         (match xo, out with
          | XOp (Iter _), Ok (RIter (l, _)) -> List.iter (fun e -> Printf.printf "CB %d %s\n" n (entry_str e)) l
          | _ -> ());
         (match out with
          | Ok r -> if !lfn_count >= 0 then Printf.printf "RES %d ok iterlfn %d\n" n !lfn_count
            else Printf.printf "RES %d ok %s\n" n (res_str r);
            (match bind, r with
             | Some sl, RHandle hh -> Hashtbl.replace slots sl (int_of_n hh);
               (match xo with XOp (OpenFile _) -> if not (List.mem sl !file_slots) then file_slots := !file_slots @ [sl] | _ -> ())
             | _ -> ())
          | Err e -> Printf.printf "RES %d err %s\n" n (err_name e)
          | Panic -> Printf.printf "RES %d panic\n" n; dead := true
          | OutOfFuel -> Printf.printf "RES %d outoffuel\n" n; dead := true);
         print_dev n s1.s_trace;
         state := Some s1;
         if not !dead then begin
           (* file state through the API for every file slot ever bound *)
           List.iter (fun sl ->
               let q o = match step o { s1 with s_trace = [] } with
                 | (Ok (RNum x), _) -> string_of_int (int_of_n x)
                 | (Ok (RBool b), _) -> if b then "1" else "0"
                 | (Err e, _) -> "err"
                 | _ -> "?" in
               let hh = h sl in
               Printf.printf "ST %d %s %s %s %s\n" n sl (q (Length hh)) (q (Offset hh)) (q (Eof hh))) !file_slots;
           Printf.printf "INT %d %s\n" n (int_line s1)
         end
     | _ -> ()
   done with End_of_file -> ());
  close_in ic;
  (* final image digest over non-zero blocks, sorted by index *)
  (match !state with
   | Some s ->
     let items = PositiveMap.elements s.s_disk in
     let items = List.map (fun (p, b) -> (int_of_pos p - 1, ints_of_block b)) items in
     let items = List.filter (fun (_, b) -> List.exists (fun x -> x <> 0) b) items in
     let items = List.sort compare items in
     let hsh = List.fold_left (fun acc (i, b) -> (acc * 1000003 + i * 31 + hash_bytes b + 1) mod prime) 0 items in
     Printf.printf "IMG %d %d\n" (List.length items) hsh
   | None -> ())

(* ---- the extracted decider of the global invariant (PrGlobalDef.fs_inv_b, sound by fs_inv_b_sound) ---- *)
let rec nat_of_int i = if i <= 0 then O else S (nat_of_int (i - 1))
let fsck_depth = nat_of_int 12

let fsck_state (s : st) : string =
  match s.s_vols with
  | [v] ->
    let fsz = bpb_fat_size (disk_get s.s_disk v.v_lba) in
    if fs_inv_fast fsck_depth fsz s.s_disk v (pend_of s v) then "ok" else "bad"
  | [] -> "novol"
  | _ -> "multi"

(* fsck <image> <slot> <pending heads...>: mount with the model, decide the disk-level invariant *)
let fsck_image path slot pend =
  let img = load_image path in
  let s = init_state img (n_of_int 5000) (n_of_int 1) (n_of_int 4) (n_of_int 4) [] in
  match step (OpenVol (n_of_int slot)) s with
  | (Ok _, s1) ->
    (match s1.s_vols with
     | [v] ->
       let fsz = bpb_fat_size (disk_get s1.s_disk v.v_lba) in
       print_endline (if fs_inv_fast fsck_depth fsz s1.s_disk v (List.map n_of_int pend) then "FSCK ok" else "FSCK bad")
     | _ -> print_endline "FSCK nomount")
  | _ -> print_endline "FSCK nomount"

(* crashck <image> <slot>: mount with the model, decide the crash invariant (PrFsck2.crash_inv_fast) on the raw medium *)
let crashck_image path slot =
  let img = load_image path in
  let s = init_state img (n_of_int 5000) (n_of_int 1) (n_of_int 4) (n_of_int 4) [] in
  match step (OpenVol (n_of_int slot)) s with
  | (Ok _, s1) ->
    (match s1.s_vols with
     | [v] ->
       let fsz = bpb_fat_size (disk_get s1.s_disk v.v_lba) in
       print_endline (if crash_inv_fast fsck_depth fsz s1.s_disk v then "CRASHCK ok" else "CRASHCK bad")
     | _ -> print_endline "CRASHCK nomount")
  | _ -> print_endline "CRASHCK nomount"

(* runfsck <script>: run the script on the model and decide the invariant on the model's state after every call *)
let run_fsck path =
  let ic = open_in path in
  let state = ref None in
  let cfg = ref (1, 4, 4, 5000) and faults = ref [] and img = ref PositiveMap.empty in
  let get_state () = match !state with
    | Some s -> s
    | None -> let (mv, md, mf, off) = !cfg in
      let s = init_state !img (n_of_int off) (n_of_int mv) (n_of_int md) (n_of_int mf) (List.map n_of_int !faults) in
      state := Some s; s in
  let dead = ref false and last = ref "novol" and last_key = ref None in
  (try while true do
     let line = String.trim (input_line ic) in
     let toks = List.filter (fun x -> x <> "") (String.split_on_char ' ' line) in
     match toks with
     | [] -> ()
     | "#" :: _ -> ()
     | ["CFG"; mv; md; mf; off] -> cfg := (int_of_string mv, int_of_string md, int_of_string mf, int_of_string off)
     | "FAULTS" :: l -> faults := List.map int_of_string l
     | ["IMG"; p] -> img := load_image p
     | nstr :: rest when not !dead ->
         let n = int_of_string nstr in
         let rec split acc = function
           | ["->"; s] -> (List.rev acc, Some s)
           | x :: r -> split (x :: acc) r
           | [] -> (List.rev acc, None) in
         let (optoks, bind) = split [] rest in
         let o = parse_xop optoks in
         let s0 = { (get_state ()) with s_trace = [] } in
         let (out, s1) = xstep o s0 in
         (match out with
          | Ok r ->
            (match bind, r with
             | Some sl, XR (RHandle hh) -> Hashtbl.replace slots sl (int_of_n hh)
             | _ -> ())
          | Err _ -> ()
          | Panic | OutOfFuel -> dead := true);
         state := Some s1;
         (* the verdict can only change when the medium, the volume table or the file table changed *)
         let wrote = List.exists (function DWrite _ -> true | _ -> false) s1.s_trace in
         let key = (List.length s1.s_vols, List.map (fun (f : fileinfo) -> (f.f_id, f.f_entry.e_cluster)) s1.s_files) in
         if wrote || Some key <> !last_key then begin last_key := Some key; last := fsck_state s1 end;
         Printf.printf "FSCK %d %s\n" n !last
     | _ -> ()
   done with End_of_file -> ());
  close_in ic

let () =
  match Array.to_list Sys.argv with
  | [_; "run"; path] -> run_script path
  | [_; "runfsck"; path] -> run_fsck path
  | [_; "crashck"; path; slot] -> crashck_image path (int_of_string slot)
  | _ :: "fsck" :: path :: slot :: pend -> fsck_image path (int_of_string slot) (List.map int_of_string pend)
  | _ -> prerr_endline "usage: modelrun-fs run <script>"; exit 2
