(* model-side driver for C12/C13/C14: reads scenario lines on stdin, prints canonical lines.
   Trusted glue: int <-> extracted N conversion, parsing, trace printing (run-length
   collapsing identical to harness/src/bin/sdrun.rs), rolling digest. *)
open Sdx

let rec pos_of_int i = if i = 1 then XH else if i land 1 = 0 then XO (pos_of_int (i lsr 1)) else XI (pos_of_int (i lsr 1))
let n_of_int i = if i = 0 then N0 else Npos (pos_of_int i)
let rec int_of_pos = function XH -> 1 | XO p -> 2 * int_of_pos p | XI p -> 2 * int_of_pos p + 1
let int_of_n = function N0 -> 0 | Npos p -> int_of_pos p
let rec nat_of_int i = if i = 0 then O else S (nat_of_int (i - 1))
(* decimal string of an N that may exceed 62 bits (num_bytes is a u64) *)
let string_of_n (x : n) : string =
  (* little-endian bit list -> decimal via repeated doubling on a digit array *)
  let rec bits = function XH -> [1] | XO p -> 0 :: bits p | XI p -> 1 :: bits p in
  match x with
  | N0 -> "0"
  | Npos p ->
    let bl = List.rev (bits p) in
    let digits = ref [0] in   (* little-endian decimal digits *)
    List.iter (fun b ->
      let carry = ref b in
      digits := List.map (fun d -> let v = 2 * d + !carry in carry := v / 10; v mod 10) !digits;
      if !carry > 0 then digits := !digits @ [!carry]) bl;
    String.concat "" (List.rev_map string_of_int !digits)

let byte_tab = Array.init 256 n_of_int
let nb i = byte_tab.(i land 255)

let hex_of_ints (l : int list) = let b = Buffer.create 64 in List.iter (fun x -> Buffer.add_string b (Printf.sprintf "%02x" x)) l; Buffer.contents b
let ints_of_hex s = List.init (String.length s / 2) (fun i -> int_of_string ("0x" ^ String.sub s (2 * i) 2))

(* rle: "-" = empty; comma separated tokens "hh*count" or a plain hex string *)
let ints_of_rle (s : string) : int list =
  if s = "-" || s = "" then [] else
  List.concat_map (fun tok ->
    match String.index_opt tok '*' with
    | Some k -> let b = int_of_string ("0x" ^ String.sub tok 0 k) in
                let c = int_of_string (String.sub tok (k + 1) (String.length tok - k - 1)) in
                List.init c (fun _ -> b)
    | None -> ints_of_hex tok) (String.split_on_char ',' s)

let prime = 2147483647
let step h r = (h * 1000003 + r + 1) mod prime
let digest_ints l = List.fold_left step 0 l

(* deterministic block payload, same formula in sdrun.rs and props/sdcommon.py *)
let gen_byte seed i j = (((seed + i * 977 + 1) * 1103515245 + j * 12345 + j * j * 7) lsr 8) land 255
let gen_block seed i = List.init 512 (fun j -> gen_byte seed i j)

(* ---- trace printing ---------------------------------------------------- *)
type unit_line = string
let line_of_event (e : event) : string * bool (* is 1-byte transfer *) * bool (* is delay *) =
  let Ev (c, r) = e in
  let h l = hex_of_ints (List.rev (List.rev_map int_of_n l)) in
  match c, r with
  | DelayUs us, _ -> (Printf.sprintf "D %d" (int_of_n us), false, true)
  | Write o, Bytes m -> (Printf.sprintf "W %s %s" (h o) (h m), false, false)
  | Transfer o, Bytes m -> (Printf.sprintf "T %s %s" (h o) (h m), List.length o = 1, false)
  | TransferInPlace o, Bytes m -> (Printf.sprintf "I %s %s" (h o) (h m), false, false)
  | Write o, Fail -> (Printf.sprintf "F W %s" (h o), false, false)
  | Transfer o, Fail -> (Printf.sprintf "F T %s" (h o), false, false)
  | TransferInPlace o, Fail -> (Printf.sprintf "F I %s" (h o), false, false)

(* events oldest first -> units: a 1-byte T followed by D becomes one "P" unit; equal
   consecutive units are merged with a repeat count *)
let print_trace (evs : event list) =
  let lines = Array.map line_of_event (Array.of_list evs) in
  let n = Array.length lines in
  let units = ref [] in
  let i = ref 0 in
  while !i < n do
    let (l, one, _) = lines.(!i) in
    if one && !i + 1 < n && (let (_, _, d) = lines.(!i + 1) in d) then begin
      let (l2, _, _) = lines.(!i + 1) in
      units := ("P" ^ String.sub l 1 (String.length l - 1) ^ " " ^ String.sub l2 2 (String.length l2 - 2)) :: !units;
      i := !i + 2 end
    else begin units := l :: !units; i := !i + 1 end
  done;
  let us = List.rev !units in
  let flush cur cnt = match cur with
    | None -> ()
    | Some l -> if cnt > 1 then Printf.printf "%s *%d\n" l cnt else print_endline l in
  let cur = ref None and cnt = ref 0 in
  List.iter (fun l ->
    if !cur = Some l then incr cnt else begin flush !cur !cnt; cur := Some l; cnt := 1 end) us;
  flush !cur !cnt

let string_of_error = function
  | Transport -> "Transport" | CantEnableCRC -> "CantEnableCRC" | TimeoutReadBuffer -> "TimeoutReadBuffer"
  | TimeoutWaitNotBusy -> "TimeoutWaitNotBusy"
  | TimeoutCommand c -> Printf.sprintf "TimeoutCommand(%d)" (int_of_n c)
  | TimeoutACommand c -> Printf.sprintf "TimeoutACommand(%d)" (int_of_n c)
  | Cmd58Error -> "Cmd58Error" | RegisterReadError -> "RegisterReadError"
  | CrcError (a, b) -> Printf.sprintf "CrcError(%d,%d)" (int_of_n a) (int_of_n b)
  | ReadError -> "ReadError" | WriteError -> "WriteError" | BadState -> "BadState"
  | CardNotFound -> "CardNotFound" | GpioError -> "GpioError"

let string_of_value = function
  | VUnit -> "unit"
  | VBlocks l -> Printf.sprintf "blocks %d %d" (List.length l) (digest_ints (List.concat_map (List.map int_of_n) l))
  | VNum x -> "num " ^ string_of_n x
  | VBool b -> if b then "bool true" else "bool false"
  | VType None -> "type None"
  | VType (Some SD1) -> "type SD1" | VType (Some SD2) -> "type SD2" | VType (Some SDHC) -> "type SDHC"

let parse_call (s : string) : api_call =
  match String.split_on_char ':' s with
  | ["r"; n; idx] | ["rd"; n; idx] -> CRead (nat_of_int (int_of_string n), n_of_int (int_of_string idx))
  | ["w"; idx; n; seed] ->
      let n = int_of_string n and seed = int_of_string seed in
      CWrite (List.init n (fun i -> List.map nb (gen_block seed i)), n_of_int (int_of_string idx))
  | ["nb"] -> CNumBlocks | ["ny"] -> CNumBytes | ["es"] -> CEraseSingle
  | ["mu"] -> CMarkUninit | ["gt"] -> CGetType
  | _ -> failwith ("bad call " ^ s)

let parse_fails (s : string) : n -> bool =
  if s = "-" then (fun _ -> false) else
  let items = List.map (fun t ->
    if String.length t > 0 && t.[String.length t - 1] = '+'
    then (int_of_string (String.sub t 0 (String.length t - 1)), true)
    else (int_of_string t, false)) (String.split_on_char ',' s) in
  fun k -> let k = int_of_n k in List.exists (fun (v, from) -> if from then k >= v else k = v) items

(* ---- parsing a recorded trace (the canonical lines both runners print) ------ *)
let events_of_lines (lines : string list) : event list =
  let nl s = List.map nb (ints_of_hex s) in
  List.concat_map (fun line ->
    let parts = String.split_on_char ' ' (String.trim line) in
    let parts, count =
      match List.rev parts with
      | last :: rest when String.length last > 1 && last.[0] = '*' ->
          (List.rev rest, int_of_string (String.sub last 1 (String.length last - 1)))
      | _ -> (parts, 1) in
    let evs = match parts with
      | ["W"; o; m] -> [Ev (Write (nl o), Bytes (nl m))]
      | ["T"; o; m] -> [Ev (Transfer (nl o), Bytes (nl m))]
      | ["I"; o; m] -> [Ev (TransferInPlace (nl o), Bytes (nl m))]
      | ["D"; us] -> [Ev (DelayUs (n_of_int (int_of_string us)), Bytes [])]
      | ["P"; o; m; us] -> [Ev (Transfer (nl o), Bytes (nl m)); Ev (DelayUs (n_of_int (int_of_string us)), Bytes [])]
      | ["F"; "W"; o] -> [Ev (Write (nl o), Fail)]
      | ["F"; "W"] -> [Ev (Write [], Fail)]
      | ["F"; "T"; o] -> [Ev (Transfer (nl o), Fail)]
      | ["F"; "I"; o] -> [Ev (TransferInPlace (nl o), Fail)]
      | _ -> failwith ("bad trace line " ^ line) in
    List.concat (List.init count (fun _ -> evs))) lines

let read_lines n = List.init n (fun _ -> input_line stdin)

(* card timing draw, same formula in harness/src/bin/sdrun.rs *)
let tval seed stream k max =
  let x = (seed * 1000003 + stream * 7919 + (k mod 1000003) * 104729 + 12345) land 0x3FFFFFFF in
  let x = (x * 1103515245 + 12345) land 0x3FFFFFFF in
  let x = x lxor (x lsr 13) in
  let mode = x mod 8 and y = x lsr 3 in
  if mode < 5 then y mod ((min max 3) + 1) else if mode < 7 then y mod (max + 1) else max

let kind_of_string = function "V1SC" -> V1SC | "V2SC" -> V2SC | _ -> V2HC

let make_card kind csd memseed tseed m =
  let t s = fun k -> nat_of_int (tval tseed s (int_of_n k) m.(s)) in
  let tim = { t_ncr = t 0; t_nac = t 1; t_busy_w = t 2; t_busy_c = t 3; t_init = t 4 } in
  power_on (kind_of_string kind) (List.map nb (ints_of_hex csd)) tim
    (fun b -> List.map nb (gen_block memseed (int_of_n b)))

(* replay the recorded MOSI into the extracted LEGALCARD, compare its MISO with the recording *)
let replay_card kind csd memseed tseed m lines =
  let c = ref (make_card kind csd memseed tseed m) in
  let nev = ref 0 and nbytes = ref 0 in
  (try
    List.iter (fun e ->
      let Ev (call, reply) = e in
      let (c', r) = card_spi !c call in
      c := c';
      (match call, reply, r with
       | DelayUs _, _, _ -> ()
       | (Write o | Transfer o | TransferInPlace o), Bytes exp, Bytes got ->
           nbytes := !nbytes + List.length o;
           if List.map int_of_n exp <> List.map int_of_n got then begin
             Printf.printf "CARD diff event %d mosi %s recorded %s legalcard %s\n" !nev
               (hex_of_ints (List.map int_of_n o)) (hex_of_ints (List.map int_of_n exp)) (hex_of_ints (List.map int_of_n got));
             raise Exit end
       | _ -> Printf.printf "CARD diff event %d failed call in trace\n" !nev; raise Exit);
      incr nev) (events_of_lines lines);
    Printf.printf "CARD ok %d %d\n" !nev !nbytes
  with Exit -> ())

let run_scenario id crc retries miso pad fails calls =
  let o = { use_crc = (crc = "1"); acquire_retries = n_of_int (int_of_string retries) } in
  let d0 = { o_miso = List.rev (List.rev_map nb (ints_of_rle miso)); o_pad = nb (int_of_string ("0x" ^ pad));
             o_calln = N0; o_fails = parse_fails fails } in
  let s = ref (init_st d0) in
  Printf.printf "B %s\n" id;
  (try
    List.iteri (fun k cs ->
      (* "sw:<csd>" exchanges the card in the simulator's slot: not a driver call *)
      if String.length cs >= 2 && String.sub cs 0 2 = "sw" then Printf.printf "R %d ok unit\n" k else
      let c = parse_call cs in
      let (r, s') = api oracle_spi o c !s in
      print_trace (List.rev s'.tr);
      Printf.printf "O cost %d %s %s\n" k (string_of_int (List.fold_left (fun acc e -> let Ev (c, _) = e in acc + int_of_n (call_bytes c)) 0 s'.tr)) (string_of_n (bound o c));
      s := { dev = s'.dev; tr = []; ctype = s'.ctype };
      (match r with
       | Ok v -> Printf.printf "R %d ok %s\n" k (string_of_value v)
       | Err e -> Printf.printf "R %d err %s\n" k (string_of_error e)
       | Panic -> Printf.printf "R %d panic\n" k; raise Exit))
      (if calls = "-" then [] else String.split_on_char ';' calls)
  with Exit -> ());
  Printf.printf "E %s\n" id

let () =
  try
    while true do
      let line = input_line stdin in
      match String.split_on_char ' ' (String.trim line) with
      | ["S"; id; crc; retries; "raw"; miso; pad; fails; calls] ->
          run_scenario id crc retries miso pad fails calls
      | ["CAP"; hex] ->
          let d = List.map nb (ints_of_hex hex) in
          let p = function Ok v -> string_of_n v | Err _ -> "err" | Panic -> "panic" in
          Printf.printf "CAP %s %s %s %s\n" (p (v1_capacity_blocks d)) (p (v1_capacity_bytes d))
            (p (v2_capacity_blocks d)) (p (v2_capacity_bytes d))
      | ["ACCEPT"; lenient; n] ->
          let lines = read_lines (int_of_string n) in
          let (code, idx) = accept_code (lenient = "1") (events_of_lines lines) in
          Printf.printf "ACC %d %d\n" (int_of_n code) (int_of_n idx)
      | ["CARD"; kind; csd; memseed; tseed; m0; m1; m2; m3; m4; n] ->
          let lines = read_lines (int_of_string n) in
          replay_card kind csd (int_of_string memseed) (int_of_string tseed)
            (Array.map int_of_string [| m0; m1; m2; m3; m4 |]) lines
      | ["SPECCAP"; hex] ->
          let d = List.map nb (ints_of_hex hex) in
          Printf.printf "SPECCAP %s %s\n" (string_of_n (spec_capacity_blocks d)) (string_of_n (spec_capacity_bytes d))
      | [""] -> ()
      | _ -> Printf.printf "ERR bad command %s\n" (if String.length line > 80 then String.sub line 0 80 else line)
    done
  with End_of_file -> ()
