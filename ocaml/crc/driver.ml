(* model-side driver for C19: reads commands on stdin, prints canonical lines.
   Trusted glue: int <-> extracted N conversion, parsing, rolling digest. *)
open Crcx

let rec pos_of_int i = if i = 1 then XH else if i land 1 = 0 then XO (pos_of_int (i lsr 1)) else XI (pos_of_int (i lsr 1))
let n_of_int i = if i = 0 then N0 else Npos (pos_of_int i)
let rec int_of_pos = function XH -> 1 | XO p -> 2 * int_of_pos p | XI p -> 2 * int_of_pos p + 1
let int_of_n = function N0 -> 0 | Npos p -> int_of_pos p

let rec list_of_idx len k acc = if len = 0 then acc else list_of_idx (len - 1) (k lsr 8) (n_of_int (k land 255) :: acc)
let bytes_of_hex s =
  let n = String.length s / 2 in
  List.init n (fun i -> n_of_int (int_of_string ("0x" ^ String.sub s (2 * i) 2)))

let prime = 2147483647
let step h r = (h * 1000003 + r + 1) mod prime

let () =
  try
    while true do
      let line = input_line stdin in
      match String.split_on_char ' ' (String.trim line) with
      | ["E"; len; start; count; stride] ->
          let len = int_of_string len and start = int_of_string start
          and count = int_of_string count and stride = int_of_string stride in
          let h7 = ref 0 and h16 = ref 0 in
          for t = 0 to count - 1 do
            let m = list_of_idx len (start + t * stride) [] in
            h7 := step !h7 (int_of_n (crc7 m));
            h16 := step !h16 (int_of_n (crc16 m));
            if (t + 1) mod 4096 = 0 || t = count - 1 then begin
              Printf.printf "D %d %d %d\n" (t + 1) !h7 !h16; h7 := 0; h16 := 0 end
          done
      | ["L"; len; start; count; stride] ->
          let len = int_of_string len and start = int_of_string start
          and count = int_of_string count and stride = int_of_string stride in
          for t = 0 to count - 1 do
            let m = list_of_idx len (start + t * stride) [] in
            Printf.printf "R %d %d %d\n" (start + t * stride) (int_of_n (crc7 m)) (int_of_n (crc16 m))
          done
      | ["M"; hex] ->
          let m = bytes_of_hex hex in
          Printf.printf "R %d %d\n" (int_of_n (crc7 m)) (int_of_n (crc16 m))
      | ["M"] -> Printf.printf "R %d %d\n" (int_of_n (crc7 [])) (int_of_n (crc16 []))
      | ["S"; hex] ->
          let m = bytes_of_hex hex in
          Printf.printf "R %d %d\n" (int_of_n (crc7_spec m)) (int_of_n (crc16_spec m))
      | ["S"] -> Printf.printf "R %d %d\n" (int_of_n (crc7_spec [])) (int_of_n (crc16_spec []))
      | [""] -> ()
      | _ -> Printf.printf "ERR bad command %s\n" line
    done
  with End_of_file -> ()
