(* model-side driver for C17: reads commands on stdin, prints canonical lines.
   Trusted glue: int <-> extracted N / nat conversion, hex parsing, printing. *)
open Lfnx

let rec pos_of_int i = if i = 1 then XH else if i land 1 = 0 then XO (pos_of_int (i lsr 1)) else XI (pos_of_int (i lsr 1))
let n_of_int i = if i = 0 then N0 else Npos (pos_of_int i)
let rec int_of_pos = function XH -> 1 | XO p -> 2 * int_of_pos p | XI p -> 2 * int_of_pos p + 1
let int_of_n = function N0 -> 0 | Npos p -> int_of_pos p
let rec nat_of_int i = if i = 0 then O else S (nat_of_int (i - 1))

let hexval s i len = int_of_string ("0x" ^ String.sub s i len)
let bytes_of_hex s = List.init (String.length s / 2) (fun i -> n_of_int (hexval s (2 * i) 2))
let units_of_hex s = List.init (String.length s / 4) (fun i -> n_of_int (hexval s (4 * i) 4))
let hex_of_bytes l = String.concat "" (List.map (fun b -> Printf.sprintf "%02x" (int_of_n b)) l)
let hex_of_units l = String.concat "" (List.map (fun b -> Printf.sprintf "%04x" (int_of_n b)) l)
let b01 b = if b then "1" else "0"

let prime = 2147483647
let step h r = (h * 1000003 + r + 1) mod prime

let print_reports csumf reps =
  List.iter (fun (name, l) ->
    match l with
    | Some s -> Printf.printf "E %s %d lfn=%s\n" (hex_of_bytes name) (int_of_n (csumf name)) (hex_of_bytes s)
    | None -> Printf.printf "E %s %d nolfn\n" (hex_of_bytes name) (int_of_n (csumf name))) reps

let () =
  try
    while true do
      let line = input_line stdin in
      match String.split_on_char ' ' (String.trim line) with
      | "P" :: n :: toks ->
          let n = int_of_string n in
          let st = ref (Some (lfn_new (List.init n (fun _ -> N0)))) in
          let outs = ref [] in
          List.iter (fun t ->
            match !st with
            | None -> ()
            | Some s ->
                let s' = if t = "c" then Ok (lfn_clear s) else lfn_push s (units_of_hex t) in
                (match s' with
                 | Panic -> st := None; outs := "panic" :: !outs
                 | Ok s2 ->
                     (match lfn_as_str s2 with
                      | Panic -> st := None; outs := "panic" :: !outs
                      | Ok b -> st := Some s2; outs := hex_of_bytes b :: !outs))) toks;
          Printf.printf "R=%s\n" (String.concat "/" (List.rev !outs))
      | "S" :: n :: toks ->
          let n = nat_of_int (int_of_string n) in
          let frags = List.rev (List.map units_of_hex toks) in   (* name order *)
          Printf.printf "S=%s K=%s KN=%s\n" (hex_of_bytes (lfn_spec n frags)) (b01 (knownClass frags)) (b01 (knownClassN n frags))
      | "T" :: n :: toks ->
          (* the spec after every call of a history: S:K:KN per call, joined by / *)
          let n = nat_of_int (int_of_string n) in
          let pushed = ref [] in   (* fragments pushed since the last clear, newest first = name order *)
          let outs = List.map (fun t ->
            if t = "c" then pushed := [] else pushed := units_of_hex t :: !pushed;
            Printf.sprintf "%s:%s:%s" (hex_of_bytes (lfn_spec n !pushed)) (b01 (knownClass !pushed)) (b01 (knownClassN n !pushed))) toks in
          Printf.printf "T=%s\n" (String.concat "/" outs)
      | ["L"; _n] -> Printf.printf "L=\n"
      | "L" :: _n :: toks ->
          let frags = List.rev (List.map units_of_hex toks) in
          Printf.printf "L=%s\n" (hex_of_bytes (utf8 (lossy (name_units frags))))
      | ["V"] -> Printf.printf "V=%s\n" (b01 (valid_utf8 []))
      | ["V"; hex] -> Printf.printf "V=%s\n" (b01 (valid_utf8 (bytes_of_hex hex)))
      | ("D" | "F") :: n :: toks ->
          let n = int_of_string n in
          let slots = List.map bytes_of_hex toks in
          (match listing slots (lfn_new (List.init n (fun _ -> N0))) with
           | Panic -> Printf.printf "END panic\n"
           | Ok reps -> print_reports csum reps; Printf.printf "END ok\n")
      | "G" :: n :: toks ->
          let n = nat_of_int (int_of_string n) in
          let slots = List.map bytes_of_hex toks in
          List.iter (fun (name, l) ->
            match l with
            | Some (s, k) -> Printf.printf "E %s %d lfn=%s%s\n" (hex_of_bytes name) (int_of_n (spec_csum name)) (hex_of_bytes s) (if k then " K" else "")
            | None -> Printf.printf "E %s %d nolfn\n" (hex_of_bytes name) (int_of_n (spec_csum name)))
            (spec_listing n slots);
          Printf.printf "END ok\n"
      | ["C"; hex] ->
          (match lfn_contents (bytes_of_hex hex) with
           | None -> Printf.printf "C none\n"
           | Some (((start, seq), cs), units) ->
               Printf.printf "C %s %d %d %s\n" (b01 start) (int_of_n seq) (int_of_n cs) (hex_of_units units))
      | ["U"] -> Printf.printf "U=\n"
      | ["U"; hex] ->
          let items = decode_utf16 (units_of_hex hex) in
          Printf.printf "U=%s\n" (String.concat "," (List.map (function
            | IOk c -> Printf.sprintf "o%x:%s" (int_of_n c) (hex_of_bytes (encode_utf8 c))
            | IErr u -> Printf.sprintf "e%x" (int_of_n u)) items))
      | ["X"; start; count; stride] ->
          (* digest of encode_utf8 over scalar values start, start+stride, ... (surrogates skipped) *)
          let start = int_of_string start and count = int_of_string count and stride = int_of_string stride in
          let h = ref 0 in
          for t = 0 to count - 1 do
            let c = start + t * stride in
            if c < 0x110000 && not (c >= 0xD800 && c <= 0xDFFF) then
              List.iter (fun b -> h := step !h (int_of_n b)) (encode_utf8 (n_of_int c));
            h := step !h 256;
            if (t + 1) mod 4096 = 0 || t = count - 1 then begin Printf.printf "X %d %d\n" (t + 1) !h; h := 0 end
          done
      | [""] -> ()
      | _ -> Printf.printf "ERR bad command %s\n" line
    done
  with End_of_file -> ()
