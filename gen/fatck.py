"""Independent FAT reader / checker written from the FAT specification (spec side; shares no
code with the crate or with the Gallina model).  Works on a sparse device image
(dict block -> bytes).  Used as the failing-input search (oracle) of the file-system checks:
  mount(dev, slot)            -> Geo
  fsck(dev, geo, pending)     -> (problems, tree, reachable)   structural soundness (C03)
  crash_ck(dev, geo)          -> problems                       what a power cut may leave (C10)
  used_clusters / fat_copies_equal / info_record                (C05, C16)
"""
import struct

def u16(b, o): return struct.unpack_from("<H", b, o)[0]
def u32(b, o): return struct.unpack_from("<I", b, o)[0]
ZERO = bytes(512)

class Geo:
    pass

def blk(dev, i):
    return dev.get(i, ZERO)

def mount(dev, slot):
    mbr = blk(dev, 0)
    if u16(mbr, 510) != 0xAA55:
        return None
    p = 446 + 16 * slot
    g = Geo()
    g.lba, g.psize = u32(mbr, p + 8), u32(mbr, p + 12)
    bs = blk(dev, g.lba)
    if u16(bs, 510) != 0xAA55 or u16(bs, 11) != 512:
        return None
    g.spc, g.reserved, g.nfats = bs[13], u16(bs, 14), bs[16]
    g.root_entries = u16(bs, 17)
    g.total = u16(bs, 19) or u32(bs, 32)
    g.fat_size = u16(bs, 22) or u32(bs, 36)
    g.root_blocks = (g.root_entries * 32 + 511) // 512
    g.fat_start = g.lba + g.reserved
    g.root_start = g.fat_start + g.nfats * g.fat_size
    g.data_start = g.root_start + g.root_blocks
    if g.spc == 0:
        return None
    g.N = (g.total - (g.reserved + g.nfats * g.fat_size + g.root_blocks)) // g.spc
    g.fat32 = g.N >= 65525
    g.root_cluster = u32(bs, 44) if g.fat32 else 0
    g.info_block = g.lba + u16(bs, 48) if g.fat32 else None
    g.end = g.lba + g.total
    g.data_end = g.data_start + g.N * g.spc
    g.bpc = g.spc * 512
    return g

def fat_get(dev, g, c, copy=0):
    off = c * (4 if g.fat32 else 2)
    b = blk(dev, g.fat_start + copy * g.fat_size + off // 512)
    return (u32(b, off % 512) & 0x0FFFFFFF) if g.fat32 else u16(b, off % 512)

def is_eoc(g, e):
    return e >= (0x0FFFFFF8 if g.fat32 else 0xFFF8)
def is_bad(g, e):
    return e == (0x0FFFFFF7 if g.fat32 else 0xFFF7)

def chain(dev, g, first, problems, what, owner, owned):
    """walk a chain; records problems; returns the list of clusters"""
    out = []
    c = first
    seen = set()
    while True:
        if c < 2 or c >= g.N + 2:
            problems.append("%s: chain reaches out-of-range cluster %d" % (what, c)); break
        if c in seen:
            problems.append("%s: chain is cyclic at cluster %d" % (what, c)); break
        if c in owned and owned[c] != owner:
            problems.append("%s: cluster %d shared with %s" % (what, c, owned[c])); break
        seen.add(c); owned[c] = owner; out.append(c)
        e = fat_get(dev, g, c)
        if is_eoc(g, e):
            break
        if e == 0:
            problems.append("%s: chain passes through free entry after cluster %d" % (what, c)); break
        if is_bad(g, e):
            problems.append("%s: chain passes through bad entry after cluster %d" % (what, c)); break
        if e == 1:
            problems.append("%s: chain passes through reserved entry after cluster %d" % (what, c)); break
        c = e
    return out

def cluster_blocks(g, c):
    return [g.data_start + (c - 2) * g.spc + k for k in range(g.spc)]

def dir_slots(dev, g, blocks):
    for b in blocks:
        data = blk(dev, b)
        for o in range(0, 512, 32):
            yield b, o, data[o:o + 32]

class Entry:
    def __init__(self, sl, b, o, g):
        self.name, self.attr = bytes(sl[0:11]), sl[11]
        self.cluster = (u16(sl, 26) | (u16(sl, 20) << 16)) if g.fat32 else u16(sl, 26)
        self.size = u32(sl, 28)
        self.ctime, self.cdate, self.mtime, self.mdate = u16(sl, 14), u16(sl, 16), u16(sl, 22), u16(sl, 24)
        self.block, self.offset, self.raw = b, o, bytes(sl)
        self.children, self.data, self.chain = None, None, []
    @property
    def is_dir(self): return bool(self.attr & 0x10) and not (self.attr & 0x08)
    @property
    def is_lfn(self): return (self.attr & 0x0F) == 0x0F
    @property
    def is_label(self): return bool(self.attr & 0x08) and not self.is_lfn

def read_dir(dev, g, blocks, problems, what):
    """live entries before the end marker; checks nothing but zero first bytes follow it"""
    live, ended = [], False
    for b, o, sl in dir_slots(dev, g, blocks):
        if ended:
            if sl[0] != 0:
                problems.append("%s: entry after the end-of-directory marker at block %d offset %d" % (what, b, o))
            continue
        if sl[0] == 0:
            ended = True
        elif sl[0] != 0xE5:
            live.append(Entry(sl, b, o, g))
    return live

def fsck(dev, g, pending=None, read_data=True, max_depth=8):
    """pending: {(entry_block, entry_offset): (first_cluster, size)} of still-open files.
    returns (problems, root entries tree, owned map cluster->owner)"""
    pending = pending or {}
    problems, owned = [], {}
    def walk(blocks, path, self_cluster, parent_cluster, depth):
        ents = read_dir(dev, g, blocks, problems, path or "/")
        names = {}
        out = []
        for e in ents:
            if e.is_lfn or e.is_label:
                out.append(e); continue
            if e.name in names:
                problems.append("%s: duplicate name %r" % (path or "/", e.name))
            names[e.name] = 1
            p = path + "/" + e.name.decode("latin-1").strip()
            first, size = e.cluster, e.size
            if (e.block, e.offset) in pending:
                first, size = pending[(e.block, e.offset)]
            if e.name[:2] in (b". ", b".."):
                if not e.is_dir:
                    problems.append("%s: dot entry is not a directory" % p)
                want = self_cluster if e.name[:2] == b". " else parent_cluster
                if e.cluster != want:
                    problems.append("%s: dot entry points to cluster %d, expected %d" % (p, e.cluster, want))
                out.append(e); continue
            if e.is_dir:
                if first == 0:
                    problems.append("%s: sub-directory entry without its own cluster" % p)
                    out.append(e); continue
                e.chain = chain(dev, g, first, problems, p, p, owned)
                if depth < max_depth:
                    sub = [b for c in e.chain for b in cluster_blocks(g, c)]
                    e.children = walk(sub, p, first, self_cluster, depth + 1)
                    dots = [x.name[:2] for x in e.children[:2]]
                    if dots != [b". ", b".."]:
                        problems.append("%s: directory does not start with dot and dot-dot entries" % p)
            else:
                if first == 0:
                    if size != 0:
                        problems.append("%s: size %d but no cluster" % (p, size))
                else:
                    e.chain = chain(dev, g, first, problems, p, p, owned)
                    if len(e.chain) * g.bpc < size:
                        problems.append("%s: chain of %d clusters too short for size %d" % (p, len(e.chain), size))
                    if read_data and size <= (64 << 20):
                        raw = b"".join(blk(dev, b) for c in e.chain for b in cluster_blocks(g, c))
                        e.data = raw[:size]
            out.append(e)
        return out
    if g.fat32:
        rc = chain(dev, g, g.root_cluster, problems, "/", "/", owned)
        root_blocks = [b for c in rc for b in cluster_blocks(g, c)]
    else:
        root_blocks = [g.root_start + i for i in range(g.root_blocks)]
    tree = walk(root_blocks, "", 0, 0, 0)
    return problems, tree, owned

def used_clusters(dev, g):
    return {c for c in range(2, g.N + 2) if fat_get(dev, g, c) != 0}

def fat_copies_equal(dev, g):
    bad = []
    for f in range(1, g.nfats):
        for s in range(g.fat_size):
            if blk(dev, g.fat_start + s) != blk(dev, g.fat_start + f * g.fat_size + s):
                bad.append((f, s))
    return bad

def info_record(dev, g):
    if not g.fat32:
        return None
    b = blk(dev, g.info_block)
    return u32(b, 488), u32(b, 492)

def flatten(tree, path=""):
    """{path: entry} for files and dirs (not LFN/label/dot)"""
    out = {}
    for e in tree:
        if e.is_lfn or e.is_label or e.name[:2] in (b". ", b".."):
            continue
        p = path + "/" + e.name.decode("latin-1").rstrip()
        out[p] = e
        if e.children is not None:
            out.update(flatten(e.children, p))
    return out

def crash_ck(dev, g, stale_marker=b"STALE"):
    """what may be left by a power cut: lost clusters and stale sizes are fine; anything else is a problem"""
    problems, tree, owned = fsck(dev, g, read_data=False)
    keep = []
    for p in problems:
        if "too short for size" in p or "but no cluster" in p:
            continue        # a size not yet updated
        keep.append(p)
    def stale(t, path):
        for e in t:
            if e.name.startswith(stale_marker):
                keep.append("%s: directory exposes uninitialised cluster contents as entry %r" % (path or "/", e.name))
            if e.children is not None:
                stale(e.children, path + "/" + e.name.decode("latin-1").strip())
    stale(tree, "")
    return keep
