#!/bin/sh
# run every property's quick check once (after any change to /repo or to shared machinery); prints one line per check
cd "$(dirname "$0")/.."
mkdir -p build/tmp
for p in C01 C02 C03 C04 C05 C06 C07 C08 C09 C10 C11 C12 C13 C14 C15 C16 C17 C18 C19; do
  s=$(date +%s)
  ./check $p --tier quick > build/tmp/allq-$p.log 2>&1; rc=$?
  e=$(date +%s)
  echo "$p rc=$rc $((e-s))s $(grep -c '^VIOLATION' build/tmp/allq-$p.log) violations $(grep -c '^KNOWN-FINDING' build/tmp/allq-$p.log) known"
done
