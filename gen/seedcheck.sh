#!/bin/sh
# gen/seedcheck.sh <dir with wt/ patch.diff seeded_demo.rs> <Cxx> [more checks...]
# confirms a seeded change (suite green with it, demo fails with it, demo passes without it), then runs the
# given checks against the scratch worktree (VERIF_REPO) and prints one summary line per step.
D=$1; shift
V=$(cd "$(dirname "$0")/.." && pwd)
export CARGO_NET_OFFLINE=true
cd "$D/wt" || exit 2
git apply -R --check ../patch.diff 2>/dev/null || git apply ../patch.diff
cp ../seeded_demo.rs tests/seeded_demo.rs
cargo test --workspace --no-fail-fast --offline > ../suite_with.log 2>&1
with_fail=$(grep -E "^test result: FAILED|^error: test failed" ../suite_with.log | wc -l)
failed_targets=$(grep -E "^error: test failed, to rerun pass" ../suite_with.log | sed 's/.*pass //' | tr '\n' ' ')
echo "SUITE-WITH-CHANGE failing targets: [$failed_targets]"
git apply -R ../patch.diff
cargo test --offline --test seeded_demo > ../demo_without.log 2>&1; echo "DEMO-WITHOUT-CHANGE rc=$?"
git apply ../patch.diff
rm -rf target
cd "$V"
for p in "$@"; do
  VERIF_REPO="$D/wt" ./check $p --tier quick > "$D/check-$p.log" 2>&1; rc=$?
  echo "CHECK $p rc=$rc: $(grep -E '^# |^VIOLATION' "$D/check-$p.log" | head -4 | cut -c1-300 | tr '\n' '|')"
done
tag=$(python3 -c "import hashlib,os,sys;print(hashlib.sha1(os.path.realpath(sys.argv[1]).encode()).hexdigest()[:10])" "$D/wt")
rm -rf "$V/build/harness-$tag"
