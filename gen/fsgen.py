"""Seeded generators of file-system scenarios: (image recipe, limits, faults, op script).
Structured, mostly-valid histories from a weighted grammar that tracks a shadow state, plus a
malformed stream (stale handles, bad names, wrong kinds, limits, re-entrancy)."""
import os, sys
sys.path.insert(0, os.path.dirname(os.path.abspath(__file__)))
import fatimg

LIMITS = [(1, 4, 4), (1, 1, 1), (2, 2, 2), (2, 4, 4), (3, 8, 8), (8, 1, 3), (4, 3, 1), (2, 5, 2), (1, 2, 8), (1, 8, 2),
          (4, 4, 4), (1, 3, 5), (5, 6, 7), (1, 7, 6)]
MODES = ["RO", "RWA", "RWT", "RWC", "RWCT", "RWCA"]
GOOD_NAMES = ["A.TXT", "B.BIN", "DATA.DAT", "README.MD", "X", "LONGNAME.EXT", "F1", "F2.TMP", "LOG.0", "Z9.Z", "NOTES", "q.c",
              "TE@T", "#$%&'()-.@{}", "~^_`!.-"]      # every legal 8.3 punctuation mark occurs in some name
DIR_NAMES = ["SUB", "D1", "DIR2.X", "DEEP", "E", "D@R.{~}"]
BAD_NAMES = ["", "TOOLONGNAME.TXT", "A.TOOL", "A..B", ".X", "A B", "A*B", "A/B", "Ā.TXT", "åB.TXT", "a+b", "A.B.C", "ABCDEFGHI"]

def hx(s):
    return s.encode("utf-8").hex() if s else "-"

# ---------------------------------------------------------------------------- images
def geometry(rng, kind=None, want=None):
    """returns (name, builder(rng) -> (Image, info dict))"""
    table = [
        ("f16_min", dict(fat32=False, lba=1, spc=1, nclusters=4085, root_entries=512, nfats=2)),
        ("f16_exact", dict(fat32=False, lba=8, spc=1, nclusters=4094, root_entries=16, nfats=2)),
        ("f16_spc8", dict(fat32=False, lba=63, spc=8, nclusters=4100, root_entries=32, nfats=1, tail_slack=5)),
        ("f16_spc2", dict(fat32=False, lba=2048, spc=2, nclusters=5000, root_entries=511, nfats=2, reserved=4)),
        ("f16_spc128", dict(fat32=False, lba=1, spc=128, nclusters=4085, root_entries=512, nfats=2)),
        ("f16_slack", dict(fat32=False, lba=1, spc=1, nclusters=4085, root_entries=512, nfats=2, fat_slack_sectors=1)),
        ("f32_min", dict(fat32=True, lba=1, spc=1, nclusters=65525, nfats=2, info="ok")),
        ("f32_root5", dict(fat32=True, lba=100, spc=2, nclusters=65600, nfats=1, root_cluster=5, info="unknown")),
        ("f32_stale0", dict(fat32=True, lba=1, spc=1, nclusters=65525, nfats=2, info="stale0")),
        ("f32_stalehigh", dict(fat32=True, lba=1, spc=1, nclusters=65525, nfats=2, info="stalehigh")),
        ("f32_oor", dict(fat32=True, lba=1, spc=4, nclusters=65530, nfats=2, info="oor")),
        ("f32_unkcount", dict(fat32=True, lba=1, spc=1, nclusters=65526, nfats=2, info="unknowncount")),
        ("f32_exact", dict(fat32=True, lba=1, spc=1, nclusters=65534, nfats=2, info="ok")),   # (N+2)*4 = 512*512: last FAT sector exactly full
        ("f16_root500", dict(fat32=False, lba=3, spc=1, nclusters=4200, root_entries=500, nfats=2)),   # root region = 31.25 blocks: rounds up to 32
        ("f32_staleused", dict(fat32=True, lba=1, spc=1, nclusters=65525, nfats=2, info="staleused")),
        ("f32_stalelow", dict(fat32=True, lba=1, spc=2, nclusters=65530, nfats=1, info="stalelow")),
    ]
    if kind == "fat16":
        table = [t for t in table if not t[1]["fat32"]]
    elif kind == "fat32":
        table = [t for t in table if t[1]["fat32"]]
    if want:
        table = [t for t in table if t[0] in want]
    return rng.choice(table)

def build_image(rng, geo, populate=1, free_left=None, dirty_free=0, second_partition=False, full_root=False, big_dir=False, exact_dir=False, ensure_big=False, blank_label=None, stale_tail=False, boundary=False):
    """returns (Image, meta) ; meta: tree description for the generators"""
    name, kw = geo
    img = fatimg.Image()
    if blank_label is None:
        blank_label = rng.chance(1, 4)
    kw = dict(kw)
    if blank_label:
        kw["label"] = b" " * 11       # the label then lives only in a root-directory entry (or nowhere)
    if kw.get("fat32") and rng.chance(1, 2):
        kw["high_nibble"] = rng.choice([5, 15, 8])
    v = fatimg.Vol(dirty_free=dirty_free, **kw)
    if not kw["fat32"] and rng.chance(1, 2):
        v.ea_word = rng.choice([3, 0x8000, 0xFFFF, 1])
    meta = dict(geo=name, files={}, dirs={"": v.root}, fat32=kw["fat32"], spc=kw.get("spc", 1), N=v.N, vol=v)
    # a 16-entry FAT16 root has no room for four long-named files, deleted slots and a long-named directory
    small_root = (not kw["fat32"]) and kw.get("root_entries", 512) <= 32
    if populate:
        n = 1 + rng.below(4)
        for i in range(n):
            nm = GOOD_NAMES[i]
            ln = rng.choice([0, 1, 511, 512, 513, v.spc * 512, v.spc * 512 + 1, 3 * v.spc * 512 + 7, rng.below(5000)])
            data = bytes((rng.below(256) for _ in range(min(ln, 20000))))
            node = v.add_file(v.root, nm, data, scatter=rng.below(3), rng=rng,
                              lfn=("long name %d.txt" % i) if (rng.chance(1, 3) and not (small_root and i > 0)) else None,
                              attr=0x21 if (populate > 1 and i == 1) else 0x20)
            meta["files"]["/" + nm] = node
        if ensure_big:
            node = v.add_file(v.root, "BIGGER.BIN", bytes(range(251)) * (v.spc * 9), scatter=1, rng=rng)
            meta["files"]["/BIGGER.BIN"] = node
        if rng.chance(2, 3):
            v.fill_dir_with_deleted(v.root, 1 + rng.below(1 if small_root else 3))
        d = v.add_dir(v.root, "SUB", lfn="Sub Directory" if (rng.chance(1, 2) and not small_root) else None)
        meta["dirs"]["/SUB"] = d
        node = v.add_file(d, "INNER.DAT", bytes(range(256)) * (1 + rng.below(5)), scatter=1, rng=rng)
        meta["files"]["/SUB/INNER.DAT"] = node
        if big_dir:
            for i in range(16 * v.spc * 2 + 3):
                node = v.add_file(d, "F%d.X" % i, b"x" * (i % 3))
                if i % 7 == 0 or i >= 16 * v.spc * 2 - 2:
                    meta["files"]["/SUB/F%d.X" % i] = node
        if rng.chance(1, 2):
            d2 = v.add_dir(d, "DEEP")
            meta["dirs"]["/SUB/DEEP"] = d2
            v.add_file(d2, "LEAF.TXT", b"leaf")
        if rng.chance(1, 2):
            v.add_label_entry(v.root, b"MYLABEL    ")
        if exact_dir:
            # every cluster of SUB (and of a FAT32 root) exactly full: the next create must grow the directory
            i = 0
            while getattr(d, "_used", 0) % (16 * v.spc) != 0:
                v.add_file(d, "P%d.P" % i, b""); i += 1
            if kw["fat32"]:
                while getattr(v.root, "_used", 0) % (16 * v.spc) != 0:
                    v.add_file(v.root, "Q%d.Q" % i, b""); i += 1
    if stale_tail and populate:
        # legal but unusual: slots after the end-of-directory marker that were never scrubbed (in later blocks of the
        # directory's clusters); a reader must not report them
        for dnode in [meta["dirs"].get("/SUB"), v.root if kw["fat32"] else None]:
            if dnode is None:
                continue
            blocks = v.dir_blocks(dnode)
            used = getattr(dnode, "_used", 0)
            first_free_block = used // 16 + 1
            for bi in range(first_free_block, len(blocks)):
                b = v.blk(blocks[bi])
                for o in range(0, 512, 32):
                    b[o:o + 32] = v.entry_bytes(fatimg.sfn11("GHOST%d.OLD" % (o // 32)), 0x20, 0, 0)
    if full_root and not kw["fat32"]:
        used = getattr(v.root, "_used", 0)
        for i in range(v.root_entries - used):
            v.add_file(v.root, "R%d.F" % i, b"")
    if boundary:
        # a filler file ends two clusters below a FAT-sector boundary (an ODD sector follows: FAT16 256 entries per sector,
        # FAT32 128), so the next allocations put a chain's last link and its new end mark into different FAT sectors
        per = 128 if kw["fat32"] else 256
        first = v.free_clusters()[0]
        k = first // per + 1
        if k % 2 == 0:
            k += 1
        tgt = k * per - 2
        if tgt + 8 < v.N and tgt > first:
            node = v.add_file(v.root if not (full_root or small_root) else meta["dirs"].get("/SUB", v.root), "FILLER.BIN", b"", nclusters=tgt - first)
            node.size = 0
    if free_left is not None:
        free = v.free_clusters()
        take = len(free) - free_left
        if take > 0:
            # one big (sparse, all-zero) file that owns the rest of the volume
            node = v.add_file(v.root if not full_root else meta["dirs"].get("/SUB", v.root), "BIG.FIL", b"", nclusters=take)
            node.size = 0
    img.add(rng.below(4) if populate and not second_partition else 0, v)
    if second_partition:
        other = fatimg.Vol(False, lba=v.lba + v.total + 7, spc=1, nclusters=4085, root_entries=16, nfats=1, label=b"CANARY     ")
        other.add_file(other.root, "CANARY.TXT", b"\xC5" * 700)
        slot0 = list(img.vols.keys())[0]
        img.add((slot0 + 1) % 4, other)
        meta["second"] = (slot0 + 1) % 4
    meta["slot"] = list(img.vols.keys())[0]
    return img, meta

# ---------------------------------------------------------------------------- scripts
class Gen:
    def __init__(self, rng, meta, limits, profile):
        self.rng, self.meta, self.lim, self.p = rng, meta, limits, profile
        self.ops = []
        self.nslot = 0
        self.vols, self.dirs, self.files = {}, {}, {}     # slot -> info
        self.closed = []          # stale handles
        self.tree_files = {k: len(v.data) for k, v in meta["files"].items()}
        self.tree_dirs = set(meta["dirs"].keys())
        self.ro_files = {k for k, v in meta["files"].items() if v.attr & 1}
        self.seedc = 0

    def slot(self, pfx):
        self.nslot += 1
        return "$%s%d" % (pfx, self.nslot)
    def emit(self, text, bind=None):
        self.ops.append(text + (" -> " + bind if bind else ""))
    def seed(self):
        self.seedc += 1
        return self.rng.below(1000)
    def lens(self):
        bpc = self.meta["spc"] * 512
        return self.rng.choice([0, 1, 2, 100, 511, 512, 513, 1024, bpc - 1, bpc, bpc + 1, 2 * bpc, 3 * bpc + 7, self.rng.below(3000), self.rng.below(9000)])

    def path_join(self, d, n):
        return (d if d != "/" else "") + "/" + n.upper()

    def step(self):
        r = self.rng
        kinds = self.p["weights"]
        k = r.weighted(list(kinds.items()))
        getattr(self, "g_" + k)()

    # -- generators for each op kind
    def g_openvol(self):
        s = self.slot("v")
        idx = self.meta["slot"] if self.rng.chance(5, 6) else self.rng.below(5)
        if "second" in self.meta and self.rng.chance(1, 3):
            idx = self.meta["second"]
        self.emit("openvol %d" % idx, s)
        if idx == self.meta["slot"] and not any(v == "main" for v in self.vols.values()) and len(self.vols) < self.lim[0]:
            self.vols[s] = "main"
        elif idx == self.meta.get("second") and not any(v == "second" for v in self.vols.values()) and len(self.vols) < self.lim[0]:
            self.vols[s] = "second"
    def main_vol(self):
        for s, v in self.vols.items():
            if v == "main":
                return s
        return None
    def g_openroot(self):
        v = self.main_vol()
        if v is None:
            return self.g_openvol()
        if "second" in self.meta and self.rng.chance(1, 4):
            for s, vv in self.vols.items():
                if vv == "second":
                    v = s
        s = self.slot("d")
        self.emit("openroot %s" % v, s)
        if len(self.dirs) < self.lim[1]:
            self.dirs[s] = ("/" if self.vols[v] == "main" else "//2", v)
    def any_dir(self):
        ds = [s for s, (p, _) in self.dirs.items() if not p.startswith("//")]
        return self.rng.choice(ds) if ds else None
    def g_opendir(self):
        d = self.any_dir()
        if d is None:
            return self.g_openroot()
        p = self.dirs[d][0]
        cands = [x for x in self.tree_dirs if x and os.path.dirname(x) == (p if p != "/" else "/")]
        cands = [x for x in self.tree_dirs if x and (x.rsplit("/", 1)[0] or "/") == p]
        nm = os.path.basename(self.rng.choice(cands)) if cands and self.rng.chance(4, 5) else self.rng.choice(DIR_NAMES + [".", ".."])
        s = self.slot("d")
        self.emit("opendir %s %s" % (d, hx(nm)), s)
        if len(self.dirs) < self.lim[1]:
            if nm == ".":
                self.dirs[s] = self.dirs[d]
            elif nm == "..":
                if p != "/":
                    self.dirs[s] = ((p.rsplit("/", 1)[0] or "/"), self.dirs[d][1])
            elif self.path_join(p, nm) in self.tree_dirs:
                self.dirs[s] = (self.path_join(p, nm), self.dirs[d][1])
    def g_closedir(self):
        if not self.dirs:
            return
        d = self.rng.choice(list(self.dirs))
        self.emit("closedir %s" % d)
        del self.dirs[d]
        self.closed.append(d)
    def g_closevol(self):
        if not self.vols:
            return
        v = self.rng.choice(list(self.vols))
        self.emit("closevol %s" % v)
        if not any(vv == v for (_, vv) in self.dirs.values()) and not any(f["vol"] == v for f in self.files.values()):
            del self.vols[v]
            self.closed.append(v)
    def pick_name(self, p, existing_bias=3):
        ex = [os.path.basename(x) for x in self.tree_files if (x.rsplit("/", 1)[0] or "/") == p]
        if ex and self.rng.chance(existing_bias, existing_bias + 2):
            return self.rng.choice(ex)
        return self.rng.choice(GOOD_NAMES)
    def g_open(self):
        d = self.any_dir()
        if d is None:
            return self.g_openroot()
        p = self.dirs[d][0]
        nm = self.pick_name(p)
        mode = self.rng.weighted([(m, w) for m, w in zip(MODES, self.p.get("mode_weights", [3, 2, 2, 3, 2, 2]))])
        s = self.slot("f")
        self.emit("open %s %s %s" % (d, hx(nm), mode), s)
        path = self.path_join(p, nm)
        exists = path in self.tree_files
        already = any(f["path"] == path for f in self.files.values())
        if len(self.files) >= self.lim[2] or already or path in self.tree_dirs:
            return
        if exists and path in self.ro_files and mode != "RO":
            return
        if (mode in ("RO", "RWA", "RWT") and not exists) or (mode == "RWC" and exists):
            return
        size = self.tree_files.get(path, 0)
        if mode in ("RWT", "RWCT"):
            size = 0
        self.tree_files[path] = size
        self.files[s] = dict(path=path, mode=mode, pos=(size if mode in ("RWA", "RWCA") and exists else 0), size=size, vol=self.dirs[d][1])
    def any_file(self, writable=False):
        fs = [s for s, f in self.files.items() if not writable or f["mode"] != "RO"]
        return self.rng.choice(fs) if fs else None
    def g_write(self):
        f = self.any_file(True)
        if f is None:
            return self.g_open()
        n = self.lens()
        if self.p.get("max_write"):
            n = min(n, self.p["max_write"])
        self.emit("write %s %d %d" % (f, n, self.seed()))
        st = self.files[f]
        st["pos"] += n
        st["size"] = max(st["size"], st["pos"])
        self.tree_files[st["path"]] = st["size"]
    def g_read(self):
        f = self.any_file()
        if f is None:
            return self.g_open()
        n = self.lens()
        self.emit("read %s %d" % (f, n))
        st = self.files[f]
        st["pos"] = min(st["size"], st["pos"] + n)
    def g_seek(self):
        f = self.any_file()
        if f is None:
            return self.g_open()
        st = self.files[f]
        bpc = self.meta["spc"] * 512
        kind = self.rng.choice(["seekstart", "seekend", "seekcur"])
        if kind == "seekstart":
            x = self.rng.choice([0, st["size"], st["size"] // 2, min(st["size"], bpc), min(st["size"], 512), self.rng.below(st["size"] + 2), st["size"] + 1])
            if x <= st["size"]:
                st["pos"] = x
        elif kind == "seekend":
            x = self.rng.choice([0, st["size"], self.rng.below(st["size"] + 2), 1])
            if x <= st["size"]:
                st["pos"] = st["size"] - x
        else:
            x = self.rng.choice([0, -st["pos"], st["size"] - st["pos"], -1, 1, -(self.rng.below(st["pos"] + 1)), self.rng.below(st["size"] - st["pos"] + 2), -st["pos"] - 1])
            if 0 <= st["pos"] + x <= st["size"]:
                st["pos"] += x
        self.emit("%s %s %d" % (kind, f, x))
    def g_query(self):
        f = self.any_file()
        if f is None:
            return
        self.emit("%s %s" % (self.rng.choice(["len", "off", "eof"]), f))
    def g_flush(self):
        f = self.any_file()
        if f is None:
            return
        self.emit("flush %s" % f)
    def g_close(self):
        f = self.any_file()
        if f is None:
            return
        self.emit("close %s" % f)
        del self.files[f]
        self.closed.append(f)
    def g_delete(self):
        d = self.any_dir()
        if d is None:
            return self.g_openroot()
        p = self.dirs[d][0]
        nm = self.pick_name(p, 5)
        self.emit("delete %s %s" % (d, hx(nm)))
        path = self.path_join(p, nm)
        if path in self.tree_files and not any(f["path"] == path for f in self.files.values()):
            del self.tree_files[path]
    def g_mkdir(self):
        d = self.any_dir()
        if d is None:
            return self.g_openroot()
        p = self.dirs[d][0]
        nm = self.rng.choice(DIR_NAMES)
        self.emit("mkdir %s %s" % (d, hx(nm)))
        path = self.path_join(p, nm)
        if path not in self.tree_files and path not in self.tree_dirs and len(self.dirs) < self.lim[1]:
            self.tree_dirs.add(path)
    def g_find(self):
        d = self.any_dir()
        if d is None:
            return self.g_openroot()
        p = self.dirs[d][0]
        nm = self.pick_name(p) if self.rng.chance(3, 4) else self.rng.choice(DIR_NAMES + [".", ".."])
        self.emit("find %s %s" % (d, hx(nm)))
    def g_iter(self):
        d = self.any_dir()
        if d is None:
            return self.g_openroot()
        self.emit("iter %s" % d)
    def g_label(self):
        v = self.main_vol()
        if v:
            self.emit("label %s" % v)
    def g_hasopen(self):
        self.emit("hasopen")
    def g_remount(self):
        self.emit("remount %d" % (1000 * (1 + self.rng.below(50))))
        self.closed += list(self.vols) + list(self.dirs) + list(self.files)
        self.vols, self.dirs, self.files = {}, {}, {}
    def g_io(self):
        f = self.any_file()
        if f is None:
            return self.g_open()
        st = self.files[f]
        k = self.rng.below(3)
        if k == 0:
            w = self.rng.choice(["start", "end", "cur"])
            x = self.rng.choice(["0", "1", "-1", str(st["size"]), str(-st["size"]), str(st["size"] // 2), "4294967295", "4294967296",
                                 "-2147483648", "2147483648", "i64min", "9223372036854775807", "-4294967296"])
            if w == "start" and x.startswith("-"):
                x = x[1:]
            if w == "start" and x == "i64min":
                x = "u64max"
            self.emit("ioseek %s %s %s" % (f, w, x))
            st["pos"] = None  # shadow gives up tracking; model is the reference
            st["pos"] = 0
        elif k == 1:
            self.emit("ioread %s %d" % (f, self.rng.choice([0, 1, 512, 700])))
        else:
            n = self.rng.choice([0, 1, 512, 700])
            if st["mode"] == "RO" and n:
                n = 0
            self.emit("iowrite %s %d %d" % (f, n, self.seed()))
            if n:
                st["pos"] += n; st["size"] = max(st["size"], st["pos"]); self.tree_files[st["path"]] = st["size"]
    # -- the extended alphabet (FsExt.xop): iterate_dir_lfn, wrapper drops, change_dir, panicking queries
    def g_iterlfn(self):
        d = self.any_dir()
        if d is None:
            return self.g_openroot()
        self.emit("iterlfn %s %d" % (d, self.rng.choice([0, 1, 11, 12, 13, 20, 40, 64, 255, 780])))
    def g_dropfile(self):
        f = self.any_file()
        if f is None:
            return
        self.emit("dropfile %s" % f)
        del self.files[f]
        self.closed.append(f)
    def g_dropdir(self):
        if not self.dirs:
            return
        d = self.rng.choice(list(self.dirs))
        self.emit("dropdir %s" % d)
        del self.dirs[d]
        self.closed.append(d)
    def g_dropvol(self):
        if not self.vols:
            return
        v = self.rng.choice(list(self.vols))
        self.emit("dropvol %s" % v)      # impl Drop for Volume: close_volume with the result discarded
        if not any(vv == v for (_, vv) in self.dirs.values()) and not any(f["vol"] == v for f in self.files.values()):
            del self.vols[v]
            self.closed.append(v)
    def g_chdir(self):
        d = self.any_dir()
        if d is None:
            return self.g_openroot()
        p = self.dirs[d][0]
        cands = [x for x in self.tree_dirs if x and (x.rsplit("/", 1)[0] or "/") == p]
        nm = os.path.basename(self.rng.choice(cands)) if cands and self.rng.chance(3, 5) else self.rng.choice(DIR_NAMES + [".", "..", "..", "A.TXT"])
        # Directory::change_dir: on success the wrapper (= the slot) holds the new handle, the old one is closed
        self.emit("chdir %s %s" % (d, hx(nm)), d)
        if len(self.dirs) < self.lim[1]:
            if nm == ".":
                pass
            elif nm == "..":
                if p != "/":
                    self.dirs[d] = ((p.rsplit("/", 1)[0] or "/"), self.dirs[d][1])
            elif self.path_join(p, nm) in self.tree_dirs:
                self.dirs[d] = (self.path_join(p, nm), self.dirs[d][1])
    def g_wquery(self):
        f = self.any_file()
        if f is None:
            return
        self.emit("%s %s" % (self.rng.choice(["wlen", "woff", "weof"]), f))
    # -- malformed stream
    def g_bad(self):
        r = self.rng
        k = r.below(7)
        stale = r.choice(self.closed) if self.closed else "$never"
        if r.chance(1, 4):
            stale = "#%d" % r.choice([0, 1, 4999, 5000, 5001, 5007, 4294967295, 123456])
        if k == 0:
            op = r.choice(["closedir %s", "closevol %s", "close %s", "flush %s", "read %s 10", "write %s 10 1", "len %s", "off %s", "eof %s",
                           "seekstart %s 0", "seekend %s 0", "seekcur %s 0", "iter %s", "find %s " + hx("A.TXT"), "opendir %s " + hx("SUB"),
                           "open %s " + hx("A.TXT") + " RWCA", "delete %s " + hx("A.TXT"), "mkdir %s " + hx("NEW"), "label %s", "openroot %s"])
            self.emit(op % stale, self.slot("x") if op.startswith(("open", "opendir")) else None)
            if op.startswith("openroot") and len(self.dirs) < self.lim[1]:
                pass
        elif k == 1:
            d = self.any_dir()
            if d:
                nm = r.choice(BAD_NAMES)
                op = r.choice(["open %s %s RWC", "open %s %s RO", "find %s %s", "delete %s %s", "mkdir %s %s", "opendir %s %s"])
                self.emit(op % (d, hx(nm)), self.slot("x") if op.startswith("open") else None)
        elif k == 2:
            d = self.any_dir()
            if d:   # wrong kind: dir as file, file as dir
                p = self.dirs[d][0]
                subs = [os.path.basename(x) for x in self.tree_dirs if x and (x.rsplit("/", 1)[0] or "/") == p]
                if subs:
                    nm = r.choice(subs)
                    self.emit(r.choice(["open %s %s RO", "open %s %s RWCA", "delete %s %s", "open %s %s RWT"]) % (d, hx(nm)), self.slot("x"))
                fl = [os.path.basename(x) for x in self.tree_files if (x.rsplit("/", 1)[0] or "/") == p]
                if fl:
                    self.emit("opendir %s %s" % (d, hx(r.choice(fl))), self.slot("x"))
                    self.emit("mkdir %s %s" % (d, hx(r.choice(fl))))
        elif k == 3:
            d = self.any_dir()
            if d:   # re-entrancy
                inner = r.choice(["openvol 0", "closevol %s" % (self.main_vol() or "$n"), "openroot %s" % (self.main_vol() or "$n"),
                                  "opendir %s %s" % (d, hx("SUB")), "closedir %s" % d, "find %s %s" % (d, hx("A.TXT")), "iter %s" % d,
                                  "open %s %s RWCA" % (d, hx("NEWF.X")), "delete %s %s" % (d, hx("A.TXT")), "mkdir %s %s" % (d, hx("NEWD")),
                                  "label %s" % (self.main_vol() or "$n")] +
                                 (["close %s" % f for f in self.files] + ["flush %s" % f for f in self.files] + ["read %s 5" % f for f in self.files] +
                                  ["write %s 5 1" % f for f in self.files] + ["len %s" % f for f in self.files] + ["seekstart %s 0" % f for f in self.files] +
                                  ["off %s" % f for f in self.files] + ["eof %s" % f for f in self.files] + ["seekend %s 0" % f for f in self.files] + ["seekcur %s 0" % f for f in self.files]))
                self.emit("iter %s | %s" % (d, inner))
        elif k == 4:
            # exceed a limit
            which = r.below(3)
            if which == 0:
                for _ in range(self.lim[0] + 1):
                    self.g_openvol()
            elif which == 1:
                for _ in range(self.lim[1] + 1 - len(self.dirs)):
                    self.g_openroot()
            else:
                for _ in range(self.lim[2] + 1 - len(self.files)):
                    self.g_open()
        elif k == 5:
            f = self.any_file()
            if f and self.files[f]["mode"] == "RO":
                self.emit("write %s 10 3" % f)
            d = self.any_dir()
            if d and self.files:
                f = r.choice(list(self.files))
                nm = os.path.basename(self.files[f]["path"])
                self.emit("delete %s %s" % (d, hx(nm)))
                self.emit("open %s %s RO" % (d, hx(nm)), self.slot("x"))
        else:
            v = self.main_vol()
            if v:
                self.emit("closevol %s" % v)
                if not self.dirs and not self.files:
                    del self.vols[v]
                    self.closed.append(v)

DEFAULT_WEIGHTS = dict(openvol=1, openroot=3, opendir=3, closedir=2, closevol=1, open=8, write=10, read=8, seek=6, query=3, flush=3,
                       close=4, delete=3, mkdir=2, find=2, iter=3, label=1, hasopen=1, remount=1, io=2, bad=4,
                       iterlfn=0, dropfile=0, dropdir=0, dropvol=0, chdir=0, wquery=0)

def profile(**over):
    w = dict(DEFAULT_WEIGHTS)
    w.update(over.pop("weights", {}))
    p = dict(weights=w)
    p.update(over)
    return p

def make_script(rng, meta, limits, prof, nops, id_offset=5000, faults=(), prelude=True):
    g = Gen(rng, meta, limits, prof)
    if prelude:
        g.g_openvol()
        g.g_openroot()
    while len(g.ops) < nops:
        g.step()
    if prof.get("quiesce"):
        for f in list(g.files):
            g.emit("close %s" % f)
        g.files = {}
    return g.ops

def write_script(path, img_path, limits, ops, id_offset=5000, faults=(), raii=False):
    with open(path, "w") as fh:
        if raii:
            fh.write("# RAII\n")      # fsrun issues every call through the Volume / Directory / File wrappers
        fh.write("CFG %d %d %d %d\n" % (limits[0], limits[1], limits[2], id_offset))
        if faults:
            fh.write("FAULTS %s\n" % " ".join(str(x) for x in faults))
        fh.write("IMG %s\n" % img_path)
        for i, o in enumerate(ops):
            fh.write("%d %s\n" % (i, o))
