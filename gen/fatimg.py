"""Specification-side FAT16/FAT32 formatter (written from the FAT specification, not from the
crate): builds sparse device images (dict block index -> 512 bytes) with an MBR, one or more
partitions, pre-populated trees (nested directories, LFN runs, deleted slots, fragmented
chains), and configurable FS-info records.  Also keeps a shadow description of what it put
where, for the script generators."""
import struct

def le16(v): return struct.pack("<H", v & 0xFFFF)
def le32(v): return struct.pack("<I", v & 0xFFFFFFFF)

def fat_date(y, m, d): return ((y - 1980) << 9) | (m << 5) | d
def fat_time(h, mi, s): return (h << 11) | (mi << 5) | (s // 2)

def lfn_csum(name11):
    c = 0
    for b in name11:
        c = (((c & 1) << 7) + (c >> 1) + b) & 0xFF
    return c

def sfn11(name):
    """'FOO.TXT' -> 11 bytes (upper-cased ASCII)"""
    if name in (".", ".."):
        return name.encode().ljust(11, b" ")
    base, _, ext = name.partition(".")
    return base.upper().encode("latin-1").ljust(8, b" ") + ext.upper().encode("latin-1").ljust(3, b" ")

class Node:
    def __init__(self, name11, attr, cluster=0, size=0, data=b"", is_dir=False, chain=None, lfn=None, slot=None):
        self.name11, self.attr, self.cluster, self.size = name11, attr, cluster, size
        self.data, self.is_dir, self.chain, self.lfn = data, is_dir, chain or [], lfn
        self.children = []   # for directories
        self.slot = slot     # (block, offset)

class Vol:
    def __init__(self, fat32, lba, spc=1, reserved=None, nfats=2, nclusters=None, root_entries=512,
                 root_cluster=2, fat_slack_sectors=0, tail_slack=0, info="ok", label=b"NO NAME    ",
                 part_type=None, total16=None, dirty_free=0, high_nibble=0):
        self.fat32, self.lba, self.spc, self.nfats = fat32, lba, spc, nfats
        self.reserved = reserved if reserved is not None else (32 if fat32 else 1)
        self.N = nclusters if nclusters is not None else (65525 if fat32 else 4085)
        self.root_entries = 0 if fat32 else root_entries
        self.root_blocks = (self.root_entries * 32 + 511) // 512
        esz = 4 if fat32 else 2
        self.fat_size = ((self.N + 2) * esz + 511) // 512 + fat_slack_sectors
        self.first_fat = self.reserved
        self.root_block = self.reserved + nfats * self.fat_size       # FAT16 root region (relative)
        self.first_data = self.root_block + self.root_blocks
        self.total = self.first_data + self.N * spc + tail_slack     # tail_slack < spc keeps N
        assert tail_slack < spc
        self.part_type = part_type if part_type is not None else (0x0C if fat32 else 0x06)
        self.use16 = (self.total < 65536) if total16 is None else total16
        self.fat = [0] * (self.N + 2)
        self.fat[0] = 0x0FFFFFF8 if fat32 else 0xFFF8
        self.fat[1] = 0x0FFFFFFF if fat32 else 0xFFFF
        self.blocks = {}          # relative block -> bytearray(512)
        self.info, self.label = info, label
        self.next_alloc = 2
        self.root_cluster = root_cluster if fat32 else 0
        self.root = Node(b"", 0x10, is_dir=True)
        if fat32:
            self.fat[root_cluster] = 0x0FFFFFFF
            self.root.chain = [root_cluster]
            self.root.cluster = root_cluster
        self.dirty_free = dirty_free
        self.high_nibble = high_nibble      # FAT32: reserved top 4 bits of in-use entries (readers must ignore them)
        self.EOC = 0x0FFFFFFF if fat32 else 0xFFFF

    # ---- low level
    def blk(self, rel):
        return self.blocks.setdefault(rel, bytearray(512))
    def cluster_block(self, c, k=0):
        return self.first_data + (c - 2) * self.spc + k
    def free_clusters(self):
        return [c for c in range(2, self.N + 2) if self.fat[c] == 0]
    def alloc_chain(self, n, scatter=0, rng=None):
        """n clusters; scatter>0 leaves gaps / goes backwards to fragment the chain"""
        free = self.free_clusters()
        assert len(free) >= n, "image full"
        if scatter and rng is not None:
            pick = []
            pool = free[: max(n * (scatter + 1), n)]
            pool = list(pool)
            for _ in range(n):
                pick.append(pool.pop(rng.below(len(pool))))
        else:
            pick = free[:n]
        for a, b in zip(pick, pick[1:]):
            self.fat[a] = b
        if pick:
            self.fat[pick[-1]] = self.EOC
        return pick
    def write_chain(self, chain, data):
        bpc = self.spc * 512
        for i, c in enumerate(chain):
            chunk = data[i * bpc:(i + 1) * bpc]
            for k in range(self.spc):
                part = chunk[k * 512:(k + 1) * 512]
                if part:
                    b = self.blk(self.cluster_block(c, k))
                    b[:len(part)] = part
    def dir_blocks(self, d):
        if d is self.root and not self.fat32:
            return [self.root_block + i for i in range(self.root_blocks)]
        return [self.cluster_block(c, k) for c in d.chain for k in range(self.spc)]
    def dir_slots(self, d):
        return [(b, o) for b in self.dir_blocks(d) for o in range(0, 512, 32)]
    def next_slot(self, d, need=1):
        slots = self.dir_slots(d)
        used = getattr(d, "_used", 0)
        while used + need > len(slots):
            assert not (d is self.root and not self.fat32), "FAT16 root full"
            c = self.alloc_chain(1)[0]
            self.fat[d.chain[-1]] = c
            d.chain.append(c)
            slots = self.dir_slots(d)
        d._used = used + need
        return slots[used:used + need]
    def raw_slot(self, d, bytes32):
        (b, o), = self.next_slot(d)
        self.blk(b)[o:o + 32] = bytes32
        return (b, o)
    def entry_bytes(self, name11, attr, cluster, size, ctime=(2001, 2, 3, 4, 5, 6), mtime=(2002, 3, 4, 5, 6, 8),
                    raw_cdate=None, raw_ctime=None):
        cd = fat_date(*ctime[:3]) if raw_cdate is None else raw_cdate
        ct = fat_time(*ctime[3:]) if raw_ctime is None else raw_ctime
        e = bytearray(32)
        e[0:11] = name11
        e[11] = attr
        e[14:16] = le16(ct); e[16:18] = le16(cd)
        # FAT16: bytes 20..21 are not part of the cluster number (OS/2 / NT keep an extended-attribute handle there)
        e[20:22] = le16(cluster >> 16) if self.fat32 else le16(getattr(self, "ea_word", 0))
        e[22:24] = le16(fat_time(*mtime[3:])); e[24:26] = le16(fat_date(*mtime[:3]))
        e[26:28] = le16(cluster); e[28:32] = le32(size)
        return bytes(e)
    def lfn_slots(self, longname, name11):
        units = [ord(c) for c in longname]   # BMP only here
        units16 = []
        for u in units:
            if u >= 0x10000:
                u -= 0x10000; units16 += [0xD800 | (u >> 10), 0xDC00 | (u & 0x3FF)]
            else:
                units16.append(u)
        if len(units16) % 13:
            units16.append(0)
        while len(units16) % 13:
            units16.append(0xFFFF)
        n = len(units16) // 13
        cs = lfn_csum(name11)
        out = []
        for seq in range(n, 0, -1):
            frag = units16[(seq - 1) * 13: seq * 13]
            e = bytearray(32)
            e[0] = seq | (0x40 if seq == n else 0)
            e[11] = 0x0F; e[13] = cs
            pos = [1, 3, 5, 7, 9, 14, 16, 18, 20, 22, 24, 28, 30]
            for p, u in zip(pos, frag):
                e[p:p + 2] = le16(u)
            out.append(bytes(e))
        return out

    # ---- high level
    def add_file(self, d, name, data=b"", attr=0x20, lfn=None, scatter=0, rng=None, deleted=False, nclusters=None, **kw):
        name11 = sfn11(name) if isinstance(name, str) else name
        bpc = self.spc * 512
        n = nclusters if nclusters is not None else (len(data) + bpc - 1) // bpc
        chain = self.alloc_chain(n, scatter, rng) if n else []
        self.write_chain(chain, data)
        if lfn:
            for sl in self.lfn_slots(lfn, name11):
                self.raw_slot(d, sl)
        eb = bytearray(self.entry_bytes(name11, attr, chain[0] if chain else 0, len(data), **kw))
        if deleted:
            eb[0] = 0xE5
            for c in chain:
                self.fat[c] = 0
        slot = self.raw_slot(d, bytes(eb))
        node = Node(name11, attr, chain[0] if chain else 0, len(data), data, False, chain, lfn, slot)
        if not deleted:
            d.children.append(node)
        return node
    def add_dir(self, d, name, attr=0x10, lfn=None, **kw):
        name11 = sfn11(name) if isinstance(name, str) else name
        chain = self.alloc_chain(1)
        if lfn:
            for sl in self.lfn_slots(lfn, name11):
                self.raw_slot(d, sl)
        slot = self.raw_slot(d, self.entry_bytes(name11, attr, chain[0], 0, **kw))
        node = Node(name11, attr, chain[0], 0, b"", True, chain, lfn, slot)
        parent_cluster = 0 if d is self.root else d.cluster
        self.raw_slot(node, self.entry_bytes(sfn11("."), 0x10, chain[0], 0, **kw))
        self.raw_slot(node, self.entry_bytes(sfn11(".."), 0x10, parent_cluster, 0, **kw))
        d.children.append(node)
        return node
    def add_label_entry(self, d, label11):
        return self.raw_slot(d, self.entry_bytes(label11, 0x08, 0, 0, raw_cdate=0, raw_ctime=0))
    def fill_dir_with_deleted(self, d, count):
        for i in range(count):
            e = bytearray(self.entry_bytes(sfn11("DEL%d.X" % (i % 1000)), 0x20, 0, 0)); e[0] = 0xE5
            self.raw_slot(d, bytes(e))

    def finalize(self):
        # dirty some free clusters with slot-looking garbage (visible if ever exposed as directory content)
        if self.dirty_free:
            garbage = bytearray()
            for i in range(16):
                e = bytearray(b"STALE%03dBAD" % i)[:11] + bytes([0x20]) + bytes(range(100, 120))
                garbage += e[:32]
            for c in self.free_clusters()[: self.dirty_free]:
                for k in range(self.spc):
                    self.blk(self.cluster_block(c, k))[:] = garbage[:512]
        # boot sector
        b = self.blk(0)
        b[0:3] = b"\xEB\x3C\x90"; b[3:11] = b"VERIFFMT"
        b[11:13] = le16(512); b[13] = self.spc; b[14:16] = le16(self.reserved); b[16] = self.nfats
        b[17:19] = le16(self.root_entries)
        b[19:21] = le16(self.total if self.use16 else 0)
        b[21] = 0xF8
        b[22:24] = le16(0 if self.fat32 else self.fat_size)
        b[24:26] = le16(63); b[26:28] = le16(255); b[28:32] = le32(self.lba)
        b[32:36] = le32(0 if self.use16 else self.total)
        if self.fat32:
            b[36:40] = le32(self.fat_size); b[42:44] = le16(0); b[44:48] = le32(self.root_cluster)
            b[48:50] = le16(1); b[50:52] = le16(6); b[64] = 0x80; b[66] = 0x29; b[67:71] = le32(0x12345678)
            b[71:82] = self.label; b[82:90] = b"FAT32   "
        else:
            b[36] = 0x80; b[38] = 0x29; b[39:43] = le32(0x12345678); b[43:54] = self.label; b[54:62] = b"FAT16   "
        b[510:512] = b"\x55\xAA"
        # FATs
        esz = 4 if self.fat32 else 2
        per = 512 // esz
        for s in range(self.fat_size):
            ents = self.fat[s * per:(s + 1) * per]
            if any(ents):
                if self.fat32 and self.high_nibble:
                    ents = [(e | (self.high_nibble << 28)) if e else e for e in ents]
                raw = b"".join((le32(e) if self.fat32 else le16(e)) for e in ents).ljust(512, b"\0")
                for f in range(self.nfats):
                    self.blk(self.first_fat + f * self.fat_size + s)[:] = raw
        if self.fat32:
            nfree = len(self.free_clusters())
            free = self.free_clusters()
            hint = free[0] if free else 0xFFFFFFFF
            cnt, nxt = {"ok": (nfree, hint), "unknown": (0xFFFFFFFF, 0xFFFFFFFF), "stale0": (0, hint),
                        "stalehigh": (0xFFFFFFFE, 3), "oor": (nfree, self.N + 500), "hint1": (nfree, 1),
                        "stalelow": (max(nfree - 3, 0), 2), "unknowncount": (0xFFFFFFFF, hint),
                        # count truthful, hint names a cluster in use (what a crash between an allocation and the next
                        # information-sector write leaves behind)
                        "staleused": (nfree, max([c for c in range(2, self.N + 2) if self.fat[c]] or [2])),
                        # hint = the LAST cluster of the volume, which is marked bad: every free cluster lies below the
                        # hint (the search must wrap around)
                        "stalelast": (nfree, self.N + 1)}[self.info]
            i = self.blk(1)
            i[0:4] = le32(0x41615252); i[484:488] = le32(0x61417272); i[488:492] = le32(cnt); i[492:496] = le32(nxt)
            i[508:512] = le32(0xAA550000)

class Image:
    def __init__(self):
        self.vols = {}     # slot -> Vol
    def add(self, slot, vol):
        self.vols[slot] = vol
    def build(self, canary=True):
        dev = {}
        mbr = bytearray(512)
        for slot, v in self.vols.items():
            v.finalize()
            p = 446 + 16 * slot
            mbr[p] = 0x80 if slot == 0 else 0
            mbr[p + 4] = v.part_type
            mbr[p + 8:p + 12] = le32(v.lba); mbr[p + 12:p + 16] = le32(v.total)
            for rel, b in v.blocks.items():
                if any(b):
                    dev[v.lba + rel] = bytes(b)
        mbr[510:512] = b"\x55\xAA"
        dev[0] = bytes(mbr)
        return dev
    def write(self, path, dev=None):
        dev = dev if dev is not None else self.build()
        with open(path, "w") as fh:
            for i in sorted(dev):
                fh.write("%d %s\n" % (i, dev[i].hex()))
        return dev
