#!/bin/sh
# gen/reseed.sh [jobs]: regression of the machinery - every stored seeded change (seeded/<id>/patch.diff) is applied to a
# fresh scratch worktree of /repo's HEAD and its property's quick check is run against it (VERIF_REPO); one line per seed.
# Worktrees live under /tmp/reseed and are removed as soon as each run ends.   gen/reseed.sh --one <id> runs one seed.
V=$(cd "$(dirname "$0")/.." && pwd)
mkdir -p /tmp/reseed "$V/build/tmp"
if [ "$1" = "--one" ]; then
  id=$2
  pid=$(echo "$id" | cut -c1-3)
  wt=/tmp/reseed/$id
  git -C /repo worktree remove --force "$wt" >/dev/null 2>&1
  ok=0
  for t in 1 2 3 4 5 6; do
    if git -C /repo worktree add --detach "$wt" HEAD >/dev/null 2>&1; then ok=1; break; fi
    sleep 1
  done
  [ $ok = 1 ] || { echo "$id worktree-failed"; exit 0; }
  if ! git -C "$wt" apply "$V/seeded/$id/patch.diff" 2>/dev/null && ! git -C "$wt" apply --3way "$V/seeded/$id/patch.diff" >/dev/null 2>&1; then
    echo "$id patch-does-not-apply"; git -C /repo worktree remove --force "$wt"; exit 0
  fi
  (cd "$V" && VERIF_REPO="$wt" ./check $pid --tier quick > "$V/build/tmp/reseed-$id.log" 2>&1); rc=$?
  echo "$id rc=$rc $(grep -c '^VIOLATION' "$V/build/tmp/reseed-$id.log") violations, $(grep -c 'no-failing-input-found' "$V/build/tmp/reseed-$id.log") without input: $(grep -m1 '^# ' "$V/build/tmp/reseed-$id.log" | cut -c1-150)"
  tag=$(python3 -c "import hashlib,os,sys;print(hashlib.sha1(os.path.realpath(sys.argv[1]).encode()).hexdigest()[:10])" "$wt")
  rm -rf "$V/build/harness-$tag"
  git -C /repo worktree remove --force "$wt"
  exit 0
fi
J=${1:-5}
ls "$V/seeded" | grep -E '^C[0-9][0-9](-[0-9])?$' | xargs -P "$J" -n 1 "$V/gen/reseed.sh" --one
