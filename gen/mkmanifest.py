#!/usr/bin/env python3
"""(re)writes MANIFEST.json from the table below; run after a property comes online."""
import json, os, sys
V = os.path.dirname(os.path.dirname(os.path.abspath(__file__)))
props = [json.loads(l) for l in open(os.path.join(V, "properties.jsonl"))]
FS_NOTE = ("trusted: Coq kernel, extraction (ExtrOcamlBasic only) + OCaml driver, harness crate (sparse RAM device with call log and fault schedule, counter clock), python generators/oracles (gen/fatimg.py formatter, gen/fatck.py independent reader/checker); "
           "modelled (coq/fs/Fs*.v): the whole FAT volume manager incl. cache, FAT, directories, files, mount; RefCell as a boolean lock, heapless::Vec as list")
FS_TEXT = ("layer-B Gallina model of the volume manager, line-by-line transcription, tied to the crate by trace-exact differential testing (every device call, result, callback, file state, final image); "
           "theorems proved for all inputs about the mechanisms the property rests on (listed in coq/fs/%s.v, each `_partial` where the end-to-end statement is not closed); the end-to-end statement is decided at run time by the spec oracle on the implementation's outputs. %s")
FS = {
 "C01": "Proved (PrSeek, PrRw): every seek/eof/length/offset op = cursor arithmetic incl. the embedded-io Seek adapter for every argument (never panics); find_data_on_disk under the cursor invariant; mgr_read returns exactly firstn/skipn of the file's byte array (full fuel induction); one write step = set_bytes on the byte array with the block-start guard (regression i) and isolation from every other chain. Not closed: whole write loop / op sequences. Oracle: byte-array file model replayed on the implementation's results.",
 "C02": "Proved (PrEntry, PrDir): flush writes exactly the serialized in-memory entry into its slot and a fresh lookup returns it (C02_flush_then_lookup); codec round trip; ctime bytes stable iff month/day fields non-zero (refutation otherwise: known finding); create/delete/flush change one slot, every other slot and block byte-identical. Not closed: whole histories, mtime = clock at last write. Oracle: independent FAT reader on the final medium vs flushed contents.",
 "C03": "Proved (PrAlloc, PrAllocEffect, PrChain, PrCount, PrFat): alloc takes an in-range free cluster and has exactly the stated FAT effect, never panics; truncate/free-chain effects; capacity; FAT update frame; data clusters inside the data area. Not closed: the global well-formedness invariant over histories. Oracle: independent structural checker after every call that wrote.",
 "C04": "Proved: FAT writes change only the addressed entry (FAT32 high bits kept) and only FAT sectors; info-sector writes only bytes 488..496; directory-slot writes only that slot (write_entry_to_disk, create, delete); read-modify-write preserves all other blocks; data clusters map inside the data area; no slack entry is allocated. Not closed: composition over histories. Oracle: region classification of every block write against the pre-write medium.",
 "C05": "Proved (PrCount): C05_capacity (exactly free_entries allocations succeed, the next fails with nothing changed), C05_fill_free_refill for every number of cycles, count deltas of alloc/truncate/free-chain. Not closed: used-set == reachable-set as a history invariant. Oracle: used == reachable when quiescent; cycles accept exactly free x cluster bytes.",
 "C06": "PROVED in full for the model (C06_iterate, C06_find, C06_find_listed, C06_open_dir): listing = exactly the valid slots before the end marker in on-disk order over any chain; lookup = first match; open_dir succeeds exactly for listed directory entries and designates the entry's cluster. Oracle: independent reader's live-entry list of the same directory at that moment.",
 "C07": "PROVED in full for the model: decision tables of open_file_in_dir, delete, mkdir, open_dir, write on a read-only handle, with 'a refusal only reads'. Oracle: decision table over six modes x {missing,file,read-only,directory,open} x names, refusals must not write.",
 "C08": "PROVED in full for the model: C08_fresh (+ C08_wrap_refuted_state: known finding), C08_stale_* for every call (C08_root_stale_refuted: known finding), C08_limits for every op with C08_limit_errors, C08_volume_rules, C08_close_*_frees, C08_query_truthful, C08_reentrant (LockError, whole state unchanged). Oracle: handle bookkeeping on the implementation's results.",
 "C09": "Proved (PrCrash, PrEntry): C09_frame - at EVERY prefix of the writes of alloc/truncate/free-chain the byte array of every other chain is unchanged; flush-then-lookup returns the flushed entry. Not closed: composition over arbitrary later operations. Oracle: the flushed file is looked up by an independent reader on every later write prefix.",
 "C10": "Proved (PrCrash, PrOrder, PrAllocEffect, PrChain): for EVERY prefix of the writes of alloc_cluster the chain reads as before or as extended by the (already zeroed) new cluster and every other chain is untouched; same for truncate/free-chain (only lost clusters); write order of alloc and make_dir (parent entry last). Not closed: make_dir contents at every prefix, composition over histories. Oracle: independent crash checker on every write prefix, free clusters pre-dirtied.",
 "C11": "Proved (PrFault): C11_api_never_ok - no op returns Ok after a device failure during it; C11_api_reports - every op but Mkdir returns Err (never Panic); every catch site examined; a failed write invalidates the cache. Not closed: Mkdir never panics, retry/bystander clauses. Oracle: a call during which a device call failed returns an error; no duplicate names; script keeps running.",
 "C16": "Proved (PrFat, PrCount): C16_mirror_step (mirroring is an invariant of every FAT update), truthful counts stay truthful under alloc/truncate/free-chain, unknown stays unknown, hint None or in range, ANY stale hint/count is harmless (never Panic, outcome decided by the FAT alone), update_info_sector stores exactly the count. Not closed: composition over histories. Oracle: FAT copies byte-identical after each call; stored count delta; hint in range; no panic on stale records.",
}
checks = []
def add(pid, engine, cat, text, note, tech, design):
    checks.append(dict(property_id=pid, quick_cmd="./check %s --tier quick" % pid, thorough_cmd="./check %s --tier thorough" % pid,
                       evidence_file="evidence/%s.json" % pid, replay_cmd_template="./check %s --replay {path}" % pid, engine=engine,
                       level_claimed=dict(category=cat, text=text, design_ref=design), level_note=note, technique=tech))
ready = set(open(os.path.join(V, "READY")).read().split())
if "C19" in ready:
    add("C19", "coq-crc", "proof", "crc7/crc16 as transcribed from proto.rs are proved equal to the remainders of polynomial long division by x^7+x^3+1 / x^16+x^12+x^5+1 for every byte string (induction + complete vm_compute sweeps of the 2^16 register states), with the residue law and single/double/burst<=16 detection as corollaries; the transcription is tied to the crate by differential testing against the extracted model (exhaustive over all messages of length 0..3 in the thorough tier)",
        "trusted: Coq kernel + vm_compute, extraction (ExtrOcamlBasic only) + OCaml driver, harness crate and python differ; modelled: the two functions of proto.rs, bytes as N<256",
        "Coq proof (induction over the message + finite sweeps lifted by lemma) + extracted-model correspondence", "DESIGN.md 4 C19")
if "C17" in ready:
    add("C17", "coq-lfn", "proof", "LfnBuffer (new/clear/push/as_str), lfn_contents, csum and the SeqState machine plus closure of iterate_dir_lfn, transcribed into Gallina with decode_utf16/encode_utf8 modelled from the Unicode definitions. Proved for all inputs: no panic for any storage and any push/clear history; as_str is valid UTF-8 in every reachable state; pushes last-first yield utf8(lossy(name)) if it fits in n bytes and \"\" otherwise, exactly outside the decidable class 'first unit of the whole name is an unpaired surrogate' (known finding, witness proved); a listing reports Some name iff the slots directly before the entry end with a complete ordered run whose start checksum equals the short name's, for arbitrary slot lists, which never panic. Tied to the crate by differential testing of LfnBuffer, lfn_contents, decode_utf16/encode_utf8 and iterate_dir_lfn on crafted FAT16 and FAT32 volumes.",
        "trusted: Coq kernel + vm_compute (three small computed facts), extraction + OCaml driver, harness crate + python differ; modelled: the functions above, u16/u8 as N; decode_utf16/encode_utf8 are std, modelled from the definitions and checked against the real ones; not modelled here: how the walk finds the slots (C06); known finding class=leading_lone",
        "Coq proof (refinement of the byte buffer to an abstract string state, carry lemma for chunk-wise UTF-16 decoding, UTF-8 automaton, run invariant of the sequence state machine) + extracted-model correspondence and extracted spec oracle", "DESIGN.md 4 C17")
if "C15" in ready:
    add("C15", "coq-mount", "proof", "the mounting path (open_raw_volume MBR part, parse_volume, Bpb::create_from_bytes, InfoSector, BlockCount arithmetic) transcribed to Gallina with an explicit Panic outcome for every unchecked u32 operation; proved for ALL devices of bytes and all volume indexes that mount never panics; proved for ALL valid geometries (spec-side valid_geom + independent formatter) that mount returns exactly the layout the FAT specification prescribes, every FatVolume field; FS-info signatures/sentinels and each partition-table error proved; model tied to the crate by differential testing in dev and release builds incl. reading back a file placed by a second independent formatter",
        "trusted: Coq kernel + vm_compute (examples only), extraction + OCaml driver, harness runner parsing the derived Debug text of VolumeManager, python generators; not modelled: handle table (fresh manager per mount)",
        "Coq proof (case analysis following the code + lia over u8/u16/u32 ranges, LE round-trip lemmas) + extracted model/spec correspondence", "DESIGN.md 4 C15")
extra = {}
if os.path.exists(os.path.join(V, "gen", "manifest_extra.json")):
    extra = json.load(open(os.path.join(V, "gen", "manifest_extra.json")))
for pid, e in extra.items():
    if pid in ready:
        add(pid, e["engine"], e["category"], e["text"], e["note"], e["technique"], "DESIGN.md 4 " + pid)
for pid, t in FS.items():
    if pid in ready:
        add(pid, "coq-fs", ("proof" if pid in ("C06", "C07", "C08") else "other"), FS_TEXT % (pid, t), FS_NOTE,
            "Coq lemmas about a Gallina model of the volume manager + trace-exact model/implementation correspondence + spec oracle on the implementation", "DESIGN.md 4 " + pid)
checks.sort(key=lambda c: c["property_id"])
claimed = {c["property_id"] for c in checks}
m = dict(version=1, setup_cmd="./setup.sh",
         hooks=dict(guard="verif-hooks", enable="cargo build --features verif-hooks (harness/Cargo.toml enables it on the path dependency)",
                    baseline_off_cmd="cd /repo && cargo test --workspace --no-fail-fast --offline",
                    source_commits=["54965d2"], add_only=True),
         engines=[dict(name="coq-crc", path="coq/crc", serves_properties=["C19"], kind_free_text="Coq 8.16.1: GF(2)[x] long-division spec, transcribed crc7/crc16, full proofs; extracted to OCaml for the correspondence check"),
                  dict(name="coq-lfn", path="coq/lfn", serves_properties=["C17"], kind_free_text="Coq 8.16.1: LfnBuffer / UTF-16 / UTF-8 / listing state machine model, spec and full proofs"),
                  dict(name="coq-mount", path="coq/mount", serves_properties=["C15"], kind_free_text="Coq 8.16.1: MBR/BPB/FS-info mount model, geometry spec + formatter, totality and layout proofs"),
                  dict(name="coq-codec", path="coq/codec", serves_properties=["C18"], kind_free_text="Coq 8.16.1: directory-entry / timestamp / 8.3-name codecs"),
                  dict(name="coq-sd", path="coq/sd", serves_properties=["C12", "C13", "C14"], kind_free_text="Coq 8.16.1: SD-over-SPI driver model in a bus monad, oracle and legal-card peers"),
                  dict(name="coq-fs", path="coq/fs", serves_properties=sorted(FS), kind_free_text="Coq 8.16.1: layer-B Gallina model of the FAT volume manager (cache, FAT, directories, files, mount) + lemmas; extracted model runner; python spec oracles")],
         checks=checks,
         not_applicable=[dict(property_id=p["id"], reason="check not yet registered in this commit (machinery in progress; see DESIGN.md section 7)") for p in props if p["id"] not in claimed],
         notes="one ./check entry point; one Coq project per group under coq/; evidence written by the check itself; known_findings.txt lists repaired defects (fixed:) and recorded findings (known:)")
json.dump(m, open(os.path.join(V, "MANIFEST.json"), "w"), indent=1)
print("claimed:", sorted(claimed))
