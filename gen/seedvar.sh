#!/bin/sh
# gen/seedvar.sh "<seeds>" "<checks>": runs the quick tier of the given checks under other VERIF_SEED values (false-alarm hunt
# on the unchanged tree); evidence goes to build/evidence-seedvar, one line per run
cd "$(dirname "$0")/.."
mkdir -p build/evidence-seedvar build/tmp
for sd in $1; do for p in $2; do
  VERIF_EVIDENCE_DIR=$PWD/build/evidence-seedvar VERIF_SEED=$sd ./check $p --tier quick > build/tmp/seedvar-$p-$sd.log 2>&1
  echo "$p seed=$sd rc=$? $(grep -c ^VIOLATION build/tmp/seedvar-$p-$sd.log) violations"
done; done
