#!/bin/sh
# gen/mutcheck.sh <worktree> <patch.diff> <Cxx> [more checks]: apply a hand-made mutation to a scratch worktree, run
# the crate's own suite (must stay green for the mutant to count), run the checks against it, restore the worktree.
W=$1; P=$2; shift; shift
V=$(cd "$(dirname "$0")/.." && pwd)
export CARGO_NET_OFFLINE=true
cd "$W" || exit 2
git checkout -- src && git apply "$P" || exit 2
cargo test --workspace --no-fail-fast --offline > /tmp/mutcheck-suite.log 2>&1
echo "$(basename $P): SUITE $(grep -c '^test result: ok' /tmp/mutcheck-suite.log) ok-groups, $(grep -c '^test result: FAILED' /tmp/mutcheck-suite.log) failed-groups"
cd "$V"
for p in "$@"; do
  VERIF_REPO="$W" ./check $p --tier quick > /tmp/mutcheck-$p.log 2>&1; rc=$?
  echo "  CHECK $p rc=$rc: $(grep -E '^# ' /tmp/mutcheck-$p.log | head -2 | cut -c1-260 | tr '\n' '|')"
done
cd "$W" && git checkout -- src
