(* Theorems 4 and 5: the listing state machine reports a long name exactly for a
   complete, correctly ordered run directly before the entry whose start-slot
   checksum equals the short name's; arbitrary slots never panic. *)
From Coq Require Import NArith ZArith List Bool Lia Arith.
From Coq Require Import ZifyClasses ZifyInst Zify ZifyBool ZifyN.
From SdLfn Require Import LfnModel LfnSpec LfnUtf LfnEnc LfnBuf LfnDecodes.
Import ListNotations.
Open Scope N_scope.
Ltac Zify.zify_post_hook ::= Z.to_euclidean_division_equations.
Arguments N.add : simpl never.
Arguments N.sub : simpl never.
Arguments N.mul : simpl never.
Arguments N.div : simpl never.
Arguments N.modulo : simpl never.
Arguments N.leb : simpl never.
Arguments N.ltb : simpl never.
Arguments N.eqb : simpl never.
Arguments N.land : simpl never.
Arguments N.lor : simpl never.
Arguments N.shiftl : simpl never.
Arguments N.shiftr : simpl never.

(* ---- the slot loop as a fold over the delivered slots ---- *)
Definition out3 (o : outcome (seqstate * lfn * list report)) : outcome (list report) :=
  match o with Panic => Panic | Ok (_, _, outs) => Ok outs end.

Fixpoint corest (ds : list (list N)) (ss : seqstate) (st : lfn)
  : outcome (seqstate * lfn * list report) :=
  match ds with
  | [] => Ok (ss, st, [])
  | d :: r =>
      match closure ss st d with
      | Panic => Panic
      | Ok (ss', st', out) =>
          match corest r ss' st' with
          | Panic => Panic
          | Ok (ss2, st2, outs) => Ok (ss2, st2, out ++ outs)
          end
      end
  end.

Lemma listing_from_corest slots : forall ss st,
  listing_from slots ss st = out3 (corest (delivered slots) ss st).
Proof.
  induction slots as [|d r IH]; intros ss st; [reflexivity|].
  cbn [listing_from delivered]. unfold is_valid.
  change (is_end d) with (slot_first d =? 0). change (byte_at d 0) with (slot_first d).
  destruct (slot_first d =? 0); [reflexivity|]. cbn [negb andb].
  destruct (slot_first d =? 0xE5); cbn [negb]; [apply IH|].
  cbn [corest]. destruct (closure ss st d) as [|[[ss' st'] out]]; [reflexivity|].
  rewrite IH. destruct (corest (delivered r) ss' st') as [|[[ss2 st2] outs]]; reflexivity.
Qed.

Lemma corest_app a : forall b ss st,
  corest (a ++ b) ss st =
  match corest a ss st with
  | Panic => Panic
  | Ok (ss1, st1, o1) =>
      match corest b ss1 st1 with
      | Panic => Panic
      | Ok (ss2, st2, o2) => Ok (ss2, st2, o1 ++ o2)
      end
  end.
Proof.
  induction a as [|d r IH]; intros b ss st.
  - cbn [app corest]. destruct (corest b ss st) as [|[[ss2 st2] o2]]; reflexivity.
  - cbn [app corest]. destruct (closure ss st d) as [|[[ss' st'] out]]; [reflexivity|].
    rewrite IH. destruct (corest r ss' st') as [|[[ss1 st1] o1]]; [reflexivity|].
    destruct (corest b ss1 st1) as [|[[ss2 st2] o2]]; [reflexivity|].
    rewrite app_assoc. reflexivity.
Qed.

(* ---- reading a slot: model = spec ---- *)
Lemma lfn_contents_lfn d : slot_is_lfnb d = true ->
  lfn_contents d = Some (slot_startb d, slot_seq d, slot_csum d, slot_units d).
Proof.
  intros H. unfold lfn_contents. change (is_lfn d) with (slot_is_lfnb d). rewrite H.
  rewrite land_1f. reflexivity.
Qed.
Lemma lfn_contents_not d : slot_is_lfnb d = false -> lfn_contents d = None.
Proof. intros H. unfold lfn_contents. change (is_lfn d) with (slot_is_lfnb d). rewrite H. reflexivity. Qed.

Lemma slot_is_lfn_b d : slot_is_lfn d <-> slot_is_lfnb d = true.
Proof. unfold slot_is_lfn, slot_is_lfnb. rewrite N.eqb_eq. reflexivity. Qed.
Lemma slot_start_b d : slot_start d <-> slot_startb d = true.
Proof. unfold slot_start, slot_startb. rewrite negb_true_iff, N.eqb_neq. reflexivity. Qed.
Lemma slot_units_length d : length (slot_units d) = 13%nat.
Proof. reflexivity. Qed.
Lemma slot_seq_lt d : slot_seq d < 32.
Proof. unfold slot_seq. lia. Qed.

(* ---- the checksum ---- *)
Lemma rotr1_sweep :
  forallb (fun r => rotr1 r =? (r mod 2) * 128 + r / 2) (map N.of_nat (seq 0 256)) = true.
Proof. vm_compute. reflexivity. Qed.

Lemma rotr1_arith r : r < 256 -> rotr1 r = (r mod 2) * 128 + r / 2.
Proof.
  intros Hr. pose proof rotr1_sweep as H. rewrite forallb_forall in H.
  apply N.eqb_eq. apply H. rewrite <- (N2Nat.id r). apply in_map. apply in_seq. lia.
Qed.

Lemma csum_spec name : Forall (fun b => b < 256) name -> csum name = spec_csum name.
Proof.
  unfold csum, spec_csum.
  assert (G : forall r, r < 256 ->
    fold_left (fun r b => u8 (rotr1 r + b)) name r =
    fold_left (fun s c => ((s mod 2) * 128 + s / 2 + c) mod 256) name r /\ True).
  2:{ intros _. apply G. lia. }
  induction name as [|b name IH]; intros r Hr; [cbn; auto|].
  cbn [fold_left]. rewrite u8_mod, rotr1_arith by assumption. apply IH. lia.
Qed.

Lemma firstn_bytes k d : Forall (fun b => b < 256) d -> Forall (fun b => b < 256) (firstn k d).
Proof. intros H. revert k. induction H; intros [|k]; cbn; constructor; auto. Qed.

(* ---- runs, generalised to runs still waiting for `nx` more slots ---- *)
Fixpoint tail_to (nx k : nat) (r : list (list N)) {struct r} : Prop :=
  match r with
  | [] => k = nx
  | d :: r' => slot_is_lfn d /\ ~ slot_start d /\ slot_seq d = N.of_nat k /\
               match k with O => False | S k' => tail_to nx k' r' end
  end.

Definition open_run (nx : nat) (run : list (list N)) : Prop :=
  match run with
  | [] => False
  | d :: r => slot_is_lfn d /\ slot_start d /\ slot_seq d = N.of_nat (length run + nx) /\
              (length run + nx <= 19)%nat /\ tail_to nx (length r + nx) r
  end.

Lemma run_tail_to k r : run_tail k r <-> tail_to 0 k r.
Proof.
  revert k. induction r as [|d r IH]; intros k; destruct k as [|k]; simpl; try tauto.
  rewrite IH. tauto.
Qed.

Lemma complete_open run : complete_run run <-> open_run 0 run.
Proof.
  destruct run as [|d r]; cbn [complete_run open_run]; [reflexivity|].
  rewrite !Nat.add_0_r, run_tail_to. reflexivity.
Qed.

Lemma tail_snoc d nx r : forall k, tail_to nx k r -> (1 <= nx)%nat ->
  slot_is_lfn d -> ~ slot_start d -> slot_seq d = N.of_nat nx ->
  tail_to (nx - 1) k (r ++ [d]).
Proof.
  induction r as [|x r IH]; intros k Ht Hnx Hl Hs Hq.
  - cbn in Ht. subst k. cbn. repeat split; try assumption.
    destruct nx as [|nx']; [lia|]. lia.
  - cbn [app tail_to] in *. destruct Ht as (H1 & H2 & H3 & H4). repeat split; try assumption.
    destruct k as [|k']; [exact H4|]. apply IH; assumption.
Qed.

Lemma open_run_snoc d nx run : open_run nx run -> (1 <= nx)%nat ->
  slot_is_lfn d -> ~ slot_start d -> slot_seq d = N.of_nat nx ->
  open_run (nx - 1) (run ++ [d]).
Proof.
  destruct run as [|d0 r]; [intros []|]. intros (H1 & H2 & H3 & H4 & H5) Hnx Hl Hs Hq.
  cbn [app open_run length] in *. rewrite app_length. cbn [length].
  replace (S (length r + 1) + (nx - 1))%nat with (S (length r) + nx)%nat by lia.
  replace (length r + 1 + (nx - 1))%nat with (length r + nx)%nat by lia.
  repeat split; try assumption. apply tail_snoc; assumption.
Qed.

(* ---- one slot through the closure ---- *)
Definition st_ofN (cs m : N) : seqstate := if m =? 0 then Complete cs else Remaining cs m.

Lemma closure_start ss st d : slot_is_lfnb d = true -> slot_startb d = true ->
  1 <= slot_seq d <= 19 ->
  closure ss st d =
  match lfn_push (lfn_clear st) (slot_units d) with
  | Panic => Panic
  | Ok st' => Ok (st_ofN (slot_csum d) (slot_seq d - 1), st', [])
  end.
Proof.
  intros Hl Hs Hq. unfold closure. rewrite lfn_contents_lfn by assumption.
  unfold seq_update, st_ofN. rewrite Hs. cbn [andb].
  set (s := slot_seq d) in *.
  destruct (N.eqb_spec s 1) as [E|E].
  - replace (s - 1 =? 0) with true by lia. unfold clear_push.
    destruct (lfn_push (lfn_clear st) (slot_units d)); reflexivity.
  - replace ((2 <=? s) && (s <? 20)) with true by lia.
    replace (s - 1 =? 0) with false by lia. unfold clear_push.
    destruct (lfn_push (lfn_clear st) (slot_units d)); reflexivity.
Qed.

Lemma closure_cont cs st d : slot_is_lfnb d = true -> slot_startb d = false ->
  1 <= slot_seq d <= 18 ->
  closure (Remaining cs (slot_seq d)) st d =
  match lfn_push st (slot_units d) with
  | Panic => Panic
  | Ok st' => Ok (st_ofN cs (slot_seq d - 1), st', [])
  end.
Proof.
  intros Hl Hs Hq. unfold closure. rewrite lfn_contents_lfn by assumption.
  unfold seq_update, st_ofN. rewrite Hs. cbn [andb].
  set (s := slot_seq d) in *. rewrite N.eqb_refl, !andb_true_r.
  destruct (N.eqb_spec s 1) as [E|E].
  - replace (s - 1 =? 0) with true by lia. unfold just_push.
    destruct (lfn_push st (slot_units d)); reflexivity.
  - replace ((1 <=? s) && (s <? 19)) with true by lia.
    replace (s - 1 =? 0) with false by lia. unfold just_push.
    destruct (lfn_push st (slot_units d)); reflexivity.
Qed.

(* every other long-name slot resets the machine *)
Lemma closure_other ss st d : slot_is_lfnb d = true ->
  (slot_startb d = true -> ~ (1 <= slot_seq d <= 19)) ->
  (slot_startb d = false -> forall cs, ss = Remaining cs (slot_seq d) -> ~ (1 <= slot_seq d <= 18)) ->
  closure ss st d = Ok (Waiting, lfn_clear st, []).
Proof.
  intros Hl H1 H2. unfold closure. rewrite lfn_contents_lfn by assumption.
  unfold seq_update. set (s := slot_seq d) in *.
  destruct (slot_startb d); cbn [andb].
  - specialize (H1 eq_refl).
    replace (s =? 1) with false by lia. replace ((2 <=? s) && (s <? 20)) with false by lia.
    reflexivity.
  - specialize (H2 eq_refl). destruct ss as [|cs next|cs]; try reflexivity.
    destruct (N.eqb_spec next s) as [E|E].
    + subst next. specialize (H2 cs eq_refl).
      replace (s =? 1) with false by lia. cbn [andb].
      replace ((1 <=? s) && (s <? 19)) with false by lia. reflexivity.
    + rewrite !andb_false_r. reflexivity.
Qed.

Definition report_of (ss : seqstate) (st : lfn) (d : list N) : option (list N) :=
  match ss with
  | Complete cs => if cs =? csum (firstn 11 d) then Some (a_str (abs st)) else None
  | _ => None
  end.

Lemma closure_entry ss st d : slot_is_lfnb d = false -> (ss = Waiting \/ wf st) ->
  closure ss st d = Ok (Waiting, st, [(firstn 11 d, report_of ss st d)]).
Proof.
  intros Hl Hwf. unfold closure, report_of. rewrite lfn_contents_not by assumption.
  destruct ss as [|cs next|cs]; try reflexivity.
  destruct (cs =? csum (firstn 11 d)); [|reflexivity].
  destruct Hwf as [Hw|Hw]; [discriminate|]. rewrite as_str_spec by assumption. reflexivity.
Qed.

(* ---- the invariant of the listing ---- *)
Section Listing.
Variable n : nat.

Definition pushes_of (run : list (list N)) : astate :=
  fold_left a_push (map slot_units run) (a_new n).

Lemma pushes_of_snoc run d : pushes_of (run ++ [d]) = a_push (pushes_of run) (slot_units d).
Proof. unfold pushes_of. rewrite map_app, fold_left_app. reflexivity. Qed.

Definition tracks (hist : list (list N)) (ss : seqstate) (st : lfn) : Prop :=
  length (inner st) = n /\
  match ss with
  | Waiting => True
  | Remaining cs next =>
      wf st /\ exists pre' run nx, hist = pre' ++ run /\ open_run nx run /\ (1 <= nx)%nat /\
        next = N.of_nat nx /\ cs = slot_csum (hd [] run) /\ abs st = pushes_of run
  | Complete cs =>
      wf st /\ exists pre' run, hist = pre' ++ run /\ open_run 0 run /\
        cs = slot_csum (hd [] run) /\ abs st = pushes_of run
  end.

Lemma tracks_wf hist ss st : tracks hist ss st -> ss = Waiting \/ wf st.
Proof. intros (_ & H). destruct ss; [auto|right; apply H|right; apply H]. Qed.

Lemma tracks_st_ofN hist cs m st run pre' nx :
  length (inner st) = n -> wf st -> hist = pre' ++ run -> open_run nx run ->
  m = N.of_nat nx -> cs = slot_csum (hd [] run) -> abs st = pushes_of run ->
  tracks hist (st_ofN cs m) st.
Proof.
  intros Hlen Hwf Hh Ho Hm Hc Ha. unfold st_ofN. destruct (N.eqb_spec m 0) as [E|E].
  - assert (nx = 0)%nat by lia. subst nx. split; [exact Hlen|]. split; [exact Hwf|].
    exists pre', run. auto.
  - split; [exact Hlen|]. split; [exact Hwf|]. exists pre', run, nx. repeat split; auto. lia.
Qed.

Lemma hd_app_run (run : list (list N)) d : run <> [] -> hd [] (run ++ [d]) = hd [] run.
Proof. destruct run; [congruence|reflexivity]. Qed.

Lemma closure_tracks hist ss st d : tracks hist ss st ->
  exists ss' st' out, closure ss st d = Ok (ss', st', out) /\ tracks (hist ++ [d]) ss' st' /\
    out = if slot_is_lfnb d then [] else [(firstn 11 d, report_of ss st d)].
Proof.
  intros Ht. pose proof Ht as (Hlen & Hss).
  destruct (slot_is_lfnb d) eqn:Hl.
  2:{ rewrite closure_entry by (try assumption; eapply tracks_wf; eassumption).
      do 3 eexists. split; [reflexivity|]. split; [|reflexivity]. split; [exact Hlen|exact I]. }
  pose proof (slot_seq_lt d) as Hs32.
  assert (Hreset : tracks (hist ++ [d]) Waiting (lfn_clear st)).
  { split; [exact Hlen|exact I]. }
  destruct (slot_startb d) eqn:Hs.
  - (* a start slot *)
    assert (Hcase : 1 <= slot_seq d <= 19 \/ ~ (1 <= slot_seq d <= 19)) by lia.
    destruct Hcase as [Hq|Hq].
    + rewrite closure_start by assumption.
      destruct (push_spec (lfn_clear st) (slot_units d) (wf_clear st)) as (st' & E & Hwf' & Hl' & Ha').
      { rewrite slot_units_length. lia. }
      rewrite E. do 3 eexists. split; [reflexivity|]. split; [|reflexivity].
      apply (tracks_st_ofN _ _ _ _ [d] hist (N.to_nat (slot_seq d - 1))); try reflexivity; try assumption.
      * rewrite Hl'. exact Hlen.
      * cbn [open_run length]. split; [apply slot_is_lfn_b; exact Hl|].
        split; [apply slot_start_b; exact Hs|]. split; [lia|]. split; [lia|]. cbn. lia.
      * lia.
      * rewrite Ha', abs_clear, Hlen. reflexivity.
    + rewrite closure_other; try assumption; try congruence.
      do 3 eexists. split; [reflexivity|]. split; [exact Hreset|reflexivity].
  - (* a continuation slot *)
    destruct ss as [|cs next|cs].
    + rewrite closure_other; try assumption; try congruence.
      do 3 eexists. split; [reflexivity|]. split; [exact Hreset|reflexivity].
    + destruct Hss as (Hwf & pre' & run & nx & Hh & Ho & Hnx & Hnext & Hcs & Ha).
      assert (Hcase : (next = slot_seq d /\ 1 <= slot_seq d <= 18) \/
                      ~ (next = slot_seq d /\ 1 <= slot_seq d <= 18)) by lia.
      destruct Hcase as [[Hn Hq]|Hq].
      * rewrite Hn. rewrite closure_cont by assumption.
        destruct (push_spec st (slot_units d) Hwf) as (st' & E & Hwf' & Hl' & Ha').
        { rewrite slot_units_length. lia. }
        rewrite E. do 3 eexists. split; [reflexivity|]. split; [|reflexivity].
        assert (Hne : run <> []) by (destruct run; [destruct Ho|congruence]).
        apply (tracks_st_ofN _ _ _ _ (run ++ [d]) pre' (nx - 1)); try assumption.
        -- rewrite Hl'. exact Hlen.
        -- rewrite Hh, app_assoc. reflexivity.
        -- apply open_run_snoc; try assumption.
           ++ apply slot_is_lfn_b; exact Hl.
           ++ rewrite slot_start_b. congruence.
           ++ lia.
        -- lia.
        -- rewrite hd_app_run by assumption. exact Hcs.
        -- rewrite Ha', Ha, pushes_of_snoc. reflexivity.
      * rewrite closure_other; try assumption; try congruence.
        2:{ intros _ cs0 Hcs0. injection Hcs0 as _ Hn. lia. }
        do 3 eexists. split; [reflexivity|]. split; [exact Hreset|reflexivity].
    + rewrite closure_other; try assumption; try congruence.
      do 3 eexists. split; [reflexivity|]. split; [exact Hreset|reflexivity].
Qed.

Definition entries (ds : list (list N)) : list (list N) :=
  filter (fun d => negb (slot_is_lfnb d)) ds.

Lemma corest_tracks ds : forall hist ss st, tracks hist ss st ->
  exists ss' st' outs, corest ds ss st = Ok (ss', st', outs) /\ tracks (hist ++ ds) ss' st' /\
    length outs = length (entries ds).
Proof.
  induction ds as [|d r IH]; intros hist ss st Ht.
  - exists ss, st, []. rewrite app_nil_r. cbn. auto.
  - destruct (closure_tracks hist ss st d Ht) as (ss1 & st1 & out & E & Ht1 & Hout).
    destruct (IH (hist ++ [d]) ss1 st1 Ht1) as (ss2 & st2 & outs & E2 & Ht2 & Hlen).
    cbn [corest]. rewrite E, E2. do 3 eexists. split; [reflexivity|].
    split; [rewrite <- app_assoc in Ht2; exact Ht2|].
    rewrite app_length, Hlen, Hout. unfold entries. cbn [filter].
    destruct (slot_is_lfnb d); cbn; lia.
Qed.

(* a complete run, from whatever state, ends in Complete with its pushes *)
Lemma corest_tail r : forall k cs st, tail_to 0 k r -> (k <= 18)%nat -> wf st ->
  exists st', corest r (st_ofN cs (N.of_nat k)) st = Ok (Complete cs, st', []) /\ wf st' /\
    length (inner st') = length (inner st) /\
    abs st' = fold_left a_push (map slot_units r) (abs st).
Proof.
  induction r as [|d r IH]; intros k cs st Ht Hk Hwf.
  - cbn in Ht. subst k. exists st. cbn. auto.
  - cbn [tail_to] in Ht. destruct Ht as (Hl & Hs & Hq & Ht). destruct k as [|k']; [destruct Ht|].
    unfold st_ofN at 1. replace (N.of_nat (S k') =? 0) with false by lia.
    rewrite <- Hq. cbn [corest]. rewrite closure_cont.
    2:{ apply slot_is_lfn_b; exact Hl. }
    2:{ destruct (slot_startb d) eqn:E; [|reflexivity]. exfalso. apply Hs, slot_start_b. exact E. }
    2:{ lia. }
    destruct (push_spec st (slot_units d) Hwf) as (st1 & E & Hwf1 & Hl1 & Ha1).
    { rewrite slot_units_length. lia. }
    rewrite E. replace (slot_seq d - 1) with (N.of_nat k') by lia.
    destruct (IH k' cs st1 Ht ltac:(lia) Hwf1) as (st' & E' & Hwf' & Hl' & Ha').
    rewrite E'. exists st'. split; [reflexivity|]. split; [exact Hwf'|]. split; [congruence|].
    cbn [map fold_left]. rewrite Ha', Ha1. reflexivity.
Qed.

Lemma corest_run run ss st : open_run 0 run -> length (inner st) = n ->
  exists st', corest run ss st = Ok (Complete (slot_csum (hd [] run)), st', []) /\ wf st' /\
    length (inner st') = n /\ abs st' = pushes_of run.
Proof.
  destruct run as [|d r]; [intros []|]. intros (Hl & Hs & Hq & Hlen & Ht) Hn.
  rewrite !Nat.add_0_r in *. cbn [length] in *. cbn [corest hd].
  rewrite closure_start.
  2:{ apply slot_is_lfn_b; exact Hl. }
  2:{ apply slot_start_b; exact Hs. }
  2:{ lia. }
  destruct (push_spec (lfn_clear st) (slot_units d) (wf_clear st)) as (st1 & E & Hwf1 & Hl1 & Ha1).
  { rewrite slot_units_length. lia. }
  rewrite E. replace (slot_seq d - 1) with (N.of_nat (length r)) by lia.
  destruct (corest_tail r (length r) (slot_csum d) st1 Ht ltac:(lia) Hwf1) as (st' & E' & Hwf' & Hl' & Ha').
  rewrite E'. exists st'. split; [reflexivity|]. split; [exact Hwf'|].
  split; [cbn [lfn_clear inner] in *; congruence|].
  unfold pushes_of. cbn [map fold_left]. rewrite Ha', Ha1, abs_clear, Hn. reflexivity.
Qed.

End Listing.

(* ---- slots give fragments ---- *)
Lemma nth_byte d i : Forall (fun b => b < 256) d -> nth i d 0 < 256.
Proof.
  intros H. revert i. induction H as [|x r Hx _ IH]; intros [|i]; cbn; try lia; auto.
Qed.

Lemma slot_units_fragment d : is_slot d -> fragment (slot_units d).
Proof.
  intros [_ Hb]. split; [reflexivity|]. unfold slot_units, is_u16s, le16.
  cbn [map]. repeat constructor;
    match goal with |- nth ?i d 0 + 256 * nth ?j d 0 < _ =>
      pose proof (nth_byte d i Hb); pose proof (nth_byte d j Hb); lia end.
Qed.

Lemma delivered_slots slots : Forall is_slot slots -> Forall is_slot (delivered slots).
Proof.
  induction 1 as [|d r Hd _ IH]; cbn [delivered]; [constructor|].
  destruct (slot_first d =? 0); [constructor|].
  destruct (slot_first d =? 0xE5); [exact IH|constructor; assumption].
Qed.

Lemma run_name n run : Forall is_slot run ->
  a_str (pushes_of n run) = lfn_actual n (run_frags run).
Proof.
  intros Hs.
  assert (H : lfn_pushes n (rev (run_frags run)) = Ok (lfn_actual n (run_frags run))).
  { apply lfn_decodes_all. unfold run_frags. apply Forall_rev. apply Forall_map.
    eapply Forall_impl; [|exact Hs]. apply slot_units_fragment. }
  unfold run_frags in H at 1. rewrite rev_involutive in H.
  rewrite lfn_pushes_abs in H.
  - injection H as H. exact H.
  - apply Forall_map. apply Forall_forall. intros d _. rewrite slot_units_length. lia.
Qed.

(* THEOREM 5 *)
Theorem listing_total slots st0 : exists outs,
  listing slots st0 = Ok outs /\ length outs = length (entries (delivered slots)).
Proof.
  unfold listing. rewrite listing_from_corest.
  destruct (corest_tracks (length (inner st0)) (delivered slots) [] Waiting st0)
    as (ss & st & outs & E & _ & Hlen).
  { split; [reflexivity|exact I]. }
  rewrite E. exists outs. split; [reflexivity|exact Hlen].
Qed.

(* THEOREM 4 *)
Theorem listing_reports slots st0 pre e post :
  Forall is_slot slots -> delivered slots = pre ++ e :: post -> ~ slot_is_lfn e ->
  exists outs1 r outs2,
    listing slots st0 = Ok (outs1 ++ (firstn 11 e, r) :: outs2) /\
    length outs1 = length (entries pre) /\
    (forall nm, r = Some nm <->
       exists pre' run, pre = pre' ++ run /\ complete_run run /\
         slot_csum (hd [] run) = spec_csum (firstn 11 e) /\
         nm = lfn_actual (length (inner st0)) (run_frags run)).
Proof.
  intros Hslots Hd He. set (n := length (inner st0)).
  assert (Hds : Forall is_slot (pre ++ e :: post)) by (rewrite <- Hd; apply delivered_slots; exact Hslots).
  apply Forall_app in Hds. destruct Hds as (Hpre & Hds). inversion Hds as [|? ? Hes _]; subst.
  assert (Heb : slot_is_lfnb e = false).
  { destruct (slot_is_lfnb e) eqn:E; [|reflexivity]. exfalso. apply He, slot_is_lfn_b. exact E. }
  assert (Hcs : csum (firstn 11 e) = spec_csum (firstn 11 e)).
  { apply csum_spec. apply firstn_bytes. apply Hes. }
  unfold listing. rewrite listing_from_corest, Hd.
  assert (Ht0 : tracks n [] Waiting st0) by (split; [reflexivity|exact I]).
  destruct (corest_tracks n pre [] Waiting st0 Ht0) as (ss1 & st1 & o1 & E1 & Ht1 & Hl1).
  cbn [app] in Ht1.
  destruct (closure_tracks n pre ss1 st1 e Ht1) as (ss2 & st2 & oe & E2 & Ht2 & Hoe).
  rewrite Heb in Hoe.
  destruct (corest_tracks n post (pre ++ [e]) ss2 st2 Ht2) as (ss3 & st3 & o3 & E3 & _ & _).
  rewrite corest_app, E1. cbn [corest]. rewrite E2, E3. cbn [out3].
  exists o1, (report_of ss1 st1 e), o3. rewrite Hoe. split; [reflexivity|]. split; [exact Hl1|].
  intros nm. split.
  - intros Hr. unfold report_of in Hr. destruct ss1 as [|cs next|cs]; try discriminate.
    destruct (N.eqb_spec cs (csum (firstn 11 e))) as [Ec|Ec]; [|discriminate].
    injection Hr as <-. destruct Ht1 as (_ & Hwf & pre' & run & Hh & Ho & Hc & Ha).
    exists pre', run. split; [exact Hh|]. split; [apply complete_open; exact Ho|].
    split; [congruence|]. rewrite Ha. apply run_name.
    rewrite Hh in Hpre. apply Forall_app in Hpre. apply Hpre.
  - intros (pre' & run & Hh & Hc & Hsum & Hnm).
    apply complete_open in Hc.
    destruct (corest_tracks n pre' [] Waiting st0 Ht0) as (ssa & sta & oa & Ea & (Hlena & _) & _).
    destruct (corest_run n run ssa sta Hc Hlena) as (stb & Eb & Hwfb & Hlenb & Hab).
    rewrite Hh, corest_app, Ea, Eb in E1. injection E1 as <- <- _.
    unfold report_of. rewrite Hsum, <- Hcs, N.eqb_refl. f_equal.
    rewrite Hnm, Hab. apply run_name.
    rewrite Hh in Hpre. apply Forall_app in Hpre. apply Hpre.
Qed.

(* ---------------------------------------------------------------------- *)
(* The executable oracle of the correspondence check (spec_listing) decides *)
(* the declarative statement.                                               *)
(* ---------------------------------------------------------------------- *)
Lemma tail_to_length nx r : forall k, tail_to nx k r -> k = (nx + length r)%nat.
Proof.
  induction r as [|d r IH]; intros k H; cbn in *; [lia|].
  destruct H as (_ & _ & _ & H). destruct k as [|k']; [destruct H|]. apply IH in H. lia.
Qed.

(* soundness of the backwards scan *)
Lemma find_run_sound rb : forall k acc run, find_run rb k acc = Some run -> (1 <= k)%nat ->
  tail_to 0 (k - 1) acc ->
  exists t rest, rb = t ++ rest /\ run = rev t ++ acc /\ open_run 0 run.
Proof.
  induction rb as [|d r IH]; intros k acc run H Hk Hacc; [discriminate|].
  cbn [find_run] in H.
  destruct (slot_is_lfnb d) eqn:Hl; [|discriminate]. cbn [andb] in H.
  destruct (N.eqb_spec (slot_seq d) (N.of_nat k)) as [Hq|]; [|discriminate]. cbn [andb] in H.
  destruct (Nat.leb_spec k 19) as [Hk19|]; [|discriminate].
  destruct (slot_startb d) eqn:Hs.
  - injection H as <-. exists [d], r. split; [reflexivity|]. split; [reflexivity|].
    pose proof (tail_to_length _ _ _ Hacc) as Hlen. cbn [open_run length].
    split; [apply slot_is_lfn_b; exact Hl|]. split; [apply slot_start_b; exact Hs|].
    split; [rewrite Hq; f_equal; lia|]. split; [lia|].
    replace (length acc + 0)%nat with (k - 1)%nat by lia. exact Hacc.
  - destruct (IH (S k) (d :: acc) run H ltac:(lia)) as (t & rest & Hr & Hrun & Ho).
    { cbn [tail_to]. replace (S k - 1)%nat with k by lia.
      split; [apply slot_is_lfn_b; exact Hl|].
      split; [rewrite slot_start_b; congruence|]. split; [exact Hq|].
      destruct k as [|k']; [lia|]. replace (S k' - 1)%nat with k' in Hacc by lia. exact Hacc. }
    exists (d :: t), rest. split; [cbn; congruence|]. split; [|exact Ho].
    cbn [rev]. rewrite <- app_assoc. exact Hrun.
Qed.

(* nearest-first view of the later slots of a run: numbered k, k+1, ... *)
Fixpoint asc (k : nat) (l : list (list N)) : Prop :=
  match l with
  | [] => True
  | d :: l' => slot_is_lfn d /\ ~ slot_start d /\ slot_seq d = N.of_nat k /\ asc (S k) l'
  end.

Lemma asc_snoc d l : forall j, asc j l -> slot_is_lfn d -> ~ slot_start d ->
  slot_seq d = N.of_nat (j + length l) -> asc j (l ++ [d]).
Proof.
  induction l as [|x l IH]; intros j Ha Hl Hs Hq; cbn [app asc length] in *.
  - rewrite Nat.add_0_r in Hq. auto.
  - destruct Ha as (A1 & A2 & A3 & A4). repeat split; try assumption.
    apply IH; try assumption. rewrite Hq. f_equal. lia.
Qed.

Lemma tail_asc r : forall k, tail_to 0 k r -> asc 1 (rev r) /\ length r = k.
Proof.
  induction r as [|d r IH]; intros k H; cbn [tail_to] in H.
  - subst. cbn. auto.
  - destruct H as (Hl & Hs & Hq & H). destruct k as [|k']; [destruct H|].
    destruct (IH k' H) as (Ha & Hlen). split; [|cbn; lia].
    cbn [rev]. apply asc_snoc; try assumption. rewrite rev_length, Hq. f_equal. lia.
Qed.

Lemma find_run_complete tl : forall k acc d0 rest, asc k tl ->
  slot_is_lfn d0 -> slot_start d0 -> slot_seq d0 = N.of_nat (k + length tl) ->
  (k + length tl <= 19)%nat ->
  find_run (tl ++ d0 :: rest) k acc = Some (d0 :: rev tl ++ acc).
Proof.
  induction tl as [|x tl IH]; intros k acc d0 rest Ha Hl Hs Hq Hk; cbn [app find_run length rev] in *.
  - apply slot_is_lfn_b in Hl. apply slot_start_b in Hs. rewrite Nat.add_0_r in *.
    rewrite Hl, Hs, Hq, N.eqb_refl. cbn [andb].
    destruct (Nat.leb_spec k 19); [reflexivity|lia].
  - destruct Ha as (A1 & A2 & A3 & A4). apply slot_is_lfn_b in A1.
    assert (A2' : slot_startb x = false).
    { destruct (slot_startb x) eqn:E; [|reflexivity]. exfalso. apply A2, slot_start_b. exact E. }
    rewrite A1, A2', A3, N.eqb_refl. cbn [andb].
    destruct (Nat.leb_spec k 19); [|lia].
    rewrite (IH (S k) (x :: acc) d0 rest A4 Hl Hs); [|rewrite Hq; f_equal; lia|lia].
    rewrite <- app_assoc. reflexivity.
Qed.

Lemma find_run_iff pre run :
  find_run (rev pre) 1 [] = Some run <-> exists pre', pre = pre' ++ run /\ open_run 0 run.
Proof.
  split.
  - intros H. destruct (find_run_sound _ _ _ _ H ltac:(lia)) as (t & rest & Hr & Hrun & Ho).
    { cbn. reflexivity. }
    rewrite app_nil_r in Hrun. subst run. exists (rev rest). split; [|exact Ho].
    rewrite <- rev_app_distr, <- Hr, rev_involutive. reflexivity.
  - intros (pre' & -> & Ho). destruct run as [|d0 tl]; [destruct Ho|].
    destruct Ho as (Hl & Hs & Hq & Hlen & Ht). rewrite !Nat.add_0_r in *. cbn [length] in *.
    destruct (tail_asc _ _ Ht) as (Ha & _).
    rewrite rev_app_distr. cbn [rev]. rewrite <- app_assoc. cbn [app].
    rewrite (find_run_complete (rev tl) 1 [] d0 (rev pre') Ha Hl Hs).
    + rewrite rev_involutive, app_nil_r. reflexivity.
    + rewrite rev_length, Hq. f_equal.
    + rewrite rev_length. lia.
Qed.

Lemma spec_listing_from_app n a : forall rb b,
  spec_listing_from n rb (a ++ b) =
  spec_listing_from n rb a ++ spec_listing_from n (rev a ++ rb) b /\
  length (spec_listing_from n rb a) = length (entries a).
Proof.
  induction a as [|d a IH]; intros rb b; [cbn; auto|].
  cbn [app spec_listing_from rev entries filter]. destruct (IH (d :: rb) b) as (E & L).
  rewrite <- app_assoc. cbn [app].
  destruct (slot_is_lfnb d); cbn [negb]; rewrite E; cbn [app length]; auto.
Qed.

(* how a reported long name relates to the oracle's: equal unless the oracle
   flags the known class, and then different *)
Definition agree (r : option (list N)) (o : option (list N * bool)) : Prop :=
  match o with
  | None => r = None
  | Some (s, known) => exists a, r = Some a /\ (known = false -> a = s) /\ (known = true -> a <> s)
  end.

Lemma actual_vs_spec n frags : Forall fragment frags ->
  (KnownClassN n frags = false -> lfn_actual n frags = lfn_spec n frags) /\
  (KnownClassN n frags = true -> lfn_actual n frags <> lfn_spec n frags).
Proof.
  intros Hf. pose proof (lfn_decodes_all n frags Hf) as Ha.
  pose proof (lfn_decodes_exact n frags Hf) as He. rewrite Ha in He. split.
  - intros Hk. apply He in Hk. injection Hk as Hk. exact Hk.
  - intros Hk E. rewrite E in He. destruct He as (He & _). specialize (He eq_refl). congruence.
Qed.

Theorem listing_oracle slots st0 pre e post :
  Forall is_slot slots -> delivered slots = pre ++ e :: post -> ~ slot_is_lfn e ->
  exists outs1 r outs2 sp1 o sp2,
    listing slots st0 = Ok (outs1 ++ (firstn 11 e, r) :: outs2) /\
    spec_listing (length (inner st0)) slots = sp1 ++ (firstn 11 e, o) :: sp2 /\
    length outs1 = length sp1 /\ agree r o.
Proof.
  intros Hslots Hd He.
  destruct (listing_reports slots st0 pre e post Hslots Hd He) as (outs1 & r & outs2 & El & Hlen & Hiff).
  set (n := length (inner st0)) in *.
  assert (Hds : Forall is_slot (pre ++ e :: post)) by (rewrite <- Hd; apply delivered_slots; exact Hslots).
  apply Forall_app in Hds. destruct Hds as (Hpre & _).
  assert (Heb : slot_is_lfnb e = false).
  { destruct (slot_is_lfnb e) eqn:E; [|reflexivity]. exfalso. apply He, slot_is_lfn_b. exact E. }
  destruct (spec_listing_from_app n pre [] (e :: post)) as (Es & Ls).
  exists outs1, r, outs2, (spec_listing_from n [] pre), (spec_name n (rev pre) e),
         (spec_listing_from n (e :: rev pre) post).
  split; [exact El|]. split.
  { unfold spec_listing. rewrite Hd, Es, app_nil_r. cbn [spec_listing_from]. rewrite Heb. reflexivity. }
  split; [congruence|].
  unfold agree, spec_name.
  destruct (find_run (rev pre) 1 []) as [run|] eqn:Ef.
  - pose proof Ef as Ef'. apply find_run_iff in Ef'. destruct Ef' as (pre' & Hp & Ho).
    destruct run as [|d run']; [destruct Ho|].
    assert (Hfr : Forall fragment (run_frags (d :: run'))).
    { unfold run_frags. apply Forall_rev, Forall_map. rewrite Hp in Hpre.
      apply Forall_app in Hpre. eapply Forall_impl; [|apply Hpre]. apply slot_units_fragment. }
    destruct (N.eqb_spec (slot_csum d) (spec_csum (firstn 11 e))) as [Ec|Ec].
    + exists (lfn_actual n (run_frags (d :: run'))). split.
      * apply Hiff. exists pre', (d :: run'). split; [exact Hp|].
        split; [apply complete_open; exact Ho|]. split; [exact Ec|reflexivity].
      * apply actual_vs_spec. exact Hfr.
    + destruct r as [nm|]; [|reflexivity]. exfalso.
      destruct (proj1 (Hiff nm) eq_refl) as (pre2 & run2 & Hp2 & Hc2 & Hs2 & _).
      assert (E2 : find_run (rev pre) 1 [] = Some run2).
      { apply find_run_iff. exists pre2. split; [exact Hp2|apply complete_open; exact Hc2]. }
      rewrite Ef in E2. injection E2 as <-. apply Ec. exact Hs2.
  - destruct r as [nm|]; [|reflexivity]. exfalso.
    destruct (proj1 (Hiff nm) eq_refl) as (pre2 & run2 & Hp2 & Hc2 & _).
    assert (E2 : find_run (rev pre) 1 [] = Some run2).
    { apply find_run_iff. exists pre2. split; [exact Hp2|apply complete_open; exact Hc2]. }
    congruence.
Qed.

Lemma listing_name (n : nat) (run : list (list N)) : Forall is_slot run ->
  (KnownClassN n (run_frags run) = false -> lfn_actual n (run_frags run) = lfn_spec n (run_frags run)) /\
  (KnownClassN n (run_frags run) = true -> lfn_actual n (run_frags run) <> lfn_spec n (run_frags run)).
Proof.
  intros H. apply actual_vs_spec. unfold run_frags. apply Forall_rev, Forall_map.
  eapply Forall_impl; [|exact H]. apply slot_units_fragment.
Qed.
