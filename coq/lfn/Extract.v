(* Extraction of the executable model and spec (ExtrOcamlBasic only). *)
From Coq Require Import NArith List Extraction ExtrOcamlBasic.
From SdLfn Require Import LfnModel LfnSpec.
Extraction Language OCaml.
Extraction "../../build/extract/lfn/lfnx.ml"
  lfn_pushes lfn_spec listing lfn_new lfn_push lfn_clear lfn_as_str spec_listing spec_csum lossy utf8 valid_utf8 KnownClass KnownClassN
  csum lfn_contents decode_utf16 encode_utf8 name_units.
