(* The model's encode_utf8 (shifts and masks) equals the spec's utf8_char
   (division and remainder); the RFC 3629 acceptor accepts the encoding of every
   list of scalar values; the decoder only produces scalar values. *)
From Coq Require Import NArith ZArith List Bool Lia.
From Coq Require Import ZifyClasses ZifyInst Zify ZifyBool ZifyN.
From SdLfn Require Import LfnModel LfnSpec LfnUtf.
Import ListNotations.
Open Scope N_scope.
Ltac Zify.zify_post_hook ::= Z.to_euclidean_division_equations.
Arguments N.add : simpl never.
Arguments N.sub : simpl never.
Arguments N.mul : simpl never.
Arguments N.div : simpl never.
Arguments N.modulo : simpl never.
Arguments N.leb : simpl never.
Arguments N.ltb : simpl never.
Arguments N.eqb : simpl never.
Arguments N.land : simpl never.
Arguments N.lor : simpl never.
Arguments N.shiftl : simpl never.
Arguments N.shiftr : simpl never.

(* ---- bit operations as arithmetic ---- *)
Lemma lor_tag a t k : a < 2 ^ k -> N.lor a (N.shiftl t k) = a + t * 2 ^ k.
Proof.
  intros Ha.
  assert (Hd : N.land a (N.shiftl t k) = 0).
  { apply N.bits_inj. intros i. rewrite N.land_spec, N.bits_0.
    destruct (N.ltb_spec i k).
    - rewrite N.shiftl_spec_low by assumption. apply andb_false_r.
    - rewrite <- (N.mod_small a (2 ^ k)) by assumption.
      rewrite N.mod_pow2_bits_high by assumption. reflexivity. }
  rewrite <- N.lxor_lor by assumption. rewrite <- N.add_nocarry_lxor by assumption.
  rewrite N.shiftl_mul_pow2. reflexivity.
Qed.

Lemma u8_mod x : u8 x = x mod 256.
Proof. unfold u8. change 255 with (N.ones 8). rewrite N.land_ones. reflexivity. Qed.
Lemma land_3f x : N.land x 0x3F = x mod 64.
Proof. change 0x3F with (N.ones 6). rewrite N.land_ones. reflexivity. Qed.
Lemma land_1f x : N.land x 0x1F = x mod 32.
Proof. change 0x1F with (N.ones 5). rewrite N.land_ones. reflexivity. Qed.
Lemma land_0f x : N.land x 0x0F = x mod 16.
Proof. change 0x0F with (N.ones 4). rewrite N.land_ones. reflexivity. Qed.
Lemma land_07 x : N.land x 0x07 = x mod 8.
Proof. change 0x07 with (N.ones 3). rewrite N.land_ones. reflexivity. Qed.
Lemma shr_div x k : N.shiftr x k = x / 2 ^ k.
Proof. apply N.shiftr_div_pow2. Qed.

Lemma lor_80 a : a < 64 -> N.lor a 0x80 = 0x80 + a.
Proof. intros. change 0x80 with (N.shiftl 2 6). rewrite lor_tag by (vm_compute (2 ^ _); lia). vm_compute (2 ^ _). vm_compute (N.shiftl _ _). lia. Qed.
Lemma lor_c0 a : a < 64 -> N.lor a 0xC0 = 0xC0 + a.
Proof. intros. change 0xC0 with (N.shiftl 3 6). rewrite lor_tag by (vm_compute (2 ^ _); lia). vm_compute (2 ^ _). vm_compute (N.shiftl _ _). lia. Qed.
Lemma lor_e0 a : a < 32 -> N.lor a 0xE0 = 0xE0 + a.
Proof. intros. change 0xE0 with (N.shiftl 7 5). rewrite lor_tag by (vm_compute (2 ^ _); lia). vm_compute (2 ^ _). vm_compute (N.shiftl _ _). lia. Qed.
Lemma lor_f0 a : a < 16 -> N.lor a 0xF0 = 0xF0 + a.
Proof. intros. change 0xF0 with (N.shiftl 15 4). rewrite lor_tag by (vm_compute (2 ^ _); lia). vm_compute (2 ^ _). vm_compute (N.shiftl _ _). lia. Qed.

Lemma encode_utf8_spec c : c < 0x200000 -> encode_utf8 c = utf8_char c.
Proof.
  intros Hc. unfold encode_utf8, utf8_char, len_utf8.
  destruct (N.ltb_spec c 0x80); [|destruct (N.ltb_spec c 0x800); [|destruct (N.ltb_spec c 0x10000)]].
  - rewrite u8_mod. f_equal. lia.
  - rewrite !u8_mod, land_1f, land_3f, shr_div.
    rewrite lor_c0, lor_80 by lia. change (2 ^ 6) with 64. repeat (match goal with |- _ :: _ = _ :: _ => f_equal end); lia.
  - rewrite !u8_mod, land_0f, !land_3f, !shr_div.
    rewrite lor_e0, !lor_80 by lia. change (2 ^ 6) with 64. change (2 ^ 12) with 4096.
    repeat (match goal with |- _ :: _ = _ :: _ => f_equal end); lia.
  - rewrite !u8_mod, land_07, !land_3f, !shr_div.
    rewrite lor_f0, !lor_80 by lia. change (2 ^ 6) with 64. change (2 ^ 12) with 4096.
    change (2 ^ 18) with 262144. repeat (match goal with |- _ :: _ = _ :: _ => f_equal end); lia.
Qed.

(* ---- the acceptor, one step at a time ---- *)
Ltac ustep_tac :=
  intros; unfold ustep, in_range;
  repeat match goal with
         | |- context [N.leb ?a ?b] => destruct (N.leb_spec a b); cbn [andb]; try lia
         | |- context [N.eqb ?a ?b] => destruct (N.eqb_spec a b); try lia
         end; try reflexivity; try lia.

Lemma us_ascii b : b <= 0x7F -> ustep UStart b = UStart. Proof. ustep_tac. Qed.
Lemma us_2 b : 0xC2 <= b <= 0xDF -> ustep UStart b = UTail1. Proof. ustep_tac. Qed.
Lemma us_e0 : ustep UStart 0xE0 = UE0. Proof. reflexivity. Qed.
Lemma us_3a b : 0xE1 <= b <= 0xEC -> ustep UStart b = UTail2. Proof. ustep_tac. Qed.
Lemma us_ed : ustep UStart 0xED = UED. Proof. reflexivity. Qed.
Lemma us_3b b : 0xEE <= b <= 0xEF -> ustep UStart b = UTail2. Proof. ustep_tac. Qed.
Lemma us_f0 : ustep UStart 0xF0 = UF0. Proof. reflexivity. Qed.
Lemma us_4 b : 0xF1 <= b <= 0xF3 -> ustep UStart b = UTail3. Proof. ustep_tac. Qed.
Lemma us_f4 : ustep UStart 0xF4 = UF4. Proof. reflexivity. Qed.
Lemma us_t1 b : 0x80 <= b <= 0xBF -> ustep UTail1 b = UStart. Proof. ustep_tac. Qed.
Lemma us_t2 b : 0x80 <= b <= 0xBF -> ustep UTail2 b = UTail1. Proof. ustep_tac. Qed.
Lemma us_t3 b : 0x80 <= b <= 0xBF -> ustep UTail3 b = UTail2. Proof. ustep_tac. Qed.
Lemma us_e0t b : 0xA0 <= b <= 0xBF -> ustep UE0 b = UTail1. Proof. ustep_tac. Qed.
Lemma us_edt b : 0x80 <= b <= 0x9F -> ustep UED b = UTail1. Proof. ustep_tac. Qed.
Lemma us_f0t b : 0x90 <= b <= 0xBF -> ustep UF0 b = UTail2. Proof. ustep_tac. Qed.
Lemma us_f4t b : 0x80 <= b <= 0x8F -> ustep UF4 b = UTail2. Proof. ustep_tac. Qed.

Lemma scalar_bounds c : is_scalar c = true -> c < 0xD800 \/ (0xDFFF < c /\ c < 0x110000).
Proof. unfold is_scalar. lia. Qed.

Lemma accept_char c : is_scalar c = true ->
  fold_left ustep (utf8_char c) UStart = UStart.
Proof.
  intros Hs. apply scalar_bounds in Hs. unfold utf8_char.
  destruct (N.ltb_spec c 0x80); [|destruct (N.ltb_spec c 0x800); [|destruct (N.ltb_spec c 0x10000)]];
    cbn [fold_left].
  - apply us_ascii. lia.
  - rewrite us_2 by lia. apply us_t1. lia.
  - assert (Hq : c / 4096 = 0 \/ 1 <= c / 4096 <= 12 \/ c / 4096 = 13 \/ 14 <= c / 4096 <= 15) by lia.
    destruct Hq as [Hq|[Hq|[Hq|Hq]]].
    + rewrite Hq. change (0xE0 + 0) with 0xE0. rewrite us_e0, us_e0t by lia. apply us_t1. lia.
    + rewrite us_3a by lia. rewrite us_t2 by lia. apply us_t1. lia.
    + rewrite Hq. change (0xE0 + 13) with 0xED. rewrite us_ed, us_edt by lia. apply us_t1. lia.
    + rewrite us_3b by lia. rewrite us_t2 by lia. apply us_t1. lia.
  - assert (Hq : c / 262144 = 0 \/ 1 <= c / 262144 <= 3 \/ c / 262144 = 4) by lia.
    destruct Hq as [Hq|[Hq|Hq]].
    + rewrite Hq. change (0xF0 + 0) with 0xF0. rewrite us_f0, us_f0t by lia.
      rewrite us_t2 by lia. apply us_t1. lia.
    + rewrite us_4 by lia. rewrite us_t3 by lia. rewrite us_t2 by lia. apply us_t1. lia.
    + rewrite Hq. change (0xF0 + 4) with 0xF4. rewrite us_f4, us_f4t by lia.
      rewrite us_t2 by lia. apply us_t1. lia.
Qed.

Lemma accept_utf8 cs : Forall (fun c => is_scalar c = true) cs ->
  fold_left ustep (utf8 cs) UStart = UStart.
Proof.
  unfold utf8. induction 1 as [|c cs Hc _ IH]; [reflexivity|].
  cbn [map concat]. rewrite fold_left_app, accept_char by assumption. exact IH.
Qed.

Lemma valid_utf8_utf8 cs : Forall (fun c => is_scalar c = true) cs -> valid_utf8 (utf8 cs) = true.
Proof. intros H. unfold valid_utf8. rewrite accept_utf8 by assumption. reflexivity. Qed.

Lemma utf8_char_length c : (1 <= length (utf8_char c) <= 4)%nat.
Proof.
  unfold utf8_char. destruct (c <? 0x80), (c <? 0x800), (c <? 0x10000); cbn; lia.
Qed.

Lemma utf8_app a b : utf8 (a ++ b) = utf8 a ++ utf8 b.
Proof. unfold utf8. rewrite map_app, concat_app. reflexivity. Qed.

(* ---- the decoder yields scalar values ---- *)
Lemma pair_scalar_is_scalar h l : is_high h = true -> is_low l = true ->
  is_scalar (pair_scalar h l) = true.
Proof.
  intros Hh Hl. rewrite pair_scalar_spec by assumption.
  unfold is_scalar, scalar_of_pair, is_high, is_low in *. lia.
Qed.

Lemma chars_scalar l : is_u16s l -> Forall (fun c => is_scalar c = true) (chars l).
Proof.
  unfold chars, is_u16s.
  induction l as [|a|a b l IH1 IH2] using list_ind2; intros Hu.
  - constructor.
  - inversion Hu as [|? ? Ha _]; subst. by_cls a.
    + rewrite dec_plain by assumption. cbn. constructor; [|constructor].
      unfold is_scalar, is_high, is_low in *. lia.
    + rewrite dec_high_end by assumption. cbn. constructor; [reflexivity|constructor].
    + rewrite dec_low by assumption. cbn. constructor; [reflexivity|constructor].
  - inversion Hu as [|? ? Ha Hu']; subst. inversion Hu' as [|? ? Hb Hu'']; subst.
    by_cls a.
    + rewrite dec_plain by assumption. cbn [map item_char]. constructor; [|auto].
      unfold is_scalar, is_high, is_low in *. lia.
    + destruct (is_low b) eqn:Hlb.
      * rewrite dec_high_pair by assumption. cbn [map item_char].
        constructor; [apply pair_scalar_is_scalar; assumption|auto].
      * rewrite dec_high_lone by assumption. cbn [map item_char]. constructor; [reflexivity|auto].
    + rewrite dec_low by assumption. cbn [map item_char]. constructor; [reflexivity|auto].
Qed.

Lemma scalar_lt c : is_scalar c = true -> c < 0x200000.
Proof. unfold is_scalar. lia. Qed.

(* the model's own concatenated encoding equals the spec's on scalar values *)
Lemma encode_map_utf8 cs : Forall (fun c => is_scalar c = true) cs ->
  concat (map encode_utf8 cs) = utf8 cs.
Proof.
  unfold utf8. induction 1 as [|c cs Hc _ IH]; [reflexivity|].
  cbn [map concat]. rewrite IH, encode_utf8_spec by (apply scalar_lt; assumption). reflexivity.
Qed.
