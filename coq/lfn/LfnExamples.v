(* Examples: the hypotheses of the C17 theorems are satisfiable by non-trivial cases. *)
From Coq Require Import NArith List Lia.
From SdLfn Require Import LfnModel LfnSpec LfnUtf LfnEnc LfnBuf LfnDecodes LfnListing.
Import ListNotations.
Open Scope N_scope.

Example lfn_example_split_pair :
  let f2 := [0xDE00; 0x2E; 0x74; 0x78; 0x74; 0; 0xFFFF; 0xFFFF; 0xFFFF; 0xFFFF; 0xFFFF; 0xFFFF; 0xFFFF] in
  let f1 := [0x41; 0x42; 0x30; 0x31; 0x32; 0x33; 0x34; 0x35; 0x36; 0x37; 0x38; 0x39; 0xD83D] in
  Forall fragment [f1; f2] /\ KnownClass [f1; f2] = false /\
  lfn_pushes 64 (rev [f1; f2]) =
  Ok [0x41; 0x42; 0x30; 0x31; 0x32; 0x33; 0x34; 0x35; 0x36; 0x37; 0x38; 0x39; 0xF0; 0x9F; 0x98; 0x80; 0x2E; 0x74; 0x78; 0x74].
Proof.
  cbv zeta. split; [|split; vm_compute; reflexivity].
  repeat constructor.
Qed.

Example lfn_example_collision :
  csum [0x41; 0x42; 32; 32; 32; 32; 32; 32; 32; 32; 32] = 0x91 /\
  csum [0x43; 0x41; 32; 32; 32; 32; 32; 32; 32; 32; 32] = 0x91.
Proof. split; vm_compute; reflexivity. Qed.

Example lfn_example_listing :
  let l := [0x41; 0x4C; 0; 0; 0; 0xFF; 0xFF; 0xFF; 0xFF; 0xFF; 0xFF; 0x0F; 0; 0x91; 0xFF; 0xFF; 0xFF; 0xFF;
            0xFF; 0xFF; 0xFF; 0xFF; 0xFF; 0xFF; 0xFF; 0xFF; 0; 0; 0xFF; 0xFF; 0xFF; 0xFF] in
  let ab := [0x41; 0x42; 32; 32; 32; 32; 32; 32; 32; 32; 32; 0x20; 0; 0; 0; 0; 0; 0; 0; 0; 0; 0; 0; 0; 0; 0; 0; 0; 0; 0; 0; 0] in
  let ca := [0x43; 0x41; 32; 32; 32; 32; 32; 32; 32; 32; 32; 0x20; 0; 0; 0; 0; 0; 0; 0; 0; 0; 0; 0; 0; 0; 0; 0; 0; 0; 0; 0; 0] in
  complete_run [l] /\
  listing [l; ab; ca] (lfn_new (repeat 0 64)) =
  Ok [(firstn 11 ab, Some [0x4C]); (firstn 11 ca, None)].
Proof.
  cbv zeta. split; [|vm_compute; reflexivity].
  cbn. repeat split; try lia; try (vm_compute; congruence).
Qed.

