(* MODEL of the long-file-name code of embedded-sdmmc 0.9.0:
     src/filesystem/filename.rs   LfnBuffer::{new, clear, push, as_str}, ShortFileName::csum
     src/fat/ondiskdirentry.rs    is_end, is_valid, is_lfn, lfn_contents
     src/fat/volume.rs            iterate_dir_lfn: SeqState::update and the closure
   plus core::char::decode_utf16 and char::encode_utf8 (std), modelled from the
   Unicode definitions.  Data are N (u16 units, u8 bytes, u32 scalar values);
   nat is used for lengths and indices only.  `Panic` is an explicit outcome.
   No proofs in this file. *)
From Coq Require Import NArith List Bool.
Import ListNotations.
Open Scope N_scope.

Inductive outcome (A : Type) : Type := Panic | Ok (a : A).
Arguments Panic {A}.
Arguments Ok {A} a.

Definition u8 (x : N) : N := N.land x 255.

(* ------------------------------------------------------------------------- *)
(* core::char::decode_utf16                                                   *)
(*   next(): u = buf.take() or iter.next()?;                                  *)
(*     if !u.is_utf16_surrogate()  -> Ok(u)                                   *)
(*     else if u >= 0xDC00         -> Err(u)                                  *)
(*     else u2 = iter.next() (None -> Err(u));                                *)
(*          if u2 < 0xDC00 || u2 > 0xDFFF { buf = Some(u2); Err(u) }          *)
(*          else Ok((((u & 0x3ff) << 10) | (u2 & 0x3ff)) + 0x1_0000)          *)
(* `buf = Some(u2)` makes the next call start from u2 again: that is the      *)
(* recursive call on the tail `t` (which still begins with u2) below.         *)
(* ------------------------------------------------------------------------- *)
Definition is_utf16_surrogate (u : N) : bool := (0xD800 <=? u) && (u <=? 0xDFFF).

Inductive item : Type := IOk (c : N) | IErr (u : N).

Definition pair_scalar (u u2 : N) : N :=
  N.lor (N.shiftl (N.land u 0x3FF) 10) (N.land u2 0x3FF) + 0x10000.

Fixpoint decode_utf16 (l : list N) : list item :=
  match l with
  | [] => []
  | u :: t =>
      if negb (is_utf16_surrogate u) then IOk u :: decode_utf16 t
      else if 0xDC00 <=? u then IErr u :: decode_utf16 t
      else match t with
           | [] => [IErr u]
           | u2 :: t2 =>
               if (u2 <? 0xDC00) || (0xDFFF <? u2) then IErr u :: decode_utf16 t
               else IOk (pair_scalar u u2) :: decode_utf16 t2
           end
  end.

(* ------------------------------------------------------------------------- *)
(* char::encode_utf8 (core::char::methods::encode_utf8_raw)                   *)
(* ------------------------------------------------------------------------- *)
Definition len_utf8 (code : N) : nat :=
  if code <? 0x80 then 1%nat else if code <? 0x800 then 2%nat
  else if code <? 0x10000 then 3%nat else 4%nat.

Definition encode_utf8 (code : N) : list N :=
  match len_utf8 code with
  | 1%nat => [u8 code]
  | 2%nat => [N.lor (u8 (N.land (N.shiftr code 6) 0x1F)) 0xC0;
              N.lor (u8 (N.land code 0x3F)) 0x80]
  | 3%nat => [N.lor (u8 (N.land (N.shiftr code 12) 0x0F)) 0xE0;
              N.lor (u8 (N.land (N.shiftr code 6) 0x3F)) 0x80;
              N.lor (u8 (N.land code 0x3F)) 0x80]
  | _ =>     [N.lor (u8 (N.land (N.shiftr code 18) 0x07)) 0xF0;
              N.lor (u8 (N.land (N.shiftr code 12) 0x3F)) 0x80;
              N.lor (u8 (N.land (N.shiftr code 6) 0x3F)) 0x80;
              N.lor (u8 (N.land code 0x3F)) 0x80]
  end.

(* ------------------------------------------------------------------------- *)
(* LfnBuffer                                                                  *)
(* ------------------------------------------------------------------------- *)
Record lfn : Type := mk_lfn {
  inner : list N;             (* &mut [u8], filled from the back *)
  free : nat;                 (* bytes free = index where the string starts *)
  overflow : bool;
  unpaired : option N         (* unpaired_surrogate *)
}.

Definition lfn_new (storage : list N) : lfn :=
  mk_lfn storage (length storage) false None.

Definition lfn_clear (st : lfn) : lfn :=
  mk_lfn (inner st) (length (inner st)) false None.

(* buffer.iter().position(|&b| b == 0x0000).unwrap_or(buffer.len()) *)
Fixpoint position_nul (b : list N) : option nat :=
  match b with
  | [] => None
  | x :: r => if x =? 0 then Some O
              else match position_nul r with Some i => Some (S i) | None => None end
  end.
Definition null_idx (b : list N) : nat :=
  match position_nul b with Some i => i | None => length b end.

(* self.inner[i] = v  (None = index out of range = panic) *)
Fixpoint set_nth (l : list N) (i : nat) (v : N) : option (list N) :=
  match l, i with
  | [], _ => None
  | _ :: r, O => Some (v :: r)
  | x :: r, S j => match set_nth r j v with Some r' => Some (x :: r') | None => None end
  end.

(* the decode loop: char_vec is heapless::Vec<char, 14>; push on a full vector
   returns Err and the `expect` panics *)
Definition CHAR_VEC_CAP : nat := 14.

Fixpoint decode_loop (items : list item) (is_first : bool) (cv : list N) (unp : option N)
  : outcome (list N * option N) :=
  match items with
  | [] => Ok (cv, unp)
  | IOk ch :: r =>
      if Nat.leb CHAR_VEC_CAP (length cv) then Panic
      else decode_loop r false (cv ++ [ch]) unp
  | IErr e :: r =>
      if is_first then decode_loop r false cv (Some e)
      else if Nat.leb CHAR_VEC_CAP (length cv) then Panic
      else decode_loop r false (cv ++ [0xFFFD]) unp
  end.

(* for b in encoded_ch.bytes().rev() { self.free -= 1; self.inner[self.free] = b; }
   `bs` is the already reversed byte list; usize underflow and a bad index panic *)
Fixpoint write_bytes (bs : list N) (st : lfn) : outcome lfn :=
  match bs with
  | [] => Ok st
  | b :: r =>
      match free st with
      | O => Panic
      | S f => match set_nth (inner st) f b with
               | None => Panic
               | Some inn => write_bytes r (mk_lfn inn f (overflow st) (unpaired st))
               end
      end
  end.

(* for ch in char_vec.iter().rev() { ... }   `chs` is the already reversed vector *)
Fixpoint encode_loop (chs : list N) (st : lfn) : outcome lfn :=
  match chs with
  | [] => Ok st
  | ch :: r =>
      let e := encode_utf8 ch in
      if Nat.ltb (free st) (length e)
      then Ok (mk_lfn (inner st) (free st) true (unpaired st))      (* overflow = true; return *)
      else match write_bytes (rev e) st with
           | Panic => Panic
           | Ok st' => encode_loop r st'
           end
  end.

Definition opt_list (o : option N) : list N := match o with Some s => [s] | None => [] end.

Definition lfn_push (st : lfn) (buffer : list N) : outcome lfn :=
  let buf := firstn (null_idx buffer) buffer in
  (* buffer.iter().cloned().chain(self.unpaired_surrogate.take().iter().cloned()) *)
  let chain := buf ++ opt_list (unpaired st) in
  match decode_loop (decode_utf16 chain) true [] None with
  | Panic => Panic
  | Ok (cv, unp) => encode_loop (rev cv) (mk_lfn (inner st) (free st) (overflow st) unp)
  end.

(* if self.overflow { "" } else { from_utf8_unchecked(&self.inner[self.free..]) } *)
Definition lfn_as_str (st : lfn) : outcome (list N) :=
  if overflow st then Ok []
  else if Nat.ltb (length (inner st)) (free st) then Panic
  else Ok (skipn (free st) (inner st)).

(* a history of calls on one buffer *)
Inductive op : Type := OpPush (buffer : list N) | OpClear.

Fixpoint run_ops (ops : list op) (st : lfn) : outcome lfn :=
  match ops with
  | [] => Ok st
  | OpClear :: r => run_ops r (lfn_clear st)
  | OpPush b :: r => match lfn_push st b with Panic => Panic | Ok st' => run_ops r st' end
  end.

(* pushes in the given order on a fresh buffer of n bytes, then as_str *)
Definition lfn_pushes (n : nat) (bufs : list (list N)) : outcome (list N) :=
  match run_ops (map OpPush bufs) (lfn_new (repeat 0 n)) with
  | Panic => Panic
  | Ok st => lfn_as_str st
  end.

(* ------------------------------------------------------------------------- *)
(* ShortFileName::csum:  result = result.rotate_right(1).wrapping_add(b)       *)
(* ------------------------------------------------------------------------- *)
Definition rotr1 (r : N) : N := N.lor (N.shiftr r 1) (u8 (N.shiftl r 7)).
Definition csum (name : list N) : N := fold_left (fun r b => u8 (rotr1 r + b)) name 0.

(* ------------------------------------------------------------------------- *)
(* OnDiskDirEntry (a 32-byte slot, from chunks_exact(32))                     *)
(* ------------------------------------------------------------------------- *)
Definition byte_at (d : list N) (i : nat) : N := nth i d 0.
Definition is_end (d : list N) : bool := byte_at d 0 =? 0x00.
Definition is_valid (d : list N) : bool := negb (is_end d) && negb (byte_at d 0 =? 0xE5).
(* Attributes::is_lfn: (self.0 & LFN) == LFN, LFN = 0x0F; raw_attr = data[11] *)
Definition is_lfn (d : list N) : bool := N.land (byte_at d 11) 0x0F =? 0x0F.
Definition read_u16 (d : list N) (i : nat) : N := byte_at d i + 256 * byte_at d (S i).

Definition lfn_contents (d : list N) : option (bool * N * N * list N) :=
  if is_lfn d then
    Some (negb (N.land (byte_at d 0) 0x40 =? 0),
          N.land (byte_at d 0) 0x1F,
          byte_at d 13,
          [read_u16 d 1; read_u16 d 3; read_u16 d 5; read_u16 d 7; read_u16 d 9;
           read_u16 d 14; read_u16 d 16; read_u16 d 18; read_u16 d 20; read_u16 d 22; read_u16 d 24;
           read_u16 d 28; read_u16 d 30])
  else None.

(* ------------------------------------------------------------------------- *)
(* iterate_dir_lfn                                                            *)
(* ------------------------------------------------------------------------- *)
Inductive seqstate : Type :=
  | Waiting
  | Remaining (cs next : N)
  | Complete (cs : N).

Definition clear_push (st : lfn) (buffer : list N) (ss : seqstate) : outcome (seqstate * lfn) :=
  match lfn_push (lfn_clear st) buffer with Panic => Panic | Ok st' => Ok (ss, st') end.
Definition just_push (st : lfn) (buffer : list N) (ss : seqstate) : outcome (seqstate * lfn) :=
  match lfn_push st buffer with Panic => Panic | Ok st' => Ok (ss, st') end.

(* match (start, sequence, self) { ... }, arms in source order *)
Definition seq_update (ss : seqstate) (st : lfn) (start : bool) (sequence cs : N) (buffer : list N)
  : outcome (seqstate * lfn) :=
  if start && (sequence =? 0x01) then clear_push st buffer (Complete cs)
  else if start && ((0x02 <=? sequence) && (sequence <? 0x14))
       then clear_push st buffer (Remaining cs (sequence - 1))
  else match start, ss with
       | false, Remaining cs0 next =>
           if (sequence =? 0x01) && (next =? sequence) then just_push st buffer (Complete cs0)
           else if (0x01 <=? sequence) && (sequence <? 0x13) && (next =? sequence)
                then just_push st buffer (Remaining cs0 (sequence - 1))
           else Ok (Waiting, lfn_clear st)
       | _, _ => Ok (Waiting, lfn_clear st)
       end.

(* what the callback `func` receives: the 11 name bytes and the long name *)
Definition report : Type := (list N * option (list N))%type.

(* the closure given to iterate_fat16 / iterate_fat32 *)
Definition closure (ss : seqstate) (st : lfn) (d : list N) : outcome (seqstate * lfn * list report) :=
  match lfn_contents d with
  | Some (start, sequence, cs, buffer) =>
      match seq_update ss st start sequence cs buffer with
      | Panic => Panic
      | Ok (ss', st') => Ok (ss', st', [])
      end
  | None =>
      let name := firstn 11 d in
      match ss with
      | Complete cs =>
          if cs =? csum name then
            match lfn_as_str st with
            | Panic => Panic
            | Ok s => Ok (Waiting, st, [(name, Some s)])
            end
          else Ok (Waiting, st, [(name, None)])
      | _ => Ok (Waiting, st, [(name, None)])
      end
  end.

(* the slot loop of iterate_fat16/32: stop at is_end, skip !is_valid *)
Fixpoint listing_from (slots : list (list N)) (ss : seqstate) (st : lfn) : outcome (list report) :=
  match slots with
  | [] => Ok []
  | d :: r =>
      if is_end d then Ok []
      else if is_valid d then
        match closure ss st d with
        | Panic => Panic
        | Ok (ss', st', out) =>
            match listing_from r ss' st' with
            | Panic => Panic
            | Ok outs => Ok (out ++ outs)
            end
        end
      else listing_from r ss st
  end.

Definition listing (slots : list (list N)) (st : lfn) : outcome (list report) :=
  listing_from slots Waiting st.

(* input domains *)
Definition is_u16s (l : list N) : Prop := Forall (fun u => u < 65536) l.
Definition fragment (f : list N) : Prop := length f = 13%nat /\ is_u16s f.
Definition is_slot (d : list N) : Prop := length d = 32%nat /\ Forall (fun b => b < 256) d.
