(* Theorem 3: pushing the fragments last-first yields the UTF-8 of the lossy
   decoding of the whole name (when it fits, else ""), except that an unpaired
   surrogate standing first in the whole name stays parked and is dropped. *)
From Coq Require Import NArith ZArith List Bool Lia Arith.
From SdLfn Require Import LfnModel LfnSpec LfnUtf LfnEnc LfnBuf.
Import ListNotations.
Open Scope N_scope.
Arguments N.add : simpl never.
Arguments N.sub : simpl never.
Arguments N.mul : simpl never.
Arguments N.leb : simpl never.
Arguments N.ltb : simpl never.
Arguments N.eqb : simpl never.

Definition enc_all (cs : list N) : list N := concat (map encode_utf8 cs).

Lemma enc_all_app a b : enc_all (a ++ b) = enc_all a ++ enc_all b.
Proof. unfold enc_all. rewrite map_app, concat_app. reflexivity. Qed.

Lemma enc_all_rev_length l : length (enc_all (rev l)) = length (enc_all l).
Proof.
  induction l as [|c l IH]; [reflexivity|].
  cbn [rev]. rewrite enc_all_app, app_length, IH. unfold enc_all. cbn [map concat].
  rewrite !app_length. cbn [length]. lia.
Qed.

(* ---- what a_enc does, in one statement ---- *)
Lemma a_enc_spec l : forall a,
  aunp (a_enc l a) = aunp a /\
  (aovf a = true -> aovf (a_enc l a) = true) /\
  ((length (enc_all l) <= afree a)%nat ->
     cont (a_enc l a) = enc_all (rev l) ++ cont a /\
     afree (a_enc l a) = (afree a - length (enc_all l))%nat /\
     aovf (a_enc l a) = aovf a) /\
  ((afree a < length (enc_all l))%nat -> aovf (a_enc l a) = true).
Proof.
  induction l as [|ch r IH]; intros a.
  - cbn. rewrite Nat.sub_0_r. repeat split; auto. lia.
  - cbn [a_enc]. unfold enc_all in *. cbn [map concat]. rewrite app_length.
    destruct (Nat.ltb_spec (afree a) (length (encode_utf8 ch))) as [Hlt|Hge].
    + cbn [aunp aovf cont afree]. repeat split; auto; lia.
    + specialize (IH (mk_a (encode_utf8 ch ++ cont a) (afree a - length (encode_utf8 ch)) (aovf a) (aunp a))).
      cbn [aunp aovf cont afree] in IH. destruct IH as (I1 & I2 & I3 & I4).
      split; [exact I1|]. split; [exact I2|]. split.
      * intros Hfit. destruct (I3 ltac:(lia)) as (C1 & C2 & C3).
        split; [|split; [lia|exact C3]].
        rewrite C1. cbn [rev]. rewrite map_app, concat_app. cbn [map concat].
        rewrite app_nil_r, <- app_assoc. reflexivity.
      * intros Hno. apply I4. lia.
Qed.

(* ---- parking and concatenation of item lists ---- *)
Lemma park_app ic r : (ic = [] -> parked r = None) ->
  parked (ic ++ r) = parked ic /\ unparked (ic ++ r) = unparked ic ++ r.
Proof.
  intros H. destruct ic as [|[c|e] ic].
  - specialize (H eq_refl). cbn [app parked unparked]. split; [exact H|].
    destruct r as [|[c|e] r]; cbn in *; congruence.
  - cbn. auto.
  - cbn. auto.
Qed.

Lemma decode_nil_inv l : decode_utf16 l = [] -> l = [].
Proof.
  destruct l as [|a l]; [reflexivity|]. intros H. exfalso. by_cls a.
  - rewrite dec_plain in H by assumption. discriminate.
  - destruct l as [|b l].
    + rewrite dec_high_end in H by assumption. discriminate.
    + destruct (is_low b) eqn:Hb.
      * rewrite dec_high_pair in H by assumption. discriminate.
      * rewrite dec_high_lone in H by assumption. discriminate.
  - rewrite dec_low in H by assumption. discriminate.
Qed.

Lemma unparked_none i : parked i = None -> unparked i = i.
Proof. destruct i as [|[c|e] i]; cbn; congruence. Qed.

(* ---- the model's cut at the first NUL is the spec's ---- *)
Lemma firstn_null_idx b : firstn (null_idx b) b = until_nul b.
Proof.
  induction b as [|x r IH]; [reflexivity|].
  unfold null_idx in *. cbn [position_nul until_nul].
  destruct (x =? 0); [reflexivity|].
  destruct (position_nul r) as [i|]; cbn [firstn length]; rewrite IH; reflexivity.
Qed.

(* ---- the invariant along the pushes ---- *)
Definition body (u : list N) : list N := enc_all (map item_char (unparked (decode_utf16 u))).

Definition pushed (n : nat) (u : list N) (a : astate) : Prop :=
  aunp a = parked (decode_utf16 u) /\
  ((length (body u) <= n)%nat ->
     aovf a = false /\ cont a = body u /\ afree a = (n - length (body u))%nat) /\
  ((n < length (body u))%nat -> aovf a = true).

Lemma pushed_new n : pushed n [] (a_new n).
Proof. unfold pushed, body. cbn. rewrite Nat.sub_0_r. repeat split; auto. lia. Qed.

Lemma pushed_step n u a f : pushed n u a -> pushed n (until_nul f ++ u) (a_push a f).
Proof.
  intros (Hp & Hfit & Hover). unfold a_push. rewrite firstn_null_idx, Hp.
  pose proof (decode_carry (until_nul f) u) as Hdc.
  set (ic := decode_utf16 (until_nul f ++ opt_list (parked (decode_utf16 u)))) in *.
  assert (Hnil : ic = [] -> parked (unparked (decode_utf16 u)) = None).
  { intros E. unfold ic in E. apply decode_nil_inv in E. apply app_eq_nil in E. destruct E as (_ & E).
    destruct (parked (decode_utf16 u)) eqn:Ep; [discriminate|].
    rewrite unparked_none by assumption. exact Ep. }
  destruct (park_app ic (unparked (decode_utf16 u)) Hnil) as (Hpk & Hun).
  assert (Hbody : body (until_nul f ++ u) = enc_all (map item_char (unparked ic)) ++ body u).
  { unfold body. rewrite Hdc, Hun, map_app, enc_all_app. reflexivity. }
  set (chs := map item_char (unparked ic)) in *.
  destruct (a_enc_spec (rev chs) (mk_a (cont a) (afree a) (aovf a) (parked ic))) as (S1 & S2 & S3 & S4).
  cbn [aunp aovf cont afree] in *. rewrite enc_all_rev_length, rev_involutive in *.
  unfold pushed. rewrite Hdc, Hpk, Hbody, app_length. split; [exact S1|]. split.
  - intros Hle. destruct (Hfit ltac:(lia)) as (F1 & F2 & F3).
    destruct (S3 ltac:(lia)) as (C1 & C2 & C3).
    split; [congruence|]. split; [rewrite C1, F2; reflexivity|]. lia.
  - intros Hgt. destruct (Nat.le_gt_cases (length (body u)) n) as [Hle|Hlt].
    + destruct (Hfit Hle) as (F1 & F2 & F3). apply S4. lia.
    + apply S2. apply Hover. exact Hlt.
Qed.

Lemma name_units_cons f r : name_units (f :: r) = until_nul f ++ name_units r.
Proof. reflexivity. Qed.

Lemma pushed_all n frags :
  pushed n (name_units frags) (fold_left a_push (rev frags) (a_new n)).
Proof.
  induction frags as [|f r IH]; [apply pushed_new|].
  cbn [rev]. rewrite fold_left_app. cbn [fold_left]. rewrite name_units_cons.
  apply pushed_step. exact IH.
Qed.

(* ---- from the model run to the abstract fold ---- *)
Lemma fold_push_ops bufs n : forall a,
  fold_left (fun a o => a_op a n o) (map OpPush bufs) a = fold_left a_push bufs a.
Proof. induction bufs as [|b r IH]; intros a; [reflexivity|]. cbn. apply IH. Qed.

Lemma lfn_pushes_abs n bufs : Forall (fun b => (length b <= 13)%nat) bufs ->
  lfn_pushes n bufs = Ok (a_str (fold_left a_push bufs (a_new n))).
Proof.
  intros Hb. unfold lfn_pushes.
  destruct (run_ops_spec (map OpPush bufs) (lfn_new (repeat 0 n)) (wf_new _)) as (st & E & Hwf & _ & Ha).
  { apply Forall_map. exact Hb. }
  rewrite E, (as_str_spec st Hwf), Ha, abs_new. cbn [lfn_new inner].
  rewrite repeat_length, fold_push_ops. reflexivity.
Qed.

(* ---- the code's result for EVERY fragment list ---- *)
Definition clip (n : nat) (b : list N) : list N := if Nat.leb (length b) n then b else [].

Definition lfn_actual (n : nat) (frags : list (list N)) : list N :=
  if KnownClass frags then clip n (utf8 (lossy (tl (name_units frags))))
  else lfn_spec n frags.

Lemma until_nul_u16s f : is_u16s f -> is_u16s (until_nul f).
Proof.
  unfold is_u16s. induction 1 as [|x r Hx _ IH]; cbn; [constructor|].
  destruct (x =? 0); constructor; assumption.
Qed.

Lemma name_units_u16s frags : Forall fragment frags -> is_u16s (name_units frags).
Proof.
  unfold is_u16s. induction 1 as [|f r [_ Hf] _ IH]; [constructor|].
  rewrite name_units_cons. apply Forall_app. split; [apply until_nul_u16s; exact Hf|exact IH].
Qed.

Lemma a_str_pushed n u a : pushed n u a -> a_str a = clip n (body u).
Proof.
  intros (_ & Hfit & Hover). unfold a_str, clip.
  destruct (Nat.leb_spec (length (body u)) n) as [Hle|Hgt].
  - destruct (Hfit Hle) as (-> & -> & _). reflexivity.
  - rewrite (Hover Hgt). reflexivity.
Qed.

Lemma body_spec u : is_u16s u ->
  body u = if leading_lone u then utf8 (lossy (tl u)) else utf8 (lossy u).
Proof.
  intros Hu. unfold body. destruct (leading_lone u) eqn:Hl.
  - apply leading_lone_parked in Hl. destruct (decode_utf16 u) as [|[c|s] r] eqn:E; cbn in Hl; try congruence.
    destruct (decode_first_err _ _ _ E) as (v' & -> & -> & _). cbn [unparked tl].
    rewrite lossy_chars. apply encode_map_utf8. apply chars_scalar.
    unfold is_u16s in *. inversion Hu; assumption.
  - assert (Hp : parked (decode_utf16 u) = None).
    { destruct (parked (decode_utf16 u)) eqn:E; [|reflexivity].
      assert (leading_lone u = true) by (apply leading_lone_parked; congruence). congruence. }
    rewrite unparked_none by assumption. rewrite lossy_chars.
    apply encode_map_utf8. apply chars_scalar. exact Hu.
Qed.

Theorem lfn_decodes_all n frags : Forall fragment frags ->
  lfn_pushes n (rev frags) = Ok (lfn_actual n frags).
Proof.
  intros Hf. rewrite lfn_pushes_abs.
  2:{ apply Forall_rev. eapply Forall_impl; [|exact Hf]. intros f [Hl _]. lia. }
  f_equal. rewrite (a_str_pushed n _ _ (pushed_all n frags)).
  rewrite body_spec by (apply name_units_u16s; exact Hf).
  unfold lfn_actual, KnownClass, lfn_spec, clip.
  destruct (leading_lone (name_units frags)); reflexivity.
Qed.

(* THEOREM 3 *)
Theorem lfn_decodes n frags : Forall fragment frags -> KnownClass frags = false ->
  lfn_pushes n (rev frags) = Ok (lfn_spec n frags).
Proof.
  intros Hf Hk. rewrite lfn_decodes_all by assumption. unfold lfn_actual. rewrite Hk. reflexivity.
Qed.

(* exactly when the result differs from the specification *)
Lemma lossy_lone_cons u : leading_lone u = true ->
  utf8 (lossy u) = [0xEF; 0xBF; 0xBD] ++ utf8 (lossy (tl u)).
Proof.
  intros Hl. apply leading_lone_parked in Hl.
  destruct (decode_utf16 u) as [|[c|s] r] eqn:E; cbn in Hl; try congruence.
  destruct (decode_first_err _ _ _ E) as (v' & -> & -> & _). cbn [tl].
  rewrite !lossy_chars. unfold chars. rewrite E. reflexivity.
Qed.

Theorem lfn_decodes_exact n frags : Forall fragment frags ->
  (lfn_pushes n (rev frags) = Ok (lfn_spec n frags) <-> KnownClassN n frags = false).
Proof.
  intros Hf. rewrite lfn_decodes_all by assumption.
  unfold lfn_actual, KnownClassN. destruct (KnownClass frags) eqn:Hk; cbn [andb].
  2:{ split; reflexivity. }
  unfold KnownClass in Hk. unfold lfn_spec, clip. rewrite (lossy_lone_cons _ Hk).
  set (b := utf8 (lossy (tl (name_units frags)))). rewrite app_length. cbn [length].
  destruct (Nat.leb_spec (length b) n) as [H1|H1]; cbn [andb].
  - destruct (Nat.leb_spec (3 + length b) n) as [H2|H2].
    + replace (Nat.leb 3 n) with true by (symmetry; apply Nat.leb_le; lia).
      rewrite orb_true_r. split; [|discriminate].
      intros H. injection H as H. apply (f_equal (@length N)) in H.
      cbn [length app] in H. lia.
    + destruct b as [|x b].
      * cbn [length] in *. replace (Nat.leb 3 n) with false by (symmetry; apply Nat.leb_gt; lia).
        cbn. split; reflexivity.
      * cbn. split; discriminate.
  - destruct (Nat.leb_spec (3 + length b) n) as [H2|H2]; [lia|]. split; reflexivity.
Qed.

(* the known class is not empty: D12 *)
Definition d12_frag : list N := [0xDE00; 0x41; 0; 0xFFFF; 0xFFFF; 0xFFFF; 0xFFFF; 0xFFFF; 0xFFFF; 0xFFFF; 0xFFFF; 0xFFFF; 0xFFFF].

Lemma d12_fragment : fragment d12_frag.
Proof. split; [reflexivity|]. unfold is_u16s, d12_frag. repeat constructor. Qed.

Theorem lfn_known_refuted : exists frags n, Forall fragment frags /\ KnownClass frags = true /\
  lfn_pushes n (rev frags) = Ok [0x41] /\ lfn_spec n frags = [0xEF; 0xBF; 0xBD; 0x41].
Proof.
  exists [d12_frag], 64%nat. split; [constructor; [apply d12_fragment|constructor]|].
  split; [vm_compute; reflexivity|]. split; vm_compute; reflexivity.
Qed.
