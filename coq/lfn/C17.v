(* Property C17 - long-file-name decoding is total, yields valid UTF-8 and the
   right name; a listing reports a long name only for a complete, correctly
   ordered fragment run whose checksum matches the short entry that follows it.
   Only the property theorems are here, each closed by `exact`, pinned by
   `Check`, followed by `Print Assumptions`.

   Model: LfnModel.v (LfnBuffer, csum, lfn_contents, SeqState::update, the closure
   and slot loop of iterate_dir_lfn, decode_utf16, encode_utf8).
   Spec:  LfnSpec.v  (name_units, lossy, utf8, valid_utf8, complete_run, delivered).

   Status: all five statements are proved at full strength.  The third one is
   FALSE without its premise: an unpaired surrogate that is the first unit of the
   whole name is dropped (defect D12); `KnownClass` is exactly that predicate,
   C17_decodes_all gives the code's result on EVERY input, C17_decodes_exact says
   exactly when it differs from the specification (it also depends on the buffer
   size), and C17_known_refuted is the witness. *)
From Coq Require Import NArith List Lia.
From SdLfn Require Import LfnModel LfnSpec LfnUtf LfnEnc LfnBuf LfnDecodes LfnListing.
Import ListNotations.
Open Scope N_scope.

(* 1. No history of pushes and clears on a buffer over ANY storage panics, and
   neither does as_str afterwards.  A pushed buffer may hold any values; only
   its length (at most 13 - the Rust type is [u16; 13]) matters: the 14-slot
   scratch vector is enough because the decoder yields at most one char per
   unit and there are at most 13 + 1 (carried) units. *)
Theorem C17_total : forall (storage : list N) (ops : list op),
  Forall (fun o => match o with OpPush b => (length b <= 13)%nat | OpClear => True end) ops ->
  exists st s, run_ops ops (lfn_new storage) = Ok st /\ lfn_as_str st = Ok s.
Proof. exact lfn_total. Qed.

(* 2. In every reachable state (new over any storage, then pushes of 13-unit
   fragments of arbitrary 16-bit values and clears) as_str returns valid UTF-8;
   the bytes inner[free..] are valid UTF-8 even while the overflow flag is set.
   This is what `from_utf8_unchecked` needs. *)
Theorem C17_valid_utf8 : forall st : lfn, reachable st ->
  (exists s, lfn_as_str st = Ok s /\ valid_utf8 s = true) /\
  valid_utf8 (skipn (free st) (inner st)) = true.
Proof. exact lfn_valid_utf8. Qed.

(* 3. Pushing the fragments last-first into a buffer of n bytes gives the UTF-8
   encoding of the lossy decoding of the name when that fits in n bytes and ""
   when it does not - unless the first unit of the whole name is an unpaired
   surrogate. *)
Theorem C17_decodes : forall (n : nat) (frags : list (list N)),
  Forall fragment frags -> KnownClass frags = false ->
  lfn_pushes n (rev frags) = Ok (lfn_spec n frags).
Proof. exact lfn_decodes. Qed.

(* the result on every input, known class included: there the leading unit is
   simply missing *)
Theorem C17_decodes_all : forall (n : nat) (frags : list (list N)),
  Forall fragment frags ->
  lfn_pushes n (rev frags) =
  Ok (if KnownClass frags
      then (let b := utf8 (lossy (tl (name_units frags))) in if Nat.leb (length b) n then b else [])
      else lfn_spec n frags).
Proof. exact lfn_decodes_all. Qed.

(* the result equals the specification exactly outside KnownClassN *)
Theorem C17_decodes_exact : forall (n : nat) (frags : list (list N)),
  Forall fragment frags ->
  (lfn_pushes n (rev frags) = Ok (lfn_spec n frags) <-> KnownClassN n frags = false).
Proof. exact lfn_decodes_exact. Qed.

(* D12: a single fragment DE00 0041 0000 FFFF.. in a 64-byte buffer shows "A",
   the specification says U+FFFD "A" *)
Theorem C17_known_refuted : exists (frags : list (list N)) (n : nat),
  Forall fragment frags /\ KnownClass frags = true /\
  lfn_pushes n (rev frags) = Ok [0x41] /\ lfn_spec n frags = [0xEF; 0xBF; 0xBD; 0x41].
Proof. exact lfn_known_refuted. Qed.

(* 4. Listing: the slots the walk delivers are `delivered slots`.  For every
   delivered slot e that is not a long-name slot the callback is called once,
   in order, with e's 11 name bytes; it gets Some name iff the delivered slots
   directly before e end with a complete run (start slot numbered k = length,
   1 <= k <= 19, then k-1, ..., 1, none of these flagged start) whose start
   slot's checksum byte equals the checksum of e's short name; the name is then
   what the buffer (of the caller's size) yields for that run's fragments.
   st0 is the caller's buffer in ANY state. *)
Theorem C17_listing : forall (slots : list (list N)) (st0 : lfn) (pre : list (list N)) (e : list N) (post : list (list N)),
  Forall is_slot slots -> delivered slots = pre ++ e :: post -> ~ slot_is_lfn e ->
  exists outs1 r outs2,
    listing slots st0 = Ok (outs1 ++ (firstn 11 e, r) :: outs2) /\
    length outs1 = length (entries pre) /\
    (forall nm, r = Some nm <->
       exists pre' run, pre = pre' ++ run /\ complete_run run /\
         slot_csum (hd [] run) = spec_csum (firstn 11 e) /\
         nm = lfn_actual (length (inner st0)) (run_frags run)).
Proof. exact listing_reports. Qed.

(* the name of a run outside the known class is the specification's *)
Theorem C17_listing_name : forall (n : nat) (run : list (list N)),
  Forall is_slot run ->
  (KnownClassN n (run_frags run) = false -> lfn_actual n (run_frags run) = lfn_spec n (run_frags run)) /\
  (KnownClassN n (run_frags run) = true -> lfn_actual n (run_frags run) <> lfn_spec n (run_frags run)).
Proof. exact listing_name. Qed.

(* the executable oracle of the correspondence check, spec_listing (LfnSpec.v: a
   backwards scan from each entry), decides the declarative statement above: at
   the position of every entry it holds None when the listing reports no long
   name, and Some (lfn_spec.., flag) when it reports one - the same bytes when
   the flag (KnownClassN of the run) is false, different bytes when it is true *)
Theorem C17_listing_oracle : forall (slots : list (list N)) (st0 : lfn) (pre : list (list N)) (e : list N) (post : list (list N)),
  Forall is_slot slots -> delivered slots = pre ++ e :: post -> ~ slot_is_lfn e ->
  exists outs1 r outs2 sp1 o sp2,
    listing slots st0 = Ok (outs1 ++ (firstn 11 e, r) :: outs2) /\
    spec_listing (length (inner st0)) slots = sp1 ++ (firstn 11 e, o) :: sp2 /\
    length outs1 = length sp1 /\
    match o with
    | None => r = None
    | Some (s, known) => exists a, r = Some a /\ (known = false -> a = s) /\ (known = true -> a <> s)
    end.
Proof. exact listing_oracle. Qed.

(* 5. Listing any list of slots - any number of byte lists with any content,
   not even 32 bytes long - with the caller's buffer in any state never panics,
   and reports exactly the delivered slots that are not long-name slots. *)
Theorem C17_arbitrary_dir : forall (slots : list (list N)) (st0 : lfn),
  exists outs, listing slots st0 = Ok outs /\ length outs = length (entries (delivered slots)).
Proof. exact listing_total. Qed.

(* the model's checksum is the FAT specification's on bytes *)
Theorem C17_csum : forall name, Forall (fun b => b < 256) name -> csum name = spec_csum name.
Proof. exact csum_spec. Qed.

(* the model's UTF-16 decoder and UTF-8 encoder agree with the spec side *)
Theorem C17_lossy_model : forall l, lossy l = map item_char (decode_utf16 l).
Proof. exact lossy_chars. Qed.
Theorem C17_utf8_model : forall c, c < 0x200000 -> encode_utf8 c = utf8_char c.
Proof. exact encode_utf8_spec. Qed.

(* Examples showing the hypotheses are satisfiable by non-trivial cases: LfnExamples.v *)

Check (C17_total : forall storage ops,
  Forall (fun o => match o with OpPush b => (length b <= 13)%nat | OpClear => True end) ops ->
  exists st s, run_ops ops (lfn_new storage) = Ok st /\ lfn_as_str st = Ok s).
Check (C17_decodes : forall n frags, Forall fragment frags -> KnownClass frags = false ->
  lfn_pushes n (rev frags) = Ok (lfn_spec n frags)).
Check (C17_arbitrary_dir : forall slots st0,
  exists outs, listing slots st0 = Ok outs /\ length outs = length (entries (delivered slots))).

Print Assumptions C17_total.
Print Assumptions C17_valid_utf8.
Print Assumptions C17_decodes.
Print Assumptions C17_decodes_all.
Print Assumptions C17_decodes_exact.
Print Assumptions C17_known_refuted.
Print Assumptions C17_listing.
Print Assumptions C17_listing_name.
Print Assumptions C17_listing_oracle.
Print Assumptions C17_arbitrary_dir.
Print Assumptions C17_csum.
Print Assumptions C17_lossy_model.
Print Assumptions C17_utf8_model.
