(* Property C17 - placeholder while the proofs are being written *)
From Coq Require Import NArith List.
From SdLfn Require Import LfnModel LfnSpec.
Import ListNotations.
Open Scope N_scope.
Theorem C17_smoke : lfn_pushes 64 [[0xDE00;0x41;0;0;0;0;0;0;0;0;0;0;0]] = Ok [0x41].
Proof. vm_compute. reflexivity. Qed.
Print Assumptions C17_smoke.
