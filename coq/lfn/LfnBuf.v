(* The byte-level buffer of the model refines an abstract buffer (the string
   inner[free..], free, overflow, parked unit); totality of push; the UTF-8
   invariant of every reachable state. *)
From Coq Require Import NArith ZArith List Bool Lia Arith.
From SdLfn Require Import LfnModel LfnSpec LfnUtf LfnEnc.
Import ListNotations.
Open Scope N_scope.
Arguments N.add : simpl never.
Arguments N.sub : simpl never.
Arguments N.mul : simpl never.
Arguments N.leb : simpl never.
Arguments N.ltb : simpl never.
Arguments N.eqb : simpl never.

Record astate : Type := mk_a { cont : list N; afree : nat; aovf : bool; aunp : option N }.

Definition abs (st : lfn) : astate :=
  mk_a (skipn (free st) (inner st)) (free st) (overflow st) (unpaired st).
Definition wf (st : lfn) : Prop := (free st <= length (inner st))%nat.
Definition a_str (a : astate) : list N := if aovf a then [] else cont a.

Fixpoint a_enc (chs : list N) (a : astate) : astate :=
  match chs with
  | [] => a
  | ch :: r =>
      let e := encode_utf8 ch in
      if Nat.ltb (afree a) (length e) then mk_a (cont a) (afree a) true (aunp a)
      else a_enc r (mk_a (e ++ cont a) (afree a - length e) (aovf a) (aunp a))
  end.

Definition a_push (a : astate) (buffer : list N) : astate :=
  let items := decode_utf16 (firstn (null_idx buffer) buffer ++ opt_list (aunp a)) in
  a_enc (rev (map item_char (unparked items)))
        (mk_a (cont a) (afree a) (aovf a) (parked items)).

Definition a_new (n : nat) : astate := mk_a [] n false None.

(* ---- set_nth / write_bytes ---- *)
Lemma set_nth_spec l : forall i v, (i < length l)%nat ->
  exists l', set_nth l i v = Some l' /\ length l' = length l /\ skipn i l' = v :: skipn (S i) l.
Proof.
  induction l as [|x l IH]; intros i v Hi; [cbn in Hi; lia|].
  destruct i as [|i].
  - exists (v :: l). cbn. repeat split; reflexivity.
  - cbn [length] in Hi. destruct (IH i v ltac:(lia)) as (l' & E & Hl & Hs).
    exists (x :: l'). cbn [set_nth]. rewrite E. cbn [length skipn]. rewrite Hl.
    split; [reflexivity|]. split; [reflexivity|]. exact Hs.
Qed.

Lemma write_bytes_spec bs : forall st, wf st -> (length bs <= free st)%nat ->
  exists st', write_bytes bs st = Ok st' /\ length (inner st') = length (inner st) /\
    free st' = (free st - length bs)%nat /\
    skipn (free st') (inner st') = rev bs ++ skipn (free st) (inner st) /\
    overflow st' = overflow st /\ unpaired st' = unpaired st.
Proof.
  induction bs as [|b r IH]; intros st Hwf Hlen.
  - exists st. cbn. rewrite Nat.sub_0_r. repeat split; reflexivity.
  - cbn [length] in Hlen. cbn [write_bytes]. unfold wf in Hwf.
    destruct (free st) as [|f] eqn:Ef; [lia|].
    destruct (set_nth_spec (inner st) f b ltac:(lia)) as (inn & E & Hl & Hs).
    rewrite E.
    destruct (IH (mk_lfn inn f (overflow st) (unpaired st))) as (st' & E' & Hl' & Hf' & Hs' & Ho & Hu).
    { unfold wf. cbn. lia. }
    { cbn. lia. }
    cbn [inner free overflow unpaired] in *.
    exists st'. split; [exact E'|]. split; [congruence|]. split; [cbn [length]; lia|].
    split; [|auto]. rewrite Hs', Hs. cbn [rev]. rewrite <- app_assoc. reflexivity.
Qed.

Lemma encode_loop_spec chs : forall st, wf st ->
  exists st', encode_loop chs st = Ok st' /\ wf st' /\
    length (inner st') = length (inner st) /\ abs st' = a_enc chs (abs st).
Proof.
  induction chs as [|ch r IH]; intros st Hwf.
  - exists st. cbn. auto.
  - cbn [encode_loop a_enc]. cbn [afree abs].
    destruct (Nat.ltb_spec (free st) (length (encode_utf8 ch))) as [Hlt|Hge].
    + eexists. split; [reflexivity|]. split; [exact Hwf|]. split; reflexivity.
    + destruct (write_bytes_spec (rev (encode_utf8 ch)) st Hwf) as (st1 & E & Hl & Hf & Hs & Ho & Hu).
      { rewrite rev_length. lia. }
      rewrite E. rewrite rev_length, rev_involutive in *.
      destruct (IH st1) as (st' & E' & Hwf' & Hl' & Ha).
      { unfold wf in *. lia. }
      exists st'. split; [exact E'|]. split; [exact Hwf'|]. split; [congruence|].
      rewrite Ha. f_equal. unfold abs. cbn [cont afree aovf aunp]. rewrite Hs, Hf, Ho, Hu. reflexivity.
Qed.

(* ---- the decode loop: the scratch vector of 14 chars is enough ---- *)
Lemma decode_loop_rest items : forall cv unp, (length cv + length items <= 14)%nat ->
  decode_loop items false cv unp = Ok (cv ++ map item_char items, unp).
Proof.
  induction items as [|[c|e] r IH]; intros cv unp Hl; cbn [decode_loop map item_char].
  - rewrite app_nil_r. reflexivity.
  - cbn [length] in Hl. unfold CHAR_VEC_CAP.
    destruct (Nat.leb_spec 14 (length cv)); [lia|].
    rewrite IH by (rewrite app_length; cbn; lia). rewrite <- app_assoc. reflexivity.
  - cbn [length] in Hl. unfold CHAR_VEC_CAP.
    destruct (Nat.leb_spec 14 (length cv)); [lia|].
    rewrite IH by (rewrite app_length; cbn; lia). rewrite <- app_assoc. reflexivity.
Qed.

Lemma decode_loop_first items : (length items <= 14)%nat ->
  decode_loop items true [] None = Ok (map item_char (unparked items), parked items).
Proof.
  intros Hl. destruct items as [|[c|e] r]; cbn [decode_loop unparked parked].
  - reflexivity.
  - unfold CHAR_VEC_CAP. cbn [length Nat.leb]. cbn [length] in Hl.
    rewrite decode_loop_rest by (cbn; lia). reflexivity.
  - cbn [length] in Hl. rewrite decode_loop_rest by (cbn; lia). reflexivity.
Qed.

Lemma chain_length b o : (length b <= 13)%nat ->
  (length (decode_utf16 (firstn (null_idx b) b ++ opt_list o)) <= 14)%nat.
Proof.
  intros Hb. etransitivity; [apply decode_length|].
  rewrite app_length, firstn_length. destruct o; cbn; lia.
Qed.

Lemma push_spec st b : wf st -> (length b <= 13)%nat ->
  exists st', lfn_push st b = Ok st' /\ wf st' /\
    length (inner st') = length (inner st) /\ abs st' = a_push (abs st) b.
Proof.
  intros Hwf Hb. unfold lfn_push.
  rewrite decode_loop_first by (apply chain_length; assumption).
  set (items := decode_utf16 _).
  destruct (encode_loop_spec (rev (map item_char (unparked items)))
              (mk_lfn (inner st) (free st) (overflow st) (parked items)) Hwf)
    as (st' & E & Hwf' & Hl & Ha).
  exists st'. split; [exact E|]. split; [exact Hwf'|]. split; [exact Hl|].
  rewrite Ha. reflexivity.
Qed.

Lemma as_str_spec st : wf st -> lfn_as_str st = Ok (a_str (abs st)).
Proof.
  intros Hwf. unfold lfn_as_str, a_str, abs. cbn [aovf cont].
  destruct (overflow st); [reflexivity|].
  unfold wf in Hwf. destruct (Nat.ltb_spec (length (inner st)) (free st)); [lia|reflexivity].
Qed.

Lemma wf_new s : wf (lfn_new s). Proof. unfold wf. cbn. lia. Qed.
Lemma wf_clear st : wf (lfn_clear st). Proof. unfold wf. cbn. lia. Qed.
Lemma abs_new s : abs (lfn_new s) = a_new (length s).
Proof. unfold abs, lfn_new, a_new. cbn [free inner overflow unpaired]. rewrite skipn_all. reflexivity. Qed.
Lemma abs_clear st : abs (lfn_clear st) = a_new (length (inner st)).
Proof. unfold abs, lfn_clear, a_new. cbn [free inner overflow unpaired]. rewrite skipn_all. reflexivity. Qed.

(* ---- histories ---- *)
Definition op_ok (o : op) : Prop :=
  match o with OpPush b => (length b <= 13)%nat | OpClear => True end.

Definition a_op (a : astate) (n : nat) (o : op) : astate :=
  match o with OpPush b => a_push a b | OpClear => a_new n end.

Lemma run_ops_spec ops : forall st, wf st -> Forall op_ok ops ->
  exists st', run_ops ops st = Ok st' /\ wf st' /\ length (inner st') = length (inner st) /\
    abs st' = fold_left (fun a o => a_op a (length (inner st)) o) ops (abs st).
Proof.
  induction ops as [|o r IH]; intros st Hwf Hok.
  - exists st. cbn. auto.
  - inversion Hok as [|? ? Ho Hr]; subst. destruct o as [b|]; cbn [run_ops fold_left a_op].
    + destruct (push_spec st b Hwf Ho) as (st1 & E & Hwf1 & Hl1 & Ha1). rewrite E.
      destruct (IH st1 Hwf1 Hr) as (st' & E' & Hwf' & Hl' & Ha').
      exists st'. split; [exact E'|]. split; [exact Hwf'|]. split; [congruence|].
      rewrite Ha', Hl1, Ha1. reflexivity.
    + destruct (IH (lfn_clear st) (wf_clear st) Hr) as (st' & E' & Hwf' & Hl' & Ha').
      exists st'. split; [exact E'|]. split; [exact Hwf'|]. split; [exact Hl'|].
      rewrite Ha', abs_clear. reflexivity.
Qed.

(* THEOREM 1: no history of pushes (fragments of at most 13 units, any values)
   and clears panics, for any storage; as_str does not panic either *)
Theorem lfn_total storage ops : Forall op_ok ops ->
  exists st s, run_ops ops (lfn_new storage) = Ok st /\ lfn_as_str st = Ok s.
Proof.
  intros Hok. destruct (run_ops_spec ops (lfn_new storage) (wf_new storage) Hok) as (st & E & Hwf & _).
  exists st, (a_str (abs st)). split; [exact E|]. apply as_str_spec. exact Hwf.
Qed.

(* ---- the UTF-8 invariant ---- *)
Definition ainv (a : astate) : Prop :=
  (exists cs, Forall (fun c => is_scalar c = true) cs /\ cont a = utf8 cs) /\
  (forall s, aunp a = Some s -> s < 65536).

Lemma a_enc_inv chs : forall a, Forall (fun c => is_scalar c = true) chs -> ainv a -> ainv (a_enc chs a).
Proof.
  induction chs as [|ch r IH]; intros a Hs Ha; [exact Ha|].
  inversion Hs as [|? ? Hc Hr]; subst. cbn [a_enc].
  destruct (Nat.ltb (afree a) (length (encode_utf8 ch))).
  - exact Ha.
  - apply IH; [exact Hr|]. destruct Ha as ((cs & Hcs & Hcont) & Hu). split; [|exact Hu].
    exists (ch :: cs). split; [constructor; assumption|]. cbn [cont].
    rewrite Hcont, encode_utf8_spec by (apply scalar_lt; assumption). reflexivity.
Qed.

Lemma firstn_u16s k l : is_u16s l -> is_u16s (firstn k l).
Proof.
  unfold is_u16s. intros H. revert k. induction H; intros [|k]; cbn; constructor; auto.
Qed.

Lemma a_push_inv a b : is_u16s b -> ainv a -> ainv (a_push a b).
Proof.
  intros Hb Ha. unfold a_push.
  set (chain := firstn (null_idx b) b ++ opt_list (aunp a)).
  assert (Hchain : is_u16s chain).
  { unfold chain, is_u16s. apply Forall_app. split; [apply firstn_u16s; exact Hb|].
    destruct (aunp a) as [s|] eqn:E; cbn; [|constructor].
    constructor; [|constructor]. apply (proj2 Ha). exact E. }
  pose proof (chars_scalar chain Hchain) as Hsc. unfold chars in Hsc.
  apply a_enc_inv.
  - apply Forall_rev. destruct (decode_utf16 chain) as [|[c|e] r]; cbn [unparked]; try exact Hsc.
    cbn [map] in Hsc. inversion Hsc; assumption.
  - destruct Ha as (Hc & Hu). split; [exact Hc|]. cbn [aunp]. intros s Hs.
    destruct (decode_utf16 chain) as [|[c|e] r] eqn:E; cbn [parked] in Hs; try discriminate.
    injection Hs as ->. destruct (decode_first_err _ _ _ E) as (v' & Ev & _).
    unfold is_u16s in Hchain. rewrite Ev in Hchain. inversion Hchain; assumption.
Qed.

Lemma ainv_new n : ainv (a_new n).
Proof. split; [exists []; split; [constructor|reflexivity]|]. cbn. discriminate. Qed.

(* reachable buffer states: new, then pushes of 13-unit u16 fragments and clears *)
Inductive reachable : lfn -> Prop :=
  | reach_new storage : reachable (lfn_new storage)
  | reach_clear st : reachable st -> reachable (lfn_clear st)
  | reach_push st b st' : reachable st -> fragment b -> lfn_push st b = Ok st' -> reachable st'.

Lemma reachable_inv st : reachable st -> wf st /\ ainv (abs st).
Proof.
  induction 1 as [s|st _ _|st b st' _ [Hwf Hinv] [Hlen Hu] E].
  - split; [apply wf_new|]. rewrite abs_new. apply ainv_new.
  - split; [apply wf_clear|]. rewrite abs_clear. apply ainv_new.
  - destruct (push_spec st b Hwf ltac:(lia)) as (st1 & E1 & Hwf1 & _ & Ha1).
    rewrite E in E1. injection E1 as <-. split; [exact Hwf1|].
    rewrite Ha1. apply a_push_inv; assumption.
Qed.

(* THEOREM 2: what as_str hands to from_utf8_unchecked is valid UTF-8; in fact
   inner[free..] is, whether or not the overflow flag is set *)
Theorem lfn_valid_utf8 st : reachable st ->
  (exists s, lfn_as_str st = Ok s /\ valid_utf8 s = true) /\
  valid_utf8 (skipn (free st) (inner st)) = true.
Proof.
  intros Hr. destruct (reachable_inv st Hr) as (Hwf & (cs & Hcs & Hcont) & _).
  assert (Hv : valid_utf8 (skipn (free st) (inner st)) = true).
  { change (skipn (free st) (inner st)) with (cont (abs st)). rewrite Hcont.
    apply valid_utf8_utf8. exact Hcs. }
  split; [|exact Hv].
  exists (a_str (abs st)). split; [apply as_str_spec; exact Hwf|].
  unfold a_str. cbn [aovf abs cont]. destruct (overflow st); [reflexivity|exact Hv].
Qed.
