(* Facts about the UTF-16 decoder and the UTF-8 encoder of the model, and their
   agreement with the spec side (lossy, utf8, valid_utf8). *)
From Coq Require Import NArith ZArith List Bool Lia.
From Coq Require Import ZifyClasses ZifyInst Zify ZifyBool ZifyN.
From SdLfn Require Import LfnModel LfnSpec.
Import ListNotations.
Open Scope N_scope.
Ltac Zify.zify_post_hook ::= Z.to_euclidean_division_equations.
Arguments N.add : simpl never.
Arguments N.sub : simpl never.
Arguments N.mul : simpl never.
Arguments N.div : simpl never.
Arguments N.modulo : simpl never.
Arguments N.leb : simpl never.
Arguments N.ltb : simpl never.
Arguments N.eqb : simpl never.
Arguments N.land : simpl never.
Arguments N.lor : simpl never.
Arguments N.shiftl : simpl never.
Arguments N.shiftr : simpl never.

(* ---------------------------------------------------------------------- *)
(* induction two elements at a time                                        *)
(* ---------------------------------------------------------------------- *)
Lemma list_ind2 (A : Type) (P : list A -> Prop) :
  P [] -> (forall a, P [a]) -> (forall a b l, P l -> P (b :: l) -> P (a :: b :: l)) ->
  forall l, P l.
Proof.
  intros H0 H1 H2 l.
  assert (H : P l /\ forall a, P (a :: l)).
  { induction l as [|b l [IH1 IH2]]; split; auto. }
  apply H.
Qed.

(* ---------------------------------------------------------------------- *)
(* unit classes                                                            *)
(* ---------------------------------------------------------------------- *)
Inductive ucls : Type := CPlain | CHigh | CLow.
Definition cls (u : N) : ucls := if is_high u then CHigh else if is_low u then CLow else CPlain.

Lemma cls_cases u :
  (cls u = CPlain /\ is_high u = false /\ is_low u = false /\ is_utf16_surrogate u = false) \/
  (cls u = CHigh /\ is_high u = true /\ is_low u = false /\ is_utf16_surrogate u = true /\ (0xDC00 <=? u) = false) \/
  (cls u = CLow /\ is_high u = false /\ is_low u = true /\ is_utf16_surrogate u = true /\ (0xDC00 <=? u) = true).
Proof.
  unfold cls, is_high, is_low, is_utf16_surrogate.
  destruct (N.leb_spec 0xD800 u), (N.leb_spec u 0xDBFF), (N.leb_spec 0xDC00 u), (N.leb_spec u 0xDFFF);
    cbn; try lia; auto 10.
Qed.

Lemma not_low_test v : is_low v = false -> ((v <? 0xDC00) || (0xDFFF <? v)) = true.
Proof. unfold is_low. lia. Qed.
Lemma low_test v : is_low v = true -> ((v <? 0xDC00) || (0xDFFF <? v)) = false.
Proof. unfold is_low. lia. Qed.

(* unfolding equations of the decoder, by class *)
Lemma dec_nil : decode_utf16 [] = [].
Proof. reflexivity. Qed.
Lemma dec_plain u t : cls u = CPlain -> decode_utf16 (u :: t) = IOk u :: decode_utf16 t.
Proof.
  intros H. destruct (cls_cases u) as [(_&_&_&Hs)|[(E&_)|(E&_)]]; try congruence.
  cbn [decode_utf16]. rewrite Hs. reflexivity.
Qed.
Lemma dec_low u t : is_low u = true -> decode_utf16 (u :: t) = IErr u :: decode_utf16 t.
Proof.
  intros H. destruct (cls_cases u) as [(_&_&E&_)|[(_&_&E&_)|(_&_&_&Hs&Hd)]]; try congruence.
  cbn [decode_utf16]. rewrite Hs, Hd. reflexivity.
Qed.
Lemma dec_high_end u : is_high u = true -> decode_utf16 [u] = [IErr u].
Proof.
  intros H. destruct (cls_cases u) as [(_&E&_)|[(_&_&_&Hs&Hd)|(_&E&_)]]; try congruence.
  cbn [decode_utf16]. rewrite Hs, Hd. reflexivity.
Qed.
Lemma dec_high_lone u v t : is_high u = true -> is_low v = false ->
  decode_utf16 (u :: v :: t) = IErr u :: decode_utf16 (v :: t).
Proof.
  intros H Hv. destruct (cls_cases u) as [(_&E&_)|[(_&_&_&Hs&Hd)|(_&E&_)]]; try congruence.
  cbn [decode_utf16]. rewrite Hs, Hd, (not_low_test v Hv). reflexivity.
Qed.
Lemma dec_high_pair u v t : is_high u = true -> is_low v = true ->
  decode_utf16 (u :: v :: t) = IOk (pair_scalar u v) :: decode_utf16 t.
Proof.
  intros H Hv. destruct (cls_cases u) as [(_&E&_)|[(_&_&_&Hs&Hd)|(_&E&_)]]; try congruence.
  cbn [decode_utf16]. rewrite Hs, Hd, (low_test v Hv). reflexivity.
Qed.

Lemma cls_plain_iff u : cls u = CPlain <-> is_high u = false /\ is_low u = false.
Proof. unfold cls. destruct (is_high u), (is_low u); split; intros; try congruence; intuition congruence. Qed.

Ltac by_cls u :=
  let H := fresh "Hc" in
  destruct (cls_cases u) as [(H&?&?&?)|[(H&?&?&?&?)|(H&?&?&?&?)]].

(* ---------------------------------------------------------------------- *)
(* the decoder never yields more items than units                           *)
(* ---------------------------------------------------------------------- *)
Lemma decode_length l : (length (decode_utf16 l) <= length l)%nat.
Proof.
  induction l as [|a|a b l IH1 IH2] using list_ind2.
  - cbn. lia.
  - by_cls a.
    + rewrite dec_plain by assumption. cbn. lia.
    + rewrite dec_high_end by assumption. cbn. lia.
    + rewrite dec_low by assumption. cbn. lia.
  - by_cls a.
    + rewrite dec_plain by assumption. cbn [length] in *. lia.
    + destruct (is_low b) eqn:Hb.
      * rewrite dec_high_pair by assumption. cbn [length] in *. lia.
      * rewrite dec_high_lone by assumption. cbn [length] in *. lia.
    + rewrite dec_low by assumption. cbn [length] in *. lia.
Qed.

(* ---------------------------------------------------------------------- *)
(* splitting the unit string                                               *)
(* ---------------------------------------------------------------------- *)
Definition head_not_low (t : list N) : Prop :=
  match t with [] => True | v :: _ => is_low v = false end.

Lemma decode_split_nolow x t : head_not_low t ->
  decode_utf16 (x ++ t) = decode_utf16 x ++ decode_utf16 t.
Proof.
  intros Ht. induction x as [|a|a b l IH1 IH2] using list_ind2.
  - reflexivity.
  - cbn [app]. by_cls a.
    + rewrite !(dec_plain a) by assumption. reflexivity.
    + rewrite dec_high_end by assumption. destruct t as [|v t].
      * rewrite dec_high_end by assumption. reflexivity.
      * cbn in Ht. rewrite dec_high_lone by assumption. reflexivity.
    + rewrite !(dec_low a) by assumption. reflexivity.
  - cbn [app] in *. by_cls a.
    + rewrite !(dec_plain a) by assumption. rewrite IH2. reflexivity.
    + destruct (is_low b) eqn:Hb.
      * rewrite !(dec_high_pair a) by assumption. rewrite IH1. reflexivity.
      * rewrite !(dec_high_lone a) by assumption. rewrite IH2. reflexivity.
    + rewrite !(dec_low a) by assumption. rewrite IH2. reflexivity.
Qed.

Lemma decode_split_nohigh x s t : is_high s = false ->
  decode_utf16 ((x ++ [s]) ++ t) = decode_utf16 (x ++ [s]) ++ decode_utf16 t.
Proof.
  intros Hs.
  assert (Hbase : decode_utf16 (s :: t) = decode_utf16 [s] ++ decode_utf16 t).
  { by_cls s; try congruence.
    + rewrite !(dec_plain s) by assumption. reflexivity.
    + rewrite !(dec_low s) by assumption. reflexivity. }
  induction x as [|a|a b l IH1 IH2] using list_ind2.
  - exact Hbase.
  - cbn [app] in *. by_cls a.
    + rewrite !(dec_plain a) by assumption. rewrite Hbase. reflexivity.
    + destruct (is_low s) eqn:Hb.
      * rewrite !(dec_high_pair a) by assumption. reflexivity.
      * rewrite !(dec_high_lone a) by assumption. rewrite Hbase. reflexivity.
    + rewrite !(dec_low a) by assumption. rewrite Hbase. reflexivity.
  - cbn [app] in *. by_cls a.
    + rewrite !(dec_plain a) by assumption. rewrite IH2. reflexivity.
    + destruct (is_low b) eqn:Hb.
      * rewrite !(dec_high_pair a) by assumption. rewrite IH1. reflexivity.
      * rewrite !(dec_high_lone a) by assumption. rewrite IH2. reflexivity.
    + rewrite !(dec_low a) by assumption. rewrite IH2. reflexivity.
Qed.

(* what the decode loop parks / keeps *)
Definition parked (items : list item) : option N :=
  match items with IErr s :: _ => Some s | _ => None end.
Definition unparked (items : list item) : list item :=
  match items with IErr _ :: r => r | _ => items end.

(* a first item that is an error is the first unit, alone *)
Lemma decode_first_err v s r : decode_utf16 v = IErr s :: r ->
  exists v', v = s :: v' /\ r = decode_utf16 v' /\
             (is_low s = true \/ (is_high s = true /\ head_not_low v')).
Proof.
  intros H. destruct v as [|a v]; [discriminate|].
  by_cls a.
  - rewrite dec_plain in H by assumption. discriminate.
  - destruct v as [|b v].
    + rewrite dec_high_end in H by assumption. injection H as <- <-.
      exists []. cbn. auto.
    + destruct (is_low b) eqn:Hb.
      * rewrite dec_high_pair in H by assumption. discriminate.
      * rewrite dec_high_lone in H by assumption. injection H as <- <-.
        exists (b :: v). cbn. auto.
  - rewrite dec_low in H by assumption. injection H as <- <-. exists v. auto.
Qed.

Lemma leading_lone_parked l : leading_lone l = true <-> parked (decode_utf16 l) <> None.
Proof.
  destruct l as [|a l]; [cbn; split; [discriminate|congruence]|].
  cbn [leading_lone]. by_cls a.
  - rewrite dec_plain by assumption. cbn. rewrite H, H0. cbn. split; [discriminate|congruence].
  - rewrite H, H0. cbn [orb andb]. destruct l as [|b l].
    + rewrite dec_high_end by assumption. cbn. split; [discriminate|auto].
    + destruct (is_low b) eqn:Hb.
      * rewrite dec_high_pair by assumption. cbn. split; [discriminate|congruence].
      * rewrite dec_high_lone by assumption. cbn. split; [discriminate|auto].
  - rewrite dec_low by assumption. rewrite H0. cbn. split; [discriminate|auto].
Qed.

Lemma parked_none_head l : parked (decode_utf16 l) = None -> head_not_low l.
Proof.
  destruct l as [|a l]; [cbn; auto|]. cbn [head_not_low]. intros H.
  destruct (is_low a) eqn:Ha; [|reflexivity].
  rewrite dec_low in H by assumption. discriminate.
Qed.

(* KEY: the chunk-wise decode with a one-unit carry.  Decoding x ++ u equals
   decoding x followed by the unit parked from u, then the rest of u's items. *)
Lemma decode_carry x u :
  decode_utf16 (x ++ u) =
  decode_utf16 (x ++ opt_list (parked (decode_utf16 u))) ++ unparked (decode_utf16 u).
Proof.
  destruct (decode_utf16 u) as [|[c|s] r] eqn:E.
  - cbn [parked unparked opt_list]. rewrite !app_nil_r.
    rewrite decode_split_nolow, E, app_nil_r; [reflexivity|].
    apply parked_none_head. rewrite E. reflexivity.
  - cbn [parked unparked opt_list]. rewrite app_nil_r.
    rewrite decode_split_nolow, E; [reflexivity|].
    apply parked_none_head. rewrite E. reflexivity.
  - cbn [parked unparked opt_list].
    destruct (decode_first_err _ _ _ E) as (v' & -> & -> & Hs).
    change (x ++ s :: v') with (x ++ [s] ++ v'). rewrite app_assoc.
    destruct Hs as [Hl|[Hh Hv]].
    + apply decode_split_nohigh. by_cls s; congruence.
    + apply decode_split_nolow. assumption.
Qed.

(* ---------------------------------------------------------------------- *)
(* the model decoder agrees with the spec's lossy decoding                  *)
(* ---------------------------------------------------------------------- *)
Definition item_char (i : item) : N := match i with IOk c => c | IErr _ => 0xFFFD end.
Definition chars (l : list N) : list N := map item_char (decode_utf16 l).

Lemma pair_scalar_spec h l : is_high h = true -> is_low l = true ->
  pair_scalar h l = scalar_of_pair h l.
Proof.
  intros Hh Hl. unfold pair_scalar, scalar_of_pair, is_high, is_low in *.
  change 0x3FF with (N.ones 10). rewrite !N.land_ones.
  assert (Hd : N.land (N.shiftl (h mod 2 ^ 10) 10) (l mod 2 ^ 10) = 0).
  { apply N.bits_inj. intros k. rewrite N.land_spec, N.bits_0.
    destruct (N.ltb_spec k 10).
    - rewrite N.shiftl_spec_low by assumption. reflexivity.
    - rewrite (N.mod_pow2_bits_high l 10 k) by assumption. apply andb_false_r. }
  rewrite <- N.lxor_lor by assumption. rewrite <- N.add_nocarry_lxor by assumption.
  rewrite N.shiftl_mul_pow2. change (2 ^ 10) with 1024. clear Hd. lia.
Qed.

Lemma lossy_from_chars l :
  lossy_from None l = chars l /\
  forall h, is_high h = true -> lossy_from (Some h) l = chars (h :: l).
Proof.
  unfold chars. induction l as [|u t [IH1 IH2]].
  - split; [reflexivity|]. intros h Hh. rewrite dec_high_end by assumption. reflexivity.
  - split.
    + cbn [lossy_from]. by_cls u.
      * rewrite H, H0. rewrite dec_plain by assumption. cbn [map item_char]. now rewrite IH1.
      * rewrite H. now apply IH2.
      * rewrite H, H0. rewrite dec_low by assumption. cbn [map item_char]. now rewrite IH1.
    + intros h Hh. cbn [lossy_from]. by_cls u.
      * rewrite H, H0. rewrite dec_high_lone, dec_plain by assumption.
        cbn [map item_char]. now rewrite IH1.
      * rewrite H0, H. rewrite dec_high_lone by assumption. cbn [map item_char].
        now rewrite IH2.
      * rewrite H0. rewrite dec_high_pair by assumption. cbn [map item_char].
        rewrite IH1. now rewrite pair_scalar_spec.
Qed.

Lemma lossy_chars l : lossy l = chars l.
Proof. apply lossy_from_chars. Qed.
