(* SPEC side of C17: independent definitions the theorems compare the model with.
   - name_units : the fragments joined in name order, each cut at its first 0x0000
   - lossy      : standard lossy UTF-16 decoding, written as a one-unit-at-a-time
                  scanner with a pending high surrogate (the model uses look-ahead)
   - utf8       : UTF-8 encoding by division/remainder (the model uses shifts/masks)
   - valid_utf8 : RFC 3629 acceptor (no surrogates, no overlong forms, <= 0x10FFFF)
   - complete_run : declarative "complete, correctly ordered fragment run"
   No proofs in this file. *)
From Coq Require Import NArith List Bool.
Import ListNotations.
Open Scope N_scope.

(* ---- names ---- *)
Fixpoint until_nul (f : list N) : list N :=
  match f with
  | [] => []
  | x :: r => if x =? 0 then [] else x :: until_nul r
  end.

Definition name_units (frags : list (list N)) : list N := concat (map until_nul frags).

(* ---- lossy UTF-16 decoding ---- *)
Definition is_high (u : N) : bool := (0xD800 <=? u) && (u <=? 0xDBFF).
Definition is_low (u : N) : bool := (0xDC00 <=? u) && (u <=? 0xDFFF).
Definition REPLACEMENT : N := 0xFFFD.
Definition scalar_of_pair (h l : N) : N := 0x10000 + (h - 0xD800) * 0x400 + (l - 0xDC00).

(* pending = a high surrogate seen and not yet resolved *)
Fixpoint lossy_from (pending : option N) (l : list N) : list N :=
  match l with
  | [] => match pending with Some _ => [REPLACEMENT] | None => [] end
  | u :: t =>
      match pending with
      | Some h =>
          if is_low u then scalar_of_pair h u :: lossy_from None t
          else if is_high u then REPLACEMENT :: lossy_from (Some u) t
          else REPLACEMENT :: u :: lossy_from None t
      | None =>
          if is_high u then lossy_from (Some u) t
          else if is_low u then REPLACEMENT :: lossy_from None t
          else u :: lossy_from None t
      end
  end.
Definition lossy (l : list N) : list N := lossy_from None l.

(* ---- UTF-8 ---- *)
Definition utf8_char (c : N) : list N :=
  if c <? 0x80 then [c]
  else if c <? 0x800 then [0xC0 + c / 64; 0x80 + c mod 64]
  else if c <? 0x10000 then [0xE0 + c / 4096; 0x80 + (c / 64) mod 64; 0x80 + c mod 64]
  else [0xF0 + c / 262144; 0x80 + (c / 4096) mod 64; 0x80 + (c / 64) mod 64; 0x80 + c mod 64].
Definition utf8 (cs : list N) : list N := concat (map utf8_char cs).

Definition is_scalar (c : N) : bool := (c <? 0xD800) || ((0xDFFF <? c) && (c <? 0x110000)).

(* RFC 3629 section 4 as an automaton:
   UTF8-1 = 00-7F; UTF8-2 = C2-DF tail;
   UTF8-3 = E0 A0-BF tail / E1-EC 2tail / ED 80-9F tail / EE-EF 2tail;
   UTF8-4 = F0 90-BF 2tail / F1-F3 3tail / F4 80-8F 2tail; tail = 80-BF *)
Inductive ustate : Type := UStart | UTail1 | UTail2 | UTail3 | UE0 | UED | UF0 | UF4 | UBad.

Definition in_range (lo hi b : N) : bool := (lo <=? b) && (b <=? hi).

Definition ustep (s : ustate) (b : N) : ustate :=
  match s with
  | UStart =>
      if b <=? 0x7F then UStart
      else if in_range 0xC2 0xDF b then UTail1
      else if b =? 0xE0 then UE0
      else if in_range 0xE1 0xEC b then UTail2
      else if b =? 0xED then UED
      else if in_range 0xEE 0xEF b then UTail2
      else if b =? 0xF0 then UF0
      else if in_range 0xF1 0xF3 b then UTail3
      else if b =? 0xF4 then UF4
      else UBad
  | UTail1 => if in_range 0x80 0xBF b then UStart else UBad
  | UTail2 => if in_range 0x80 0xBF b then UTail1 else UBad
  | UTail3 => if in_range 0x80 0xBF b then UTail2 else UBad
  | UE0 => if in_range 0xA0 0xBF b then UTail1 else UBad
  | UED => if in_range 0x80 0x9F b then UTail1 else UBad
  | UF0 => if in_range 0x90 0xBF b then UTail2 else UBad
  | UF4 => if in_range 0x80 0x8F b then UTail2 else UBad
  | UBad => UBad
  end.

Definition valid_utf8 (bs : list N) : bool :=
  match fold_left ustep bs UStart with UStart => true | _ => false end.

(* ---- the name a buffer of n bytes should show ---- *)
Definition lfn_spec (n : nat) (frags : list (list N)) : list N :=
  let b := utf8 (lossy (name_units frags)) in
  if Nat.leb (length b) n then b else [].

(* ---- the known divergence (D12): the very first unit of the whole name is an
   unpaired surrogate.  Decidable predicate on the fragment list. ---- *)
Definition leading_lone (l : list N) : bool :=
  match l with
  | [] => false
  | u :: t => is_low u || (is_high u && match t with [] => true | v :: _ => negb (is_low v) end)
  end.
Definition KnownClass (frags : list (list N)) : bool := leading_lone (name_units frags).

(* exact form, depending on the buffer size too: the rest of the name fits, and
   the two results are not both empty *)
Definition KnownClassN (n : nat) (frags : list (list N)) : bool :=
  let m := length (utf8 (lossy (tl (name_units frags)))) in
  KnownClass frags && Nat.leb m n && (Nat.ltb 0 m || Nat.leb 3 n).

(* ---- directory slots ---- *)
Definition slot_first (d : list N) : N := nth 0 d 0.
Definition slot_is_lfn (d : list N) : Prop := N.land (nth 11 d 0) 15 = 15.
Definition slot_start (d : list N) : Prop := N.land (slot_first d) 64 <> 0.
Definition slot_seq (d : list N) : N := (slot_first d) mod 32.
Definition slot_csum (d : list N) : N := nth 13 d 0.
Definition le16 (d : list N) (i : nat) : N := nth i d 0 + 256 * nth (S i) d 0.
Definition slot_units (d : list N) : list N :=
  map (le16 d) [1; 3; 5; 7; 9; 14; 16; 18; 20; 22; 24; 28; 30]%nat.

(* slots a directory walk delivers: everything before the first slot starting
   with 0x00, minus the slots starting with 0xE5 *)
Fixpoint delivered (slots : list (list N)) : list (list N) :=
  match slots with
  | [] => []
  | d :: r => if slot_first d =? 0 then []
              else if slot_first d =? 0xE5 then delivered r
              else d :: delivered r
  end.

(* boolean readings of a slot and an independent statement of the 8.3 checksum
   (Microsoft FAT specification: sum = ((sum & 1) ? 0x80 : 0) + (sum >> 1) + c) *)
Definition slot_is_lfnb (d : list N) : bool := N.land (nth 11 d 0) 15 =? 15.
Definition slot_startb (d : list N) : bool := negb (N.land (slot_first d) 64 =? 0).
Definition spec_csum (name : list N) : N :=
  fold_left (fun s c => ((s mod 2) * 128 + s / 2 + c) mod 256) name 0.

(* the later slots of a run: not flagged start, numbered k, k-1, ..., 1 *)
Fixpoint run_tail (k : nat) (r : list (list N)) {struct r} : Prop :=
  match r with
  | [] => k = O
  | d :: r' => slot_is_lfn d /\ ~ slot_start d /\ slot_seq d = N.of_nat k /\
               match k with O => False | S k' => run_tail k' r' end
  end.

(* complete correctly ordered run: start slot numbered n = its length,
   1 <= n <= 0x13, followed by n-1, ..., 1 *)
Definition complete_run (run : list (list N)) : Prop :=
  match run with
  | [] => False
  | d :: r => slot_is_lfn d /\ slot_start d /\ slot_seq d = N.of_nat (length run) /\
              (length run <= 19)%nat /\ run_tail (length r) r
  end.

(* ---- executable listing oracle: look backwards from an entry for slots numbered
   1, 2, ... (not flagged start) up to a start slot carrying the next number ---- *)
Fixpoint find_run (rb : list (list N)) (k : nat) (acc : list (list N)) : option (list (list N)) :=
  match rb with
  | [] => None
  | d :: r => if slot_is_lfnb d && (slot_seq d =? N.of_nat k) && Nat.leb k 19
              then if slot_startb d then Some (d :: acc) else find_run r (S k) (d :: acc)
              else None
  end.

(* name order = reverse of disk order *)
Definition run_frags (run : list (list N)) : list (list N) := rev (map slot_units run).

Definition spec_name (n : nat) (rb : list (list N)) (e : list N) : option (list N * bool) :=
  match find_run rb 1 [] with
  | Some (d :: run) =>
      if slot_csum d =? spec_csum (firstn 11 e)
      then Some (lfn_spec n (run_frags (d :: run)), KnownClassN n (run_frags (d :: run)))
      else None
  | _ => None
  end.

(* rb = delivered slots seen so far, nearest first; result: name bytes, long
   name if any, and whether that name is in the known class *)
Fixpoint spec_listing_from (n : nat) (rb : list (list N)) (ds : list (list N))
  : list (list N * option (list N * bool)) :=
  match ds with
  | [] => []
  | d :: r => if slot_is_lfnb d then spec_listing_from n (d :: rb) r
              else (firstn 11 d, spec_name n rb d) :: spec_listing_from n (d :: rb) r
  end.
Definition spec_listing (n : nat) (slots : list (list N)) := spec_listing_from n [] (delivered slots).
