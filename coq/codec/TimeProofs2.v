(* Round-trip theorems for the timestamp codec, on top of the arithmetic forms of TimeProofs.v *)
From Coq Require Import NArith List Bool Lia ZArith ZifyClasses ZifyInst Zify.
From SdCodec Require Import CodecModel CodecSpec TimeProofs.
Import ListNotations.
Open Scope N_scope.
Ltac Zify.zify_post_hook ::= Z.to_euclidean_division_equations.
Arguments N.add : simpl never.
Arguments N.sub : simpl never.
Arguments N.mul : simpl never.
Arguments N.div : simpl never.
Arguments N.modulo : simpl never.

(* ---- the 16-bit fields the encoder writes *)
Definition enc_fields (t : Timestamp) : outcome (N * N) :=
  match spec_fat_date t with Panic => Panic | Val d => Val (d, spec_fat_time t) end.

Lemma spec_fat_time_lt t : spec_fat_time t < 65536.
Proof. unfold spec_fat_time. lia. Qed.
Lemma spec_fat_date_lt t d : spec_fat_date t = Val d -> d < 65536.
Proof.
  unfold spec_fat_date. destruct (_ || _); [discriminate|]. intros [= <-].
  destruct (year_since_1970 t <? 10); lia.
Qed.

Ltac ts_unfold :=
  unfold spec_from_fat, spec_fat_time, spec_fat_date, date_year_field, date_month_field, date_day_field,
    time_hour_field, time_minute_field, time_2sec_field, fat_date_spec, fat_time_spec, calendar_ts, ts_round2;
  cbn [year_since_1970 zero_indexed_month zero_indexed_day hours minutes seconds].

(* decode then encode, on the 16-bit fields, zero month/day fields included *)
Lemma dec_enc_fields date time : date < 65536 -> time < 65536 ->
  spec_fat_time (spec_from_fat date time) = time /\
  spec_fat_date (spec_from_fat date time) =
    Val (date + (if date_month_field date =? 0 then 32 else 0) + (if date_day_field date =? 0 then 1 else 0)).
Proof.
  intros Hd Ht. split.
  - ts_unfold. lia.
  - ts_unfold.
    destruct (N.eqb_spec ((date / 32) mod 16) 0) as [E1|E1], (N.eqb_spec (date mod 32) 0) as [E2|E2].
    all: match goal with |- (if ?c then _ else _) = _ => replace c with false by (symmetry; apply orb_false_iff; split; apply N.leb_gt; lia) end.
    all: replace (10 + date / 512 <? 10) with false by (symmetry; apply N.ltb_ge; lia).
    all: f_equal; lia.
Qed.

Theorem time_dec_enc_general date time : date < 65536 -> time < 65536 ->
  serialize_to_fat (from_fat date time) =
  Val (spec_le16 time ++
       spec_le16 (date + (if date_month_field date =? 0 then 32 else 0)
                       + (if date_day_field date =? 0 then 1 else 0))).
Proof.
  intros Hd Ht. rewrite from_fat_spec by assumption.
  rewrite serialize_to_fat_spec by (apply spec_from_fat_wf; assumption).
  unfold spec_serialize_to_fat. destruct (dec_enc_fields date time Hd Ht) as [-> ->]. reflexivity.
Qed.

Theorem time_dec_enc date time : date < 65536 -> time < 65536 ->
  date_month_field date <> 0 -> date_day_field date <> 0 ->
  serialize_to_fat (from_fat date time) = Val (spec_le16 time ++ spec_le16 date).
Proof.
  intros Hd Ht Hm Hday. rewrite time_dec_enc_general by assumption.
  apply N.eqb_neq in Hm, Hday. rewrite Hm, Hday. rewrite !N.add_0_r. reflexivity.
Qed.

(* what from_fat means in calendar terms *)
Theorem from_fat_calendar date time : date < 65536 -> time < 65536 ->
  date_month_field date <> 0 -> date_day_field date <> 0 ->
  from_fat date time =
  calendar_ts (1980 + date_year_field date) (date_month_field date) (date_day_field date)
              (time_hour_field time) (time_minute_field time) (2 * time_2sec_field time).
Proof.
  intros Hd Ht Hm Hday. rewrite from_fat_spec by assumption.
  unfold spec_from_fat. apply N.eqb_neq in Hm, Hday. rewrite Hm, Hday.
  unfold calendar_ts. f_equal. lia.
Qed.

Lemma from_fat_representable date time : date < 65536 -> time < 65536 ->
  ts_representable (from_fat date time).
Proof.
  intros Hd Ht. rewrite from_fat_spec by assumption. unfold ts_representable. ts_unfold.
  destruct (N.eqb_spec ((date / 32) mod 16) 0), (N.eqb_spec (date mod 32) 0); lia.
Qed.

Lemma ts_eq_iff a b c d e f a' b' c' d' e' f' :
  mkTs a b c d e f = mkTs a' b' c' d' e' f' <-> a = a' /\ b = b' /\ c = c' /\ d = d' /\ e = e' /\ f = f'.
Proof.
  split.
  - intros [= -> -> -> -> -> ->]. repeat split.
  - intros (-> & -> & -> & -> & -> & ->). reflexivity.
Qed.

(* encode then decode: exactly the representable timestamps are fixpoints; one lemma per field *)
Lemma fld_month mo : mo < 255 ->
  ((if (mo + 1) mod 16 =? 0 then 0 else (mo + 1) mod 16 - 1) = mo <-> mo <= 14).
Proof. intros H. destruct (N.eqb_spec ((mo + 1) mod 16) 0); lia. Qed.
Lemma fld_day da : da < 255 ->
  ((if (da + 1) mod 32 =? 0 then 0 else (da + 1) mod 32 - 1) = da <-> da <= 30).
Proof. intros H. destruct (N.eqb_spec ((da + 1) mod 32) 0); lia. Qed.
Lemma fld_hours h : h mod 32 = h <-> h <= 31.
Proof. lia. Qed.
Lemma fld_minutes mi : mi mod 64 = mi <-> mi <= 63.
Proof. lia. Qed.
Lemma fld_seconds s : 2 * ((s / 2) mod 32) = s <-> s <= 62 /\ s mod 2 = 0.
Proof. lia. Qed.
Lemma fld_year y : y < 256 ->
  (10 + (if y <? 10 then 0 else (y - 10) mod 128) = y <-> 10 <= y <= 137).
Proof. intros H. destruct (N.ltb_spec y 10); lia. Qed.

Lemma date_unpack a m d : m < 16 -> d < 32 ->
  (a * 512 + m * 32 + d) / 512 = a /\ ((a * 512 + m * 32 + d) / 32) mod 16 = m /\ (a * 512 + m * 32 + d) mod 32 = d.
Proof. intros Hm Hd. repeat split; lia. Qed.
Lemma time_unpack h m s : m < 64 -> s < 32 ->
  (h * 2048 + m * 32 + s) / 2048 = h /\ ((h * 2048 + m * 32 + s) / 32) mod 64 = m /\ (h * 2048 + m * 32 + s) mod 32 = s.
Proof. intros Hm Hs. repeat split; lia. Qed.

Lemma enc_dec_fields t d : ts_wf t -> spec_fat_date t = Val d ->
  (spec_from_fat d (spec_fat_time t) = t <-> ts_representable t).
Proof.
  destruct t as [y mo da h mi s]. unfold ts_wf, ts_representable. ts_unfold.
  intros (Hy & Hmo & Hda & Hh & Hmi & Hs).
  destruct (N.leb_spec 255 mo) as [?|Hmo']; [discriminate|].
  destruct (N.leb_spec 255 da) as [?|Hda']; [discriminate|].
  cbn [orb]. intros [= <-]. rewrite ts_eq_iff.
  replace (if y <? 10 then 0 else (y - 10) mod 128 * 512)
    with ((if y <? 10 then 0 else (y - 10) mod 128) * 512) by (destruct (y <? 10); reflexivity).
  destruct (date_unpack (if y <? 10 then 0 else (y - 10) mod 128) ((mo + 1) mod 16) ((da + 1) mod 32))
    as (-> & -> & ->); [lia|lia|].
  destruct (time_unpack (h mod 32) (mi mod 64) ((s / 2) mod 32)) as (-> & -> & ->); [lia|lia|].
  rewrite (fld_year y Hy), (fld_month mo Hmo'), (fld_day da Hda'), fld_hours, fld_minutes, fld_seconds.
  tauto.
Qed.

Theorem time_enc_dec_fixpoints t : ts_wf t ->
  zero_indexed_month t < 255 -> zero_indexed_day t < 255 ->
  exists date time, date < 65536 /\ time < 65536 /\
    serialize_to_fat t = Val (spec_le16 time ++ spec_le16 date) /\
    (from_fat date time = t <-> ts_representable t).
Proof.
  intros Hwf Hm Hd. rewrite serialize_to_fat_spec by exact Hwf. unfold spec_serialize_to_fat.
  destruct (spec_fat_date t) as [d|] eqn:E.
  2:{ unfold spec_fat_date in E.
      replace (255 <=? zero_indexed_month t) with false in E by (symmetry; apply N.leb_gt; lia).
      replace (255 <=? zero_indexed_day t) with false in E by (symmetry; apply N.leb_gt; lia).
      discriminate. }
  exists d, (spec_fat_time t). pose proof (spec_fat_date_lt t d E) as Hdl. pose proof (spec_fat_time_lt t) as Htl.
  split; [exact Hdl|]. split; [exact Htl|]. split; [reflexivity|].
  rewrite from_fat_spec by assumption. apply enc_dec_fields; assumption.
Qed.

Theorem serialize_to_fat_panics t : ts_wf t ->
  (serialize_to_fat t = Panic <-> zero_indexed_month t = 255 \/ zero_indexed_day t = 255).
Proof.
  intros Hwf. rewrite serialize_to_fat_spec by exact Hwf. unfold spec_serialize_to_fat, spec_fat_date.
  destruct Hwf as (_ & Hm & Hd & _).
  destruct (N.leb_spec 255 (zero_indexed_month t)), (N.leb_spec 255 (zero_indexed_day t)); cbn [orb];
    split; try discriminate; try lia; intros _; reflexivity.
Qed.

(* ---- the calendar direction *)
Lemma from_calendar_spec y mo d h mi s :
  from_calendar y mo d h mi s = spec_from_calendar y mo d h mi s.
Proof.
  unfold from_calendar, spec_from_calendar. change (1970 + 255) with 2225.
  destruct (N.leb_spec 1970 y), (N.leb_spec y 2225), (N.ltb_spec y 1970), (N.ltb_spec 2225 y); try lia; cbn [andb orb negb]; try reflexivity.
  destruct (N.leb_spec 1 mo), (N.leb_spec mo 12), (N.ltb_spec mo 1), (N.ltb_spec 12 mo); try lia; cbn [andb orb negb]; try reflexivity.
  destruct (N.leb_spec 1 d), (N.leb_spec d 31), (N.ltb_spec d 1), (N.ltb_spec 31 d); try lia; cbn [andb orb negb]; try reflexivity.
  destruct (N.leb_spec h 23), (N.ltb_spec 23 h); try lia; cbn [negb]; try reflexivity.
  destruct (N.leb_spec mi 59), (N.ltb_spec 59 mi); try lia; cbn [negb]; try reflexivity.
  destruct (N.leb_spec s 59), (N.ltb_spec 59 s); try lia; cbn [negb]; try reflexivity.
  unfold calendar_ts. rewrite u8_mod, N.mod_small by lia. reflexivity.
Qed.

Theorem from_calendar_accepts y mo d h mi s :
  from_calendar y mo d h mi s = Ok (calendar_ts y mo d h mi s) /\ 1970 <= y <= 2225 /\ calendar_fields mo d h mi s
  \/ (exists e, from_calendar y mo d h mi s = Err e) /\ ~ (1970 <= y <= 2225 /\ calendar_fields mo d h mi s).
Proof.
  rewrite from_calendar_spec. unfold spec_from_calendar, calendar_fields.
  destruct (N.ltb_spec y 1970); [right; split; [eexists; reflexivity|lia]|].
  destruct (N.ltb_spec 2225 y); [right; split; [eexists; reflexivity|lia]|]. cbn [orb].
  destruct (N.ltb_spec mo 1); [right; split; [eexists; reflexivity|lia]|].
  destruct (N.ltb_spec 12 mo); [right; split; [eexists; reflexivity|lia]|]. cbn [orb].
  destruct (N.ltb_spec d 1); [right; split; [eexists; reflexivity|lia]|].
  destruct (N.ltb_spec 31 d); [right; split; [eexists; reflexivity|lia]|]. cbn [orb].
  destruct (N.ltb_spec 23 h); [right; split; [eexists; reflexivity|lia]|].
  destruct (N.ltb_spec 59 mi); [right; split; [eexists; reflexivity|lia]|].
  destruct (N.ltb_spec 59 s); [right; split; [eexists; reflexivity|lia]|].
  left. split; [reflexivity|lia].
Qed.

Lemma valid_calendar_fields y mo d h mi s : valid_calendar y mo d h mi s -> calendar_fields mo d h mi s.
Proof.
  unfold valid_calendar, calendar_fields, days_in_month. intros (Hm & Hd & H).
  repeat split; try lia.
  destruct (mo =? 2); [destruct (leap_year y); lia|].
  destruct (_ || _); lia.
Qed.

Theorem time_enc_dec y mo d h mi s :
  1980 <= y <= 2107 -> calendar_fields mo d h mi s ->
  let t := calendar_ts y mo d h mi s in
  from_calendar y mo d h mi s = Ok t /\
  serialize_to_fat t = Val (spec_le16 (fat_time_spec h mi s) ++ spec_le16 (fat_date_spec y mo d)) /\
  from_fat (fat_date_spec y mo d) (fat_time_spec h mi s) = ts_round2 t.
Proof.
  intros Hy Hf t. pose proof Hf as (Hmo & Hd & Hh & Hmi & Hs).
  assert (Hwf : ts_wf t) by (subst t; unfold ts_wf; ts_unfold; lia).
  split; [|split].
  - destruct (from_calendar_accepts y mo d h mi s) as [(E & _)|(_ & Hn)]; [exact E|].
    exfalso. apply Hn. split; [lia|exact Hf].
  - rewrite serialize_to_fat_spec by exact Hwf. unfold spec_serialize_to_fat.
    assert (E : spec_fat_date t = Val (fat_date_spec y mo d)).
    { subst t. ts_unfold.
      replace (255 <=? mo - 1) with false by (symmetry; apply N.leb_gt; lia).
      replace (255 <=? d - 1) with false by (symmetry; apply N.leb_gt; lia).
      replace (y - 1970 <? 10) with false by (symmetry; apply N.ltb_ge; lia).
      cbn [orb]. f_equal. lia. }
    assert (E2 : spec_fat_time t = fat_time_spec h mi s) by (subst t; ts_unfold; lia).
    rewrite E, E2. reflexivity.
  - rewrite from_fat_spec by (unfold fat_date_spec, fat_time_spec; lia).
    subst t. ts_unfold.
    set (D := (y - 1980) * 512 + mo * 32 + d). set (T := h * 2048 + mi * 32 + s / 2).
    assert (E1 : D / 512 = y - 1980) by (subst D; lia).
    assert (E2 : (D / 32) mod 16 = mo) by (subst D; lia).
    assert (E3 : D mod 32 = d) by (subst D; lia).
    assert (F1 : T / 2048 = h) by (subst T; lia).
    assert (F2 : (T / 32) mod 64 = mi) by (subst T; lia).
    assert (F3 : T mod 32 = s / 2) by (subst T; lia).
    rewrite E1, E2, E3, F1, F2, F3.
    replace (mo =? 0) with false by (symmetry; apply N.eqb_neq; lia).
    replace (d =? 0) with false by (symmetry; apply N.eqb_neq; lia).
    f_equal. lia.
Qed.

(* the range 1980..2107 is tight: from_calendar accepts 1970..2225, but the years outside
   1980..2107 come back as a different year *)
Theorem time_year_alias :
  (exists t, from_calendar 1979 12 31 23 59 58 = Ok t /\
     exists b, serialize_to_fat t = Val b /\ b = spec_le16 (fat_time_spec 23 59 58) ++ spec_le16 (fat_date_spec 1980 12 31)) /\
  (exists t, from_calendar 2108 1 1 0 0 0 = Ok t /\
     exists b, serialize_to_fat t = Val b /\ b = spec_le16 (fat_time_spec 0 0 0) ++ spec_le16 (fat_date_spec 1980 1 1)).
Proof.
  split; eexists; (split; [reflexivity|]); eexists; (split; [reflexivity|]); vm_compute; reflexivity.
Qed.

(* the decode-encode sweep is separable: the date half of the result depends on the date
   field only, the time half on the time field only (used by the model-side driver to
   cover all 2^32 pairs from two tables of 2^16 model evaluations each) *)
Theorem time_sweep_separable date time :
  from_fat date time =
    mkTs (year_since_1970 (from_fat date 0)) (zero_indexed_month (from_fat date 0))
         (zero_indexed_day (from_fat date 0))
         (hours (from_fat 0 time)) (minutes (from_fat 0 time)) (seconds (from_fat 0 time)) /\
  serialize_to_fat (from_fat date time) =
    bind (fat_date_of (from_fat date 0))
         (fun dt => Val (le16 (fat_time_of (from_fat 0 time)) ++ le16 dt)).
Proof. split; reflexivity. Qed.
