(* Extraction of the executable model and spec (ExtrOcamlBasic only). *)
From Coq Require Import NArith List Extraction ExtrOcamlBasic.
From SdCodec Require Import CodecModel CodecSpec.
Extraction Language OCaml.
Extraction "../../build/extract/codec/codecx.ml"
  from_fat serialize_to_fat fat_time_of fat_date_of from_calendar serialize get_entry dir_entry_new
  raw_attr create_time create_date last_access_data first_cluster_hi write_time write_date
  first_cluster_lo file_size first_cluster_fat32
  is_end is_valid is_lfn matches csum create_from_str display
  spec_from_fat spec_serialize_to_fat spec_from_calendar spec_serialize spec_get_entry
  spec_sfn spec_csum display_spec split_dot valid83b attr_lfn.
