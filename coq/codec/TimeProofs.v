(* Proofs about the timestamp codec: bit operations of the model = div/mod
   arithmetic of the spec, then the round-trip theorems by linear arithmetic. *)
From Coq Require Import NArith List Bool Lia ZArith ZifyClasses ZifyInst Zify.
From SdCodec Require Import CodecModel CodecSpec.
Import ListNotations.
Open Scope N_scope.
Ltac Zify.zify_post_hook ::= Z.to_euclidean_division_equations.
Arguments N.add : simpl never.
Arguments N.sub : simpl never.
Arguments N.mul : simpl never.
Arguments N.div : simpl never.
Arguments N.modulo : simpl never.
Arguments N.land : simpl never.
Arguments N.lor : simpl never.
Arguments N.shiftl : simpl never.
Arguments N.shiftr : simpl never.
Arguments N.pow : simpl never.

(* ---- bit operations as arithmetic *)
Lemma u8_mod x : u8 x = x mod 256.
Proof. unfold u8. change 255 with (N.ones 8). rewrite N.land_ones. reflexivity. Qed.
Lemma u16_mod x : u16 x = x mod 65536.
Proof. unfold u16. change 65535 with (N.ones 16). rewrite N.land_ones. reflexivity. Qed.
Lemma u32_mod x : u32 x = x mod 4294967296.
Proof. unfold u32. change 4294967295 with (N.ones 32). rewrite N.land_ones. reflexivity. Qed.

Lemma land_field x a b :
  N.land x (N.shiftl (N.ones a) b) = ((x / 2 ^ b) mod 2 ^ a) * 2 ^ b.
Proof.
  rewrite <- N.land_ones, <- N.shiftr_div_pow2, <- N.shiftl_mul_pow2.
  apply N.bits_inj; intro i. rewrite N.land_spec.
  destruct (N.lt_ge_cases i b) as [Hi|Hi].
  - rewrite !N.shiftl_spec_low by exact Hi. apply andb_false_r.
  - rewrite !N.shiftl_spec_high' by exact Hi.
    rewrite N.land_spec, N.shiftr_spec', N.sub_add by exact Hi. reflexivity.
Qed.

Lemma lor_add a b k : b < 2 ^ k -> N.lor (a * 2 ^ k) b = a * 2 ^ k + b.
Proof.
  intros Hb.
  assert (H0 : N.land (a * 2 ^ k) b = 0).
  { apply N.bits_inj_0; intro i. rewrite N.land_spec.
    destruct (N.lt_ge_cases i k) as [Hi|Hi].
    - rewrite N.mul_pow2_bits_low by exact Hi. reflexivity.
    - rewrite <- (N.mod_small b (2 ^ k)) by exact Hb.
      rewrite N.mod_pow2_bits_high by exact Hi. apply andb_false_r. }
  rewrite <- (N.lxor_lor _ _ H0). symmetry. apply N.add_nocarry_lxor. exact H0.
Qed.

Lemma lor3 a b c k : b * 32 + c < 2 ^ k -> c < 32 ->
  N.lor (N.lor (a * 2 ^ k) (b * 32)) c = a * 2 ^ k + b * 32 + c.
Proof.
  intros Hb Hc. rewrite <- N.lor_assoc.
  assert (E : N.lor (b * 32) c = b * 32 + c) by (apply (lor_add b c 5); exact Hc).
  rewrite E, lor_add by exact Hb. lia.
Qed.

Lemma le16_spec v : le16 v = spec_le16 v.
Proof.
  unfold le16, spec_le16. rewrite !u8_mod, N.shiftr_div_pow2. reflexivity.
Qed.
Lemma le32_spec v : le32 v = spec_le32 v.
Proof.
  unfold le32, spec_le32. rewrite !u8_mod, !N.shiftr_div_pow2. reflexivity.
Qed.

(* ---- from_fat in arithmetic *)
Lemma from_fat_spec date time :
  date < 65536 -> time < 65536 -> from_fat date time = spec_from_fat date time.
Proof.
  intros Hd Ht. unfold from_fat, spec_from_fat,
    date_year_field, date_month_field, date_day_field, time_hour_field, time_minute_field, time_2sec_field.
  rewrite !u8_mod, u16_mod.
  change 15 with (N.ones 4). change 31 with (N.ones 5). change 63 with (N.ones 6).
  rewrite !N.land_ones, !N.shiftr_div_pow2, N.shiftl_mul_pow2.
  change (2 ^ 9) with 512. change (2 ^ 5) with 32. change (2 ^ 4) with 16. change (2 ^ 11) with 2048.
  change (2 ^ 6) with 64. change (2 ^ 1) with 2.
  assert (E1 : ((date / 32) mod 16) mod 256 = (date / 32) mod 16) by lia.
  assert (E2 : (date mod 32) mod 256 = date mod 32) by lia.
  rewrite E1, E2.
  f_equal; lia.
Qed.

(* ---- serialize_to_fat in arithmetic *)
Lemma fat_time_spec_eq t : ts_wf t -> fat_time_of t = spec_fat_time t.
Proof.
  intros (_ & _ & _ & Hh & Hm & Hs). unfold fat_time_of, spec_fat_time.
  change 63488 with (N.shiftl (N.ones 5) 11). change 2016 with (N.shiftl (N.ones 6) 5).
  rewrite !land_field. change 31 with (N.ones 5). rewrite N.land_ones.
  rewrite !u16_mod, !N.shiftl_mul_pow2.
  change (2 ^ 11) with 2048. change (2 ^ 5) with 32. change (2 ^ 6) with 64.
  set (a := ((hours t * 2048) mod 65536 / 2048) mod 32).
  set (b := ((minutes t * 32) mod 65536 / 32) mod 64).
  set (c := (seconds t / 2) mod 32).
  assert (Ha : a = hours t mod 32) by (subst a; lia).
  assert (Hb : b = minutes t mod 64) by (subst b; lia).
  change 2048 with (2 ^ 11) at 1. rewrite lor3 by (change (2 ^ 11) with 2048; subst b c; lia).
  change (2 ^ 11) with 2048. lia.
Qed.

Lemma fat_date_spec_eq t : ts_wf t -> fat_date_of t = spec_fat_date t.
Proof.
  intros (Hy & Hmo & Hd & _). unfold fat_date_of, spec_fat_date.
  destruct (N.ltb_spec 255 (zero_indexed_month t + 1)) as [Hp|Hp].
  { replace (255 <=? zero_indexed_month t) with true by (symmetry; apply N.leb_le; lia). reflexivity. }
  replace (255 <=? zero_indexed_month t) with false by (symmetry; apply N.leb_gt; lia).
  destruct (N.ltb_spec 255 (zero_indexed_day t + 1)) as [Hq|Hq].
  { replace (255 <=? zero_indexed_day t) with true by (symmetry; apply N.leb_le; lia). reflexivity. }
  replace (255 <=? zero_indexed_day t) with false by (symmetry; apply N.leb_gt; lia).
  cbn [orb]. f_equal.
  change 65024 with (N.shiftl (N.ones 7) 9). change 480 with (N.shiftl (N.ones 4) 5).
  rewrite !land_field. change 31 with (N.ones 5). rewrite N.land_ones.
  rewrite !u16_mod, !N.shiftl_mul_pow2.
  change (2 ^ 9) with 512. change (2 ^ 5) with 32. change (2 ^ 7) with 128. change (2 ^ 4) with 16.
  set (m := (((zero_indexed_month t + 1) * 32) mod 65536 / 32) mod 16).
  set (d := (zero_indexed_day t + 1) mod 32).
  assert (Hm : m = (zero_indexed_month t + 1) mod 16) by (subst m; lia).
  set (y := if year_since_1970 t <? 10 then 0
            else (((year_since_1970 t - 10) * 512) mod 65536 / 512) mod 128 * 512).
  assert (Hy2 : exists a, y = a * 2 ^ 9 /\ a < 128 /\
            a * 512 = (if year_since_1970 t <? 10 then 0 else (year_since_1970 t - 10) mod 128 * 512)).
  { subst y. destruct (year_since_1970 t <? 10).
    - exists 0. split; [reflexivity|]. lia.
    - exists ((((year_since_1970 t - 10) * 512) mod 65536 / 512) mod 128). change (2 ^ 9) with 512.
      split; [reflexivity|]. lia. }
  destruct Hy2 as (a & -> & Ha & Ha2). rewrite <- Ha2.
  rewrite lor3 by (change (2 ^ 9) with 512; subst m d; lia).
  change (2 ^ 9) with 512. lia.
Qed.

Lemma serialize_to_fat_spec t : ts_wf t -> serialize_to_fat t = spec_serialize_to_fat t.
Proof.
  intros H. unfold serialize_to_fat, spec_serialize_to_fat.
  rewrite fat_date_spec_eq, fat_time_spec_eq by exact H.
  destruct (spec_fat_date t); cbn [bind]; [|reflexivity].
  rewrite !le16_spec. reflexivity.
Qed.

Lemma spec_from_fat_wf date time : date < 65536 -> time < 65536 -> ts_wf (spec_from_fat date time).
Proof.
  intros Hd Ht. unfold ts_wf, spec_from_fat, date_year_field, date_month_field, date_day_field,
    time_hour_field, time_minute_field, time_2sec_field. cbn [year_since_1970 zero_indexed_month zero_indexed_day hours minutes seconds].
  destruct (N.eqb_spec ((date / 32) mod 16) 0), (N.eqb_spec (date mod 32) 0); lia.
Qed.

