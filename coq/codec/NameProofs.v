(* C18, 8.3 names: the model of ShortFileName::create_from_str and Display
   (CodecModel.v) against the grammar, byte layout and error classification
   of CodecSpec.v.  All code points (every N), no length bound. *)
From Coq Require Import NArith List Bool Lia ZArith.
From SdCodec Require Import CodecModel CodecSpec.
Import ListNotations. Open Scope N_scope.

Arguments N.add : simpl never.
Arguments N.sub : simpl never.
Arguments N.mul : simpl never.
Arguments N.div : simpl never.
Arguments N.modulo : simpl never.
Arguments N.land : simpl never.

(* ------------------------------------------------------------------ *)
(* finite sweep with an N counter                                      *)
Fixpoint all_from (fuel : nat) (x : N) (p : N -> bool) : bool :=
  match fuel with
  | O => true
  | S f => p x && all_from f (N.succ x) p
  end.

Lemma all_from_spec fuel p : forall x, all_from fuel x p = true ->
  forall y, x <= y < x + N.of_nat fuel -> p y = true.
Proof.
  induction fuel as [|f IH]; intros x H y Hy; [lia|].
  cbn [all_from] in H. apply andb_true_iff in H. destruct H as [Hx Hr].
  destruct (N.eq_dec y x) as [->|Hne]; [exact Hx|].
  apply (IH (N.succ x) Hr). lia.
Qed.

Lemma sweep (bound : N) (p : N -> bool) :
  all_from (N.to_nat bound) 0 p = true -> forall y, y < bound -> p y = true.
Proof. intros H y Hy. apply (all_from_spec _ _ 0 H). lia. Qed.

(* ------------------------------------------------------------------ *)
(* character facts                                                     *)
Definition char_ok (c : N) : bool :=
  if name_charb c then
    negb (is_invalid_arm c) && negb (255 <? c) && negb (c =? 46) &&
    (u8 (to_ascii_uppercase c) =? upper c) && name_charb (upper c) &&
    (upper (upper c) =? upper c) && negb (upper c =? 32) && (upper c <? 256)
  else (c =? 46) || is_invalid_arm c || (255 <? c).

Lemma char_ok_all c : char_ok c = true.
Proof.
  destruct (N.lt_ge_cases c 256) as [Hlt|Hge].
  - apply (sweep 256 char_ok); [vm_compute; reflexivity | exact Hlt].
  - unfold char_ok, name_charb.
    assert (H1 : (c <=? 255) = false) by (apply N.leb_gt; lia).
    assert (H2 : (255 <? c) = true) by (apply N.ltb_lt; lia).
    rewrite H1, H2. cbn [andb]. apply orb_true_r.
Qed.

Record name_facts (c : N) : Prop := mk_name_facts {
  nf_arm : is_invalid_arm c = false;
  nf_big : (255 <? c) = false;
  nf_dot : (c =? 46) = false;
  nf_up : u8 (to_ascii_uppercase c) = upper c;
  nf_upname : name_charb (upper c) = true;
  nf_idem : upper (upper c) = upper c;
  nf_nosp : upper c <> 32;
  nf_byte : upper c < 256 }.

Lemma name_charb_facts c : name_charb c = true -> name_facts c.
Proof.
  intros Hn. pose proof (char_ok_all c) as H. unfold char_ok in H. rewrite Hn in H.
  apply andb_true_iff in H. destruct H as [H G8]. apply andb_true_iff in H. destruct H as [H G7].
  apply andb_true_iff in H. destruct H as [H G6]. apply andb_true_iff in H. destruct H as [H G5].
  apply andb_true_iff in H. destruct H as [H G4]. apply andb_true_iff in H. destruct H as [H G3].
  apply andb_true_iff in H. destruct H as [G1 G2].
  apply negb_true_iff in G1. apply negb_true_iff in G2. apply negb_true_iff in G3.
  apply N.eqb_eq in G4. apply N.eqb_eq in G6. apply negb_true_iff in G7.
  apply N.eqb_neq in G7. apply N.ltb_lt in G8.
  constructor; assumption.
Qed.

Lemma not_name_invalid c : name_charb c = false -> (c =? 46) = false ->
  is_invalid_arm c = true \/ (is_invalid_arm c = false /\ (255 <? c) = true).
Proof.
  intros Hn Hd. pose proof (char_ok_all c) as H. unfold char_ok in H. rewrite Hn, Hd in H.
  cbn [orb] in H. destruct (is_invalid_arm c); [left; reflexivity|right; split; [reflexivity|exact H]].
Qed.

Lemma name_charb_46 : name_charb 46 = false.
Proof. reflexivity. Qed.

Lemma existsb_eqb_In c l : existsb (N.eqb c) l = true <-> In c l.
Proof.
  rewrite existsb_exists. split.
  - intros [x [Hin He]]. apply N.eqb_eq in He. subst x. exact Hin.
  - intros Hin. exists c. split; [exact Hin|apply N.eqb_refl].
Qed.

Lemma name_charb_iff c : name_charb c = true <-> name_char c.
Proof.
  unfold name_charb, name_char.
  rewrite !andb_true_iff, !negb_true_iff, N.leb_le, N.ltb_lt, N.eqb_neq.
  rewrite <- not_true_iff_false, existsb_eqb_In. tauto.
Qed.

Lemma forallb_name l : forallb name_charb l = true <-> Forall name_char l.
Proof.
  rewrite forallb_forall, Forall_forall. split; intros H x Hx; apply name_charb_iff, H, Hx.
Qed.

(* ------------------------------------------------------------------ *)
(* list helpers                                                        *)
Lemma list_eqb_eq a : forall b, list_eqb a b = true <-> a = b.
Proof.
  induction a as [|x a IH]; intros [|y b]; cbn [list_eqb]; try (split; intros H; [discriminate H|discriminate H]).
  - split; reflexivity.
  - rewrite andb_true_iff, N.eqb_eq, IH. split.
    + intros [H1 H2]. subst. reflexivity.
    + intros H. inversion H. split; reflexivity.
Qed.

Lemma set_nth_app a : forall x b v, set_nth (a ++ x :: b) (length a) v = a ++ v :: b.
Proof.
  induction a as [|y a IH]; intros x b v; cbn [set_nth app length]; [reflexivity|].
  rewrite IH. reflexivity.
Qed.

(* the 11-byte buffer whose first bytes are A and the rest spaces *)
Definition cont (A : list N) : list N := A ++ repeat 32 (11 - length A).

Lemma cont_snoc A v : (length A < 11)%nat -> set_nth (cont A) (length A) v = cont (A ++ [v]).
Proof.
  intros H. unfold cont. rewrite app_length. cbn [length].
  replace (11 - length A)%nat with (S (11 - (length A + 1))) by lia.
  cbn [repeat]. rewrite set_nth_app, <- app_assoc. reflexivity.
Qed.

Lemma pad_length n l : (length l <= n)%nat -> length (pad n l) = n.
Proof. intros H. unfold pad. rewrite app_length, repeat_length. lia. Qed.

Lemma cont_pad A : (length A <= 8)%nat -> cont (pad 8 A) = cont A.
Proof.
  intros H. unfold cont. rewrite (pad_length 8 A H). unfold pad.
  rewrite <- app_assoc, <- repeat_app. f_equal. f_equal. lia.
Qed.

(* ------------------------------------------------------------------ *)
(* split_dot                                                           *)
Definition next (b : list N) (eo : option (list N)) (c : N) : list N * option (list N) :=
  match eo with
  | None => if c =? 46 then (b, Some []) else (b ++ [c], None)
  | Some e => (b, Some (e ++ [c]))
  end.

Lemma split_dot_snoc p c :
  split_dot (p ++ [c]) = let (b, eo) := split_dot p in next b eo c.
Proof.
  induction p as [|x p IH]; cbn [app split_dot].
  - cbn [next]. destruct (c =? 46); reflexivity.
  - destruct (x =? 46); [reflexivity|].
    rewrite IH. destruct (split_dot p) as [b [e|]]; cbn [next]; [reflexivity|].
    destruct (c =? 46); reflexivity.
Qed.

Lemma split_dot_spec s :
  let (b, eo) := split_dot s in
  Forall (fun c => c <> 46) b /\ s = match eo with None => b | Some e => b ++ 46 :: e end.
Proof.
  induction s as [|x s IH]; cbn [split_dot].
  - split; [constructor|reflexivity].
  - destruct (x =? 46) eqn:Hx.
    + apply N.eqb_eq in Hx. subst x. split; [constructor|reflexivity].
    + apply N.eqb_neq in Hx. destruct (split_dot s) as [b eo]. destruct IH as [Hb Hs].
      split; [constructor; assumption|]. rewrite Hs at 1. destruct eo; reflexivity.
Qed.

Lemma split_dot_nodot b : Forall (fun c => c <> 46) b -> split_dot b = (b, None).
Proof.
  induction b as [|x b IH]; intros H; cbn [split_dot]; [reflexivity|].
  inversion H as [|? ? Hx Hb]; subst. apply N.eqb_neq in Hx. rewrite Hx, (IH Hb). reflexivity.
Qed.

Lemma split_dot_app b e : Forall (fun c => c <> 46) b -> split_dot (b ++ 46 :: e) = (b, Some e).
Proof.
  induction b as [|x b IH]; intros H; cbn [split_dot app]; [reflexivity|].
  inversion H as [|? ? Hx Hb]; subst. apply N.eqb_neq in Hx. rewrite Hx, (IH Hb). reflexivity.
Qed.

Lemma name_char_nodot l : Forall name_char l -> Forall (fun c => c <> 46) l.
Proof. apply Forall_impl. intros c [_ [_ [_ H]]]. exact H. Qed.

(* ------------------------------------------------------------------ *)
(* item 1                                                              *)
Lemma valid83b_iff s : valid83b s = true <-> valid83 s.
Proof.
  split.
  - intros H. unfold valid83b in H. pose proof (split_dot_spec s) as Hs.
    destruct (split_dot s) as [b eo]. destruct Hs as [_ Hs].
    apply andb_true_iff in H. destruct H as [H He].
    apply andb_true_iff in H. destruct H as [H Hb].
    apply andb_true_iff in H. destruct H as [H1 H8].
    apply Nat.leb_le in H1. apply Nat.leb_le in H8. apply forallb_name in Hb.
    destruct eo as [e|]; subst s.
    + apply andb_true_iff in He. destruct He as [H3 He].
      apply Nat.leb_le in H3. apply forallb_name in He.
      apply v83_ext; [lia|exact H3|exact Hb|exact He].
    + apply v83_base; [lia|exact Hb].
  - intros H. unfold valid83b. destruct H as [base Hl Hb|base ext Hl He Hb Hx].
    + rewrite (split_dot_nodot base (name_char_nodot base Hb)).
      apply forallb_name in Hb. rewrite Hb.
      destruct Hl as [H1 H8]. apply Nat.leb_le in H1. apply Nat.leb_le in H8.
      rewrite H1, H8. reflexivity.
    + rewrite (split_dot_app base ext (name_char_nodot base Hb)).
      apply forallb_name in Hb. apply forallb_name in Hx. rewrite Hb, Hx.
      destruct Hl as [H1 H8]. apply Nat.leb_le in H1. apply Nat.leb_le in H8.
      apply Nat.leb_le in He. rewrite H1, H8, He. reflexivity.
Qed.

(* ------------------------------------------------------------------ *)
(* viable prefixes as loop states                                      *)
Definition okst (b : list N) (eo : option (list N)) : bool :=
  Nat.leb (length b) 8 && forallb name_charb b &&
  match eo with
  | None => true
  | Some e => Nat.leb 1 (length b) && Nat.leb (length e) 3 && forallb name_charb e
  end.

Lemma viableb_okst p : viableb p = let (b, eo) := split_dot p in okst b eo.
Proof.
  destruct p as [|x p]; [reflexivity|].
  unfold viableb, valid83b. cbn [split_dot].
  destruct (x =? 46); [reflexivity|].
  destruct (split_dot p) as [b eo]. unfold okst. cbn [length Nat.leb].
  destruct eo; reflexivity.
Qed.

Lemma okst_inv b eo : okst b eo = true ->
  (length b <= 8)%nat /\ forallb name_charb b = true /\
  match eo with
  | None => True
  | Some e => (1 <= length b)%nat /\ (length e <= 3)%nat /\ forallb name_charb e = true
  end.
Proof.
  unfold okst. intros H.
  apply andb_true_iff in H. destruct H as [H He].
  apply andb_true_iff in H. destruct H as [H8 Hb]. apply Nat.leb_le in H8.
  split; [exact H8|]. split; [exact Hb|].
  destruct eo as [e|]; [|exact I].
  apply andb_true_iff in He. destruct He as [He Hf].
  apply andb_true_iff in He. destruct He as [H1 H3].
  apply Nat.leb_le in H1. apply Nat.leb_le in H3. auto.
Qed.

Lemma okst_intro b eo :
  (length b <= 8)%nat -> forallb name_charb b = true ->
  match eo with
  | None => True
  | Some e => (1 <= length b)%nat /\ (length e <= 3)%nat /\ forallb name_charb e = true
  end -> okst b eo = true.
Proof.
  intros H8 Hb He. unfold okst. apply Nat.leb_le in H8. rewrite H8, Hb. cbn [andb].
  destruct eo as [e|]; [|reflexivity]. destruct He as [H1 [H3 Hf]].
  apply Nat.leb_le in H1. apply Nat.leb_le in H3. rewrite H1, H3, Hf. reflexivity.
Qed.

Definition A_of (b : list N) (eo : option (list N)) : list N :=
  match eo with
  | None => map upper b
  | Some e => pad 8 (map upper b) ++ map upper e
  end.
Definition dot_of (eo : option (list N)) : bool :=
  match eo with None => false | Some _ => true end.

Lemma A_of_length b eo : (length b <= 8)%nat ->
  length (A_of b eo) = match eo with None => length b | Some e => (8 + length e)%nat end.
Proof.
  intros H. destruct eo as [e|]; cbn [A_of].
  - rewrite app_length, pad_length, map_length; [reflexivity|rewrite map_length; exact H].
  - apply map_length.
Qed.

Lemma err_kind_name c : name_charb c = true -> err_kind c = NameTooLong.
Proof. intros H. unfold err_kind. rewrite H. reflexivity. Qed.
Lemma err_kind_other c : name_charb c = false -> (c =? 46) = false -> err_kind c = InvalidCharacter.
Proof. intros H H'. unfold err_kind. rewrite H, H'. reflexivity. Qed.

(* one character read in a viable state *)
Lemma step b eo c r : okst b eo = true ->
  sfn_loop (c :: r) (cont (A_of b eo)) (length (A_of b eo)) (dot_of eo) =
  let (b', eo') := next b eo c in
  if okst b' eo' then sfn_loop r (cont (A_of b' eo')) (length (A_of b' eo')) (dot_of eo')
  else Err (err_kind c).
Proof.
  intros Hok. destruct (okst_inv b eo Hok) as [H8 [Hb He]].
  pose proof (A_of_length b eo H8) as HL.
  destruct (name_charb c) eqn:Hn.
  - (* a name character *)
    destruct (name_charb_facts c Hn) as [F1 F2 F3 F4 _ _ _ _].
    cbn [sfn_loop]. unfold DOT. rewrite F1, F2, F3, F4.
    destruct eo as [e|]; cbn [next dot_of].
    + destruct He as [H1 [H3 Hf]].
      destruct (okst b (Some (e ++ [c]))) eqn:Hok'.
      * destruct (okst_inv _ _ Hok') as [_ [_ [_ [H3' _]]]]. rewrite app_length in H3'. cbn [length] in H3'.
        assert (G1 : Nat.leb 8 (length (A_of b (Some e))) = true) by (apply Nat.leb_le; lia).
        assert (G2 : Nat.ltb (length (A_of b (Some e))) 11 = true) by (apply Nat.ltb_lt; lia).
        rewrite G1, G2. cbn [andb]. rewrite cont_snoc by lia.
        assert (EA : A_of b (Some e) ++ [upper c] = A_of b (Some (e ++ [c]))).
        { cbn [A_of]. rewrite map_app, <- app_assoc. reflexivity. }
        rewrite <- EA, app_length. cbn [length]. rewrite Nat.add_1_r. reflexivity.
      * assert (G2 : Nat.ltb (length (A_of b (Some e))) 11 = false).
        { apply Nat.ltb_ge. destruct (Nat.le_gt_cases 3 (length e)) as [Hge|Hlt]; [lia|].
          exfalso. rewrite okst_intro in Hok'; [discriminate Hok'|exact H8|exact Hb|].
          split; [exact H1|]. split; [rewrite app_length; cbn [length]; lia|].
          rewrite forallb_app, Hf. cbn [forallb]. rewrite Hn. reflexivity. }
        rewrite G2, andb_false_r. rewrite err_kind_name by exact Hn. reflexivity.
    + rewrite F3. destruct (okst (b ++ [c]) None) eqn:Hok'.
      * destruct (okst_inv _ _ Hok') as [H8' _]. rewrite app_length in H8'. cbn [length] in H8'.
        assert (G2 : Nat.ltb (length (A_of b None)) 8 = true) by (apply Nat.ltb_lt; lia).
        rewrite G2. rewrite cont_snoc by lia.
        assert (EA : A_of b None ++ [upper c] = A_of (b ++ [c]) None).
        { cbn [A_of]. rewrite map_app. reflexivity. }
        rewrite <- EA, app_length. cbn [length]. rewrite Nat.add_1_r. reflexivity.
      * assert (G2 : Nat.ltb (length (A_of b None)) 8 = false).
        { apply Nat.ltb_ge. destruct (Nat.le_gt_cases 8 (length b)) as [Hge|Hlt]; [lia|].
          exfalso. rewrite okst_intro in Hok'; [discriminate Hok'| |
            rewrite forallb_app, Hb; cbn [forallb]; rewrite Hn; reflexivity|exact I].
          rewrite app_length. cbn [length]. lia. }
        rewrite G2. rewrite err_kind_name by exact Hn. reflexivity.
  - destruct (c =? 46) eqn:Hd.
    + (* the period *)
      apply N.eqb_eq in Hd. subst c. cbn [sfn_loop]. unfold DOT.
      change (is_invalid_arm 46) with false. change (255 <? 46) with false.
      change (46 =? 46) with true. cbv iota.
      change (err_kind 46) with MisplacedPeriod.
      destruct eo as [e|]; cbn [next dot_of negb andb].
      * assert (Hok' : okst b (Some (e ++ [46])) = false).
        { destruct (okst b (Some (e ++ [46]))) eqn:Hok'; [|reflexivity].
          destruct (okst_inv _ _ Hok') as [_ [_ [_ [_ Hf]]]].
          rewrite forallb_app in Hf. cbn [forallb] in Hf. rewrite name_charb_46 in Hf.
          rewrite andb_false_r in Hf. discriminate Hf. }
        rewrite Hok'. reflexivity.
      * change (46 =? 46) with true. cbv iota.
        destruct (okst b (Some [])) eqn:Hok'.
        -- destruct (okst_inv _ _ Hok') as [_ [_ [H1 _]]].
           assert (G1 : Nat.leb 1 (length (A_of b None)) = true) by (apply Nat.leb_le; lia).
           assert (G2 : Nat.leb (length (A_of b None)) 8 = true) by (apply Nat.leb_le; lia).
           rewrite G1, G2. cbn [andb].
           assert (EA : A_of b (Some []) = pad 8 (A_of b None)).
           { cbn [A_of map]. apply app_nil_r. }
           rewrite EA, cont_pad by lia. rewrite pad_length by lia. reflexivity.
        -- assert (G1 : Nat.leb 1 (length (A_of b None)) = false).
           { apply Nat.leb_gt. destruct (Nat.le_gt_cases 1 (length b)) as [Hge|Hlt]; [|lia].
             exfalso. rewrite okst_intro in Hok'; [discriminate Hok'|exact H8|exact Hb|].
             cbn [length forallb]. split; [exact Hge|]. split; [lia|reflexivity]. }
           rewrite G1. reflexivity.
    + (* neither *)
      assert (HE : sfn_loop (c :: r) (cont (A_of b eo)) (length (A_of b eo)) (dot_of eo)
                   = Err InvalidCharacter).
      { cbn [sfn_loop]. destruct (not_name_invalid c Hn Hd) as [Ha|[Ha Hg]]; rewrite Ha; [reflexivity|].
        rewrite Hg. reflexivity. }
      rewrite HE, (err_kind_other c Hn Hd).
      destruct eo as [e|]; cbn [next]; [|rewrite Hd].
      * assert (Hok' : okst b (Some (e ++ [c])) = false).
        { destruct (okst b (Some (e ++ [c]))) eqn:Hok'; [|reflexivity].
          destruct (okst_inv _ _ Hok') as [_ [_ [_ [_ Hf]]]].
          rewrite forallb_app in Hf. cbn [forallb] in Hf. rewrite Hn in Hf.
          rewrite andb_false_r in Hf. discriminate Hf. }
        rewrite Hok'. reflexivity.
      * assert (Hok' : okst (b ++ [c]) None = false).
        { destruct (okst (b ++ [c]) None) eqn:Hok'; [|reflexivity].
          destruct (okst_inv _ _ Hok') as [_ [Hf _]].
          rewrite forallb_app in Hf. cbn [forallb] in Hf. rewrite Hn in Hf.
          rewrite andb_false_r in Hf. discriminate Hf. }
        rewrite Hok'. reflexivity.
Qed.

(* viable prefixes are prefix closed *)
Lemma okst_next_inv b eo c :
  (let (b', eo') := next b eo c in okst b' eo') = true -> okst b eo = true.
Proof.
  destruct eo as [e|]; cbn [next].
  - intros H. destruct (okst_inv _ _ H) as [H8 [Hb [H1 [H3 Hf]]]].
    rewrite app_length in H3. rewrite forallb_app in Hf. apply andb_true_iff in Hf.
    apply okst_intro; [exact H8|exact Hb|]. split; [exact H1|]. split; [lia|apply Hf].
  - destruct (c =? 46); intros H.
    + destruct (okst_inv _ _ H) as [H8 [Hb _]]. apply okst_intro; [exact H8|exact Hb|exact I].
    + destruct (okst_inv _ _ H) as [H8 [Hb _]].
      rewrite app_length in H8. rewrite forallb_app in Hb. apply andb_true_iff in Hb.
      apply okst_intro; [lia|apply Hb|exact I].
Qed.

Lemma viableb_snoc_inv p c : viableb (p ++ [c]) = true -> viableb p = true.
Proof.
  rewrite !viableb_okst, split_dot_snoc. destruct (split_dot p) as [b eo]. apply okst_next_inv.
Qed.

Lemma viableb_prefix p q : viableb (p ++ q) = true -> viableb p = true.
Proof.
  induction q as [|c q IH] using rev_ind; intros H.
  - rewrite app_nil_r in H. exact H.
  - rewrite app_assoc in H. apply IH. exact (viableb_snoc_inv _ _ H).
Qed.

Lemma app_mid (p : list N) x q : (p ++ [x]) ++ q = p ++ x :: q.
Proof. rewrite <- app_assoc. reflexivity. Qed.

(* first_bad *)
Lemma first_bad_none r : forall p, viableb p = true ->
  (first_bad p r = None <-> viableb (p ++ r) = true).
Proof.
  induction r as [|c r IH]; intros p Hp; cbn [first_bad].
  - rewrite app_nil_r. split; intros _; [exact Hp|reflexivity].
  - replace (p ++ c :: r) with ((p ++ [c]) ++ r) by (rewrite <- app_assoc; reflexivity).
    destruct (viableb (p ++ [c])) eqn:Hc.
    + apply IH. exact Hc.
    + split; intros H; [discriminate H|].
      rewrite (viableb_prefix _ _ H) in Hc. discriminate Hc.
Qed.

Lemma first_bad_some r : forall p c, viableb p = true ->
  (first_bad p r = Some c <->
   exists q r', r = q ++ c :: r' /\ viableb (p ++ q) = true /\ viableb ((p ++ q) ++ [c]) = false).
Proof.
  induction r as [|x r IH]; intros p c Hp; cbn [first_bad].
  - split; [intros H; discriminate H|]. intros [q [r' [H _]]]. destruct q; discriminate H.
  - destruct (viableb (p ++ [x])) eqn:Hx.
    + rewrite (IH (p ++ [x]) c Hx). split.
      * intros [q [r' [H1 [H2 H3]]]]. exists (x :: q), r'. subst r.
        rewrite app_mid in H2, H3.
        split; [reflexivity|]. split; assumption.
      * intros [q [r' [H1 [H2 H3]]]]. destruct q as [|y q].
        -- rewrite app_nil_r in H3. cbn [app] in H1. inversion H1; subst.
           rewrite Hx in H3. discriminate H3.
        -- cbn [app] in H1. inversion H1; subst. exists q, r'.
           rewrite app_mid. split; [reflexivity|]. split; assumption.
    + split.
      * intros H. inversion H; subst. exists [], r. rewrite app_nil_r.
        split; [reflexivity|]. split; assumption.
      * intros [q [r' [H1 [H2 H3]]]]. destruct q as [|y q].
        -- cbn [app] in H1. inversion H1; subst. reflexivity.
        -- cbn [app] in H1. inversion H1; subst.
           replace (p ++ y :: q) with ((p ++ [y]) ++ q) in H2 by (rewrite <- app_assoc; reflexivity).
           rewrite (viableb_prefix _ _ H2) in Hx. discriminate Hx.
Qed.

(* ------------------------------------------------------------------ *)
(* the loop from any viable prefix                                     *)
Definition stA (p : list N) : list N := let (b, eo) := split_dot p in A_of b eo.
Definition std (p : list N) : bool := let (b, eo) := split_dot p in dot_of eo.

Lemma loop_spec r : forall p, viableb p = true ->
  sfn_loop r (cont (stA p)) (length (stA p)) (std p) =
  match first_bad p r with
  | Some c => Err (err_kind c)
  | None => Ok (cont (stA (p ++ r)), length (stA (p ++ r)))
  end.
Proof.
  induction r as [|c r IH]; intros p Hp.
  - rewrite app_nil_r. reflexivity.
  - cbn [first_bad]. pose proof Hp as Hok. rewrite viableb_okst in Hok.
    rewrite (viableb_okst (p ++ [c])).
    pose proof (IH (p ++ [c])) as IH'. rewrite (viableb_okst (p ++ [c])) in IH'.
    unfold stA, std in *. rewrite split_dot_snoc in *.
    destruct (split_dot p) as [b eo].
    rewrite (step b eo c r Hok).
    destruct (next b eo c) as [b' eo']. destruct (okst b' eo') eqn:Hok'; [|reflexivity].
    rewrite (IH' eq_refl).
    replace ((p ++ [c]) ++ r) with (p ++ c :: r) by (rewrite <- app_assoc; reflexivity).
    reflexivity.
Qed.

Lemma cont_A_of b eo : okst b eo = true ->
  cont (A_of b eo) = name_bytes b (match eo with None => [] | Some x => x end).
Proof.
  intros Hok. destruct (okst_inv _ _ Hok) as [H8 [_ He]].
  assert (HL : (length (map upper b) <= 8)%nat) by (rewrite map_length; exact H8).
  unfold name_bytes. destruct eo as [e|]; cbn [A_of].
  - destruct He as [_ [H3 _]]. unfold cont. rewrite app_length, pad_length by exact HL.
    change (pad 3 (map upper e)) with (map upper e ++ repeat 32 (3 - length (map upper e))).
    rewrite <- app_assoc, !map_length. reflexivity.
  - rewrite <- cont_pad by exact HL. unfold cont. rewrite pad_length by exact HL. reflexivity.
Qed.

Lemma special_dec s : {special s} + {~ special s}.
Proof.
  unfold special. destruct s as [|a [|b [|c l]]].
  - left. left. reflexivity.
  - destruct (N.eq_dec a 46) as [->|Ha].
    + left. right. left. reflexivity.
    + right. intros [H|[H|H]]; try discriminate H. inversion H. contradiction.
  - destruct (N.eq_dec a 46) as [->|Ha]; [destruct (N.eq_dec b 46) as [->|Hb]|].
    + left. right. right. reflexivity.
    + right. intros [H|[H|H]]; try discriminate H. inversion H. contradiction.
    + right. intros [H|[H|H]]; try discriminate H. inversion H. contradiction.
  - right. intros [H|[H|H]]; discriminate H.
Qed.

Lemma nonspecial_eqb s : ~ special s ->
  list_eqb s [] = false /\ list_eqb s [46] = false /\ list_eqb s [46; 46] = false.
Proof.
  intros Hs. unfold special in Hs.
  repeat split; apply not_true_iff_false; intros H; apply list_eqb_eq in H; tauto.
Qed.

Lemma viableb_valid83b s : s <> [] -> viableb s = valid83b s.
Proof. destruct s; [intros H; contradiction H; reflexivity|reflexivity]. Qed.

Lemma valid83b_viableb s : valid83b s = true -> viableb s = true.
Proof. destruct s; [reflexivity|intros H; exact H]. Qed.

Lemma viable_iff p : viableb p = true <-> viable p.
Proof.
  unfold viable. destruct p as [|x p].
  - split; [left|]; reflexivity.
  - cbn [viableb]. rewrite valid83b_iff. split; [right; assumption|].
    intros [H|H]; [discriminate H|exact H].
Qed.

(* the parser on every text that is not one of the three special names *)
Lemma create_nonspecial s : ~ special s ->
  create_from_str s = match first_bad [] s with
                      | Some c => Err (err_kind c)
                      | None => Ok (bytes_spec s)
                      end.
Proof.
  intros Hs. destruct (nonspecial_eqb s Hs) as [E0 [E1 E2]].
  unfold create_from_str, DOT. rewrite E0, E1, E2. cbn [orb].
  pose proof (loop_spec s [] eq_refl) as H.
  change (cont (stA [])) with (repeat SPACE 11) in H.
  change (length (stA [])) with 0%nat in H. change (std []) with false in H.
  cbn [app] in H. rewrite H.
  destruct (first_bad [] s) eqn:Hfb; [reflexivity|].
  apply (first_bad_none s [] eq_refl) in Hfb. cbn [app] in Hfb.
  assert (Hne : s <> []) by (intros ->; apply Hs; left; reflexivity).
  pose proof Hfb as Hv. rewrite (viableb_valid83b s Hne) in Hv.
  rewrite viableb_okst in Hfb. unfold stA, bytes_spec. unfold valid83b in Hv.
  destruct (split_dot s) as [b eo].
  destruct (okst_inv _ _ Hfb) as [H8 _].
  rewrite (A_of_length b eo H8), (cont_A_of b eo Hfb).
  apply andb_true_iff in Hv. destruct Hv as [Hv _].
  apply andb_true_iff in Hv. destruct Hv as [Hv _].
  apply andb_true_iff in Hv. destruct Hv as [Hv _]. apply Nat.leb_le in Hv.
  assert (G : Nat.eqb (match eo with None => length b | Some e => (8 + length e)%nat end) 0 = false).
  { apply Nat.eqb_neq. destruct eo; lia. }
  rewrite G. reflexivity.
Qed.

Lemma first_bad_valid s : s <> [] -> (first_bad [] s = None <-> valid83b s = true).
Proof.
  intros Hne. rewrite (first_bad_none s [] eq_refl). cbn [app].
  rewrite (viableb_valid83b s Hne). tauto.
Qed.

(* ------------------------------------------------------------------ *)
(* item 2                                                              *)
Theorem sfn_model_spec : forall s, create_from_str s = spec_sfn s.
Proof.
  intros s. destruct (special_dec s) as [Hs|Hs].
  - destruct Hs as [->|[->| ->]]; reflexivity.
  - rewrite (create_nonspecial s Hs). unfold spec_sfn.
    destruct (nonspecial_eqb s Hs) as [E0 [E1 E2]]. rewrite E0, E1, E2. cbn [orb].
    assert (Hne : s <> []) by (intros ->; apply Hs; left; reflexivity).
    pose proof (first_bad_valid s Hne) as Hfv.
    destruct (valid83b s).
    + rewrite (proj2 Hfv eq_refl). reflexivity.
    + destruct (first_bad [] s); [reflexivity|].
      pose proof (proj1 Hfv eq_refl) as Hx. discriminate Hx.
Qed.

(* item 3 *)
Theorem sfn_accepts : forall s, ~ special s ->
  ((exists n, create_from_str s = Ok n) <-> valid83 s).
Proof.
  intros s Hs. rewrite (create_nonspecial s Hs), <- valid83b_iff.
  assert (Hne : s <> []) by (intros ->; apply Hs; left; reflexivity).
  rewrite <- (first_bad_valid s Hne).
  destruct (first_bad [] s) as [c|].
  - split; [intros [m H]; discriminate H|intros H; discriminate H].
  - split; [reflexivity|]. intros _. eexists. reflexivity.
Qed.

Lemma valid83_not_special s : valid83 s -> ~ special s.
Proof.
  intros H Hs. apply valid83b_iff in H. destruct Hs as [->|[->| ->]]; discriminate H.
Qed.

Lemma create_valid s : valid83 s -> create_from_str s = Ok (bytes_spec s).
Proof.
  intros H. pose proof (valid83_not_special s H) as Hs.
  rewrite (create_nonspecial s Hs).
  assert (Hne : s <> []) by (intros ->; apply Hs; left; reflexivity).
  apply valid83b_iff in H. apply (first_bad_valid s Hne) in H. rewrite H. reflexivity.
Qed.

(* item 4 *)
Theorem sfn_bytes_base : forall base, (1 <= length base <= 8)%nat -> Forall name_char base ->
  create_from_str base = Ok (name_bytes base []).
Proof.
  intros base Hl Hb. rewrite (create_valid base (v83_base base Hl Hb)).
  unfold bytes_spec. rewrite (split_dot_nodot base (name_char_nodot base Hb)). reflexivity.
Qed.

Theorem sfn_bytes_ext : forall base ext, (1 <= length base <= 8)%nat -> (length ext <= 3)%nat ->
  Forall name_char base -> Forall name_char ext ->
  create_from_str (base ++ 46 :: ext) = Ok (name_bytes base ext).
Proof.
  intros base ext Hl He Hb Hx. rewrite (create_valid _ (v83_ext base ext Hl He Hb Hx)).
  unfold bytes_spec. rewrite (split_dot_app base ext (name_char_nodot base Hb)). reflexivity.
Qed.

(* item 5 *)
Theorem sfn_error : forall s k, ~ special s ->
  (create_from_str s = Err k <->
   exists p c r, s = p ++ c :: r /\ viable p /\ ~ viable (p ++ [c]) /\ k = err_kind c).
Proof.
  intros s k Hs. rewrite (create_nonspecial s Hs). split.
  - destruct (first_bad [] s) as [c|] eqn:Hfb; [|intros H; discriminate H].
    intros H. inversion H; subst k.
    apply (first_bad_some s [] c eq_refl) in Hfb. destruct Hfb as [q [r' [H1 [H2 H3]]]].
    cbn [app] in H2, H3. exists q, c, r'. split; [exact H1|].
    split; [apply viable_iff; exact H2|]. split; [|reflexivity].
    intros Hv. apply viable_iff in Hv. rewrite Hv in H3. discriminate H3.
  - intros [p [c [r [H1 [H2 [H3 H4]]]]]].
    assert (Hfb : first_bad [] s = Some c).
    { apply (first_bad_some s [] c eq_refl). exists p, r. cbn [app].
      split; [exact H1|]. split; [apply viable_iff; exact H2|].
      apply not_true_iff_false. intros Hv. apply H3. apply viable_iff. exact Hv. }
    rewrite Hfb, H4. reflexivity.
Qed.

(* item 6 *)
Theorem sfn_error_kinds : forall s k, create_from_str s = Err k ->
  k = InvalidCharacter \/ k = NameTooLong \/ k = MisplacedPeriod.
Proof.
  intros s k H. destruct (special_dec s) as [Hs|Hs].
  - destruct Hs as [->|[->| ->]]; discriminate H.
  - rewrite (create_nonspecial s Hs) in H.
    destruct (first_bad [] s) as [c|]; [|discriminate H].
    inversion H. unfold err_kind.
    destruct (name_charb c); [right; left; reflexivity|].
    destruct (c =? 46); [right; right; reflexivity|left; reflexivity].
Qed.

(* item 7 *)
Theorem sfn_specials :
  create_from_str [] = Ok this_dir /\ create_from_str [46] = Ok this_dir /\
  create_from_str [46; 46] = Ok parent_dir.
Proof. repeat split. Qed.

(* ------------------------------------------------------------------ *)
(* Display                                                             *)
Lemma display_loop_app a : forall i b,
  display_loop i (a ++ b) = display_loop i a ++ display_loop (i + length a) b.
Proof.
  induction a as [|x a IH]; intros i b; cbn [display_loop app length].
  - rewrite Nat.add_0_r. reflexivity.
  - rewrite IH, <- app_assoc. replace (S i + length a)%nat with (i + S (length a))%nat by lia.
    reflexivity.
Qed.

Lemma display_loop_spaces k : forall i, display_loop i (repeat 32 k) = [].
Proof.
  induction k as [|k IH]; intros i; cbn [repeat display_loop]; [reflexivity|].
  unfold SPACE. change (32 =? 32) with true. cbv iota. rewrite IH. reflexivity.
Qed.

Lemma display_loop_plain l : forall i, Forall (fun c => c <> 32) l ->
  (i + length l <= 8 \/ 8 < i)%nat -> display_loop i l = l.
Proof.
  induction l as [|x l IH]; intros i Hl Hi; cbn [display_loop]; [reflexivity|].
  inversion Hl as [|? ? Hx Hl']; subst. cbn [length] in Hi.
  unfold SPACE. apply N.eqb_neq in Hx. rewrite Hx.
  assert (G : Nat.eqb i 8 = false) by (apply Nat.eqb_neq; lia).
  rewrite G. cbn [app]. rewrite IH; [reflexivity|exact Hl'|lia].
Qed.

Lemma upper_facts l : Forall name_char l ->
  Forall (fun c => c <> 32) (map upper l) /\ Forall name_char (map upper l) /\
  map upper (map upper l) = map upper l /\ Forall (fun b => b < 256) (map upper l).
Proof.
  induction 1 as [|x l Hx Hl IH]; cbn [map].
  - repeat split; constructor.
  - destruct IH as [I1 [I2 [I3 I4]]]. apply name_charb_iff in Hx.
    destruct (name_charb_facts x Hx) as [_ _ _ _ F5 F6 F7 F8].
    apply name_charb_iff in F5.
    split; [constructor; assumption|]. split; [constructor; assumption|].
    split; [rewrite F6, I3; reflexivity|constructor; assumption].
Qed.

(* item 8 *)
Theorem sfn_display : forall base ext, (1 <= length base <= 8)%nat -> (length ext <= 3)%nat ->
  Forall name_char base -> Forall name_char ext ->
  display (name_bytes base ext) = display_spec base ext.
Proof.
  intros base ext Hl He Hb Hx.
  destruct (upper_facts base Hb) as [B1 _]. destruct (upper_facts ext Hx) as [X1 _].
  assert (HL : (length (map upper base) <= 8)%nat) by (rewrite map_length; lia).
  unfold display, name_bytes, display_spec.
  rewrite display_loop_app, (pad_length 8 _ HL). unfold pad.
  rewrite !display_loop_app, !display_loop_spaces, !app_nil_r.
  rewrite (display_loop_plain (map upper base)) by (try exact B1; left; cbn [Nat.add]; exact HL).
  f_equal. cbn [Nat.add].
  destruct ext as [|x ext]; [reflexivity|].
  cbn [map] in *. inversion X1 as [|? ? Hx1 Hx2]; subst.
  cbn [display_loop]. unfold SPACE, DOT. apply N.eqb_neq in Hx1. rewrite Hx1.
  change (Nat.eqb 8 8) with true. cbv iota. cbn [app].
  rewrite (display_loop_plain (map upper ext)); [reflexivity|exact Hx2|right; lia].
Qed.

Lemma create_ok_inv s n : create_from_str s = Ok n ->
  special s \/
  exists base ext, (1 <= length base <= 8)%nat /\ (length ext <= 3)%nat /\
                   Forall name_char base /\ Forall name_char ext /\ n = name_bytes base ext.
Proof.
  intros H. destruct (special_dec s) as [Hs|Hs]; [left; exact Hs|right].
  assert (Hv : valid83 s) by (apply (sfn_accepts s Hs); exists n; exact H).
  destruct Hv as [base Hl Hb|base ext Hl He Hb Hx].
  - rewrite (sfn_bytes_base base Hl Hb) in H. inversion H; subst n.
    exists base, []. split; [exact Hl|]. split; [cbn [length]; lia|].
    split; [exact Hb|]. split; [constructor|reflexivity].
  - rewrite (sfn_bytes_ext base ext Hl He Hb Hx) in H. inversion H; subst n.
    exists base, ext. split; [exact Hl|]. split; [exact He|].
    split; [exact Hb|]. split; [exact Hx|reflexivity].
Qed.

(* item 9 *)
Theorem sfn_print_parse : forall s n, create_from_str s = Ok n -> create_from_str (display n) = Ok n.
Proof.
  intros s n H. destruct (create_ok_inv s n H) as [Hs|[base [ext [Hl [He [Hb [Hx Hn]]]]]]].
  - destruct Hs as [->|[->| ->]]; inversion H; subst n; vm_compute; reflexivity.
  - subst n. rewrite (sfn_display base ext Hl He Hb Hx).
    destruct (upper_facts base Hb) as [_ [B2 [B3 _]]].
    destruct (upper_facts ext Hx) as [_ [X2 [X3 _]]].
    assert (Hl' : (1 <= length (map upper base) <= 8)%nat) by (rewrite map_length; exact Hl).
    assert (He' : (length (map upper ext) <= 3)%nat) by (rewrite map_length; exact He).
    unfold display_spec. destruct ext as [|x ext].
    + rewrite app_nil_r, (sfn_bytes_base _ Hl' B2). unfold name_bytes. rewrite B3. reflexivity.
    + rewrite (sfn_bytes_ext _ _ Hl' He' B2 X2). unfold name_bytes. rewrite B3, X3. reflexivity.
Qed.

Lemma Forall_repeat_byte k : Forall (fun b => b < 256) (repeat 32 k).
Proof. induction k as [|k IH]; cbn [repeat]; constructor; [reflexivity|exact IH]. Qed.

(* item 10 *)
Theorem sfn_result_shape : forall s n, create_from_str s = Ok n ->
  length n = 11%nat /\ Forall (fun b => b < 256) n.
Proof.
  intros s n H. destruct (create_ok_inv s n H) as [Hs|[base [ext [Hl [He [Hb [Hx Hn]]]]]]].
  - destruct Hs as [->|[->| ->]]; inversion H; subst n;
      (split; [reflexivity|repeat (constructor; [reflexivity|]); constructor]).
  - subst n. destruct (upper_facts base Hb) as [_ [_ [_ B4]]].
    destruct (upper_facts ext Hx) as [_ [_ [_ X4]]].
    unfold name_bytes. split.
    + rewrite app_length, !pad_length by (rewrite map_length; lia). reflexivity.
    + unfold pad. repeat (apply Forall_app; split); try assumption; apply Forall_repeat_byte.
Qed.

(* a valid name whose first character is U+00E5 is stored with first byte 0xE5, the
   marker of a deleted slot (FAT stores 0x05 instead; the code has no such substitution) *)
Theorem sfn_e5_first_byte :
  exists s n, valid83 s /\ create_from_str s = Ok n /\ hd 0 n = 229.
Proof.
  exists [229; 66], (name_bytes [229; 66] []). split; [|split].
  - apply v83_base; [cbn [length]; lia|].
    repeat (apply Forall_cons; [apply name_charb_iff; vm_compute; reflexivity|]). apply Forall_nil.
  - vm_compute. reflexivity.
  - vm_compute. reflexivity.
Qed.

(* the first byte of a parsed non-special name is the upper-cased first character: never 0x00 or 0x20 *)
Theorem sfn_first_byte : forall s n, ~ special s -> create_from_str s = Ok n ->
  hd 0 n <> 0 /\ hd 0 n <> 32.
Proof.
  intros s n Hs H. destruct (create_ok_inv s n H) as [Hsp|[base [ext [Hl [He [Hb [Hx Hn]]]]]]]; [contradiction|].
  subst n. destruct base as [|c base]; [cbn [length] in Hl; lia|].
  unfold name_bytes, pad. cbn [map app hd].
  apply Forall_inv in Hb. apply name_charb_iff in Hb. apply name_charb_facts in Hb.
  destruct Hb as [_ _ _ _ Hn _ _ _]. apply name_charb_iff in Hn. destruct Hn as (_ & Hgt & _).
  split; intro E; rewrite E in Hgt; lia.
Qed.
