(* Proofs about the directory-entry codec: DirEntry::serialize writes the FAT
   layout, OnDiskDirEntry::get_entry reads it, and the round trip. *)
From Coq Require Import NArith List Bool Lia ZArith ZifyClasses ZifyInst Zify.
From SdCodec Require Import CodecModel CodecSpec TimeProofs TimeProofs2.
Import ListNotations.
Open Scope N_scope.
Ltac Zify.zify_post_hook ::= Z.to_euclidean_division_equations.
Arguments N.add : simpl never.
Arguments N.sub : simpl never.
Arguments N.mul : simpl never.
Arguments N.div : simpl never.
Arguments N.modulo : simpl never.
Arguments N.land : simpl never.
Arguments N.lor : simpl never.
Arguments N.shiftl : simpl never.
Arguments N.shiftr : simpl never.
Arguments N.pow : simpl never.

(* ---- finite sweeps carry an N counter *)
Fixpoint all_from (fuel : nat) (x : N) (p : N -> bool) : bool :=
  match fuel with
  | O => true
  | S f => p x && all_from f (N.succ x) p
  end.
Lemma all_from_spec fuel p : forall x, all_from fuel x p = true ->
  forall y, x <= y < x + N.of_nat fuel -> p y = true.
Proof.
  induction fuel as [|f IH]; intros x H y Hy; [lia|].
  cbn [all_from] in H. apply andb_true_iff in H. destruct H as [Hx Hr].
  destruct (N.eq_dec y x) as [->|Hne]; [exact Hx|].
  apply (IH (N.succ x) Hr). lia.
Qed.
Lemma sweep (bound : N) (p : N -> bool) :
  all_from (N.to_nat bound) 0 p = true -> forall y, y < bound -> p y = true.
Proof. intros H y Hy. apply (all_from_spec _ _ 0 H). lia. Qed.

(* ---- attributes: all 256 bytes *)
Lemma attr_directory_eq a : a < 256 -> is_directory a = attr_directory a.
Proof.
  intros Ha. apply eqb_true_iff.
  apply (sweep 256 (fun a => Bool.eqb (is_directory a) (attr_directory a))); [|exact Ha].
  vm_compute. reflexivity.
Qed.
Lemma attr_lfn_eq a : a < 256 -> attr_is_lfn a = attr_lfn a.
Proof.
  intros Ha. apply eqb_true_iff.
  apply (sweep 256 (fun a => Bool.eqb (attr_is_lfn a) (attr_lfn a))); [|exact Ha].
  vm_compute. reflexivity.
Qed.

(* ---- cluster halves *)
Lemma cluster_hi_spec cl : cl < 4294967296 ->
  u16 (N.land (N.shiftr cl 16) 65535) = (cl / 65536) mod 65536.
Proof.
  intros H. rewrite u16_mod. change 65535 with (N.ones 16). rewrite N.land_ones, N.shiftr_div_pow2.
  change (2 ^ 16) with 65536. lia.
Qed.
Lemma cluster_lo_spec cl : u16 (N.land cl 65535) = cl mod 65536.
Proof.
  rewrite u16_mod. change 65535 with (N.ones 16). rewrite N.land_ones. change (2 ^ 16) with 65536. lia.
Qed.

(* ---- reading little-endian numbers *)
Lemma lor_shift8 a b : a < 256 -> N.lor a (N.shiftl b 8) = a + 256 * b.
Proof.
  intros Ha. rewrite N.shiftl_mul_pow2, N.lor_comm, lor_add by exact Ha. change (2 ^ 8) with 256. lia.
Qed.
Lemma lor_bytes4 a b c d : a < 256 -> b < 256 -> c < 256 -> d < 256 ->
  N.lor (N.lor a (N.shiftl b 8)) (N.lor (N.shiftl c 16) (N.shiftl d 24))
  = a + 256 * b + 65536 * c + 16777216 * d.
Proof.
  intros Ha Hb Hc Hd. rewrite lor_shift8 by exact Ha.
  rewrite !N.shiftl_mul_pow2.
  rewrite (N.lor_comm (c * 2 ^ 16)), (lor_add d (c * 2 ^ 16) 24) by (change (2 ^ 16) with 65536; change (2 ^ 24) with 16777216; lia).
  rewrite N.lor_comm.
  replace (d * 2 ^ 24 + c * 2 ^ 16) with ((d * 256 + c) * 2 ^ 16) by (change (2 ^ 16) with 65536; change (2 ^ 24) with 16777216; lia).
  rewrite lor_add by (change (2 ^ 16) with 65536; lia).
  change (2 ^ 16) with 65536. lia.
Qed.

Lemma nth_byte d i : bytes d -> nth i d 0 < 256.
Proof.
  intros H. revert i. induction H as [|x l Hx _ IH]; intros [|i]; cbn [nth]; try lia.
  - exact Hx.
  - apply IH.
Qed.

Lemma val16_lt d off : bytes d -> val16 d off < 65536.
Proof.
  intros H. unfold val16. pose proof (nth_byte d off H). pose proof (nth_byte d (off + 1) H). lia.
Qed.

Lemma read_u16_spec d off : bytes d ->
  read_u16 d off = if Nat.leb (off + 2) (length d) then Val (val16 d off) else Panic.
Proof.
  intros H. unfold read_u16, val16. destruct (Nat.leb _ _); [|reflexivity].
  rewrite lor_shift8 by (apply nth_byte; exact H). reflexivity.
Qed.
Lemma read_u32_spec d off : bytes d ->
  read_u32 d off = if Nat.leb (off + 4) (length d) then Val (val32 d off) else Panic.
Proof.
  intros H. unfold read_u32, val32. destruct (Nat.leb _ _); [|reflexivity].
  rewrite lor_bytes4 by (apply nth_byte; exact H). reflexivity.
Qed.

(* ---- get_entry in arithmetic *)
Theorem get_entry_spec d ft blk off : bytes d ->
  get_entry d ft blk off = spec_get_entry d ft blk off.
Proof.
  intros Hb. unfold get_entry, spec_get_entry, raw_attr, write_date, write_time, create_date, create_time,
    file_size, first_cluster_fat32, first_cluster_fat16, first_cluster_hi, first_cluster_lo, read_u8.
  rewrite !read_u16_spec, read_u32_spec by exact Hb.
  destruct (Nat.ltb_spec (length d) 32) as [Hl|Hl].
  - (* too short: some read panics *)
    destruct (Nat.ltb_spec 11 (length d)); [|reflexivity]. cbn [bind].
    destruct (Nat.leb_spec (24 + 2) (length d)); [|reflexivity]. cbn [bind].
    destruct (Nat.leb_spec (22 + 2) (length d)); [|reflexivity]. cbn [bind].
    destruct (Nat.leb_spec (16 + 2) (length d)); [|reflexivity]. cbn [bind].
    destruct (Nat.leb_spec (14 + 2) (length d)); [|reflexivity]. cbn [bind].
    destruct (Nat.leb_spec (28 + 4) (length d)); [lia|].
    destruct ft; cbn [bind].
    + destruct (Nat.leb_spec (26 + 2) (length d)); reflexivity.
    + destruct (Nat.leb_spec (20 + 2) (length d)); [|reflexivity]. cbn [bind].
      destruct (Nat.leb_spec (26 + 2) (length d)); reflexivity.
  - replace (Nat.ltb 11 (length d)) with true by (symmetry; apply Nat.ltb_lt; lia).
    replace (Nat.leb (24 + 2) (length d)) with true by (symmetry; apply Nat.leb_le; lia).
    replace (Nat.leb (22 + 2) (length d)) with true by (symmetry; apply Nat.leb_le; lia).
    replace (Nat.leb (16 + 2) (length d)) with true by (symmetry; apply Nat.leb_le; lia).
    replace (Nat.leb (14 + 2) (length d)) with true by (symmetry; apply Nat.leb_le; lia).
    replace (Nat.leb (20 + 2) (length d)) with true by (symmetry; apply Nat.leb_le; lia).
    replace (Nat.leb (26 + 2) (length d)) with true by (symmetry; apply Nat.leb_le; lia).
    replace (Nat.leb (28 + 4) (length d)) with true by (symmetry; apply Nat.leb_le; lia).
    replace (Nat.leb 11 (length d)) with true by (symmetry; apply Nat.leb_le; lia).
    cbn [bind].
    rewrite !from_fat_spec by (apply val16_lt; exact Hb).
    pose proof (nth_byte d 11 Hb) as Hattr.
    destruct ft; cbn [bind]; unfold cluster_alias, CLUSTER_EMPTY; rewrite attr_directory_eq by exact Hattr.
    + reflexivity.
    + rewrite u32_mod, N.shiftl_mul_pow2. change (2 ^ 16) with 65536.
      pose proof (val16_lt d 20 Hb) as H20. pose proof (val16_lt d 26 Hb) as H26.
      rewrite N.mod_small by lia.
      assert (E : N.lor (val16 d 20 * 65536) (val16 d 26) = val16 d 20 * 65536 + val16 d 26)
        by (apply (lor_add (val16 d 20) (val16 d 26) 16); exact H26).
      rewrite E. reflexivity.
Qed.

(* ---- serialize writes the layout *)
Ltac list11 l :=
  do 11 (destruct l as [|? l]; [discriminate|]); destruct l; [|discriminate].

Theorem serialize_spec e ft : entry_wf e -> serialize e ft = spec_serialize e ft.
Proof.
  destruct e as [nm mt ct attr cl sz eb eo]. unfold entry_wf.
  cbn [name mtime ctime attributes cluster size].
  intros (Hlen & Hnb & Hm & Hc & Ha & Hcl & Hsz).
  unfold serialize, spec_serialize. cbn [name mtime ctime attributes cluster size].
  rewrite !serialize_to_fat_spec by assumption. unfold spec_serialize_to_fat.
  destruct (spec_fat_date ct) as [cd|]; cbn [bind]; [|reflexivity].
  destruct (spec_fat_date mt) as [md|]; cbn [bind]; [|reflexivity].
  rewrite !le32_spec, cluster_lo_spec, !le16_spec.
  destruct ft; [|rewrite cluster_hi_spec by exact Hcl].
  all: list11 nm.
  all: unfold layout, cluster_lo_field, cluster_hi_field, spec_le16, spec_le32.
  all: cbn [copy_at firstn skipn app length repeat Nat.add]; reflexivity.
Qed.

(* ---- the offsets of the layout *)
Lemma le16_val v : v < 65536 -> v mod 256 + 256 * ((v / 256) mod 256) = v.
Proof. lia. Qed.
Lemma le32_val v : v < 4294967296 ->
  v mod 256 + 256 * ((v / 256) mod 256) + 65536 * ((v / 65536) mod 256) + 16777216 * ((v / 16777216) mod 256) = v.
Proof. lia. Qed.

Theorem layout_offsets nm attr ct cd hi mt md lo sz :
  length nm = 11%nat -> ct < 65536 -> cd < 65536 -> hi < 65536 -> mt < 65536 -> md < 65536 -> lo < 65536 ->
  sz < 4294967296 ->
  let b := layout nm attr ct cd hi mt md lo sz in
  length b = 32%nat /\ firstn 11 b = nm /\ nth 11 b 0 = attr /\ nth 12 b 0 = 0 /\ nth 13 b 0 = 0 /\
  val16 b 14 = ct /\ val16 b 16 = cd /\ nth 18 b 0 = 0 /\ nth 19 b 0 = 0 /\ val16 b 20 = hi /\
  val16 b 22 = mt /\ val16 b 24 = md /\ val16 b 26 = lo /\ val32 b 28 = sz.
Proof.
  intros Hlen Hct Hcd Hhi Hmt Hmd Hlo Hsz. list11 nm.
  unfold layout, spec_le16, spec_le32, val16, val32. cbn [app length firstn nth Nat.add].
  repeat split; try reflexivity; try (apply le16_val; assumption). apply le32_val; assumption.
Qed.

Lemma layout_bytes nm attr ct cd hi mt md lo sz : bytes nm -> attr < 256 ->
  bytes (layout nm attr ct cd hi mt md lo sz).
Proof.
  intros Hn Ha. unfold layout, bytes, spec_le16, spec_le32.
  apply Forall_app. split; [exact Hn|].
  repeat (apply Forall_cons; [unfold is_byte; lia|]). apply Forall_nil.
Qed.

Lemma cluster_field_join ft cl : cl < 4294967296 ->
  match ft with
  | Fat16 => cluster_lo_field cl
  | Fat32 => cluster_hi_field Fat32 cl * 65536 + cluster_lo_field cl
  end = stored_cluster ft cl.
Proof. intros H. destruct ft; unfold cluster_lo_field, cluster_hi_field, stored_cluster; lia. Qed.

(* position-independent part of an entry: a reader supplies block and offset *)
Definition with_pos (e : DirEntry) (blk off : N) : DirEntry :=
  mkDirEntry (name e) (mtime e) (ctime e) (attributes e) (cluster e) (size e) blk off.

Theorem entry_roundtrip_general e ft blk off b : entry_wf e -> serialize e ft = Val b ->
  exists cd md, spec_fat_date (ctime e) = Val cd /\ spec_fat_date (mtime e) = Val md /\
    b = layout (name e) (attributes e) (spec_fat_time (ctime e)) cd (cluster_hi_field ft (cluster e))
               (spec_fat_time (mtime e)) md (cluster_lo_field (cluster e)) (size e) /\
    get_entry b ft blk off =
      Val (entry_readback e ft blk off (from_fat cd (spec_fat_time (ctime e)))
                                        (from_fat md (spec_fat_time (mtime e)))).
Proof.
  intros Hwf Hs. pose proof Hwf as (Hlen & Hnb & Hm & Hc & Ha & Hcl & Hsz).
  rewrite serialize_spec in Hs by exact Hwf. unfold spec_serialize in Hs.
  destruct (spec_fat_date (ctime e)) as [cd|] eqn:Ecd; [|discriminate].
  destruct (spec_fat_date (mtime e)) as [md|] eqn:Emd; [|discriminate].
  injection Hs as Hs. exists cd, md. split; [reflexivity|]. split; [reflexivity|]. split; [symmetry; exact Hs|].
  pose proof (spec_fat_date_lt _ _ Ecd) as Hcdl. pose proof (spec_fat_date_lt _ _ Emd) as Hmdl.
  pose proof (spec_fat_time_lt (ctime e)) as Hctl. pose proof (spec_fat_time_lt (mtime e)) as Hmtl.
  assert (Hhil : cluster_hi_field ft (cluster e) < 65536) by (destruct ft; unfold cluster_hi_field; lia).
  assert (Hlol : cluster_lo_field (cluster e) < 65536) by (unfold cluster_lo_field; lia).
  destruct (layout_offsets (name e) (attributes e) (spec_fat_time (ctime e)) cd (cluster_hi_field ft (cluster e))
              (spec_fat_time (mtime e)) md (cluster_lo_field (cluster e)) (size e)
              Hlen Hctl Hcdl Hhil Hmtl Hmdl Hlol Hsz)
    as (L & Lnm & Lat & _ & _ & Lct & Lcd & _ & _ & Lhi & Lmt & Lmd & Llo & Lsz).
  rewrite Hs in L, Lnm, Lat, Lct, Lcd, Lhi, Lmt, Lmd, Llo, Lsz.
  rewrite get_entry_spec by (rewrite <- Hs; apply layout_bytes; assumption).
  unfold spec_get_entry. rewrite L. cbn [Nat.ltb Nat.leb].
  rewrite Lnm, Lat, Lct, Lcd, Lhi, Lmt, Lmd, Llo, Lsz.
  rewrite !from_fat_spec by assumption.
  unfold entry_readback. f_equal. f_equal.
  rewrite <- (cluster_field_join ft (cluster e) Hcl). destruct ft; reflexivity.
Qed.

(* the clean round trip: representable timestamps, cluster within the stored width, not the alias *)
Theorem entry_roundtrip e ft blk off : entry_wf e ->
  ts_representable (ctime e) -> ts_representable (mtime e) ->
  (ft = Fat16 -> cluster e < 65536) ->
  ~ (cluster e = 0 /\ attr_directory (attributes e) = true) ->
  exists b, serialize e ft = Val b /\ length b = 32%nat /\ get_entry b ft blk off = Val (with_pos e blk off).
Proof.
  intros Hwf Hrc Hrm Hft Hal. pose proof Hwf as (Hlen & Hnb & Hm & Hc & Ha & Hcl & Hsz).
  destruct (serialize e ft) as [b|] eqn:Es.
  2:{ exfalso. rewrite serialize_spec in Es by exact Hwf. unfold spec_serialize, spec_fat_date in Es.
      destruct Hrc as (_ & Hc1 & Hc2 & _). destruct Hrm as (_ & Hm1 & Hm2 & _).
      replace (255 <=? zero_indexed_month (ctime e)) with false in Es by (symmetry; apply N.leb_gt; lia).
      replace (255 <=? zero_indexed_day (ctime e)) with false in Es by (symmetry; apply N.leb_gt; lia).
      replace (255 <=? zero_indexed_month (mtime e)) with false in Es by (symmetry; apply N.leb_gt; lia).
      replace (255 <=? zero_indexed_day (mtime e)) with false in Es by (symmetry; apply N.leb_gt; lia).
      discriminate. }
  exists b. split; [reflexivity|].
  destruct (entry_roundtrip_general e ft blk off b Hwf Es) as (cd & md & Ecd & Emd & Hb & Hg).
  split.
  { rewrite Hb. apply layout_offsets; try assumption.
    - apply spec_fat_time_lt. - eapply spec_fat_date_lt; eassumption.
    - destruct ft; unfold cluster_hi_field; lia. - apply spec_fat_time_lt.
    - eapply spec_fat_date_lt; eassumption. - unfold cluster_lo_field; lia. }
  rewrite Hg. f_equal. unfold entry_readback, with_pos.
  pose proof (spec_fat_date_lt _ _ Ecd) as Hcdl. pose proof (spec_fat_date_lt _ _ Emd) as Hmdl.
  rewrite !from_fat_spec by (try assumption; apply spec_fat_time_lt).
  rewrite (proj2 (enc_dec_fields (ctime e) cd Hc Ecd) Hrc).
  rewrite (proj2 (enc_dec_fields (mtime e) md Hm Emd) Hrm).
  assert (Est : stored_cluster ft (cluster e) = cluster e).
  { destruct ft; unfold stored_cluster; [|reflexivity]. rewrite N.mod_small; [reflexivity|]. apply Hft. reflexivity. }
  rewrite Est. unfold cluster_alias.
  destruct (N.eqb_spec (cluster e) 0) as [E0|E0]; [|reflexivity].
  destruct (attr_directory (attributes e)) eqn:Ed; [|reflexivity].
  exfalso. apply Hal. split; [exact E0|reflexivity].
Qed.

(* the alias: a stored cluster number 0 on an entry with the directory bit reads back as the root marker *)
Theorem entry_alias e ft blk off b : entry_wf e -> serialize e ft = Val b ->
  stored_cluster ft (cluster e) = 0 -> attr_directory (attributes e) = true ->
  exists e', get_entry b ft blk off = Val e' /\ cluster e' = CLUSTER_ROOT_DIR /\ cluster e' <> cluster e.
Proof.
  intros Hwf Hs H0 Hd. destruct (entry_roundtrip_general e ft blk off b Hwf Hs) as (cd & md & _ & _ & _ & Hg).
  eexists. split; [exact Hg|]. unfold entry_readback. cbn [cluster]. unfold cluster_alias. rewrite H0, Hd.
  cbn [N.eqb andb]. split; [reflexivity|].
  destruct Hwf as (_ & _ & _ & _ & _ & Hcl & _). unfold CLUSTER_ROOT_DIR.
  destruct ft; unfold stored_cluster in H0; lia.
Qed.

(* slot flags on a serialized entry *)
Lemma serialized_flags3 e ft b : entry_wf e -> serialize e ft = Val b ->
  is_end b = Val (hd 0 (name e) =? 0) /\
  is_valid b = Val (negb (hd 0 (name e) =? 0) && negb (hd 0 (name e) =? 229)) /\
  is_lfn b = Val (attr_lfn (attributes e)) /\
  (forall sfn, (if Nat.leb 11 (length b) then Val (list_eqb (firstn 11 b) sfn) else Panic) = Val (list_eqb (name e) sfn)).
Proof.
  intros Hwf Hs. pose proof Hwf as (Hlen & Hnb & Hm & Hc & Ha & Hcl & Hsz).
  destruct (entry_roundtrip_general e ft 0 0 b Hwf Hs) as (cd & md & Ecd & Emd & Hb & _).
  destruct e as [nm mt ct attr cl sz eb eo]. cbn [name mtime ctime attributes cluster size] in *.
  list11 nm. subst b. unfold layout, is_valid, is_end, is_lfn, raw_attr, read_u8.
  cbn [app length Nat.ltb Nat.leb nth bind hd firstn].
  rewrite attr_lfn_eq by exact Ha.
  repeat split.
  destruct (n =? 0); reflexivity.
Qed.

Theorem serialized_flags e ft b : entry_wf e -> serialize e ft = Val b ->
  is_end b = Val (hd 0 (name e) =? 0) /\
  is_valid b = Val (negb (hd 0 (name e) =? 0) && negb (hd 0 (name e) =? 229)) /\
  is_lfn b = Val (attr_lfn (attributes e)) /\
  (forall sfn, length sfn = 11%nat -> matches b sfn = Val (negb (attr_lfn (attributes e)) && list_eqb (name e) sfn)).
Proof.
  intros Hwf Hs. destruct (serialized_flags3 e ft b Hwf Hs) as (A & B & C & D).
  repeat (split; [assumption|]). intros sfn _. unfold matches. rewrite C. cbn [bind].
  destruct (attr_lfn (attributes e)); [reflexivity|]. cbn [negb andb]. apply D.
Qed.

(* ---- LFN checksum *)
Lemma rotr8_spec r : r < 256 -> rotr8 r = (if N.odd r then 128 else 0) + r / 2.
Proof.
  intros Hr. apply N.eqb_eq.
  apply (sweep 256 (fun r => rotr8 r =? (if N.odd r then 128 else 0) + r / 2)); [|exact Hr].
  vm_compute. reflexivity.
Qed.

Theorem csum_spec contents : csum contents = spec_csum contents.
Proof.
  unfold csum, spec_csum.
  assert (G : forall r, r < 256 ->
    fold_left (fun r b => u8 (rotr8 r + b)) contents r =
    fold_left (fun s b => ((if N.odd s then 128 else 0) + s / 2 + b) mod 256) contents r).
  { induction contents as [|b l IH]; intros r Hr; [reflexivity|].
    cbn [fold_left]. rewrite u8_mod, rotr8_spec by exact Hr. apply IH. lia. }
  apply G. lia.
Qed.
