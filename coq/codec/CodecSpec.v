(* SPEC side for C18: independent definitions the theorems compare the model
   with.  Nothing here uses bit operations or the model's state machines:
   FAT on-disk layout by div/mod arithmetic and list concatenation, the
   calendar, and the 8.3 grammar as an inductive predicate with a decider. *)
From Coq Require Import NArith List Bool.
From SdCodec Require Import CodecModel.
Import ListNotations.
Open Scope N_scope.

(* ------------------------------------------------------------------ *)
(* little-endian numbers                                               *)
Definition spec_le16 (v : N) : list N := [v mod 256; (v / 256) mod 256].
Definition spec_le32 (v : N) : list N :=
  [v mod 256; (v / 256) mod 256; (v / 65536) mod 256; (v / 16777216) mod 256].
Definition val16 (d : list N) (off : nat) : N := nth off d 0 + 256 * nth (off + 1) d 0.
Definition val32 (d : list N) (off : nat) : N :=
  nth off d 0 + 256 * nth (off + 1) d 0 + 65536 * nth (off + 2) d 0 + 16777216 * nth (off + 3) d 0.

Definition is_byte (b : N) : Prop := b < 256.
Definition bytes (l : list N) : Prop := Forall is_byte l.

(* ------------------------------------------------------------------ *)
(* FAT date/time fields (Microsoft FAT specification, section 6):
     date = (year-1980) * 512 + month * 32 + day      7 + 4 + 5 bits
     time = hours * 2048 + minutes * 32 + seconds/2   5 + 6 + 5 bits     *)
Definition date_year_field (date : N) : N := date / 512.
Definition date_month_field (date : N) : N := (date / 32) mod 16.
Definition date_day_field (date : N) : N := date mod 32.
Definition time_hour_field (time : N) : N := time / 2048.
Definition time_minute_field (time : N) : N := (time / 32) mod 64.
Definition time_2sec_field (time : N) : N := time mod 32.

Definition fat_date_spec (year month day : N) : N := (year - 1980) * 512 + month * 32 + day.
Definition fat_time_spec (hours minutes seconds : N) : N := hours * 2048 + minutes * 32 + seconds / 2.

(* what decoding does on every pair of 16-bit fields, in arithmetic *)
Definition spec_from_fat (date time : N) : Timestamp :=
  mkTs (10 + date_year_field date)
       (if date_month_field date =? 0 then 0 else date_month_field date - 1)
       (if date_day_field date =? 0 then 0 else date_day_field date - 1)
       (time_hour_field time) (time_minute_field time) (2 * time_2sec_field time).

(* what encoding does on every timestamp with u8 fields, in arithmetic *)
Definition spec_fat_time (t : Timestamp) : N :=
  (hours t mod 32) * 2048 + (minutes t mod 64) * 32 + (seconds t / 2) mod 32.
Definition spec_fat_date (t : Timestamp) : outcome N :=
  if (255 <=? zero_indexed_month t) || (255 <=? zero_indexed_day t) then Panic else
  Val ((if year_since_1970 t <? 10 then 0 else ((year_since_1970 t - 10) mod 128) * 512)
       + ((zero_indexed_month t + 1) mod 16) * 32 + (zero_indexed_day t + 1) mod 32).
Definition spec_serialize_to_fat (t : Timestamp) : outcome (list N) :=
  match spec_fat_date t with
  | Panic => Panic
  | Val d => Val (spec_le16 (spec_fat_time t) ++ spec_le16 d)
  end.

Definition ts_wf (t : Timestamp) : Prop :=
  year_since_1970 t < 256 /\ zero_indexed_month t < 256 /\ zero_indexed_day t < 256 /\
  hours t < 256 /\ minutes t < 256 /\ seconds t < 256.

(* the timestamps that are exactly representable on disk = the image of from_fat *)
Definition ts_representable (t : Timestamp) : Prop :=
  10 <= year_since_1970 t <= 137 /\ zero_indexed_month t <= 14 /\ zero_indexed_day t <= 30 /\
  hours t <= 31 /\ minutes t <= 63 /\ seconds t <= 62 /\ seconds t mod 2 = 0.

Definition ts_round2 (t : Timestamp) : Timestamp :=
  mkTs (year_since_1970 t) (zero_indexed_month t) (zero_indexed_day t)
       (hours t) (minutes t) (2 * (seconds t / 2)).

(* the calendar *)
Definition leap_year (y : N) : bool :=
  (y mod 4 =? 0) && (negb (y mod 100 =? 0) || (y mod 400 =? 0)).
Definition days_in_month (y m : N) : N :=
  if m =? 2 then (if leap_year y then 29 else 28)
  else if (m =? 4) || (m =? 6) || (m =? 9) || (m =? 11) then 30 else 31.
Definition calendar_fields (month day hours minutes seconds : N) : Prop :=
  1 <= month <= 12 /\ 1 <= day <= 31 /\ hours <= 23 /\ minutes <= 59 /\ seconds <= 59.
Definition valid_calendar (year month day hours minutes seconds : N) : Prop :=
  1 <= month <= 12 /\ 1 <= day <= days_in_month year month /\ hours <= 23 /\ minutes <= 59 /\ seconds <= 59.
Definition calendar_ts (year month day hours minutes seconds : N) : Timestamp :=
  mkTs (year - 1970) (month - 1) (day - 1) hours minutes seconds.

Definition spec_from_calendar (year month day hours minutes seconds : N) : result Timestamp CalError :=
  if (year <? 1970) || (2225 <? year) then Err BadYear else
  if (month <? 1) || (12 <? month) then Err BadMonth else
  if (day <? 1) || (31 <? day) then Err BadDay else
  if 23 <? hours then Err BadHours else
  if 59 <? minutes then Err BadMinutes else
  if 59 <? seconds then Err BadSeconds else
  Ok (calendar_ts year month day hours minutes seconds).

(* ------------------------------------------------------------------ *)
(* the 32-byte directory entry of the FAT specification                *)
Definition cluster_hi_field (ft : FatType) (cl : N) : N :=
  match ft with Fat16 => 0 | Fat32 => (cl / 65536) mod 65536 end.
Definition cluster_lo_field (cl : N) : N := cl mod 65536.

Definition layout (nm : list N) (attr ctime_f cdate_f hi mtime_f mdate_f lo sz : N) : list N :=
  nm                         (*  0..11  DIR_Name                     *)
  ++ [attr]                  (* 11      DIR_Attr                     *)
  ++ [0; 0]                  (* 12, 13  DIR_NTRes, DIR_CrtTimeTenth  *)
  ++ spec_le16 ctime_f       (* 14..16  DIR_CrtTime                  *)
  ++ spec_le16 cdate_f       (* 16..18  DIR_CrtDate                  *)
  ++ [0; 0]                  (* 18..20  DIR_LstAccDate               *)
  ++ spec_le16 hi            (* 20..22  DIR_FstClusHI                *)
  ++ spec_le16 mtime_f       (* 22..24  DIR_WrtTime                  *)
  ++ spec_le16 mdate_f       (* 24..26  DIR_WrtDate                  *)
  ++ spec_le16 lo            (* 26..28  DIR_FstClusLO                *)
  ++ spec_le32 sz.           (* 28..32  DIR_FileSize                 *)

Definition spec_serialize (e : DirEntry) (ft : FatType) : outcome (list N) :=
  match spec_fat_date (ctime e), spec_fat_date (mtime e) with
  | Val cd, Val md =>
      Val (layout (name e) (attributes e) (spec_fat_time (ctime e)) cd
                  (cluster_hi_field ft (cluster e))
                  (spec_fat_time (mtime e)) md (cluster_lo_field (cluster e)) (size e))
  | _, _ => Panic
  end.

Definition attr_directory (a : N) : bool := N.odd (a / 16).
Definition attr_lfn (a : N) : bool := a mod 16 =? 15.

(* what the stored cluster number means when read back *)
Definition stored_cluster (ft : FatType) (cl : N) : N :=
  match ft with Fat16 => cl mod 65536 | Fat32 => cl end.
Definition cluster_alias (attr cl : N) : N :=
  if (cl =? 0) && attr_directory attr then CLUSTER_ROOT_DIR else cl.

Definition spec_get_entry (d : list N) (ft : FatType) (blk off : N) : outcome DirEntry :=
  if Nat.ltb (length d) 32 then Panic else
  let attr := nth 11 d 0 in
  let cl := match ft with Fat16 => val16 d 26 | Fat32 => val16 d 20 * 65536 + val16 d 26 end in
  Val (mkDirEntry (firstn 11 d)
                  (spec_from_fat (val16 d 24) (val16 d 22))
                  (spec_from_fat (val16 d 16) (val16 d 14))
                  attr (cluster_alias attr cl) (val32 d 28) blk off).

Definition entry_wf (e : DirEntry) : Prop :=
  length (name e) = 11%nat /\ bytes (name e) /\ ts_wf (mtime e) /\ ts_wf (ctime e) /\
  attributes e < 256 /\ cluster e < 4294967296 /\ size e < 4294967296.

(* the entry a reader gets back: timestamps through the on-disk fields, cluster through
   the stored width and the "0 + directory = root" alias, position as given by the reader *)
Definition entry_readback (e : DirEntry) (ft : FatType) (blk off : N) (ct mt : Timestamp) : DirEntry :=
  mkDirEntry (name e) mt ct (attributes e)
             (cluster_alias (attributes e) (stored_cluster ft (cluster e))) (size e) blk off.

(* LFN checksum as written in the FAT specification (unsigned char arithmetic):
     Sum = ((Sum & 1) ? 0x80 : 0) + (Sum >> 1) + *pFcbName++                     *)
Definition spec_csum (contents : list N) : N :=
  fold_left (fun s b => ((if N.odd s then 128 else 0) + s / 2 + b) mod 256) contents 0.

(* ------------------------------------------------------------------ *)
(* 8.3 names                                                           *)

(* double-quote * + , / : ; < = > ? [ backslash ] |  *)
Definition forbidden_marks : list N := [34; 42; 43; 44; 47; 58; 59; 60; 61; 62; 63; 91; 92; 93; 124].

(* a character of a name part: Latin-1, not a control, not space, not a forbidden mark, not the period *)
Definition name_char (c : N) : Prop :=
  c <= 255 /\ 32 < c /\ ~ In c forbidden_marks /\ c <> 46.
Definition name_charb (c : N) : bool :=
  (c <=? 255) && (32 <? c) && negb (existsb (N.eqb c) forbidden_marks) && negb (c =? 46).

(* base of 1..8 characters, optionally a period followed by 0..3 extension characters *)
Inductive valid83 : list N -> Prop :=
| v83_base : forall base,
    (1 <= length base <= 8)%nat -> Forall name_char base -> valid83 base
| v83_ext : forall base ext,
    (1 <= length base <= 8)%nat -> (length ext <= 3)%nat ->
    Forall name_char base -> Forall name_char ext -> valid83 (base ++ 46 :: ext).

Fixpoint split_dot (s : list N) : list N * option (list N) :=
  match s with
  | [] => ([], None)
  | c :: r => if c =? 46 then ([], Some r)
              else let (b, e) := split_dot r in (c :: b, e)
  end.

Definition valid83b (s : list N) : bool :=
  let (b, e) := split_dot s in
  Nat.leb 1 (length b) && Nat.leb (length b) 8 && forallb name_charb b &&
  match e with
  | None => true
  | Some x => Nat.leb (length x) 3 && forallb name_charb x
  end.

Definition lower_letters : list N :=
  [97; 98; 99; 100; 101; 102; 103; 104; 105; 106; 107; 108; 109; 110; 111; 112; 113; 114; 115; 116;
   117; 118; 119; 120; 121; 122].
Definition upper_letters : list N :=
  [65; 66; 67; 68; 69; 70; 71; 72; 73; 74; 75; 76; 77; 78; 79; 80; 81; 82; 83; 84;
   85; 86; 87; 88; 89; 90].
Fixpoint assoc (c : N) (tbl : list (N * N)) : N :=
  match tbl with
  | [] => c
  | (k, v) :: r => if c =? k then v else assoc c r
  end.
(* ASCII a..z to A..Z, everything else (including the Latin-1 letters) unchanged *)
Definition upper (c : N) : N := assoc c (combine lower_letters upper_letters).

Definition pad (n : nat) (l : list N) : list N := l ++ repeat 32 (n - length l).

Definition name_bytes (base ext : list N) : list N := pad 8 (map upper base) ++ pad 3 (map upper ext).

Definition bytes_spec (s : list N) : list N :=
  let (b, e) := split_dot s in
  name_bytes b (match e with None => [] | Some x => x end).

(* error kind: decided by the first character at which the text stops being
   the beginning of a valid name *)
Definition err_kind (c : N) : FilenameError :=
  if name_charb c then NameTooLong else if c =? 46 then MisplacedPeriod else InvalidCharacter.
Definition viable (p : list N) : Prop := p = [] \/ valid83 p.
Definition viableb (p : list N) : bool := match p with [] => true | _ => valid83b p end.
Fixpoint first_bad (pre rest : list N) : option N :=
  match rest with
  | [] => None
  | c :: r => if viableb (pre ++ [c]) then first_bad (pre ++ [c]) r else Some c
  end.

Definition special (s : list N) : Prop := s = [] \/ s = [46] \/ s = [46; 46].

Definition spec_sfn (s : list N) : result (list N) FilenameError :=
  if list_eqb s [] || list_eqb s [46] then Ok this_dir
  else if list_eqb s [46; 46] then Ok parent_dir
  else if valid83b s then Ok (bytes_spec s)
  else match first_bad [] s with
       | Some c => Err (err_kind c)
       | None => Err FilenameEmpty
       end.

(* what Display prints for a name made of a base and an extension *)
Definition display_spec (base ext : list N) : list N :=
  map upper base ++ match ext with [] => [] | _ => 46 :: map upper ext end.
