(* Property C18 - directory-entry, timestamp and 8.3-name codecs round-trip and
   match the FAT layout.  This file contains only the property theorems, each
   closed by `exact`, pinned by `Check`, followed by `Print Assumptions`. *)
From Coq Require Import NArith List Bool.
From SdCodec Require Import CodecModel CodecSpec TimeProofs TimeProofs2 EntryProofs NameProofs.
Import ListNotations.
Open Scope N_scope.

(* ------------------------------------------------------------------ *)
(* timestamps                                                          *)

(* every (date, time) pair of 16-bit fields whose month and day fields are not zero
   survives decode-then-encode unchanged: all 2^32 pairs minus the non-dates, no other
   side condition (month fields 13..15 and day numbers a month does not have included) *)
Theorem C18_time_dec_enc : forall date time : N,
  date < 65536 -> time < 65536 ->
  date_month_field date <> 0 -> date_day_field date <> 0 ->
  serialize_to_fat (from_fat date time) = Val (spec_le16 time ++ spec_le16 date).
Proof. exact time_dec_enc. Qed.

(* what happens for zero month/day fields (volume labels): decode maps them to January /
   the 1st, encode then writes 1 - the date field comes back changed by +32 / +1 *)
Theorem C18_time_dec_enc_zero_fields : forall date time : N,
  date < 65536 -> time < 65536 ->
  serialize_to_fat (from_fat date time) =
  Val (spec_le16 time ++
       spec_le16 (date + (if date_month_field date =? 0 then 32 else 0)
                       + (if date_day_field date =? 0 then 1 else 0))).
Proof. exact time_dec_enc_general. Qed.

(* decoding gives the calendar fields the FAT specification assigns to the bit fields *)
Theorem C18_time_decode_layout : forall date time : N,
  date < 65536 -> time < 65536 ->
  date_month_field date <> 0 -> date_day_field date <> 0 ->
  from_fat date time =
  calendar_ts (1980 + date_year_field date) (date_month_field date) (date_day_field date)
              (time_hour_field time) (time_minute_field time) (2 * time_2sec_field time).
Proof. exact from_fat_calendar. Qed.

(* calendar timestamps 1980-01-01 .. 2107-12-31 23:59:59 (in fact every combination of
   in-range fields, a superset of the genuine dates): from_calendar accepts them, the
   encoder writes the fields of the FAT specification, and decoding them gives the
   timestamp back with the seconds rounded down to even *)
Theorem C18_time_enc_dec : forall y mo d h mi s : N,
  1980 <= y <= 2107 -> calendar_fields mo d h mi s ->
  let t := calendar_ts y mo d h mi s in
  from_calendar y mo d h mi s = Ok t /\
  serialize_to_fat t = Val (spec_le16 (fat_time_spec h mi s) ++ spec_le16 (fat_date_spec y mo d)) /\
  from_fat (fat_date_spec y mo d) (fat_time_spec h mi s) = ts_round2 t.
Proof. exact time_enc_dec. Qed.

Theorem C18_calendar_dates_covered : forall y mo d h mi s : N,
  valid_calendar y mo d h mi s -> calendar_fields mo d h mi s.
Proof. exact valid_calendar_fields. Qed.

(* from_calendar accepts exactly the in-range fields (years 1970..2225) *)
Theorem C18_from_calendar_accepts : forall y mo d h mi s : N,
  from_calendar y mo d h mi s = Ok (calendar_ts y mo d h mi s) /\ 1970 <= y <= 2225 /\ calendar_fields mo d h mi s
  \/ (exists e, from_calendar y mo d h mi s = Err e) /\ ~ (1970 <= y <= 2225 /\ calendar_fields mo d h mi s).
Proof. exact from_calendar_accepts. Qed.

(* ... including which error is reported (first offending field in the order y, mo, d, h, mi, s) *)
Theorem C18_from_calendar_errors : forall y mo d h mi s : N,
  from_calendar y mo d h mi s = spec_from_calendar y mo d h mi s.
Proof. exact from_calendar_spec. Qed.

(* the year range is tight: 1970..1979 and 2108..2225 are accepted by from_calendar but
   are written as another year (1979 -> 1980, 2108 -> 1980) *)
Theorem C18_time_year_alias :
  (exists t, from_calendar 1979 12 31 23 59 58 = Ok t /\
     exists b, serialize_to_fat t = Val b /\ b = spec_le16 (fat_time_spec 23 59 58) ++ spec_le16 (fat_date_spec 1980 12 31)) /\
  (exists t, from_calendar 2108 1 1 0 0 0 = Ok t /\
     exists b, serialize_to_fat t = Val b /\ b = spec_le16 (fat_time_spec 0 0 0) ++ spec_le16 (fat_date_spec 1980 1 1)).
Proof. exact time_year_alias. Qed.

(* for every timestamp with u8 fields: encoding panics exactly for a month or day field of
   255 (u8 + 1 overflows, dev profile); otherwise decode (encode t) = t exactly for the
   representable timestamps (= the image of from_fat) *)
Theorem C18_time_fixpoints : forall t : Timestamp, ts_wf t ->
  zero_indexed_month t < 255 -> zero_indexed_day t < 255 ->
  exists date time, date < 65536 /\ time < 65536 /\
    serialize_to_fat t = Val (spec_le16 time ++ spec_le16 date) /\
    (from_fat date time = t <-> ts_representable t).
Proof. exact time_enc_dec_fixpoints. Qed.

Theorem C18_time_encode_panics : forall t : Timestamp, ts_wf t ->
  (serialize_to_fat t = Panic <-> zero_indexed_month t = 255 \/ zero_indexed_day t = 255).
Proof. exact serialize_to_fat_panics. Qed.

Theorem C18_time_decode_representable : forall date time : N,
  date < 65536 -> time < 65536 -> ts_representable (from_fat date time).
Proof. exact from_fat_representable. Qed.

(* the date half of decode-then-encode depends on the date field only, the time half on the
   time field only: lets the model side of the correspondence check cover all 2^32 pairs
   from 2 x 2^16 evaluations of the extracted model (driver command TX) *)
Theorem C18_time_sweep_separable : forall date time : N,
  from_fat date time =
    mkTs (year_since_1970 (from_fat date 0)) (zero_indexed_month (from_fat date 0))
         (zero_indexed_day (from_fat date 0))
         (hours (from_fat 0 time)) (minutes (from_fat 0 time)) (seconds (from_fat 0 time)) /\
  serialize_to_fat (from_fat date time) =
    bind (fat_date_of (from_fat date 0))
         (fun dt => Val (le16 (fat_time_of (from_fat 0 time)) ++ le16 dt)).
Proof. exact time_sweep_separable. Qed.

(* ------------------------------------------------------------------ *)
(* directory entries                                                   *)

(* serialize writes exactly the 32-byte layout of the FAT specification (CodecSpec.layout:
   name 0..11, attr 11, zeros 12 13, ctime 14..16, cdate 16..18, zeros 18 19, cluster-hi
   20..22 (0 on FAT16), mtime 22..24, mdate 24..26, cluster-lo 26..28, size 28..32, all
   little-endian), for both FAT types, every name, attribute byte, cluster and size *)
Theorem C18_layout : forall (e : DirEntry) (ft : FatType), entry_wf e ->
  serialize e ft = spec_serialize e ft.
Proof. exact serialize_spec. Qed.

(* ... and the layout read as offsets *)
Theorem C18_layout_offsets : forall (nm : list N) (attr ct cd hi mt md lo sz : N),
  length nm = 11%nat -> ct < 65536 -> cd < 65536 -> hi < 65536 -> mt < 65536 -> md < 65536 -> lo < 65536 ->
  sz < 4294967296 ->
  let b := layout nm attr ct cd hi mt md lo sz in
  length b = 32%nat /\ firstn 11 b = nm /\ nth 11 b 0 = attr /\ nth 12 b 0 = 0 /\ nth 13 b 0 = 0 /\
  val16 b 14 = ct /\ val16 b 16 = cd /\ nth 18 b 0 = 0 /\ nth 19 b 0 = 0 /\ val16 b 20 = hi /\
  val16 b 22 = mt /\ val16 b 24 = md /\ val16 b 26 = lo /\ val32 b 28 = sz.
Proof. exact layout_offsets. Qed.

(* get_entry on any byte slice (panics below 32 bytes) reads those offsets *)
Theorem C18_parse_layout : forall (d : list N) (ft : FatType) (blk off : N), bytes d ->
  get_entry d ft blk off = spec_get_entry d ft blk off.
Proof. exact get_entry_spec. Qed.

(* round trip, general form: what a reader gets back from a serialized entry - the
   timestamps through the on-disk fields, the cluster through the stored width (16 bits on
   FAT16, all 32 bits on FAT32) and the "0 + directory bit = root" alias *)
Theorem C18_entry_roundtrip_general : forall (e : DirEntry) (ft : FatType) (blk off : N) (b : list N),
  entry_wf e -> serialize e ft = Val b ->
  exists cd md, spec_fat_date (ctime e) = Val cd /\ spec_fat_date (mtime e) = Val md /\
    b = layout (name e) (attributes e) (spec_fat_time (ctime e)) cd (cluster_hi_field ft (cluster e))
               (spec_fat_time (mtime e)) md (cluster_lo_field (cluster e)) (size e) /\
    get_entry b ft blk off =
      Val (entry_readback e ft blk off (from_fat cd (spec_fat_time (ctime e)))
                                        (from_fat md (spec_fat_time (mtime e)))).
Proof. exact entry_roundtrip_general. Qed.

(* round trip, clean form: representable timestamps (see C18_time_fixpoints), cluster
   below 2^16 on FAT16 / any 32-bit value on FAT32, any name, attribute byte and size *)
Theorem C18_entry_roundtrip : forall (e : DirEntry) (ft : FatType) (blk off : N),
  entry_wf e ->
  ts_representable (ctime e) -> ts_representable (mtime e) ->
  (ft = Fat16 -> cluster e < 65536) ->
  ~ (cluster e = 0 /\ attr_directory (attributes e) = true) ->
  exists b, serialize e ft = Val b /\ length b = 32%nat /\ get_entry b ft blk off = Val (with_pos e blk off).
Proof. exact entry_roundtrip. Qed.

(* the excluded clause: a directory entry whose stored cluster number is 0 does NOT round-trip *)
Theorem C18_entry_alias : forall (e : DirEntry) (ft : FatType) (blk off : N) (b : list N),
  entry_wf e -> serialize e ft = Val b ->
  stored_cluster ft (cluster e) = 0 -> attr_directory (attributes e) = true ->
  exists e', get_entry b ft blk off = Val e' /\ cluster e' = CLUSTER_ROOT_DIR /\ cluster e' <> cluster e.
Proof. exact entry_alias. Qed.

Theorem C18_entry_flags : forall (e : DirEntry) (ft : FatType) (b : list N),
  entry_wf e -> serialize e ft = Val b ->
  is_end b = Val (hd 0 (name e) =? 0) /\
  is_valid b = Val (negb (hd 0 (name e) =? 0) && negb (hd 0 (name e) =? 229)) /\
  is_lfn b = Val (attr_lfn (attributes e)) /\
  (forall sfn, length sfn = 11%nat -> matches b sfn = Val (negb (attr_lfn (attributes e)) && list_eqb (name e) sfn)).
Proof. exact serialized_flags. Qed.

Theorem C18_csum : forall contents : list N, csum contents = spec_csum contents.
Proof. exact csum_spec. Qed.

(* ------------------------------------------------------------------ *)
(* 8.3 names (strings are lists of code points, any N)                 *)

(* the parser accepts exactly the grammar valid83 (base of 1..8 characters, optionally a
   period followed by 0..3 extension characters; characters Latin-1 minus controls, space,
   the 15 forbidden marks and the period) outside the three specials "", ".", ".." *)
Theorem C18_sfn_accepts : forall s : list N, ~ special s ->
  ((exists n, create_from_str s = Ok n) <-> valid83 s).
Proof. exact sfn_accepts. Qed.

Theorem C18_sfn_specials :
  create_from_str [] = Ok this_dir /\ create_from_str [46] = Ok this_dir /\
  create_from_str [46; 46] = Ok parent_dir.
Proof. exact sfn_specials. Qed.

(* the error kind: decided by the first character c at which the text stops being the
   beginning of a valid name - NameTooLong if c is a name character, MisplacedPeriod if it
   is the period, InvalidCharacter otherwise; FilenameEmpty / Utf8Error never occur *)
Theorem C18_sfn_errors : forall (s : list N) (k : FilenameError), ~ special s ->
  (create_from_str s = Err k <->
   exists p c r, s = p ++ c :: r /\ viable p /\ ~ viable (p ++ [c]) /\ k = err_kind c).
Proof. exact sfn_error. Qed.

Theorem C18_sfn_error_kinds : forall (s : list N) (k : FilenameError), create_from_str s = Err k ->
  k = InvalidCharacter \/ k = NameTooLong \/ k = MisplacedPeriod.
Proof. exact sfn_error_kinds. Qed.

(* on success the 11 bytes are pad8 (upper base) ++ pad3 (upper ext), upper = ASCII a..z only *)
Theorem C18_sfn_bytes_base : forall base : list N,
  (1 <= length base <= 8)%nat -> Forall name_char base ->
  create_from_str base = Ok (name_bytes base []).
Proof. exact sfn_bytes_base. Qed.

Theorem C18_sfn_bytes : forall base ext : list N,
  (1 <= length base <= 8)%nat -> (length ext <= 3)%nat ->
  Forall name_char base -> Forall name_char ext ->
  create_from_str (base ++ 46 :: ext) = Ok (name_bytes base ext).
Proof. exact sfn_bytes_ext. Qed.

Theorem C18_sfn_result_shape : forall s n : list N, create_from_str s = Ok n ->
  length n = 11%nat /\ Forall (fun b => b < 256) n.
Proof. exact sfn_result_shape. Qed.

(* the whole parser, every input, as one equation with the executable spec *)
Theorem C18_sfn_model_spec : forall s : list N, create_from_str s = spec_sfn s.
Proof. exact sfn_model_spec. Qed.

(* Display prints base, and a period plus the extension when the extension is not empty *)
Theorem C18_sfn_display : forall base ext : list N,
  (1 <= length base <= 8)%nat -> (length ext <= 3)%nat ->
  Forall name_char base -> Forall name_char ext ->
  display (name_bytes base ext) = display_spec base ext.
Proof. exact sfn_display. Qed.

(* printing a parsed name and parsing it again gives the same 11 bytes - for every name the
   parser can produce, the dot entries, empty extensions and Latin-1 bytes >= 0x80 included *)
Theorem C18_sfn_print_parse : forall s n : list N,
  create_from_str s = Ok n -> create_from_str (display n) = Ok n.
Proof. exact sfn_print_parse. Qed.

(* first byte of a parsed name: never 0x00 (end marker) or 0x20, but it can be 0xE5, the
   deleted-slot marker (C18_entry_flags: is_valid is then false) - background for D29 *)
Theorem C18_sfn_first_byte : forall s n : list N, ~ special s -> create_from_str s = Ok n ->
  hd 0 n <> 0 /\ hd 0 n <> 32.
Proof. exact sfn_first_byte. Qed.

Theorem C18_sfn_e5_first_byte :
  exists s n, valid83 s /\ create_from_str s = Ok n /\ hd 0 n = 229.
Proof. exact sfn_e5_first_byte. Qed.

(* the hypotheses are satisfiable by a non-trivial case *)
Example C18_entry_example :
  let e := mkDirEntry [72;69;76;76;79;32;32;32;84;88;84] (mkTs 54 8 24 23 59 58) (mkTs 30 0 0 0 0 0) 32 305419896 4294967295 7 96 in
  entry_wf e /\ ts_representable (ctime e) /\ ts_representable (mtime e) /\
  serialize e Fat32 = Val [72;69;76;76;79;32;32;32;84;88;84;32;0;0;0;0;33;40;0;0;52;18;125;191;57;89;120;86;255;255;255;255].
Proof.
  cbv zeta. split; [|split; [|split]].
  - unfold entry_wf, bytes, is_byte, ts_wf. cbn. repeat split; try reflexivity.
    repeat (apply Forall_cons; [reflexivity|]). apply Forall_nil.
  - unfold ts_representable. cbn. repeat split; try reflexivity; intro H; discriminate H.
  - unfold ts_representable. cbn. repeat split; try reflexivity; intro H; discriminate H.
  - vm_compute. reflexivity.
Qed.

Example C18_time_example :
  date_month_field 22841 <> 0 /\ date_day_field 22841 <> 0 /\
  from_fat 22841 49021 = mkTs 54 8 24 23 59 58 /\
  serialize_to_fat (mkTs 54 8 24 23 59 58) = Val [125; 191; 57; 89].
Proof. vm_compute. repeat split; intro H; discriminate H. Qed.

Example C18_sfn_example :
  create_from_str [104;101;108;108;111;46;116;120;233] = Ok [72;69;76;76;79;32;32;32;84;88;233] /\
  display [72;69;76;76;79;32;32;32;84;88;233] = [72;69;76;76;79;46;84;88;233] /\
  create_from_str [65;46;46;66] = Err MisplacedPeriod.
Proof. vm_compute. repeat split. Qed.

Check (C18_time_dec_enc : forall date time, date < 65536 -> time < 65536 ->
  date_month_field date <> 0 -> date_day_field date <> 0 ->
  serialize_to_fat (from_fat date time) = Val (spec_le16 time ++ spec_le16 date)).
Check (C18_sfn_accepts : forall s, ~ special s -> ((exists n, create_from_str s = Ok n) <-> valid83 s)).
Check (C18_sfn_print_parse : forall s n, create_from_str s = Ok n -> create_from_str (display n) = Ok n).
Check (C18_layout : forall e ft, entry_wf e -> serialize e ft = spec_serialize e ft).

Print Assumptions C18_time_dec_enc.
Print Assumptions C18_time_dec_enc_zero_fields.
Print Assumptions C18_time_decode_layout.
Print Assumptions C18_time_enc_dec.
Print Assumptions C18_calendar_dates_covered.
Print Assumptions C18_from_calendar_accepts.
Print Assumptions C18_from_calendar_errors.
Print Assumptions C18_time_year_alias.
Print Assumptions C18_time_fixpoints.
Print Assumptions C18_time_encode_panics.
Print Assumptions C18_time_decode_representable.
Print Assumptions C18_time_sweep_separable.
Print Assumptions C18_layout.
Print Assumptions C18_layout_offsets.
Print Assumptions C18_parse_layout.
Print Assumptions C18_entry_roundtrip_general.
Print Assumptions C18_entry_roundtrip.
Print Assumptions C18_entry_alias.
Print Assumptions C18_entry_flags.
Print Assumptions C18_csum.
Print Assumptions C18_sfn_accepts.
Print Assumptions C18_sfn_specials.
Print Assumptions C18_sfn_errors.
Print Assumptions C18_sfn_error_kinds.
Print Assumptions C18_sfn_bytes_base.
Print Assumptions C18_sfn_bytes.
Print Assumptions C18_sfn_result_shape.
Print Assumptions C18_sfn_model_spec.
Print Assumptions C18_sfn_display.
Print Assumptions C18_sfn_print_parse.
Print Assumptions C18_sfn_first_byte.
Print Assumptions C18_sfn_e5_first_byte.
