(* MODEL of the directory-entry, timestamp and 8.3-name codecs of
   embedded-sdmmc-rs 0.9.0, transcribed function by function:
     src/filesystem/timestamp.rs   Timestamp::from_fat, serialize_to_fat, from_calendar
     src/filesystem/attributes.rs  Attributes::is_*
     src/filesystem/directory.rs   DirEntry::serialize, DirEntry::new
     src/fat/ondiskdirentry.rs     OnDiskDirEntry accessors, is_end/is_valid/is_lfn, matches,
                                   first_cluster_fat16/32, get_entry
     src/filesystem/filename.rs    ShortFileName::create_from_str, Display, csum
   Data are N with the u8/u16/u32 truncations the Rust types impose written
   explicitly; `Panic` is the outcome where the dev profile (overflow checks
   on, slice index checks) panics.  Strings are lists of code points (the
   `char`s of a Rust `&str`).  No proofs in this file. *)
From Coq Require Import NArith List Bool.
Import ListNotations.
Open Scope N_scope.

Definition u8 (x : N) : N := N.land x 255.
Definition u16 (x : N) : N := N.land x 65535.
Definition u32 (x : N) : N := N.land x 4294967295.

Inductive outcome (A : Type) : Type :=
| Val : A -> outcome A
| Panic : outcome A.
Arguments Val {A} _.
Arguments Panic {A}.

Definition bind {A B : Type} (o : outcome A) (f : A -> outcome B) : outcome B :=
  match o with Val a => f a | Panic => Panic end.

Inductive result (A E : Type) : Type :=
| Ok : A -> result A E
| Err : E -> result A E.
Arguments Ok {A E} _.
Arguments Err {A E} _.

(* u16::to_le_bytes, u32::to_le_bytes *)
Definition le16 (v : N) : list N := [u8 v; u8 (N.shiftr v 8)].
Definition le32 (v : N) : list N :=
  [u8 v; u8 (N.shiftr v 8); u8 (N.shiftr v 16); u8 (N.shiftr v 24)].

(* ------------------------------------------------------------------ *)
(* timestamp.rs                                                        *)

Record Timestamp : Type := mkTs {
  year_since_1970 : N;
  zero_indexed_month : N;
  zero_indexed_day : N;
  hours : N;
  minutes : N;
  seconds : N }.

(*  let year = 1980 + (date >> 9);
    let month = ((date >> 5) & 0x000F) as u8;   let day = (date & 0x001F) as u8;
    let hours = ((time >> 11) & 0x001F) as u8;  let minutes = ((time >> 5) & 0x0003F) as u8;
    let seconds = ((time << 1) & 0x0003F) as u8;
    Timestamp { year_since_1970: (year - 1970) as u8,
                zero_indexed_month: if month == 0 { 0 } else { month - 1 },
                zero_indexed_day: if day == 0 { 0 } else { day - 1 }, hours, minutes, seconds }
    (date, time : u16; 1980 + 127 does not overflow u16)                                  *)
Definition from_fat (date time : N) : Timestamp :=
  let year := 1980 + N.shiftr date 9 in
  let month := u8 (N.land (N.shiftr date 5) 15) in
  let day := u8 (N.land date 31) in
  let hours := u8 (N.land (N.shiftr time 11) 31) in
  let minutes := u8 (N.land (N.shiftr time 5) 63) in
  let seconds := u8 (N.land (u16 (N.shiftl time 1)) 63) in
  mkTs (u8 (year - 1970))
       (if month =? 0 then 0 else month - 1)
       (if day =? 0 then 0 else day - 1)
       hours minutes seconds.

(*  let hours = (u16::from(self.hours) << 11) & 0xF800;
    let minutes = (u16::from(self.minutes) << 5) & 0x07E0;
    let seconds = (u16::from(self.seconds / 2)) & 0x001F;
    data[..2] = (hours | minutes | seconds).to_le_bytes()
    let year = if self.year_since_1970 < 10 { 0 } else { (u16::from(self.year_since_1970 - 10) << 9) & 0xFE00 };
    let month = (u16::from(self.zero_indexed_month + 1) << 5) & 0x01E0;      u8 addition: panics on 255
    let day = u16::from(self.zero_indexed_day + 1) & 0x001F;                 u8 addition: panics on 255
    data[2..] = (year | month | day).to_le_bytes()
    (`<<` on u16 drops the bits shifted out; it does not panic for a shift amount < 16)        *)
Definition fat_time_of (t : Timestamp) : N :=
  let hours := N.land (u16 (N.shiftl (hours t) 11)) 63488 in
  let minutes := N.land (u16 (N.shiftl (minutes t) 5)) 2016 in
  let seconds := N.land (seconds t / 2) 31 in
  N.lor (N.lor hours minutes) seconds.

Definition fat_date_of (t : Timestamp) : outcome N :=
  let year := if year_since_1970 t <? 10 then 0
              else N.land (u16 (N.shiftl (year_since_1970 t - 10) 9)) 65024 in
  if 255 <? zero_indexed_month t + 1 then Panic else
  let month := N.land (u16 (N.shiftl (zero_indexed_month t + 1) 5)) 480 in
  if 255 <? zero_indexed_day t + 1 then Panic else
  let day := N.land (zero_indexed_day t + 1) 31 in
  Val (N.lor (N.lor year month) day).

Definition serialize_to_fat (t : Timestamp) : outcome (list N) :=
  let time := fat_time_of t in
  bind (fat_date_of t) (fun date => Val (le16 time ++ le16 date)).

Inductive CalError : Type := BadYear | BadMonth | BadDay | BadHours | BadMinutes | BadSeconds.

(*  year : u16, the others u8; fields are checked in this order *)
Definition from_calendar (year month day hours minutes seconds : N) : result Timestamp CalError :=
  if negb ((1970 <=? year) && (year <=? 1970 + 255)) then Err BadYear else
  if negb ((1 <=? month) && (month <=? 12)) then Err BadMonth else
  if negb ((1 <=? day) && (day <=? 31)) then Err BadDay else
  if negb (hours <=? 23) then Err BadHours else
  if negb (minutes <=? 59) then Err BadMinutes else
  if negb (seconds <=? 59) then Err BadSeconds else
  Ok (mkTs (u8 (year - 1970)) (month - 1) (day - 1) hours minutes seconds).

(* ------------------------------------------------------------------ *)
(* attributes.rs                                                       *)

Definition ATTR_READ_ONLY : N := 1.
Definition ATTR_HIDDEN : N := 2.
Definition ATTR_SYSTEM : N := 4.
Definition ATTR_VOLUME : N := 8.
Definition ATTR_DIRECTORY : N := 16.
Definition ATTR_ARCHIVE : N := 32.
Definition ATTR_LFN : N := 15.

Definition attr_is (flag a : N) : bool := N.land a flag =? flag.
Definition is_read_only := attr_is ATTR_READ_ONLY.
Definition is_hidden := attr_is ATTR_HIDDEN.
Definition is_system := attr_is ATTR_SYSTEM.
Definition is_volume := attr_is ATTR_VOLUME.
Definition is_directory := attr_is ATTR_DIRECTORY.
Definition is_archive := attr_is ATTR_ARCHIVE.
Definition attr_is_lfn := attr_is ATTR_LFN.

(* ------------------------------------------------------------------ *)
(* directory.rs                                                        *)

Inductive FatType : Type := Fat16 | Fat32.

Definition CLUSTER_EMPTY : N := 0.
Definition CLUSTER_ROOT_DIR : N := 4294967292.   (* 0xFFFF_FFFC *)

Record DirEntry : Type := mkDirEntry {
  name : list N;            (* ShortFileName.contents : [u8; 11] *)
  mtime : Timestamp;
  ctime : Timestamp;
  attributes : N;           (* Attributes(u8) *)
  cluster : N;              (* ClusterId(u32) *)
  size : N;                 (* u32 *)
  entry_block : N;          (* BlockIdx(u32) *)
  entry_offset : N }.       (* u32 *)

(* data[off .. off + src.len()].copy_from_slice(src) on a buffer that is long enough *)
Definition copy_at (off : nat) (src data : list N) : list N :=
  firstn off data ++ src ++ skipn (off + length src) data.

(*  let mut data = [0u8; 32];
    data[0..11].copy_from_slice(&self.name.contents);   data[11] = self.attributes.0;
    data[14..18].copy_from_slice(&self.ctime.serialize_to_fat()[..]);
    let cluster_hi = if fat_type == Fat16 { [0u8; 2] } else { (((cluster_number >> 16) & 0xFFFF) as u16).to_le_bytes() };
    data[20..22].copy_from_slice(&cluster_hi[..]);
    data[22..26].copy_from_slice(&self.mtime.serialize_to_fat()[..]);
    let cluster_lo = ((cluster_number & 0xFFFF) as u16).to_le_bytes();   data[26..28] = cluster_lo
    data[28..32].copy_from_slice(&self.size.to_le_bytes()[..]);                                    *)
Definition serialize (e : DirEntry) (ft : FatType) : outcome (list N) :=
  let data := repeat 0 32 in
  let data := copy_at 0 (name e) data in
  let data := copy_at 11 [attributes e] data in
  bind (serialize_to_fat (ctime e)) (fun c =>
  let data := copy_at 14 c data in
  let cluster_number := cluster e in
  let cluster_hi := match ft with
                    | Fat16 => [0; 0]
                    | Fat32 => le16 (u16 (N.land (N.shiftr cluster_number 16) 65535))
                    end in
  let data := copy_at 20 cluster_hi data in
  bind (serialize_to_fat (mtime e)) (fun m =>
  let data := copy_at 22 m data in
  let cluster_lo := le16 (u16 (N.land cluster_number 65535)) in
  let data := copy_at 26 cluster_lo data in
  let data := copy_at 28 (le32 (size e)) data in
  Val data)).

(*  DirEntry::new: mtime = ctime, size = 0 *)
Definition dir_entry_new (nm : list N) (attr clus : N) (ct : Timestamp) (blk off : N) : DirEntry :=
  mkDirEntry nm ct ct attr clus 0 blk off.

(* ------------------------------------------------------------------ *)
(* ondiskdirentry.rs : a borrowed byte slice of any length             *)

(* self.data[off] ; LittleEndian::read_u16(&self.data[off..off+2]) ; read_u32: panic when out of range *)
Definition read_u8 (data : list N) (off : nat) : outcome N :=
  if Nat.ltb off (length data) then Val (nth off data 0) else Panic.
Definition read_u16 (data : list N) (off : nat) : outcome N :=
  if Nat.leb (off + 2) (length data)
  then Val (N.lor (nth off data 0) (N.shiftl (nth (off + 1) data 0) 8)) else Panic.
Definition read_u32 (data : list N) (off : nat) : outcome N :=
  if Nat.leb (off + 4) (length data)
  then Val (N.lor (N.lor (nth off data 0) (N.shiftl (nth (off + 1) data 0) 8))
                  (N.lor (N.shiftl (nth (off + 2) data 0) 16) (N.shiftl (nth (off + 3) data 0) 24)))
  else Panic.

Definition raw_attr d := read_u8 d 11.
Definition create_time d := read_u16 d 14.
Definition create_date d := read_u16 d 16.
Definition last_access_data d := read_u16 d 18.
Definition first_cluster_hi d := read_u16 d 20.
Definition write_time d := read_u16 d 22.
Definition write_date d := read_u16 d 24.
Definition first_cluster_lo d := read_u16 d 26.
Definition file_size d := read_u32 d 28.

Definition is_end (d : list N) : outcome bool := bind (read_u8 d 0) (fun b => Val (b =? 0)).
(*  !self.is_end() && (self.data[0] != 0xE5) *)
Definition is_valid (d : list N) : outcome bool :=
  bind (is_end d) (fun e => if e then Val false else bind (read_u8 d 0) (fun b => Val (negb (b =? 229)))).
Definition is_lfn (d : list N) : outcome bool := bind (raw_attr d) (fun a => Val (attr_is_lfn a)).

Fixpoint list_eqb (a b : list N) : bool :=
  match a, b with
  | [], [] => true
  | x :: a', y :: b' => (x =? y) && list_eqb a' b'
  | _, _ => false
  end.

(*  !self.is_lfn() && self.data[0..11] == sfn.contents *)
Definition matches (d : list N) (sfn : list N) : outcome bool :=
  bind (is_lfn d) (fun l =>
  if l then Val false
  else if Nat.leb 11 (length d) then Val (list_eqb (firstn 11 d) sfn) else Panic).

(*  (u32::from(hi) << 16) | u32::from(lo) *)
Definition first_cluster_fat32 (d : list N) : outcome N :=
  bind (first_cluster_hi d) (fun hi => bind (first_cluster_lo d) (fun lo =>
  Val (N.lor (u32 (N.shiftl hi 16)) lo))).
Definition first_cluster_fat16 (d : list N) : outcome N := first_cluster_lo d.

(*  get_entry: fields are evaluated in the order written in the struct literal;
    the name is copied last (self.data[0..11]) *)
Definition get_entry (d : list N) (ft : FatType) (blk off : N) : outcome DirEntry :=
  bind (raw_attr d) (fun attr =>
  bind (write_date d) (fun wd => bind (write_time d) (fun wt =>
  bind (create_date d) (fun cd => bind (create_time d) (fun ct =>
  bind (match ft with Fat32 => first_cluster_fat32 d | Fat16 => first_cluster_fat16 d end) (fun cl =>
  let cl' := if (cl =? CLUSTER_EMPTY) && is_directory attr then CLUSTER_ROOT_DIR else cl in
  bind (file_size d) (fun sz =>
  if Nat.leb 11 (length d)
  then Val (mkDirEntry (firstn 11 d) (from_fat wd wt) (from_fat cd ct) attr cl' sz blk off)
  else Panic))))))).

(* ------------------------------------------------------------------ *)
(* filename.rs                                                         *)

Inductive FilenameError : Type :=
| InvalidCharacter | FilenameEmpty | NameTooLong | MisplacedPeriod | Utf8Error.

Definition SPACE : N := 32.
Definition DOT : N := 46.

Definition parent_dir : list N := [DOT; DOT] ++ repeat SPACE 9.
Definition this_dir : list N := [DOT] ++ repeat SPACE 10.

(*  the first match arm:  '\u{0000}'..='\u{001F}' | DQUOTE | '*' | '+' | ',' | '/' | ':' | ';' | '<' | '=' | '>'
                          | '?' | '[' | '\\' | ']' | ' ' | '|'                                              *)
Definition is_invalid_arm (ch : N) : bool :=
  (ch <=? 31) || (ch =? 34) || (ch =? 42) || (ch =? 43) || (ch =? 44) || (ch =? 47) || (ch =? 58)
  || (ch =? 59) || (ch =? 60) || (ch =? 61) || (ch =? 62) || (ch =? 63) || (ch =? 91) || (ch =? 92)
  || (ch =? 93) || (ch =? 32) || (ch =? 124).

(*  char::to_ascii_uppercase *)
Definition to_ascii_uppercase (ch : N) : N :=
  if (97 <=? ch) && (ch <=? 122) then ch - 32 else ch.

(*  sfn.contents[idx] = b   (the guards in the caller keep idx < 11) *)
Fixpoint set_nth (l : list N) (i : nat) (b : N) : list N :=
  match l, i with
  | [], _ => []
  | _ :: r, O => b :: r
  | x :: r, S j => x :: set_nth r j b
  end.

(*  the `for ch in name.chars()` loop; state = (sfn.contents, idx, seen_dot);
    BASE_LEN = 8, TOTAL_LEN = 11 *)
Fixpoint sfn_loop (chars : list N) (contents : list N) (idx : nat) (seen_dot : bool)
  : result (list N * nat) FilenameError :=
  match chars with
  | [] => Ok (contents, idx)
  | ch :: rest =>
    if is_invalid_arm ch then Err InvalidCharacter
    else if 255 <? ch then Err InvalidCharacter
    else if ch =? DOT then
      if negb seen_dot && (Nat.leb 1 idx && Nat.leb idx 8)
      then sfn_loop rest contents 8 true
      else Err MisplacedPeriod
    else
      let b := u8 (to_ascii_uppercase ch) in
      if seen_dot then
        if Nat.leb 8 idx && Nat.ltb idx 11
        then sfn_loop rest (set_nth contents idx b) (S idx) seen_dot
        else Err NameTooLong
      else if Nat.ltb idx 8
        then sfn_loop rest (set_nth contents idx b) (S idx) seen_dot
        else Err NameTooLong
  end.

Definition create_from_str (s : list N) : result (list N) FilenameError :=
  if list_eqb s [DOT; DOT] then Ok parent_dir
  else if list_eqb s [] || list_eqb s [DOT] then Ok this_dir
  else match sfn_loop s (repeat SPACE 11) 0 false with
       | Err e => Err e
       | Ok (contents, idx) => if Nat.eqb idx 0 then Err FilenameEmpty else Ok contents
       end.

(*  Display (no width given): for (i, &c) in contents.iter().enumerate()
      { if c != b' ' { if i == 8 { print a period } ; c as char } }                     *)
Fixpoint display_loop (i : nat) (cs : list N) : list N :=
  match cs with
  | [] => []
  | c :: r => (if c =? SPACE then [] else (if Nat.eqb i 8 then [DOT] else []) ++ [c])
              ++ display_loop (S i) r
  end.
Definition display (n : list N) : list N := display_loop 0 n.

(*  result = result.rotate_right(1).wrapping_add( *b ) *)
Definition rotr8 (x : N) : N := N.lor (N.shiftr x 1) (u8 (N.shiftl x 7)).
Definition csum (contents : list N) : N := fold_left (fun r b => u8 (rotr8 r + b)) contents 0.
