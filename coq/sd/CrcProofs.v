(* PROOFS for C19: the transcribed crc7/crc16 equal the polynomial remainders,
   the residue property, and the error-detection consequences. *)
From Coq Require Import NArith Arith List Lia Bool ZArith.
From SdSd Require Import Poly CrcModel.
Import ListNotations.
Open Scope N_scope.

(* ---- complete enumeration of a finite range, N counter (fast in vm_compute) *)
Fixpoint all_from (fuel : nat) (x : N) (p : N -> bool) : bool :=
  match fuel with
  | O => true
  | S f => p x && all_from f (N.succ x) p
  end.

Lemma all_from_spec fuel p : forall x, all_from fuel x p = true ->
  forall y, x <= y < x + N.of_nat fuel -> p y = true.
Proof.
  induction fuel as [|f IH]; intros x H y Hy; [lia|].
  cbn [all_from] in H. apply andb_true_iff in H. destruct H as [Hx Hr].
  destruct (N.eq_dec y x) as [->|Hne]; [exact Hx|].
  apply (IH (N.succ x) Hr). lia.
Qed.

Lemma sweep (bound : N) (p : N -> bool) :
  all_from (N.to_nat bound) 0 p = true -> forall y, y < bound -> p y = true.
Proof. intros H y Hy. apply (all_from_spec _ _ 0 H). lia. Qed.

(* ---- byte arithmetic *)
Lemma byte_cat a b : b < 256 -> a * 256 + b = N.lxor (N.shiftl a 8) b.
Proof.
  intros Hb. rewrite N.shiftl_mul_pow2. change (2 ^ 8) with 256.
  apply N.add_nocarry_lxor. apply N.bits_inj_0; intro i. rewrite N.land_spec.
  destruct (N.lt_ge_cases i 8) as [Hi|Hi].
  - replace (a * 256) with (N.shiftl a 8) by (rewrite N.shiftl_mul_pow2; reflexivity).
    rewrite N.shiftl_spec_low by exact Hi. reflexivity.
  - rewrite (bounded_lt 8 b Hb i Hi). apply andb_false_r.
Qed.

Lemma lxor_byte x y : x < 256 -> y < 256 -> N.lxor x y < 256.
Proof.
  change 256 with (2 ^ 8). intros Hx Hy.
  apply lt_bounded. apply bounded_lxor; apply bounded_lt; assumption.
Qed.

Lemma msg_poly_app m b : msg_poly (m ++ [b]) = msg_poly m * 256 + b.
Proof. unfold msg_poly. rewrite fold_left_app. reflexivity. Qed.

(* ======================================================================== *)
(* CRC-16 *)

Definition mixA (x : N) := N.lxor x (N.shiftr (N.land x 255) 4).
Definition mixB (x : N) := N.lxor x (u16 (N.shiftl x 12)).
Definition mixC (x : N) := N.lxor x (u16 (N.shiftl (N.land x 255) 5)).
Lemma mix16_stages x : mix16 x = mixC (mixB (mixA x)).
Proof. reflexivity. Qed.
Lemma mixA_lxor x y : mixA (N.lxor x y) = N.lxor (mixA x) (mixA y).
Proof. unfold mixA. rewrite land_lxor_distr_l, N.shiftr_lxor. xor_ring. Qed.
Lemma mixB_lxor x y : mixB (N.lxor x y) = N.lxor (mixB x) (mixB y).
Proof. unfold mixB, u16. rewrite N.shiftl_lxor, land_lxor_distr_l. xor_ring. Qed.
Lemma mixC_lxor x y : mixC (N.lxor x y) = N.lxor (mixC x) (mixC y).
Proof. unfold mixC, u16. rewrite land_lxor_distr_l, N.shiftl_lxor, land_lxor_distr_l. xor_ring. Qed.
Lemma mix16_lxor x y : mix16 (N.lxor x y) = N.lxor (mix16 x) (mix16 y).
Proof. rewrite !mix16_stages, mixA_lxor, mixB_lxor, mixC_lxor. reflexivity. Qed.

Lemma crc16_byte_split c b : crc16_byte c b = N.lxor (crc16_byte c 0) (mix16 b).
Proof. unfold crc16_byte. rewrite N.lxor_0_r. apply mix16_lxor. Qed.

(* finite sweeps: all 2^16 register values, all 2^8 bytes *)
Lemma crc16_state_sweep :
  forall c, c < 65536 -> crc16_byte c 0 = prem G16 16 (N.shiftl c 8).
Proof.
  intros c Hc. apply N.eqb_eq.
  apply (sweep 65536 (fun c => N.eqb (crc16_byte c 0) (prem G16 16 (N.shiftl c 8)))); [|exact Hc].
  vm_compute. reflexivity.
Qed.

Lemma crc16_input_sweep :
  forall b, b < 256 -> mix16 b = prem G16 16 (N.shiftl b 16).
Proof.
  intros b Hb. apply N.eqb_eq.
  apply (sweep 256 (fun b => N.eqb (mix16 b) (prem G16 16 (N.shiftl b 16)))); [|exact Hb].
  vm_compute. reflexivity.
Qed.

Lemma crc16_step c b P :
  b < 256 -> c = prem G16 16 (N.shiftl P 16) ->
  crc16_byte c b = prem G16 16 (N.shiftl (P * 256 + b) 16).
Proof.
  intros Hb Hc.
  assert (Hlt : c < 65536) by (rewrite Hc; apply (prem_lt G16 16 monic_G16)).
  rewrite crc16_byte_split, crc16_state_sweep, crc16_input_sweep by assumption.
  rewrite Hc, (prem_shift_prem G16 16 monic_G16), <- (prem_lxor G16 16 monic_G16).
  f_equal. rewrite byte_cat by exact Hb.
  rewrite N.shiftl_lxor, !N.shiftl_shiftl. reflexivity.
Qed.

Theorem crc16_correct m : bytes m -> crc16 m = crc16_spec m.
Proof.
  unfold crc16, crc16_spec.
  induction m as [|b m IH] using rev_ind; intros Hm.
  - reflexivity.
  - apply Forall_app in Hm. destruct Hm as [Hm Hb]. inversion Hb as [|? ? Hb' _]; subst.
    rewrite fold_left_app. cbn [fold_left]. rewrite msg_poly_app.
    apply crc16_step; [exact Hb'|]. apply IH, Hm.
Qed.

Lemma be16_bytes v : v < 65536 -> bytes (be16 v).
Proof.
  intros Hv. unfold be16, bytes. repeat constructor.
  - apply N.div_lt_upper_bound; lia.
  - apply N.mod_lt; lia.
Qed.

Lemma crc16_lt m : bytes m -> crc16 m < 65536.
Proof. intros Hm. rewrite crc16_correct by exact Hm. apply (prem_lt G16 16 monic_G16). Qed.

Lemma msg_poly_app2 m hi lo : msg_poly (m ++ [hi; lo]) = msg_poly m * 65536 + (hi * 256 + lo).
Proof.
  change [hi; lo] with ([hi] ++ [lo]). rewrite app_assoc, !msg_poly_app. lia.
Qed.

Lemma word_cat a r : r < 65536 -> a * 65536 + r = N.lxor (N.shiftl a 16) r.
Proof.
  intros Hr. rewrite N.shiftl_mul_pow2. change (2 ^ 16) with 65536.
  apply N.add_nocarry_lxor. apply N.bits_inj_0; intro i. rewrite N.land_spec.
  destruct (N.lt_ge_cases i 16) as [Hi|Hi].
  - replace (a * 65536) with (N.shiftl a 16) by (rewrite N.shiftl_mul_pow2; reflexivity).
    rewrite N.shiftl_spec_low by exact Hi. reflexivity.
  - rewrite (bounded_lt 16 r Hr i Hi). apply andb_false_r.
Qed.

Theorem crc16_residue m : bytes m -> crc16 (m ++ be16 (crc16 m)) = 0.
Proof.
  intros Hm. pose proof (crc16_lt m Hm) as Hlt.
  rewrite crc16_correct by (apply Forall_app; split; [exact Hm | apply be16_bytes, Hlt]).
  unfold crc16_spec, be16. rewrite msg_poly_app2.
  replace (crc16 m / 256 * 256 + crc16 m mod 256) with (crc16 m)
    by (rewrite N.mul_comm; apply N.div_mod; lia).
  rewrite word_cat by exact Hlt.
  rewrite crc16_correct by exact Hm. unfold crc16_spec.
  set (A := N.shiftl (msg_poly m) 16).
  rewrite N.shiftl_lxor, (prem_lxor G16 16 monic_G16), (prem_shift_prem G16 16 monic_G16).
  apply N.lxor_nilpotent.
Qed.

(* ---- error patterns *)

Lemma msg_poly_xor_aux d : forall e a a', length d = length e -> bytes d -> bytes e ->
  fold_left (fun acc b => acc * 256 + b) (xor_bytes d e) (N.lxor a a') =
  N.lxor (fold_left (fun acc b => acc * 256 + b) d a) (fold_left (fun acc b => acc * 256 + b) e a').
Proof.
  induction d as [|x d IH]; intros [|y e] a a' Hl Hd He; try discriminate; [reflexivity|].
  inversion Hd as [|? ? Hx Hd']; inversion He as [|? ? Hy He']; subst.
  cbn [xor_bytes fold_left].
  rewrite <- IH by (try assumption; cbn in Hl; lia). f_equal.
  assert (Hxy : N.lxor x y < 256) by (apply lxor_byte; assumption).
  rewrite !byte_cat by assumption. rewrite N.shiftl_lxor. xor_ring.
Qed.

Lemma msg_poly_xor d e : length d = length e -> bytes d -> bytes e ->
  msg_poly (xor_bytes d e) = N.lxor (msg_poly d) (msg_poly e).
Proof.
  intros. unfold msg_poly. rewrite <- (N.lxor_0_l 0) at 1. apply msg_poly_xor_aux; assumption.
Qed.

Lemma xor_bytes_bytes d : forall e, bytes d -> bytes e -> bytes (xor_bytes d e).
Proof.
  induction d as [|x d IH]; intros [|y e] Hd He; try constructor.
  - inversion Hd; inversion He; subst. apply lxor_byte; assumption.
  - inversion Hd; inversion He; subst. apply IH; assumption.
Qed.

(* The received frame is (d xor ed) followed by the checksum (crc16 d) xor ec.
   If the receiver's check passes, the error polynomial E = ed.x^16 + ec is a
   multiple of G16. *)
Lemma undetected_is_multiple d ed ec :
  length d = length ed -> bytes d -> bytes ed -> ec < 65536 ->
  crc16 (xor_bytes d ed) = N.lxor (crc16 d) ec ->
  prem G16 16 (msg_poly ed * 65536 + ec) = 0.
Proof.
  intros Hl Hd He Hec Hpass.
  rewrite !crc16_correct in Hpass by (try apply xor_bytes_bytes; assumption).
  unfold crc16_spec in Hpass. rewrite msg_poly_xor in Hpass by assumption.
  rewrite N.shiftl_lxor, (prem_lxor G16 16 monic_G16) in Hpass.
  rewrite word_cat by exact Hec.
  rewrite (prem_lxor G16 16 monic_G16), (prem_small G16 16 monic_G16 ec) by exact Hec.
  apply N.lxor_eq_0_iff.
  set (X := prem G16 16 (N.shiftl (msg_poly d) 16)) in *.
  set (Y := prem G16 16 (N.shiftl (msg_poly ed) 16)) in *.
  assert (H : N.lxor X (N.lxor X Y) = N.lxor X (N.lxor X ec)) by (f_equal; exact Hpass).
  rewrite <- !N.lxor_assoc, N.lxor_nilpotent, !N.lxor_0_l in H. exact H.
Qed.

(* powers of x modulo G16 never return to 1 within a frame: complete sweep *)
Fixpoint no_one (fuel : nat) (r : N) : bool :=
  match fuel with
  | O => true
  | S f => let r' := prem G16 16 (N.shiftl r 1) in negb (N.eqb r' 1) && no_one f r'
  end.

Lemma no_one_spec fuel : forall r k0, r = prem G16 16 (2 ^ k0) -> no_one fuel r = true ->
  forall k, k0 < k <= k0 + N.of_nat fuel -> prem G16 16 (2 ^ k) <> 1.
Proof.
  induction fuel as [|f IH]; intros r k0 Hr H k Hk; [lia|].
  cbn [no_one] in H. apply andb_true_iff in H. destruct H as [H1 H2].
  assert (Hr' : prem G16 16 (N.shiftl r 1) = prem G16 16 (2 ^ (k0 + 1))).
  { rewrite Hr, (prem_shift_prem G16 16 monic_G16). f_equal.
    rewrite N.shiftl_mul_pow2, N.pow_add_r. reflexivity. }
  destruct (N.eq_dec k (k0 + 1)) as [->|Hne].
  - rewrite <- Hr'. apply negb_true_iff, N.eqb_neq in H1. exact H1.
  - apply (IH _ (k0 + 1) (eq_sym (eq_sym Hr')) H2). lia.
Qed.

Definition FRAME_BITS : N := 4112.   (* (512 + 2) * 8 *)

Lemma xk_not_one k : 1 <= k < FRAME_BITS -> prem G16 16 (2 ^ k) <> 1.
Proof.
  intros Hk. apply (no_one_spec (N.to_nat 4111) 1 0); [reflexivity| |unfold FRAME_BITS in Hk; lia].
  vm_compute. reflexivity.
Qed.

Lemma double_nonzero i j : i < j -> j - i < FRAME_BITS ->
  prem G16 16 (N.lxor (2 ^ i) (2 ^ j)) <> 0.
Proof.
  intros Hij Hk H.
  assert (E : N.lxor (2 ^ i) (2 ^ j) = N.shiftl (N.lxor 1 (2 ^ (j - i))) (N.of_nat (N.to_nat i))).
  { rewrite N2Nat.id, N.shiftl_lxor, !N.shiftl_mul_pow2, N.mul_1_l, <- N.pow_add_r.
    replace (j - i + i) with j by lia. reflexivity. }
  rewrite E in H.
  apply (prem_shift_nonzero G16 16 monic_G16) in H; [|reflexivity|lia].
  rewrite (prem_lxor G16 16 monic_G16), (prem_small G16 16 monic_G16 1) in H by reflexivity.
  apply N.lxor_eq in H. symmetry in H. revert H. apply xk_not_one. lia.
Qed.

Theorem crc16_detects_burst d ed ec b i :
  length d = length ed -> bytes d -> bytes ed -> ec < 65536 ->
  b <> 0 -> b < 2 ^ 16 -> msg_poly ed * 65536 + ec = N.shiftl b i ->
  crc16 (xor_bytes d ed) <> N.lxor (crc16 d) ec.
Proof.
  intros Hl Hd He Hec Hb0 Hb HE Hpass.
  apply undetected_is_multiple in Hpass; try assumption.
  rewrite HE in Hpass. revert Hpass.
  apply (burst_nonzero G16 16 monic_G16); [reflexivity|lia|exact Hb0|exact Hb].
Qed.

Theorem crc16_detects_double d ed ec i j :
  length d = length ed -> bytes d -> bytes ed -> ec < 65536 ->
  i < j -> j < 8 * (N.of_nat (length d) + 2) -> 8 * (N.of_nat (length d) + 2) <= FRAME_BITS ->
  msg_poly ed * 65536 + ec = N.lxor (2 ^ i) (2 ^ j) ->
  crc16 (xor_bytes d ed) <> N.lxor (crc16 d) ec.
Proof.
  intros Hl Hd He Hec Hij Hj Hlen HE Hpass.
  apply undetected_is_multiple in Hpass; try assumption.
  rewrite HE in Hpass. revert Hpass. apply double_nonzero; lia.
Qed.

(* ======================================================================== *)
(* CRC-7 *)

Definition crc7_pair_ok (x : N) : bool :=
  let c := x / 256 in let d := x mod 256 in
  let s := crc7_byte c d in
  (s <? 256) && (s mod 128 =? prem G7 7 (N.lxor (N.shiftl (c mod 128) 8) (N.shiftl d 7))).

Lemma crc7_pair_sweep c d : c < 256 -> d < 256 ->
  crc7_byte c d < 256 /\
  crc7_byte c d mod 128 = prem G7 7 (N.lxor (N.shiftl (c mod 128) 8) (N.shiftl d 7)).
Proof.
  intros Hc Hd.
  assert (H : crc7_pair_ok (c * 256 + d) = true).
  { apply (sweep 65536); [vm_compute; reflexivity | nia]. }
  unfold crc7_pair_ok in H.
  replace ((c * 256 + d) / 256) with c in H
    by (rewrite N.div_add_l by lia; rewrite N.div_small by exact Hd; lia).
  replace ((c * 256 + d) mod 256) with d in H
    by (rewrite N.add_comm, N.mod_add by lia; rewrite N.mod_small by exact Hd; reflexivity).
  apply andb_true_iff in H. destruct H as [H1 H2].
  split; [apply N.ltb_lt, H1 | apply N.eqb_eq, H2].
Qed.

Lemma crc7_final_sweep s : s < 256 -> crc7_final s = 2 * (s mod 128) + 1.
Proof.
  intros Hs. apply N.eqb_eq.
  apply (sweep 256 (fun s => N.eqb (crc7_final s) (2 * (s mod 128) + 1))); [|exact Hs].
  vm_compute. reflexivity.
Qed.

Lemma crc7_state m : bytes m ->
  let s := fold_left crc7_byte m 0 in
  s < 256 /\ s mod 128 = prem G7 7 (N.shiftl (msg_poly m) 7).
Proof.
  induction m as [|b m IH] using rev_ind; intros Hm.
  - cbn. split; [lia | reflexivity].
  - apply Forall_app in Hm. destruct Hm as [Hm Hb]. inversion Hb as [|? ? Hb' _]; subst.
    specialize (IH Hm). cbn zeta in IH. destruct IH as [Hlt Hmod].
    cbn zeta. rewrite fold_left_app. cbn [fold_left].
    destruct (crc7_pair_sweep _ b Hlt Hb') as [H1 H2].
    split; [exact H1|]. rewrite H2, Hmod, msg_poly_app.
    rewrite (prem_lxor G7 7 monic_G7), (prem_shift_prem G7 7 monic_G7),
      <- (prem_lxor G7 7 monic_G7).
    f_equal. rewrite byte_cat by exact Hb'. rewrite N.shiftl_lxor, !N.shiftl_shiftl. reflexivity.
Qed.

Theorem crc7_correct m : bytes m -> crc7 m = crc7_spec m.
Proof.
  intros Hm. destruct (crc7_state m Hm) as [Hlt Hmod].
  unfold crc7, crc7_spec. rewrite crc7_final_sweep by exact Hlt. rewrite Hmod. reflexivity.
Qed.

(* ---- non-vacuity / ground truth: published check values *)
Definition ascii_123456789 : list N := [49;50;51;52;53;54;55;56;57].
Example crc16_check_value : crc16 ascii_123456789 = 12739 (* 0x31C3, CRC-16/XMODEM *).
Proof. reflexivity. Qed.
Example crc16_spec_check_value : crc16_spec ascii_123456789 = 12739.
Proof. vm_compute. reflexivity. Qed.
Example crc7_spec_check_value : crc7_spec ascii_123456789 = 2 * 117 + 1 (* CRC-7/MMC 0x75 *).
Proof. vm_compute. reflexivity. Qed.
Example crc7_cmd0 : crc7 [64;0;0;0;0] = 149 (* CMD0 frame ends in 0x95 *).
Proof. reflexivity. Qed.
Example crc7_repo_vector :
  crc7 [0;38;0;50;95;89;131;200;173;219;207;255;210;64;64] = 165.
Proof. reflexivity. Qed.
Example detects_hyp_satisfiable :
  exists d ed ec b i, length d = length ed /\ bytes d /\ bytes ed /\ ec < 65536 /\ b <> 0 /\
     b < 2 ^ 16 /\ msg_poly ed * 65536 + ec = N.shiftl b i.
Proof.
  exists [1;2], [0;128], 0, 1, 23.
  split; [reflexivity|]. split; [repeat constructor|]. split; [repeat constructor|].
  split; [reflexivity|]. split; [discriminate|]. split; reflexivity.
Qed.
