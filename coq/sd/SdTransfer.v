(* PROOFS, part 7: single-block transfers between the driver and LEGALCARD (C12_read1,
   C12_write1), the capacity query, with the rule checker following along (C14). *)
From Coq Require Import NArith Arith List Lia Bool ZArith.
From SdSd Require Import Poly CrcModel CrcProofs SdModel SdSpec SdBound SdSafety SdCapacity SdCardLemmas SdSystem SdInit.
Import ListNotations.
Open Scope N_scope.

(* ---- the rule checker during data phases ------------------------------------------------- *)
(* reading: j FF bytes clocked in the data phase, j below what is left *)
Lemma hbytes_rdata_part : forall j ms multi len nleft last st crc app,
  (j < nleft)%nat ->
  exists last', hbytes false (mkh (HRData multi len nleft) last st crc app) (FF j) ms true =
                inl (mkh (HRData multi len (nleft - j)) last' st crc app).
Proof.
  induction j as [|j IH]; intros ms multi len nleft last st crc app Hj.
  - exists last. cbn [FF repeat hbytes]. rewrite Nat.sub_0_r. reflexivity.
  - destruct nleft as [|[|nl]]; try lia.
    cbn [FF repeat hbytes]. unfold hstep. cbn [h_mode mkh]. change (255 =? 255) with true. cbv iota beta zeta.
    cbn [hsee hset h_mode h_last h_stage h_crc h_app mkh].
    fold (FF j).
    destruct (IH (tl ms) multi len (S nl) (match ms with [] => 255 | x :: _ => x end) st crc app ltac:(lia)) as [last' E].
    exists last'. replace (S (S nl) - S j)%nat with (S nl - j)%nat by lia.
    unfold mkh in *. rewrite <- E. reflexivity.
Qed.

(* ... and the last bytes of the phase *)
Lemma hbytes_rdata_end : forall j ms multi len last st crc app, (0 < j)%nat ->
  exists last', hbytes false (mkh (HRData multi len j) last st crc app) (FF j) ms true =
                inl (mkh (if multi then HRTok true len else HFree) last' st crc app).
Proof.
  induction j as [|j IH]; intros ms multi len last st crc app Hj; [lia|].
  destruct j as [|j].
  - eexists. cbn [FF repeat hbytes]. unfold hstep. cbn [h_mode mkh]. change (255 =? 255) with true. cbv iota beta zeta.
    cbn [hsee hset h_mode h_last h_stage h_crc h_app mkh]. reflexivity.
  - cbn [FF repeat hbytes]. unfold hstep at 1. cbn [h_mode mkh]. change (255 =? 255) with true. cbv iota beta zeta.
    cbn [hsee hset h_mode h_last h_stage h_crc h_app mkh]. fold (FF (S j)).
    destruct (IH (tl ms) multi len (match ms with [] => 255 | x :: _ => x end) st crc app ltac:(lia)) as [last' E].
    exists last'. unfold mkh in *. rewrite <- E. reflexivity.
Qed.

Lemma be16_val_be16 v : v < 65536 -> be16_val (nth 0 (be16 v) 0) (nth 1 (be16 v) 0) = v.
Proof. intros H. cbn [be16 nth]. unfold be16_val. pose proof (N.div_mod v 256). lia. Qed.

Lemma be16_length v : length (be16 v) = 2%nat. Proof. reflexivity. Qed.

(* ---- read_data against a card whose queue holds  N_AC fill bytes + a data packet ------------ *)
Lemma read_data_sys (o : opts) len d nac more c t ct multi last st crc ap :
  c_fbuf c = [] -> c_out c = FF nac ++ data_packet d ++ more -> (nac <= N.to_nat READ_RETRIES)%nat ->
  length d = len -> bytes d ->
  mon t = inl (mkh (HRTok multi (len + 2)) last st crc ap) ->
  exists t', read_data card card_spi o len (sys c t ct) = (Ok d, sys (set_out c more (c_phase c)) t' ct) /\
             exists last', mon t' = inl (mkh (if multi then HRTok true (len + 2) else HFree) last' st crc ap).
Proof.
  intros Hf Ho Hn Hl Hb Hm. unfold read_data.
  unfold data_packet in Ho. cbn [app] in Ho.
  destruct (read_token_sys (N.to_nat READ_RETRIES) nac ((d ++ be16 (crc16 d)) ++ more) c t ct Hn Hf Ho)
    as (t1 & E1 & M1).
  unfold bind at 1. rewrite E1. change (negb (254 =? DATA_START_BLOCK)) with false. cbv iota.
  (* payload *)
  set (c1 := set_out c ((d ++ be16 (crc16 d)) ++ more) (c_phase c)).
  assert (B1 : card_bytes c1 (repeat 255 len) = (set_out c (be16 (crc16 d) ++ more) (c_phase c), d)).
  { rewrite <- Hl. change (repeat 255 (length d)) with (FF (length d)).
    rewrite (card_bytes_queue d c1 (be16 (crc16 d) ++ more)); [reflexivity|exact Hf|].
    subst c1. cbn [c_out set_out]. rewrite <- app_assoc. reflexivity. }
  unfold bind at 1. rewrite (transfer_bytes_sys c1 t1 ct (repeat 255 len) _ d B1).
  (* CRC *)
  set (c2 := set_out c (be16 (crc16 d) ++ more) (c_phase c)).
  assert (B2 : card_bytes c2 [255; 255] = (set_out c more (c_phase c), be16 (crc16 d))).
  { change [255; 255] with (FF (length (be16 (crc16 d)))).
    rewrite (card_bytes_queue (be16 (crc16 d)) c2 more); [reflexivity|exact Hf|reflexivity]. }
  unfold bind at 1. rewrite (transfer_bytes_sys c2 _ ct [255; 255] _ (be16 (crc16 d)) B2).
  assert (F1 : fit (repeat 255 len) d = d).
  { apply fit_bytes_id; [rewrite repeat_length; exact Hl|exact Hb]. }
  assert (F2 : fit [255; 255] (be16 (crc16 d)) = be16 (crc16 d)).
  { apply fit_bytes_id; [reflexivity|apply be16_bytes, crc16_lt, Hb]. }
  rewrite F1, F2. rewrite (be16_val_be16 (crc16 d)) by (apply crc16_lt, Hb).
  rewrite N.eqb_refl. cbn [negb].
  eexists. split.
  - destruct (use_crc o); reflexivity.
  - rewrite !mon_inplace, M1, Hm. rewrite (hpolls_token nac _ multi (len + 2)) by reflexivity.
    cbn [hsee hset mkh h_mode h_last h_stage h_crc h_app].
    rewrite F1, F2.
    change (repeat 255 len) with (FF len).
    destruct (hbytes_rdata_part len d multi (len + 2) (len + 2) 254 st crc ap ltac:(lia)) as [l1 E3].
    unfold mkh in E3. cbv [hset hsee mkh h_mode h_last h_stage h_crc h_app]. rewrite E3. replace (len + 2 - len)%nat with 2%nat by lia.
    destruct (hbytes_rdata_end 2 (be16 (crc16 d)) multi (len + 2) l1 st crc ap ltac:(lia)) as [l2 E4].
    change [255; 255] with (FF 2). unfold mkh in E4. rewrite E4. exists l2. reflexivity.
Qed.

(* ---- the card receiving a data block ----------------------------------------------------------- *)
Lemma card_recv_part : forall l c multi blk got nleft,
  c_out c = [] -> c_phase c = PRecv multi blk got nleft -> (length l < nleft)%nat ->
  card_bytes c l = (set_out c [] (PRecv multi blk (got ++ l) (nleft - length l)), FF (length l)).
Proof.
  induction l as [|m l IH]; intros c multi blk got nleft Ho Hp Hl.
  - cbn [card_bytes length FF repeat]. rewrite app_nil_r, Nat.sub_0_r. rewrite <- Hp, <- Ho. rewrite set_out_same. reflexivity.
  - cbn [length] in Hl. destruct nleft as [|[|nl]]; try lia.
    cbn [card_bytes]. unfold card_byte at 1. rewrite Ho, Hp.
    rewrite (IH (set_out c [] (PRecv multi blk (got ++ [m]) (S nl))) multi blk (got ++ [m]) (S nl) eq_refl eq_refl ltac:(lia)).
    cbn [length FF repeat]. rewrite <- app_assoc. cbn [app].
    replace (S (S nl) - S (length l))%nat with (S nl - length l)%nat by lia. reflexivity.
Qed.

Lemma card_recv_last c multi blk got m :
  c_out c = [] -> c_phase c = PRecv multi blk got 1 ->
  card_byte c m = (on_block c multi blk (got ++ [m]), 255).
Proof. intros Ho Hp. unfold card_byte. rewrite Ho, Hp. reflexivity. Qed.

(* the whole block: 512 bytes and the two CRC bytes *)
Lemma card_recv_block c multi blk (buf : list N) x y :
  c_out c = [] -> c_phase c = PRecv multi blk [] 514 -> length buf = 512%nat ->
  fst (card_bytes (fst (card_bytes c buf)) [x; y]) = on_block (set_out c [] (PRecv multi blk (buf ++ [x]) 1)) multi blk (buf ++ [x; y]).
Proof.
  intros Ho Hp Hl.
  rewrite (card_recv_part buf c multi blk [] 514 Ho Hp ltac:(lia)). cbn [fst app].
  rewrite Hl. change (514 - 512)%nat with 2%nat.
  set (c1 := set_out c [] (PRecv multi blk buf 2)).
  assert (E1 : card_byte c1 x = (set_out c [] (PRecv multi blk (buf ++ [x]) 1), 255)) by reflexivity.
  cbn [card_bytes]. rewrite E1.
  rewrite (card_recv_last (set_out c [] (PRecv multi blk (buf ++ [x]) 1)) multi blk (buf ++ [x]) y eq_refl eq_refl).
  cbn [fst]. rewrite <- app_assoc. reflexivity.
Qed.

(* ---- the rule checker during a written data block ------------------------------------------------ *)
Lemma hbytes_wdata_part : forall l ms multi rgot nleft last st crc ap,
  (length l < nleft)%nat ->
  hbytes false (mkh (HWData multi rgot nleft) last st crc ap) l ms false =
  inl (mkh (HWData multi (rev l ++ rgot) (nleft - length l)) last st crc ap).
Proof.
  induction l as [|m l IH]; intros ms multi rgot nleft last st crc ap Hl.
  - cbn [hbytes rev app length]. rewrite Nat.sub_0_r. reflexivity.
  - cbn [length] in Hl. destruct nleft as [|[|nl]]; try lia.
    cbn [hbytes]. unfold hstep. cbn [h_mode mkh hsee hset h_last h_stage h_crc h_app].
    cbn [rev length]. rewrite <- app_assoc. cbn [app].
    replace (S (S nl) - S (length l))%nat with (S nl - length l)%nat by lia.
    exact (IH (tl ms) multi (m :: rgot) (S nl) last st crc ap ltac:(lia)).
Qed.

Lemma firstn_app_exact {A} (a b : list A) n : length a = n -> firstn n (a ++ b) = a.
Proof. intros <-. rewrite firstn_app, Nat.sub_diag, firstn_all. cbn. apply app_nil_r. Qed.

Lemma nth_app_r {A} (a b : list A) n k d : length a = n -> nth (n + k) (a ++ b) d = nth k b d.
Proof. intros <-. rewrite app_nth2 by lia. f_equal. lia. Qed.

(* the two CRC bytes complete the block; with CRC on they must be the CRC-16 of the payload *)
Lemma hbytes_wdata_end buf x y ms multi last st crc ap :
  length buf = 512%nat -> (crc = true -> be16_val x y = crc16 buf) ->
  hbytes false (mkh (HWData multi (rev buf) 2) last st crc ap) [x; y] ms false =
  inl (mkh (HWResp multi) last st crc ap).
Proof.
  intros Hl Hc. cbn [hbytes]. unfold hstep at 1. cbn [h_mode mkh hsee hset h_last h_stage h_crc h_app].
  unfold hstep. cbn [h_mode mkh hsee hset h_last h_stage h_crc h_app].
  replace (rev (y :: x :: rev buf)) with (buf ++ [x; y]).
  2:{ cbn [rev]. rewrite rev_involutive, <- app_assoc. reflexivity. }
  rewrite (firstn_app_exact buf [x; y] 512 Hl).
  assert (N1 : nth 512 (buf ++ [x; y]) 0 = x) by (rewrite app_nth2 by lia; rewrite Hl; reflexivity).
  assert (N2 : nth 513 (buf ++ [x; y]) 0 = y) by (rewrite app_nth2 by lia; rewrite Hl; reflexivity).
  rewrite N1, N2.
  destruct crc; cbn [andb].
  - rewrite (Hc eq_refl), N.eqb_refl. reflexivity.
  - reflexivity.
Qed.

Section Transfer.
  Variable o : opts.
  Variable kd : kind.
  Variable csd : list N.
  Variable tim : timing.
  Hypothesis Htim : legal_timing tim.

  Notation MKC := (mkc kd csd tim).
  Notation crc := (use_crc o).
  Notation NB := (spec_capacity_blocks csd).

  (* every block of the card can be addressed with a 32-bit argument *)
  Definition addressable : Prop :=
    match kd with V2HC => NB <= 2 ^ 32 | _ => NB * 512 <= 2 ^ 32 end.
  Hypothesis Haddr : addressable.

  Definition addr_of (idx : N) : N := match kd with V2HC => idx | _ => idx * 512 end.

  Lemma addr_lt idx : idx < NB -> addr_of idx < 2 ^ 32.
  Proof. unfold addr_of, addressable in *. destruct kd; lia. Qed.

  Lemma decode_addr_ok c idx : k_kind c = kd -> k_csd c = csd -> idx < NB ->
    decode_addr c (addr_of idx) = inl idx.
  Proof.
    intros Hk Hc Hi. unfold decode_addr, addr_of, nblocks. rewrite Hk, Hc.
    destruct kd.
    - rewrite N.mod_mul by discriminate. cbn [N.eqb negb]. rewrite N.div_mul by discriminate.
      apply N.ltb_lt in Hi. rewrite Hi. reflexivity.
    - rewrite N.mod_mul by discriminate. cbn [N.eqb negb]. rewrite N.div_mul by discriminate.
      apply N.ltb_lt in Hi. rewrite Hi. reflexivity.
    - apply N.ltb_lt in Hi. rewrite Hi. reflexivity.
  Qed.

  Lemma start_idx_sys c t idx err : idx < NB ->
    start_idx card idx err (sys c t (Some (type_of kd))) = (Ok (addr_of idx), sys c t (Some (type_of kd))).
  Proof.
    intros Hi. pose proof (addr_lt idx Hi) as Ha. unfold start_idx, bind, get_ctype, addr_of in *.
    cbn [ctype sys]. destruct kd; cbn [type_of]; try reflexivity;
      (destruct (N.leb_spec (2 ^ 32) (idx * 512)); [lia|reflexivity]).
  Qed.

  Lemma nac_ok k : (t_nac tim k <= N.to_nat READ_RETRIES)%nat.
  Proof. apply (Htim k). Qed.
  Lemma busy_w_ok k : (t_busy_w tim k <= N.to_nat WRITE_RETRIES)%nat.
  Proof. apply (Htim k). Qed.
  Lemma busy_c_ok k : (t_busy_c tim k <= N.to_nat COMMAND_RETRIES)%nat.
  Proof. apply (Htim k). Qed.

  (* ---- C12_read1 ---------------------------------------------------------------------------- *)
  Lemma read1_sys mem il tk k t last idx :
    (forall b, length (mem b) = 512%nat /\ bytes (mem b)) ->
    (k <= N.to_nat COMMAND_RETRIES)%nat -> idx < NB ->
    mon t = inl (mkh HFree last IReady crc false) ->
    exists t' last',
      read_inner card card_spi o 1 idx (sys (MKC mem false crc false il false tk (BUSY k) PIdle) t (Some (type_of kd))) =
        (Ok [mem idx], sys (MKC mem false crc false il false (tk + 1) [] PIdle) t' (Some (type_of kd))) /\
      mon t' = inl (mkh HFree last' IReady crc false).
  Proof.
    intros Hmem Hk Hi Hm. unfold read_inner. unfold bind at 1. rewrite (start_idx_sys _ t idx ReadError Hi).
    pose proof (addr_lt idx Hi) as Ha.
    destruct (card_command_sys 17 (addr_of idx) k (MKC mem false crc false il false tk (BUSY k) PIdle) t (Some (type_of kd))
                (mkh HFree last IReady crc false)
                (MKC mem false crc false il false (tk + 1)
                     (FF (t_ncr tim tk) ++ 0 :: FF (t_nac tim tk) ++ data_packet (mem idx)) PIdle)
                (t_ncr tim tk) 0 (FF (t_nac tim tk) ++ data_packet (mem idx))) as (t1 & E1 & M1);
      try reflexivity; try assumption; try discriminate; try apply (ncr_ok tim Htim).
    { unfold exec. cbn -[FF BUSY t_ncr t_nac decode_addr data_packet].
      rewrite decode_addr_ok by (try reflexivity; exact Hi). reflexivity. }
    set (cA := MKC mem false crc false il false (tk + 1) (FF (t_nac tim tk) ++ data_packet (mem idx)) PIdle).
    change (sys (set_out _ _ _) t1 (Some (type_of kd))) with (sys cA t1 (Some (type_of kd))) in E1.
    unfold CMD17. unfold bind at 1. rewrite E1. cbn [negb N.eqb].
    destruct (Hmem idx) as [Hl Hb].
    assert (Ho : c_out cA = FF (t_nac tim tk) ++ data_packet (mem idx) ++ []).
    { subst cA. cbn [c_out mkc]. rewrite app_nil_r. reflexivity. }
    assert (M1' : mon t1 = inl (mkh (HRTok false (512 + 2)) 0 IReady crc false)).
    { rewrite M1. reflexivity. }
    destruct (read_data_sys o 512 (mem idx) (t_nac tim tk) [] cA t1 (Some (type_of kd)) false 0 IReady crc false
                eq_refl Ho (nac_ok tk) Hl Hb M1') as (t2 & E2 & last2 & M2).
    exists t2, last2. split; [|exact M2]. unfold bind. rewrite E2. reflexivity.
  Qed.

  (* ---- one data block written to the card ------------------------------------------------------ *)
  Definition tok_of (multi : bool) : N := if multi then WRITE_MULTIPLE_TOKEN else DATA_START_BLOCK.

  Lemma on_block_ok mem il tk multi blk (buf : list N) x y :
    length buf = 512%nat -> blk < NB -> (crc = true -> be16_val x y = crc16 buf) ->
    on_block (MKC mem false crc false il false tk [] (PRecv multi blk (buf ++ [x]) 1)) multi blk (buf ++ [x; y]) =
    MKC (upd_mem mem blk buf) false crc false il false (tk + 1) (229 :: BUSY (t_busy_w tim tk))
        (if multi then PWaitTok true (blk + 1) else PIdle).
  Proof.
    intros Hl Hb Hc. unfold on_block.
    rewrite (firstn_app_exact buf [x; y] 512 Hl).
    assert (N1 : nth 512 (buf ++ [x; y]) 0 = x) by (rewrite app_nth2 by lia; rewrite Hl; reflexivity).
    assert (N2 : nth 513 (buf ++ [x; y]) 0 = y) by (rewrite app_nth2 by lia; rewrite Hl; reflexivity).
    rewrite N1, N2. cbn [c_crc mkc].
    replace (crc && negb (crc16 buf =? be16_val x y)) with false.
    2:{ destruct crc; [|reflexivity]. rewrite (Hc eq_refl), N.eqb_refl. reflexivity. }
    unfold nblocks. cbn [k_csd mkc]. apply N.ltb_lt in Hb. rewrite Hb. cbn [negb].
    reflexivity.
  Qed.

  Lemma crc_field_two (buf : list N) : exists x y, crc_field o buf = [x; y] /\ (crc = true -> be16_val x y = crc16 buf).
  Proof.
    unfold crc_field. destruct crc.
    - exists (crc16 buf / 256), (crc16 buf mod 256). split; [reflexivity|]. intros _.
      unfold be16_val. pose proof (N.div_mod (crc16 buf) 256). lia.
    - exists 255, 255. split; [reflexivity|discriminate].
  Qed.

  Lemma write_data_sys mem il tk multi blk buf t ct last :
    length buf = 512%nat -> blk < NB -> (multi = true -> last = 255) ->
    mon t = inl (mkh (HWTok multi) last IReady crc false) ->
    exists t', write_data card card_spi o (tok_of multi) buf
                 (sys (MKC mem false crc false il false tk [] (PWaitTok multi blk)) t ct) =
               (Ok tt, sys (MKC (upd_mem mem blk buf) false crc false il false (tk + 1)
                                (BUSY (t_busy_w tim tk)) (if multi then PWaitTok true (blk + 1) else PIdle)) t' ct) /\
             mon t' = inl (mkh (if multi then HWTok true else HFree) 229 IReady crc false).
  Proof.
    intros Hl Hb Hlast Hm. unfold write_data.
    set (c0 := MKC mem false crc false il false tk [] (PWaitTok multi blk)).
    set (c1 := MKC mem false crc false il false tk [] (PRecv multi blk [] 514)).
    assert (T : card_byte c0 (tok_of multi) = (c1, 255)) by (destruct multi; reflexivity).
    unfold bind at 1. rewrite (write_byte_sys c0 t ct (tok_of multi) c1 255 T).
    (* payload *)
    assert (B1 : card_bytes c1 buf = (MKC mem false crc false il false tk [] (PRecv multi blk buf 2), FF 512)).
    { rewrite (card_recv_part buf c1 multi blk [] 514 eq_refl eq_refl ltac:(lia)). rewrite Hl. reflexivity. }
    unfold bind at 1. rewrite (write_bytes_sys c1 _ ct buf _ _ B1).
    (* CRC field *)
    fold (crc_field o buf). destruct (crc_field_two buf) as (x & y & Ecf & Hcrc). rewrite Ecf.
    set (c2 := MKC mem false crc false il false tk [] (PRecv multi blk buf 2)).
    assert (B2 : card_bytes c2 [x; y] =
                 (MKC (upd_mem mem blk buf) false crc false il false (tk + 1) (229 :: BUSY (t_busy_w tim tk))
                      (if multi then PWaitTok true (blk + 1) else PIdle), [255; 255])).
    { cbn [card_bytes].
      assert (E1 : card_byte c2 x = (MKC mem false crc false il false tk [] (PRecv multi blk (buf ++ [x]) 1), 255)) by reflexivity.
      rewrite E1.
      rewrite (card_recv_last (MKC mem false crc false il false tk [] (PRecv multi blk (buf ++ [x]) 1)) multi blk (buf ++ [x]) y eq_refl eq_refl).
      rewrite <- app_assoc. cbn [app]. rewrite (on_block_ok mem il tk multi blk buf x y Hl Hb Hcrc). reflexivity. }
    unfold bind at 1. rewrite (write_bytes_sys c2 _ ct [x; y] _ _ B2).
    (* data response *)
    set (c3 := MKC (upd_mem mem blk buf) false crc false il false (tk + 1) (229 :: BUSY (t_busy_w tim tk))
                   (if multi then PWaitTok true (blk + 1) else PIdle)).
    assert (R : card_byte c3 255 = (MKC (upd_mem mem blk buf) false crc false il false (tk + 1) (BUSY (t_busy_w tim tk))
                                        (if multi then PWaitTok true (blk + 1) else PIdle), 229)).
    { apply (card_byte_queued c3 229 (BUSY (t_busy_w tim tk))); reflexivity. }
    unfold bind at 1. rewrite (read_byte_sys c3 _ ct _ 229 R).
    change (negb (N.land (u8 229) DATA_RES_MASK =? DATA_RES_ACCEPTED)) with false. cbv iota.
    eexists. split; [reflexivity|].
    rewrite mon_transfer1, !mon_write, mon_transfer1, Hm.
    (* the token *)
    assert (HT : hstep_m (inl (mkh (HWTok multi) last IReady crc false)) (tok_of multi) (Some (u8 255)) =
                 inl (mkh (HWData multi [] 514) 255 IReady crc false)).
    { destruct multi; cbn [tok_of hstep_m]; unfold hstep; cbn [h_mode mkh hsee h_last]; [rewrite (Hlast eq_refl)|]; reflexivity. }
    rewrite HT.
    rewrite (hbytes_wdata_part buf (FF 512) multi [] 514 255 IReady crc false ltac:(lia)).
    rewrite app_nil_r, Hl. change (514 - 512)%nat with 2%nat.
    rewrite (hbytes_wdata_end buf x y [255; 255] multi 255 IReady crc false Hl Hcrc).
    cbn [hstep_m]. unfold hstep. cbn [h_mode mkh hsee hset h_last h_stage h_crc h_app]. destruct multi; reflexivity.
  Qed.

  (* ---- C12_write1 ------------------------------------------------------------------------------ *)
  Lemma write1_sys mem il tk k t last idx b :
    length b = 512%nat -> (k <= N.to_nat COMMAND_RETRIES)%nat -> idx < NB ->
    mon t = inl (mkh HFree last IReady crc false) ->
    exists t' tk',
      write_inner card card_spi o [b] idx (sys (MKC mem false crc false il false tk (BUSY k) PIdle) t (Some (type_of kd))) =
        (Ok tt, sys (MKC (upd_mem mem idx b) false crc false il false tk' [] PIdle) t' (Some (type_of kd))) /\
      mon t' = inl (mkh HFree 0 IReady crc false).
  Proof.
    intros Hl Hk Hi Hm. unfold write_inner. unfold bind at 1. rewrite (start_idx_sys _ t idx WriteError Hi).
    pose proof (addr_lt idx Hi) as Ha.
    (* CMD24 *)
    destruct (card_command_sys 24 (addr_of idx) k (MKC mem false crc false il false tk (BUSY k) PIdle) t (Some (type_of kd))
                (mkh HFree last IReady crc false)
                (MKC mem false crc false il false (tk + 1) (FF (t_ncr tim tk) ++ [0]) (PWaitTok false idx))
                (t_ncr tim tk) 0 []) as (t1 & E1 & M1);
      try reflexivity; try assumption; try discriminate; try apply (ncr_ok tim Htim).
    { unfold exec. cbn -[FF BUSY t_ncr t_nac decode_addr data_packet].
      rewrite decode_addr_ok by (try reflexivity; exact Hi). reflexivity. }
    change (sys (set_out _ _ _) t1 (Some (type_of kd)))
      with (sys (MKC mem false crc false il false (tk + 1) [] (PWaitTok false idx)) t1 (Some (type_of kd))) in E1.
    unfold CMD24. unfold bind at 1. rewrite E1. cbn [negb N.eqb].
    (* the data block *)
    destruct (write_data_sys mem il (tk + 1) false idx b t1 (Some (type_of kd)) 0 Hl Hi ltac:(discriminate))
      as (t2 & E2 & M2).
    { rewrite M1. reflexivity. }
    cbn [tok_of] in E2. unfold bind at 1. rewrite E2.
    (* busy *)
    destruct (wait_not_busy_sys (N.to_nat WRITE_RETRIES) (t_busy_w tim (tk + 1))
                (MKC (upd_mem mem idx b) false crc false il false (tk + 1 + 1) (BUSY (t_busy_w tim (tk + 1))) PIdle)
                t2 (Some (type_of kd)) (busy_w_ok _) eq_refl eq_refl (or_introl eq_refl)) as (t3 & E3 & M3).
    unfold bind at 1. rewrite E3.
    change (set_out _ [] _) with (MKC (upd_mem mem idx b) false crc false il false (tk + 1 + 1) (BUSY 0) PIdle).
    (* CMD13 *)
    destruct (card_command_sys 13 0 O (MKC (upd_mem mem idx b) false crc false il false (tk + 1 + 1) (BUSY 0) PIdle) t3 (Some (type_of kd))
                (mkh HFree 255 IReady crc false)
                (MKC (upd_mem mem idx b) false crc false il false (tk + 1 + 1 + 1) (FF (t_ncr tim (tk + 1 + 1)) ++ [0; 0]) PIdle)
                (t_ncr tim (tk + 1 + 1)) 0 [0]) as (t4 & E4 & M4);
      try reflexivity; try assumption; try discriminate; try apply (ncr_ok tim Htim); try lia.
    { rewrite M3, M2. rewrite hpolls_busy by (left; reflexivity). reflexivity. }
    change (sys (set_out _ _ _) t4 (Some (type_of kd)))
      with (sys (MKC (upd_mem mem idx b) false crc false il false (tk + 1 + 1 + 1) [0] PIdle) t4 (Some (type_of kd))) in E4.
    unfold CMD13. unfold bind at 1. rewrite E4. cbn [negb N.eqb].
    (* the second status byte *)
    assert (R : card_byte (MKC (upd_mem mem idx b) false crc false il false (tk + 1 + 1 + 1) [0] PIdle) 255 =
                (MKC (upd_mem mem idx b) false crc false il false (tk + 1 + 1 + 1) [] PIdle, 0)).
    { exact (card_byte_queued (MKC (upd_mem mem idx b) false crc false il false (tk + 1 + 1 + 1) [0] PIdle) 0 [] eq_refl eq_refl). }
    unfold bind at 1. rewrite (read_byte_sys _ t4 _ _ 0 R). change (negb (u8 0 =? 0)) with false. cbv iota.
    eexists _, (tk + 1 + 1 + 1). split; [reflexivity|].
    rewrite mon_transfer1, M4. reflexivity.
  Qed.

  (* ---- C12_capacity: the CSD register is read back exactly ---------------------------------------- *)
  Lemma read_csd_data_sys mem il tk k t last :
    is_csd csd -> (k <= N.to_nat COMMAND_RETRIES)%nat ->
    mon t = inl (mkh HFree last IReady crc false) ->
    exists t' last',
      bind card (card_command card card_spi CMD9 0) (fun r =>
        if negb (r =? 0) then fail card RegisterReadError else read_data card card_spi o 16)
        (sys (MKC mem false crc false il false tk (BUSY k) PIdle) t (Some (type_of kd))) =
        (Ok csd, sys (MKC mem false crc false il false (tk + 1) [] PIdle) t' (Some (type_of kd))) /\
      mon t' = inl (mkh HFree last' IReady crc false).
  Proof.
    intros [Hl Hb] Hk Hm.
    destruct (card_command_sys 9 0 k (MKC mem false crc false il false tk (BUSY k) PIdle) t (Some (type_of kd))
                (mkh HFree last IReady crc false)
                (MKC mem false crc false il false (tk + 1)
                     (FF (t_ncr tim tk) ++ 0 :: FF (t_nac tim tk) ++ data_packet csd) PIdle)
                (t_ncr tim tk) 0 (FF (t_nac tim tk) ++ data_packet csd)) as (t1 & E1 & M1);
      try reflexivity; try assumption; try discriminate; try apply (ncr_ok tim Htim).
    set (cA := MKC mem false crc false il false (tk + 1) (FF (t_nac tim tk) ++ data_packet csd) PIdle).
    change (sys (set_out _ _ _) t1 (Some (type_of kd))) with (sys cA t1 (Some (type_of kd))) in E1.
    unfold CMD9. unfold bind at 1. rewrite E1. cbn [negb N.eqb].
    assert (Ho : c_out cA = FF (t_nac tim tk) ++ data_packet csd ++ []).
    { subst cA. cbn [c_out mkc]. rewrite app_nil_r. reflexivity. }
    assert (M1' : mon t1 = inl (mkh (HRTok false (16 + 2)) 0 IReady crc false)).
    { rewrite M1. reflexivity. }
    destruct (read_data_sys o 16 csd (t_nac tim tk) [] cA t1 (Some (type_of kd)) false 0 IReady crc false
                eq_refl Ho (nac_ok tk) Hl Hb M1') as (t2 & E2 & last2 & M2).
    exists t2, last2. split; [exact E2|exact M2].
  Qed.

  Lemma csd_structure_byte : is_csd csd -> N.shiftr (nth 0 csd 0) 6 = CSD_STRUCTURE csd.
  Proof.
    intros H. rewrite <- (csd_ver_ok csd H). unfold csd_ver. rewrite field_arith by lia.
    rewrite N.shiftr_div_pow2. destruct H as [Hl Hb].
    destruct csd as [|b0 rest]; [discriminate|]. cbn [nth]. inversion Hb; subst.
    symmetry. apply N.mod_small. change (2 ^ 6) with 64. change (2 ^ 2) with 4.
    apply N.div_lt_upper_bound; lia.
  Qed.

  (* what the card's register encodes, as a u32 block count *)
  Definition card_blocks : N := N.min NB (2 ^ 32 - 1).

  Hypothesis Hcsd : is_csd csd.
  Hypothesis Hstruct : CSD_STRUCTURE csd = 0 \/ CSD_STRUCTURE csd = 1.

  Lemma read_csd_sys mem il tk k t last :
    (k <= N.to_nat COMMAND_RETRIES)%nat -> mon t = inl (mkh HFree last IReady crc false) ->
    exists t' last',
      read_csd card card_spi o (sys (MKC mem false crc false il false tk (BUSY k) PIdle) t (Some (type_of kd))) =
        (Ok (if CSD_STRUCTURE csd =? 0 then CsdV1 csd else CsdV2 csd),
         sys (MKC mem false crc false il false (tk + 1) [] PIdle) t' (Some (type_of kd))) /\
      mon t' = inl (mkh HFree last' IReady crc false).
  Proof.
    intros Hk Hm. destruct (read_csd_data_sys mem il tk k t last Hcsd Hk Hm) as (t' & last' & E & M).
    exists t', last'. split; [|exact M].
    unfold read_csd. unfold bind at 1. unfold get_ctype. cbn [ctype sys].
    unfold bind in E |- *.
    destruct (card_command card card_spi CMD9 0 _) as [[r|e|] s1]; try discriminate.
    destruct (negb (r =? 0)); [discriminate|].
    rewrite E. rewrite csd_structure_byte by exact Hcsd.
    destruct Hstruct as [-> | ->]; reflexivity.
  Qed.

  Lemma spec_blocks_v1_small : CSD_STRUCTURE csd = 0 -> NB <= 2 ^ 27.
  Proof.
    intros H. unfold spec_capacity_blocks, spec_capacity_bytes. rewrite H. cbn [N.eqb].
    pose proof (spec_bytes_v1_lt csd). change (2 ^ 36) with (2 ^ 27 * 512) in H0.
    apply N.div_le_upper_bound; lia.
  Qed.

  Lemma num_blocks_sys mem il tk k t last :
    (k <= N.to_nat COMMAND_RETRIES)%nat -> mon t = inl (mkh HFree last IReady crc false) ->
    exists t' last',
      num_blocks_inner card card_spi o (sys (MKC mem false crc false il false tk (BUSY k) PIdle) t (Some (type_of kd))) =
        (Ok card_blocks, sys (MKC mem false crc false il false (tk + 1) [] PIdle) t' (Some (type_of kd))) /\
      mon t' = inl (mkh HFree last' IReady crc false).
  Proof.
    intros Hk Hm. destruct (read_csd_sys mem il tk k t last Hk Hm) as (t' & last' & E & M).
    exists t', last'. split; [|exact M]. unfold num_blocks_inner, bind. rewrite E.
    unfold lift, card_blocks, spec_capacity_blocks, spec_capacity_bytes.
    destruct Hstruct as [H | H]; rewrite H; cbn [N.eqb].
    - rewrite (v1_capacity_blocks_ok csd Hcsd). f_equal. f_equal.
      pose proof (spec_blocks_v1_small H) as L. unfold spec_capacity_blocks, spec_capacity_bytes in L.
      rewrite H in L. cbn [N.eqb] in L. change (2 ^ 27) with 134217728 in L. change (2 ^ 32 - 1) with 4294967295. lia.
    - rewrite (v2_capacity_blocks_ok csd Hcsd). reflexivity.
  Qed.

  Lemma num_bytes_sys mem il tk k t last :
    (k <= N.to_nat COMMAND_RETRIES)%nat -> mon t = inl (mkh HFree last IReady crc false) ->
    exists t' last',
      num_bytes_inner card card_spi o (sys (MKC mem false crc false il false tk (BUSY k) PIdle) t (Some (type_of kd))) =
        (Ok (spec_capacity_bytes csd), sys (MKC mem false crc false il false (tk + 1) [] PIdle) t' (Some (type_of kd))) /\
      mon t' = inl (mkh HFree last' IReady crc false).
  Proof.
    intros Hk Hm. destruct (read_csd_sys mem il tk k t last Hk Hm) as (t' & last' & E & M).
    exists t', last'. split; [|exact M]. unfold num_bytes_inner, bind. rewrite E.
    unfold lift, spec_capacity_bytes.
    destruct Hstruct as [H | H]; rewrite H; cbn [N.eqb].
    - rewrite (v1_capacity_bytes_ok csd Hcsd). reflexivity.
    - rewrite (v2_capacity_bytes_ok csd Hcsd). reflexivity.
  Qed.
End Transfer.
