(* Property C12 - the SD driver reads and writes exactly the addressed blocks on every
   card type.  This file contains only the property theorems, each closed by `exact`,
   pinned by `Check`, followed by `Print Assumptions`. *)
From Coq Require Import NArith List Bool Lia.
From SdSd Require Import Poly CrcModel CrcProofs SdModel SdSpec SdBound SdSafety SdCapacity SdCardLemmas SdSystem SdInit SdTransfer SdMulti SdLegal.
Import ListNotations.
Open Scope N_scope.

(* ---- the register decoders equal the specification's bit slices, for every register *)
Theorem C12_csd_fields : forall d : list N, is_csd d ->
  csd_ver d = CSD_STRUCTURE d /\
  read_block_length d = READ_BL_LEN d /\
  v1_device_size d = C_SIZE_v1 d /\
  v1_device_size_multiplier d = C_SIZE_MULT d /\
  v2_device_size d = C_SIZE_v2 d /\
  erase_single_block_enabled_field d = (ERASE_BLK_EN d =? 1).
Proof. exact csd_fields_all. Qed.

(* ---- capacity formulas = the specification's, for every register, without panics:
   version 1.0: (C_SIZE+1) * 2^(C_SIZE_MULT+2) * 2^READ_BL_LEN bytes, blocks = bytes / 512;
   version 2.0: (C_SIZE+1) * 512 KiB, blocks = bytes / 512, saturated at u32::MAX (reached
   only by C_SIZE = 0x3FFFFF, which encodes 2^32 blocks) *)
Theorem C12_capacity_v1 : forall d : list N, is_csd d ->
  v1_capacity_bytes d = Ok ((C_SIZE_v1 d + 1) * 2 ^ (C_SIZE_MULT d + 2) * 2 ^ READ_BL_LEN d) /\
  v1_capacity_blocks d = Ok ((C_SIZE_v1 d + 1) * 2 ^ (C_SIZE_MULT d + 2) * 2 ^ READ_BL_LEN d / 512).
Proof. exact capacity_v1_all. Qed.

Theorem C12_capacity_v2 : forall d : list N, is_csd d ->
  v2_capacity_bytes d = Ok ((C_SIZE_v2 d + 1) * 524288) /\
  v2_capacity_blocks d = Ok (N.min ((C_SIZE_v2 d + 1) * 524288 / 512) (2 ^ 32 - 1)).
Proof. exact capacity_v2_all. Qed.

(* the hypotheses are satisfiable: the register of the crate's own test *)
Example C12_capacity_example :
  let d := [0;38;0;50;95;89;131;200;173;219;207;255;210;64;64;165] in
  is_csd d /\ v1_capacity_blocks d = Ok 1984000 /\ v1_capacity_bytes d = Ok 1015808000.
Proof. split; [split; [reflexivity|repeat constructor]|split; vm_compute; reflexivity]. Qed.

(* ==== the driver against LEGALCARD (SdSpec.v): every kind, CRC on or off, every legal timing ==========
   `Ready o kd csd tim s mem`: driver state s is initialised (card_type = the card's kind), the card
   of kind kd with register csd, timing oracle tim and memory mem is idle between commands (possibly
   still busy, below the command budget), and the trace so far is a legal conversation.
   Hypotheses: legal_timing tim (every card delay below the driver's budget at that point),
   addressable (every block has a 32-bit address), is_csd csd with CSD_STRUCTURE 0 or 1. *)

(* C12_init: the card kind is identified, for every kind *)
Theorem C12_init : forall (o : opts) (kd : kind) (csd : list N) (tim : timing),
  legal_timing tim -> CSD_STRUCTURE csd = 0 \/ CSD_STRUCTURE csd = 1 ->
  forall mem0 : N -> list N,
  exists s', check_init card card_spi o (init_st card (power_on kd csd tim mem0)) = (Ok tt, s') /\
             ctype s' = Some (type_of kd) /\ Ready o kd csd tim s' mem0.
Proof. exact init_identifies. Qed.

(* C12_read1: a block read returns the 512 bytes stored at that block number; memory unchanged *)
Theorem C12_read1 : forall (o : opts) (kd : kind) (csd : list N) (tim : timing),
  legal_timing tim -> addressable kd csd -> CSD_STRUCTURE csd = 0 \/ CSD_STRUCTURE csd = 1 ->
  forall (s : st card) (mem : N -> list N) (idx : N),
  Ready o kd csd tim s mem -> mem_ok mem -> idx < spec_capacity_blocks csd ->
  exists s', read_inner card card_spi o 1 idx s = (Ok [mem idx], s') /\ Ready o kd csd tim s' mem.
Proof. exact read1_correct. Qed.

(* C12_write1: a block write stores exactly the given bytes at that block number and nowhere else *)
Theorem C12_write1 : forall (o : opts) (kd : kind) (csd : list N) (tim : timing),
  legal_timing tim -> addressable kd csd -> CSD_STRUCTURE csd = 0 \/ CSD_STRUCTURE csd = 1 ->
  forall (s : st card) (mem : N -> list N) (idx : N) (b : list N),
  Ready o kd csd tim s mem -> length b = 512%nat -> idx < spec_capacity_blocks csd ->
  exists s', write_inner card card_spi o [b] idx s = (Ok tt, s') /\ Ready o kd csd tim s' (upd_mem mem idx b).
Proof. exact write1_correct. Qed.

(* C12_multi: a multi-block transfer (any length other than 1, including 0) returns / stores what the
   same single-block transfers at idx, idx+1, .. do in order: nseq idx n = [idx; idx+1; ..], and
   write_mem folds upd_mem over the blocks (C12_multi_as_singles) *)
Theorem C12_multi_read : forall (o : opts) (kd : kind) (csd : list N) (tim : timing),
  legal_timing tim -> addressable kd csd ->
  forall (s : st card) (mem : N -> list N) (idx : N) (n : nat),
  Ready o kd csd tim s mem -> mem_ok mem -> n <> 1%nat ->
  idx < spec_capacity_blocks csd -> idx + N.of_nat n <= spec_capacity_blocks csd ->
  exists s', read_inner card card_spi o n idx s = (Ok (map mem (nseq idx n)), s') /\ Ready o kd csd tim s' mem.
Proof. exact multi_read_correct. Qed.

Theorem C12_multi_write : forall (o : opts) (kd : kind) (csd : list N) (tim : timing),
  legal_timing tim -> addressable kd csd ->
  forall (s : st card) (mem : N -> list N) (idx : N) (blocks : list (list N)),
  Ready o kd csd tim s mem -> Forall (fun x => length x = 512%nat) blocks -> length blocks <> 1%nat ->
  idx < spec_capacity_blocks csd -> idx + N.of_nat (length blocks) <= spec_capacity_blocks csd ->
  exists s', write_inner card card_spi o blocks idx s = (Ok tt, s') /\ Ready o kd csd tim s' (write_mem mem idx blocks).
Proof. exact multi_write_correct. Qed.

Theorem C12_multi_as_singles :
  (forall (mem : N -> list N) idx n, map mem (nseq idx n) = concat (map (fun i => [mem i]) (nseq idx n))) /\
  (forall (mem : N -> list N) idx b, write_mem mem idx [b] = upd_mem mem idx b) /\
  (forall (mem : N -> list N) idx b bs, write_mem mem idx (b :: bs) = write_mem (write_mem mem idx [b]) (idx + 1) bs).
Proof. exact (conj nseq_single_reads (conj write_mem_single write_mem_cons)). Qed.

(* C12_capacity: num_blocks / num_bytes = the capacity the card's register encodes for the register's
   own structure version (blocks as a u32: saturated at 2^32-1) - for every kind, so also for a
   version-2 standard-capacity card with its version-1 register (D17 repaired) *)
Theorem C12_capacity : forall (o : opts) (kd : kind) (csd : list N) (tim : timing),
  legal_timing tim -> is_csd csd -> CSD_STRUCTURE csd = 0 \/ CSD_STRUCTURE csd = 1 ->
  forall (s : st card) (mem : N -> list N), Ready o kd csd tim s mem ->
  (exists s', num_blocks_inner card card_spi o s = (Ok (N.min (spec_capacity_blocks csd) (2 ^ 32 - 1)), s') /\ Ready o kd csd tim s' mem) /\
  (exists s', num_bytes_inner card card_spi o s = (Ok (spec_capacity_bytes csd), s') /\ Ready o kd csd tim s' mem).
Proof. exact capacity_correct. Qed.

(* C12_histories: any sequence of public calls (reads, writes, capacity queries, mark_card_uninit,
   get_card_type), starting from power-up.  `api_ok`: what the Rust API can express - a u32 block
   number and 512-byte blocks.  Every call returns what the specification says - `spec_outcome`:
   Ok with the value of `spec_step` when the transfer lies inside the card; ReadError / WriteError when
   it starts at or beyond the capacity; TimeoutReadBuffer / WriteError when a multi-block transfer runs
   off the end (the blocks before the end are transferred) - and the card's memory at the end is the
   specification's (`spec_mem`: exactly the addressed blocks change, to the given bytes). *)
Theorem C12_histories : forall (o : opts) (kd : kind) (csd : list N) (tim : timing),
  legal_timing tim -> addressable kd csd -> is_csd csd -> CSD_STRUCTURE csd = 0 \/ CSD_STRUCTURE csd = 1 ->
  forall (mem0 : N -> list N) (cs : list api_call), mem_ok mem0 -> Forall api_ok cs ->
  exists s', run_calls card card_spi o cs [] (init_st card (power_on kd csd tim mem0)) =
               (rev (spec_values kd csd mem0 cs), s') /\
             c_mem (dev s') = spec_mem kd csd mem0 cs /\
             accept (rev (tr s')) = true.
Proof. exact all_histories. Qed.

(* in range, the specification is: reads return the stored blocks, writes store the given blocks *)
Example C12_spec_in_range : forall kd csd (mem : N -> list N) n idx blocks,
  idx < spec_capacity_blocks csd -> idx + N.of_nat n <= spec_capacity_blocks csd ->
  idx + N.of_nat (length blocks) <= spec_capacity_blocks csd ->
  spec_outcome kd csd mem (CRead n idx) = Ok (VBlocks (map mem (nseq idx n))) /\
  spec_after kd csd mem (CRead n idx) = mem /\
  spec_outcome kd csd mem (CWrite blocks idx) = Ok VUnit /\
  spec_after kd csd mem (CWrite blocks idx) = write_mem mem idx blocks.
Proof.
  intros kd csd mem n idx blocks Hi Hn Hb. unfold spec_outcome, spec_after. cbn [rejected off_end].
  apply N.ltb_lt in Hi. rewrite Hi. cbn [negb andb].
  replace (spec_capacity_blocks csd <? idx + N.of_nat n) with false by (symmetry; apply N.ltb_ge; exact Hn).
  replace (spec_capacity_blocks csd <? idx + N.of_nat (length blocks)) with false by (symmetry; apply N.ltb_ge; exact Hb).
  repeat split.
Qed.

(* the hypotheses are satisfiable: a 32-block version-1 card, constant timing, zeroed memory *)
Example C12_hypotheses_satisfiable :
  let csd := [0;38;0;50;95;89;128;1;237;216;79;255;210;64;64;91] in
  let tim := {| t_ncr := fun _ => 1%nat; t_nac := fun _ => 2%nat; t_busy_w := fun _ => 3%nat;
                t_busy_c := fun _ => 1%nat; t_init := fun _ => 2%nat |} in
  legal_timing tim /\ addressable V1SC csd /\ is_csd csd /\ CSD_STRUCTURE csd = 0 /\
  spec_capacity_blocks csd = 32 /\ mem_ok (fun _ => repeat 0 512) /\
  Forall api_ok [CRead 1 31; CWrite [repeat 7 512] 0; CRead 2 0; CNumBlocks; CMarkUninit; CGetType; CRead 1 32; CWrite [repeat 7 512] 4000000000; CRead 3 30].
Proof.
  cbv zeta. split; [|split; [|split; [|split; [|split; [|split]]]]].
  - intros k. cbn. unfold READ_RETRIES, WRITE_RETRIES, COMMAND_RETRIES. repeat split; lia.
  - vm_compute. discriminate.
  - split; [reflexivity|]. unfold bytes. repeat constructor.
  - vm_compute. reflexivity.
  - vm_compute. reflexivity.
  - intros b. split; [apply repeat_length|]. unfold bytes. apply Forall_forall. intros x Hx.
    apply repeat_spec in Hx. subst. reflexivity.
  - assert (NB : spec_capacity_blocks [0;38;0;50;95;89;128;1;237;216;79;255;210;64;64;91] = 32) by (vm_compute; reflexivity).
    assert (B7 : block_ok (repeat 7 512)).
    { split; [apply repeat_length|]. unfold bytes. apply Forall_forall. intros x Hx. apply repeat_spec in Hx. subst. reflexivity. }
    repeat apply Forall_cons; try apply Forall_nil; unfold api_ok; cbn [idx_of]; (split; [reflexivity|]); try exact I;
      repeat constructor; exact B7.
Qed.

Print Assumptions C12_csd_fields.
Print Assumptions C12_capacity_v1.
Print Assumptions C12_capacity_v2.
Print Assumptions C12_init.
Print Assumptions C12_read1.
Print Assumptions C12_write1.
Print Assumptions C12_multi_read.
Print Assumptions C12_multi_write.
Print Assumptions C12_multi_as_singles.
Print Assumptions C12_capacity.
Print Assumptions C12_histories.
