(* Property C12 - the SD driver reads and writes exactly the addressed blocks on every
   card type.  This file contains only the property theorems, each closed by `exact`,
   pinned by `Check`, followed by `Print Assumptions`. *)
From Coq Require Import NArith List Bool.
From SdSd Require Import Poly CrcModel CrcProofs SdModel SdSpec SdBound SdSafety SdCapacity.
Import ListNotations.
Open Scope N_scope.

(* ---- the register decoders equal the specification's bit slices, for every register *)
Theorem C12_csd_fields : forall d : list N, is_csd d ->
  csd_ver d = CSD_STRUCTURE d /\
  read_block_length d = READ_BL_LEN d /\
  v1_device_size d = C_SIZE_v1 d /\
  v1_device_size_multiplier d = C_SIZE_MULT d /\
  v2_device_size d = C_SIZE_v2 d /\
  erase_single_block_enabled_field d = (ERASE_BLK_EN d =? 1).
Proof.
  intros d H. repeat split.
  - exact (csd_ver_ok d H).
  - exact (read_block_length_ok d H).
  - exact (v1_device_size_ok d H).
  - exact (v1_device_size_multiplier_ok d H).
  - exact (v2_device_size_ok d H).
  - exact (erase_single_ok d H).
Qed.

(* ---- capacity formulas = the specification's, for every register, without panics:
   version 1.0: (C_SIZE+1) * 2^(C_SIZE_MULT+2) * 2^READ_BL_LEN bytes, blocks = bytes / 512;
   version 2.0: (C_SIZE+1) * 512 KiB, blocks = bytes / 512, saturated at u32::MAX (reached
   only by C_SIZE = 0x3FFFFF, which encodes 2^32 blocks) *)
Theorem C12_capacity_v1 : forall d : list N, is_csd d ->
  v1_capacity_bytes d = Ok ((C_SIZE_v1 d + 1) * 2 ^ (C_SIZE_MULT d + 2) * 2 ^ READ_BL_LEN d) /\
  v1_capacity_blocks d = Ok ((C_SIZE_v1 d + 1) * 2 ^ (C_SIZE_MULT d + 2) * 2 ^ READ_BL_LEN d / 512).
Proof. intros d H. split; [exact (v1_capacity_bytes_ok d H)|exact (v1_capacity_blocks_ok d H)]. Qed.

Theorem C12_capacity_v2 : forall d : list N, is_csd d ->
  v2_capacity_bytes d = Ok ((C_SIZE_v2 d + 1) * 524288) /\
  v2_capacity_blocks d = Ok (N.min ((C_SIZE_v2 d + 1) * 524288 / 512) (2 ^ 32 - 1)).
Proof. intros d H. split; [exact (v2_capacity_bytes_ok d H)|exact (v2_capacity_blocks_ok d H)]. Qed.

(* the hypotheses are satisfiable: the register of the crate's own test *)
Example C12_capacity_example :
  let d := [0;38;0;50;95;89;131;200;173;219;207;255;210;64;64;165] in
  is_csd d /\ v1_capacity_blocks d = Ok 1984000 /\ v1_capacity_bytes d = Ok 1015808000.
Proof. split; [split; [reflexivity|repeat constructor]|split; vm_compute; reflexivity]. Qed.

Print Assumptions C12_csd_fields.
Print Assumptions C12_capacity_v1.
Print Assumptions C12_capacity_v2.
