(* PROOFS, part 9: every history of in-range driver calls against LEGALCARD - results,
   card memory (C12_histories) and legality of the whole bus trace (C14_legal). *)
From Coq Require Import NArith Arith List Lia Bool ZArith.
From SdSd Require Import Poly CrcModel CrcProofs SdModel SdSpec SdBound SdSafety SdCapacity SdCardLemmas SdSystem SdInit SdTransfer SdMulti SdOffEnd.
Import ListNotations.
Open Scope N_scope.

Section Legal.
  Variable o : opts.
  Variable kd : kind.
  Variable csd : list N.
  Variable tim : timing.
  Hypothesis Htim : legal_timing tim.
  Hypothesis Haddr : addressable kd csd.
  Hypothesis Hcsd : is_csd csd.
  Hypothesis Hstruct : CSD_STRUCTURE csd = 0 \/ CSD_STRUCTURE csd = 1.

  Notation MKC := (mkc kd csd tim).
  Notation crc := (use_crc o).
  Notation NB := (spec_capacity_blocks csd).
  Notation API := (api card card_spi o).

  Definition mem_ok (mem : N -> list N) : Prop := forall b, length (mem b) = 512%nat /\ bytes (mem b).

  (* ---- the specification of one call: new card memory and returned value ------------------ *)
  Definition block_ok (x : list N) : Prop := length x = 512%nat /\ bytes x.

  Definition in_range (c : api_call) : Prop :=
    match c with
    | CRead n idx => idx < NB /\ idx + N.of_nat n <= NB
    | CWrite blocks idx => Forall block_ok blocks /\ idx < NB /\ idx + N.of_nat (length blocks) <= NB
    | _ => True
    end.

  Definition spec_step (mem : N -> list N) (c : api_call) : (N -> list N) * api_value :=
    match c with
    | CRead n idx => (mem, VBlocks (map mem (nseq idx n)))
    | CWrite blocks idx => (write_mem mem idx blocks, VUnit)
    | CNumBlocks => (mem, VNum (card_blocks csd))
    | CNumBytes => (mem, VNum (spec_capacity_bytes csd))
    | CEraseSingle => (mem, VBool (ERASE_BLK_EN csd =? 1))
    | CMarkUninit => (mem, VUnit)
    | CGetType => (mem, VType (Some (type_of kd)))
    end.

  (* ---- invariants ------------------------------------------------------------------------------ *)
  (* initialised and idle between calls *)
  Definition Ready (s : cst) (mem : N -> list N) : Prop :=
    exists il tk k t last, s = sys (MKC mem false crc false il false tk (BUSY k) PIdle) t (Some (type_of kd)) /\
      (k <= N.to_nat COMMAND_RETRIES)%nat /\ mon t = inl (mkh HFree last IReady crc false).

  (* any state between calls *)
  Definition Inv (s : cst) (mem : N -> list N) : Prop :=
    Ready s mem \/
    (ctype s = None /\ k_kind (dev s) = kd /\ k_csd (dev s) = csd /\ k_tim (dev s) = tim /\
     c_fbuf (dev s) = [] /\ c_phase (dev s) = PIdle /\ c_mem (dev s) = mem /\
     exists h, mon (tr s) = inl h /\ h_mode h = HFree).

  Lemma check_init_ready s mem : Inv s mem ->
    exists s1, check_init card card_spi o s = (Ok tt, s1) /\ Ready s1 mem.
  Proof.
    intros [R|(Hct & Hk & Hc & Ht & Hf & Hp & Hmem & h & Hm & Hmode)].
    - exists s. split; [|exact R]. destruct R as (il & tk & k & t & last & -> & _). reflexivity.
    - destruct s as [c t ct]. cbn [ctype dev tr] in *. subst ct.
      destruct (check_init_sys o kd csd tim Htim c t h Hk Hc Ht Hf Hp Hm Hmode) as (t' & tk' & E & M).
      eexists. split; [exact E|]. rewrite Hmem. exists O, tk', O, t', 255. split; [reflexivity|]. split; [lia|exact M].
  Qed.

  Lemma upd_mem_ok mem b x : mem_ok mem -> block_ok x -> mem_ok (upd_mem mem b x).
  Proof. intros Hm Hx b'. unfold upd_mem. destruct (b' =? b); [exact Hx|apply Hm]. Qed.

  Lemma write_mem_ok blocks : forall mem b, mem_ok mem -> Forall block_ok blocks -> mem_ok (write_mem mem b blocks).
  Proof.
    induction blocks as [|x xs IH]; intros mem b Hm Hall; cbn [write_mem]; [exact Hm|].
    inversion Hall; subst. apply IH; [apply upd_mem_ok; assumption|assumption].
  Qed.

  Lemma Forall_len blocks : Forall block_ok blocks -> Forall (fun x => length x = 512%nat) blocks.
  Proof. intros H. eapply Forall_impl; [|exact H]. intros x [Hl _]. exact Hl. Qed.

  (* ---- a block number at or beyond the card's capacity: the command is rejected (R1 = 0x40) and
     the driver reports it (D20 repaired); nothing else goes over the bus ------------------------- *)
  Lemma decode_addr_oor c idx : k_kind c = kd -> k_csd c = csd -> NB <= idx ->
    decode_addr c (addr_of kd idx) = inr 64.
  Proof.
    intros Hk Hc Hi. unfold decode_addr, addr_of, nblocks. rewrite Hk, Hc.
    assert (L : (idx <? NB) = false) by (apply N.ltb_ge; exact Hi).
    destruct kd; try (rewrite N.mod_mul by discriminate; cbn [N.eqb negb]; rewrite N.div_mul by discriminate);
      rewrite L; reflexivity.
  Qed.

  Lemma cmd_rejected_sys cmd mem il tk k t last idx :
    (cmd = 17 \/ cmd = 18 \/ cmd = 24 \/ cmd = 25) ->
    (k <= N.to_nat COMMAND_RETRIES)%nat -> NB <= idx -> addr_of kd idx < 2 ^ 32 ->
    mon t = inl (mkh HFree last IReady crc false) ->
    exists t',
      card_command card card_spi cmd (addr_of kd idx)
        (sys (MKC mem false crc false il false tk (BUSY k) PIdle) t (Some (type_of kd))) =
        (Ok 64, sys (MKC mem false crc false il false (tk + 1) [] PIdle) t' (Some (type_of kd))) /\
      mon t' = inl (mkh HFree 64 IReady crc false).
  Proof.
    intros Hcmd Hk Hi Ha Hm.
    destruct (card_command_sys cmd (addr_of kd idx) k (MKC mem false crc false il false tk (BUSY k) PIdle) t (Some (type_of kd))
                (mkh HFree last IReady crc false)
                (MKC mem false crc false il false (tk + 1) (FF (t_ncr tim tk) ++ [64]) PIdle)
                (t_ncr tim tk) 64 []) as (t1 & E1 & M1);
      try reflexivity; try assumption; try apply (ncr_ok tim Htim);
      try (destruct Hcmd as [-> | [-> | [-> | ->]]]; first [reflexivity | discriminate]).
    { destruct Hcmd as [-> | [-> | [-> | ->]]]; unfold exec; cbn -[FF BUSY t_ncr t_nac decode_addr data_packet];
        rewrite decode_addr_oor by (try reflexivity; exact Hi); reflexivity. }
    exists t1. split; [exact E1|]. rewrite M1. destruct Hcmd as [-> | [-> | [-> | ->]]]; reflexivity.
  Qed.

  Lemma start_idx_oor c t idx err : NB <= idx ->
    start_idx card idx err (sys c t (Some (type_of kd))) = (Err err, sys c t (Some (type_of kd))) \/
    (start_idx card idx err (sys c t (Some (type_of kd))) = (Ok (addr_of kd idx), sys c t (Some (type_of kd))) /\
     (idx < 2 ^ 32 -> addr_of kd idx < 2 ^ 32)).
  Proof.
    intros Hi. unfold start_idx, bind, get_ctype, addr_of. cbn [ctype sys].
    destruct kd; cbn [type_of].
    - destruct (N.leb_spec (2 ^ 32) (idx * 512)); [left; reflexivity|right; split; [reflexivity|intros _; assumption]].
    - destruct (N.leb_spec (2 ^ 32) (idx * 512)); [left; reflexivity|right; split; [reflexivity|intros _; assumption]].
    - right. split; [reflexivity|intros H; exact H].
  Qed.

  Lemma read_oor_sys s mem n idx : Ready s mem -> NB <= idx -> idx < 2 ^ 32 ->
    exists s', read_inner card card_spi o n idx s = (Err ReadError, s') /\ Ready s' mem.
  Proof.
    intros (il & tk & k & t & last & -> & Hk & Hm) Hi H32. unfold read_inner. unfold bind at 1.
    destruct (start_idx_oor (MKC mem false crc false il false tk (BUSY k) PIdle) t idx ReadError Hi) as [E|[E Ha]]; rewrite E.
    - eexists. split; [reflexivity|]. exists il, tk, k, t, last. split; [reflexivity|]. split; assumption.
    - assert (R : forall cmd, cmd = 17 \/ cmd = 18 -> exists t',
                  card_command card card_spi cmd (addr_of kd idx) (sys (MKC mem false crc false il false tk (BUSY k) PIdle) t (Some (type_of kd))) =
                  (Ok 64, sys (MKC mem false crc false il false (tk + 1) [] PIdle) t' (Some (type_of kd))) /\
                  mon t' = inl (mkh HFree 64 IReady crc false)).
      { intros cmd Hc. apply (cmd_rejected_sys cmd mem il tk k t last idx); try assumption; [|apply Ha, H32].
        destruct Hc as [-> | ->]; auto. }
      destruct n as [|[|n]].
      + destruct (R 18 (or_intror eq_refl)) as (t' & E18 & M).
        eexists. split; [unfold bind, CMD18; rewrite E18; reflexivity|].
        exists il, (tk + 1), O, t', 64. split; [reflexivity|]. split; [lia|exact M].
      + destruct (R 17 (or_introl eq_refl)) as (t' & E17 & M).
        eexists. split; [unfold bind, CMD17; rewrite E17; reflexivity|].
        exists il, (tk + 1), O, t', 64. split; [reflexivity|]. split; [lia|exact M].
      + destruct (R 18 (or_intror eq_refl)) as (t' & E18 & M).
        eexists. split; [unfold bind, CMD18; rewrite E18; reflexivity|].
        exists il, (tk + 1), O, t', 64. split; [reflexivity|]. split; [lia|exact M].
  Qed.

  Lemma write_oor_sys s mem blocks idx : Ready s mem -> NB <= idx -> idx < 2 ^ 32 ->
    exists s', write_inner card card_spi o blocks idx s = (Err WriteError, s') /\ Ready s' mem.
  Proof.
    intros (il & tk & k & t & last & -> & Hk & Hm) Hi H32. unfold write_inner. unfold bind at 1.
    destruct (start_idx_oor (MKC mem false crc false il false tk (BUSY k) PIdle) t idx WriteError Hi) as [E|[E Ha]]; rewrite E.
    - eexists. split; [reflexivity|]. exists il, tk, k, t, last. split; [reflexivity|]. split; assumption.
    - specialize (Ha H32). set (ct := Some (type_of kd)).
      assert (Multi : exists s',
        bind card (card_acmd card card_spi ACMD23 (N.of_nat (length blocks) mod 2 ^ 32)) (fun _ =>
        bind card (wait_not_busy card card_spi (N.to_nat WRITE_RETRIES)) (fun _ =>
        bind card (card_command card card_spi CMD25 (addr_of kd idx)) (fun r =>
        if negb (r =? 0) then fail card WriteError else
        bind card (attempt card (bind card (write_blocks card card_spi o blocks)
                                   (fun _ => wait_not_busy card card_spi (N.to_nat WRITE_RETRIES)))) (fun result =>
        match result with
        | Ok _ => write_byte card card_spi STOP_TRAN_TOKEN
        | Err e => bind card (attempt card (card_command card card_spi CMD12 0)) (fun _ => fail card e)
        | Panic => panic card
        end))))
        (sys (MKC mem false crc false il false tk (BUSY k) PIdle) t ct) = (Err WriteError, s') /\ Ready s' mem).
      { destruct (cmd55_sys kd csd tim Htim mem false crc il tk k t ct last IReady Hk Hm (or_introl eq_refl)) as (t1 & E1 & M1).
        set (cnt := N.of_nat (length blocks) mod 2 ^ 32).
        assert (Hcnt : cnt < 2 ^ 32) by (apply N.mod_lt; discriminate).
        destruct (card_command_sys 23 cnt O (MKC mem false crc true il false (tk + 1) (BUSY 0) PIdle) t1 ct
                    (mkh HFree 0 IReady crc true)
                    (MKC mem false crc false il false (tk + 1 + 1) (FF (t_ncr tim (tk + 1)) ++ [0]) PIdle)
                    (t_ncr tim (tk + 1)) 0 []) as (t2 & E2 & M2);
          try reflexivity; try assumption; try discriminate; try apply (ncr_ok tim Htim); try lia.
        change (sys (set_out _ _ _) t2 ct) with (sys (MKC mem false crc false il false (tk + 1 + 1) [] PIdle) t2 ct) in E2.
        change (BUSY 0) with (@nil N) in E2.
        destruct (wait_not_busy_sys (N.to_nat WRITE_RETRIES) O (MKC mem false crc false il false (tk + 1 + 1) [] PIdle)
                    t2 ct ltac:(lia) eq_refl eq_refl (or_introl eq_refl)) as (t3 & E3 & M3).
        change (set_out _ [] _) with (MKC mem false crc false il false (tk + 1 + 1) (BUSY 0) PIdle) in E3.
        assert (M3' : mon t3 = inl (mkh HFree 255 IReady crc false)).
        { rewrite M3, M2. rewrite hpolls_busy by (left; reflexivity). reflexivity. }
        destruct (cmd_rejected_sys 25 mem il (tk + 1 + 1) O t3 255 idx ltac:(auto) ltac:(lia) Hi Ha M3') as (t4 & E4 & M4).
        eexists. split.
        - unfold card_acmd. unfold bind at 1. unfold bind at 1. unfold CMD55 in E1. unfold CMD55. rewrite E1.
          unfold ACMD23. change (if false then 1 else 0) with 0 in E2. rewrite E2.
          unfold bind at 1. rewrite E3. unfold CMD25. unfold bind at 1. fold ct in E4. rewrite E4. reflexivity.
        - exists il, (tk + 1 + 1 + 1), O, t4, 64. split; [reflexivity|]. split; [lia|exact M4]. }
      destruct blocks as [|b [|b2 bs]]; try exact Multi.
      destruct (cmd_rejected_sys 24 mem il tk k t last idx ltac:(auto) Hk Hi Ha Hm) as (t' & E24 & M).
      subst ct. eexists. split; [unfold bind, CMD24; rewrite E24; reflexivity|].
      exists il, (tk + 1), O, t', 64. split; [reflexivity|]. split; [lia|exact M].
  Qed.

  (* ---- one call --------------------------------------------------------------------------------- *)
  Lemma with_init_step {A} (m : M card A) (k : A -> api_value) s mem mem' v :
    Inv s mem ->
    (forall s1, Ready s1 mem -> exists s2, m s1 = (Ok v, s2) /\ Ready s2 mem') ->
    exists s', with_init card card_spi o m k s = (Ok (k v), s') /\ Ready s' mem'.
  Proof.
    intros HI Hop. destruct (check_init_ready s mem HI) as (s1 & E1 & R1).
    destruct (Hop s1 R1) as (s2 & E2 & R2). exists s2. split; [|exact R2].
    unfold with_init, bind. rewrite E1, E2. reflexivity.
  Qed.

  Theorem api_step s mem c : Inv s mem -> mem_ok mem -> in_range c ->
    exists s', API c s = (Ok (snd (spec_step mem c)), s') /\ Inv s' (fst (spec_step mem c)) /\
               mem_ok (fst (spec_step mem c)).
  Proof.
    intros HI Hmem Hr. destruct c as [n idx|blocks idx| | | | |]; cbn [api spec_step fst snd in_range] in *.
    - (* read *)
      destruct Hr as [Hi Hn].
      destruct (with_init_step (read_inner card card_spi o n idx) VBlocks s mem mem (map mem (nseq idx n)) HI) as (s' & E & R).
      { intros s1 (il & tk & k & t & last & -> & Hk & Hm).
        destruct (Nat.eq_dec n 1) as [->|Hne].
        - destruct (read1_sys o kd csd tim Htim Haddr mem il tk k t last idx Hmem Hk Hi Hm) as (t' & last' & E & M).
          eexists. split; [exact E|]. exists il, (tk + 1), O, t', last'. split; [reflexivity|]. split; [lia|exact M].
        - destruct (multi_read_sys o kd csd tim Htim Haddr mem il tk k t last idx n Hmem Hne Hk Hn Hi Hm)
            as (t' & tk' & k' & E & Hk' & M).
          eexists. split; [exact E|]. exists il, tk', k', t', 0. split; [reflexivity|]. split; [exact Hk'|exact M]. }
      exists s'. split; [exact E|]. split; [left; exact R|exact Hmem].
    - (* write *)
      destruct Hr as (Hall & Hi & Hn).
      destruct (with_init_step (write_inner card card_spi o blocks idx) (fun _ => VUnit) s mem (write_mem mem idx blocks) tt HI)
        as (s' & E & R).
      { intros s1 (il & tk & k & t & last & -> & Hk & Hm).
        destruct (Nat.eq_dec (length blocks) 1) as [Hone|Hne].
        - destruct blocks as [|b [|b2 bs]]; try discriminate. inversion Hall as [|? ? [Hl Hb] _]; subst.
          destruct (write1_sys o kd csd tim Htim Haddr mem il tk k t last idx b Hl Hk Hi Hm) as (t' & tk' & E & M).
          eexists. split; [exact E|]. exists il, tk', O, t', 0. split; [reflexivity|]. split; [lia|exact M].
        - destruct (multi_write_sys o kd csd tim Htim Haddr mem il tk k t last idx blocks (Forall_len blocks Hall) Hne Hk Hn Hi Hm)
            as (t' & tk' & k' & E & Hk' & M).
          eexists. split; [exact E|]. exists il, tk', k', t', 255. split; [reflexivity|]. split; [exact Hk'|exact M]. }
      exists s'. split; [exact E|]. split; [left; exact R|apply write_mem_ok; assumption].
    - (* num_blocks *)
      destruct (with_init_step (num_blocks_inner card card_spi o) VNum s mem mem (card_blocks csd) HI) as (s' & E & R).
      { intros s1 (il & tk & k & t & last & -> & Hk & Hm).
        destruct (num_blocks_sys o kd csd tim Htim Hcsd Hstruct mem il tk k t last Hk Hm) as (t' & last' & E & M).
        eexists. split; [exact E|]. exists il, (tk + 1), O, t', last'. split; [reflexivity|]. split; [lia|exact M]. }
      exists s'. split; [exact E|]. split; [left; exact R|exact Hmem].
    - (* num_bytes *)
      destruct (with_init_step (num_bytes_inner card card_spi o) VNum s mem mem (spec_capacity_bytes csd) HI) as (s' & E & R).
      { intros s1 (il & tk & k & t & last & -> & Hk & Hm).
        destruct (num_bytes_sys o kd csd tim Htim Hcsd Hstruct mem il tk k t last Hk Hm) as (t' & last' & E & M).
        eexists. split; [exact E|]. exists il, (tk + 1), O, t', last'. split; [reflexivity|]. split; [lia|exact M]. }
      exists s'. split; [exact E|]. split; [left; exact R|exact Hmem].
    - (* erase_single_block_enabled *)
      destruct (with_init_step (erase_single_block_enabled_inner card card_spi o) VBool s mem mem (ERASE_BLK_EN csd =? 1) HI)
        as (s' & E & R).
      { intros s1 (il & tk & k & t & last & -> & Hk & Hm).
        destruct (read_csd_sys o kd csd tim Htim Hcsd Hstruct mem il tk k t last Hk Hm) as (t' & last' & E & M).
        eexists. split.
        - unfold erase_single_block_enabled_inner, bind. rewrite E. rewrite <- (erase_single_ok csd Hcsd).
          destruct (CSD_STRUCTURE csd =? 0); reflexivity.
        - exists il, (tk + 1), O, t', last'. split; [reflexivity|]. split; [lia|exact M]. }
      exists s'. split; [exact E|]. split; [left; exact R|exact Hmem].
    - (* mark_card_uninit *)
      exists {| dev := dev s; tr := tr s; ctype := None |}. split; [reflexivity|]. split; [|exact Hmem].
      right. cbn [ctype dev tr]. destruct HI as [(il & tk & k & t & last & -> & Hk & Hm)|(Hct & Hk & Hc & Ht & Hf & Hp & Hm & h & Hh & Hmode)].
      + cbn [dev tr sys mkc k_kind k_csd k_tim c_fbuf c_phase c_mem]. repeat split. eexists. split; [exact Hm|reflexivity].
      + repeat split; try assumption. exists h. split; assumption.
    - (* get_card_type *)
      destruct (check_init_ready s mem HI) as (s1 & E1 & R1).
      exists s1. split; [|split; [left; exact R1|exact Hmem]].
      unfold bind, attempt. rewrite E1. destruct R1 as (il & tk & k & t & last & -> & _). reflexivity.
  Qed.

  (* ---- calls the card rejects: block number at or beyond the capacity ------------------------------- *)
  Definition rejected (c : api_call) : bool :=
    match c with CRead _ idx | CWrite _ idx => negb (idx <? NB) | _ => false end.
  Definition idx_of (c : api_call) : N := match c with CRead _ idx | CWrite _ idx => idx | _ => 0 end.

  (* a multi-block transfer that starts inside the card and runs off its end *)
  Definition off_end (c : api_call) : bool :=
    match c with
    | CRead n idx => (idx <? NB) && (NB <? idx + N.of_nat n)
    | CWrite blocks idx => (idx <? NB) && (NB <? idx + N.of_nat (length blocks))
    | _ => false
    end.

  (* the calls covered: every call with a u32 block number and 512-byte blocks *)
  Definition legal_call (c : api_call) : Prop :=
    if rejected c then idx_of c < 2 ^ 32
    else if off_end c then match c with CWrite blocks _ => Forall block_ok blocks | _ => True end
    else in_range c.

  Definition spec_outcome (mem : N -> list N) (c : api_call) : outcome api_value :=
    if rejected c then Err (match c with CRead _ _ => ReadError | _ => WriteError end)
    else if off_end c then Err (match c with CRead _ _ => TimeoutReadBuffer | _ => WriteError end)
    else Ok (snd (spec_step mem c)).
  Definition spec_after (mem : N -> list N) (c : api_call) : N -> list N :=
    if rejected c then mem
    else if off_end c then
      match c with CWrite blocks idx => write_mem mem idx (firstn (prefix_len csd idx) blocks) | _ => mem end
    else fst (spec_step mem c).

  Lemma with_init_err {A} (m : M card A) (k : A -> api_value) s mem mem' e :
    Inv s mem ->
    (forall s1, Ready s1 mem -> exists s2, m s1 = (Err e, s2) /\ Ready s2 mem') ->
    exists s', with_init card card_spi o m k s = (Err e, s') /\ Ready s' mem'.
  Proof.
    intros HI Hop. destruct (check_init_ready s mem HI) as (s1 & E1 & R1).
    destruct (Hop s1 R1) as (s2 & E2 & R2). exists s2. split; [|exact R2].
    unfold with_init, bind. rewrite E1, E2. reflexivity.
  Qed.

  Lemma Forall_firstn {A} (P : A -> Prop) n (l : list A) : Forall P l -> Forall P (firstn n l).
  Proof. revert n. induction l as [|x l IH]; intros [|n] H; cbn; try constructor; inversion H; subst; auto. Qed.

  Theorem api_step_all s mem c : Inv s mem -> mem_ok mem -> legal_call c ->
    exists s', API c s = (spec_outcome mem c, s') /\ Inv s' (spec_after mem c) /\ mem_ok (spec_after mem c).
  Proof.
    intros HI Hmem Hl. unfold legal_call, spec_outcome, spec_after in *.
    destruct (rejected c) eqn:Rj.
    { destruct c as [n idx|blocks idx| | | | |]; cbn [rejected idx_of] in Rj, Hl; try discriminate.
      - apply negb_true_iff, N.ltb_ge in Rj.
        destruct (with_init_err (read_inner card card_spi o n idx) VBlocks s mem mem ReadError HI) as (s' & E & R).
        { intros s1 R1. apply read_oor_sys; assumption. }
        exists s'. split; [exact E|]. split; [left; exact R|exact Hmem].
      - apply negb_true_iff, N.ltb_ge in Rj.
        destruct (with_init_err (write_inner card card_spi o blocks idx) (fun _ => VUnit) s mem mem WriteError HI) as (s' & E & R).
        { intros s1 R1. apply write_oor_sys; assumption. }
        exists s'. split; [exact E|]. split; [left; exact R|exact Hmem]. }
    destruct (off_end c) eqn:Off; [|apply api_step; assumption].
    destruct c as [n idx|blocks idx| | | | |]; cbn [off_end] in Off; try discriminate;
      apply andb_true_iff in Off; destruct Off as [Hi Hn]; apply N.ltb_lt in Hi; apply N.ltb_lt in Hn.
    - destruct (with_init_err (read_inner card card_spi o n idx) VBlocks s mem mem TimeoutReadBuffer HI) as (s' & E & R).
      { intros s1 (il & tk & k & t & last & -> & Hk & Hm).
        destruct (multi_read_off_sys o kd csd tim Htim Haddr mem il tk k t last idx n Hmem Hk Hi Hn Hm)
          as (t' & tk' & k' & E & Hk' & M).
        eexists. split; [exact E|]. exists il, tk', k', t', 0. split; [reflexivity|]. split; [exact Hk'|exact M]. }
      exists s'. split; [exact E|]. split; [left; exact R|exact Hmem].
    - destruct (with_init_err (write_inner card card_spi o blocks idx) (fun _ => VUnit) s mem
                  (write_mem mem idx (firstn (prefix_len csd idx) blocks)) WriteError HI) as (s' & E & R).
      { intros s1 (il & tk & k & t & last & -> & Hk & Hm).
        destruct (multi_write_off_sys o kd csd tim Htim Haddr mem il tk k t last idx blocks (Forall_len blocks Hl) Hk Hi Hn Hm)
          as (t' & tk' & k' & E & Hk' & M).
        eexists. split; [exact E|]. exists il, tk', k', t', 0. split; [reflexivity|]. split; [exact Hk'|exact M]. }
      exists s'. split; [exact E|]. split; [left; exact R|].
      apply write_mem_ok; [exact Hmem|apply Forall_firstn; exact Hl].
  Qed.

  (* ---- histories --------------------------------------------------------------------------------- *)
  Fixpoint spec_mem (mem : N -> list N) (cs : list api_call) : N -> list N :=
    match cs with [] => mem | c :: cs' => spec_mem (spec_after mem c) cs' end.
  Fixpoint spec_values (mem : N -> list N) (cs : list api_call) : list (outcome api_value) :=
    match cs with [] => [] | c :: cs' => spec_outcome mem c :: spec_values (spec_after mem c) cs' end.

  Lemma Inv_mon s mem : Inv s mem -> exists h, mon (tr s) = inl h.
  Proof.
    intros [(il & tk & k & t & last & -> & _ & Hm)|(_ & _ & _ & _ & _ & _ & _ & h & Hm & _)]; eexists; exact Hm.
  Qed.
  Lemma Inv_mem s mem : Inv s mem -> c_mem (dev s) = mem.
  Proof. intros [(il & tk & k & t & last & -> & _)|(_ & _ & _ & _ & _ & _ & Hm & _)]; [reflexivity|exact Hm]. Qed.

  Lemma spec_outcome_not_panic mem c : spec_outcome mem c <> Panic.
  Proof. unfold spec_outcome. destruct (rejected c); [discriminate|]. destruct (off_end c); discriminate. Qed.

  Theorem history_run : forall cs s mem acc, Inv s mem -> mem_ok mem -> Forall legal_call cs ->
    exists s', run_calls card card_spi o cs acc s = (rev (spec_values mem cs) ++ acc, s') /\
               Inv s' (spec_mem mem cs) /\ mem_ok (spec_mem mem cs).
  Proof.
    induction cs as [|c cs IH]; intros s mem acc HI Hmem Hall.
    - exists s. split; [reflexivity|]. split; assumption.
    - inversion Hall as [|? ? Hc Hcs]; subst.
      destruct (api_step_all s mem c HI Hmem Hc) as (s1 & E1 & I1 & M1).
      destruct (IH s1 (spec_after mem c) (spec_outcome mem c :: acc) I1 M1 Hcs) as (s2 & E2 & I2 & M2).
      exists s2. split; [|split; assumption].
      cbn [run_calls spec_values spec_mem rev]. rewrite E1.
      pose proof (spec_outcome_not_panic mem c) as NP.
      destruct (spec_outcome mem c) as [v|e|] eqn:Eo; [| |congruence]; rewrite E2, <- app_assoc; reflexivity.
  Qed.

  (* every call the Rust API can express: a u32 block number and 512-byte blocks *)
  Definition api_ok (c : api_call) : Prop :=
    idx_of c < 2 ^ 32 /\ match c with CWrite blocks _ => Forall block_ok blocks | _ => True end.

  Lemma api_ok_legal c : api_ok c -> legal_call c.
  Proof.
    intros [H32 Hb]. unfold legal_call. destruct (rejected c) eqn:Rj; [exact H32|].
    destruct (off_end c) eqn:Off; [destruct c; try exact I; exact Hb|].
    destruct c as [n idx|blocks idx| | | | |]; cbn [in_range rejected off_end] in *; try exact I.
    - apply negb_false_iff, N.ltb_lt in Rj. rewrite (proj2 (N.ltb_lt _ _) Rj) in Off. cbn [andb] in Off.
      apply N.ltb_ge in Off. split; assumption.
    - apply negb_false_iff, N.ltb_lt in Rj. rewrite (proj2 (N.ltb_lt _ _) Rj) in Off. cbn [andb] in Off.
      apply N.ltb_ge in Off. split; [exact Hb|]. split; assumption.
  Qed.

  Lemma Inv_power_on mem : Inv (init_st card (power_on kd csd tim mem)) mem.
  Proof. right. cbn. repeat split. exists h_init. split; reflexivity. Qed.

  (* C12_histories and C14_legal together: starting from a card as it is after power-up *)
  Theorem legal_histories mem0 cs : mem_ok mem0 -> Forall legal_call cs ->
    exists s', run_calls card card_spi o cs [] (init_st card (power_on kd csd tim mem0)) =
                 (rev (spec_values mem0 cs), s') /\
               c_mem (dev s') = spec_mem mem0 cs /\
               accept (rev (tr s')) = true.
  Proof.
    intros Hmem Hall.
    destruct (history_run cs _ mem0 [] (Inv_power_on mem0) Hmem Hall) as (s' & E & I & _).
    exists s'. rewrite app_nil_r in E. split; [exact E|]. split; [exact (Inv_mem _ _ I)|].
    unfold accept. rewrite mon_accept. destruct (Inv_mon _ _ I) as [h ->]. reflexivity.
  Qed.

  Theorem all_histories mem0 cs : mem_ok mem0 -> Forall api_ok cs ->
    exists s', run_calls card card_spi o cs [] (init_st card (power_on kd csd tim mem0)) =
                 (rev (spec_values mem0 cs), s') /\
               c_mem (dev s') = spec_mem mem0 cs /\
               accept (rev (tr s')) = true.
  Proof.
    intros Hmem Hall. apply legal_histories; [exact Hmem|].
    eapply Forall_impl; [|exact Hall]. exact api_ok_legal.
  Qed.

  (* ---- the single statements of C12, in terms of Ready -------------------------------------------- *)
  Theorem init_identifies mem0 :
    exists s', check_init card card_spi o (init_st card (power_on kd csd tim mem0)) = (Ok tt, s') /\
               ctype s' = Some (type_of kd) /\ Ready s' mem0.
  Proof.
    destruct (check_init_ready _ mem0 (Inv_power_on mem0)) as (s1 & E & R).
    exists s1. split; [exact E|]. split; [|exact R]. destruct R as (il & tk & k & t & last & -> & _). reflexivity.
  Qed.

  Theorem read1_correct s mem idx : Ready s mem -> mem_ok mem -> idx < NB ->
    exists s', read_inner card card_spi o 1 idx s = (Ok [mem idx], s') /\ Ready s' mem.
  Proof.
    intros (il & tk & k & t & last & -> & Hk & Hm) Hmem Hi.
    destruct (read1_sys o kd csd tim Htim Haddr mem il tk k t last idx Hmem Hk Hi Hm) as (t' & last' & E & M).
    eexists. split; [exact E|]. exists il, (tk + 1), O, t', last'. split; [reflexivity|]. split; [lia|exact M].
  Qed.

  Theorem write1_correct s mem idx b : Ready s mem -> length b = 512%nat -> idx < NB ->
    exists s', write_inner card card_spi o [b] idx s = (Ok tt, s') /\ Ready s' (upd_mem mem idx b).
  Proof.
    intros (il & tk & k & t & last & -> & Hk & Hm) Hl Hi.
    destruct (write1_sys o kd csd tim Htim Haddr mem il tk k t last idx b Hl Hk Hi Hm) as (t' & tk' & E & M).
    eexists. split; [exact E|]. exists il, tk', O, t', 0. split; [reflexivity|]. split; [lia|exact M].
  Qed.

  Theorem multi_read_correct s mem idx n : Ready s mem -> mem_ok mem -> n <> 1%nat -> idx < NB -> idx + N.of_nat n <= NB ->
    exists s', read_inner card card_spi o n idx s = (Ok (map mem (nseq idx n)), s') /\ Ready s' mem.
  Proof.
    intros (il & tk & k & t & last & -> & Hk & Hm) Hmem Hne Hi Hn.
    destruct (multi_read_sys o kd csd tim Htim Haddr mem il tk k t last idx n Hmem Hne Hk Hn Hi Hm)
      as (t' & tk' & k' & E & Hk' & M).
    eexists. split; [exact E|]. exists il, tk', k', t', 0. split; [reflexivity|]. split; [exact Hk'|exact M].
  Qed.

  Theorem multi_write_correct s mem idx blocks : Ready s mem ->
    Forall (fun x => length x = 512%nat) blocks -> length blocks <> 1%nat -> idx < NB -> idx + N.of_nat (length blocks) <= NB ->
    exists s', write_inner card card_spi o blocks idx s = (Ok tt, s') /\ Ready s' (write_mem mem idx blocks).
  Proof.
    intros (il & tk & k & t & last & -> & Hk & Hm) Hall Hne Hi Hn.
    destruct (multi_write_sys o kd csd tim Htim Haddr mem il tk k t last idx blocks Hall Hne Hk Hn Hi Hm)
      as (t' & tk' & k' & E & Hk' & M).
    eexists. split; [exact E|]. exists il, tk', k', t', 255. split; [reflexivity|]. split; [exact Hk'|exact M].
  Qed.

  (* the same blocks, one at a time *)
  Lemma nseq_single_reads (mem : N -> list N) idx n :
    map mem (nseq idx n) = concat (map (fun i => [mem i]) (nseq idx n)).
  Proof. revert idx. induction n as [|n IH]; intros idx; cbn; [reflexivity|]. f_equal. apply IH. Qed.

  Lemma write_mem_single mem idx b : write_mem mem idx [b] = upd_mem mem idx b.
  Proof. reflexivity. Qed.
  Lemma write_mem_cons mem idx b bs : write_mem mem idx (b :: bs) = write_mem (write_mem mem idx [b]) (idx + 1) bs.
  Proof. reflexivity. Qed.

  Theorem capacity_correct s mem : Ready s mem ->
    (exists s', num_blocks_inner card card_spi o s = (Ok (card_blocks csd), s') /\ Ready s' mem) /\
    (exists s', num_bytes_inner card card_spi o s = (Ok (spec_capacity_bytes csd), s') /\ Ready s' mem).
  Proof.
    intros (il & tk & k & t & last & -> & Hk & Hm). split.
    - destruct (num_blocks_sys o kd csd tim Htim Hcsd Hstruct mem il tk k t last Hk Hm) as (t' & last' & E & M).
      eexists. split; [exact E|]. exists il, (tk + 1), O, t', last'. split; [reflexivity|]. split; [lia|exact M].
    - destruct (num_bytes_sys o kd csd tim Htim Hcsd Hstruct mem il tk k t last Hk Hm) as (t' & last' & E & M).
      eexists. split; [exact E|]. exists il, (tk + 1), O, t', last'. split; [reflexivity|]. split; [lia|exact M].
  Qed.

  (* C13_recovers (partial): whatever the driver believed, once the card is marked
     uninitialised the next call re-initialises a LEGALCARD that is able to receive a
     command (no frame in progress, not inside a data transfer) and then does its work *)
  Theorem recovers s mem c :
    k_kind (dev s) = kd -> k_csd (dev s) = csd -> k_tim (dev s) = tim ->
    c_fbuf (dev s) = [] -> c_phase (dev s) = PIdle -> c_mem (dev s) = mem ->
    (exists h, mon (tr s) = inl h /\ h_mode h = HFree) ->
    mem_ok mem -> api_ok c ->
    exists s1 s', API CMarkUninit s = (Ok VUnit, s1) /\
                  API c s1 = (spec_outcome mem c, s') /\ Inv s' (spec_after mem c).
  Proof.
    intros Hk Hc Ht Hf Hp Hm Hh Hmem Hr.
    set (s1 := {| dev := dev s; tr := tr s; ctype := None |}).
    assert (I1 : Inv s1 mem) by (right; repeat split; assumption).
    destruct (api_step_all s1 mem c I1 Hmem (api_ok_legal c Hr)) as (s' & E & I' & _).
    exists s1, s'. split; [reflexivity|]. split; assumption.
  Qed.
End Legal.
