(* PROOFS, part 2 (arbitrary peer): bus errors are reported, the CRC gate, rejected
   writes and bad tokens are errors, a failed initialisation leaves the card
   uninitialised, and the shape of what the driver puts on MOSI (command frame,
   data block).  Everything here holds for EVERY `spi` function. *)
From Coq Require Import NArith Arith List Lia Bool ZArith.
From SdSd Require Import Poly CrcModel CrcProofs SdModel SdBound.
Import ListNotations.
Open Scope N_scope.

(* a failed SPI call (DelayNs::delay_us returns (): a reply to DelayUs has no meaning) *)
Definition is_fail (e : event) : bool :=
  match e with Ev (DelayUs _) _ => false | Ev _ Fail => true | _ => false end.
Definition nofail (t : list event) : Prop := Forall (fun e => is_fail e = false) t.
Lemma is_fail_bytes c l : is_fail (Ev c (Bytes l)) = false.
Proof. destruct c; reflexivity. Qed.
Lemma nofail_one c l : nofail [Ev c (Bytes l)].
Proof. constructor; [apply is_fail_bytes|constructor]. Qed.

(* a trace is failure free, or some call in it got the reply Fail *)
Lemma classic_nofail t : nofail t \/ exists c, In (Ev c Fail) t.
Proof.
  induction t as [|[c [l|]] t IH].
  - left. constructor.
  - destruct IH as [N|[c' H]].
    + left. constructor; [apply is_fail_bytes|exact N].
    + right. exists c'. right. exact H.
  - right. exists c. left. reflexivity.
Qed.

Section Safety.
  Variable dstate : Type.
  Variable spi : dstate -> spi_call -> dstate * spi_reply.
  Variable o : opts.

  Notation M := (M dstate).
  Notation st := (st dstate).

  Definition mk (d : dstate) (t : list event) (c : option card_type) : st :=
    {| dev := d; tr := t; ctype := c |}.

  (* ---- inversion of the primitives ------------------------------------------- *)
  Lemma call_inv c s r s' : call dstate spi c s = (r, s') ->
    exists d' rp, spi (dev s) c = (d', rp) /\ r = Ok rp /\ s' = mk d' (Ev c rp :: tr s) (ctype s).
  Proof.
    unfold call. destruct (spi (dev s) c) as [d' rp]. intros E. inversion E; subst.
    exists d', rp. repeat split.
  Qed.

  Lemma transfer_byte_inv b s r s' : transfer_byte dstate spi b s = (r, s') ->
    exists d' rp, s' = mk d' (Ev (Transfer [b]) rp :: tr s) (ctype s) /\
      r = match rp with Bytes l => Ok (nth 0 (fit [0] l) 0) | Fail => Err Transport end.
  Proof.
    unfold transfer_byte, bind. destruct (call dstate spi (Transfer [b]) s) as [r0 s0] eqn:E0.
    apply call_inv in E0. destruct E0 as (d' & rp & _ & -> & ->). intros E.
    exists d', rp. destruct rp; inversion E; subst; split; reflexivity.
  Qed.

  Lemma write_byte_inv b s r s' : write_byte dstate spi b s = (r, s') ->
    exists d' rp, s' = mk d' (Ev (Transfer [b]) rp :: tr s) (ctype s) /\
      r = match rp with Bytes l => Ok tt | Fail => Err Transport end.
  Proof.
    unfold write_byte, bind. destruct (transfer_byte dstate spi b s) as [r0 s0] eqn:E0.
    apply transfer_byte_inv in E0. destruct E0 as (d' & rp & -> & ->). intros E.
    exists d', rp. destruct rp; inversion E; subst; split; reflexivity.
  Qed.

  Lemma write_bytes_inv l s r s' : write_bytes dstate spi l s = (r, s') ->
    exists d' rp, s' = mk d' (Ev (Write l) rp :: tr s) (ctype s) /\
      r = match rp with Bytes _ => Ok tt | Fail => Err Transport end.
  Proof.
    unfold write_bytes, bind. destruct (call dstate spi (Write l) s) as [r0 s0] eqn:E0.
    apply call_inv in E0. destruct E0 as (d' & rp & _ & -> & ->). intros E.
    exists d', rp. destruct rp; inversion E; subst; split; reflexivity.
  Qed.

  Lemma transfer_bytes_inv l s r s' : transfer_bytes dstate spi l s = (r, s') ->
    exists d' rp, s' = mk d' (Ev (TransferInPlace l) rp :: tr s) (ctype s) /\
      r = match rp with Bytes x => Ok (fit l x) | Fail => Err Transport end.
  Proof.
    unfold transfer_bytes, bind. destruct (call dstate spi (TransferInPlace l) s) as [r0 s0] eqn:E0.
    apply call_inv in E0. destruct E0 as (d' & rp & _ & -> & ->). intros E.
    exists d', rp. destruct rp; inversion E; subst; split; reflexivity.
  Qed.

  Lemma delay_inv s r s' : delay_us10 dstate spi s = (r, s') ->
    exists d' rp, s' = mk d' (Ev (DelayUs 10) rp :: tr s) (ctype s) /\ r = Ok tt.
  Proof.
    unfold delay_us10, bind. destruct (call dstate spi (DelayUs 10) s) as [r0 s0] eqn:E0.
    apply call_inv in E0. destruct E0 as (d' & rp & _ & -> & ->). intros E.
    exists d', rp. inversion E; subst; split; reflexivity.
  Qed.

  (* ======================================================================== *)
  (* TRANSPORT: a bus error is always reported, as Err Transport, at once.    *)
  (* `tp m`: m extends the trace; either no call failed and the result is not *)
  (* Transport, or the LAST call failed, it is the only one, and the result   *)
  (* is Err Transport.                                                        *)
  Definition tp_post {A} (s : st) (r : outcome A) (s' : st) : Prop :=
    exists new, tr s' = new ++ tr s /\
      ((nofail new /\ r <> Err Transport) \/
       (exists c rest, new = Ev c Fail :: rest /\ nofail rest /\ r = Err Transport)).
  Definition tp {A} (m : M A) : Prop := forall s r s', m s = (r, s') -> tp_post s r s'.

  Lemma tp_ret {A} (a : A) : tp (ret dstate a).
  Proof. intros s r s' E. inversion E; subst. exists []. split; [reflexivity|]. left. split; [constructor|discriminate]. Qed.
  Lemma tp_fail {A} e : e <> Transport -> tp (@fail dstate A e).
  Proof.
    intros He s r s' E. inversion E; subst. exists []. split; [reflexivity|]. left.
    split; [constructor|congruence].
  Qed.
  Lemma tp_panic {A} : tp (@panic dstate A).
  Proof. intros s r s' E. inversion E; subst. exists []. split; [reflexivity|]. left. split; [constructor|discriminate]. Qed.
  Lemma tp_lift {A} (x : outcome A) : x <> Err Transport -> tp (lift dstate x).
  Proof. intros Hx s r s' E. inversion E; subst. exists []. split; [reflexivity|]. left. split; [constructor|assumption]. Qed.
  Lemma tp_get_ctype : tp (get_ctype dstate).
  Proof. intros s r s' E. inversion E; subst. exists []. split; [reflexivity|]. left. split; [constructor|discriminate]. Qed.
  Lemma tp_set_ctype c : tp (set_ctype dstate c).
  Proof. intros s r s' E. inversion E; subst. exists []. split; [reflexivity|]. left. split; [constructor|discriminate]. Qed.

  Lemma nofail_app a b : nofail a -> nofail b -> nofail (a ++ b).
  Proof. unfold nofail. intros. apply Forall_app. split; assumption. Qed.

  Lemma tp_bind {A B} (m : M A) (f : A -> M B) : tp m -> (forall a, tp (f a)) -> tp (bind dstate m f).
  Proof.
    intros Hm Hf s r s' E. unfold bind in E. destruct (m s) as [[a|e|] s1] eqn:Em.
    - destruct (Hm _ _ _ Em) as (n1 & T1 & [[N1 _]|(c & rest & _ & _ & X)]); [|discriminate].
      destruct (Hf a _ _ _ E) as (n2 & T2 & H2). exists (n2 ++ n1). split.
      { rewrite T2, T1, app_assoc. reflexivity. }
      destruct H2 as [[N2 R2]|(c & rest & -> & N2 & R2)].
      + left. split; [apply nofail_app; assumption|assumption].
      + right. exists c, (rest ++ n1). split; [reflexivity|]. split; [apply nofail_app; assumption|assumption].
    - inversion E; subst. destruct (Hm _ _ _ Em) as (n1 & T1 & H1). exists n1. split; [assumption|].
      destruct H1 as [[N1 R1]|(c & rest & -> & N1 & R1)].
      + left. split; [assumption|]. intros X. apply R1. inversion X. reflexivity.
      + right. exists c, rest. repeat split; try assumption. inversion R1. reflexivity.
    - inversion E; subst. destruct (Hm _ _ _ Em) as (n1 & T1 & H1). exists n1. split; [assumption|].
      destruct H1 as [[N1 R1]|(c & rest & -> & N1 & R1)]; [|discriminate].
      left. split; [assumption|discriminate].
  Qed.

  Lemma tp_prim {A} (m : M A) c (k : list N -> A) :
    (forall s r s', m s = (r, s') -> exists d' rp, s' = mk d' (Ev c rp :: tr s) (ctype s) /\
       r = match rp with Bytes l => Ok (k l) | Fail => Err Transport end) -> tp m.
  Proof.
    intros H s r s' E. destruct (H _ _ _ E) as (d' & rp & -> & ->). exists [Ev c rp].
    split; [reflexivity|]. destruct rp.
    - left. split; [apply nofail_one|discriminate].
    - right. exists c, []. repeat split. constructor.
  Qed.
  Lemma tp_transfer_byte b : tp (transfer_byte dstate spi b).
  Proof. apply (tp_prim _ (Transfer [b]) (fun l => nth 0 (fit [0] l) 0)), transfer_byte_inv. Qed.
  Lemma tp_read_byte : tp (read_byte dstate spi).
  Proof. apply tp_transfer_byte. Qed.
  Lemma tp_write_byte b : tp (write_byte dstate spi b).
  Proof. apply (tp_prim _ (Transfer [b]) (fun _ => tt)), write_byte_inv. Qed.
  Lemma tp_write_bytes l : tp (write_bytes dstate spi l).
  Proof. apply (tp_prim _ (Write l) (fun _ => tt)), write_bytes_inv. Qed.
  Lemma tp_transfer_bytes l : tp (transfer_bytes dstate spi l).
  Proof. apply (tp_prim _ (TransferInPlace l) (fun x => fit l x)), transfer_bytes_inv. Qed.
  Lemma tp_delay : tp (delay_us10 dstate spi).
  Proof.
    intros s r s' E. destruct (delay_inv _ _ _ E) as (d' & rp & -> & ->). exists [Ev (DelayUs 10) rp].
    split; [reflexivity|]. left. split; [repeat constructor|discriminate].
  Qed.

  Ltac tp_step :=
    match goal with
    | |- tp (bind _ _ _) => apply tp_bind; [|intros ?]
    | |- tp (ret _ _) => apply tp_ret
    | |- tp (fail _ _) => apply tp_fail; discriminate
    | |- tp (panic _) => apply tp_panic
    | |- tp (get_ctype _) => apply tp_get_ctype
    | |- tp (set_ctype _ _) => apply tp_set_ctype
    | |- tp (read_byte _ _) => apply tp_read_byte
    | |- tp (transfer_byte _ _ _) => apply tp_transfer_byte
    | |- tp (write_byte _ _ _) => apply tp_write_byte
    | |- tp (write_bytes _ _ _) => apply tp_write_bytes
    | |- tp (transfer_bytes _ _ _) => apply tp_transfer_bytes
    | |- tp (delay_us10 _ _) => apply tp_delay
    | H : tp ?m |- tp ?m => exact H
    | |- tp (if ?b then _ else _) => destruct b
    | |- tp (match ?x with _ => _ end) => destruct x
    end.

  Lemma tp_poll stop err n : err <> Transport -> tp (poll dstate spi stop err n).
  Proof.
    intros He. induction n as [|n IH]; cbn [poll].
    - apply tp_bind; [apply tp_read_byte|intros a]. destruct (stop a); [apply tp_ret|apply tp_fail, He].
    - apply tp_bind; [apply tp_read_byte|intros a]. destruct (stop a); [apply tp_ret|].
      apply tp_bind; [apply tp_delay|intros _; exact IH].
  Qed.
  Lemma tp_wait_not_busy n : tp (wait_not_busy dstate spi n).
  Proof. unfold wait_not_busy. apply tp_bind; [apply tp_poll; discriminate|intros; apply tp_ret]. Qed.
  Lemma tp_command_response n c : tp (command_response dstate spi n c).
  Proof. apply tp_poll. discriminate. Qed.
  Lemma tp_read_token n : tp (read_token dstate spi n).
  Proof. apply tp_poll. discriminate. Qed.

  Lemma tp_card_command c a : tp (card_command dstate spi c a).
  Proof.
    unfold card_command. repeat tp_step; try apply tp_wait_not_busy; try apply tp_command_response.
  Qed.
  Lemma tp_card_acmd c a : tp (card_acmd dstate spi c a).
  Proof. unfold card_acmd. apply tp_bind; [|intros _]; apply tp_card_command. Qed.

  Lemma tp_read_data len : tp (read_data dstate spi o len).
  Proof. unfold read_data. repeat tp_step; apply tp_read_token. Qed.
  Lemma tp_write_data tok buf : tp (write_data dstate spi o tok buf).
  Proof. unfold write_data. repeat tp_step. Qed.

  Lemma tp_repeat_m n (m : M unit) : tp m -> tp (repeat_m dstate n m).
  Proof. intros Hm. induction n as [|n IH]; cbn [repeat_m]; repeat tp_step. Qed.

  (* re-raising an error that an inner computation produced *)
  Lemma tp_reraise {A B} (m : M A) (k : outcome A -> M B) :
    tp m ->
    (forall a, tp (k (Ok a))) -> (forall e, e <> Transport -> tp (k (Err e))) -> tp (k Panic) ->
    (forall s, k (Err Transport) s = (Err Transport, s)) ->
    tp (bind dstate (attempt dstate m) k).
  Proof.
    intros Hm Hok Herr Hpan Htr s r s' E. unfold bind, attempt in E.
    destruct (m s) as [r0 s0] eqn:Em.
    destruct (Hm _ _ _ Em) as (n1 & T1 & H1).
    assert (Comb : forall r0', r0' <> Err Transport -> nofail n1 -> tp (k r0') -> k r0' s0 = (r, s') -> tp_post s r s').
    { intros r0' _ N1 Hk Ek. destruct (Hk _ _ _ Ek) as (n2 & T2 & H2). exists (n2 ++ n1). split.
      { rewrite T2, T1, app_assoc. reflexivity. }
      destruct H2 as [[N2 R2]|(c & rest & -> & N2 & R2)].
      + left. split; [apply nofail_app; assumption|assumption].
      + right. exists c, (rest ++ n1). split; [reflexivity|]. split; [apply nofail_app; assumption|assumption]. }
    destruct H1 as [[N1 R1]|(c & rest & -> & N1 & ->)].
    - destruct r0 as [a|e|].
      + apply (Comb (Ok a)); auto; discriminate.
      + apply (Comb (Err e)); auto. apply Herr. congruence.
      + apply (Comb Panic); auto; discriminate.
    - rewrite Htr in E. inversion E; subst. exists (Ev c Fail :: rest). split; [assumption|].
      right. exists c, rest. repeat split. assumption.
  Qed.

  Lemma tp_enter_spi_mode n : tp (enter_spi_mode dstate spi n).
  Proof.
    induction n as [|n IH]; cbn [enter_spi_mode].
    - apply tp_reraise; [apply tp_card_command| | | |reflexivity].
      + intros a. repeat tp_step.
      + intros e He. destruct e as [| | | |c|c| | |g cc| | | | |]; try (apply tp_fail; assumption).
        destruct c; [|apply tp_fail; discriminate].
        repeat tp_step. apply tp_repeat_m, tp_write_byte.
      + apply tp_panic.
    - apply tp_reraise; [apply tp_card_command| | | |reflexivity].
      + intros a. repeat tp_step.
      + intros e He. destruct e as [| | | |c|c| | |g cc| | | | |]; try (apply tp_fail; assumption).
        destruct c; [|apply tp_fail; discriminate].
        repeat tp_step. apply tp_repeat_m, tp_write_byte.
      + apply tp_panic.
  Qed.

  Lemma tp_check_version n : tp (check_version dstate spi n).
  Proof. induction n as [|n IH]; cbn [check_version]; repeat tp_step; apply tp_card_command. Qed.
  Lemma tp_wait_ready n a : tp (wait_ready dstate spi n a).
  Proof. induction n as [|n IH]; cbn [wait_ready]; repeat tp_step; apply tp_card_acmd. Qed.

  Lemma tp_acquire_probe : tp (acquire_probe dstate spi o).
  Proof.
    unfold acquire_probe. apply tp_bind; [apply tp_enter_spi_mode|intros _].
    apply tp_bind.
    { destruct (use_crc o); repeat tp_step. apply tp_card_command. }
    intros _. apply tp_bind; [apply tp_check_version|intros [ct arg]].
    apply tp_bind; [apply tp_wait_ready|intros _].
    destruct ct; repeat tp_step. apply tp_card_command.
  Qed.
  Lemma tp_acquire_inner : tp (acquire_inner dstate spi o).
  Proof. unfold acquire_inner. apply tp_bind; [apply tp_acquire_probe|intros; apply tp_set_ctype]. Qed.

  Lemma tp_start_idx idx err : err <> Transport -> tp (start_idx dstate idx err).
  Proof.
    intros He. unfold start_idx. apply tp_bind; [apply tp_get_ctype|].
    intros [[| |]|]; try (destruct (2 ^ 32 <=? idx * 512));
      first [apply tp_ret | apply tp_fail; assumption | apply tp_fail; discriminate].
  Qed.
  Lemma tp_read_blocks n : tp (read_blocks dstate spi o n).
  Proof. induction n as [|n IH]; cbn [read_blocks]; repeat tp_step. apply tp_read_data. Qed.
  Lemma tp_write_blocks bs : tp (write_blocks dstate spi o bs).
  Proof.
    induction bs as [|b bs IH]; cbn [write_blocks]; repeat tp_step;
      first [apply tp_wait_not_busy | apply tp_write_data].
  Qed.

  (* Multi-block transfers clean up after a failure (CMD12), so a failed SPI call need
     not be the last one and the first error is the one reported.  `tpw m`: if no call
     failed the result is not Transport; if some call failed the result is an error. *)
  Definition is_err {A} (r : outcome A) : Prop := exists e, r = Err e.
  Definition had_fail (t : list event) : Prop := exists c, In (Ev c Fail) t.
  Definition tpw_post {A} (s : st) (r : outcome A) (s' : st) : Prop :=
    exists new, tr s' = new ++ tr s /\
      ((nofail new /\ r <> Err Transport) \/ (had_fail new /\ is_err r)).
  Definition tpw {A} (m : M A) : Prop := forall s r s', m s = (r, s') -> tpw_post s r s'.

  Lemma tp_tpw {A} (m : M A) : tp m -> tpw m.
  Proof.
    intros H s r s' E. destruct (H _ _ _ E) as (new & T & [[N R]|(c & rest & -> & N & ->)]).
    - exists new. split; [exact T|]. left. split; assumption.
    - exists (Ev c Fail :: rest). split; [exact T|]. right. split; [exists c; left; reflexivity|exists Transport; reflexivity].
  Qed.

  Lemma had_fail_app_l a b : had_fail a -> had_fail (a ++ b).
  Proof. intros [c H]. exists c. apply in_or_app. left. exact H. Qed.
  Lemma had_fail_app_r a b : had_fail b -> had_fail (a ++ b).
  Proof. intros [c H]. exists c. apply in_or_app. right. exact H. Qed.

  Lemma tpw_bind {A B} (m : M A) (f : A -> M B) : tpw m -> (forall a, tpw (f a)) -> tpw (bind dstate m f).
  Proof.
    intros Hm Hf s r s' E. unfold bind in E. destruct (m s) as [[a|e|] s1] eqn:Em.
    - destruct (Hm _ _ _ Em) as (n1 & T1 & [[N1 _]|[_ [e X]]]); [|discriminate].
      destruct (Hf a _ _ _ E) as (n2 & T2 & H2). exists (n2 ++ n1). split.
      { rewrite T2, T1, app_assoc. reflexivity. }
      destruct H2 as [[N2 R2]|[F2 R2]].
      + left. split; [apply nofail_app; assumption|assumption].
      + right. split; [apply had_fail_app_l, F2|assumption].
    - inversion E; subst. destruct (Hm _ _ _ Em) as (n1 & T1 & H1). exists n1. split; [assumption|].
      destruct H1 as [[N1 R1]|[F1 R1]].
      + left. split; [assumption|]. intros X. apply R1. inversion X. reflexivity.
      + right. split; [assumption|]. exists e. reflexivity.
    - inversion E; subst. destruct (Hm _ _ _ Em) as (n1 & T1 & H1). exists n1. split; [assumption|].
      destruct H1 as [[N1 R1]|[F1 [e X]]]; [|discriminate].
      left. split; [assumption|discriminate].
  Qed.

  (* result <- attempt m1 ;; k result : the general shape of "clean up, then report" *)
  Lemma tpw_attempt {A B} (m : M A) (k : outcome A -> M B) :
    tpw m ->
    (forall a, tpw (k (Ok a))) ->
    (forall e, forall s r s', k (Err e) s = (r, s') -> is_err r /\ exists new, tr s' = new ++ tr s /\ (nofail new -> r = Err e)) ->
    (forall s r s', m s = (r, s') -> r <> Panic) ->
    tpw (bind dstate (attempt dstate m) k).
  Proof.
    intros Hm Hok Herr Hpan s r s' E. unfold bind, attempt in E. destruct (m s) as [r0 s0] eqn:Em.
    destruct (Hm _ _ _ Em) as (n1 & T1 & H1). destruct r0 as [a|e|].
    - destruct H1 as [[N1 _]|[_ [e X]]]; [|discriminate].
      destruct (Hok a _ _ _ E) as (n2 & T2 & H2). exists (n2 ++ n1). split.
      { rewrite T2, T1, app_assoc. reflexivity. }
      destruct H2 as [[N2 R2]|[F2 R2]].
      + left. split; [apply nofail_app; assumption|assumption].
      + right. split; [apply had_fail_app_l, F2|assumption].
    - destruct (Herr e _ _ _ E) as (Ie & n2 & T2 & K). exists (n2 ++ n1). split.
      { rewrite T2, T1, app_assoc. reflexivity. }
      destruct H1 as [[N1 R1]|[F1 _]].
      + (* m itself saw no failure *)
        destruct (classic_nofail n2) as [N2|F2].
        * left. split; [apply nofail_app; assumption|]. rewrite (K N2). intros X. apply R1. inversion X. reflexivity.
        * right. split; [apply had_fail_app_l, F2|exact Ie].
      + right. split; [apply had_fail_app_r, F1|exact Ie].
    - exfalso. exact (Hpan _ _ _ Em eq_refl).
  Qed.

  Lemma tpw_read_inner n idx : tpw (read_inner dstate spi o n idx).
  Proof.
    unfold read_inner. apply tpw_bind; [apply tp_tpw, tp_start_idx; discriminate|intros a].
    assert (Multi : tpw (bind dstate (card_command dstate spi CMD18 a) (fun r =>
                      if negb (r =? 0) then fail dstate ReadError else
                      bind dstate (attempt dstate (read_blocks dstate spi o n)) (fun result =>
                      bind dstate (attempt dstate (card_command dstate spi CMD12 0)) (fun stopped =>
                      first_error dstate result stopped))))).
    { apply tpw_bind; [apply tp_tpw, tp_card_command|intros r].
      destruct (negb (r =? 0)); [apply tp_tpw, tp_fail; discriminate|].
      apply tpw_attempt; [apply tp_tpw, tp_read_blocks| | |].
      - intros bs. apply tpw_attempt; [apply tp_tpw, tp_card_command| | |].
        + intros x. apply tp_tpw, tp_ret.
        + intros e s r0 s' E. cbn in E. inversion E; subst. split; [eexists; reflexivity|].
          exists []. split; [reflexivity|reflexivity].
        + intros s r0 s' E. exact (proj1 (costs_card_command dstate spi CMD12 0 s r0 s' E)).
      - intros e s r0 s' E. unfold bind, attempt in E.
        destruct (card_command dstate spi CMD12 0 s) as [r1 s1] eqn:Ec. cbn in E. inversion E; subst.
        split; [eexists; reflexivity|].
        destruct (tp_card_command CMD12 0 _ _ _ Ec) as (new & T & _). exists new. split; [exact T|reflexivity].
      - intros s r0 s' E. exact (proj1 (costs_read_blocks dstate spi o n s r0 s' E)). }
    destruct n as [|[|n]]; try exact Multi.
    apply tp_tpw. repeat tp_step; first [apply tp_card_command | apply tp_read_data].
  Qed.

  Lemma tpw_write_inner bs idx : tpw (write_inner dstate spi o bs idx).
  Proof.
    unfold write_inner. apply tpw_bind; [apply tp_tpw, tp_start_idx; discriminate|intros a].
    assert (Multi : tpw
       (bind dstate (card_acmd dstate spi ACMD23 (N.of_nat (length bs) mod 2 ^ 32)) (fun _ =>
        bind dstate (wait_not_busy dstate spi (N.to_nat WRITE_RETRIES)) (fun _ =>
        bind dstate (card_command dstate spi CMD25 a) (fun r =>
        if negb (r =? 0) then fail dstate WriteError else
        bind dstate (attempt dstate (bind dstate (write_blocks dstate spi o bs)
                                       (fun _ => wait_not_busy dstate spi (N.to_nat WRITE_RETRIES)))) (fun result =>
        match result with
        | Ok _ => write_byte dstate spi STOP_TRAN_TOKEN
        | Err e => bind dstate (attempt dstate (card_command dstate spi CMD12 0)) (fun _ => fail dstate e)
        | Panic => panic dstate
        end)))))).
    { apply tpw_bind; [apply tp_tpw, tp_card_acmd|intros _].
      apply tpw_bind; [apply tp_tpw, tp_wait_not_busy|intros _].
      apply tpw_bind; [apply tp_tpw, tp_card_command|intros r].
      destruct (negb (r =? 0)); [apply tp_tpw, tp_fail; discriminate|].
      apply tpw_attempt.
      - apply tp_tpw, tp_bind; [apply tp_write_blocks|intros _; apply tp_wait_not_busy].
      - intros u. apply tp_tpw, tp_write_byte.
      - intros e s r0 s' E. unfold bind, attempt in E.
        destruct (card_command dstate spi CMD12 0 s) as [r1 s1] eqn:Ec. cbn in E. inversion E; subst.
        split; [eexists; reflexivity|].
        destruct (tp_card_command CMD12 0 _ _ _ Ec) as (new & T & _). exists new. split; [exact T|reflexivity].
      - intros s r0 s' E.
        assert (C : costs dstate (bind dstate (write_blocks dstate spi o bs)
                      (fun _ => wait_not_busy dstate spi (N.to_nat WRITE_RETRIES))) 0 \/ True) by (right; exact I).
        clear C.
        pose proof (costs_bind dstate _ _ _ _ (costs_write_blocks dstate spi o bs)
                      (fun _ => costs_wait_not_busy dstate spi (N.to_nat WRITE_RETRIES))) as C.
        exact (proj1 (C s r0 s' E)). }
    destruct bs as [|b [|b2 bs]]; try exact Multi.
    apply tp_tpw. repeat tp_step;
      first [apply tp_card_command | apply tp_write_data | apply tp_wait_not_busy].
  Qed.

  Lemma tp_read_csd : tp (read_csd dstate spi o).
  Proof. unfold read_csd. repeat tp_step; first [apply tp_card_command | apply tp_read_data]. Qed.

  Lemma cap_not_transport (x : outcome N) d :
    (x = v1_capacity_blocks d \/ x = v1_capacity_bytes d \/ x = v2_capacity_blocks d \/ x = v2_capacity_bytes d) ->
    x <> Err Transport.
  Proof.
    unfold v1_capacity_blocks, v1_capacity_bytes, v2_capacity_blocks, v2_capacity_bytes.
    intros [-> | [-> | [-> | ->]]]; repeat match goal with |- context [if ?b then _ else _] => destruct b end; discriminate.
  Qed.
  Lemma tp_num_blocks_inner : tp (num_blocks_inner dstate spi o).
  Proof.
    unfold num_blocks_inner. apply tp_bind; [apply tp_read_csd|intros [d|d]];
      apply tp_lift, (cap_not_transport _ d); auto.
  Qed.
  Lemma tp_num_bytes_inner : tp (num_bytes_inner dstate spi o).
  Proof.
    unfold num_bytes_inner. apply tp_bind; [apply tp_read_csd|intros [d|d]];
      apply tp_lift, (cap_not_transport _ d); auto.
  Qed.
  Lemma tp_erase_single : tp (erase_single_block_enabled_inner dstate spi o).
  Proof. unfold erase_single_block_enabled_inner. apply tp_bind; [apply tp_read_csd|intros [d|d]]; apply tp_ret. Qed.

  (* ======================================================================== *)
  (* invariants of the form "related before/after", closed under sequencing   *)
  Section Inv.
    Variable I : st -> st -> Prop.
    Variable okc : spi_call -> Prop.
    Hypothesis I_refl : forall s, I s s.
    Hypothesis I_trans : forall a b c, I a b -> I b c -> I a c.
    Hypothesis I_call : forall c s r s', okc c -> call dstate spi c s = (r, s') -> I s s'.

    Definition inv {A} (m : M A) : Prop := forall s r s', m s = (r, s') -> I s s'.

    Lemma inv_ret {A} (a : A) : inv (ret dstate a).
    Proof. intros s r s' E. inversion E; subst. apply I_refl. Qed.
    Lemma inv_fail {A} e : inv (@fail dstate A e).
    Proof. intros s r s' E. inversion E; subst. apply I_refl. Qed.
    Lemma inv_panic {A} : inv (@panic dstate A).
    Proof. intros s r s' E. inversion E; subst. apply I_refl. Qed.
    Lemma inv_lift {A} (x : outcome A) : inv (lift dstate x).
    Proof. intros s r s' E. inversion E; subst. apply I_refl. Qed.
    Lemma inv_get_ctype : inv (get_ctype dstate).
    Proof. intros s r s' E. inversion E; subst. apply I_refl. Qed.
    Lemma inv_call c : okc c -> inv (call dstate spi c).
    Proof. intros Hc s r s' E. eapply I_call; eassumption. Qed.
    Lemma inv_bind {A B} (m : M A) (f : A -> M B) : inv m -> (forall a, inv (f a)) -> inv (bind dstate m f).
    Proof.
      intros Hm Hf s r s' E. unfold bind in E. destruct (m s) as [[a|e|] s1] eqn:Em.
      - eapply I_trans; [eapply Hm; eassumption|eapply Hf; eassumption].
      - inversion E; subst. eapply Hm; eassumption.
      - inversion E; subst. eapply Hm; eassumption.
    Qed.
    Lemma inv_attempt {A} (m : M A) : inv m -> inv (attempt dstate m).
    Proof.
      intros Hm s r s' E. unfold attempt in E. destruct (m s) as [r0 s0] eqn:Em. inversion E; subst.
      eapply Hm; eassumption.
    Qed.
  End Inv.

  Ltac inv_step :=
    match goal with
    | |- inv _ (bind _ _ _) => apply inv_bind; [assumption|assumption| |intros ?]
    | |- inv _ (ret _ _) => apply inv_ret; assumption
    | |- inv _ (fail _ _) => apply inv_fail; assumption
    | |- inv _ (panic _) => apply inv_panic; assumption
    | |- inv _ (lift _ _) => apply inv_lift; assumption
    | |- inv _ (get_ctype _) => apply inv_get_ctype; assumption
    | |- inv _ (attempt _ _) => apply inv_attempt
    | |- inv _ (call _ _ _) => eapply inv_call; [eassumption|]
    | H : inv ?I ?m |- inv ?I ?m => exact H
    | |- inv _ (if ?b then _ else _) => destruct b
    | |- inv _ (match ?x with _ => _ end) => destruct x
    end.

  (* ---- ctype is only changed by the final set_ctype of acquire ---------------- *)
  Definition same_ctype (s s' : st) : Prop := ctype s' = ctype s.
  Lemma same_ctype_refl s : same_ctype s s. Proof. reflexivity. Qed.
  Lemma same_ctype_trans a b c : same_ctype a b -> same_ctype b c -> same_ctype a c.
  Proof. unfold same_ctype. congruence. Qed.
  Lemma same_ctype_call c s r s' : True -> call dstate spi c s = (r, s') -> same_ctype s s'.
  Proof. intros _ E. apply call_inv in E. destruct E as (d' & rp & _ & _ & ->). reflexivity. Qed.

  Notation kc := (inv same_ctype).
  Ltac kc_step :=
    match goal with
    | |- kc (bind _ _ _) => apply (inv_bind same_ctype same_ctype_trans); [|intros ?]
    | |- kc (ret _ _) => apply (inv_ret same_ctype same_ctype_refl)
    | |- kc (fail _ _) => apply (inv_fail same_ctype same_ctype_refl)
    | |- kc (panic _) => apply (inv_panic same_ctype same_ctype_refl)
    | |- kc (lift _ _) => apply (inv_lift same_ctype same_ctype_refl)
    | |- kc (get_ctype _) => apply (inv_get_ctype same_ctype same_ctype_refl)
    | |- kc (attempt _ _) => apply (inv_attempt same_ctype)
    | |- kc (call _ _ _) => apply (inv_call same_ctype (fun _ => True) same_ctype_call); exact I
    | H : kc ?m |- kc ?m => exact H
    | |- kc (if ?b then _ else _) => destruct b
    | |- kc (match ?x with _ => _ end) => destruct x
    end.

  Lemma kc_transfer_byte b : kc (transfer_byte dstate spi b).
  Proof. unfold transfer_byte. repeat kc_step. Qed.
  Lemma kc_write_byte b : kc (write_byte dstate spi b).
  Proof. unfold write_byte. repeat kc_step. apply kc_transfer_byte. Qed.
  Lemma kc_write_bytes l : kc (write_bytes dstate spi l).
  Proof. unfold write_bytes. repeat kc_step. Qed.
  Lemma kc_transfer_bytes l : kc (transfer_bytes dstate spi l).
  Proof. unfold transfer_bytes. repeat kc_step. Qed.
  Lemma kc_delay : kc (delay_us10 dstate spi).
  Proof. unfold delay_us10. repeat kc_step. Qed.
  Lemma kc_poll stop err n : kc (poll dstate spi stop err n).
  Proof. induction n as [|n IH]; cbn [poll]; repeat kc_step; first [apply kc_transfer_byte|apply kc_delay]. Qed.
  Lemma kc_wait_not_busy n : kc (wait_not_busy dstate spi n).
  Proof. unfold wait_not_busy. repeat kc_step. apply kc_poll. Qed.
  Lemma kc_command_response n c : kc (command_response dstate spi n c).
  Proof. apply kc_poll. Qed.
  Lemma kc_card_command c a : kc (card_command dstate spi c a).
  Proof.
    unfold card_command. repeat kc_step;
      first [apply kc_wait_not_busy|apply kc_write_bytes|apply kc_transfer_byte|apply kc_command_response].
  Qed.
  Lemma kc_card_acmd c a : kc (card_acmd dstate spi c a).
  Proof. unfold card_acmd. repeat kc_step; apply kc_card_command. Qed.
  Lemma kc_repeat_m n (m : M unit) : kc m -> kc (repeat_m dstate n m).
  Proof. intros Hm. induction n as [|n IH]; cbn [repeat_m]; repeat kc_step. Qed.
  Lemma kc_enter_spi_mode n : kc (enter_spi_mode dstate spi n).
  Proof.
    induction n as [|n IH]; cbn [enter_spi_mode]; repeat kc_step;
      first [apply kc_card_command | apply kc_repeat_m, kc_write_byte | apply kc_delay].
  Qed.
  Lemma kc_check_version n : kc (check_version dstate spi n).
  Proof.
    induction n as [|n IH]; cbn [check_version]; repeat kc_step;
      first [apply kc_card_command | apply kc_transfer_bytes | apply kc_delay].
  Qed.
  Lemma kc_wait_ready n a : kc (wait_ready dstate spi n a).
  Proof.
    induction n as [|n IH]; cbn [wait_ready]; repeat kc_step; first [apply kc_card_acmd | apply kc_delay].
  Qed.

  Lemma acquire_inner_eq s :
    acquire_inner dstate spi o s =
    bind dstate (acquire_probe dstate spi o) (fun t => set_ctype dstate (Some t)) s.
  Proof. reflexivity. Qed.
  Notation acquire_probe := (acquire_probe dstate spi o).

  Lemma kc_acquire_probe : kc acquire_probe.
  Proof.
    unfold acquire_probe. repeat kc_step;
      first [apply kc_enter_spi_mode | apply kc_card_command | apply kc_check_version
            | apply kc_wait_ready | apply kc_transfer_bytes].
  Qed.

  (* C13_failed_init: acquire changes card_type only when it succeeds *)
  Theorem failed_init_keeps_ctype s r s' :
    acquire dstate spi o s = (r, s') -> r <> Ok tt -> ctype s' = ctype s.
  Proof.
    unfold acquire. intros E Hr. rewrite acquire_inner_eq in E. unfold bind in E.
    destruct (acquire_probe s) as [[t|e|] s1] eqn:Ep.
    - exfalso. unfold set_ctype in E.
      destruct (read_byte dstate spi _) as [x s2]. inversion E; subst. apply Hr. reflexivity.
    - destruct (read_byte dstate spi s1) as [x s2] eqn:Eb. inversion E; subst.
      pose proof (kc_acquire_probe _ _ _ Ep) as K1. pose proof (kc_transfer_byte 255 _ _ _ Eb) as K2.
      unfold same_ctype in *. congruence.
    - destruct (read_byte dstate spi s1) as [x s2] eqn:Eb. inversion E; subst.
      pose proof (kc_acquire_probe _ _ _ Ep) as K1. pose proof (kc_transfer_byte 255 _ _ _ Eb) as K2.
      unfold same_ctype in *. congruence.
  Qed.

  Theorem acquire_ok_sets_ctype s s' :
    acquire dstate spi o s = (Ok tt, s') -> exists t, ctype s' = Some t.
  Proof.
    unfold acquire. intros E. rewrite acquire_inner_eq in E. unfold bind in E.
    destruct (acquire_probe s) as [[t|e|] s1] eqn:Ep.
    - unfold set_ctype in E. destruct (read_byte dstate spi _) as [x s2] eqn:Eb. inversion E; subst.
      exists t. pose proof (kc_transfer_byte 255 _ _ _ Eb) as K2. unfold same_ctype in K2. rewrite K2. reflexivity.
    - destruct (read_byte dstate spi s1) as [x s2]. inversion E.
    - destruct (read_byte dstate spi s1) as [x s2]. inversion E.
  Qed.

  (* ======================================================================== *)
  (* C13_crc_gate                                                              *)
  Lemma read_token_last n s r s' : read_token dstate spi n s = (r, s') ->
    exists d' rp rest, s' = mk d' (Ev (Transfer [255]) rp :: rest) (ctype s) /\
      match r with
      | Ok b => exists l, rp = Bytes l /\ b = nth 0 (fit [0] l) 0 /\ b <> 255
      | Err TimeoutReadBuffer => exists l, rp = Bytes l /\ nth 0 (fit [0] l) 0 = 255
      | Err Transport => rp = Fail
      | _ => False
      end.
  Proof.
    unfold read_token. revert s. induction n as [|n IH]; intros s; cbn [poll]; unfold bind at 1;
      destruct (read_byte dstate spi s) as [r0 s0] eqn:E0;
      apply transfer_byte_inv in E0; destruct E0 as (d' & rp & -> & ->); destruct rp as [l|].
    - destruct (N.eqb_spec (nth 0 (fit [0] l) 0) 255) as [Eq|Ne]; cbn [negb]; intros E; inversion E; subst.
      + exists d', (Bytes l), (tr s). split; [reflexivity|]. exists l. auto.
      + exists d', (Bytes l), (tr s). split; [reflexivity|]. exists l. auto.
    - intros E; inversion E; subst. exists d', Fail, (tr s). split; reflexivity.
    - destruct (N.eqb_spec (nth 0 (fit [0] l) 0) 255) as [Eq|Ne]; cbn [negb].
      + unfold bind. destruct (delay_us10 dstate spi _) as [r1 s1] eqn:E1.
        apply delay_inv in E1. destruct E1 as (d1 & rp1 & -> & ->). intros E.
        destruct (IH _ E) as (d2 & rp2 & rest & -> & H). exists d2, rp2, rest. split; [reflexivity|exact H].
      + intros E; inversion E; subst. exists d', (Bytes l), (tr s). split; [reflexivity|]. exists l. auto.
    - intros E; inversion E; subst. exists d', Fail, (tr s). split; reflexivity.
  Qed.

  (* full description of the last steps of read_data *)
  Lemma read_data_cases len s r s' : read_data dstate spi o len s = (r, s') ->
    (* 1: ended while waiting for the token *)
    (exists d' rp rest, s' = mk d' (Ev (Transfer [255]) rp :: rest) (ctype s) /\
       match rp with
       | Fail => r = Err Transport
       | Bytes l => let b := nth 0 (fit [0] l) 0 in
                    (b = 255 /\ r = Err TimeoutReadBuffer) \/ (b <> 255 /\ b <> 254 /\ r = Err ReadError)
       end) \/
    (* 2: the payload transfer failed *)
    (exists d' rest, s' = mk d' (Ev (TransferInPlace (repeat 255 len)) Fail :: rest) (ctype s) /\ r = Err Transport) \/
    (* 3: the CRC transfer failed *)
    (exists d' dat rest, s' = mk d' (Ev (TransferInPlace [255;255]) Fail ::
                                    Ev (TransferInPlace (repeat 255 len)) (Bytes dat) :: rest) (ctype s) /\
                         r = Err Transport) \/
    (* 4: both transfers done *)
    (exists d' dat crcb rest,
        s' = mk d' (Ev (TransferInPlace [255;255]) (Bytes crcb) ::
                    Ev (TransferInPlace (repeat 255 len)) (Bytes dat) :: rest) (ctype s) /\
        let buf := fit (repeat 255 len) dat in
        let crc := be16_val (nth 0 (fit [255;255] crcb) 0) (nth 1 (fit [255;255] crcb) 0) in
        r = if use_crc o then (if crc =? crc16 buf then Ok buf else Err (CrcError crc (crc16 buf))) else Ok buf).
  Proof.
    unfold read_data. unfold bind at 1.
    destruct (read_token dstate spi (N.to_nat READ_RETRIES) s) as [r0 s0] eqn:E0.
    destruct (read_token_last _ _ _ _ E0) as (d0 & rp0 & rest0 & -> & H0).
    destruct r0 as [b|e|].
    - destruct H0 as (l & -> & Hb & Hne).
      destruct (N.eqb_spec b DATA_START_BLOCK) as [Eq|Ne]; cbn [negb].
      2:{ intros E; inversion E; subst. left. exists d0, (Bytes l), rest0. split; [reflexivity|].
          cbv zeta. right. auto. }
      unfold bind at 1. destruct (transfer_bytes dstate spi (repeat 255 len) _) as [r1 s1] eqn:E1.
      apply transfer_bytes_inv in E1. destruct E1 as (d1 & rp1 & -> & ->). destruct rp1 as [dat|].
      2:{ intros E; inversion E; subst. right. left. exists d1, (Ev (Transfer [255]) (Bytes l) :: rest0). split; reflexivity. }
      unfold bind at 1. destruct (transfer_bytes dstate spi [255;255] _) as [r2 s2] eqn:E2.
      apply transfer_bytes_inv in E2. destruct E2 as (d2 & rp2 & -> & ->). destruct rp2 as [crcb|].
      2:{ intros E; inversion E; subst. right. right. left.
          exists d2, dat, (Ev (Transfer [255]) (Bytes l) :: rest0). split; reflexivity. }
      intros E. right. right. right. exists d2, dat, crcb, (Ev (Transfer [255]) (Bytes l) :: rest0).
      cbv zeta. destruct (use_crc o).
      + match type of E with context [negb (?a =? ?b)] => destruct (a =? b) end; cbn [negb] in E;
          inversion E; split; reflexivity.
      + inversion E; split; reflexivity.
    - intros E; inversion E; subst. left. exists d0, rp0, rest0. split; [reflexivity|].
      destruct e; try contradiction.
      + subst rp0. reflexivity.
      + destruct H0 as (l & -> & Hb). left. auto.
    - contradiction.
  Qed.

  Theorem crc_gate len s buf s' :
    use_crc o = true -> read_data dstate spi o len s = (Ok buf, s') ->
    exists dat crcb rest,
      tr s' = Ev (TransferInPlace [255;255]) (Bytes crcb) :: Ev (TransferInPlace (repeat 255 len)) (Bytes dat) :: rest /\
      buf = fit (repeat 255 len) dat /\
      crc16 buf = be16_val (nth 0 (fit [255;255] crcb) 0) (nth 1 (fit [255;255] crcb) 0).
  Proof.
    intros Hc E. destruct (read_data_cases _ _ _ _ E) as [(d' & rp & rest & -> & H)|[(d' & rest & -> & H)|[(d' & dat & rest & -> & H)|(d' & dat & crcb & rest & -> & H)]]].
    - destruct rp; [destruct H as [[_ H]|(_ & _ & H)]|]; discriminate.
    - discriminate.
    - discriminate.
    - cbv zeta in H. rewrite Hc in H. exists dat, crcb, rest. split; [reflexivity|].
      match type of H with context [?a =? ?b] => destruct (N.eqb_spec a b) as [Eq|Ne] end; [|discriminate].
      inversion H; subst. split; [reflexivity|]. symmetry. exact Eq.
  Qed.

  Lemma fit_bytes_id d : forall l, length l = length d -> bytes l -> fit d l = l.
  Proof.
    induction d as [|x d IH]; intros [|y l] Hl Hb; try discriminate; [reflexivity|].
    cbn [fit]. inversion Hb; subst. cbn in Hl. f_equal; [|apply IH; [lia|assumption]].
    unfold u8. change 255 with (N.ones 8). rewrite N.land_ones. apply N.mod_small. assumption.
  Qed.

  Lemma xor_bytes_length d : forall e, length d = length e -> length (xor_bytes d e) = length d.
  Proof. induction d as [|x d IH]; intros [|y e] H; try discriminate; cbn in *; [reflexivity|]. f_equal. apply IH. lia. Qed.

  (* what was received = what the card sent (payload d, its CRC) xor an error pattern
     (ed, ec); the receiver's check passes only if the pattern is invisible to CRC-16 *)
  Lemma corrupted_result len s r s' d ed ec rest :
    use_crc o = true -> read_data dstate spi o len s = (r, s') ->
    tr s' = Ev (TransferInPlace [255;255]) (Bytes (be16 (N.lxor (crc16 d) ec))) ::
            Ev (TransferInPlace (repeat 255 len)) (Bytes (xor_bytes d ed)) :: rest ->
    length d = len -> length ed = len -> bytes d -> bytes ed -> ec < 65536 ->
    crc16 (xor_bytes d ed) <> N.lxor (crc16 d) ec ->
    exists a b, r = Err (CrcError a b).
  Proof.
    intros Hc E Ht Hd Hed Bd Bed Hec Hne.
    assert (Hx : N.lxor (crc16 d) ec < 65536).
    { change 65536 with (2 ^ 16). apply lt_bounded. apply bounded_lxor; apply bounded_lt.
      - apply crc16_lt. assumption.
      - assumption. }
    destruct (read_data_cases _ _ _ _ E) as [(d' & rp & rest' & -> & H)|[(d' & rest' & -> & H)|[(d' & dat & rest' & -> & H)|(d' & dat & crcb & rest' & -> & H)]]];
      cbn [tr mk] in Ht; try solve [inversion Ht].
    inversion Ht; subst. cbv zeta in H. rewrite Hc in H.
      rewrite (fit_bytes_id (repeat 255 (length d))) in H.
      2:{ rewrite repeat_length, xor_bytes_length; congruence. }
      2:{ apply xor_bytes_bytes; assumption. }
      rewrite (fit_bytes_id [255;255]) in H; [|reflexivity|apply be16_bytes; assumption].
      cbn [be16 nth] in H. unfold be16_val in H.
      replace (N.lxor (crc16 d) ec / 256 * 256 + N.lxor (crc16 d) ec mod 256) with (N.lxor (crc16 d) ec) in H
        by (pose proof (N.div_mod (N.lxor (crc16 d) ec) 256); lia).
    match type of H with context [?a =? ?b] => destruct (N.eqb_spec a b) as [Eq|Ne] end.
    - exfalso. apply Hne. symmetry. exact Eq.
    - eexists _, _. exact H.
  Qed.

  (* ======================================================================== *)
  (* C13_write_rejected / C14_data_block: full description of write_data      *)
  Definition crc_field (buf : list N) : list N := if use_crc o then be16 (crc16 buf) else [255; 255].

  Lemma write_data_cases tok buf s r s' : write_data dstate spi o tok buf s = (r, s') ->
    exists d', ctype s' = ctype s /\ dev s' = d' /\
    ((tr s' = Ev (Transfer [tok]) Fail :: tr s /\ r = Err Transport) \/
     (exists m0, tr s' = Ev (Write buf) Fail :: Ev (Transfer [tok]) (Bytes m0) :: tr s /\ r = Err Transport) \/
     (exists m0 m1, tr s' = Ev (Write (crc_field buf)) Fail :: Ev (Write buf) (Bytes m1) ::
                            Ev (Transfer [tok]) (Bytes m0) :: tr s /\ r = Err Transport) \/
     (exists m0 m1 m2, tr s' = Ev (Transfer [255]) Fail :: Ev (Write (crc_field buf)) (Bytes m2) ::
                            Ev (Write buf) (Bytes m1) :: Ev (Transfer [tok]) (Bytes m0) :: tr s /\ r = Err Transport) \/
     (exists m0 m1 m2 l, tr s' = Ev (Transfer [255]) (Bytes l) :: Ev (Write (crc_field buf)) (Bytes m2) ::
                            Ev (Write buf) (Bytes m1) :: Ev (Transfer [tok]) (Bytes m0) :: tr s /\
        r = if N.land (nth 0 (fit [0] l) 0) DATA_RES_MASK =? DATA_RES_ACCEPTED then Ok tt else Err WriteError)).
  Proof.
    unfold write_data. unfold bind at 1.
    destruct (write_byte dstate spi tok s) as [r0 s0] eqn:E0.
    apply write_byte_inv in E0. destruct E0 as (d0 & rp0 & -> & ->). destruct rp0 as [m0|].
    2:{ intros E; inversion E; subst. eexists. split; [reflexivity|]. split; [reflexivity|]. left. split; reflexivity. }
    unfold bind at 1. destruct (write_bytes dstate spi buf _) as [r1 s1] eqn:E1.
    apply write_bytes_inv in E1. destruct E1 as (d1 & rp1 & -> & ->). destruct rp1 as [m1|].
    2:{ intros E; inversion E; subst. eexists. split; [reflexivity|]. split; [reflexivity|].
        right. left. exists m0. split; reflexivity. }
    unfold bind at 1. fold (crc_field buf). destruct (write_bytes dstate spi (crc_field buf) _) as [r2 s2] eqn:E2.
    apply write_bytes_inv in E2. destruct E2 as (d2 & rp2 & -> & ->). destruct rp2 as [m2|].
    2:{ intros E; inversion E; subst. eexists. split; [reflexivity|]. split; [reflexivity|].
        right. right. left. exists m0, m1. split; reflexivity. }
    unfold bind at 1. destruct (read_byte dstate spi _) as [r3 s3] eqn:E3.
    apply transfer_byte_inv in E3. destruct E3 as (d3 & rp3 & -> & ->). destruct rp3 as [l|].
    2:{ intros E; inversion E; subst. eexists. split; [reflexivity|]. split; [reflexivity|].
        right. right. right. left. exists m0, m1, m2. split; reflexivity. }
    intros E.
    destruct (N.land _ DATA_RES_MASK =? DATA_RES_ACCEPTED) eqn:Est; cbn [negb] in E; inversion E; subst;
      (eexists; split; [reflexivity|]; split; [reflexivity|];
       right; right; right; right; exists m0, m1, m2, l; split; [reflexivity|]; rewrite Est; reflexivity).
  Qed.
End Safety.

(* ======================================================================== *)
(* C14_frame: the six bytes of a command                                      *)
Lemma lor64 cmd : cmd < 64 -> N.lor 64 cmd = 64 + cmd.
Proof.
  intros H. apply (sweep 64 (fun c => N.lor 64 c =? 64 + c)) in H; [|vm_compute; reflexivity].
  apply N.eqb_eq in H. exact H.
Qed.

Lemma u8_mod x : u8 x = x mod 256.
Proof. unfold u8. change 255 with (N.ones 8). rewrite N.land_ones. reflexivity. Qed.

Definition frame_spec (cmd arg : N) : list N :=
  let f5 := [64 + cmd; arg / 2 ^ 24; (arg / 2 ^ 16) mod 256; (arg / 2 ^ 8) mod 256; arg mod 256] in
  f5 ++ [crc7_spec f5].

Theorem frame_correct cmd arg : cmd < 64 -> arg < 2 ^ 32 ->
  frame cmd arg = frame_spec cmd arg /\
  bytes (frame cmd arg) /\
  N.testbit (nth 0 (frame cmd arg) 0) 7 = false /\      (* start bit 0 *)
  N.testbit (nth 0 (frame cmd arg) 0) 6 = true /\       (* transmission bit 1 *)
  N.land (nth 0 (frame cmd arg) 0) 63 = cmd /\          (* command index *)
  msg_poly (firstn 4 (skipn 1 (frame cmd arg))) = arg /\ (* big-endian argument *)
  N.testbit (nth 5 (frame cmd arg) 0) 0 = true.         (* end bit 1 *)
Proof.
  intros Hc Ha.
  assert (F5 : frame5 cmd arg = [64 + cmd; arg / 2 ^ 24; (arg / 2 ^ 16) mod 256; (arg / 2 ^ 8) mod 256; arg mod 256]).
  { unfold frame5. rewrite (lor64 _ Hc), !u8_mod, !N.shiftr_div_pow2.
    rewrite (N.mod_small (arg / 2 ^ 24)); [reflexivity|].
    apply N.div_lt_upper_bound; [discriminate|]. change (2 ^ 24 * 256) with (2 ^ 32). exact Ha. }
  assert (B5 : bytes (frame5 cmd arg)).
  { rewrite F5. unfold bytes. repeat constructor; try (apply N.mod_lt; discriminate).
    - lia.
    - apply N.div_lt_upper_bound; [discriminate|]. change (2 ^ 24 * 256) with (2 ^ 32). exact Ha. }
  assert (C7 : crc7 (frame5 cmd arg) = crc7_spec (frame5 cmd arg)) by (apply crc7_correct, B5).
  assert (Hodd : N.testbit (crc7_spec (frame5 cmd arg)) 0 = true).
  { unfold crc7_spec. apply N.testbit_odd_0. }
  assert (Hlt : crc7_spec (frame5 cmd arg) < 256).
  { unfold crc7_spec. pose proof (prem_lt G7 7 monic_G7 (N.shiftl (msg_poly (frame5 cmd arg)) 7)) as P.
    change (2 ^ 7) with 128 in P. lia. }
  split; [|split; [|split; [|split; [|split; [|split]]]]].
  - unfold frame, frame_spec. rewrite C7, F5. reflexivity.
  - unfold frame. unfold bytes in *. apply Forall_app. split; [exact B5|]. rewrite C7. repeat constructor. exact Hlt.
  - unfold frame. rewrite F5. cbn [app nth].
    apply (sweep 64 (fun c => negb (N.testbit (64 + c) 7))) in Hc; [|vm_compute; reflexivity].
    apply negb_true_iff in Hc. exact Hc.
  - unfold frame. rewrite F5. cbn [app nth].
    apply (sweep 64 (fun c => N.testbit (64 + c) 6)) in Hc; [|vm_compute; reflexivity]. exact Hc.
  - unfold frame. rewrite F5. cbn [app nth].
    apply (sweep 64 (fun c => N.land (64 + c) 63 =? c)) in Hc; [|vm_compute; reflexivity].
    apply N.eqb_eq in Hc. exact Hc.
  - unfold frame. rewrite F5. cbn [app skipn firstn]. unfold msg_poly. cbn [fold_left].
    pose proof (N.div_mod arg (2 ^ 8)) as D1. pose proof (N.div_mod (arg / 2 ^ 8) (2 ^ 8)) as D2.
    pose proof (N.div_mod (arg / 2 ^ 8 / 2 ^ 8) (2 ^ 8)) as D3.
    rewrite !N.div_div in D2, D3 by discriminate. rewrite N.div_div in D3 by discriminate.
    change (2 ^ 8 * 2 ^ 8) with (2 ^ 16) in *. change (2 ^ 16 * 2 ^ 8) with (2 ^ 24) in *.
    change (2 ^ 8) with 256 in *. lia.
  - unfold frame. cbn [app nth]. rewrite F5 at 1. cbn [app nth]. rewrite C7. exact Hodd.
Qed.

Section Shape.
  Variable dstate : Type.
  Variable spi : dstate -> spi_call -> dstate * spi_reply.
  Variable o : opts.

  (* `m` only issues calls satisfying `okc` *)
  Definition issues (okc : spi_call -> Prop) (s s' : st dstate) : Prop :=
    exists new, tr s' = new ++ tr s /\ Forall (fun e => match e with Ev c _ => okc c end) new.
  Lemma issues_refl (okc : spi_call -> Prop) s : issues okc s s.
  Proof. exists []. split; [reflexivity|constructor]. Qed.
  Lemma issues_trans (okc : spi_call -> Prop) a b c : issues okc a b -> issues okc b c -> issues okc a c.
  Proof.
    intros (n1 & T1 & F1) (n2 & T2 & F2). exists (n2 ++ n1). split.
    - rewrite T2, T1, app_assoc. reflexivity.
    - apply Forall_app. split; assumption.
  Qed.
  Lemma issues_call (okc : spi_call -> Prop) c s r s' : okc c -> call dstate spi c s = (r, s') -> issues okc s s'.
  Proof.
    intros Hc E. apply call_inv in E. destruct E as (d' & rp & _ & _ & ->). exists [Ev c rp].
    split; [reflexivity|]. repeat constructor. exact Hc.
  Qed.

  Notation only okc m := (inv dstate (issues okc) m).

  Ltac only_step :=
    match goal with
    | |- only _ (bind _ _ _) => apply (inv_bind dstate _ (issues_trans _)); [|intros ?]
    | |- only _ (ret _ _) => apply (inv_ret dstate _ (issues_refl _))
    | |- only _ (fail _ _) => apply (inv_fail dstate _ (issues_refl _))
    | |- only ?k (call _ _ ?c) => apply (inv_call dstate spi _ k (issues_call k))
    | H : only ?k ?m |- only ?k ?m => exact H
    | |- only _ (if ?b then _ else _) => destruct b
    | |- only _ (match ?x with _ => _ end) => destruct x
    end.

  Lemma only_transfer_byte (okc : spi_call -> Prop) b : okc (Transfer [b]) -> only okc (transfer_byte dstate spi b).
  Proof. intros H. unfold transfer_byte. repeat only_step. exact H. Qed.
  Lemma only_delay (okc : spi_call -> Prop) : okc (DelayUs 10) -> only okc (delay_us10 dstate spi).
  Proof. intros H. unfold delay_us10. repeat only_step. exact H. Qed.
  Lemma only_write_bytes (okc : spi_call -> Prop) l : okc (Write l) -> only okc (write_bytes dstate spi l).
  Proof. intros H. unfold write_bytes. repeat only_step. exact H. Qed.

  Section Poll.
    Variable okc : spi_call -> Prop.
    Hypothesis ok_poll : okc (Transfer [255]).
    Hypothesis ok_delay : okc (DelayUs 10).
    Lemma only_poll stop err n : only okc (poll dstate spi stop err n).
    Proof.
      induction n as [|n IH]; cbn [poll]; repeat only_step;
        first [apply only_transfer_byte, ok_poll | apply only_delay, ok_delay].
    Qed.
    Lemma only_wait_not_busy n : only okc (wait_not_busy dstate spi n).
    Proof. unfold wait_not_busy. repeat only_step. apply only_poll. Qed.
    Lemma only_command_response n c : only okc (command_response dstate spi n c).
    Proof. apply only_poll. Qed.
  End Poll.

  (* the calls of one card_command: FF polls, 10 us delays, and the frame *)
  Definition cmd_call (c a : N) (x : spi_call) : Prop :=
    x = Transfer [255] \/ x = DelayUs 10 \/ x = Write (frame c a).

  Theorem card_command_issues c a : only (cmd_call c a) (card_command dstate spi c a).
  Proof.
    unfold card_command. repeat only_step;
      first [ apply only_wait_not_busy | apply only_write_bytes
            | apply (only_transfer_byte _ 255) | apply only_command_response ];
      unfold cmd_call; auto.
  Qed.
End Shape.
