(* PROOFS, part 8: multiple-block transfers between the driver and LEGALCARD (C12_multi),
   with the rule checker following along (C14). *)
From Coq Require Import NArith Arith List Lia Bool ZArith.
From SdSd Require Import Poly CrcModel CrcProofs SdModel SdSpec SdBound SdSafety SdCapacity SdCardLemmas SdSystem SdInit SdTransfer.
Import ListNotations.
Open Scope N_scope.

(* ---- read_data, general form: the card's next nac+1 bytes are fill bytes and the token,
   after which its queue holds payload, CRC and `more` ------------------------------------------ *)
Lemma read_data_gen (o : opts) len d nac more c c1 t ct multi last st crc ap :
  card_bytes c (FF (S nac)) = (c1, FF nac ++ [254]) ->
  c_fbuf c1 = [] -> c_out c1 = (d ++ be16 (crc16 d)) ++ more -> (nac <= N.to_nat READ_RETRIES)%nat ->
  length d = len -> bytes d ->
  mon t = inl (mkh (HRTok multi (len + 2)) last st crc ap) ->
  exists t', read_data card card_spi o len (sys c t ct) = (Ok d, sys (set_out c1 more (c_phase c1)) t' ct) /\
             exists last', mon t' = inl (mkh (if multi then HRTok true (len + 2) else HFree) last' st crc ap).
Proof.
  intros Hc Hf Ho Hn Hl Hb Hm. unfold read_data.
  assert (Hc' : card_bytes c (FF (S (length (FF nac)))) = (c1, FF nac ++ [254])) by (rewrite FF_length; exact Hc).
  destruct (poll_sys (fun s => negb (s =? 255)) TimeoutReadBuffer (FF nac) (N.to_nat READ_RETRIES) c c1 254 t ct
              ltac:(rewrite FF_length; exact Hn) Hc') as (t1 & E1 & M1).
  { unfold FF. clear. induction nac; cbn; constructor; [reflexivity|assumption]. }
  { reflexivity. }
  change (u8 254) with 254 in E1.
  unfold bind at 1. unfold read_token. rewrite E1. change (negb (254 =? DATA_START_BLOCK)) with false. cbv iota.
  assert (B1 : card_bytes c1 (repeat 255 len) = (set_out c1 (be16 (crc16 d) ++ more) (c_phase c1), d)).
  { rewrite <- Hl. change (repeat 255 (length d)) with (FF (length d)).
    rewrite (card_bytes_queue d c1 (be16 (crc16 d) ++ more)); [reflexivity|exact Hf|].
    rewrite Ho, <- app_assoc. reflexivity. }
  unfold bind at 1. rewrite (transfer_bytes_sys c1 t1 ct (repeat 255 len) _ d B1).
  set (c2 := set_out c1 (be16 (crc16 d) ++ more) (c_phase c1)).
  assert (B2 : card_bytes c2 [255; 255] = (set_out c1 more (c_phase c1), be16 (crc16 d))).
  { change [255; 255] with (FF (length (be16 (crc16 d)))).
    rewrite (card_bytes_queue (be16 (crc16 d)) c2 more); [reflexivity|exact Hf|reflexivity]. }
  unfold bind at 1. rewrite (transfer_bytes_sys c2 _ ct [255; 255] _ (be16 (crc16 d)) B2).
  assert (F1 : fit (repeat 255 len) d = d).
  { apply fit_bytes_id; [rewrite repeat_length; exact Hl|exact Hb]. }
  assert (F2 : fit [255; 255] (be16 (crc16 d)) = be16 (crc16 d)).
  { apply fit_bytes_id; [reflexivity|apply be16_bytes, crc16_lt, Hb]. }
  rewrite F1, F2. rewrite (be16_val_be16 (crc16 d)) by (apply crc16_lt, Hb).
  rewrite N.eqb_refl. cbn [negb].
  eexists. split.
  - destruct (use_crc o); reflexivity.
  - rewrite !mon_inplace, M1, Hm. rewrite (hpolls_token nac _ multi (len + 2)) by reflexivity.
    rewrite F1, F2. change (repeat 255 len) with (FF len).
    destruct (hbytes_rdata_part len d multi (len + 2) (len + 2) 254 st crc ap ltac:(lia)) as [l1 E3].
    unfold mkh in E3. cbv [hset hsee mkh h_mode h_last h_stage h_crc h_app]. rewrite E3.
    replace (len + 2 - len)%nat with 2%nat by lia.
    destruct (hbytes_rdata_end 2 (be16 (crc16 d)) multi (len + 2) l1 st crc ap ltac:(lia)) as [l2 E4].
    change [255; 255] with (FF 2). unfold mkh in E4. rewrite E4. exists l2. reflexivity.
Qed.

(* ---- the card fetching the next block of a multiple-block read ----------------------------------- *)
Lemma card_next_block c b :
  c_fbuf c = [] -> c_out c = [] -> c_phase c = PNextBlock b -> b < nblocks c ->
  card_bytes c (FF (S (t_nac (k_tim c) (c_tick c)))) =
  (set_out (tick c) (c_mem c b ++ be16 (crc16 (c_mem c b))) (PNextBlock (b + 1)),
   FF (t_nac (k_tim c) (c_tick c)) ++ [254]).
Proof.
  intros Hf Ho Hp Hb. rewrite card_bytes_ff_S. unfold card_byte at 1. rewrite Ho, Hp.
  apply N.ltb_lt in Hb. rewrite Hb.
  destruct (t_nac (k_tim c) (c_tick c)) as [|j].
  - cbn [FF repeat app data_packet]. rewrite feed_frame_ff by exact Hf. cbn [card_bytes]. reflexivity.
  - change (FF (S j) ++ data_packet (c_mem c b)) with (255 :: (FF j ++ data_packet (c_mem c b))).
    cbv iota beta. rewrite feed_frame_ff by exact Hf.
    set (c1 := set_out (tick c) (FF j ++ data_packet (c_mem c b)) (PNextBlock (b + 1))).
    rewrite card_bytes_ff_snoc.
    pose proof (card_bytes_queue (FF j) c1 (data_packet (c_mem c b)) Hf eq_refl) as Q.
    rewrite FF_length in Q. rewrite Q. unfold data_packet.
    rewrite (card_byte_queued _ 254 (c_mem c b ++ be16 (crc16 (c_mem c b)))); [|exact Hf|reflexivity].
    reflexivity.
Qed.

(* a frame started while the host is inside a multiple-block read *)
Lemma hbytes_frame_rtok h cmd arg ms len : cmd < 64 -> arg < 2 ^ 32 -> h_mode h = HRTok true len ->
  hbytes false h (frame cmd arg) ms false = h_frame h (HRTok true len) (frame cmd arg).
Proof.
  intros Hc Ha Hm. pose proof (frame_start cmd arg Hc) as Hs.
  assert (Hff : nth 0 (frame cmd arg) 0 <> 255).
  { intros E. rewrite E in Hs. discriminate. }
  destruct (frame_six cmd arg) as (b0 & b1 & b2 & b3 & b4 & b5 & E). rewrite E in *. cbn [nth] in Hs, Hff.
  cbn [hbytes]. unfold hstep at 1. rewrite Hm. cbv zeta. rewrite hsee_none.
  apply N.eqb_neq in Hff. rewrite Hff. unfold is_frame_start. apply N.eqb_eq in Hs. rewrite Hs.
  unfold start_frame. rewrite Hm. cbn [hset h_mode].
  cbn [hstep hbytes hset h_mode hsee app length Nat.eqb tl].
  change (h_frame (hset (hset (hset (hset (hset h (HFrame (HRTok true len) [b0])) (HFrame (HRTok true len) [b0; b1]))
               (HFrame (HRTok true len) [b0; b1; b2])) (HFrame (HRTok true len) [b0; b1; b2; b3]))
         (HFrame (HRTok true len) [b0; b1; b2; b3; b4])) (HRTok true len) [b0; b1; b2; b3; b4; b5])
    with (h_frame h (HRTok true len) [b0; b1; b2; b3; b4; b5]).
  destruct (h_frame h (HRTok true len) [b0; b1; b2; b3; b4; b5]); reflexivity.
Qed.

Lemma h_frame_cmd12 h len : h_mode h = HRTok true len ->
  h_frame h (HRTok true len) (frame 12 0) = inl (hset_all h (HStuff 12 0) (h_stage h) (h_crc h) false).
Proof. intros Hm. reflexivity. Qed.

Lemma exec_cmd12_reading c : c_reading c = true ->
  exec (set_fbuf c []) 12 0 =
  mkc (k_kind c) (k_csd c) (k_tim c) (c_mem c) (c_idle c) (c_crc c) false (c_init_left c) false (c_tick c + 1)
      (127 :: FF (t_ncr (k_tim c) (c_tick c)) ++ [if c_idle c then 1 else 0] ++ BUSY (t_busy_c (k_tim c) (c_tick c))) PIdle.
Proof.
  intros Hr. destruct c. cbn in Hr. subst. unfold exec. cbn -[FF BUSY t_ncr t_busy_c].
  destruct c_idle; reflexivity.
Qed.

Section Multi.
  Variable o : opts.
  Variable kd : kind.
  Variable csd : list N.
  Variable tim : timing.
  Hypothesis Htim : legal_timing tim.

  Notation MKC := (mkc kd csd tim).
  Notation crc := (use_crc o).
  Notation NB := (spec_capacity_blocks csd).
  Hypothesis Haddr : addressable kd csd.

  Fixpoint nseq (b : N) (n : nat) : list N :=
    match n with O => [] | S k => b :: nseq (b + 1) k end.

  Lemma nseq_length b n : length (nseq b n) = n.
  Proof. revert b. induction n; intros b; cbn; [reflexivity|]. f_equal. apply IHn. Qed.

  (* ---- the blocks of a multiple-block read ------------------------------------------------------ *)
  Lemma read_blocks_sys mem il ct : (forall b, length (mem b) = 512%nat /\ bytes (mem b)) ->
    forall n b tk t last, b + N.of_nat n <= NB ->
    mon t = inl (mkh (HRTok true 514) last IReady crc false) ->
    exists t' last',
      read_blocks card card_spi o n (sys (MKC mem false crc false il true tk [] (PNextBlock b)) t ct) =
        (Ok (map mem (nseq b n)),
         sys (MKC mem false crc false il true (tk + N.of_nat n) [] (PNextBlock (b + N.of_nat n))) t' ct) /\
      mon t' = inl (mkh (HRTok true 514) last' IReady crc false).
  Proof.
    intros Hmem. induction n as [|n IH]; intros b tk t last Hb Hm.
    - exists t, last. split; [|exact Hm]. cbn [read_blocks nseq map]. rewrite !N.add_0_r. reflexivity.
    - set (c := MKC mem false crc false il true tk [] (PNextBlock b)).
      assert (Hlt : b < nblocks c) by (unfold nblocks; cbn [k_csd c mkc]; lia).
      pose proof (card_next_block c b eq_refl eq_refl eq_refl Hlt) as Nx.
      cbn [k_tim c_tick c_mem c mkc] in Nx.
      destruct (Hmem b) as [Hl Hbytes].
      destruct (read_data_gen o 512 (mem b) (t_nac tim tk) [] c _ t ct true last IReady crc false Nx
                  eq_refl ltac:(cbn [c_out set_out]; rewrite app_nil_r; reflexivity) (nac_ok tim Htim tk) Hl Hbytes Hm)
        as (t1 & E1 & last1 & M1).
      change (set_out (set_out (tick c) _ _) [] _) with (MKC mem false crc false il true (tk + 1) [] (PNextBlock (b + 1))) in E1.
      destruct (IH (b + 1) (tk + 1) t1 last1 ltac:(lia) M1) as (t2 & last2 & E2 & M2).
      exists t2, last2. split; [|exact M2].
      cbn [read_blocks nseq map]. unfold bind at 1. rewrite E1. unfold bind at 1. rewrite E2.
      replace (tk + 1 + N.of_nat n) with (tk + N.of_nat (S n)) by lia.
      replace (b + 1 + N.of_nat n) with (b + N.of_nat (S n)) by lia. reflexivity.
  Qed.

  (* ---- CMD12 ends the read --------------------------------------------------------------------- *)
  Lemma cmd12_sys mem il tk b t ct last :
    mon t = inl (mkh (HRTok true 514) last IReady crc false) ->
    exists t' tk' k,
      card_command card card_spi CMD12 0 (sys (MKC mem false crc false il true tk [] (PNextBlock b)) t ct) =
        (Ok 0, sys (MKC mem false crc false il false tk' (BUSY k) PIdle) t' ct) /\
      (k <= N.to_nat COMMAND_RETRIES)%nat /\
      mon t' = inl (mkh HFree 0 IReady crc false).
  Proof.
    intros Hm. set (c := MKC mem false crc false il true tk [] (PNextBlock b)).
    destruct (frame_six 12 0) as (b0 & b1 & b2 & b3 & b4 & b5 & Ef).
    destruct (frame_received_stream c b0 b1 b2 b3 b4 b5 (or_intror (ex_intro _ b eq_refl)) eq_refl) as (c6 & E6 & K6 & T6).
    { pose proof (frame_start 12 0 ltac:(reflexivity)) as Hs. rewrite Ef in Hs. exact Hs. }
    rewrite <- Ef in E6. rewrite (on_frame_wellformed c6 12 0 ltac:(reflexivity) ltac:(reflexivity)) in E6.
    destruct K6 as (Q1 & Q2 & Q3 & Q4 & Q5 & Q6 & Q7 & Q8 & Q9). cbn [c mkc k_kind k_csd k_tim c_mem c_idle c_crc c_app c_init_left c_reading] in *.
    rewrite (exec_cmd12_reading c6 Q9) in E6. rewrite Q1, Q2, Q3, Q4, Q5, Q6, Q8 in E6.
    set (tk6 := c_tick c6) in *.
    destruct (card_bytes c (frame 12 0)) as [cx ms] eqn:Eb. cbn [fst] in E6. subst cx.
    unfold card_command. change (negb (CMD12 =? CMD0) && negb (CMD12 =? CMD12)) with false. cbv iota.
    unfold bind at 1. unfold ret at 1. unfold bind at 1. unfold CMD12 at 1.
    rewrite (write_bytes_sys c t ct (frame 12 0) _ ms Eb).
    change (CMD12 =? CMD12) with true. cbv iota.
    (* the stuff byte *)
    set (c7 := MKC mem false crc false il false (tk6 + 1)
                   (127 :: FF (t_ncr tim tk6) ++ [0] ++ BUSY (t_busy_c tim tk6)) PIdle).
    assert (R : card_byte c7 255 = (MKC mem false crc false il false (tk6 + 1)
                                        (FF (t_ncr tim tk6) ++ [0] ++ BUSY (t_busy_c tim tk6)) PIdle, 127)).
    { exact (card_byte_queued c7 127 _ eq_refl eq_refl). }
    unfold bind at 1. unfold bind at 1. rewrite (read_byte_sys c7 _ ct _ 127 R). unfold ret at 1.
    (* the response *)
    set (c8 := MKC mem false crc false il false (tk6 + 1) (FF (t_ncr tim tk6) ++ [0] ++ BUSY (t_busy_c tim tk6)) PIdle).
    destruct (command_response_sys (N.to_nat COMMAND_RETRIES) (t_ncr tim tk6) 0 (BUSY (t_busy_c tim tk6)) c8
                (Ev (Transfer [255]) (Bytes [127]) :: Ev (Write (frame 12 0)) (Bytes ms) :: t) ct CMD12
                (ncr_ok tim Htim tk6) eq_refl eq_refl eq_refl ltac:(reflexivity)) as (t2 & E2 & M2).
    exists t2, (tk6 + 1), (t_busy_c tim tk6). split; [exact E2|]. split; [apply (Htim tk6)|].
    rewrite M2, mon_transfer1, mon_write, Hm.
    rewrite (hbytes_frame_rtok (mkh (HRTok true 514) last IReady crc false) 12 0 ms 514 ltac:(reflexivity) ltac:(reflexivity) eq_refl).
    rewrite (h_frame_cmd12 (mkh (HRTok true 514) last IReady crc false) 514 eq_refl).
    cbn [hstep_m]. unfold hstep at 1. cbn [h_mode hset_all mkh]. change (255 =? 255) with true. cbv iota beta zeta.
    erewrite (hpolls_resp _ _ 12 0 0); [reflexivity|reflexivity|reflexivity|reflexivity].
  Qed.

  (* ---- C12_multi, reads ----------------------------------------------------------------------------- *)
  Lemma multi_read_sys mem il tk k t last idx n :
    (forall b, length (mem b) = 512%nat /\ bytes (mem b)) ->
    n <> 1%nat -> (k <= N.to_nat COMMAND_RETRIES)%nat -> idx + N.of_nat n <= NB -> idx < NB ->
    mon t = inl (mkh HFree last IReady crc false) ->
    exists t' tk' k',
      read_inner card card_spi o n idx (sys (MKC mem false crc false il false tk (BUSY k) PIdle) t (Some (type_of kd))) =
        (Ok (map mem (nseq idx n)), sys (MKC mem false crc false il false tk' (BUSY k') PIdle) t' (Some (type_of kd))) /\
      (k' <= N.to_nat COMMAND_RETRIES)%nat /\
      mon t' = inl (mkh HFree 0 IReady crc false).
  Proof.
    intros Hmem Hn Hk Hr Hi Hm. unfold read_inner. unfold bind at 1.
    rewrite (start_idx_sys kd csd Haddr _ t idx ReadError Hi).
    pose proof (addr_lt kd csd Haddr idx Hi) as Ha.
    destruct (card_command_sys 18 (addr_of kd idx) k (MKC mem false crc false il false tk (BUSY k) PIdle) t (Some (type_of kd))
                (mkh HFree last IReady crc false)
                (MKC mem false crc false il true (tk + 1) (FF (t_ncr tim tk) ++ [0]) (PNextBlock idx))
                (t_ncr tim tk) 0 []) as (t1 & E1 & M1);
      try reflexivity; try assumption; try discriminate; try apply (ncr_ok tim Htim).
    { unfold exec. cbn -[FF BUSY t_ncr t_nac decode_addr data_packet].
      rewrite (decode_addr_ok kd csd) by (try reflexivity; exact Hi). reflexivity. }
    change (sys (set_out _ _ _) t1 (Some (type_of kd)))
      with (sys (MKC mem false crc false il true (tk + 1) [] (PNextBlock idx)) t1 (Some (type_of kd))) in E1.
    assert (M1' : mon t1 = inl (mkh (HRTok true 514) 0 IReady crc false)) by (rewrite M1; reflexivity).
    destruct (read_blocks_sys mem il (Some (type_of kd)) Hmem n idx (tk + 1) t1 0 Hr M1') as (t2 & last2 & E2 & M2).
    destruct (cmd12_sys mem il (tk + 1 + N.of_nat n) (idx + N.of_nat n) t2 (Some (type_of kd)) last2 M2)
      as (t3 & tk3 & k3 & E3 & Hk3 & M3).
    exists t3, tk3, k3. split; [|split; [exact Hk3|exact M3]].
    assert (Body : bind card (card_command card card_spi CMD18 (addr_of kd idx)) (fun r =>
                     if negb (r =? 0) then fail card ReadError else
                     bind card (attempt card (read_blocks card card_spi o n)) (fun result =>
                     bind card (attempt card (card_command card card_spi CMD12 0)) (fun stopped =>
                     first_error card result stopped)))
                     (sys (MKC mem false crc false il false tk (BUSY k) PIdle) t (Some (type_of kd))) =
                   (Ok (map mem (nseq idx n)), sys (MKC mem false crc false il false tk3 (BUSY k3) PIdle) t3 (Some (type_of kd)))).
    { unfold CMD18. unfold bind at 1. rewrite E1. cbn [negb N.eqb].
      unfold bind at 1, attempt at 1. rewrite E2. unfold bind at 1, attempt at 1. rewrite E3. reflexivity. }
    destruct n as [|[|n]]; [exact Body|congruence|exact Body].
  Qed.

  (* ---- the blocks of a multiple-block write ------------------------------------------------------- *)
  Fixpoint write_mem (mem : N -> list N) (b : N) (blocks : list (list N)) : N -> list N :=
    match blocks with
    | [] => mem
    | x :: xs => write_mem (upd_mem mem b x) (b + 1) xs
    end.

  Lemma write_blocks_sys il ct : forall blocks mem b tk kb t last,
    Forall (fun x => length x = 512%nat) blocks -> b + N.of_nat (length blocks) <= NB ->
    (kb <= N.to_nat WRITE_RETRIES)%nat ->
    mon t = inl (mkh (HWTok true) last IReady crc false) ->
    exists t' kb' last',
      write_blocks card card_spi o blocks (sys (MKC mem false crc false il false tk (BUSY kb) (PWaitTok true b)) t ct) =
        (Ok tt, sys (MKC (write_mem mem b blocks) false crc false il false (tk + N.of_nat (length blocks)) (BUSY kb')
                         (PWaitTok true (b + N.of_nat (length blocks)))) t' ct) /\
      (kb' <= N.to_nat WRITE_RETRIES)%nat /\
      mon t' = inl (mkh (HWTok true) last' IReady crc false).
  Proof.
    induction blocks as [|x xs IH]; intros mem b tk kb t last Hall Hb Hkb Hm.
    - exists t, kb, last. split; [|split; [exact Hkb|exact Hm]].
      cbn [write_blocks write_mem length]. rewrite !N.add_0_r. reflexivity.
    - inversion Hall as [|? ? Hx Hxs]; subst. cbn [length] in Hb.
      destruct (wait_not_busy_sys (N.to_nat WRITE_RETRIES) kb (MKC mem false crc false il false tk (BUSY kb) (PWaitTok true b))
                  t ct Hkb eq_refl eq_refl (or_intror (ex_intro _ b eq_refl))) as (t1 & E1 & M1).
      change (set_out _ [] _) with (MKC mem false crc false il false tk [] (PWaitTok true b)) in E1.
      assert (M1' : mon t1 = inl (mkh (HWTok true) 255 IReady crc false)).
      { rewrite M1, Hm. rewrite hpolls_busy by (right; reflexivity). reflexivity. }
      destruct (write_data_sys o kd csd tim mem il tk true b x t1 ct 255 Hx ltac:(lia) ltac:(reflexivity) M1')
        as (t2 & E2 & M2).
      cbn [tok_of] in E2.
      destruct (IH (upd_mem mem b x) (b + 1) (tk + 1) (t_busy_w tim tk) t2 229 Hxs ltac:(lia) (busy_w_ok tim Htim tk) M2)
        as (t3 & kb3 & last3 & E3 & Hk3 & M3).
      exists t3, kb3, last3. split; [|split; [exact Hk3|exact M3]].
      cbn [write_blocks write_mem length]. unfold bind at 1. rewrite E1. unfold bind at 1. rewrite E2.
      replace (tk + N.of_nat (S (length xs))) with (tk + 1 + N.of_nat (length xs)) by lia.
      replace (b + N.of_nat (S (length xs))) with (b + 1 + N.of_nat (length xs)) by lia. exact E3.
  Qed.

  (* ---- C12_multi, writes ---------------------------------------------------------------------------- *)
  Lemma multi_write_sys mem il tk k t last idx blocks :
    Forall (fun x => length x = 512%nat) blocks -> length blocks <> 1%nat ->
    (k <= N.to_nat COMMAND_RETRIES)%nat -> idx + N.of_nat (length blocks) <= NB -> idx < NB ->
    mon t = inl (mkh HFree last IReady crc false) ->
    exists t' tk' k',
      write_inner card card_spi o blocks idx (sys (MKC mem false crc false il false tk (BUSY k) PIdle) t (Some (type_of kd))) =
        (Ok tt, sys (MKC (write_mem mem idx blocks) false crc false il false tk' (BUSY k') PIdle) t' (Some (type_of kd))) /\
      (k' <= N.to_nat COMMAND_RETRIES)%nat /\
      mon t' = inl (mkh HFree 255 IReady crc false).
  Proof.
    intros Hall Hn Hk Hr Hi Hm. unfold write_inner. unfold bind at 1.
    rewrite (start_idx_sys kd csd Haddr _ t idx WriteError Hi).
    pose proof (addr_lt kd csd Haddr idx Hi) as Ha.
    set (ct := Some (type_of kd)).
    (* ACMD23 *)
    destruct (cmd55_sys kd csd tim Htim mem false crc il tk k t ct last IReady Hk Hm (or_introl eq_refl)) as (t1 & E1 & M1).
    set (cnt := N.of_nat (length blocks) mod 2 ^ 32).
    assert (Hcnt : cnt < 2 ^ 32) by (apply N.mod_lt; discriminate).
    destruct (card_command_sys 23 cnt O (MKC mem false crc true il false (tk + 1) (BUSY 0) PIdle) t1 ct
                (mkh HFree 0 IReady crc true)
                (MKC mem false crc false il false (tk + 1 + 1) (FF (t_ncr tim (tk + 1)) ++ [0]) PIdle)
                (t_ncr tim (tk + 1)) 0 []) as (t2 & E2 & M2);
      try reflexivity; try assumption; try discriminate; try apply (ncr_ok tim Htim); try lia.
    change (sys (set_out _ _ _) t2 ct) with (sys (MKC mem false crc false il false (tk + 1 + 1) [] PIdle) t2 ct) in E2.
    change (BUSY 0) with (@nil N) in E2.
    (* wait *)
    destruct (wait_not_busy_sys (N.to_nat WRITE_RETRIES) O (MKC mem false crc false il false (tk + 1 + 1) [] PIdle)
                t2 ct ltac:(lia) eq_refl eq_refl (or_introl eq_refl)) as (t3 & E3 & M3).
    change (set_out _ [] _) with (MKC mem false crc false il false (tk + 1 + 1) [] PIdle) in E3.
    assert (M3' : mon t3 = inl (mkh HFree 255 IReady crc false)).
    { rewrite M3, M2. change (BUSY 0 ++ [255]) with (BUSY 0 ++ [255]). rewrite hpolls_busy by (left; reflexivity). reflexivity. }
    (* CMD25 *)
    destruct (card_command_sys 25 (addr_of kd idx) O (MKC mem false crc false il false (tk + 1 + 1) (BUSY 0) PIdle) t3 ct
                (mkh HFree 255 IReady crc false)
                (MKC mem false crc false il false (tk + 1 + 1 + 1) (FF (t_ncr tim (tk + 1 + 1)) ++ [0]) (PWaitTok true idx))
                (t_ncr tim (tk + 1 + 1)) 0 []) as (t4 & E4 & M4);
      try reflexivity; try assumption; try discriminate; try apply (ncr_ok tim Htim); try lia.
    { unfold exec. cbn -[FF BUSY t_ncr t_nac decode_addr data_packet].
      rewrite (decode_addr_ok kd csd) by (try reflexivity; exact Hi). reflexivity. }
    change (sys (set_out _ _ _) t4 ct)
      with (sys (MKC mem false crc false il false (tk + 1 + 1 + 1) [] (PWaitTok true idx)) t4 ct) in E4.
    change (BUSY 0) with (@nil N) in E4.
    assert (M4' : mon t4 = inl (mkh (HWTok true) 0 IReady crc false)) by (rewrite M4; reflexivity).
    (* the blocks *)
    destruct (write_blocks_sys il ct blocks mem idx (tk + 1 + 1 + 1) O t4 0 Hall Hr ltac:(lia) M4')
      as (t5 & kb5 & last5 & E5 & Hk5 & M5).
    change (BUSY 0) with (@nil N) in E5.
    set (tk5 := tk + 1 + 1 + 1 + N.of_nat (length blocks)) in *.
    set (b5 := idx + N.of_nat (length blocks)) in *.
    destruct (wait_not_busy_sys (N.to_nat WRITE_RETRIES) kb5
                (MKC (write_mem mem idx blocks) false crc false il false tk5 (BUSY kb5) (PWaitTok true b5))
                t5 ct Hk5 eq_refl eq_refl (or_intror (ex_intro _ b5 eq_refl))) as (t6 & E6 & M6).
    change (set_out _ [] _) with (MKC (write_mem mem idx blocks) false crc false il false tk5 [] (PWaitTok true b5)) in E6.
    assert (M6' : mon t6 = inl (mkh (HWTok true) 255 IReady crc false)).
    { rewrite M6, M5. rewrite hpolls_busy by (right; reflexivity). reflexivity. }
    (* the stop token *)
    set (c6 := MKC (write_mem mem idx blocks) false crc false il false tk5 [] (PWaitTok true b5)).
    assert (ST : card_byte c6 STOP_TRAN_TOKEN =
                 (MKC (write_mem mem idx blocks) false crc false il false (tk5 + 1) (BUSY (t_busy_c tim tk5)) PIdle, 255))
      by reflexivity.
    exists (Ev (Transfer [STOP_TRAN_TOKEN]) (Bytes [255]) :: t6), (tk5 + 1), (t_busy_c tim tk5).
    split; [|split; [apply (Htim tk5)|]].
    - assert (Body :
        bind card (card_acmd card card_spi ACMD23 cnt) (fun _ =>
        bind card (wait_not_busy card card_spi (N.to_nat WRITE_RETRIES)) (fun _ =>
        bind card (card_command card card_spi CMD25 (addr_of kd idx)) (fun r =>
        if negb (r =? 0) then fail card WriteError else
        bind card (attempt card (bind card (write_blocks card card_spi o blocks)
                                   (fun _ => wait_not_busy card card_spi (N.to_nat WRITE_RETRIES)))) (fun result =>
        match result with
        | Ok _ => write_byte card card_spi STOP_TRAN_TOKEN
        | Err e => bind card (attempt card (card_command card card_spi CMD12 0)) (fun _ => fail card e)
        | Panic => panic card
        end))))
        (sys (MKC mem false crc false il false tk (BUSY k) PIdle) t ct) =
        (Ok tt, sys (MKC (write_mem mem idx blocks) false crc false il false (tk5 + 1) (BUSY (t_busy_c tim tk5)) PIdle)
                    (Ev (Transfer [STOP_TRAN_TOKEN]) (Bytes [255]) :: t6) ct)).
      { unfold card_acmd. unfold bind at 1. unfold bind at 1. unfold CMD55 in E1. unfold CMD55. rewrite E1.
        unfold ACMD23. change (if false then 1 else 0) with 0 in E2. rewrite E2.
        unfold bind at 1. rewrite E3. unfold CMD25. unfold bind at 1. rewrite E4. cbn [negb N.eqb].
        unfold bind at 1, attempt at 1. unfold bind at 1. rewrite E5. rewrite E6.
        apply (write_byte_sys c6 t6 ct STOP_TRAN_TOKEN _ 255 ST). }
      destruct blocks as [|x [|y ys]]; [exact Body|cbn in Hn; congruence|exact Body].
    - rewrite mon_transfer1, M6'. reflexivity.
  Qed.
End Multi.
