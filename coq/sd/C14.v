(* Property C14 - everything the SD driver puts on the bus is a legal SPI-mode
   conversation.  This file contains only the property theorems, each closed by
   `exact`, pinned by `Check`, followed by `Print Assumptions`. *)
From Coq Require Import NArith List Bool.
From SdSd Require Import Poly CrcModel CrcProofs SdModel SdSpec SdBound SdSafety SdCapacity SdCardLemmas SdSystem SdInit SdTransfer SdMulti SdLegal.
Import ListNotations.
Open Scope N_scope.

(* ---- the command frame, for EVERY command index and argument, independent of any card:
   six bytes  01cccccc  a31..24  a23..16  a15..8  a7..0  crc7|1  where the CRC-7 is the
   remainder of the first five bytes by x^7+x^3+1 (C19) and the end bit is set *)
Theorem C14_frame : forall cmd arg : N, cmd < 64 -> arg < 2 ^ 32 ->
  frame cmd arg =
    [64 + cmd; arg / 2 ^ 24; (arg / 2 ^ 16) mod 256; (arg / 2 ^ 8) mod 256; arg mod 256] ++
    [crc7_spec [64 + cmd; arg / 2 ^ 24; (arg / 2 ^ 16) mod 256; (arg / 2 ^ 8) mod 256; arg mod 256]] /\
  bytes (frame cmd arg) /\
  N.testbit (nth 0 (frame cmd arg) 0) 7 = false /\
  N.testbit (nth 0 (frame cmd arg) 0) 6 = true /\
  N.land (nth 0 (frame cmd arg) 0) 63 = cmd /\
  msg_poly (firstn 4 (skipn 1 (frame cmd arg))) = arg /\
  N.testbit (nth 5 (frame cmd arg) 0) 0 = true.
Proof. exact frame_correct. Qed.

(* what card_command puts on the bus, whatever the peer does: FF polling bytes, 10 us
   delays, and the frame as one write of six bytes *)
Theorem C14_frame_sent : forall (dstate : Type) (spi : dstate -> spi_call -> dstate * spi_reply)
    (cmd arg : N) (s : st dstate) (r : outcome N) (s' : st dstate),
  card_command dstate spi cmd arg s = (r, s') ->
  exists new, tr s' = new ++ tr s /\
    Forall (fun e => match e with Ev c _ => c = Transfer [255] \/ c = DelayUs 10 \/ c = Write (frame cmd arg) end) new.
Proof. exact card_command_issues. Qed.

(* ---- the data block of a write, whatever the peer does: the token, the payload as one
   write, the two CRC bytes (the CRC-16 of the payload when CRC is on, FF FF when off),
   then one FF byte to fetch the data-response token; an SPI failure ends it early *)
Theorem C14_data_block : forall (dstate : Type) (spi : dstate -> spi_call -> dstate * spi_reply) (o : opts)
    (tok : N) (buf : list N) (s : st dstate) (r : outcome unit) (s' : st dstate),
  write_data dstate spi o tok buf s = (r, s') ->
  exists d', ctype s' = ctype s /\ dev s' = d' /\
  ((tr s' = Ev (Transfer [tok]) Fail :: tr s /\ r = Err Transport) \/
   (exists m0, tr s' = Ev (Write buf) Fail :: Ev (Transfer [tok]) (Bytes m0) :: tr s /\ r = Err Transport) \/
   (exists m0 m1, tr s' = Ev (Write (crc_field o buf)) Fail :: Ev (Write buf) (Bytes m1) ::
                          Ev (Transfer [tok]) (Bytes m0) :: tr s /\ r = Err Transport) \/
   (exists m0 m1 m2, tr s' = Ev (Transfer [255]) Fail :: Ev (Write (crc_field o buf)) (Bytes m2) ::
                          Ev (Write buf) (Bytes m1) :: Ev (Transfer [tok]) (Bytes m0) :: tr s /\ r = Err Transport) \/
   (exists m0 m1 m2 l, tr s' = Ev (Transfer [255]) (Bytes l) :: Ev (Write (crc_field o buf)) (Bytes m2) ::
                          Ev (Write buf) (Bytes m1) :: Ev (Transfer [tok]) (Bytes m0) :: tr s /\
      r = if N.land (nth 0 (fit [0] l) 0) DATA_RES_MASK =? DATA_RES_ACCEPTED then Ok tt else Err WriteError)).
Proof. exact write_data_cases. Qed.

(* ---- C14_legal: the whole conversation is legal.  For every card kind, CRC mode, legal timing oracle,
   initial memory and EVERY sequence of public calls the Rust API can express (`api_ok`: a u32 block
   number, 512-byte blocks; any block count including 0) - reads, writes, capacity queries,
   mark_card_uninit followed by re-initialisation at any point, and calls after errors: a transfer
   that starts at or beyond the card's capacity (the card rejects the command -> ReadError /
   WriteError) or runs off its end (the card goes silent / answers "write error" -> TimeoutReadBuffer
   / WriteError, the driver ends the transfer with CMD12) - the recorded bus trace (every SPI call with
   its MOSI and MISO bytes, oldest first) is accepted by the host-side rule checker `accept` of
   SdSpec.v (rules 1-14: FF fill, frame format, no command while busy, ACMD prefix, identification
   order, data commands only after completed identification, data-block format and CRC, multi-block
   termination), every call returns what `spec_outcome` says and the card memory is `spec_mem`. *)
Theorem C14_legal : forall (o : opts) (kd : kind) (csd : list N) (tim : timing),
  legal_timing tim -> addressable kd csd -> is_csd csd -> CSD_STRUCTURE csd = 0 \/ CSD_STRUCTURE csd = 1 ->
  forall (mem0 : N -> list N) (cs : list api_call), mem_ok mem0 -> Forall api_ok cs ->
  exists s', run_calls card card_spi o cs [] (init_st card (power_on kd csd tim mem0)) =
               (rev (spec_values kd csd mem0 cs), s') /\
             c_mem (dev s') = spec_mem kd csd mem0 cs /\
             accept (rev (tr s')) = true.
Proof. exact all_histories. Qed.

(* the checker is not vacuous: a data token without a write command, a command sent while the
   card signals busy, and a frame with a wrong CRC-7 are rejected *)
Example C14_accept_rejects :
  accept [Ev (Write [64;0;0;0;0;149]) (Bytes [255;255;255;255;255;255]); Ev (Transfer [255]) (Bytes [1]);
          Ev (Transfer [254]) (Bytes [255])] = false /\
  accept [Ev (Transfer [255]) (Bytes [0]); Ev (Write [72;0;0;1;170;135]) (Bytes [255;255;255;255;255;255])] = false /\
  accept [Ev (Write [64;0;0;0;0;151]) (Bytes [255;255;255;255;255;255])] = false /\
  accept [Ev (Write [64;0;0;0;0;149]) (Bytes [255;255;255;255;255;255]); Ev (Transfer [255]) (Bytes [1])] = true.
Proof. vm_compute. repeat split. Qed.

Check (C14_frame : forall cmd arg, cmd < 64 -> arg < 2 ^ 32 -> frame cmd arg = frame_spec cmd arg /\ _).
Example C14_crc_field_on : forall buf, crc_field {| use_crc := true; acquire_retries := 50 |} buf = be16 (crc16 buf).
Proof. reflexivity. Qed.
Example C14_frame_cmd0 : frame 0 0 = [64; 0; 0; 0; 0; 149].
Proof. vm_compute. reflexivity. Qed.

Print Assumptions C14_frame.
Print Assumptions C14_frame_sent.
Print Assumptions C14_data_block.
Print Assumptions C14_legal.
