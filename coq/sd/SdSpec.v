(* SPEC side for C12-C14, independent of the driver model:
   - the CSD register as a 128-bit number and the capacity formulas of the SD
     Physical Layer Simplified Specification (5.3.2 / 5.3.3);
   - LEGALCARD: an executable SD card in SPI mode (chapter 7), byte by byte;
   - `accept`: the host-side rules of an SPI-mode conversation, as a checker over
     a recorded bus trace (C14).
   No proofs in this file. *)
From Coq Require Import NArith List Bool.
From SdSd Require Import Poly CrcModel SdModel.
Import ListNotations.
Open Scope N_scope.

(* ---- CSD: bit slice [hi:lo] of the 128-bit register, byte 0 = bits 127..120 -- *)
Definition csd_value (d : list N) : N := msg_poly d.
Definition csd_slice (d : list N) (hi lo : N) : N := (csd_value d / 2 ^ lo) mod 2 ^ (hi + 1 - lo).

Definition CSD_STRUCTURE (d : list N) := csd_slice d 127 126.
Definition READ_BL_LEN (d : list N) := csd_slice d 83 80.
Definition C_SIZE_v1 (d : list N) := csd_slice d 73 62.
Definition C_SIZE_MULT (d : list N) := csd_slice d 49 47.
Definition C_SIZE_v2 (d : list N) := csd_slice d 69 48.
Definition ERASE_BLK_EN (d : list N) := csd_slice d 46 46.

(* memory capacity = BLOCKNR * BLOCK_LEN, BLOCKNR = (C_SIZE+1) * MULT,
   MULT = 2^(C_SIZE_MULT+2), BLOCK_LEN = 2^READ_BL_LEN          (CSD version 1.0) *)
Definition spec_bytes_v1 (d : list N) : N :=
  (C_SIZE_v1 d + 1) * 2 ^ (C_SIZE_MULT d + 2) * 2 ^ READ_BL_LEN d.
(* memory capacity = (C_SIZE+1) * 512 KByte                          (CSD version 2.0) *)
Definition spec_bytes_v2 (d : list N) : N := (C_SIZE_v2 d + 1) * 524288.

Definition spec_capacity_bytes (d : list N) : N :=
  if CSD_STRUCTURE d =? 0 then spec_bytes_v1 d else spec_bytes_v2 d.
Definition spec_capacity_blocks (d : list N) : N := spec_capacity_bytes d / 512.

(* ---- LEGALCARD ------------------------------------------------------------------ *)
Inductive kind := V1SC | V2SC | V2HC.

(* card-chosen timing, one draw per protocol step `k` *)
Record timing := {
  t_ncr : N -> nat;      (* fill bytes before a response            (N_CR)              *)
  t_nac : N -> nat;      (* fill bytes before a data token          (N_AC)              *)
  t_busy_w : N -> nat;   (* busy bytes after a received data block                      *)
  t_busy_c : N -> nat;   (* busy bytes after CMD12 / after the stop-transmission token  *)
  t_init : N -> nat      (* ACMD41 answers "idle" this many times after a CMD0          *)
}.

(* every delay is below the budget the driver has at that point *)
Definition legal_timing (t : timing) : Prop :=
  forall k, (t_ncr t k <= 8)%nat /\
            (t_nac t k <= N.to_nat READ_RETRIES)%nat /\
            (t_busy_w t k <= N.to_nat WRITE_RETRIES)%nat /\
            (t_busy_c t k <= N.to_nat COMMAND_RETRIES)%nat /\
            (t_init t k <= N.to_nat COMMAND_RETRIES)%nat.

(* What the card does when its output queue is empty *)
Inductive phase :=
| PIdle                                          (* waiting for a command: MISO = FF           *)
| PNextBlock (blk : N)                           (* multiple-block read: block `blk` is next   *)
| PWaitTok (multi : bool) (blk : N)              (* write: waiting for a start token           *)
| PRecv (multi : bool) (blk : N) (got : list N) (nleft : nat).   (* write: receiving 512+2 bytes *)

Record card := {
  k_kind : kind;
  k_csd : list N;
  k_tim : timing;
  c_mem : N -> list N;       (* block number -> 512 bytes *)
  c_idle : bool;             (* in idle state (after CMD0, until ACMD41 completes) *)
  c_crc : bool;              (* CRC checking on (CMD59) *)
  c_app : bool;              (* APP_CMD latch: the previous command was CMD55 *)
  c_init_left : nat;         (* remaining "idle" answers to ACMD41 *)
  c_reading : bool;          (* inside a multiple-block read *)
  c_tick : N;                (* index of the next timing draw *)
  c_fbuf : list N;           (* command frame bytes received so far *)
  c_out : list N;            (* bytes queued for MISO, one per clock; FF when empty *)
  c_phase : phase
}.

Definition nblocks (c : card) : N := spec_capacity_blocks (k_csd c).

Definition upd_mem (m : N -> list N) (b : N) (d : list N) : N -> list N :=
  fun x => if x =? b then d else m x.

Definition set_out (c : card) (out : list N) (p : phase) : card :=
  {| k_kind := k_kind c; k_csd := k_csd c; k_tim := k_tim c; c_mem := c_mem c; c_idle := c_idle c;
     c_crc := c_crc c; c_app := c_app c; c_init_left := c_init_left c; c_reading := c_reading c;
     c_tick := c_tick c; c_fbuf := c_fbuf c; c_out := out; c_phase := p |}.
Definition set_fbuf (c : card) (f : list N) : card :=
  {| k_kind := k_kind c; k_csd := k_csd c; k_tim := k_tim c; c_mem := c_mem c; c_idle := c_idle c;
     c_crc := c_crc c; c_app := c_app c; c_init_left := c_init_left c; c_reading := c_reading c;
     c_tick := c_tick c; c_fbuf := f; c_out := c_out c; c_phase := c_phase c |}.
Definition tick (c : card) : card :=
  {| k_kind := k_kind c; k_csd := k_csd c; k_tim := k_tim c; c_mem := c_mem c; c_idle := c_idle c;
     c_crc := c_crc c; c_app := c_app c; c_init_left := c_init_left c; c_reading := c_reading c;
     c_tick := c_tick c + 1; c_fbuf := c_fbuf c; c_out := c_out c; c_phase := c_phase c |}.
Definition set_flags (c : card) (idle crc app : bool) (init_left : nat) (reading : bool) : card :=
  {| k_kind := k_kind c; k_csd := k_csd c; k_tim := k_tim c; c_mem := c_mem c; c_idle := idle;
     c_crc := crc; c_app := app; c_init_left := init_left; c_reading := reading;
     c_tick := c_tick c; c_fbuf := c_fbuf c; c_out := c_out c; c_phase := c_phase c |}.
Definition set_mem (c : card) (m : N -> list N) : card :=
  {| k_kind := k_kind c; k_csd := k_csd c; k_tim := k_tim c; c_mem := m; c_idle := c_idle c;
     c_crc := c_crc c; c_app := c_app c; c_init_left := c_init_left c; c_reading := c_reading c;
     c_tick := c_tick c; c_fbuf := c_fbuf c; c_out := c_out c; c_phase := c_phase c |}.

Definition FF (n : nat) : list N := repeat 255 n.
Definition BUSY (n : nat) : list N := repeat 0 n.

(* R1: bit0 idle, bit2 illegal command, bit3 CRC error, bit5 address error, bit6 parameter error *)
Definition r1 (c : card) (bits : N) : N := N.lor bits (if c_idle c then 1 else 0).

(* a data block as the card sends it: start token, payload, CRC-16 *)
Definition data_packet (d : list N) : list N := 254 :: d ++ be16 (crc16 d).

(* block number addressed by a read/write argument, or the R1 error bits *)
Definition decode_addr (c : card) (arg : N) : N + N :=
  match k_kind c with
  | V2HC => if arg <? nblocks c then inl arg else inr 64
  | _ => if negb (arg mod 512 =? 0) then inr 32
         else if arg / 512 <? nblocks c then inl (arg / 512) else inr 64
  end.

(* execute one received command frame (its CRC-7 already checked) *)
Definition exec (c0 : card) (cmd arg : N) : card :=
  let k := c_tick c0 in
  let t := k_tim c0 in
  let was_app := c_app c0 in
  (* every command consumes the APP_CMD latch and one timing index *)
  let c := tick (set_flags c0 (c_idle c0) (c_crc c0) false (c_init_left c0) (c_reading c0)) in
  (* the response replaces whatever was queued: N_CR fill bytes, the response, then `more` *)
  let respond (c' : card) (resp more : list N) (nxt : phase) : card :=
      set_out c' (FF (t_ncr t k) ++ resp ++ more) nxt in
  let illegal := respond c [r1 c 4] [] PIdle in
  if cmd =? 0 then
    let c' := set_flags c true false false (t_init t k) false in
    respond c' [1] [] PIdle
  else if c_reading c0 then
    (* only STOP_TRANSMISSION ends a multiple-block read *)
    if cmd =? 12 then
      let c' := set_flags c (c_idle c) (c_crc c) false (c_init_left c) false in
      set_out c' (127 :: FF (t_ncr t k) ++ [r1 c' 0] ++ BUSY (t_busy_c t k)) PIdle
    else c0
  else if (cmd =? 12) && (match c_phase c0 with PWaitTok true _ => true | _ => false end) then
    (* STOP_TRANSMISSION also aborts a multiple-block write (after a rejected block) *)
    set_out c (127 :: FF (t_ncr t k) ++ [r1 c 0] ++ BUSY (t_busy_c t k)) PIdle
  else if cmd =? 8 then
    match k_kind c with
    | V1SC => illegal
    | _ => respond c [r1 c 0; 0; 0; N.land (N.shiftr arg 8) 15; N.land arg 255] [] PIdle
    end
  else if cmd =? 55 then
    respond (set_flags c (c_idle c) (c_crc c) true (c_init_left c) false) [r1 c 0] [] PIdle
  else if cmd =? 58 then
    let ocr0 := if c_idle c then 0 else
                match k_kind c with V2HC => 192 | _ => 128 end in
    respond c [r1 c 0; ocr0; 255; 128; 0] [] PIdle
  else if cmd =? 59 then
    respond (set_flags c (c_idle c) (N.testbit arg 0) false (c_init_left c) false) [r1 c 0] [] PIdle
  else if cmd =? 13 then
    respond c [r1 c 0; 0] [] PIdle
  else if (cmd =? 41) && was_app then
    if c_idle c then
      let hcs_ok := match k_kind c with V2HC => N.testbit arg 30 | _ => true end in
      if hcs_ok then
        match c_init_left c with
        | O => let c' := set_flags c false (c_crc c) false O false in respond c' [0] [] PIdle
        | S n => respond (set_flags c true (c_crc c) false n false) [1] [] PIdle
        end
      else respond c [1] [] PIdle
    else respond c [0] [] PIdle
  else if c_idle c then illegal
  else if (cmd =? 23) && was_app then respond c [0] [] PIdle
  else if cmd =? 9 then
    respond c [0] (FF (t_nac t k) ++ data_packet (k_csd c)) PIdle
  else if cmd =? 17 then
    match decode_addr c arg with
    | inl b => respond c [0] (FF (t_nac t k) ++ data_packet (c_mem c b)) PIdle
    | inr e => respond c [e] [] PIdle
    end
  else if cmd =? 18 then
    match decode_addr c arg with
    | inl b => respond (set_flags c false (c_crc c) false (c_init_left c) true) [0] [] (PNextBlock b)
    | inr e => respond c [e] [] PIdle
    end
  else if cmd =? 24 then
    match decode_addr c arg with
    | inl b => respond c [0] [] (PWaitTok false b)
    | inr e => respond c [e] [] PIdle
    end
  else if cmd =? 25 then
    match decode_addr c arg with
    | inl b => respond c [0] [] (PWaitTok true b)
    | inr e => respond c [e] [] PIdle
    end
  else illegal.

(* a complete 6-byte frame has arrived *)
Definition on_frame (c : card) (f : list N) : card :=
  let b0 := nth 0 f 0 in
  let cmd := N.land b0 63 in
  let arg := msg_poly (firstn 4 (skipn 1 f)) in
  let crcb := nth 5 f 0 in
  let c := set_fbuf c [] in
  if (c_crc c || (cmd =? 0) || (cmd =? 8)) && negb (crc7 (firstn 5 f) =? crcb)
  then (* CRC error: not executed; the APP_CMD latch is consumed; what was queued is dropped *)
       set_out (tick (set_flags c (c_idle c) (c_crc c) false (c_init_left c) (c_reading c)))
               (FF (t_ncr (k_tim c) (c_tick c)) ++ [r1 c 8]) (c_phase c)
  else exec c cmd arg.

(* the command-frame receiver *)
Definition feed_frame (c : card) (mosi : N) : card :=
  match c_fbuf c with
  | [] => if N.land mosi 192 =? 64 then set_fbuf c [mosi] else c
  | f => let f' := f ++ [mosi] in
         if Nat.eqb (length f') 6 then on_frame c f' else set_fbuf c f'
  end.

(* a complete data block (512 + 2 bytes) has been received *)
Definition on_block (c : card) (multi : bool) (blk : N) (got : list N) : card :=
  let d := firstn 512 got in
  let crc := be16_val (nth 512 got 0) (nth 513 got 0) in
  let k := c_tick c in
  let c1 := tick c in
  if c_crc c && negb (crc16 d =? crc) then
    set_out c1 [235] (if multi then PWaitTok true blk else PIdle)
  else if negb (blk <? nblocks c) then
    set_out c1 [237] (if multi then PWaitTok true blk else PIdle)
  else
    set_out (set_mem c1 (upd_mem (c_mem c) blk d))
            (229 :: BUSY (t_busy_w (k_tim c) k)) (if multi then PWaitTok true (blk + 1) else PIdle).

(* one byte on the bus: MOSI in, MISO out *)
Definition card_byte (c : card) (mosi : N) : card * N :=
  match c_out c with
  | b :: rest => (feed_frame (set_out c rest (c_phase c)) mosi, b)
  | [] =>
    match c_phase c with
    | PIdle => (feed_frame c mosi, 255)
    | PNextBlock b =>
        if b <? nblocks c then
          (* fetch the next block: N_AC fill bytes (the first goes out now), then the packet *)
          match FF (t_nac (k_tim c) (c_tick c)) ++ data_packet (c_mem c b) with
          | m :: rest => (feed_frame (set_out (tick c) rest (PNextBlock (b + 1))) mosi, m)
          | [] => (feed_frame c mosi, 255)
          end
        else (feed_frame c mosi, 255)
    | PWaitTok multi blk =>
        match c_fbuf c with
        | [] =>
            if (mosi =? 254) && negb multi then (set_out c [] (PRecv false blk [] 514), 255)
            else if (mosi =? 252) && multi then (set_out c [] (PRecv true blk [] 514), 255)
            else if (mosi =? 253) && multi
                 then (set_out (tick c) (BUSY (t_busy_c (k_tim c) (c_tick c))) PIdle, 255)
            else (feed_frame c mosi, 255)
        | _ => (feed_frame c mosi, 255)
        end
    | PRecv multi blk got nleft =>
        match nleft with
        | S (S l) => (set_out c [] (PRecv multi blk (got ++ [mosi]) (S l)), 255)
        | _ => (on_block c multi blk (got ++ [mosi]), 255)
        end
    end
  end.

Fixpoint card_bytes (c : card) (out : list N) : card * list N :=
  match out with
  | [] => (c, [])
  | b :: rest => let '(c1, m) := card_byte c b in
                 let '(c2, ms) := card_bytes c1 rest in (c2, m :: ms)
  end.

(* instantiation (ii) of the driver's `spi` parameter *)
Definition card_spi (c : card) (call : spi_call) : card * spi_reply :=
  match call with
  | Write out => let '(c', m) := card_bytes c out in (c', Bytes m)
  | Transfer out => let '(c', m) := card_bytes c out in (c', Bytes m)
  | TransferInPlace out => let '(c', m) := card_bytes c out in (c', Bytes m)
  | DelayUs _ => (c, Bytes [])
  end.

(* a card as it is after power-up *)
Definition power_on (kd : kind) (csd : list N) (t : timing) (m : N -> list N) : card :=
  {| k_kind := kd; k_csd := csd; k_tim := t; c_mem := m; c_idle := true; c_crc := false; c_app := false;
     c_init_left := O; c_reading := false; c_tick := 0; c_fbuf := []; c_out := []; c_phase := PIdle |}.

(* the register layout belongs to the kind: standard capacity cards (v1 and v2)
   carry a version-1 CSD, high capacity cards a version-2 CSD *)
Definition csd_matches (kd : kind) (csd : list N) : bool :=
  Nat.eqb (length csd) 16 && forallb (fun b => b <? 256) csd &&
  match kd with V2HC => CSD_STRUCTURE csd =? 1 | _ => CSD_STRUCTURE csd =? 0 end.

(* ---- ACCEPT: host-side rules of an SPI-mode conversation (C14) -------------------
   A checker over the recorded bus trace, byte by byte: MOSI byte, and the MISO byte
   if the host looked at it (transfer) or not (write).  It knows nothing about the
   driver; it follows the protocol from the host's side:
     rule 1  outside command frames and data blocks MOSI is FF
     rule 2  a command is 6 bytes 01cccccc a3 a2 a1 a0 (crc7<<1|1)
     rule 3  no command except CMD0/CMD12 starts while the last MISO byte seen was not FF
     rule 4  ACMD41/ACMD23 directly preceded by an accepted CMD55
     rule 5  commands in the order CMD0 -> [CMD59] -> CMD8 -> (CMD55 ACMD41)* -> [CMD58 on v2];
             data commands only after that sequence has completed since the last CMD0
     rule 6  CMD12 only inside a multiple-block read
     rule 7  a multiple-block read is nleft only by CMD12
     rule 8  a written data block carries a valid CRC-16 when CRC is on
     rule 9  no data token without an accepted write command
     rule 10 a multiple-block write is nleft only by the stop token
     rule 11 no new command while a response / data token is still awaited (strict only)
     rule 12 FC / FD tokens only when the last MISO byte seen was FF
     rule 13 after an accepted single-block write command: FF* then the FE token
     rule 14 a single-block read data phase is nleft only after token + data + 2 bytes
   `lenient` = the peer is not known to be a legal card: responses the host is not
   obliged to honour count as accepted, abandoning a wait (rule 11) is allowed. *)
Inductive istage := INone | IIdle (crc_done : bool) | IVersion (v2 : bool) | IOpReady | IReady.

Inductive hmode :=
| HFree
| HFrame (ctx : hmode) (got : list N)
| HStuff (cmd arg : N)
| HResp (cmd arg : N)
| HTail (cmd : N) (last : N) (nleft : nat)
| HRTok (multi : bool) (len : nat)
| HRData (multi : bool) (len nleft : nat)
| HWTok (multi : bool)
| HWData (multi : bool) (rgot : list N) (nleft : nat)
| HWResp (multi : bool).

Record hstate := { h_mode : hmode; h_last : N; h_stage : istage; h_crc : bool; h_app : bool }.

Definition h_init : hstate :=
  {| h_mode := HFree; h_last := 255; h_stage := INone; h_crc := false; h_app := false |}.

Definition hset (h : hstate) (m : hmode) : hstate :=
  {| h_mode := m; h_last := h_last h; h_stage := h_stage h; h_crc := h_crc h; h_app := h_app h |}.
Definition hset_all (h : hstate) (m : hmode) (st : istage) (crc app : bool) : hstate :=
  {| h_mode := m; h_last := h_last h; h_stage := st; h_crc := crc; h_app := app |}.
Definition hsee (h : hstate) (miso : option N) : hstate :=
  match miso with
  | Some b => {| h_mode := h_mode h; h_last := b; h_stage := h_stage h; h_crc := h_crc h; h_app := h_app h |}
  | None => h
  end.

Definition in_multi_read (m : hmode) : bool :=
  match m with HRTok true _ | HRData true _ _ => true | _ => false end.

(* may a frame with this command index be sent at this point? 0 = yes *)
Definition stage_rule (h : hstate) (cmd : N) : N :=
  let st := h_stage h in
  if cmd =? 0 then 0
  else if cmd =? 59 then match st with IIdle false => 0 | _ => 5 end
  else if cmd =? 8 then match st with IIdle _ => 0 | _ => 5 end
  else if cmd =? 55 then match st with IVersion _ | IReady => 0 | _ => 5 end
  else if cmd =? 41 then if h_app h then match st with IVersion _ => 0 | _ => 5 end else 4
  else if cmd =? 58 then match st with IOpReady => 0 | _ => 5 end
  else if cmd =? 23 then if h_app h then match st with IReady => 0 | _ => 5 end else 4
  else if (cmd =? 9) || (cmd =? 13) || (cmd =? 17) || (cmd =? 18) || (cmd =? 24) || (cmd =? 25)
       then match st with IReady => 0 | _ => 5 end
  else 5.

(* a complete frame `f` (6 bytes) sent in context `ctx` *)
Definition h_frame (h : hstate) (ctx : hmode) (f : list N) : hstate + N :=
  let cmd := N.land (nth 0 f 0) 63 in
  let arg := msg_poly (firstn 4 (skipn 1 f)) in
  if negb (crc7 (firstn 5 f) =? nth 5 f 0) then inr 2
  else if in_multi_read ctx then
    if cmd =? 12 then inl (hset_all h (HStuff cmd arg) (h_stage h) (h_crc h) false) else inr 7
  else match ctx with
       | HWTok true =>
         if cmd =? 12 then inl (hset_all h (HStuff cmd arg) (h_stage h) (h_crc h) false) else inr 10
       | _ =>
         if cmd =? 12 then inr 6
         else if negb (cmd =? 0) && negb (h_last h =? 255) then inr 3
         else match stage_rule h cmd with
              | 0 => inl (hset_all h (HResp cmd arg) (h_stage h) (h_crc h) (h_app h))
              | code => inr code
              end
       end.

(* the R1 byte of command `cmd` has been seen *)
Definition h_r1 (lenient : bool) (h : hstate) (cmd arg r1 : N) : hstate :=
  let ok := lenient || (r1 =? 0) in
  let st := h_stage h in
  if cmd =? 0 then hset_all h HFree (if r1 =? 1 then IIdle false else INone) false false
  else if cmd =? 59 then
    if r1 =? 1 then hset_all h HFree (IIdle true) (N.testbit arg 0) false
    else hset_all h HFree INone (h_crc h) false
  else if cmd =? 8 then
    if r1 =? 5 then hset_all h HFree (IVersion false) (h_crc h) false
    else hset_all h (HTail 8 0 4) st (h_crc h) false
  else if cmd =? 55 then hset_all h HFree st (h_crc h) (lenient || (N.land r1 254 =? 0))
  else if cmd =? 41 then
    hset_all h HFree (if r1 =? 0 then match st with IVersion true => IOpReady | _ => IReady end else st)
             (h_crc h) false
  else if cmd =? 58 then
    if r1 =? 0 then hset_all h (HTail 58 0 4) st (h_crc h) false
    else hset_all h HFree INone (h_crc h) false
  else if cmd =? 13 then hset_all h (HTail 13 0 1) st (h_crc h) false
  else if cmd =? 9 then hset_all h (if ok then HRTok false 18 else HFree) st (h_crc h) false
  else if cmd =? 17 then hset_all h (if ok then HRTok false 514 else HFree) st (h_crc h) false
  else if cmd =? 18 then hset_all h (if ok then HRTok true 514 else HFree) st (h_crc h) false
  else if cmd =? 24 then hset_all h (if ok then HWTok false else HFree) st (h_crc h) false
  else if cmd =? 25 then hset_all h (if ok then HWTok true else HFree) st (h_crc h) false
  else hset_all h HFree st (h_crc h) false.

Definition is_frame_start (b : N) : bool := N.land b 192 =? 64.

(* a frame starts while the host was in mode `m`: allowed? *)
Definition start_frame (lenient : bool) (h : hstate) (b : N) : hstate + N :=
  match h_mode h with
  | HFree => inl (hset h (HFrame HFree [b]))
  | HRTok true _ | HRData true _ _ => inl (hset h (HFrame (h_mode h) [b]))
  | HWTok true => inl (hset h (HFrame (HWTok true) [b]))
  | HWTok false => inr 13
  | HRData false _ _ => inr 14
  | _ => if lenient then inl (hset h (HFrame HFree [b])) else inr 11
  end.

Definition hstep (lenient : bool) (h0 : hstate) (mosi : N) (miso : option N) : hstate + N :=
  let h := hsee h0 miso in
  let idle_byte (k : hstate -> hstate + N) : hstate + N :=
      if mosi =? 255 then k h
      else if is_frame_start mosi then start_frame lenient h0 mosi
      else if (mosi =? 254) || (mosi =? 252) || (mosi =? 253) then inr 9 else inr 1 in
  match h_mode h0 with
  | HFree => idle_byte (fun h => inl h)
  | HFrame ctx got =>
      let f := got ++ [mosi] in
      if Nat.eqb (length f) 6 then h_frame h0 ctx f else inl (hset h (HFrame ctx f))
  | HStuff cmd arg => idle_byte (fun h => inl (hset h (HResp cmd arg)))
  | HResp cmd arg =>
      idle_byte (fun h => match miso with
                          | Some r => if N.land r 128 =? 0 then inl (h_r1 lenient h cmd arg r) else inl h
                          | None => inl h
                          end)
  | HTail cmd last nleft =>
      idle_byte (fun h =>
        let b := match miso with Some x => x | None => 255 end in
        match nleft with
        | S (S l) => inl (hset h (HTail cmd b (S l)))
        | _ =>
          if cmd =? 8 then
            inl (hset_all h HFree (if b =? 170 then IVersion true else h_stage h) (h_crc h) false)
          else if cmd =? 58 then inl (hset_all h HFree IReady (h_crc h) false)
          else inl (hset h HFree)
        end)
  | HRTok multi len =>
      idle_byte (fun h => match miso with
                          | Some 255 => inl h
                          | Some 254 => inl (hset h (HRData multi len len))
                          | Some _ => inl (if multi then h else hset h HFree)
                          | None => inl h
                          end)
  | HRData multi len nleft =>
      idle_byte (fun h => match nleft with
                          | S (S l) => inl (hset h (HRData multi len (S l)))
                          | _ => inl (hset h (if multi then HRTok true len else HFree))
                          end)
  | HWTok multi =>
      if mosi =? 255 then inl h
      else if (mosi =? 254) && negb multi then inl (hset h (HWData false [] 514))
      else if ((mosi =? 252) || (mosi =? 253)) && multi then
        if negb (h_last h0 =? 255) then inr 12
        else if mosi =? 252 then inl (hset h (HWData true [] 514)) else inl (hset h HFree)
      else if is_frame_start mosi then start_frame lenient h0 mosi
      else inr 1
  | HWData multi rgot nleft =>
      match nleft with
      | S (S l) => inl (hset h (HWData multi (mosi :: rgot) (S l)))
      | _ =>
        let got := rev (mosi :: rgot) in
        if h_crc h && negb (crc16 (firstn 512 got) =? be16_val (nth 512 got 0) (nth 513 got 0))
        then inr 8 else inl (hset h (HWResp multi))
      end
  | HWResp multi =>
      idle_byte (fun h => match miso with
                          | Some _ => inl (hset h (if multi then HWTok true else HFree))
                          | None => inl h
                          end)
  end.

Fixpoint hbytes (lenient : bool) (h : hstate) (out : list N) (inp : list N) (seen : bool) : hstate + N :=
  match out with
  | [] => inl h
  | b :: out' =>
      let m := match inp with [] => 255 | x :: _ => x end in
      match hstep lenient h b (if seen then Some m else None) with
      | inl h' => hbytes lenient h' out' (tl inp) seen
      | inr code => inr code
      end
  end.

Definition hevent (lenient : bool) (h : hstate) (e : event) : hstate + N :=
  match e with
  | Ev (Write out) (Bytes m) => hbytes lenient h out m false
  | Ev (Transfer out) (Bytes m) => hbytes lenient h out (fit out m) true
  | Ev (TransferInPlace out) (Bytes m) => hbytes lenient h out (fit out m) true
  | Ev (DelayUs _) _ => inl h
  | Ev _ Fail => inl (hset h HFree)     (* bus error: the host starts afresh *)
  end.

(* result: 0 = accepted, otherwise the number of the violated rule and the index of
   the offending event; events oldest first *)
Fixpoint accept_from (lenient : bool) (h : hstate) (evs : list event) (idx : N) : N * N :=
  match evs with
  | [] => (0, idx)
  | e :: evs' => match hevent lenient h e with
                 | inl h' => accept_from lenient h' evs' (idx + 1)
                 | inr code => (code, idx)
                 end
  end.

Definition accept_code (lenient : bool) (evs : list event) : N * N := accept_from lenient h_init evs 0.

(* the verdict proper: the checker's state after the whole trace, or the violated rule *)
Definition hmon (lenient : bool) (m : hstate + N) (e : event) : hstate + N :=
  match m with inl h => hevent lenient h e | inr code => inr code end.
Definition accept_state (lenient : bool) (evs : list event) : hstate + N :=
  fold_left (hmon lenient) evs (inl h_init).
Definition accept (evs : list event) : bool :=
  match accept_state false evs with inl _ => true | inr _ => false end.
