(* Extraction of the executable model and spec-side deciders (ExtrOcamlBasic only). *)
From Coq Require Import NArith List Extraction ExtrOcamlBasic.
From SdSd Require Import Poly CrcModel SdModel SdSpec SdBound.
Extraction Language OCaml.
Extraction "../../build/extract/sd/sdx.ml" api init_st oracle_spi crc16 crc7 frame
  v1_capacity_blocks v1_capacity_bytes v2_capacity_blocks v2_capacity_bytes
  call_bytes tbytes bound card_spi power_on accept_code accept spec_capacity_blocks spec_capacity_bytes csd_matches.
