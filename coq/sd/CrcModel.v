(* MODEL of src/sdcard/proto.rs `crc7` and `crc16`, transcribed operation by
   operation on N with the u8/u16 truncations the Rust types impose written
   explicitly.  No proofs in this file. *)
From Coq Require Import NArith List.
Import ListNotations.
Open Scope N_scope.

Definition u8 (x : N) : N := N.land x 255.
Definition u16 (x : N) : N := N.land x 65535.

(*  for _bit in 0..8 { crc <<= 1;
      if ((d & 0x80) ^ (crc & 0x80)) != 0 { crc ^= 0x09; }  d <<= 1; }        *)
Definition crc7_bit (st : N * N) : N * N :=
  let '(crc, d) := st in
  let crc1 := u8 (N.shiftl crc 1) in
  let crc2 := if N.eqb (N.lxor (N.land d 128) (N.land crc1 128)) 0
              then crc1 else N.lxor crc1 9 in
  (crc2, u8 (N.shiftl d 1)).

Definition crc7_byte (crc d : N) : N :=
  fst (crc7_bit (crc7_bit (crc7_bit (crc7_bit (crc7_bit (crc7_bit (crc7_bit (crc7_bit (crc, d))))))))).

(*  (crc << 1) | 1  *)
Definition crc7_final (crc : N) : N := N.lor (u8 (N.shiftl crc 1)) 1.

Definition crc7 (data : list N) : N := crc7_final (fold_left crc7_byte data 0).

(*  crc = ((crc >> 8) & 0xFF) | (crc << 8);  *)
Definition swap16 (crc : N) : N := N.lor (N.land (N.shiftr crc 8) 255) (u16 (N.shiftl crc 8)).

(*  crc ^= (crc & 0xFF) >> 4;  crc ^= crc << 12;  crc ^= (crc & 0xFF) << 5;  *)
Definition mix16 (c2 : N) : N :=
  let c3 := N.lxor c2 (N.shiftr (N.land c2 255) 4) in
  let c4 := N.lxor c3 (u16 (N.shiftl c3 12)) in
  N.lxor c4 (u16 (N.shiftl (N.land c4 255) 5)).

Definition crc16_byte (crc byte : N) : N := mix16 (N.lxor (swap16 crc) byte).

Definition crc16 (data : list N) : N := fold_left crc16_byte data 0.

(* big-endian split of the 16-bit checksum, as the driver sends/receives it *)
Definition be16 (v : N) : list N := [v / 256; v mod 256].
Definition be16_val (hi lo : N) : N := hi * 256 + lo.

Definition bytes (m : list N) : Prop := Forall (fun b => b < 256) m.

Fixpoint xor_bytes (a b : list N) : list N :=
  match a, b with
  | x :: a', y :: b' => N.lxor x y :: xor_bytes a' b'
  | _, _ => []
  end.
