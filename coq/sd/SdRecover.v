(* PROOFS, part 10: recovery (C13_recovers) - mark_card_uninit followed by a call
   re-initialises LEGALCARD from EVERY state it can be in (inside a write data block,
   streaming a multiple-block read, waiting for a write token, any pending output,
   a half-received command frame), whatever the earlier trace.

   Part A: the recorded trace is ghost state - the driver's results and the device's
            states do not depend on it (`ti`), for every function of the driver.
   Part B: the card alone, fed with the bytes the driver sends while re-initialising.
   Part C: one iteration of `enter_spi_mode` against the card.
   Part D: the theorem. *)
From Coq Require Import NArith Arith List Lia Bool ZArith.
From SdSd Require Import Poly CrcModel CrcProofs SdModel SdSpec SdBound SdSafety SdCapacity SdCardLemmas SdSystem SdInit SdTransfer SdMulti SdOffEnd SdLegal.
Import ListNotations.
Open Scope N_scope.

(* ==================================================================================== *)
(* Part A: independence from the recorded trace                                          *)
Section TraceIndep.
  Variable dstate : Type.
  Variable spi : dstate -> spi_call -> dstate * spi_reply.
  Variable o : opts.
  Notation ST := (st dstate).

  (* equal up to the recorded trace *)
  Definition eqv (a b : ST) : Prop := dev a = dev b /\ ctype a = ctype b.

  Lemma eqv_refl a : eqv a a. Proof. split; reflexivity. Qed.
  Lemma eqv_sym a b : eqv a b -> eqv b a. Proof. intros [H1 H2]. split; congruence. Qed.
  Lemma eqv_trans a b c : eqv a b -> eqv b c -> eqv a c.
  Proof. intros [H1 H2] [H3 H4]. split; congruence. Qed.

  Definition ti {A} (m : M dstate A) : Prop :=
    forall a b, eqv a b -> fst (m a) = fst (m b) /\ eqv (snd (m a)) (snd (m b)).

  Lemma ti_ret {A} (x : A) : ti (ret dstate x).
  Proof. intros a b E. split; [reflexivity|exact E]. Qed.
  Lemma ti_fail {A} e : ti (@fail dstate A e).
  Proof. intros a b E. split; [reflexivity|exact E]. Qed.
  Lemma ti_panic {A} : ti (@panic dstate A).
  Proof. intros a b E. split; [reflexivity|exact E]. Qed.
  Lemma ti_lift {A} (x : outcome A) : ti (lift dstate x).
  Proof. intros a b E. split; [reflexivity|exact E]. Qed.
  Lemma ti_get_ctype : ti (get_ctype dstate).
  Proof. intros a b E. split; [cbn; f_equal; apply E|exact E]. Qed.
  Lemma ti_set_ctype c : ti (set_ctype dstate c).
  Proof. intros a b [E1 E2]. split; [reflexivity|]. split; [exact E1|reflexivity]. Qed.
  Lemma ti_call c : ti (call dstate spi c).
  Proof.
    intros a b [E1 E2]. unfold call. rewrite E1. destruct (spi (dev b) c) as [d' r]. cbn.
    split; [reflexivity|]. split; [reflexivity|exact E2].
  Qed.
  Lemma ti_bind {A B} (m : M dstate A) (f : A -> M dstate B) :
    ti m -> (forall x, ti (f x)) -> ti (bind dstate m f).
  Proof.
    intros Hm Hf a b E. unfold bind. destruct (Hm a b E) as [H1 H2].
    destruct (m a) as [ra sa]. destruct (m b) as [rb sb]. cbn [fst snd] in H1, H2. subst rb.
    destruct ra as [x|e|]; [apply Hf; exact H2| |]; (split; [reflexivity|exact H2]).
  Qed.
  Lemma ti_attempt {A} (m : M dstate A) : ti m -> ti (attempt dstate m).
  Proof.
    intros Hm a b E. unfold attempt. destruct (Hm a b E) as [H1 H2].
    destruct (m a) as [ra sa]. destruct (m b) as [rb sb]. cbn [fst snd] in *. subst rb.
    split; [reflexivity|exact H2].
  Qed.

  Ltac ti_step :=
    match goal with
    | |- ti _ => solve [auto 1]
    | |- ti (bind _ _ _) => apply ti_bind; [|intros ?]
    | |- ti (ret _ _) => apply ti_ret
    | |- ti (fail _ _) => apply ti_fail
    | |- ti (panic _) => apply ti_panic
    | |- ti (lift _ _) => apply ti_lift
    | |- ti (get_ctype _) => apply ti_get_ctype
    | |- ti (set_ctype _ _) => apply ti_set_ctype
    | |- ti (attempt _ _) => apply ti_attempt
    | |- ti (call _ _ _) => apply ti_call
    | |- ti (if ?b then _ else _) => destruct b
    | |- ti (match ?x with _ => _ end) => destruct x
    | |- ti (let '(_, _) := ?x in _) => destruct x
    end.

  Lemma ti_transfer_byte b : ti (transfer_byte dstate spi b).
  Proof. unfold transfer_byte. repeat ti_step. Qed.
  Lemma ti_read_byte : ti (read_byte dstate spi).
  Proof. apply ti_transfer_byte. Qed.
  Lemma ti_write_byte b : ti (write_byte dstate spi b).
  Proof. pose proof ti_transfer_byte. unfold write_byte. repeat ti_step. Qed.
  Lemma ti_write_bytes l : ti (write_bytes dstate spi l).
  Proof. unfold write_bytes. repeat ti_step. Qed.
  Lemma ti_transfer_bytes l : ti (transfer_bytes dstate spi l).
  Proof. unfold transfer_bytes. repeat ti_step. Qed.
  Lemma ti_delay : ti (delay_us10 dstate spi).
  Proof. unfold delay_us10. repeat ti_step. Qed.
  Lemma ti_poll stop err n : ti (poll dstate spi stop err n).
  Proof.
    pose proof ti_read_byte. pose proof ti_delay.
    induction n as [|n IH]; cbn [poll]; repeat ti_step.
  Qed.
  Lemma ti_wait_not_busy n : ti (wait_not_busy dstate spi n).
  Proof. pose proof ti_poll. unfold wait_not_busy. repeat ti_step. Qed.
  Lemma ti_command_response n c : ti (command_response dstate spi n c).
  Proof. apply ti_poll. Qed.
  Lemma ti_read_token n : ti (read_token dstate spi n).
  Proof. apply ti_poll. Qed.
  Lemma ti_card_command c a : ti (card_command dstate spi c a).
  Proof.
    pose proof ti_wait_not_busy. pose proof ti_write_bytes. pose proof ti_read_byte. pose proof ti_command_response.
    unfold card_command. repeat ti_step.
  Qed.
  Lemma ti_card_acmd c a : ti (card_acmd dstate spi c a).
  Proof. pose proof ti_card_command. unfold card_acmd. repeat ti_step. Qed.
  Lemma ti_read_data len : ti (read_data dstate spi o len).
  Proof. pose proof ti_read_token. pose proof ti_transfer_bytes. unfold read_data. repeat ti_step. Qed.
  Lemma ti_write_data tok buf : ti (write_data dstate spi o tok buf).
  Proof.
    pose proof ti_write_byte. pose proof ti_write_bytes. pose proof ti_read_byte.
    unfold write_data. repeat ti_step.
  Qed.
  Lemma ti_repeat_m n (m : M dstate unit) : ti m -> ti (repeat_m dstate n m).
  Proof. intros Hm. induction n as [|n IH]; cbn [repeat_m]; repeat ti_step. Qed.
  Lemma ti_enter_spi_mode n : ti (enter_spi_mode dstate spi n).
  Proof.
    pose proof ti_card_command. pose proof ti_delay.
    pose proof (fun k => ti_repeat_m k _ (ti_write_byte 255)) as Hrep.
    induction n as [|n IH]; cbn [enter_spi_mode]; repeat ti_step.
  Qed.
  Lemma ti_check_version n : ti (check_version dstate spi n).
  Proof.
    pose proof ti_card_command. pose proof ti_delay. pose proof ti_transfer_bytes.
    induction n as [|n IH]; cbn [check_version]; repeat ti_step.
  Qed.
  Lemma ti_wait_ready n a : ti (wait_ready dstate spi n a).
  Proof.
    pose proof ti_card_acmd. pose proof ti_delay. revert a.
    induction n as [|n IH]; intros a; cbn [wait_ready]; repeat ti_step.
  Qed.

  (* acquire with its first step (the CMD0 loop) as a parameter *)
  Definition probe_from (m0 : M dstate unit) : M dstate card_type :=
    bind dstate m0 (fun _ =>
    bind dstate (if use_crc o
                 then bind dstate (card_command dstate spi CMD59 1) (fun r =>
                      if negb (r =? R1_IDLE_STATE) then fail dstate CantEnableCRC else ret dstate tt)
                 else ret dstate tt) (fun _ =>
    bind dstate (check_version dstate spi (N.to_nat COMMAND_RETRIES)) (fun ca =>
    let '(card_type0, arg) := ca in
    bind dstate (wait_ready dstate spi (N.to_nat COMMAND_RETRIES) arg) (fun _ =>
    match card_type0 with
    | SD2 =>
        bind dstate (card_command dstate spi CMD58 0) (fun r =>
        if negb (r =? 0) then fail dstate Cmd58Error else
        bind dstate (transfer_bytes dstate spi [255; 255; 255; 255]) (fun buffer =>
        if N.land (nth 0 buffer 0) 192 =? 192 then ret dstate SDHC else ret dstate SD2))
    | t => ret dstate t
    end)))).
  Definition acquire_from (m0 : M dstate unit) : M dstate unit :=
    fun s => let '(result, s1) := bind dstate (probe_from m0) (fun t => set_ctype dstate (Some t)) s in
             let '(_, s2) := read_byte dstate spi s1 in (result, s2).

  Lemma acquire_from_esm : acquire dstate spi o = acquire_from (enter_spi_mode dstate spi (N.to_nat (acquire_retries o))).
  Proof. reflexivity. Qed.

  Lemma ti_probe_from m0 : ti m0 -> ti (probe_from m0).
  Proof.
    intros Hm0. pose proof ti_card_command. pose proof ti_check_version. pose proof ti_wait_ready.
    pose proof ti_transfer_bytes. unfold probe_from. repeat ti_step.
  Qed.
  Lemma ti_acquire_from m0 : ti m0 -> ti (acquire_from m0).
  Proof.
    intros Hm0 a b E. unfold acquire_from.
    assert (T : ti (bind dstate (probe_from m0) (fun t => set_ctype dstate (Some t)))).
    { pose proof (ti_probe_from m0 Hm0). repeat ti_step. }
    destruct (T a b E) as [H1 H2].
    destruct (bind dstate (probe_from m0) _ a) as [ra sa]. destruct (bind dstate (probe_from m0) _ b) as [rb sb].
    cbn [fst snd] in H1, H2. subst rb.
    destruct (ti_read_byte sa sb H2) as [_ H3].
    destruct (read_byte dstate spi sa) as [xa sa2]. destruct (read_byte dstate spi sb) as [xb sb2].
    cbn [fst snd] in *. split; [reflexivity|exact H3].
  Qed.
  Lemma ti_acquire : ti (acquire dstate spi o).
  Proof. rewrite acquire_from_esm. apply ti_acquire_from, ti_enter_spi_mode. Qed.

  (* once the CMD0 loop has succeeded, the rest of acquire starts from the state it left *)
  Lemma acquire_from_ok m0 s s1 : m0 s = (Ok tt, s1) -> acquire_from m0 s = acquire_from (ret dstate tt) s1.
  Proof. intros E. unfold acquire_from, probe_from, bind. rewrite E. reflexivity. Qed.
  Lemma acquire_from_err m0 s s1 e : m0 s = (Err e, s1) ->
    fst (acquire_from m0 s) = Err e.
  Proof.
    intros E. unfold acquire_from, probe_from, bind. rewrite E.
    destruct (read_byte dstate spi s1). reflexivity.
  Qed.

  Lemma ti_check_init : ti (check_init dstate spi o).
  Proof. pose proof ti_acquire. unfold check_init. repeat ti_step. Qed.
  Lemma ti_start_idx idx err : ti (start_idx dstate idx err).
  Proof. unfold start_idx. repeat ti_step. Qed.
  Lemma ti_read_blocks n : ti (read_blocks dstate spi o n).
  Proof. pose proof ti_read_data. induction n as [|n IH]; cbn [read_blocks]; repeat ti_step. Qed.
  Lemma ti_first_error {A B} (r : outcome A) (x : outcome B) : ti (first_error dstate r x).
  Proof. unfold first_error. repeat ti_step. Qed.
  Lemma ti_read_inner n idx : ti (read_inner dstate spi o n idx).
  Proof.
    pose proof ti_start_idx. pose proof ti_card_command. pose proof ti_read_data. pose proof ti_read_blocks.
    pose proof (@ti_first_error (list (list N)) N).
    unfold read_inner. repeat ti_step.
  Qed.
  Lemma ti_write_blocks bs : ti (write_blocks dstate spi o bs).
  Proof.
    pose proof ti_wait_not_busy. pose proof ti_write_data.
    induction bs as [|b bs IH]; cbn [write_blocks]; repeat ti_step.
  Qed.
  Lemma ti_write_inner bs idx : ti (write_inner dstate spi o bs idx).
  Proof.
    pose proof ti_start_idx. pose proof ti_card_command. pose proof ti_card_acmd. pose proof ti_write_data.
    pose proof ti_wait_not_busy. pose proof ti_write_blocks. pose proof ti_read_byte. pose proof ti_write_byte.
    unfold write_inner. repeat ti_step.
  Qed.
  Lemma ti_read_csd : ti (read_csd dstate spi o).
  Proof. pose proof ti_card_command. pose proof ti_read_data. unfold read_csd. repeat ti_step. Qed.
  Lemma ti_num_blocks : ti (num_blocks_inner dstate spi o).
  Proof. pose proof ti_read_csd. unfold num_blocks_inner. repeat ti_step. Qed.
  Lemma ti_num_bytes : ti (num_bytes_inner dstate spi o).
  Proof. pose proof ti_read_csd. unfold num_bytes_inner. repeat ti_step. Qed.
  Lemma ti_erase_single : ti (erase_single_block_enabled_inner dstate spi o).
  Proof. pose proof ti_read_csd. unfold erase_single_block_enabled_inner. repeat ti_step. Qed.
  Lemma ti_with_init {A} (m : M dstate A) k : ti m -> ti (with_init dstate spi o m k).
  Proof. intros Hm. pose proof ti_check_init. unfold with_init. repeat ti_step. Qed.

  (* the recorded trace never influences a call of the public API *)
  Theorem ti_api c : ti (api dstate spi o c).
  Proof.
    pose proof ti_check_init.
    destruct c; cbn [api]; try apply ti_with_init;
      first [apply ti_read_inner | apply ti_write_inner | apply ti_num_blocks | apply ti_num_bytes
            | apply ti_erase_single | idtac]; repeat ti_step.
  Qed.

  (* ---- card_type is changed only by acquire and mark_card_uninit ------------------------- *)
  Definition kc {A} (m : M dstate A) : Prop := forall s, ctype (snd (m s)) = ctype s.

  Lemma kc_ret {A} (x : A) : kc (ret dstate x). Proof. intros s. reflexivity. Qed.
  Lemma kc_fail {A} e : kc (@fail dstate A e). Proof. intros s. reflexivity. Qed.
  Lemma kc_panic {A} : kc (@panic dstate A). Proof. intros s. reflexivity. Qed.
  Lemma kc_lift {A} (x : outcome A) : kc (lift dstate x). Proof. intros s. reflexivity. Qed.
  Lemma kc_get_ctype : kc (get_ctype dstate). Proof. intros s. reflexivity. Qed.
  Lemma kc_call c : kc (call dstate spi c).
  Proof. intros s. unfold call. destruct (spi (dev s) c). reflexivity. Qed.
  Lemma kc_bind {A B} (m : M dstate A) (f : A -> M dstate B) : kc m -> (forall x, kc (f x)) -> kc (bind dstate m f).
  Proof.
    intros Hm Hf s. unfold bind. specialize (Hm s). destruct (m s) as [[x|e|] s1]; cbn [snd] in *; try exact Hm.
    rewrite Hf. exact Hm.
  Qed.
  Lemma kc_attempt {A} (m : M dstate A) : kc m -> kc (attempt dstate m).
  Proof. intros Hm s. unfold attempt. specialize (Hm s). destruct (m s). exact Hm. Qed.

  Ltac kc_step :=
    match goal with
    | |- kc _ => solve [auto 1]
    | |- kc (bind _ _ _) => apply kc_bind; [|intros ?]
    | |- kc (ret _ _) => apply kc_ret
    | |- kc (fail _ _) => apply kc_fail
    | |- kc (panic _) => apply kc_panic
    | |- kc (lift _ _) => apply kc_lift
    | |- kc (get_ctype _) => apply kc_get_ctype
    | |- kc (attempt _ _) => apply kc_attempt
    | |- kc (call _ _ _) => apply kc_call
    | |- kc (if ?b then _ else _) => destruct b
    | |- kc (match ?x with _ => _ end) => destruct x
    | |- kc (let '(_, _) := ?x in _) => destruct x
    end.

  Lemma kc_transfer_byte' b : kc (transfer_byte dstate spi b).
  Proof. unfold transfer_byte. repeat kc_step. Qed.
  Lemma kc_write_byte' b : kc (write_byte dstate spi b).
  Proof. pose proof kc_transfer_byte'. unfold write_byte. repeat kc_step. Qed.
  Lemma kc_write_bytes' l : kc (write_bytes dstate spi l).
  Proof. unfold write_bytes. repeat kc_step. Qed.
  Lemma kc_transfer_bytes' l : kc (transfer_bytes dstate spi l).
  Proof. unfold transfer_bytes. repeat kc_step. Qed.
  Lemma kc_delay' : kc (delay_us10 dstate spi).
  Proof. unfold delay_us10. repeat kc_step. Qed.
  Lemma kc_poll' stop err n : kc (poll dstate spi stop err n).
  Proof.
    pose proof (kc_transfer_byte' 255) as Hrb. fold (read_byte dstate spi) in Hrb. pose proof kc_delay'.
    induction n as [|n IH]; cbn [poll]; repeat kc_step.
  Qed.
  Lemma kc_wait_not_busy' n : kc (wait_not_busy dstate spi n).
  Proof. pose proof kc_poll'. unfold wait_not_busy. repeat kc_step. Qed.
  Lemma kc_card_command' c a : kc (card_command dstate spi c a).
  Proof.
    pose proof kc_wait_not_busy'. pose proof kc_write_bytes'. pose proof kc_poll'.
    pose proof (kc_transfer_byte' 255) as Hrb. fold (read_byte dstate spi) in Hrb.
    unfold card_command, command_response. repeat kc_step.
  Qed.
  Lemma kc_card_acmd' c a : kc (card_acmd dstate spi c a).
  Proof. pose proof kc_card_command'. unfold card_acmd. repeat kc_step. Qed.
  Lemma kc_read_data len : kc (read_data dstate spi o len).
  Proof. pose proof kc_poll'. pose proof kc_transfer_bytes'. unfold read_data, read_token. repeat kc_step. Qed.
  Lemma kc_write_data tok buf : kc (write_data dstate spi o tok buf).
  Proof.
    pose proof kc_write_byte'. pose proof kc_write_bytes'.
    pose proof (kc_transfer_byte' 255) as Hrb. fold (read_byte dstate spi) in Hrb.
    unfold write_data. repeat kc_step.
  Qed.
  Lemma kc_start_idx idx err : kc (start_idx dstate idx err).
  Proof. unfold start_idx. repeat kc_step. Qed.
  Lemma kc_read_blocks n : kc (read_blocks dstate spi o n).
  Proof. pose proof kc_read_data. induction n as [|n IH]; cbn [read_blocks]; repeat kc_step. Qed.
  Lemma kc_first_error {A B} (r : outcome A) (x : outcome B) : kc (first_error dstate r x).
  Proof. unfold first_error. repeat kc_step. Qed.
  Lemma kc_read_inner n idx : kc (read_inner dstate spi o n idx).
  Proof.
    pose proof kc_start_idx. pose proof kc_card_command'. pose proof kc_read_data. pose proof kc_read_blocks.
    pose proof (@kc_first_error (list (list N)) N).
    unfold read_inner. repeat kc_step.
  Qed.
  Lemma kc_write_blocks bs : kc (write_blocks dstate spi o bs).
  Proof.
    pose proof kc_wait_not_busy'. pose proof kc_write_data.
    induction bs as [|b bs IH]; cbn [write_blocks]; repeat kc_step.
  Qed.
  Lemma kc_write_inner bs idx : kc (write_inner dstate spi o bs idx).
  Proof.
    pose proof kc_start_idx. pose proof kc_card_command'. pose proof kc_card_acmd'. pose proof kc_write_data.
    pose proof kc_wait_not_busy'. pose proof kc_write_blocks. pose proof kc_write_byte'.
    pose proof (kc_transfer_byte' 255) as Hrb. fold (read_byte dstate spi) in Hrb.
    unfold write_inner. repeat kc_step.
  Qed.
  Lemma kc_read_csd : kc (read_csd dstate spi o).
  Proof. pose proof kc_card_command'. pose proof kc_read_data. unfold read_csd. repeat kc_step. Qed.

  (* a call on an initialised driver keeps card_type *)
  Theorem api_keeps_ctype c s ty : ctype s = Some ty -> c <> CMarkUninit ->
    ctype (snd (api dstate spi o c s)) = Some ty.
  Proof.
    intros Hty Hc.
    assert (E : check_init dstate spi o s = (Ok tt, s)).
    { unfold check_init, bind, get_ctype. rewrite Hty. reflexivity. }
    assert (W : forall A (m : M dstate A) k, kc m -> ctype (snd (with_init dstate spi o m k s)) = Some ty).
    { intros A m k Hm. unfold with_init. unfold bind at 1. rewrite E.
      assert (K : kc (bind dstate m (fun a => ret dstate (k a)))) by repeat kc_step.
      rewrite K. exact Hty. }
    pose proof kc_read_csd.
    destruct c as [n idx|bs idx| | | | |]; cbn [api].
    - apply W, kc_read_inner.
    - apply W, kc_write_inner.
    - apply W. unfold num_blocks_inner. repeat kc_step.
    - apply W. unfold num_bytes_inner. repeat kc_step.
    - apply W. unfold erase_single_block_enabled_inner. repeat kc_step.
    - congruence.
    - unfold bind at 1, attempt. rewrite E. unfold bind, get_ctype. cbn [snd]. exact Hty.
  Qed.
End TraceIndep.

Arguments eqv {dstate} a b.
Arguments ti {dstate A} m.
Arguments kc {dstate A} m.

(* ==================================================================================== *)
(* Part B: the card alone                                                                *)
Definition recv_phase (p : phase) : bool := match p with PRecv _ _ _ _ => true | _ => false end.
Definition is_tok (m : N) : bool := (m =? 254) || (m =? 252) || (m =? 253).
(* a byte that neither starts a command frame nor is a data token *)
Definition inert (m : N) : bool := negb (N.land m 192 =? 64) && negb (is_tok m).
Definition quietp (p : phase) : Prop := p = PIdle \/ exists multi b, p = PWaitTok multi b.

Lemma frame00 : frame 0 0 = [64;0;0;0;0;149].
Proof. vm_compute. reflexivity. Qed.

Lemma is_tok_false m : is_tok m = false -> (m =? 254) = false /\ (m =? 252) = false /\ (m =? 253) = false.
Proof. unfold is_tok. intros H. apply orb_false_iff in H. destruct H as [H H3]. apply orb_false_iff in H. tauto. Qed.

(* outside a data block every byte that is not a token goes to the frame receiver *)
Lemma card_byte_feed c m : recv_phase (c_phase c) = false -> is_tok m = false ->
  exists x, card_byte c m = (feed_frame (adv c) m, x).
Proof.
  intros Hp Ht. destruct (is_tok_false m Ht) as (T1 & T2 & T3).
  unfold card_byte, adv. destruct (c_out c) as [|y rest]; [|eexists; reflexivity].
  destruct (c_phase c) as [|b|multi blk|multi blk got nleft] eqn:Ep; [eexists; reflexivity| | |discriminate].
  - destruct (b <? nblocks c); [|eexists; reflexivity].
    destruct (FF _ ++ data_packet _); eexists; reflexivity.
  - rewrite T1, T2, T3. cbn [andb]. destruct (c_fbuf c); eexists; reflexivity.
Qed.

Lemma adv_nonrecv c : recv_phase (c_phase c) = false ->
  recv_phase (c_phase (adv c)) = false /\ core_eq (adv c) c /\ c_fbuf (adv c) = c_fbuf c.
Proof.
  intros Hp. unfold adv. destruct (c_out c) as [|x rest].
  - destruct (c_phase c) as [|b|multi blk|multi blk got nleft] eqn:Ep; try discriminate;
      try (split; [rewrite Ep; reflexivity|split; [apply core_eq_refl|reflexivity]]).
    destruct (b <? nblocks c).
    + destruct (FF _ ++ data_packet _) as [|m rest].
      * split; [rewrite Ep; reflexivity|split; [apply core_eq_refl|reflexivity]].
      * split; [reflexivity|]. split; [repeat split|reflexivity].
    + split; [rewrite Ep; reflexivity|split; [apply core_eq_refl|reflexivity]].
  - split; [exact Hp|]. split; [repeat split|reflexivity].
Qed.

(* six frame bytes arriving at a card that is not inside a data block, no frame in progress *)
Lemma frame_received_any c b0 b1 b2 b3 b4 b5 :
  recv_phase (c_phase c) = false -> c_fbuf c = [] -> N.land b0 192 = 64 ->
  is_tok b0 = false -> is_tok b1 = false -> is_tok b2 = false -> is_tok b3 = false -> is_tok b4 = false -> is_tok b5 = false ->
  exists c6, fst (card_bytes c [b0;b1;b2;b3;b4;b5]) = on_frame c6 [b0;b1;b2;b3;b4;b5] /\ core_eq c6 c.
Proof.
  intros Hs Hf H0 T0 T1 T2 T3 T4 T5.
  assert (Step : forall c f x, recv_phase (c_phase c) = false -> c_fbuf c = f -> f <> [] -> is_tok x = false ->
            Nat.eqb (length (f ++ [x])) 6 = false ->
            exists c', fst (card_byte c x) = c' /\ recv_phase (c_phase c') = false /\ c_fbuf c' = f ++ [x] /\ core_eq c' c).
  { intros c' f x Hs' Hf' Hne Tx Hl. destruct (card_byte_feed c' x Hs' Tx) as [y E]. rewrite E. cbn [fst].
    destruct (adv_nonrecv c' Hs') as (P1 & P2 & P3).
    unfold feed_frame. rewrite P3, Hf'. destruct f; [congruence|]. rewrite Hl.
    eexists. split; [reflexivity|]. cbn [c_phase c_fbuf set_fbuf].
    repeat split; try apply P2; assumption. }
  destruct (card_byte_feed c b0 Hs T0) as [y0 E0]. destruct (adv_nonrecv c Hs) as (P1 & P2 & P3).
  cbn [card_bytes]. rewrite E0. unfold feed_frame at 1. rewrite P3, Hf.
  apply N.eqb_eq in H0. rewrite H0.
  set (c1 := set_fbuf (adv c) [b0]).
  assert (S1 : recv_phase (c_phase c1) = false) by exact P1.
  assert (K1 : core_eq c1 c) by exact P2.
  destruct (Step c1 [b0] b1 S1 eq_refl ltac:(discriminate) T1 eq_refl) as (c2 & E2 & S2 & F2 & K2).
  destruct (card_byte c1 b1) as [cc2 m1]. cbn [fst] in E2. subst cc2.
  destruct (Step c2 _ b2 S2 F2 ltac:(discriminate) T2 eq_refl) as (c3 & E3 & S3 & F3 & K3).
  destruct (card_byte c2 b2) as [cc3 m2]. cbn [fst] in E3. subst cc3.
  destruct (Step c3 _ b3 S3 F3 ltac:(discriminate) T3 eq_refl) as (c4 & E4 & S4 & F4 & K4).
  destruct (card_byte c3 b3) as [cc4 m3]. cbn [fst] in E4. subst cc4.
  destruct (Step c4 _ b4 S4 F4 ltac:(discriminate) T4 eq_refl) as (c5 & E5 & S5 & F5 & K5).
  destruct (card_byte c4 b4) as [cc5 m4]. cbn [fst] in E5. subst cc5.
  destruct (card_byte_feed c5 b5 S5 T5) as [y5 E6]. destruct (adv_nonrecv c5 S5) as (Q1 & Q2 & Q3).
  rewrite E6. cbn [card_bytes fst]. unfold feed_frame. rewrite Q3, F5. cbn [app length Nat.eqb].
  exists (adv c5). split; [reflexivity|].
  repeat (eapply core_eq_trans; [eassumption|]). apply core_eq_refl.
Qed.

(* CMD0 is recognised by every card that is not inside a data block and has no frame in progress:
   whatever it was doing (idle, streaming a multiple-block read, waiting for a write token, any
   pending output, busy), it drops it and answers R1 = 01 after N_CR fill bytes *)
Lemma cmd0_recognised c : recv_phase (c_phase c) = false -> c_fbuf c = [] ->
  exists tkx, fst (card_bytes c (frame 0 0)) =
    mkc (k_kind c) (k_csd c) (k_tim c) (c_mem c) true false false (t_init (k_tim c) tkx) false (tkx + 1)
        (FF (t_ncr (k_tim c) tkx) ++ [1]) PIdle.
Proof.
  intros Hp Hf. rewrite frame00.
  destruct (frame_received_any c 64 0 0 0 0 149 Hp Hf) as (c6 & E & K); try reflexivity.
  rewrite E. rewrite <- frame00. rewrite on_frame_wellformed by reflexivity.
  destruct K as (K1 & K2 & K3 & K4 & _). exists (c_tick c6). rewrite <- K1, <- K2, <- K3, <- K4.
  destruct c6. reflexivity.
Qed.

(* ---- inside a write data block ------------------------------------------------------------ *)
Lemma on_block_set_out c out p multi blk g : on_block (set_out c out p) multi blk g = on_block c multi blk g.
Proof. reflexivity. Qed.

Lemma recv_partial : forall l c multi blk got nleft,
  c_phase c = PRecv multi blk got nleft -> c_out c = [] -> (length l < nleft)%nat ->
  card_bytes c l = (set_out c [] (PRecv multi blk (got ++ l) (nleft - length l)), FF (length l)).
Proof.
  induction l as [|m l IH]; intros c multi blk got nleft Hp Ho Hl.
  - cbn [card_bytes length FF repeat]. rewrite app_nil_r, Nat.sub_0_r. rewrite <- Hp, <- Ho, set_out_same. reflexivity.
  - cbn [length] in Hl. destruct nleft as [|[|n]]; try lia.
    cbn [card_bytes]. unfold card_byte at 1. rewrite Ho, Hp.
    rewrite (IH (set_out c [] (PRecv multi blk (got ++ [m]) (S n))) multi blk (got ++ [m]) (S n) eq_refl eq_refl ltac:(lia)).
    cbn [length Nat.sub FF repeat].
    rewrite <- app_assoc. reflexivity.
Qed.

Lemma recv_complete : forall l c multi blk got nleft,
  c_phase c = PRecv multi blk got nleft -> c_out c = [] -> length l = nleft -> l <> [] ->
  card_bytes c l = (on_block c multi blk (got ++ l), FF (length l)).
Proof.
  induction l as [|m l IH]; intros c multi blk got nleft Hp Ho Hl Hne; [congruence|].
  destruct l as [|m2 l].
  - cbn [length] in Hl. subst nleft. cbn [card_bytes]. unfold card_byte. rewrite Ho, Hp. reflexivity.
  - cbn [length] in Hl. destruct nleft as [|[|n]]; try lia.
    change (card_bytes c (m :: m2 :: l)) with
      (let '(c1, x) := card_byte c m in let '(c2, ms) := card_bytes c1 (m2 :: l) in (c2, x :: ms)).
    unfold card_byte at 1. rewrite Ho, Hp.
    rewrite (IH (set_out c [] (PRecv multi blk (got ++ [m]) (S n))) multi blk (got ++ [m]) (S n) eq_refl eq_refl ltac:(cbn [length]; lia) ltac:(discriminate)).
    rewrite on_block_set_out, <- app_assoc. reflexivity.
Qed.

(* ---- a quiet card under inert bytes: its queue drains, nothing else happens ------------------ *)
Lemma drain : forall l c, c_fbuf c = [] -> quietp (c_phase c) -> forallb inert l = true ->
  exists j ms, card_bytes c l = (set_out c (skipn j (c_out c)) (c_phase c), ms) /\
               Forall (fun x => x = 255 \/ In x (c_out c)) ms.
Proof.
  induction l as [|m l IH]; intros c Hf Hq Hl.
  - exists O, []. cbn [card_bytes skipn]. rewrite set_out_same. split; [reflexivity|constructor].
  - cbn [forallb] in Hl. apply andb_true_iff in Hl. destruct Hl as [Hm Hl].
    unfold inert in Hm. apply andb_true_iff in Hm. destruct Hm as [Hst Htk].
    apply negb_true_iff in Hst. apply negb_true_iff in Htk. destruct (is_tok_false m Htk) as (T1 & T2 & T3).
    assert (FFn : forall c', c_fbuf c' = [] -> feed_frame c' m = c').
    { intros c' H. unfold feed_frame. rewrite H, Hst. reflexivity. }
    assert (E : card_byte c m = (set_out c (tl (c_out c)) (c_phase c), hd 255 (c_out c))).
    { unfold card_byte. destruct (c_out c) as [|y rest] eqn:Eo.
      - cbn [tl hd]. replace (set_out c [] (c_phase c)) with c by (rewrite <- Eo, set_out_same; reflexivity).
        destruct Hq as [Hp|(multi & b & Hp)]; rewrite Hp.
        + rewrite FFn by exact Hf. reflexivity.
        + rewrite Hf, T1, T2, T3. cbn [andb]. rewrite FFn by exact Hf. reflexivity.
      - rewrite FFn by exact Hf. reflexivity. }
    cbn [card_bytes]. rewrite E.
    destruct (IH (set_out c (tl (c_out c)) (c_phase c)) Hf Hq Hl) as (j & ms & E2 & F2).
    rewrite E2. cbn [c_out c_phase set_out] in *.
    exists (S j), (hd 255 (c_out c) :: ms). split.
    + destruct (c_out c) as [|y rest]; [|reflexivity]. cbn [tl skipn]. destruct j; reflexivity.
    + constructor.
      * destruct (c_out c) as [|y rest]; [left; reflexivity|right; left; reflexivity].
      * eapply Forall_impl; [|exact F2]. intros x [H|H]; [left; exact H|right].
        destruct (c_out c); [destruct H|right; exact H].
Qed.

(* ==================================================================================== *)
(* Part C: the driver's CMD0 loop against the card                                       *)
Lemma card_bytes_length : forall l c, length (snd (card_bytes c l)) = length l.
Proof.
  induction l as [|m l IH]; intros c; cbn [card_bytes]; [reflexivity|].
  destruct (card_byte c m) as [c1 x]. specialize (IH c1). destruct (card_bytes c1 l) as [c2 ms].
  cbn [snd length] in *. rewrite IH. reflexivity.
Qed.

(* the polling loop against the card, in every case: it stops at the first byte that satisfies
   `stop`, or gives up after retries_left + 1 bytes *)
Lemma poll_total stop err : forall n c t ct, exists k c' ms t',
  (k <= S n)%nat /\ card_bytes c (FF k) = (c', ms) /\
  ((exists pre x, ms = pre ++ [x] /\ stop (u8 x) = true /\
      POLL stop err n (sys c t ct) = (Ok (u8 x), sys c' t' ct)) \/
   (k = S n /\ Forall (fun b => stop (u8 b) = false) ms /\
      POLL stop err n (sys c t ct) = (Err err, sys c' t' ct))).
Proof.
  induction n as [|n IH]; intros c t ct; destruct (card_byte c 255) as [c1 m] eqn:E1;
    destruct (stop (u8 m)) eqn:Hs.
  - exists 1%nat, c1, [m], (Ev (Transfer [255]) (Bytes [m]) :: t). split; [lia|]. split.
    + cbn [FF repeat card_bytes]. rewrite E1. reflexivity.
    + left. exists [], m. split; [reflexivity|]. split; [exact Hs|].
      cbn [poll]. unfold bind. rewrite (read_byte_sys c t ct c1 m E1), Hs. reflexivity.
  - exists 1%nat, c1, [m], (Ev (Transfer [255]) (Bytes [m]) :: t). split; [lia|]. split.
    + cbn [FF repeat card_bytes]. rewrite E1. reflexivity.
    + right. split; [reflexivity|]. split; [constructor; [exact Hs|constructor]|].
      cbn [poll]. unfold bind. rewrite (read_byte_sys c t ct c1 m E1), Hs. reflexivity.
  - exists 1%nat, c1, [m], (Ev (Transfer [255]) (Bytes [m]) :: t). split; [lia|]. split.
    + cbn [FF repeat card_bytes]. rewrite E1. reflexivity.
    + left. exists [], m. split; [reflexivity|]. split; [exact Hs|].
      cbn [poll]. unfold bind. rewrite (read_byte_sys c t ct c1 m E1), Hs. reflexivity.
  - destruct (IH c1 (Ev (DelayUs 10) (Bytes []) :: Ev (Transfer [255]) (Bytes [m]) :: t) ct)
      as (k & c' & ms & t' & Hk & Ec & Hcase).
    exists (S k), c', (m :: ms), t'. split; [lia|]. split.
    + rewrite card_bytes_ff_S, E1, Ec. reflexivity.
    + assert (Ep : POLL stop err (S n) (sys c t ct) =
                   POLL stop err n (sys c1 (Ev (DelayUs 10) (Bytes []) :: Ev (Transfer [255]) (Bytes [m]) :: t) ct)).
      { cbn [poll]. unfold bind at 1. rewrite (read_byte_sys c t ct c1 m E1), Hs.
        unfold bind. rewrite delay_sys. reflexivity. }
      destruct Hcase as [(pre & x & -> & Hx & E)|(-> & F & E)].
      * left. exists (m :: pre), x. split; [reflexivity|]. split; [exact Hx|]. rewrite Ep. exact E.
      * right. split; [reflexivity|]. split; [constructor; assumption|]. rewrite Ep. exact E.
Qed.

Lemma repeat_ff : forall k c t ct, exists t',
  repeat_m card k (write_byte card card_spi 255) (sys c t ct) = (Ok tt, sys (fst (card_bytes c (FF k))) t' ct).
Proof.
  induction k as [|k IH]; intros c t ct.
  - exists t. reflexivity.
  - destruct (card_byte c 255) as [c1 m] eqn:E1.
    destruct (IH c1 (Ev (Transfer [255]) (Bytes [m]) :: t) ct) as (t' & E).
    exists t'. cbn [repeat_m]. unfold bind. rewrite (write_byte_sys c t ct 255 c1 m E1). rewrite E.
    rewrite card_bytes_ff_S, E1. destruct (card_bytes c1 (FF k)). reflexivity.
Qed.

(* card_command(CMD0, 0) against the card, in every case *)
Lemma cmd0_total c t ct c1 ms1 : card_bytes c (frame 0 0) = (c1, ms1) ->
  exists k c2 ms t2, (k <= S (N.to_nat COMMAND_RETRIES))%nat /\ card_bytes c1 (FF k) = (c2, ms) /\
   ((exists pre x, ms = pre ++ [x] /\ N.land (u8 x) 128 = 0 /\
       card_command card card_spi CMD0 0 (sys c t ct) = (Ok (u8 x), sys c2 t2 ct)) \/
    (k = S (N.to_nat COMMAND_RETRIES) /\ Forall (fun b => (N.land (u8 b) 128 =? 0) = false) ms /\
       card_command card card_spi CMD0 0 (sys c t ct) = (Err (TimeoutCommand 0), sys c2 t2 ct))).
Proof.
  intros E1.
  assert (Ec : forall r, card_command card card_spi CMD0 0 (sys c t ct) = r ->
               command_response card card_spi (N.to_nat COMMAND_RETRIES) 0
                 (sys c1 (Ev (Write (frame 0 0)) (Bytes ms1) :: t) ct) = r).
  { intros r <-. unfold card_command. change (negb (CMD0 =? CMD0) && negb (CMD0 =? CMD12)) with false. cbv iota.
    change (CMD0 =? CMD12) with false. cbv iota.
    unfold bind at 1. unfold ret at 1. unfold bind at 1. unfold CMD0.
    rewrite (write_bytes_sys c t ct (frame 0 0) c1 ms1 E1). reflexivity. }
  destruct (poll_total (fun result => N.land result 128 =? 0) (TimeoutCommand 0) (N.to_nat COMMAND_RETRIES)
              c1 (Ev (Write (frame 0 0)) (Bytes ms1) :: t) ct) as (k & c2 & ms & t2 & Hk & E2 & Hcase).
  exists k, c2, ms, t2. split; [exact Hk|]. split; [exact E2|].
  destruct Hcase as [(pre & x & -> & Hx & E)|(-> & F & E)].
  - left. exists pre, x. split; [reflexivity|]. split; [apply N.eqb_eq; exact Hx|].
    rewrite <- E. symmetry. apply Ec. reflexivity.
  - right. split; [reflexivity|]. split; [exact F|]. rewrite <- E. symmetry. apply Ec. reflexivity.
Qed.

Notation ESM := (enter_spi_mode card card_spi).

Lemma esm_ok n s s1 : card_command card card_spi CMD0 0 s = (Ok 1, s1) -> ESM n s = (Ok tt, s1).
Proof. intros E. destruct n; cbn [enter_spi_mode]; unfold bind, attempt; rewrite E; reflexivity. Qed.

Lemma esm_retry n c t ct r c1 t1 : card_command card card_spi CMD0 0 (sys c t ct) = (Ok r, sys c1 t1 ct) -> r <> 1 ->
  ESM (S n) (sys c t ct) = ESM n (sys c1 (Ev (DelayUs 10) (Bytes []) :: t1) ct) /\
  ESM O (sys c t ct) = (Err CardNotFound, sys c1 t1 ct).
Proof.
  intros E Hr. apply N.eqb_neq in Hr. split.
  - cbn [enter_spi_mode]. unfold bind at 1, attempt. rewrite E. unfold R1_IDLE_STATE. rewrite Hr.
    unfold bind. rewrite delay_sys. reflexivity.
  - cbn [enter_spi_mode]. unfold bind at 1, attempt. rewrite E. unfold R1_IDLE_STATE. rewrite Hr. reflexivity.
Qed.

Lemma esm_timeout n c t ct c1 t1 :
  card_command card card_spi CMD0 0 (sys c t ct) = (Err (TimeoutCommand 0), sys c1 t1 ct) ->
  exists t2 t3, ESM (S n) (sys c t ct) = ESM n (sys (fst (card_bytes c1 (FF (N.to_nat 255)))) t2 ct) /\
                ESM O (sys c t ct) = (Err CardNotFound, sys (fst (card_bytes c1 (FF (N.to_nat 255)))) t3 ct).
Proof.
  intros E. destruct (repeat_ff (N.to_nat 255) c1 t1 ct) as (t2 & Er).
  exists (Ev (DelayUs 10) (Bytes []) :: t2), t2. split.
  - cbn [enter_spi_mode]. unfold bind at 1, attempt. rewrite E. unfold bind at 1. rewrite Er.
    unfold bind. rewrite delay_sys. reflexivity.
  - cbn [enter_spi_mode]. unfold bind at 1, attempt. rewrite E. unfold bind at 1. rewrite Er. reflexivity.
Qed.

(* from every state in which the card can receive a frame, the first CMD0 succeeds *)
Lemma esm_good n c t ct : recv_phase (c_phase c) = false -> c_fbuf c = [] -> legal_timing (k_tim c) ->
  exists tkx t', ESM n (sys c t ct) =
    (Ok tt, sys (mkc (k_kind c) (k_csd c) (k_tim c) (c_mem c) true false false (t_init (k_tim c) tkx) false (tkx + 1) [] PIdle) t' ct).
Proof.
  intros Hp Hf Htim. destruct (cmd0_recognised c Hp Hf) as (tkx & F).
  destruct (card_bytes c (frame 0 0)) as [c1 ms1] eqn:E1. cbn [fst] in F.
  exists tkx.
  destruct (command_response_sys (N.to_nat COMMAND_RETRIES) (t_ncr (k_tim c) tkx) 1 [] c1
              (Ev (Write (frame 0 0)) (Bytes ms1) :: t) ct 0) as (t2 & E2 & _).
  { apply le8_RC. apply (Htim tkx). }
  { subst c1. reflexivity. }
  { subst c1. reflexivity. }
  { reflexivity. }
  { reflexivity. }
  exists t2. apply esm_ok.
  unfold card_command. change (negb (CMD0 =? CMD0) && negb (CMD0 =? CMD12)) with false. cbv iota.
  change (CMD0 =? CMD12) with false. cbv iota.
  unfold bind at 1. unfold ret at 1. unfold bind at 1. unfold CMD0.
  rewrite (write_bytes_sys c t ct (frame 0 0) c1 ms1 E1).
  unfold bind at 1. unfold ret at 1. rewrite E2. subst c1. reflexivity.
Qed.

(* ---- a card inside a write data block ------------------------------------------------------- *)
(* what holds of the card model whenever it is inside a block (shown invariant below):
   nothing queued, no frame in progress, 1..514 bytes still to come, the bytes so far are bytes *)
Definition recv_wf (c : card) : Prop :=
  match c_phase c with
  | PRecv multi blk got nleft =>
      c_out c = [] /\ c_fbuf c = [] /\ (1 <= nleft)%nat /\ (length got + nleft = 514)%nat /\ bytes got
  | _ => True
  end.

(* the bytes the re-initialising driver sends: the CMD0 frame 40 00 00 00 00 95, then FF *)
Definition flush_stream (nleft : nat) : list N := firstn nleft (frame 0 0 ++ FF nleft).

(* the card's memory once the block that was being received has been completed by those bytes *)
Definition mem_flushed (c : card) : N -> list N :=
  match c_phase c with
  | PRecv multi blk got nleft => c_mem (on_block c multi blk (got ++ flush_stream nleft))
  | _ => c_mem c
  end.

Definition flushed (c cg : card) : Prop :=
  c_fbuf cg = [] /\ quietp (c_phase cg) /\ k_kind cg = k_kind c /\ k_csd cg = k_csd c /\ k_tim cg = k_tim c /\
  c_mem cg = mem_flushed c.

Lemma on_block_props c multi blk g :
  c_fbuf (on_block c multi blk g) = c_fbuf c /\ quietp (c_phase (on_block c multi blk g)) /\
  k_kind (on_block c multi blk g) = k_kind c /\ k_csd (on_block c multi blk g) = k_csd c /\
  k_tim (on_block c multi blk g) = k_tim c /\
  Forall (fun x => x = 235 \/ x = 237 \/ x = 229 \/ x = 0) (c_out (on_block c multi blk g)).
Proof.
  unfold on_block.
  assert (Q : forall b, quietp (if multi then PWaitTok true b else PIdle)).
  { intros b. destruct multi; [right; eauto|left; reflexivity]. }
  destruct (c_crc c && negb (crc16 (firstn 512 g) =? be16_val (nth 512 g 0) (nth 513 g 0)));
    [|destruct (negb (blk <? nblocks c))]; cbn [c_fbuf c_phase k_kind k_csd k_tim c_out set_out set_mem tick];
    repeat split; try apply Q; try (constructor; [tauto|]); try constructor.
  unfold BUSY. induction (t_busy_w (k_tim c) (c_tick c)); cbn [repeat]; constructor; [tauto|assumption].
Qed.

Lemma firstn_FF : forall n k, (n <= k)%nat -> firstn n (FF k) = FF n.
Proof.
  induction n as [|n IH]; intros k H; [reflexivity|]. destruct k; [lia|].
  cbn [FF repeat firstn]. f_equal. apply IH. lia.
Qed.
Lemma firstn_app_FF : forall (a : list N) n k k', (n <= length a + k)%nat -> (n <= length a + k')%nat ->
  firstn n (a ++ FF k) = firstn n (a ++ FF k').
Proof.
  induction a as [|x a IH]; intros n k k' H1 H2; cbn [app length] in *.
  - rewrite !firstn_FF by lia. reflexivity.
  - destruct n; [reflexivity|]. cbn [firstn]. f_equal. apply IH; lia.
Qed.
Lemma forallb_skipn {A} (p : A -> bool) : forall n l, forallb p l = true -> forallb p (skipn n l) = true.
Proof.
  induction n as [|n IH]; intros l H; [exact H|]. destruct l; [exact H|].
  cbn [forallb] in H. apply andb_true_iff in H. apply IH, H.
Qed.
Lemma skipn_skipn' {A} : forall a b (l : list A), skipn a (skipn b l) = skipn (b + a) l.
Proof.
  intros a b. induction b as [|b IH]; intros l; [reflexivity|].
  destruct l; [destruct a; reflexivity|]. cbn [skipn Nat.add]. apply IH.
Qed.
Lemma Forall_skipn' {A} (P : A -> Prop) : forall n (l : list A), Forall P l -> Forall P (skipn n l).
Proof. induction n as [|n IH]; intros [|x l] H; cbn [skipn]; try assumption. inversion H; subst; auto. Qed.
Lemma inert_FF k : forallb inert (FF k) = true.
Proof. unfold FF. induction k; [reflexivity|]. cbn [repeat forallb]. rewrite IHk. reflexivity. Qed.
Lemma In_FF x k : In x (FF k) -> x = 255.
Proof. intros H. apply repeat_spec in H. exact H. Qed.

(* the CMD0 frame and k fill bytes, k large enough to complete the block: the block is completed
   by the first nleft of them, the rest drains the card's answer *)
Lemma recv_stream c multi blk got nleft k :
  c_phase c = PRecv multi blk got nleft -> c_out c = [] -> c_fbuf c = [] -> (1 <= nleft)%nat ->
  (nleft <= 6 + k)%nat ->
  let cb := on_block c multi blk (got ++ flush_stream nleft) in
  exists j ms, card_bytes c (frame 0 0 ++ FF k) = (set_out cb (skipn j (c_out cb)) (c_phase cb), ms) /\
               Forall (fun x => x = 255 \/ In x (c_out cb)) ms.
Proof.
  intros Hp Ho Hf H1 Hk cb.
  assert (L6 : length (frame 0 0) = 6%nat) by (rewrite frame00; reflexivity).
  rewrite <- (firstn_skipn nleft (frame 0 0 ++ FF k)). rewrite card_bytes_app.
  assert (Lf : length (firstn nleft (frame 0 0 ++ FF k)) = nleft).
  { rewrite firstn_length, app_length, L6, FF_length. lia. }
  rewrite (recv_complete _ c multi blk got nleft Hp Ho Lf).
  2:{ intros E. rewrite E in Lf. cbn in Lf. lia. }
  replace (firstn nleft (frame 0 0 ++ FF k)) with (flush_stream nleft).
  2:{ unfold flush_stream. apply firstn_app_FF; rewrite L6; lia. }
  fold cb. destruct (on_block_props c multi blk (got ++ flush_stream nleft)) as (B1 & B2 & _).
  fold cb in B1, B2.
  destruct (drain (skipn nleft (frame 0 0 ++ FF k)) cb) as (j & ms & E & F).
  { rewrite B1. exact Hf. }
  { exact B2. }
  { destruct nleft as [|n]; [lia|]. rewrite frame00. cbn [app skipn]. apply forallb_skipn.
    change (forallb inert ([0;0;0;0;149] ++ FF k) = true). rewrite forallb_app, inert_FF. reflexivity. }
  rewrite E. exists j, (FF (length (flush_stream nleft)) ++ ms). split; [reflexivity|].
  apply Forall_app. split; [|exact F]. apply Forall_forall. intros x Hx. left. exact (In_FF _ _ Hx).
Qed.

(* one iteration of the CMD0 loop that cannot succeed, in general: the card swallows the first `a`
   bytes (answering FF) and is then in state `cb` - able to receive a frame, with a pending output
   that cannot be mistaken for the answer 01 - and the remaining bytes only drain that output *)
Lemma esm_flush n c t ct cb a :
  c_fbuf cb = [] -> quietp (c_phase cb) ->
  Forall (fun x => N.land (u8 x) 128 = 0 -> u8 x <> 1) (c_out cb) ->
  (a <= 514)%nat ->
  (forall k, (a <= 6 + k)%nat -> exists j ms,
      card_bytes c (frame 0 0 ++ FF k) = (set_out cb (skipn j (c_out cb)) (c_phase cb), ms) /\
      Forall (fun x => x = 255 \/ In x (c_out cb)) (skipn 6 ms)) ->
  (forall k, (6 + k < a)%nat -> snd (card_bytes c (frame 0 0 ++ FF k)) = FF (6 + k)) ->
  exists j j' t' t'',
    ESM (S n) (sys c t ct) = ESM n (sys (set_out cb (skipn j (c_out cb)) (c_phase cb)) t' ct) /\
    ESM O (sys c t ct) = (Err CardNotFound, sys (set_out cb (skipn j' (c_out cb)) (c_phase cb)) t'' ct).
Proof.
  intros B1 B2 B6 Ha Hlong Hshort.
  destruct (card_bytes c (frame 0 0)) as [c1 ms1] eqn:E1.
  destruct (cmd0_total c t ct c1 ms1 E1) as (k & c2 & ms & t2 & Hk & E2 & Hcase).
  assert (Etot : card_bytes c (frame 0 0 ++ FF k) = (c2, ms1 ++ ms)).
  { rewrite card_bytes_app, E1, E2. reflexivity. }
  destruct (le_lt_dec a (6 + k)) as [Hle|Hgt].
  - destruct (Hlong k Hle) as (j & msT & ET & FT).
    rewrite Etot in ET. inversion ET as [[Ec2 Ems]]. subst c2. rewrite <- Ems in FT.
    assert (L1 : length ms1 = 6%nat).
    { pose proof (card_bytes_length (frame 0 0) c) as L. rewrite E1 in L. cbn [snd] in L. rewrite L, frame00. reflexivity. }
    rewrite skipn_app, L1, Nat.sub_diag, (skipn_all2 ms1) in FT by lia. cbn [app skipn] in FT.
    destruct Hcase as [(pre & x & -> & Hx & E)|(-> & F & E)].
    + apply Forall_app in FT. destruct FT as [_ FT]. inversion FT as [|? ? Px _]; subst.
      assert (X1 : u8 x <> 1).
      { destruct Px as [->|Hin]; [discriminate Hx|]. rewrite Forall_forall in B6. exact (B6 x Hin Hx). }
      destruct (esm_retry n c t ct (u8 x) _ t2 E X1) as [R1 R0].
      exists j, j. eexists _, _. split; [exact R1|exact R0].
    + destruct (esm_timeout n c t ct _ t2 E) as (t3 & t4 & R1 & R0).
      destruct (drain (FF (N.to_nat 255)) (set_out cb (skipn j (c_out cb)) (c_phase cb))) as (j2 & ms2 & E3 & _).
      { exact B1. }
      { exact B2. }
      { apply inert_FF. }
      rewrite E3 in R1, R0. cbn [fst c_out c_phase set_out] in R1, R0. rewrite skipn_skipn' in R1, R0.
      exists (j + j2)%nat, (j + j2)%nat. eexists _, _. split; [exact R1|exact R0].
  - exfalso. pose proof (Hshort k Hgt) as Ems. rewrite Etot in Ems. cbn [snd] in Ems.
    destruct Hcase as [(pre & x & -> & Hx & _)|(-> & _ & _)].
    + assert (Hin : In x (FF (6 + k))).
      { rewrite <- Ems. apply in_or_app. right. apply in_or_app. right. left. reflexivity. }
      apply In_FF in Hin. subst x. discriminate Hx.
    + unfold COMMAND_RETRIES in Hgt. lia.
Qed.

(* one iteration of the CMD0 loop, started inside a data block: the block is completed with the
   bytes of that iteration, the answer is never 01, and the card is left able to receive a frame *)
Lemma esm_recv n c t ct multi blk got nleft :
  c_phase c = PRecv multi blk got nleft -> c_out c = [] -> c_fbuf c = [] -> (1 <= nleft)%nat -> (nleft <= 514)%nat ->
  exists cg t' t'', flushed c cg /\
    ESM (S n) (sys c t ct) = ESM n (sys cg t' ct) /\
    exists cg', flushed c cg' /\ ESM O (sys c t ct) = (Err CardNotFound, sys cg' t'' ct).
Proof.
  intros Hp Ho Hf H1 H514.
  set (cb := on_block c multi blk (got ++ flush_stream nleft)).
  destruct (on_block_props c multi blk (got ++ flush_stream nleft)) as (B1 & B2 & B3 & B4 & B5 & B6).
  fold cb in B1, B2, B3, B4, B5, B6.
  assert (FL : forall j, flushed c (set_out cb (skipn j (c_out cb)) (c_phase cb))).
  { intros j. unfold flushed, mem_flushed. rewrite Hp. cbn [c_fbuf c_phase k_kind k_csd k_tim c_mem set_out].
    rewrite B1, Hf. repeat split; assumption. }
  assert (L6 : length (frame 0 0) = 6%nat) by (rewrite frame00; reflexivity).
  destruct (esm_flush n c t ct cb nleft) as (j & j' & t' & t'' & R1 & R0).
  - rewrite B1. exact Hf.
  - exact B2.
  - eapply Forall_impl; [|exact B6]. intros x [-> | [-> | [-> | ->]]] Hx; try discriminate Hx. discriminate.
  - exact H514.
  - intros k Hle. destruct (recv_stream c multi blk got nleft k Hp Ho Hf H1 Hle) as (j & ms & E & F).
    exists j, ms. split; [exact E|]. apply Forall_skipn', F.
  - intros k Hgt. rewrite (recv_partial (frame 0 0 ++ FF k) c multi blk got nleft Hp Ho).
    + cbn [snd]. rewrite app_length, L6, FF_length. reflexivity.
    + rewrite app_length, L6, FF_length. exact Hgt.
  - eexists _, t', t''. split; [apply (FL j)|]. split; [exact R1|]. eexists. split; [apply (FL j')|exact R0].
Qed.

(* ---- a half-received command frame ------------------------------------------------------------ *)
(* the card will check the CRC-7 of the frame in progress: CRC checking is on, or the frame is
   a CMD0 or a CMD8 (always checked) *)
Definition frame_checked (c : card) : Prop :=
  c_crc c = true \/ N.land (hd 0 (c_fbuf c)) 63 = 0 \/ N.land (hd 0 (c_fbuf c)) 63 = 8.

(* the card after it has rejected a frame with a CRC error *)
Definition crc_failed (c : card) : card :=
  set_out (tick (set_flags (set_fbuf c []) (c_idle c) (c_crc c) false (c_init_left c) (c_reading c)))
          (FF (t_ncr (k_tim c) (c_tick c)) ++ [r1 c 8]) (c_phase c).

(* equal up to queue and frame buffer *)
Definition sim (a b : card) : Prop :=
  crc_failed a = crc_failed b /\ c_crc a = c_crc b /\ c_phase a = c_phase b.

Lemma crc7_odd d : N.testbit (crc7 d) 0 = true.
Proof. unfold crc7, crc7_final. rewrite N.lor_spec. apply orb_true_r. Qed.

Lemma on_frame_bad c g :
  (c_crc c = true \/ N.land (nth 0 g 0) 63 = 0 \/ N.land (nth 0 g 0) 63 = 8) ->
  N.testbit (nth 5 g 0) 0 = false -> on_frame c g = crc_failed c.
Proof.
  intros Hc Hx. unfold on_frame.
  replace (c_crc (set_fbuf c []) || (N.land (nth 0 g 0) 63 =? 0) || (N.land (nth 0 g 0) 63 =? 8)) with true.
  2:{ symmetry. cbn [c_crc set_fbuf]. destruct Hc as [H | [H | H]]; rewrite H; [reflexivity| |]; destruct (c_crc c); reflexivity. }
  destruct (crc7 (firstn 5 g) =? nth 5 g 0) eqn:E.
  - apply N.eqb_eq in E. rewrite <- E, crc7_odd in Hx. discriminate.
  - reflexivity.
Qed.

Lemma card_byte_partial c x f0 f : quietp (c_phase c) -> c_fbuf c = f0 :: f ->
  card_byte c x = (feed_frame (pop c) x, hd 255 (c_out c)).
Proof.
  intros Hq Hf. unfold card_byte, pop. destruct (c_out c) as [|y rest] eqn:Eo; [|reflexivity].
  cbn [tl hd]. replace (set_out c [] (c_phase c)) with c by (rewrite <- Eo, set_out_same; reflexivity).
  destruct Hq as [Hp|(multi & b & Hp)]; rewrite Hp; [reflexivity|]. rewrite Hf. reflexivity.
Qed.

Lemma set_fbuf_same c : set_fbuf c (c_fbuf c) = c.
Proof. destruct c; reflexivity. Qed.

(* bytes that do not complete the frame in progress *)
Lemma partial_feed : forall l c f0 f, quietp (c_phase c) -> c_fbuf c = f0 :: f ->
  (length (f0 :: f) + length l < 6)%nat ->
  exists c' ms, card_bytes c l = (c', ms) /\ c_fbuf c' = (f0 :: f) ++ l /\ sim c' c.
Proof.
  induction l as [|x l IH]; intros c f0 f Hq Hf Hl.
  - exists c, []. split; [reflexivity|]. rewrite app_nil_r. split; [exact Hf|]. repeat split.
  - cbn [card_bytes]. rewrite (card_byte_partial c x f0 f Hq Hf). unfold feed_frame. rewrite pop_fbuf, Hf.
    cbn [length] in Hl.
    replace (Nat.eqb (length ((f0 :: f) ++ [x])) 6) with false.
    2:{ symmetry. apply Nat.eqb_neq. rewrite app_length. cbn [length]. lia. }
    destruct (IH (set_fbuf (pop c) ((f0 :: f) ++ [x])) f0 (f ++ [x])) as (c' & ms & E & F & S).
    + exact Hq.
    + reflexivity.
    + cbn [length]. rewrite app_length. cbn [length]. lia.
    + rewrite E. exists c', (hd 255 (c_out c) :: ms). split; [reflexivity|]. split.
      * rewrite F. cbn [app]. rewrite <- app_assoc. reflexivity.
      * destruct S as (S1 & S2 & S3). repeat split; [rewrite S1|rewrite S2|rewrite S3]; reflexivity.
Qed.

(* the byte that completes it, and what follows: with an even sixth byte the CRC-7 cannot match *)
Lemma partial_stream_gen c f0 f l x rest :
  quietp (c_phase c) -> c_fbuf c = f0 :: f -> frame_checked c ->
  (length (f0 :: f) + length l = 5)%nat -> N.testbit x 0 = false -> forallb inert rest = true ->
  exists j ms, card_bytes c (l ++ [x] ++ rest) =
                 (set_out (crc_failed c) (skipn j (c_out (crc_failed c))) (c_phase (crc_failed c)), ms) /\
               Forall (fun y => y = 255 \/ In y (c_out (crc_failed c))) (skipn 6 ms).
Proof.
  intros Hq Hf Hck Hl Hx Hrest.
  destruct (partial_feed l c f0 f Hq Hf ltac:(lia)) as (c1 & ms1 & E1 & F1 & (S1 & S2 & S3)).
  rewrite card_bytes_app, E1. rewrite card_bytes_app, card_bytes_one.
  assert (Hq1 : quietp (c_phase c1)) by (rewrite S3; exact Hq).
  assert (F1' : c_fbuf c1 = f0 :: (f ++ l)) by (rewrite F1; reflexivity).
  rewrite (card_byte_partial c1 x f0 (f ++ l) Hq1 F1'). unfold feed_frame. rewrite pop_fbuf, F1'.
  replace (Nat.eqb (length ((f0 :: f ++ l) ++ [x])) 6) with true.
  2:{ symmetry. apply Nat.eqb_eq. rewrite app_length. cbn [length] in *. rewrite app_length. lia. }
  assert (OB : on_frame (pop c1) ((f0 :: f ++ l) ++ [x]) = crc_failed c).
  { rewrite on_frame_bad.
    - rewrite <- S1. reflexivity.
    - cbn [app nth]. change (c_crc (pop c1)) with (c_crc c1). rewrite S2.
      unfold frame_checked in Hck. rewrite Hf in Hck. exact Hck.
    - rewrite app_nth2; cbn [length] in *; rewrite app_length; [|lia].
      replace (5 - S (length f + length l))%nat with O by lia. exact Hx. }
  rewrite OB.
  destruct (drain rest (crc_failed c)) as (j & ms & E & F); [reflexivity|exact Hq|exact Hrest|].
  rewrite E. exists j. eexists. split; [reflexivity|].
  pose proof (card_bytes_length l c) as L1. rewrite E1 in L1. cbn [snd] in L1.
  rewrite skipn_app. rewrite (skipn_all2 ms1) by lia. cbn [app].
  replace (6 - length ms1)%nat with (S (5 - length ms1)) by (cbn [length] in Hl; lia).
  cbn [app skipn]. apply Forall_skipn', F.
Qed.

Lemma partial_stream c k : quietp (c_phase c) -> c_fbuf c <> [] -> (length (c_fbuf c) <= 5)%nat -> frame_checked c ->
  exists j ms, card_bytes c (frame 0 0 ++ FF k) =
                 (set_out (crc_failed c) (skipn j (c_out (crc_failed c))) (c_phase (crc_failed c)), ms) /\
               Forall (fun y => y = 255 \/ In y (c_out (crc_failed c))) (skipn 6 ms).
Proof.
  intros Hq Hne Hl Hck. rewrite frame00.
  assert (I1 : forall r, forallb inert r = true -> forallb inert (r ++ FF k) = true).
  { intros r H. rewrite forallb_app, H, inert_FF. reflexivity. }
  destruct (c_fbuf c) as [|f0 [|f1 [|f2 [|f3 [|f4 [|f5 f]]]]]] eqn:Hf; try congruence; cbn [length] in Hl; try lia.
  - exact (partial_stream_gen c f0 [] [64;0;0;0] 0 ([149] ++ FF k) Hq Hf Hck eq_refl eq_refl (I1 [149] eq_refl)).
  - exact (partial_stream_gen c f0 [f1] [64;0;0] 0 ([0;149] ++ FF k) Hq Hf Hck eq_refl eq_refl (I1 [0;149] eq_refl)).
  - exact (partial_stream_gen c f0 [f1;f2] [64;0] 0 ([0;0;149] ++ FF k) Hq Hf Hck eq_refl eq_refl (I1 [0;0;149] eq_refl)).
  - exact (partial_stream_gen c f0 [f1;f2;f3] [64] 0 ([0;0;0;149] ++ FF k) Hq Hf Hck eq_refl eq_refl (I1 [0;0;0;149] eq_refl)).
  - exact (partial_stream_gen c f0 [f1;f2;f3;f4] [] 64 ([0;0;0;0;149] ++ FF k) Hq Hf Hck eq_refl eq_refl (I1 [0;0;0;0;149] eq_refl)).
Qed.

(* one iteration of the CMD0 loop against a card with a half-received, CRC-checked frame: the
   driver's bytes complete it, the card rejects it (CRC error), the driver retries *)
Lemma esm_partial n c t ct : quietp (c_phase c) -> c_fbuf c <> [] -> (length (c_fbuf c) <= 5)%nat -> frame_checked c ->
  exists cg t' t'', flushed c cg /\
    ESM (S n) (sys c t ct) = ESM n (sys cg t' ct) /\
    exists cg', flushed c cg' /\ ESM O (sys c t ct) = (Err CardNotFound, sys cg' t'' ct).
Proof.
  intros Hq Hne Hl Hck.
  assert (FL : forall j, flushed c (set_out (crc_failed c) (skipn j (c_out (crc_failed c))) (c_phase (crc_failed c)))).
  { intros j. unfold flushed, mem_flushed. cbn [c_fbuf c_phase k_kind k_csd k_tim c_mem set_out crc_failed tick set_flags set_fbuf].
    repeat split; try exact Hq. destruct Hq as [-> | (m & b & ->)]; reflexivity. }
  destruct (esm_flush n c t ct (crc_failed c) O) as (j & j' & t' & t'' & R1 & R0).
  - reflexivity.
  - exact Hq.
  - cbn [c_out crc_failed set_out]. apply Forall_app. split.
    + apply Forall_forall. intros x Hx. apply In_FF in Hx. subst x. intros H. discriminate H.
    + constructor; [|constructor]. unfold r1. destruct (c_idle c); intros _; discriminate.
  - lia.
  - intros k _. apply partial_stream; assumption.
  - intros k Hk. lia.
  - eexists _, t', t''. split; [apply (FL j)|]. split; [exact R1|]. eexists. split; [apply (FL j')|exact R0].
Qed.

(* ==================================================================================== *)
(* Part D: the theorem                                                                   *)
Section AfterInit.
  Variable dstate : Type.
  Variable spi : dstate -> spi_call -> dstate * spi_reply.
  Variable o : opts.
  (* a call that finds the driver uninitialised = the same call after check_init *)
  Lemma api_after_init c s s2 ty : check_init dstate spi o s = (Ok tt, s2) -> ctype s2 = Some ty ->
    c <> CMarkUninit -> api dstate spi o c s = api dstate spi o c s2.
  Proof.
    intros E Hty Hc.
    assert (E2 : check_init dstate spi o s2 = (Ok tt, s2)).
    { unfold check_init, bind, get_ctype. rewrite Hty. reflexivity. }
    destruct c; try congruence; cbn [api]; unfold with_init;
      try (unfold bind at 1; rewrite E; symmetry; unfold bind at 1; rewrite E2; reflexivity).
    unfold bind at 1, attempt. rewrite E. symmetry. unfold bind at 1. rewrite E2. reflexivity.
  Qed.
End AfterInit.

Lemma Forall_firstn' {A} (P : A -> Prop) : forall n (l : list A), Forall P l -> Forall P (firstn n l).
Proof. induction n as [|n IH]; intros [|x l] H; cbn [firstn]; try constructor; inversion H; subst; auto. Qed.

Lemma flush_stream_length nleft : length (flush_stream nleft) = nleft.
Proof. unfold flush_stream. rewrite firstn_length, app_length, FF_length. lia. Qed.
Lemma flush_stream_bytes nleft : bytes (flush_stream nleft).
Proof.
  unfold flush_stream. apply Forall_firstn'. rewrite frame00. apply Forall_app. split.
  - repeat constructor.
  - apply Forall_forall. intros x Hx. apply In_FF in Hx. subst x. reflexivity.
Qed.

Lemma mem_flushed_ok c : mem_ok (c_mem c) -> recv_wf c -> mem_ok (mem_flushed c).
Proof.
  intros Hm Hw. unfold mem_flushed, recv_wf in *. destruct (c_phase c) as [| | |multi blk got nleft]; try exact Hm.
  destruct Hw as (_ & _ & _ & Hl & Hb). unfold on_block.
  destruct (c_crc c && _); [exact Hm|]. destruct (negb (blk <? nblocks c)); [exact Hm|].
  cbn [c_mem set_out set_mem tick]. apply upd_mem_ok; [exact Hm|]. split.
  - rewrite firstn_length, app_length, flush_stream_length. lia.
  - apply Forall_firstn'. apply Forall_app. split; [exact Hb|apply flush_stream_bytes].
Qed.

(* how many CMD0 retries the state of the card demands *)
Definition retries_needed (c : card) : N :=
  if recv_phase (c_phase c) then 1 else match c_fbuf c with [] => 0 | _ => 1 end.

(* no frame in progress, or a half-received frame (at most 5 bytes) that the card will CRC-check,
   at a card that is idle or waiting for a write token *)
Definition frame_ok (c : card) : Prop :=
  c_fbuf c = [] \/ (quietp (c_phase c) /\ (length (c_fbuf c) <= 5)%nat /\ frame_checked c).

Section Recover.
  Variable o : opts.
  Variable kd : kind.
  Variable csd : list N.
  Variable tim : timing.
  Hypothesis Htim : legal_timing tim.
  Hypothesis Haddr : addressable kd csd.
  Hypothesis Hcsd : is_csd csd.
  Hypothesis Hstruct : CSD_STRUCTURE csd = 0 \/ CSD_STRUCTURE csd = 1.

  Notation MKC := (mkc kd csd tim).

  (* the CMD0 loop succeeds from every state of the card *)
  Lemma esm_any c t ct :
    k_kind c = kd -> k_csd c = csd -> k_tim c = tim -> frame_ok c -> recv_wf c ->
    retries_needed c <= acquire_retries o ->
    exists tkx t', ESM (N.to_nat (acquire_retries o)) (sys c t ct) =
      (Ok tt, sys (MKC (mem_flushed c) true false false (t_init tim tkx) false (tkx + 1) [] PIdle) t' ct).
  Proof.
    intros Hk Hc Ht Hfo Hw Hr. unfold retries_needed in Hr.
    assert (Retry : forall n cg t1, N.to_nat (acquire_retries o) = S n -> flushed c cg ->
              ESM (S n) (sys c t ct) = ESM n (sys cg t1 ct) ->
              exists tkx t', ESM (N.to_nat (acquire_retries o)) (sys c t ct) =
                (Ok tt, sys (MKC (mem_flushed c) true false false (t_init tim tkx) false (tkx + 1) [] PIdle) t' ct)).
    { intros n cg t1 En (G1 & G2 & G3 & G4 & G5 & G6) E. rewrite En, E.
      assert (Hq : recv_phase (c_phase cg) = false) by (destruct G2 as [->|(m & b & ->)]; reflexivity).
      destruct (esm_good n cg t1 ct Hq G1 ltac:(rewrite G5, Ht; exact Htim)) as (tkx & t' & E2).
      exists tkx, t'. rewrite E2, G3, G4, G5, G6, Hk, Hc, Ht. reflexivity. }
    destruct (recv_phase (c_phase c)) eqn:Hp.
    - destruct (c_phase c) as [| | |multi blk got nleft] eqn:Ep; try discriminate.
      unfold recv_wf in Hw. rewrite Ep in Hw. destruct Hw as (Ho & Hf & H1 & Hl & _).
      destruct (N.to_nat (acquire_retries o)) as [|n] eqn:En; [lia|].
      destruct (esm_recv n c t ct multi blk got nleft Ep Ho Hf H1 ltac:(lia)) as (cg & t1 & t1' & G & E & _).
      exact (Retry n cg t1 eq_refl G E).
    - destruct (c_fbuf c) as [|f0 f] eqn:Hf.
      + destruct (esm_good (N.to_nat (acquire_retries o)) c t ct Hp Hf ltac:(rewrite Ht; exact Htim)) as (tkx & t' & E2).
        exists tkx, t'. rewrite E2, Hk, Hc, Ht. unfold mem_flushed.
        destruct (c_phase c); try discriminate; reflexivity.
      + destruct Hfo as [Hfo|(Hq & Hl & Hck)]; [rewrite Hf in Hfo; discriminate|].
        destruct (N.to_nat (acquire_retries o)) as [|n] eqn:En; [lia|].
        destruct (esm_partial n c t ct Hq ltac:(rewrite Hf; discriminate) Hl Hck) as (cg & t1 & t1' & G & E & _).
        exact (Retry n cg t1 eq_refl G E).
  Qed.

  (* below that bound the loop gives up: a card inside a data block needs one retry *)
  Lemma esm_recv_no_retry c t ct multi blk got nleft :
    c_phase c = PRecv multi blk got nleft -> recv_wf c ->
    fst (ESM O (sys c t ct)) = Err CardNotFound.
  Proof.
    intros Ep Hw. unfold recv_wf in Hw. rewrite Ep in Hw. destruct Hw as (Ho & Hf & H1 & Hl & _).
    destruct (esm_recv O c t ct multi blk got nleft Ep Ho Hf H1 ltac:(lia)) as (cg & t1 & t2 & _ & _ & cg' & _ & E).
    rewrite E. reflexivity.
  Qed.

  (* acquire re-initialises the card from every state *)
  Lemma acquire_any c t :
    k_kind c = kd -> k_csd c = csd -> k_tim c = tim -> frame_ok c -> recv_wf c ->
    retries_needed c <= acquire_retries o ->
    exists s2 sref, acquire card card_spi o (sys c t None) = (Ok tt, s2) /\ eqv s2 sref /\
                    Ready o kd csd tim sref (mem_flushed c).
  Proof.
    intros Hk Hc Ht Hf Hw Hr.
    destruct (esm_any c t None Hk Hc Ht Hf Hw Hr) as (tkx & t1 & E1).
    set (mem' := mem_flushed c) in *.
    set (cs := MKC mem' false false false O false tkx [] PIdle).
    destruct (enter_spi_mode_sys kd csd tim Htim (N.to_nat (acquire_retries o)) cs [] None h_init)
      as (t2 & E2 & _); try reflexivity.
    destruct (acquire_sys o kd csd tim Htim cs [] h_init) as (t3 & tk3 & E3 & M3); try reflexivity.
    rewrite acquire_from_esm in *.
    rewrite (acquire_from_ok card card_spi o _ _ _ E2) in E3.
    rewrite (acquire_from_ok card card_spi o _ _ _ E1).
    destruct (ti_acquire_from card card_spi o (ret card tt) (ti_ret card tt)
                (sys (MKC mem' true false false (t_init tim tkx) false (tkx + 1) [] PIdle) t1 None)
                (sys (MKC (c_mem cs) true false false (t_init tim (c_tick cs)) false (c_tick cs + 1) [] PIdle) t2 None))
      as [F1 F2].
    { split; reflexivity. }
    rewrite E3 in F1, F2. cbn [fst snd] in F1, F2.
    destruct (acquire_from card card_spi o (ret card tt) (sys (MKC mem' true false false (t_init tim tkx) false (tkx + 1) [] PIdle) t1 None)) as [r s2] eqn:EA0. cbn [fst snd] in F1, F2. subst r.
    exists s2, (sys (MKC (c_mem cs) false (use_crc o) false O false tk3 [] PIdle) t3 (Some (type_of kd))).
    split; [reflexivity|]. split; [exact F2|].
    exists O, tk3, O, t3, 255. split; [reflexivity|]. split; [lia|exact M3].
  Qed.

  (* C13_recovers *)
  Theorem recovers_full (s : st card) (c : api_call) :
    k_kind (dev s) = kd -> k_csd (dev s) = csd -> k_tim (dev s) = tim ->
    frame_ok (dev s) -> recv_wf (dev s) -> mem_ok (c_mem (dev s)) ->
    retries_needed (dev s) <= acquire_retries o ->
    api_ok c -> c <> CMarkUninit ->
    exists s1 s' sref,
      api card card_spi o CMarkUninit s = (Ok VUnit, s1) /\
      api card card_spi o c s1 = (spec_outcome kd csd (mem_flushed (dev s)) c, s') /\
      eqv s' sref /\ Ready o kd csd tim sref (spec_after kd csd (mem_flushed (dev s)) c).
  Proof.
    intros Hk Hc Ht Hf Hw Hm Hr Hok Hne.
    exists {| dev := dev s; tr := tr s; ctype := None |}.
    destruct (acquire_any (dev s) (tr s) Hk Hc Ht Hf Hw Hr) as (s2 & sr & E2 & V2 & R2).
    assert (Hty : ctype s2 = Some (type_of kd)).
    { destruct V2 as [_ V]. rewrite V. destruct R2 as (il & tk & k & t & last & -> & _). reflexivity. }
    assert (Ei : check_init card card_spi o (sys (dev s) (tr s) None) = (Ok tt, s2)) by exact E2.
    pose proof (api_after_init card card_spi o c _ s2 _ Ei Hty Hne) as EA.
    destruct (api_step_all o kd csd tim Htim Haddr Hcsd Hstruct sr (mem_flushed (dev s)) c (or_introl R2)
                (mem_flushed_ok _ Hm Hw) (api_ok_legal csd c Hok)) as (sf & EF & IF & _).
    destruct (ti_api card card_spi o c s2 sr V2) as [F1 F2]. rewrite EF in F1, F2. cbn [fst snd] in F1, F2.
    exists (snd (api card card_spi o c s2)), sf. split; [reflexivity|]. split.
    - unfold sys in EA. rewrite EA. rewrite <- F1. destruct (api card card_spi o c s2); reflexivity.
    - split; [exact F2|].
      assert (Hsf : ctype sf = Some (type_of kd)).
      { pose proof (api_keeps_ctype card card_spi o c sr (type_of kd)) as K. rewrite EF in K. apply K; [|exact Hne].
        destruct R2 as (il & tk & k & t & last & -> & _). reflexivity. }
      destruct IF as [R|(Hct & _)]; [exact R|congruence].
  Qed.

  (* the bound on acquire_retries is needed: with no retry, a card inside a data block or with a
     half-received frame is not found *)
  Theorem needs_retry (s : st card) (c : api_call) :
    k_kind (dev s) = kd -> k_csd (dev s) = csd -> k_tim (dev s) = tim ->
    frame_ok (dev s) -> recv_wf (dev s) -> retries_needed (dev s) = 1 -> acquire_retries o = 0 ->
    c <> CMarkUninit -> c <> CGetType ->
    fst (api card card_spi o c {| dev := dev s; tr := tr s; ctype := None |}) = Err CardNotFound.
  Proof.
    clear Htim Haddr Hcsd Hstruct. intros Hk Hc Ht Hfo Hw Hr H0 Hn1 Hn2.
    assert (E0 : fst (ESM O (sys (dev s) (tr s) None)) = Err CardNotFound).
    { unfold retries_needed in Hr. destruct (recv_phase (c_phase (dev s))) eqn:Hp.
      - destruct (c_phase (dev s)) as [| | |multi blk got nleft] eqn:Ep; try discriminate.
        unfold recv_wf in Hw. rewrite Ep in Hw. destruct Hw as (Ho & Hf & H1 & Hl & _).
        destruct (esm_recv O (dev s) (tr s) None multi blk got nleft Ep Ho Hf H1 ltac:(lia)) as (cg & t1 & t2 & _ & _ & cg' & _ & E).
        rewrite E. reflexivity.
      - destruct (c_fbuf (dev s)) as [|f0 f] eqn:Hf; [discriminate|].
        destruct Hfo as [Hfo|(Hq & Hl & Hck)]; [rewrite Hf in Hfo; discriminate|].
        destruct (esm_partial O (dev s) (tr s) None Hq ltac:(rewrite Hf; discriminate) Hl Hck) as (cg & t1 & t2 & _ & _ & cg' & _ & E).
        rewrite E. reflexivity. }
    assert (EA : fst (check_init card card_spi o (sys (dev s) (tr s) None)) = Err CardNotFound).
    { change (check_init card card_spi o (sys (dev s) (tr s) None)) with (acquire card card_spi o (sys (dev s) (tr s) None)).
      rewrite acquire_from_esm, H0. change (N.to_nat 0) with O.
      destruct (ESM O (sys (dev s) (tr s) None)) as [r s1] eqn:E. cbn [fst] in E0. subst r.
      exact (acquire_from_err card card_spi o _ _ _ _ E). }
    change {| dev := dev s; tr := tr s; ctype := None |} with (sys (dev s) (tr s) None).
    destruct (check_init card card_spi o (sys (dev s) (tr s) None)) as [r s1] eqn:E. cbn [fst] in EA. subst r.
    destruct c; try congruence; cbn [api]; unfold with_init, bind; rewrite E; reflexivity.
  Qed.
End Recover.

(* ---- the exceptional clause, spelled out ------------------------------------------------------
   A card that was receiving a write data block takes the first nleft bytes the driver sends
   (40 00 00 00 00 95 FF FF ...) as the rest of that block and its CRC field.  With CRC checking on
   and a CRC field that does not match, or a block number beyond the capacity, nothing is stored;
   otherwise block `blk` becomes the 512 bytes received. *)
Lemma mem_flushed_recv c multi blk got nleft : c_phase c = PRecv multi blk got nleft ->
  let g := got ++ flush_stream nleft in
  mem_flushed c =
    if (c_crc c && negb (crc16 (firstn 512 g) =? be16_val (nth 512 g 0) (nth 513 g 0))) || negb (blk <? nblocks c)
    then c_mem c else upd_mem (c_mem c) blk (firstn 512 g).
Proof.
  intros Hp g. unfold mem_flushed. rewrite Hp. fold g. unfold on_block.
  destruct (c_crc c && _); [reflexivity|]. destruct (negb (blk <? nblocks c)); reflexivity.
Qed.
Lemma mem_flushed_other c : recv_phase (c_phase c) = false -> mem_flushed c = c_mem c.
Proof. unfold mem_flushed. destruct (c_phase c); try discriminate; reflexivity. Qed.
Lemma flush_stream_spec nleft : flush_stream nleft = firstn nleft ([64;0;0;0;0;149] ++ repeat 255 nleft).
Proof. unfold flush_stream. rewrite frame00. reflexivity. Qed.

(* ---- the hypotheses on the card state are invariants of the card model -------------------------
   `card_inv` holds after power-up and is preserved by every byte on the bus, whatever the host
   sends: a frame in progress has at most 5 bytes; inside a data block nothing is queued, no
   frame is in progress, between 1 and 514 bytes are still to come. *)
Definition card_inv (c : card) : Prop := (length (c_fbuf c) <= 5)%nat /\ recv_wf c.

Lemma nonrecv_wf c : recv_phase (c_phase c) = false -> recv_wf c.
Proof. unfold recv_wf. destruct (c_phase c); try discriminate; intros _; exact I. Qed.

Lemma exec_nonrecv c cmd arg : recv_phase (c_phase c) = false ->
  recv_phase (c_phase (exec c cmd arg)) = false /\ c_fbuf (exec c cmd arg) = c_fbuf c.
Proof.
  intros Hp. unfold exec.
  repeat match goal with
         | |- context [if ?b then _ else _] => destruct b
         | |- context [match decode_addr ?a ?b with _ => _ end] => destruct (decode_addr a b)
         | |- context [match k_kind ?a with _ => _ end] => destruct (k_kind a)
         | |- context [match c_init_left ?a with _ => _ end] => destruct (c_init_left a)
         end; try (split; [reflexivity|reflexivity]); split; try exact Hp; reflexivity.
Qed.

Lemma on_frame_nonrecv c g : recv_phase (c_phase c) = false ->
  recv_phase (c_phase (on_frame c g)) = false /\ c_fbuf (on_frame c g) = [].
Proof.
  intros Hp. unfold on_frame. destruct (_ && _).
  - split; [exact Hp|reflexivity].
  - apply (exec_nonrecv (set_fbuf c [])). exact Hp.
Qed.

Lemma feed_frame_inv c m : recv_phase (c_phase c) = false -> (length (c_fbuf c) <= 5)%nat ->
  recv_phase (c_phase (feed_frame c m)) = false /\ (length (c_fbuf (feed_frame c m)) <= 5)%nat.
Proof.
  intros Hp Hl. unfold feed_frame. destruct (c_fbuf c) as [|f0 f] eqn:Hf.
  - destruct (N.land m 192 =? 64); [split; [exact Hp|cbn; lia]|split; [exact Hp|rewrite Hf; cbn; lia]].
  - destruct (Nat.eqb (length ((f0 :: f) ++ [m])) 6) eqn:E.
    + destruct (on_frame_nonrecv c ((f0 :: f) ++ [m]) Hp) as [H1 H2]. split; [exact H1|rewrite H2; cbn; lia].
    + split; [exact Hp|]. apply Nat.eqb_neq in E. cbn [c_fbuf set_fbuf]. rewrite app_length in *. cbn [length] in *. lia.
Qed.

Lemma card_inv_power_on kd csd t m : card_inv (power_on kd csd t m).
Proof. split; [cbn; lia|exact I]. Qed.

Theorem card_inv_byte c m : card_inv c -> m < 256 -> card_inv (fst (card_byte c m)).
Proof.
  intros [Hl Hw] Hm.
  assert (FI : forall c', recv_phase (c_phase c') = false -> (length (c_fbuf c') <= 5)%nat -> card_inv (feed_frame c' m)).
  { intros c' Hp' Hl'. destruct (feed_frame_inv c' m Hp' Hl') as [H1 H2]. split; [exact H2|apply nonrecv_wf, H1]. }
  unfold card_byte. destruct (c_out c) as [|b rest] eqn:Ho.
  - destruct (c_phase c) as [|b|multi blk|multi blk got nleft] eqn:Ep.
    + apply FI; [rewrite Ep; reflexivity|exact Hl].
    + destruct (b <? nblocks c); [|apply FI; [rewrite Ep; reflexivity|exact Hl]].
      destruct (FF _ ++ data_packet _); cbn [fst]; apply FI; first [rewrite Ep; reflexivity | reflexivity | exact Hl].
    + destruct (c_fbuf c) as [|f0 f] eqn:Hf; [|apply FI; [rewrite Ep; reflexivity|rewrite Hf; exact Hl]].
      destruct ((m =? 254) && negb multi).
      { cbn [fst]. split; [cbn [c_fbuf set_out]; rewrite Hf; cbn; lia|]. unfold recv_wf. cbn [c_phase c_out c_fbuf set_out].
        rewrite Hf. repeat split; try lia. constructor. }
      destruct ((m =? 252) && multi).
      { cbn [fst]. split; [cbn [c_fbuf set_out]; rewrite Hf; cbn; lia|]. unfold recv_wf. cbn [c_phase c_out c_fbuf set_out].
        rewrite Hf. repeat split; try lia. constructor. }
      destruct ((m =? 253) && multi).
      { cbn [fst]. split; [cbn [c_fbuf set_out tick]; rewrite Hf; cbn; lia|exact I]. }
      apply FI; [rewrite Ep; reflexivity|rewrite Hf; cbn; lia].
    + unfold recv_wf in Hw. rewrite Ep in Hw. destruct Hw as (_ & Hf & H1 & Hlen & Hb).
      destruct nleft as [|[|l]].
      * lia.
      * cbn [fst]. destruct (on_block_props c multi blk (got ++ [m])) as (B1 & B2 & _).
        split; [rewrite B1, Hf; cbn; lia|]. apply nonrecv_wf. destruct B2 as [->|(mm & bb & ->)]; reflexivity.
      * cbn [fst]. split; [exact Hl|]. unfold recv_wf. cbn [c_phase c_out c_fbuf set_out].
        repeat split; try assumption; try lia.
        -- rewrite app_length. cbn [length]. lia.
        -- apply Forall_app. split; [exact Hb|constructor; [exact Hm|constructor]].
  - cbn [fst]. apply FI; cbn [c_phase c_fbuf set_out]; [|exact Hl].
    unfold recv_wf in Hw. destruct (c_phase c); try reflexivity. destruct Hw as (Ho' & _). congruence.
Qed.
