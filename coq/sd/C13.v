(* Property C13 - SD transfers never return corrupted data as good and never hang.
   All theorems here hold for an ARBITRARY peer: `spi` is any function at all
   (any card behaviour, any pattern of SPI bus errors).  This file contains only
   the property theorems, each closed by `exact`, pinned by `Check`, followed by
   `Print Assumptions`. *)
From Coq Require Import NArith List Bool.
From SdSd Require Import Poly CrcModel CrcProofs SdModel SdSpec SdBound SdSafety SdCapacity SdTheorems SdCardLemmas SdSystem SdInit SdTransfer SdMulti SdLegal SdRecover SdRecoverEx.
Import ListNotations.
Open Scope N_scope.

(* ---- never hang ---------------------------------------------------------------
   Every public call returns Ok or Err - never a panic - having clocked at most
   `bound o c` bytes; `bound` is the explicit expression of SdBound.v in the retry
   constants, the configured acquire_retries and the block count. *)
Theorem C13_bounded : forall (dstate : Type) (spi : dstate -> spi_call -> dstate * spi_reply)
    (o : opts) (c : api_call) (s s' : st dstate) (r : outcome api_value),
  api dstate spi o c s = (r, s') ->
  r <> Panic /\ tbytes (tr s') <= tbytes (tr s) + bound o c.
Proof. exact bounded_total. Qed.

(* the bound, spelled out for one command, and its value for the default options *)
Example C13_bound_card_command :
  B_cmd = (COMMAND_RETRIES + 1) + 6 + 1 + (COMMAND_RETRIES + 1).
Proof. reflexivity. Qed.
Example C13_bound_read :
  forall o n idx, bound o (CRead n idx) = B_acquire o + (B_cmd + N.of_nat n * ((READ_RETRIES + 1) + 512 + 2) + B_cmd).
Proof. reflexivity. Qed.
Example C13_bound_default_read1 :
  bound {| use_crc := true; acquire_retries := 50 |} (CRead 1 0) = 601494051.
Proof. vm_compute. reflexivity. Qed.

Theorem C13_card_command_bounded : forall (dstate : Type) (spi : dstate -> spi_call -> dstate * spi_reply)
    (cmd arg : N) (s : st dstate) (r : outcome N) (s' : st dstate),
  card_command dstate spi cmd arg s = (r, s') ->
  r <> Panic /\ tbytes (tr s') <= tbytes (tr s) + B_cmd.
Proof. exact costs_card_command. Qed.

(* ---- bus errors ------------------------------------------------------------------
   `tp m`: if an SPI call fails, m stops at once (the failed call is the last one) and
   returns Err Transport; if none fails the result is not Transport.  It holds for
   initialisation, the capacity queries, every command and every data block.
   `tpw m` (multi-block transfers, which send CMD12 after a failed block): if no call
   failed the result is not Transport, if some call failed the result is an error.
   (The one byte `acquire` clocks after its closure, `let _ = self.read_byte()`, is
   outside: its result is discarded by the code.) *)
Theorem C13_transport : forall (dstate : Type) (spi : dstate -> spi_call -> dstate * spi_reply) (o : opts),
  tp dstate (acquire_inner dstate spi o) /\
  tp dstate (num_blocks_inner dstate spi o) /\
  tp dstate (num_bytes_inner dstate spi o) /\
  tp dstate (erase_single_block_enabled_inner dstate spi o) /\
  (forall c a, tp dstate (card_command dstate spi c a)) /\
  (forall len, tp dstate (read_data dstate spi o len)) /\
  (forall tok buf, tp dstate (write_data dstate spi o tok buf)) /\
  (forall n idx, tpw dstate (read_inner dstate spi o n idx)) /\
  (forall blocks idx, tpw dstate (write_inner dstate spi o blocks idx)).
Proof. exact transport_all. Qed.

(* ---- the CRC gate -------------------------------------------------------------------
   With CRC enabled, read_data returns Ok only with a buffer whose CRC-16 equals the
   two CRC bytes received after it. *)
Theorem C13_crc_gate : forall (dstate : Type) (spi : dstate -> spi_call -> dstate * spi_reply) (o : opts)
    (len : nat) (s : st dstate) (buf : list N) (s' : st dstate),
  use_crc o = true -> read_data dstate spi o len s = (Ok buf, s') ->
  exists dat crcb rest,
    tr s' = Ev (TransferInPlace [255;255]) (Bytes crcb) :: Ev (TransferInPlace (repeat 255 len)) (Bytes dat) :: rest /\
    buf = fit (repeat 255 len) dat /\
    crc16 buf = be16_val (nth 0 (fit [255;255] crcb) 0) (nth 1 (fit [255;255] crcb) 0).
Proof. exact crc_gate. Qed.

(* The card sent payload d with its CRC; what arrived is d xor ed and crc xor ec.
   If the error pattern (ed, ec) is confined to a window of 16 bits (this includes
   every single-bit flip, anywhere in the payload or the CRC), the read fails with
   CrcError - for every payload length. *)
Theorem C13_detects_burst : forall (dstate : Type) (spi : dstate -> spi_call -> dstate * spi_reply) (o : opts)
    (len : nat) (s s' : st dstate) (r : outcome (list N)) (d ed : list N) (ec b i : N) (rest : list event),
  use_crc o = true -> read_data dstate spi o len s = (r, s') ->
  tr s' = Ev (TransferInPlace [255;255]) (Bytes (be16 (N.lxor (crc16 d) ec))) ::
          Ev (TransferInPlace (repeat 255 len)) (Bytes (xor_bytes d ed)) :: rest ->
  length d = len -> length ed = len -> bytes d -> bytes ed -> ec < 65536 ->
  b <> 0 -> b < 2 ^ 16 -> msg_poly ed * 65536 + ec = N.shiftl b i ->
  exists x y, r = Err (CrcError x y).
Proof. exact detects_burst_read. Qed.

(* any two flipped bits in a 512-byte block and its CRC *)
Theorem C13_detects_double : forall (dstate : Type) (spi : dstate -> spi_call -> dstate * spi_reply) (o : opts)
    (s s' : st dstate) (r : outcome (list N)) (d ed : list N) (ec i j : N) (rest : list event),
  use_crc o = true -> read_data dstate spi o 512 s = (r, s') ->
  tr s' = Ev (TransferInPlace [255;255]) (Bytes (be16 (N.lxor (crc16 d) ec))) ::
          Ev (TransferInPlace (repeat 255 512)) (Bytes (xor_bytes d ed)) :: rest ->
  length d = 512%nat -> length ed = 512%nat -> bytes d -> bytes ed -> ec < 65536 ->
  i < j -> j < 4112 -> msg_poly ed * 65536 + ec = N.lxor (2 ^ i) (2 ^ j) ->
  exists x y, r = Err (CrcError x y).
Proof. exact detects_double_read. Qed.

(* ---- rejected writes, unexpected tokens (either CRC mode) ----------------------------
   Once the block and its CRC field are out, a data-response token whose low five
   bits are not 00101 makes write_data fail with WriteError. *)
Theorem C13_write_rejected : forall (dstate : Type) (spi : dstate -> spi_call -> dstate * spi_reply) (o : opts)
    (tok : N) (buf : list N) (s s' : st dstate) (r : outcome unit) (l : list N) (rest : list event),
  write_data dstate spi o tok buf s = (r, s') ->
  tr s' = Ev (Transfer [255]) (Bytes l) :: rest ->
  N.land (nth 0 (fit [0] l) 0) 31 <> 5 -> r = Err WriteError.
Proof. exact write_rejected. Qed.

(* a single-block write returns Ok only if CMD24 was answered 00, the data block was
   accepted, and CMD13 reported status 00 00 *)
Theorem C13_write_status : forall (dstate : Type) (spi : dstate -> spi_call -> dstate * spi_reply) (o : opts)
    (b : list N) (idx : N) (s s' : st dstate),
  write_inner dstate spi o [b] idx s = (Ok tt, s') ->
  exists a s0 s1 s2 s3 s4,
    start_idx dstate idx WriteError s = (Ok a, s0) /\
    card_command dstate spi CMD24 a s0 = (Ok 0, s1) /\
    write_data dstate spi o DATA_START_BLOCK b s1 = (Ok tt, s2) /\
    wait_not_busy dstate spi (N.to_nat WRITE_RETRIES) s2 = (Ok tt, s3) /\
    card_command dstate spi CMD13 0 s3 = (Ok 0, s4) /\
    read_byte dstate spi s4 = (Ok 0, s').
Proof. exact write1_ok_inv. Qed.

(* a first non-FF byte other than the start token FE where a data block is expected *)
Theorem C13_bad_token : forall (dstate : Type) (spi : dstate -> spi_call -> dstate * spi_reply) (o : opts)
    (len : nat) (s s' : st dstate) (r : outcome (list N)) (l : list N) (rest : list event),
  read_data dstate spi o len s = (r, s') ->
  tr s' = Ev (Transfer [255]) (Bytes l) :: rest ->
  nth 0 (fit [0] l) 0 <> 255 -> nth 0 (fit [0] l) 0 <> 254 -> r = Err ReadError.
Proof. exact bad_token. Qed.

(* ---- failed initialisation: acquire changes card_type only when it succeeds ------------ *)
Theorem C13_failed_init : forall (dstate : Type) (spi : dstate -> spi_call -> dstate * spi_reply) (o : opts)
    (s : st dstate) (r : outcome unit) (s' : st dstate),
  acquire dstate spi o s = (r, s') -> r <> Ok tt -> ctype s' = ctype s.
Proof. exact failed_init_keeps_ctype. Qed.

(* ---- recovery (partial) ----------------------------------------------------------------------------
   FULL STATEMENT WANTED: from ANY driver state and ANY state a LEGALCARD can be in once it responds
   again, mark_card_uninit followed by a call re-initialises the card and the call does its work.
   PROVED (C13_recovers_partial): the same for every LEGALCARD state in which the card can receive a
   command frame - no frame half received, not inside a data transfer (c_fbuf = [], c_phase = PIdle;
   busy or not, idle or ready, CRC on or off, any pending output, any driver belief about the card
   type) - and a trace so far that leaves the host between commands; here the whole trace stays a legal
   conversation (Inv).  The card states in the middle of a data block / multi-block stream and the
   independence from the earlier trace, missing here, are proved in C13_recovers below. *)
Theorem C13_recovers_partial : forall (o : opts) (kd : kind) (csd : list N) (tim : timing),
  legal_timing tim -> addressable kd csd -> is_csd csd -> CSD_STRUCTURE csd = 0 \/ CSD_STRUCTURE csd = 1 ->
  forall (s : st card) (mem : N -> list N) (c : api_call),
  k_kind (dev s) = kd -> k_csd (dev s) = csd -> k_tim (dev s) = tim ->
  c_fbuf (dev s) = [] -> c_phase (dev s) = PIdle -> c_mem (dev s) = mem ->
  (exists h, mon (tr s) = inl h /\ h_mode h = HFree) ->
  mem_ok mem -> api_ok c ->
  exists s1 s', api card card_spi o CMarkUninit s = (Ok VUnit, s1) /\
                api card card_spi o c s1 = (spec_outcome kd csd mem c, s') /\
                Inv o kd csd tim s' (spec_after kd csd mem c).
Proof. exact recovers. Qed.

(* ---- recovery (full) ---------------------------------------------------------------------------------
   From ANY driver state (any card_type belief, ANY earlier trace - legal or not) and EVERY state
   LEGALCARD can be in, mark_card_uninit followed by a call c (any call except mark_card_uninit itself)
   re-initialises the card, c returns what the specification says and the card's memory changes as
   the specification says - relative to the memory `mem_flushed (dev s)` defined below.
   Card states covered (definitions in SdRecover.v):
     - any phase: idle, streaming a multiple-block read (PNextBlock), waiting for a write token
       (PWaitTok, single or multiple), RECEIVING a write data block (PRecv, single or multiple);
       any pending output, busy or not, idle/ready, CRC on/off, APP_CMD latch, any tick;
     - `recv_wf`: inside a data block nothing is queued, no frame is in progress, 1..514 bytes are
       still to come, the bytes so far are bytes.  This is an invariant of the card model
       (C13_card_state_invariant: holds after power-up, preserved by every byte on the bus);
     - `frame_ok`: no command frame half received, OR a half-received frame (1..5 bytes) that the card
       will CRC-check when complete (CRC checking on, or a CMD0/CMD8 frame) at a card that is idle or
       waiting for a write token.  Outside this, recovery can FAIL: C13_recovers_refuted_* below.
   Requirement on the options: `retries_needed (dev s) <= acquire_retries o`, where retries_needed is 1
   if the card is inside a data block or has a half-received frame, else 0.  The bound is sharp
   (C13_recovers_needs_retry).  Why one retry suffices: a CMD0 attempt clocks 6 + 10001 bytes, a data
   block is at most 514 bytes; the card completes the block with the driver's bytes, answers with a
   data-response token (bit 7 set) and busy bytes (00) or nothing - never 01 -, so the first attempt
   ends with R1 = 00 or a timeout (+ 255 fill bytes), and the second CMD0 is recognised.  A card that is
   streaming a multiple-block read or waiting for a write token recognises CMD0 at once.
   THE UNAVOIDABLE EFFECT (C13_recovers_block_clause): a card that was receiving block `blk` takes the
   first nleft bytes the driver sends - 40 00 00 00 00 95 FF FF .. - as the rest of that block and its
   CRC field.  CRC checking on and the field does not match, or blk beyond the capacity: nothing is
   stored.  Otherwise block blk := the 512 bytes received (the bytes received before, then the
   driver's).  No other block changes.
   Conclusion: the final state s' equals (`eqv`: same device state, same card_type; the ghost trace
   differs) a state sref with `Ready`: card_type = the card's kind, the card initialised, idle between
   commands, memory = spec_after.  Every later call behaves as from sref (C13_trace_independent). *)
Theorem C13_recovers : forall (o : opts) (kd : kind) (csd : list N) (tim : timing),
  legal_timing tim -> addressable kd csd -> is_csd csd -> CSD_STRUCTURE csd = 0 \/ CSD_STRUCTURE csd = 1 ->
  forall (s : st card) (c : api_call),
  k_kind (dev s) = kd -> k_csd (dev s) = csd -> k_tim (dev s) = tim ->
  frame_ok (dev s) -> recv_wf (dev s) -> mem_ok (c_mem (dev s)) ->
  retries_needed (dev s) <= acquire_retries o ->
  api_ok c -> c <> CMarkUninit ->
  exists s1 s' sref,
    api card card_spi o CMarkUninit s = (Ok VUnit, s1) /\
    api card card_spi o c s1 = (spec_outcome kd csd (mem_flushed (dev s)) c, s') /\
    eqv s' sref /\ Ready o kd csd tim sref (spec_after kd csd (mem_flushed (dev s)) c).
Proof. exact recovers_full. Qed.

(* the memory the recovered card starts from *)
Theorem C13_recovers_block_clause :
  (forall c multi blk got nleft, c_phase c = PRecv multi blk got nleft ->
     let g := got ++ firstn nleft ([64;0;0;0;0;149] ++ repeat 255 nleft) in
     mem_flushed c =
       if (c_crc c && negb (crc16 (firstn 512 g) =? be16_val (nth 512 g 0) (nth 513 g 0))) || negb (blk <? nblocks c)
       then c_mem c else upd_mem (c_mem c) blk (firstn 512 g)) /\
  (forall c, (forall multi blk got nleft, c_phase c <> PRecv multi blk got nleft) -> mem_flushed c = c_mem c).
Proof.
  split.
  - intros c multi blk got nleft Hp. rewrite <- flush_stream_spec. exact (mem_flushed_recv c multi blk got nleft Hp).
  - intros c H. apply mem_flushed_other. destruct (c_phase c) eqn:E; try reflexivity. exfalso. exact (H _ _ _ _ eq_refl).
Qed.

(* the bound on acquire_retries is sharp: with acquire_retries = 0, from every card state inside a
   data block or with a half-received frame, the call fails with CardNotFound *)
Theorem C13_recovers_needs_retry : forall (o : opts) (kd : kind) (csd : list N) (tim : timing) (s : st card) (c : api_call),
  k_kind (dev s) = kd -> k_csd (dev s) = csd -> k_tim (dev s) = tim ->
  frame_ok (dev s) -> recv_wf (dev s) -> retries_needed (dev s) = 1 -> acquire_retries o = 0 ->
  c <> CMarkUninit -> c <> CGetType ->
  fst (api card card_spi o c {| dev := dev s; tr := tr s; ctype := None |}) = Err CardNotFound.
Proof. exact needs_retry. Qed.

(* recv_wf and "a frame in progress has at most 5 bytes" are invariants of the card model *)
Theorem C13_card_state_invariant :
  (forall kd csd t m, card_inv (power_on kd csd t m)) /\
  (forall c m, card_inv c -> m < 256 -> card_inv (fst (card_byte c m))) /\
  (forall c, card_inv c -> (length (c_fbuf c) <= 5)%nat /\ recv_wf c).
Proof. split; [exact card_inv_power_on|]. split; [exact card_inv_byte|]. intros c H. exact H. Qed.

(* the recorded trace is ghost state: two driver states that differ only in it give the same
   result and stay equal up to it, for every call and every device *)
Theorem C13_trace_independent : forall (dstate : Type) (spi : dstate -> spi_call -> dstate * spi_reply) (o : opts)
    (c : api_call) (a b : st dstate),
  eqv a b -> fst (api dstate spi o c a) = fst (api dstate spi o c b) /\
             eqv (snd (api dstate spi o c a)) (snd (api dstate spi o c b)).
Proof. exact ti_api. Qed.

(* non-vacuity: a card 100 bytes into a single-block write of block 3 (414 bytes to come), the driver
   believing it is SDHC, an illegal earlier trace, acquire_retries = 1.  CRC on: the block fails its
   CRC, block 3 is unchanged and read back; CRC off: block 3 = 100 received bytes, the CMD0 frame, FF. *)
Example C13_recovers_mid_block :
  (exists s1 s', api card card_spi (ex_opts true 1) CMarkUninit (ex_st (mid_block true)) = (Ok VUnit, s1) /\
    api card card_spi (ex_opts true 1) (CRead 1 3) s1 = (Ok (VBlocks [repeat 0 512]), s') /\
    ctype s' = Some SD1 /\ c_mem (dev s') 3 = repeat 0 512) /\
  mem_flushed (mid_block false) = upd_mem (fun _ => repeat 0 512) 3 (repeat 7 100 ++ [64;0;0;0;0;149] ++ repeat 255 406) /\
  fst (api card card_spi (ex_opts false 1) (CRead 1 3) {| dev := mid_block false; tr := []; ctype := None |}) =
    Ok (VBlocks [repeat 7 100 ++ [64;0;0;0;0;149] ++ repeat 255 406]).
Proof. exact (conj recovers_mid_block_crc_on (conj mid_block_crc_off recovers_mid_block_crc_off)). Qed.

(* REFUTED outside frame_ok (1): the card idle with CRC checking off has received 7B 00 00 00 01 (five
   bytes of CMD59 arg 1); the first byte of the driver's CMD0 frame completes it, the card executes
   CMD59 (CRC now on) and answers 01, which the driver (N_CR = 8, use_crc = false) takes for the answer
   to CMD0: initialisation completes with card and driver disagreeing on CRC, a block write fails. *)
Theorem C13_recovers_refuted_unchecked_frame :
  exists (o : opts) (kd : kind) (csd : list N) (tim : timing) (s : st card) (c : api_call),
    legal_timing tim /\ addressable kd csd /\ is_csd csd /\ (CSD_STRUCTURE csd = 0 \/ CSD_STRUCTURE csd = 1) /\
    k_kind (dev s) = kd /\ k_csd (dev s) = csd /\ k_tim (dev s) = tim /\
    card_inv (dev s) /\ c_phase (dev s) = PIdle /\ c_out (dev s) = [] /\ mem_ok (c_mem (dev s)) /\
    50 <= acquire_retries o /\ api_ok c /\ c <> CMarkUninit /\
    exists s1, api card card_spi o CMarkUninit s = (Ok VUnit, s1) /\
               fst (api card card_spi o c s1) = Err WriteError /\
               spec_outcome kd csd (mem_flushed (dev s)) c = Ok VUnit.
Proof. exact recovers_refuted_unchecked_frame. Qed.

(* REFUTED outside frame_ok (2): the card streaming a multiple-block read (CRC on) has received 4C (one
   byte of CMD12); the driver's frame completes it, the card rejects it and streams on; the driver
   reads a data byte 01 as the answer to CMD0 and fails later with TimeoutCommand(8). *)
Theorem C13_recovers_refuted_streaming_frame :
  exists (o : opts) (kd : kind) (csd : list N) (tim : timing) (s : st card) (c : api_call),
    legal_timing tim /\ addressable kd csd /\ is_csd csd /\ (CSD_STRUCTURE csd = 0 \/ CSD_STRUCTURE csd = 1) /\
    k_kind (dev s) = kd /\ k_csd (dev s) = csd /\ k_tim (dev s) = tim /\
    card_inv (dev s) /\ frame_checked (dev s) /\ mem_ok (c_mem (dev s)) /\
    50 <= acquire_retries o /\ api_ok c /\ c <> CMarkUninit /\
    exists s1, api card card_spi o CMarkUninit s = (Ok VUnit, s1) /\
               fst (api card card_spi o c s1) = Err (TimeoutCommand 8) /\
               spec_outcome kd csd (mem_flushed (dev s)) c = Ok (VBlocks [repeat 1 512]).
Proof. exact recovers_refuted_streaming_frame. Qed.

(* non-vacuity: a dead bus (every call fails) makes a read fail with Transport after one call *)
Definition dead_bus : ostate := {| o_miso := []; o_pad := 255; o_calln := 0; o_fails := fun _ => true |}.
Example C13_dead_bus :
  fst (api ostate oracle_spi {| use_crc := true; acquire_retries := 50 |} (CRead 1 0) (init_st ostate dead_bus)) = Err Transport.
Proof. vm_compute. reflexivity. Qed.
(* a block index whose byte address overflows u32 is an error, not a panic (repaired) *)
Example C13_big_index :
  fst (api ostate oracle_spi {| use_crc := false; acquire_retries := 50 |} (CRead 1 8388608)
         {| dev := dead_bus; tr := []; ctype := Some SD1 |}) = Err ReadError.
Proof. vm_compute. reflexivity. Qed.

Check (C13_bounded : forall dstate spi o c s s' r, api dstate spi o c s = (r, s') ->
         r <> Panic /\ tbytes (tr s') <= tbytes (tr s) + bound o c).

Print Assumptions C13_bounded.
Print Assumptions C13_card_command_bounded.
Print Assumptions C13_transport.
Print Assumptions C13_crc_gate.
Print Assumptions C13_detects_burst.
Print Assumptions C13_detects_double.
Print Assumptions C13_write_rejected.
Print Assumptions C13_write_status.
Print Assumptions C13_bad_token.
Print Assumptions C13_failed_init.
Print Assumptions C13_recovers_partial.
Print Assumptions C13_recovers.
Print Assumptions C13_recovers_block_clause.
Print Assumptions C13_recovers_needs_retry.
Print Assumptions C13_card_state_invariant.
Print Assumptions C13_trace_independent.
Print Assumptions C13_recovers_mid_block.
Print Assumptions C13_recovers_refuted_unchecked_frame.
Print Assumptions C13_recovers_refuted_streaming_frame.
