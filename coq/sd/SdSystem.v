(* PROOFS, part 5: the driver model running against LEGALCARD (instantiation (ii):
   dstate := card, spi := card_spi), phase by phase.  The rule checker's state is a
   function of the recorded trace (`mon`), so every lemma also says how it moves. *)
From Coq Require Import NArith Arith List Lia Bool ZArith.
From SdSd Require Import Poly CrcModel CrcProofs SdModel SdSpec SdBound SdSafety SdCapacity SdCardLemmas.
Import ListNotations.
Open Scope N_scope.

Notation cst := (st card).
Definition sys (c : card) (t : list event) (ct : option card_type) : cst :=
  {| dev := c; tr := t; ctype := ct |}.

Notation "'READ_BYTE'" := (read_byte card card_spi).
Notation "'POLL'" := (poll card card_spi).

(* ---- the primitives ---------------------------------------------------------------- *)
Lemma transfer_byte_sys c t ct x c' m : card_byte c x = (c', m) ->
  transfer_byte card card_spi x (sys c t ct) = (Ok (u8 m), sys c' (Ev (Transfer [x]) (Bytes [m]) :: t) ct).
Proof.
  intros E. unfold transfer_byte, bind, call, sys. cbn [dev tr ctype card_spi card_bytes].
  rewrite E. reflexivity.
Qed.

Lemma read_byte_sys c t ct c' m : card_byte c 255 = (c', m) ->
  READ_BYTE (sys c t ct) = (Ok (u8 m), sys c' (Ev (Transfer [255]) (Bytes [m]) :: t) ct).
Proof. apply transfer_byte_sys. Qed.

Lemma write_byte_sys c t ct x c' m : card_byte c x = (c', m) ->
  write_byte card card_spi x (sys c t ct) = (Ok tt, sys c' (Ev (Transfer [x]) (Bytes [m]) :: t) ct).
Proof. intros E. unfold write_byte, bind. rewrite (transfer_byte_sys c t ct x c' m E). reflexivity. Qed.

Lemma delay_sys c t ct :
  delay_us10 card card_spi (sys c t ct) = (Ok tt, sys c (Ev (DelayUs 10) (Bytes []) :: t) ct).
Proof. reflexivity. Qed.

Lemma write_bytes_sys c t ct out c' ms : card_bytes c out = (c', ms) ->
  write_bytes card card_spi out (sys c t ct) = (Ok tt, sys c' (Ev (Write out) (Bytes ms) :: t) ct).
Proof.
  intros E. unfold write_bytes, bind, call, sys. cbn [dev tr ctype card_spi]. rewrite E. reflexivity.
Qed.

Lemma transfer_bytes_sys c t ct out c' ms : card_bytes c out = (c', ms) ->
  transfer_bytes card card_spi out (sys c t ct) =
  (Ok (fit out ms), sys c' (Ev (TransferInPlace out) (Bytes ms) :: t) ct).
Proof.
  intros E. unfold transfer_bytes, bind, call, sys. cbn [dev tr ctype card_spi]. rewrite E. reflexivity.
Qed.

(* ---- the rule checker along the primitives --------------------------------------------- *)
Definition hstep_m (m : hstate + N) (mosi : N) (miso : option N) : hstate + N :=
  match m with inl h => hstep false h mosi miso | inr code => inr code end.

(* polling: FF out, one byte in, looked at *)
Definition hpolls (m : hstate + N) (ms : list N) : hstate + N :=
  fold_left (fun m x => hstep_m m 255 (Some x)) ms m.

Lemma mon_transfer1 t x m : mon (Ev (Transfer [x]) (Bytes [m]) :: t) = hstep_m (mon t) x (Some (u8 m)).
Proof.
  rewrite mon_cons. destruct (mon t) as [h|code]; [|reflexivity]. cbn [hmon hevent fit hbytes hstep_m tl].
  destruct (hstep false h x (Some (u8 m))); reflexivity.
Qed.

Lemma mon_delay t us r : mon (Ev (DelayUs us) r :: t) = mon t.
Proof. rewrite mon_cons. destruct (mon t); reflexivity. Qed.

Lemma hpolls_app m a b : hpolls m (a ++ b) = hpolls (hpolls m a) b.
Proof. unfold hpolls. apply fold_left_app. Qed.

Lemma hpolls_inr code ms : hpolls (inr code) ms = inr code.
Proof. induction ms; [reflexivity|exact IHms]. Qed.

(* ---- the polling loop --------------------------------------------------------------- *)
Lemma card_bytes_ff_S c k :
  card_bytes c (FF (S k)) =
  let '(c1, m) := card_byte c 255 in let '(c2, ms) := card_bytes c1 (FF k) in (c2, m :: ms).
Proof. reflexivity. Qed.

(* the card's next k+1 bytes (under FF) are pre ++ [x]; none of pre stops the loop, x does *)
Lemma poll_sys stop err : forall (pre : list N) n c c' x t ct,
  (length pre <= n)%nat ->
  card_bytes c (FF (S (length pre))) = (c', pre ++ [x]) ->
  Forall (fun b => stop (u8 b) = false) pre -> stop (u8 x) = true ->
  exists t', POLL stop err n (sys c t ct) = (Ok (u8 x), sys c' t' ct) /\
             mon t' = hpolls (mon t) (map u8 (pre ++ [x])).
Proof.
  induction pre as [|b pre IH]; intros n c c' x t ct Hn Hc Hpre Hx.
  - cbn [length] in Hc. rewrite card_bytes_ff_S in Hc. destruct (card_byte c 255) as [c1 m] eqn:E1.
    cbn [FF repeat card_bytes app] in Hc. inversion Hc; subst. eexists. split.
    + destruct n; cbn [poll]; unfold bind; rewrite (read_byte_sys c t ct c' x E1); rewrite Hx; reflexivity.
    + rewrite mon_transfer1. reflexivity.
  - cbn [length] in Hc. rewrite card_bytes_ff_S in Hc. destruct (card_byte c 255) as [c1 m] eqn:E1.
    destruct (card_bytes c1 (FF (S (length pre)))) as [c2 ms] eqn:E2. cbn [app] in Hc. inversion Hc; subst.
    inversion Hpre; subst. cbn [length] in Hn. destruct n as [|n]; [lia|].
    destruct (IH n c1 c' x (Ev (DelayUs 10) (Bytes []) :: Ev (Transfer [255]) (Bytes [b]) :: t) ct
                ltac:(lia) E2 H2 Hx) as (t' & Ep & Em).
    exists t'. split.
    + cbn [poll]. unfold bind at 1. rewrite (read_byte_sys c t ct c1 b E1). rewrite H1.
      unfold bind. rewrite delay_sys. exact Ep.
    + rewrite Em, mon_delay, mon_transfer1. reflexivity.
Qed.

(* ---- the rule checker while polling ----------------------------------------------------- *)
Definition poll_mode (m : hmode) : Prop := m = HFree \/ m = HWTok true.

Lemma hstep_idle_ff h x : poll_mode (h_mode h) -> hstep false h 255 (Some x) = inl (hsee h (Some x)).
Proof. intros [H|H]; unfold hstep; rewrite H; reflexivity. Qed.

Lemma hsee_mode h x : h_mode (hsee h (Some x)) = h_mode h. Proof. reflexivity. Qed.

(* busy bytes, then FF: only the last byte seen changes *)
Lemma hpolls_busy k : forall h, poll_mode (h_mode h) ->
  hpolls (inl h) (map u8 (BUSY k ++ [255])) = inl (hsee h (Some 255)).
Proof.
  induction k as [|k IH]; intros h Hm; cbn [BUSY repeat app map hpolls fold_left hstep_m].
  - change (u8 255) with 255. apply hstep_idle_ff, Hm.
  - change (u8 0) with 0. rewrite (hstep_idle_ff h 0 Hm). fold (BUSY k).
    change (fold_left _ (map u8 (BUSY k ++ [255])) (inl (hsee h (Some 0)))) with (hpolls (inl (hsee h (Some 0))) (map u8 (BUSY k ++ [255]))).
    rewrite IH by exact Hm. reflexivity.
Qed.

(* waiting for R1: fill bytes (bit 7 set), then the response *)
Lemma hpolls_resp j : forall h cmd arg r, h_mode h = HResp cmd arg -> N.land r 128 = 0 -> r < 256 ->
  hpolls (inl h) (map u8 (FF j ++ [r])) = inl (h_r1 false (hsee h (Some r)) cmd arg r).
Proof.
  induction j as [|j IH]; intros h cmd arg r Hm Hr Hlt; cbn [FF repeat app map hpolls fold_left hstep_m].
  - rewrite u8_mod, N.mod_small by exact Hlt. unfold hstep. rewrite Hm. change (255 =? 255) with true. cbv iota beta.
    rewrite Hr. reflexivity.
  - change (u8 255) with 255. unfold hstep at 1. rewrite Hm. change (255 =? 255) with true. cbv iota beta.
    change (N.land 255 128 =? 0) with false. cbv iota. fold (FF j).
    change (fold_left _ (map u8 (FF j ++ [r])) (inl (hsee h (Some 255)))) with (hpolls (inl (hsee h (Some 255))) (map u8 (FF j ++ [r]))).
    rewrite (IH (hsee h (Some 255)) cmd arg r Hm Hr Hlt). reflexivity.
Qed.

(* waiting for a data token *)
Lemma hpolls_token j : forall h multi len, h_mode h = HRTok multi len ->
  hpolls (inl h) (map u8 (FF j ++ [254])) = inl (hset (hsee h (Some 254)) (HRData multi len len)).
Proof.
  induction j as [|j IH]; intros h multi len Hm; cbn [FF repeat app map hpolls fold_left hstep_m].
  - change (u8 254) with 254. unfold hstep. rewrite Hm. reflexivity.
  - change (u8 255) with 255. unfold hstep at 1. rewrite Hm. change (255 =? 255) with true. cbv iota beta. fold (FF j).
    change (fold_left _ (map u8 (FF j ++ [254])) (inl (hsee h (Some 255)))) with (hpolls (inl (hsee h (Some 255))) (map u8 (FF j ++ [254]))).
    rewrite (IH (hsee h (Some 255)) multi len Hm). reflexivity.
Qed.

(* ---- the three loops against the card ---------------------------------------------------- *)
Lemma card_bytes_ff_snoc c k : card_bytes c (FF (S k)) =
  let '(c1, m1) := card_bytes c (FF k) in let '(c2, m) := card_byte c1 255 in (c2, m1 ++ [m]).
Proof.
  replace (FF (S k)) with (FF k ++ [255]).
  - rewrite card_bytes_app. destruct (card_bytes c (FF k)) as [c1 m1]. rewrite card_bytes_one.
    destruct (card_byte c1 255). reflexivity.
  - unfold FF. clear. induction k; cbn; [reflexivity|]. f_equal. exact IHk.
Qed.

Lemma BUSY_length k : length (BUSY k) = k. Proof. apply repeat_length. Qed.
Lemma FF_length k : length (FF k) = k. Proof. apply repeat_length. Qed.

Lemma wait_not_busy_sys n k c t ct :
  (k <= n)%nat -> c_fbuf c = [] -> c_out c = BUSY k -> quiet_phase (c_phase c) ->
  exists t', wait_not_busy card card_spi n (sys c t ct) = (Ok tt, sys (set_out c [] (c_phase c)) t' ct) /\
             mon t' = hpolls (mon t) (map u8 (BUSY k ++ [255])).
Proof.
  intros Hk Hf Ho Hq.
  assert (Hc : card_bytes c (FF (S (length (BUSY k)))) = (set_out c [] (c_phase c), BUSY k ++ [255])).
  { rewrite card_bytes_ff_snoc. rewrite (card_bytes_queue (BUSY k) c []); [|exact Hf|rewrite app_nil_r; exact Ho].
    rewrite card_byte_quiet; [reflexivity|exact Hf|reflexivity|exact Hq]. }
  destruct (poll_sys (fun s => s =? 255) TimeoutWaitNotBusy (BUSY k) n c _ 255 t ct
              ltac:(rewrite BUSY_length; exact Hk) Hc) as (t' & Ep & Em).
  - unfold BUSY. clear. induction k; cbn; constructor; [reflexivity|assumption].
  - reflexivity.
  - exists t'. split; [|exact Em]. unfold wait_not_busy, bind. rewrite Ep. reflexivity.
Qed.

Lemma command_response_sys n j r rest c t ct cmd :
  (j <= n)%nat -> c_fbuf c = [] -> c_out c = FF j ++ r :: rest -> N.land r 128 = 0 -> r < 256 ->
  exists t', command_response card card_spi n cmd (sys c t ct) = (Ok r, sys (set_out c rest (c_phase c)) t' ct) /\
             mon t' = hpolls (mon t) (map u8 (FF j ++ [r])).
Proof.
  intros Hj Hf Ho Hr Hlt.
  assert (Hc : card_bytes c (FF (S (length (FF j)))) = (set_out c rest (c_phase c), FF j ++ [r])).
  { rewrite card_bytes_ff_snoc. rewrite (card_bytes_queue (FF j) c (r :: rest) Hf Ho).
    rewrite (card_byte_queued _ r rest); [reflexivity|exact Hf|reflexivity]. }
  destruct (poll_sys (fun x => N.land x 128 =? 0) (TimeoutCommand cmd) (FF j) n c _ r t ct
              ltac:(rewrite FF_length; exact Hj) Hc) as (t' & Ep & Em).
  - unfold FF. clear. induction j; cbn; constructor; [reflexivity|assumption].
  - rewrite u8_mod, N.mod_small by exact Hlt. rewrite Hr. reflexivity.
  - exists t'. split; [|exact Em]. unfold command_response.
    rewrite u8_mod, N.mod_small in Ep by exact Hlt. exact Ep.
Qed.

Lemma read_token_sys n j rest c t ct :
  (j <= n)%nat -> c_fbuf c = [] -> c_out c = FF j ++ 254 :: rest ->
  exists t', read_token card card_spi n (sys c t ct) = (Ok 254, sys (set_out c rest (c_phase c)) t' ct) /\
             mon t' = hpolls (mon t) (map u8 (FF j ++ [254])).
Proof.
  intros Hj Hf Ho.
  assert (Hc : card_bytes c (FF (S (length (FF j)))) = (set_out c rest (c_phase c), FF j ++ [254])).
  { rewrite card_bytes_ff_snoc. rewrite (card_bytes_queue (FF j) c (254 :: rest) Hf Ho).
    rewrite (card_byte_queued _ 254 rest); [reflexivity|exact Hf|reflexivity]. }
  destruct (poll_sys (fun s => negb (s =? 255)) TimeoutReadBuffer (FF j) n c _ 254 t ct
              ltac:(rewrite FF_length; exact Hj) Hc) as (t' & Ep & Em).
  - unfold FF. clear. induction j; cbn; constructor; [reflexivity|assumption].
  - reflexivity.
  - exists t'. split; [|exact Em]. exact Ep.
Qed.

(* ---- the rule checker: a command frame ------------------------------------------------- *)
Lemma hsee_none h : hsee h None = h. Proof. reflexivity. Qed.

Lemma mon_write t out ms : mon (Ev (Write out) (Bytes ms) :: t) =
  match mon t with inl h => hbytes false h out ms false | inr c => inr c end.
Proof. rewrite mon_cons. destruct (mon t); reflexivity. Qed.

(* a complete well-formed frame, started in the free state *)
Lemma hbytes_frame h cmd arg ms : cmd < 64 -> arg < 2 ^ 32 -> h_mode h = HFree ->
  hbytes false h (frame cmd arg) ms false = h_frame h HFree (frame cmd arg).
Proof.
  intros Hc Ha Hm. pose proof (frame_start cmd arg Hc) as Hs.
  assert (Hff : nth 0 (frame cmd arg) 0 <> 255).
  { intros E. rewrite E in Hs. discriminate. }
  destruct (frame_six cmd arg) as (b0 & b1 & b2 & b3 & b4 & b5 & E). rewrite E in *. cbn [nth] in Hs, Hff.
  cbn [hbytes]. unfold hstep at 1. rewrite Hm. cbv zeta. rewrite hsee_none.
  apply N.eqb_neq in Hff. rewrite Hff. unfold is_frame_start. apply N.eqb_eq in Hs. rewrite Hs.
  unfold start_frame. rewrite Hm. cbn [hset h_mode].
  (* bytes 2..5 accumulate, byte 6 completes *)
  cbn [hstep hbytes hset h_mode hsee app length Nat.eqb tl].
  change (h_frame (hset (hset (hset (hset (hset h (HFrame HFree [b0])) (HFrame HFree [b0; b1]))
               (HFrame HFree [b0; b1; b2])) (HFrame HFree [b0; b1; b2; b3]))
         (HFrame HFree [b0; b1; b2; b3; b4])) HFree [b0; b1; b2; b3; b4; b5])
    with (h_frame h HFree [b0; b1; b2; b3; b4; b5]).
  destruct (h_frame h HFree [b0; b1; b2; b3; b4; b5]); reflexivity.
Qed.

Lemma h_frame_free h cmd arg : cmd < 64 -> arg < 2 ^ 32 -> cmd <> 12 ->
  (cmd <> 0 -> h_last h = 255) -> stage_rule h cmd = 0 ->
  h_frame h HFree (frame cmd arg) = inl (hset_all h (HResp cmd arg) (h_stage h) (h_crc h) (h_app h)).
Proof.
  intros Hc Ha H12 Hlast Hst. destruct (frame_correct cmd arg Hc Ha) as (_ & _ & _ & _ & Hcmd & Harg & _).
  unfold h_frame. rewrite Hcmd, Harg.
  replace (crc7 (firstn 5 (frame cmd arg)) =? nth 5 (frame cmd arg) 0) with true
    by (symmetry; apply N.eqb_eq; reflexivity).
  cbn [negb in_multi_read]. apply N.eqb_neq in H12. rewrite H12.
  destruct (N.eqb_spec cmd 0) as [E0|N0]; cbn [negb andb].
  - rewrite Hst. reflexivity.
  - rewrite (Hlast N0). change (255 =? 255) with true. cbn [negb]. rewrite Hst. reflexivity.
Qed.

(* the clean card: queue empty, no frame in progress, waiting for a command *)
Definition clean (c : card) : card := set_fbuf (set_out c [] PIdle) [].

Lemma popn6_clean c : set_fbuf (popn 6 (set_out c [] PIdle)) [] = clean c.
Proof. reflexivity. Qed.

(* ---- card_command, for every command except CMD0 and CMD12 ------------------------------ *)
Lemma card_command_sys cmd arg k c t ct h c1 j r rest :
  cmd < 64 -> arg < 2 ^ 32 -> cmd <> 0 -> cmd <> 12 ->
  c_fbuf c = [] -> c_phase c = PIdle -> c_out c = BUSY k -> (k <= N.to_nat COMMAND_RETRIES)%nat ->
  exec (clean c) cmd arg = c1 ->
  c_fbuf c1 = [] -> c_out c1 = FF j ++ r :: rest -> (j <= N.to_nat COMMAND_RETRIES)%nat ->
  N.land r 128 = 0 -> r < 256 ->
  mon t = inl h -> h_mode h = HFree -> stage_rule h cmd = 0 ->
  exists t', card_command card card_spi cmd arg (sys c t ct) = (Ok r, sys (set_out c1 rest (c_phase c1)) t' ct) /\
    mon t' = inl (h_r1 false
                    (hsee (hset_all (hsee h (Some 255)) (HResp cmd arg) (h_stage h) (h_crc h) (h_app h)) (Some r))
                    cmd arg r).
Proof.
  intros Hc Ha H0 H12 Hf Hp Ho Hk He Hf1 Ho1 Hj Hr Hlt Hm Hmode Hst.
  unfold card_command.
  replace (negb (cmd =? CMD0) && negb (cmd =? CMD12)) with true.
  2:{ unfold CMD0, CMD12. apply N.eqb_neq in H0. apply N.eqb_neq in H12. rewrite H0, H12. reflexivity. }
  replace (cmd =? CMD12) with false by (symmetry; apply N.eqb_neq; exact H12).
  (* wait_not_busy *)
  destruct (wait_not_busy_sys (N.to_nat COMMAND_RETRIES) k c t ct Hk Hf Ho (or_introl Hp)) as (t1 & E1 & M1).
  unfold bind at 1. rewrite E1. rewrite Hp.
  (* the frame *)
  set (c0 := set_out c [] PIdle).
  assert (F : fst (card_bytes c0 (frame cmd arg)) = c1).
  { rewrite (card_frame c0 cmd arg Hc Ha eq_refl Hf). exact He. }
  destruct (card_bytes c0 (frame cmd arg)) as [cx ms] eqn:Eb. cbn [fst] in F. subst cx.
  unfold bind at 1. rewrite (write_bytes_sys c0 t1 ct (frame cmd arg) c1 ms Eb).
  unfold bind at 1. unfold ret at 1.
  (* the response *)
  destruct (command_response_sys (N.to_nat COMMAND_RETRIES) j r rest c1
              (Ev (Write (frame cmd arg)) (Bytes ms) :: t1) ct cmd Hj Hf1 Ho1 Hr Hlt) as (t2 & E2 & M2).
  exists t2. split; [exact E2|].
  rewrite M2, mon_write, M1, Hm. rewrite (hpolls_busy k h (or_introl Hmode)).
  rewrite (hbytes_frame _ cmd arg ms Hc Ha) by (rewrite hsee_mode; exact Hmode).
  rewrite (h_frame_free _ cmd arg Hc Ha H12) by (try reflexivity; exact Hst).
  erewrite hpolls_resp; [reflexivity|reflexivity|exact Hr|exact Hlt].
Qed.

(* ---- CMD0: no wait, any queue ------------------------------------------------------------ *)
Lemma card_command0_sys c t ct h c1 j r rest :
  c_fbuf c = [] -> c_phase c = PIdle ->
  exec (set_fbuf (popn 6 c) []) 0 0 = c1 ->
  c_fbuf c1 = [] -> c_out c1 = FF j ++ r :: rest -> (j <= N.to_nat COMMAND_RETRIES)%nat ->
  N.land r 128 = 0 -> r < 256 ->
  mon t = inl h -> h_mode h = HFree ->
  exists t', card_command card card_spi CMD0 0 (sys c t ct) = (Ok r, sys (set_out c1 rest (c_phase c1)) t' ct) /\
    mon t' = inl (h_r1 false (hsee (hset_all h (HResp 0 0) (h_stage h) (h_crc h) (h_app h)) (Some r)) 0 0 r).
Proof.
  intros Hf Hp He Hf1 Ho1 Hj Hr Hlt Hm Hmode.
  unfold card_command. change (negb (CMD0 =? CMD0) && negb (CMD0 =? CMD12)) with false. cbv iota.
  change (CMD0 =? CMD12) with false. cbv iota.
  assert (F : fst (card_bytes c (frame 0 0)) = c1).
  { rewrite (card_frame c 0 0 ltac:(reflexivity) ltac:(reflexivity) Hp Hf). exact He. }
  destruct (card_bytes c (frame 0 0)) as [cx ms] eqn:Eb. cbn [fst] in F. subst cx.
  unfold bind at 1. unfold ret at 1. unfold bind at 1. unfold CMD0.
  rewrite (write_bytes_sys c t ct (frame 0 0) c1 ms Eb).
  unfold bind at 1. unfold ret at 1.
  destruct (command_response_sys (N.to_nat COMMAND_RETRIES) j r rest c1
              (Ev (Write (frame 0 0)) (Bytes ms) :: t) ct 0 Hj Hf1 Ho1 Hr Hlt) as (t2 & E2 & M2).
  exists t2. split; [exact E2|].
  rewrite M2, mon_write, Hm.
  rewrite (hbytes_frame h 0 0 ms ltac:(reflexivity) ltac:(reflexivity) Hmode).
  rewrite (h_frame_free h 0 0 ltac:(reflexivity) ltac:(reflexivity) ltac:(discriminate) ltac:(congruence) ltac:(reflexivity)).
  erewrite hpolls_resp; [reflexivity|reflexivity|exact Hr|exact Hlt].
Qed.

(* ---- canonical card states ------------------------------------------------------------------ *)
Definition mkc (kd : kind) (csd : list N) (tim : timing) (mem : N -> list N)
    (idle crc app : bool) (il : nat) (rd : bool) (tk : N) (out : list N) (ph : phase) : card :=
  {| k_kind := kd; k_csd := csd; k_tim := tim; c_mem := mem; c_idle := idle; c_crc := crc; c_app := app;
     c_init_left := il; c_reading := rd; c_tick := tk; c_fbuf := []; c_out := out; c_phase := ph |}.

Definition mkh (mode : hmode) (last : N) (stage : istage) (crc app : bool) : hstate :=
  {| h_mode := mode; h_last := last; h_stage := stage; h_crc := crc; h_app := app |}.

Lemma le8_RC j : (j <= 8)%nat -> (j <= N.to_nat COMMAND_RETRIES)%nat.
Proof. unfold COMMAND_RETRIES. lia. Qed.
