(* Concrete instances for C13_recovers: the hypotheses are satisfiable by a card in the middle of a
   write data block (with the exact effect on its memory, CRC on and off); the bound on
   acquire_retries is sharp; and two card states outside the theorem's hypotheses (a half-received
   command frame the card will not CRC-check / at a card that is streaming) from which recovery FAILS. *)
From Coq Require Import NArith List Bool Lia.
From SdSd Require Import Poly CrcModel CrcProofs SdModel SdSpec SdBound SdSafety SdCapacity SdTheorems SdCardLemmas SdSystem SdInit SdTransfer SdMulti SdLegal SdRecover.
Import ListNotations.
Open Scope N_scope.

(* a 32-block version-1 card, constant timing (N_CR = ncr fill bytes), memory filled with `fill` *)
Definition ex_csd : list N := [0;38;0;50;95;89;128;1;237;216;79;255;210;64;64;91].
Definition ex_tim (ncr : nat) : timing :=
  {| t_ncr := fun _ => ncr; t_nac := fun _ => 2%nat; t_busy_w := fun _ => 3%nat;
     t_busy_c := fun _ => 1%nat; t_init := fun _ => 2%nat |}.
Definition ex_card (ncr : nat) (fill : N) (idle crc reading : bool) (fb : list N) (ph : phase) : card :=
  {| k_kind := V1SC; k_csd := ex_csd; k_tim := ex_tim ncr; c_mem := fun _ => repeat fill 512; c_idle := idle; c_crc := crc;
     c_app := false; c_init_left := O; c_reading := reading; c_tick := 7; c_fbuf := fb; c_out := []; c_phase := ph |}.
(* the driver believes the card is SDHC (wrong); the earlier trace is not a legal conversation *)
Definition ex_st (c : card) : st card := {| dev := c; tr := [Ev (Write [254; 1; 2; 3]) Fail]; ctype := Some SDHC |}.
Definition ex_opts (crc : bool) (retries : N) : opts := {| use_crc := crc; acquire_retries := retries |}.

Lemma ex_tim_legal ncr : (ncr <= 8)%nat -> legal_timing (ex_tim ncr).
Proof. intros H k. cbn. unfold READ_RETRIES, WRITE_RETRIES, COMMAND_RETRIES. repeat split; lia. Qed.
Lemma ex_addressable : addressable V1SC ex_csd. Proof. vm_compute. discriminate. Qed.
Lemma ex_is_csd : is_csd ex_csd. Proof. split; [reflexivity|]. unfold bytes. repeat constructor. Qed.
Lemma ex_struct : CSD_STRUCTURE ex_csd = 0 \/ CSD_STRUCTURE ex_csd = 1. Proof. left. vm_compute. reflexivity. Qed.
Lemma repeat_block x : x < 256 -> block_ok (repeat x 512).
Proof.
  intros H. split; [apply repeat_length|]. unfold bytes. apply Forall_forall. intros y Hy.
  apply repeat_spec in Hy. subst. exact H.
Qed.
Lemma ex_mem_ok x : x < 256 -> mem_ok (fun _ => repeat x 512).
Proof. intros H b. apply repeat_block, H. Qed.

(* ---- inside a write data block: 100 bytes of block 3 received, 414 (412 + CRC field) to come ---- *)
Definition mid_block (crc : bool) : card := ex_card 1 0 false crc false [] (PRecv false 3 (repeat 7 100) 414).

Lemma mid_block_hyps crc :
  frame_ok (mid_block crc) /\ recv_wf (mid_block crc) /\ card_inv (mid_block crc) /\
  mem_ok (c_mem (mid_block crc)) /\ retries_needed (mid_block crc) = 1.
Proof.
  assert (W : recv_wf (mid_block crc)).
  { unfold recv_wf, mid_block, ex_card. cbn [c_phase c_out c_fbuf]. rewrite repeat_length. repeat split; try lia.
    apply Forall_forall. intros y Hy. apply repeat_spec in Hy. subst. reflexivity. }
  split; [left; reflexivity|]. split; [exact W|]. split; [split; [cbn; lia|exact W]|].
  split; [apply ex_mem_ok; reflexivity|reflexivity].
Qed.

(* CRC checking on: the completed block fails its CRC-16, the card's memory is unchanged *)
Lemma mid_block_crc_on : forall b, mem_flushed (mid_block true) b = repeat 0 512.
Proof. intros b. vm_compute. reflexivity. Qed.
(* CRC checking off: block 3 becomes the 100 bytes received, the CMD0 frame, and 406 FF *)
Lemma mid_block_crc_off :
  mem_flushed (mid_block false) = upd_mem (fun _ => repeat 0 512) 3 (repeat 7 100 ++ [64;0;0;0;0;149] ++ repeat 255 406).
Proof. vm_compute. reflexivity. Qed.

(* the theorem applied: read block 3 back after the interrupted write *)
Example recovers_mid_block_crc_on :
  exists s1 s', api card card_spi (ex_opts true 1) CMarkUninit (ex_st (mid_block true)) = (Ok VUnit, s1) /\
    api card card_spi (ex_opts true 1) (CRead 1 3) s1 = (Ok (VBlocks [repeat 0 512]), s') /\
    ctype s' = Some SD1 /\ c_mem (dev s') 3 = repeat 0 512.
Proof.
  destruct (mid_block_hyps true) as (H1 & H2 & _ & H4 & H5).
  destruct (recovers_full (ex_opts true 1) V1SC ex_csd (ex_tim 1) (ex_tim_legal 1 ltac:(lia)) ex_addressable ex_is_csd ex_struct
              (ex_st (mid_block true)) (CRead 1 3) eq_refl eq_refl eq_refl H1 H2 H4)
    as (s1 & s' & sref & E1 & E2 & [V1 V2] & R).
  - cbn [dev ex_st]. rewrite H5. cbn. lia.
  - split; [vm_compute; reflexivity|exact I].
  - discriminate.
  - exists s1, s'. split; [exact E1|]. split.
    + rewrite E2. unfold spec_outcome. cbn [rejected off_end]. replace (spec_capacity_blocks ex_csd) with 32 by (vm_compute; reflexivity).
      change (3 <? 32) with true. change (32 <? 3 + N.of_nat 1) with false.
      cbn [negb andb spec_step snd nseq map]. rewrite mid_block_crc_on. reflexivity.
    + destruct R as (il & tk & k & t & last & -> & _). rewrite V1, V2. cbn [ctype dev sys c_mem mkc type_of]. split; [reflexivity|].
      unfold spec_after. cbn [rejected off_end]. replace (spec_capacity_blocks ex_csd) with 32 by (vm_compute; reflexivity).
      change (3 <? 32) with true. change (32 <? 3 + N.of_nat 1) with false. cbn [negb andb spec_step fst]. apply mid_block_crc_on.
Qed.

Example recovers_mid_block_crc_off :
  fst (api card card_spi (ex_opts false 1) (CRead 1 3) {| dev := mid_block false; tr := []; ctype := None |}) =
  Ok (VBlocks [repeat 7 100 ++ [64;0;0;0;0;149] ++ repeat 255 406]).
Proof. vm_compute. reflexivity. Qed.

(* the bound is sharp: acquire_retries = 0 and the same card state - the card is not found *)
Example no_retry_fails crc :
  fst (api card card_spi (ex_opts crc 0) (CRead 1 3) {| dev := mid_block crc; tr := [Ev (Write [254; 1; 2; 3]) Fail]; ctype := None |}) = Err CardNotFound.
Proof.
  destruct (mid_block_hyps crc) as (H1 & H2 & _ & _ & H5).
  exact (needs_retry (ex_opts crc 0) V1SC ex_csd (ex_tim 1) (ex_st (mid_block crc)) (CRead 1 3) eq_refl eq_refl eq_refl H1 H2 H5 eq_refl
           ltac:(discriminate) ltac:(discriminate)).
Qed.

(* ---- REFUTED outside the hypotheses, 1: a half-received frame that is not CRC-checked -------------
   The card is idle (after an earlier CMD0), CRC checking off, and has received 7B 00 00 00 01 - the
   first five bytes of CMD59 (arg 1) - when the host stopped.  The first byte (40) of the driver's
   CMD0 frame completes that frame; with CRC checking off the card executes CMD59: CRC checking is
   now ON, and the answer is 01 (idle).  With N_CR = 8 the answer is still pending when the driver
   polls, the driver takes it for the answer to CMD0 and goes on (use_crc = false: no CMD59 of its
   own).  Initialisation completes; every later block write is rejected by the card (data CRC FF FF). *)
Definition half_cmd59 : card := ex_card 8 0 true false false [123;0;0;0;1] PIdle.

Theorem recovers_refuted_unchecked_frame :
  exists (o : opts) (kd : kind) (csd : list N) (tim : timing) (s : st card) (c : api_call),
    legal_timing tim /\ addressable kd csd /\ is_csd csd /\ (CSD_STRUCTURE csd = 0 \/ CSD_STRUCTURE csd = 1) /\
    k_kind (dev s) = kd /\ k_csd (dev s) = csd /\ k_tim (dev s) = tim /\
    card_inv (dev s) /\ c_phase (dev s) = PIdle /\ c_out (dev s) = [] /\ mem_ok (c_mem (dev s)) /\
    50 <= acquire_retries o /\ api_ok c /\ c <> CMarkUninit /\
    exists s1, api card card_spi o CMarkUninit s = (Ok VUnit, s1) /\
               fst (api card card_spi o c s1) = Err WriteError /\
               spec_outcome kd csd (mem_flushed (dev s)) c = Ok VUnit.
Proof.
  exists (ex_opts false 50), V1SC, ex_csd, (ex_tim 8), (ex_st half_cmd59), (CWrite [repeat 7 512] 0).
  split; [apply ex_tim_legal; lia|]. split; [exact ex_addressable|]. split; [exact ex_is_csd|]. split; [exact ex_struct|].
  repeat (split; [reflexivity|]).
  split; [split; [cbn; lia|exact I]|]. repeat (split; [reflexivity|]).
  split; [apply ex_mem_ok; reflexivity|]. split; [cbn; lia|].
  split; [split; [vm_compute; reflexivity|constructor; [apply repeat_block; reflexivity|constructor]]|].
  split; [discriminate|].
  eexists. split; [reflexivity|]. split; vm_compute; reflexivity.
Qed.

(* ---- REFUTED outside the hypotheses, 2: a half-received frame at a card that is streaming ---------
   The card is in a multiple-block read (CRC checking ON) and has received 4C, the first byte of a
   CMD12 frame, when the host stopped.  The driver's 40 00 00 00 00 complete that frame, the card
   rejects it (CRC error, answer 08, N_CR = 0) - the answer is clocked out unseen under the last
   byte (95) of the frame, and the card goes on streaming.  The driver polls and reads the data
   stream: FF FF FE 01 ... - a data byte 01 is taken for the answer to CMD0.  The card is still
   streaming, every later command is ignored, initialisation fails with TimeoutCommand(8). *)
Definition half_cmd12_streaming : card := ex_card 0 1 false true true [76] (PNextBlock 0).

Theorem recovers_refuted_streaming_frame :
  exists (o : opts) (kd : kind) (csd : list N) (tim : timing) (s : st card) (c : api_call),
    legal_timing tim /\ addressable kd csd /\ is_csd csd /\ (CSD_STRUCTURE csd = 0 \/ CSD_STRUCTURE csd = 1) /\
    k_kind (dev s) = kd /\ k_csd (dev s) = csd /\ k_tim (dev s) = tim /\
    card_inv (dev s) /\ frame_checked (dev s) /\ mem_ok (c_mem (dev s)) /\
    50 <= acquire_retries o /\ api_ok c /\ c <> CMarkUninit /\
    exists s1, api card card_spi o CMarkUninit s = (Ok VUnit, s1) /\
               fst (api card card_spi o c s1) = Err (TimeoutCommand 8) /\
               spec_outcome kd csd (mem_flushed (dev s)) c = Ok (VBlocks [repeat 1 512]).
Proof.
  exists (ex_opts true 50), V1SC, ex_csd, (ex_tim 0), (ex_st half_cmd12_streaming), (CRead 1 3).
  split; [apply ex_tim_legal; lia|]. split; [exact ex_addressable|]. split; [exact ex_is_csd|]. split; [exact ex_struct|].
  repeat (split; [reflexivity|]).
  split; [split; [cbn; lia|exact I]|]. split; [left; reflexivity|].
  split; [apply ex_mem_ok; reflexivity|]. split; [cbn; lia|].
  split; [split; [vm_compute; reflexivity|exact I]|].
  split; [discriminate|].
  eexists. split; [reflexivity|]. split; vm_compute; reflexivity.
Qed.
