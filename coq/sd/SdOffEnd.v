(* PROOFS, part 8b: multiple-block transfers that start inside the card and run off its end.
   The card stops sending (reads) / answers "write error" (writes); the driver reports the error
   and ends the transfer with CMD12; the conversation stays legal. *)
From Coq Require Import NArith Arith List Lia Bool ZArith.
From SdSd Require Import Poly CrcModel CrcProofs SdModel SdSpec SdBound SdSafety SdCapacity SdCardLemmas SdSystem SdInit SdTransfer SdMulti.
Import ListNotations.
Open Scope N_scope.

(* ---- a polling loop that never sees what it waits for --------------------------------------- *)
Lemma poll_timeout_sys stop err c : card_byte c 255 = (c, 255) -> stop (u8 255) = false ->
  forall n t ct,
  exists t', POLL stop err n (sys c t ct) = (Err err, sys c t' ct) /\
             mon t' = hpolls (mon t) (repeat 255 (S n)).
Proof.
  intros Hc Hs. induction n as [|n IH]; intros t ct.
  - eexists. split.
    + cbn [poll]. unfold bind. rewrite (read_byte_sys c t ct c 255 Hc). rewrite Hs. reflexivity.
    + rewrite mon_transfer1. reflexivity.
  - destruct (IH (Ev (DelayUs 10) (Bytes []) :: Ev (Transfer [255]) (Bytes [255]) :: t) ct) as (t' & E & M).
    exists t'. split.
    + cbn [poll]. unfold bind at 1. rewrite (read_byte_sys c t ct c 255 Hc). rewrite Hs.
      unfold bind. rewrite delay_sys. exact E.
    + rewrite M, mon_delay, mon_transfer1. reflexivity.
Qed.

(* the host waiting for a data token sees only FF: it keeps waiting *)
Lemma hpolls_token_wait n : forall last multi len st crc ap,
  exists last', hpolls (inl (mkh (HRTok multi len) last st crc ap)) (repeat 255 n) =
                inl (mkh (HRTok multi len) last' st crc ap).
Proof.
  induction n as [|n IH]; intros last multi len st crc ap.
  - exists last. reflexivity.
  - cbn [repeat hpolls fold_left hstep_m]. unfold hstep. cbn [h_mode mkh]. change (255 =? 255) with true. cbv iota beta zeta.
    cbn [hsee mkh h_mode h_last h_stage h_crc h_app].
    destruct (IH 255 multi len st crc ap) as [last' E]. exists last'. exact E.
Qed.

(* a streaming card that has run past its last block sends nothing *)
Lemma card_byte_past_end c b : c_fbuf c = [] -> c_out c = [] -> c_phase c = PNextBlock b -> nblocks c <= b ->
  card_byte c 255 = (c, 255).
Proof.
  intros Hf Ho Hp Hb. unfold card_byte. rewrite Ho, Hp.
  replace (b <? nblocks c) with false by (symmetry; apply N.ltb_ge; exact Hb).
  rewrite feed_frame_ff by exact Hf. reflexivity.
Qed.

(* a frame started while the host is inside a multiple-block write *)
Lemma hbytes_frame_wtok h cmd arg ms : cmd < 64 -> arg < 2 ^ 32 -> h_mode h = HWTok true ->
  hbytes false h (frame cmd arg) ms false = h_frame h (HWTok true) (frame cmd arg).
Proof.
  intros Hc Ha Hm. pose proof (frame_start cmd arg Hc) as Hs.
  destruct (frame_six cmd arg) as (b0 & b1 & b2 & b3 & b4 & b5 & E). rewrite E in *. cbn [nth] in Hs.
  assert (N255 : (b0 =? 255) = false) by (apply N.eqb_neq; intros X; rewrite X in Hs; discriminate).
  assert (N254 : (b0 =? 254) = false) by (apply N.eqb_neq; intros X; rewrite X in Hs; discriminate).
  assert (N252 : (b0 =? 252) = false) by (apply N.eqb_neq; intros X; rewrite X in Hs; discriminate).
  assert (N253 : (b0 =? 253) = false) by (apply N.eqb_neq; intros X; rewrite X in Hs; discriminate).
  cbn [hbytes]. unfold hstep at 1. rewrite Hm. cbv zeta. rewrite hsee_none.
  rewrite N255, N254, N252, N253. cbn [andb orb]. unfold is_frame_start. apply N.eqb_eq in Hs. rewrite Hs.
  unfold start_frame. rewrite Hm. cbn [hset h_mode].
  cbn [hstep hbytes hset h_mode hsee app length Nat.eqb tl].
  change (h_frame (hset (hset (hset (hset (hset h (HFrame (HWTok true) [b0])) (HFrame (HWTok true) [b0; b1]))
               (HFrame (HWTok true) [b0; b1; b2])) (HFrame (HWTok true) [b0; b1; b2; b3]))
         (HFrame (HWTok true) [b0; b1; b2; b3; b4])) (HWTok true) [b0; b1; b2; b3; b4; b5])
    with (h_frame h (HWTok true) [b0; b1; b2; b3; b4; b5]).
  destruct (h_frame h (HWTok true) [b0; b1; b2; b3; b4; b5]); reflexivity.
Qed.

(* six frame bytes arriving at a card that waits for a write token, nothing queued *)
Lemma frame_received_waittok c b0 b1 b2 b3 b4 b5 blk :
  c_phase c = PWaitTok true blk -> c_out c = [] -> c_fbuf c = [] -> N.land b0 192 = 64 ->
  fst (card_bytes c [b0;b1;b2;b3;b4;b5]) = on_frame c [b0;b1;b2;b3;b4;b5].
Proof.
  intros Hp Ho Hf H0.
  assert (N254 : (b0 =? 254) = false) by (apply N.eqb_neq; intros X; rewrite X in H0; discriminate).
  assert (N252 : (b0 =? 252) = false) by (apply N.eqb_neq; intros X; rewrite X in H0; discriminate).
  assert (N253 : (b0 =? 253) = false) by (apply N.eqb_neq; intros X; rewrite X in H0; discriminate).
  assert (Step : forall f x, f <> [] -> Nat.eqb (length (f ++ [x])) 6 = false ->
            card_byte (set_fbuf c f) x = (set_fbuf c (f ++ [x]), 255)).
  { intros f x Hne Hl. unfold card_byte. cbn [c_out c_phase set_fbuf c_fbuf]. rewrite Ho, Hp.
    destruct f; [congruence|]. unfold feed_frame. cbn [c_fbuf set_fbuf]. rewrite Hl. reflexivity. }
  cbn [card_bytes]. unfold card_byte at 1. rewrite Ho, Hp, Hf. rewrite N254, N252, N253. cbn [andb].
  unfold feed_frame at 1. rewrite Hf. apply N.eqb_eq in H0. rewrite H0.
  rewrite (Step [b0] b1 ltac:(discriminate) eq_refl). cbn [app].
  rewrite (Step [b0;b1] b2 ltac:(discriminate) eq_refl). cbn [app].
  rewrite (Step [b0;b1;b2] b3 ltac:(discriminate) eq_refl). cbn [app].
  rewrite (Step [b0;b1;b2;b3] b4 ltac:(discriminate) eq_refl). cbn [app].
  unfold card_byte. cbn [c_out c_phase set_fbuf c_fbuf]. rewrite Ho, Hp. unfold feed_frame. cbn [c_fbuf set_fbuf app length Nat.eqb fst].
  reflexivity.
Qed.

Section OffEnd.
  Variable o : opts.
  Variable kd : kind.
  Variable csd : list N.
  Variable tim : timing.
  Hypothesis Htim : legal_timing tim.

  Notation MKC := (mkc kd csd tim).
  Notation crc := (use_crc o).
  Notation NB := (spec_capacity_blocks csd).
  Hypothesis Haddr : addressable kd csd.

  (* ---- reads ------------------------------------------------------------------------------------ *)
  Lemma read_data_timeout_sys mem il tk b t ct last : NB <= b ->
    mon t = inl (mkh (HRTok true 514) last IReady crc false) ->
    exists t' last',
      read_data card card_spi o 512 (sys (MKC mem false crc false il true tk [] (PNextBlock b)) t ct) =
        (Err TimeoutReadBuffer, sys (MKC mem false crc false il true tk [] (PNextBlock b)) t' ct) /\
      mon t' = inl (mkh (HRTok true 514) last' IReady crc false).
  Proof.
    intros Hb Hm. set (c := MKC mem false crc false il true tk [] (PNextBlock b)).
    assert (Hc : card_byte c 255 = (c, 255)).
    { apply (card_byte_past_end c b); try reflexivity. unfold nblocks. exact Hb. }
    destruct (poll_timeout_sys (fun s => negb (s =? 255)) TimeoutReadBuffer c Hc eq_refl (N.to_nat READ_RETRIES) t ct)
      as (t' & E & M).
    destruct (hpolls_token_wait (S (N.to_nat READ_RETRIES)) last true 514%nat IReady crc false) as [last' EL].
    exists t', last'. split.
    - unfold read_data, read_token, bind. rewrite E. reflexivity.
    - rewrite M, Hm. exact EL.
  Qed.

  (* blocks up to the end of the card arrive; then the card is silent and the read times out *)
  Lemma read_blocks_off_sys mem il ct : (forall b, length (mem b) = 512%nat /\ bytes (mem b)) ->
    forall n b tk t last, b <= NB -> NB < b + N.of_nat n ->
    mon t = inl (mkh (HRTok true 514) last IReady crc false) ->
    exists t' last' tk' b',
      read_blocks card card_spi o n (sys (MKC mem false crc false il true tk [] (PNextBlock b)) t ct) =
        (Err TimeoutReadBuffer, sys (MKC mem false crc false il true tk' [] (PNextBlock b')) t' ct) /\
      mon t' = inl (mkh (HRTok true 514) last' IReady crc false).
  Proof.
    intros Hmem. induction n as [|n IH]; intros b tk t last Hb Hn Hm; [cbn in Hn; lia|].
    destruct (N.eq_dec b NB) as [->|Hne].
    - destruct (read_data_timeout_sys mem il tk NB t ct last ltac:(lia) Hm) as (t' & last' & E & M).
      exists t', last', tk, NB. split; [|exact M]. cbn [read_blocks]. unfold bind at 1. rewrite E. reflexivity.
    - destruct (read_blocks_sys o kd csd tim Htim mem il ct Hmem 1 b tk t last ltac:(lia) Hm) as (t1 & last1 & E1 & M1).
      cbn [read_blocks nseq map] in E1.
      assert (E1' : read_data card card_spi o 512 (sys (MKC mem false crc false il true tk [] (PNextBlock b)) t ct) =
                    (Ok (mem b), sys (MKC mem false crc false il true (tk + N.of_nat 1) [] (PNextBlock (b + N.of_nat 1))) t1 ct)).
      { unfold bind in E1. destruct (read_data card card_spi o 512 _) as [[d|e|] s1]; try discriminate.
        unfold ret in E1. inversion E1; subst. reflexivity. }
      destruct (IH (b + N.of_nat 1) (tk + N.of_nat 1) t1 last1 ltac:(lia) ltac:(lia) M1) as (t2 & last2 & tk2 & b2 & E2 & M2).
      exists t2, last2, tk2, b2. split; [|exact M2].
      cbn [read_blocks]. unfold bind at 1. rewrite E1'. unfold bind at 1. rewrite E2. reflexivity.
  Qed.

  Lemma multi_read_off_sys mem il tk k t last idx n :
    (forall b, length (mem b) = 512%nat /\ bytes (mem b)) ->
    (k <= N.to_nat COMMAND_RETRIES)%nat -> idx < NB -> NB < idx + N.of_nat n ->
    mon t = inl (mkh HFree last IReady crc false) ->
    exists t' tk' k',
      read_inner card card_spi o n idx (sys (MKC mem false crc false il false tk (BUSY k) PIdle) t (Some (type_of kd))) =
        (Err TimeoutReadBuffer, sys (MKC mem false crc false il false tk' (BUSY k') PIdle) t' (Some (type_of kd))) /\
      (k' <= N.to_nat COMMAND_RETRIES)%nat /\
      mon t' = inl (mkh HFree 0 IReady crc false).
  Proof.
    intros Hmem Hk Hi Hn Hm.
    assert (Hn1 : n <> 1%nat) by (intros ->; lia).
    unfold read_inner. unfold bind at 1.
    rewrite (start_idx_sys kd csd Haddr _ t idx ReadError Hi).
    pose proof (addr_lt kd csd Haddr idx Hi) as Ha.
    destruct (card_command_sys 18 (addr_of kd idx) k (MKC mem false crc false il false tk (BUSY k) PIdle) t (Some (type_of kd))
                (mkh HFree last IReady crc false)
                (MKC mem false crc false il true (tk + 1) (FF (t_ncr tim tk) ++ [0]) (PNextBlock idx))
                (t_ncr tim tk) 0 []) as (t1 & E1 & M1);
      try reflexivity; try assumption; try discriminate; try apply (ncr_ok tim Htim).
    { unfold exec. cbn -[FF BUSY t_ncr t_nac decode_addr data_packet].
      rewrite (decode_addr_ok kd csd) by (try reflexivity; exact Hi). reflexivity. }
    change (sys (set_out _ _ _) t1 (Some (type_of kd)))
      with (sys (MKC mem false crc false il true (tk + 1) [] (PNextBlock idx)) t1 (Some (type_of kd))) in E1.
    assert (M1' : mon t1 = inl (mkh (HRTok true 514) 0 IReady crc false)) by (rewrite M1; reflexivity).
    destruct (read_blocks_off_sys mem il (Some (type_of kd)) Hmem n idx (tk + 1) t1 0 ltac:(lia) Hn M1')
      as (t2 & last2 & tk2 & b2 & E2 & M2).
    destruct (cmd12_sys o kd csd tim Htim mem il tk2 b2 t2 (Some (type_of kd)) last2 M2)
      as (t3 & tk3 & k3 & E3 & Hk3 & M3).
    exists t3, tk3, k3. split; [|split; [exact Hk3|exact M3]].
    assert (Body : bind card (card_command card card_spi CMD18 (addr_of kd idx)) (fun r =>
                     if negb (r =? 0) then fail card ReadError else
                     bind card (attempt card (read_blocks card card_spi o n)) (fun result =>
                     bind card (attempt card (card_command card card_spi CMD12 0)) (fun stopped =>
                     first_error card result stopped)))
                     (sys (MKC mem false crc false il false tk (BUSY k) PIdle) t (Some (type_of kd))) =
                   (Err TimeoutReadBuffer, sys (MKC mem false crc false il false tk3 (BUSY k3) PIdle) t3 (Some (type_of kd)))).
    { unfold CMD18. unfold bind at 1. rewrite E1. cbn [negb N.eqb].
      unfold bind at 1, attempt at 1. rewrite E2. unfold bind at 1, attempt at 1. rewrite E3. reflexivity. }
    destruct n as [|[|n]]; [exact Body|congruence|exact Body].
  Qed.

  (* ---- writes ------------------------------------------------------------------------------------- *)
  Lemma on_block_past_end mem il tk blk (buf : list N) x y :
    length buf = 512%nat -> NB <= blk -> (crc = true -> be16_val x y = crc16 buf) ->
    on_block (MKC mem false crc false il false tk [] (PRecv true blk (buf ++ [x]) 1)) true blk (buf ++ [x; y]) =
    MKC mem false crc false il false (tk + 1) [237] (PWaitTok true blk).
  Proof.
    intros Hl Hb Hc. unfold on_block.
    rewrite (firstn_app_exact buf [x; y] 512 Hl).
    assert (N1 : nth 512 (buf ++ [x; y]) 0 = x) by (rewrite app_nth2 by lia; rewrite Hl; reflexivity).
    assert (N2 : nth 513 (buf ++ [x; y]) 0 = y) by (rewrite app_nth2 by lia; rewrite Hl; reflexivity).
    rewrite N1, N2. cbn [c_crc mkc].
    replace (crc && negb (crc16 buf =? be16_val x y)) with false.
    2:{ destruct crc; [|reflexivity]. rewrite (Hc eq_refl), N.eqb_refl. reflexivity. }
    unfold nblocks. cbn [k_csd mkc].
    replace (blk <? NB) with false by (symmetry; apply N.ltb_ge; exact Hb). cbn [negb]. reflexivity.
  Qed.

  Lemma write_data_rejected_sys mem il tk blk buf t ct :
    length buf = 512%nat -> NB <= blk ->
    mon t = inl (mkh (HWTok true) 255 IReady crc false) ->
    exists t', write_data card card_spi o WRITE_MULTIPLE_TOKEN buf
                 (sys (MKC mem false crc false il false tk [] (PWaitTok true blk)) t ct) =
               (Err WriteError, sys (MKC mem false crc false il false (tk + 1) [] (PWaitTok true blk)) t' ct) /\
             mon t' = inl (mkh (HWTok true) 237 IReady crc false).
  Proof.
    intros Hl Hb Hm. unfold write_data.
    set (c0 := MKC mem false crc false il false tk [] (PWaitTok true blk)).
    set (c1 := MKC mem false crc false il false tk [] (PRecv true blk [] 514)).
    assert (T : card_byte c0 WRITE_MULTIPLE_TOKEN = (c1, 255)) by reflexivity.
    unfold bind at 1. rewrite (write_byte_sys c0 t ct WRITE_MULTIPLE_TOKEN c1 255 T).
    assert (B1 : card_bytes c1 buf = (MKC mem false crc false il false tk [] (PRecv true blk buf 2), FF 512)).
    { rewrite (card_recv_part buf c1 true blk [] 514 eq_refl eq_refl ltac:(lia)). rewrite Hl. reflexivity. }
    unfold bind at 1. rewrite (write_bytes_sys c1 _ ct buf _ _ B1).
    fold (crc_field o buf). destruct (crc_field_two o buf) as (x & y & Ecf & Hcrc). rewrite Ecf.
    set (c2 := MKC mem false crc false il false tk [] (PRecv true blk buf 2)).
    assert (B2 : card_bytes c2 [x; y] = (MKC mem false crc false il false (tk + 1) [237] (PWaitTok true blk), [255; 255])).
    { cbn [card_bytes].
      assert (E1 : card_byte c2 x = (MKC mem false crc false il false tk [] (PRecv true blk (buf ++ [x]) 1), 255)) by reflexivity.
      rewrite E1.
      rewrite (card_recv_last (MKC mem false crc false il false tk [] (PRecv true blk (buf ++ [x]) 1)) true blk (buf ++ [x]) y eq_refl eq_refl).
      rewrite <- app_assoc. cbn [app]. rewrite (on_block_past_end mem il tk blk buf x y Hl Hb Hcrc). reflexivity. }
    unfold bind at 1. rewrite (write_bytes_sys c2 _ ct [x; y] _ _ B2).
    set (c3 := MKC mem false crc false il false (tk + 1) [237] (PWaitTok true blk)).
    assert (R : card_byte c3 255 = (MKC mem false crc false il false (tk + 1) [] (PWaitTok true blk), 237)).
    { exact (card_byte_queued c3 237 [] eq_refl eq_refl). }
    unfold bind at 1. rewrite (read_byte_sys c3 _ ct _ 237 R).
    change (negb (N.land (u8 237) DATA_RES_MASK =? DATA_RES_ACCEPTED)) with true. cbv iota.
    eexists. split; [reflexivity|].
    rewrite mon_transfer1, !mon_write, mon_transfer1, Hm.
    assert (HT : hstep_m (inl (mkh (HWTok true) 255 IReady crc false)) WRITE_MULTIPLE_TOKEN (Some (u8 255)) =
                 inl (mkh (HWData true [] 514) 255 IReady crc false)) by reflexivity.
    rewrite HT.
    rewrite (hbytes_wdata_part buf (FF 512) true [] 514 255 IReady crc false ltac:(lia)).
    rewrite app_nil_r, Hl. change (514 - 512)%nat with 2%nat.
    rewrite (hbytes_wdata_end buf x y [255; 255] true 255 IReady crc false Hl Hcrc).
    reflexivity.
  Qed.

  Definition prefix_len (b : N) : nat := N.to_nat (NB - b).

  Lemma write_blocks_off_sys il ct : forall blocks mem b tk kb t last,
    Forall (fun x => length x = 512%nat) blocks -> b <= NB -> NB < b + N.of_nat (length blocks) ->
    (kb <= N.to_nat WRITE_RETRIES)%nat ->
    mon t = inl (mkh (HWTok true) last IReady crc false) ->
    exists t' tk' last',
      write_blocks card card_spi o blocks (sys (MKC mem false crc false il false tk (BUSY kb) (PWaitTok true b)) t ct) =
        (Err WriteError, sys (MKC (write_mem mem b (firstn (prefix_len b) blocks)) false crc false il false tk' []
                                 (PWaitTok true NB)) t' ct) /\
      mon t' = inl (mkh (HWTok true) last' IReady crc false).
  Proof.
    induction blocks as [|x xs IH]; intros mem b tk kb t last Hall Hb Hn Hkb Hm; [cbn in Hn; lia|].
    inversion Hall as [|? ? Hx Hxs]; subst. cbn [length] in Hn.
    destruct (wait_not_busy_sys (N.to_nat WRITE_RETRIES) kb (MKC mem false crc false il false tk (BUSY kb) (PWaitTok true b))
                t ct Hkb eq_refl eq_refl (or_intror (ex_intro _ b eq_refl))) as (t1 & E1 & M1).
    change (set_out _ [] _) with (MKC mem false crc false il false tk [] (PWaitTok true b)) in E1.
    assert (M1' : mon t1 = inl (mkh (HWTok true) 255 IReady crc false)).
    { rewrite M1, Hm. rewrite hpolls_busy by (right; reflexivity). reflexivity. }
    destruct (N.eq_dec b NB) as [->|Hne].
    - destruct (write_data_rejected_sys mem il tk NB x t1 ct Hx ltac:(lia) M1') as (t2 & E2 & M2).
      exists t2, (tk + 1), 237. split; [|exact M2].
      unfold prefix_len. rewrite N.sub_diag. cbn [N.to_nat firstn write_mem write_blocks].
      unfold bind at 1. rewrite E1. unfold bind at 1. rewrite E2. reflexivity.
    - destruct (write_data_sys o kd csd tim mem il tk true b x t1 ct 255 Hx ltac:(lia) ltac:(reflexivity) M1')
        as (t2 & E2 & M2).
      cbn [tok_of] in E2.
      destruct (IH (upd_mem mem b x) (b + 1) (tk + 1) (t_busy_w tim tk) t2 229 Hxs ltac:(lia) ltac:(lia) (busy_w_ok tim Htim tk) M2)
        as (t3 & tk3 & last3 & E3 & M3).
      exists t3, tk3, last3. split; [|exact M3].
      assert (P : prefix_len b = S (prefix_len (b + 1))) by (unfold prefix_len; lia).
      rewrite P. cbn [firstn write_mem write_blocks].
      unfold bind at 1. rewrite E1. unfold bind at 1. rewrite E2. exact E3.
  Qed.

  (* CMD12 aborts the write *)
  Lemma cmd12_abort_sys mem il tk b t ct last :
    mon t = inl (mkh (HWTok true) last IReady crc false) ->
    exists t' k,
      card_command card card_spi CMD12 0 (sys (MKC mem false crc false il false tk [] (PWaitTok true b)) t ct) =
        (Ok 0, sys (MKC mem false crc false il false (tk + 1) (BUSY k) PIdle) t' ct) /\
      (k <= N.to_nat COMMAND_RETRIES)%nat /\
      mon t' = inl (mkh HFree 0 IReady crc false).
  Proof.
    intros Hm. set (c := MKC mem false crc false il false tk [] (PWaitTok true b)).
    destruct (frame_six 12 0) as (b0 & b1 & b2 & b3 & b4 & b5 & Ef).
    assert (E6 : fst (card_bytes c (frame 12 0)) =
                 MKC mem false crc false il false (tk + 1)
                     (127 :: FF (t_ncr tim tk) ++ [0] ++ BUSY (t_busy_c tim tk)) PIdle).
    { rewrite Ef. rewrite (frame_received_waittok c b0 b1 b2 b3 b4 b5 b eq_refl eq_refl eq_refl).
      - rewrite <- Ef. rewrite (on_frame_wellformed c 12 0 ltac:(reflexivity) ltac:(reflexivity)). reflexivity.
      - pose proof (frame_start 12 0 ltac:(reflexivity)) as Hs. rewrite Ef in Hs. exact Hs. }
    destruct (card_bytes c (frame 12 0)) as [cx ms] eqn:Eb. cbn [fst] in E6. subst cx.
    unfold card_command. change (negb (CMD12 =? CMD0) && negb (CMD12 =? CMD12)) with false. cbv iota.
    unfold bind at 1. unfold ret at 1. unfold bind at 1. unfold CMD12 at 1.
    rewrite (write_bytes_sys c t ct (frame 12 0) _ ms Eb).
    change (CMD12 =? CMD12) with true. cbv iota.
    set (c7 := MKC mem false crc false il false (tk + 1) (127 :: FF (t_ncr tim tk) ++ [0] ++ BUSY (t_busy_c tim tk)) PIdle).
    assert (R : card_byte c7 255 = (MKC mem false crc false il false (tk + 1)
                                        (FF (t_ncr tim tk) ++ [0] ++ BUSY (t_busy_c tim tk)) PIdle, 127)).
    { exact (card_byte_queued c7 127 _ eq_refl eq_refl). }
    unfold bind at 1. unfold bind at 1. rewrite (read_byte_sys c7 _ ct _ 127 R). unfold ret at 1.
    set (c8 := MKC mem false crc false il false (tk + 1) (FF (t_ncr tim tk) ++ [0] ++ BUSY (t_busy_c tim tk)) PIdle).
    destruct (command_response_sys (N.to_nat COMMAND_RETRIES) (t_ncr tim tk) 0 (BUSY (t_busy_c tim tk)) c8
                (Ev (Transfer [255]) (Bytes [127]) :: Ev (Write (frame 12 0)) (Bytes ms) :: t) ct CMD12
                (ncr_ok tim Htim tk) eq_refl eq_refl eq_refl ltac:(reflexivity)) as (t2 & E2 & M2).
    exists t2, (t_busy_c tim tk). split; [exact E2|]. split; [apply (Htim tk)|].
    rewrite M2, mon_transfer1, mon_write, Hm.
    rewrite (hbytes_frame_wtok (mkh (HWTok true) last IReady crc false) 12 0 ms ltac:(reflexivity) ltac:(reflexivity) eq_refl).
    assert (HF : h_frame (mkh (HWTok true) last IReady crc false) (HWTok true) (frame 12 0) =
                 inl (mkh (HStuff 12 0) last IReady crc false)) by reflexivity.
    rewrite HF.
    cbn [hstep_m]. unfold hstep at 1. cbn [h_mode mkh]. change (255 =? 255) with true. cbv iota beta zeta.
    erewrite (hpolls_resp _ _ 12 0 0); [reflexivity|reflexivity|reflexivity|reflexivity].
  Qed.

  Lemma multi_write_off_sys mem il tk k t last idx blocks :
    Forall (fun x => length x = 512%nat) blocks ->
    (k <= N.to_nat COMMAND_RETRIES)%nat -> idx < NB -> NB < idx + N.of_nat (length blocks) ->
    mon t = inl (mkh HFree last IReady crc false) ->
    exists t' tk' k',
      write_inner card card_spi o blocks idx (sys (MKC mem false crc false il false tk (BUSY k) PIdle) t (Some (type_of kd))) =
        (Err WriteError, sys (MKC (write_mem mem idx (firstn (prefix_len idx) blocks)) false crc false il false tk' (BUSY k') PIdle)
                             t' (Some (type_of kd))) /\
      (k' <= N.to_nat COMMAND_RETRIES)%nat /\
      mon t' = inl (mkh HFree 0 IReady crc false).
  Proof.
    intros Hall Hk Hi Hn Hm.
    assert (Hn1 : length blocks <> 1%nat) by (intros X; rewrite X in Hn; lia).
    unfold write_inner. unfold bind at 1.
    rewrite (start_idx_sys kd csd Haddr _ t idx WriteError Hi).
    pose proof (addr_lt kd csd Haddr idx Hi) as Ha.
    set (ct := Some (type_of kd)).
    destruct (cmd55_sys kd csd tim Htim mem false crc il tk k t ct last IReady Hk Hm (or_introl eq_refl)) as (t1 & E1 & M1).
    set (cnt := N.of_nat (length blocks) mod 2 ^ 32).
    assert (Hcnt : cnt < 2 ^ 32) by (apply N.mod_lt; discriminate).
    destruct (card_command_sys 23 cnt O (MKC mem false crc true il false (tk + 1) (BUSY 0) PIdle) t1 ct
                (mkh HFree 0 IReady crc true)
                (MKC mem false crc false il false (tk + 1 + 1) (FF (t_ncr tim (tk + 1)) ++ [0]) PIdle)
                (t_ncr tim (tk + 1)) 0 []) as (t2 & E2 & M2);
      try reflexivity; try assumption; try discriminate; try apply (ncr_ok tim Htim); try lia.
    change (sys (set_out _ _ _) t2 ct) with (sys (MKC mem false crc false il false (tk + 1 + 1) [] PIdle) t2 ct) in E2.
    change (BUSY 0) with (@nil N) in E2.
    destruct (wait_not_busy_sys (N.to_nat WRITE_RETRIES) O (MKC mem false crc false il false (tk + 1 + 1) [] PIdle)
                t2 ct ltac:(lia) eq_refl eq_refl (or_introl eq_refl)) as (t3 & E3 & M3).
    change (set_out _ [] _) with (MKC mem false crc false il false (tk + 1 + 1) [] PIdle) in E3.
    assert (M3' : mon t3 = inl (mkh HFree 255 IReady crc false)).
    { rewrite M3, M2. rewrite hpolls_busy by (left; reflexivity). reflexivity. }
    destruct (card_command_sys 25 (addr_of kd idx) O (MKC mem false crc false il false (tk + 1 + 1) (BUSY 0) PIdle) t3 ct
                (mkh HFree 255 IReady crc false)
                (MKC mem false crc false il false (tk + 1 + 1 + 1) (FF (t_ncr tim (tk + 1 + 1)) ++ [0]) (PWaitTok true idx))
                (t_ncr tim (tk + 1 + 1)) 0 []) as (t4 & E4 & M4);
      try reflexivity; try assumption; try discriminate; try apply (ncr_ok tim Htim); try lia.
    { unfold exec. cbn -[FF BUSY t_ncr t_nac decode_addr data_packet].
      rewrite (decode_addr_ok kd csd) by (try reflexivity; exact Hi). reflexivity. }
    change (sys (set_out _ _ _) t4 ct)
      with (sys (MKC mem false crc false il false (tk + 1 + 1 + 1) [] (PWaitTok true idx)) t4 ct) in E4.
    change (BUSY 0) with (@nil N) in E4.
    assert (M4' : mon t4 = inl (mkh (HWTok true) 0 IReady crc false)) by (rewrite M4; reflexivity).
    destruct (write_blocks_off_sys il ct blocks mem idx (tk + 1 + 1 + 1) O t4 0 Hall ltac:(lia) Hn ltac:(lia) M4')
      as (t5 & tk5 & last5 & E5 & M5).
    change (BUSY 0) with (@nil N) in E5.
    destruct (cmd12_abort_sys (write_mem mem idx (firstn (prefix_len idx) blocks)) il tk5 NB t5 ct last5 M5)
      as (t6 & k6 & E6 & Hk6 & M6).
    exists t6, (tk5 + 1), k6. split; [|split; [exact Hk6|exact M6]].
    assert (Body :
        bind card (card_acmd card card_spi ACMD23 cnt) (fun _ =>
        bind card (wait_not_busy card card_spi (N.to_nat WRITE_RETRIES)) (fun _ =>
        bind card (card_command card card_spi CMD25 (addr_of kd idx)) (fun r =>
        if negb (r =? 0) then fail card WriteError else
        bind card (attempt card (bind card (write_blocks card card_spi o blocks)
                                   (fun _ => wait_not_busy card card_spi (N.to_nat WRITE_RETRIES)))) (fun result =>
        match result with
        | Ok _ => write_byte card card_spi STOP_TRAN_TOKEN
        | Err e => bind card (attempt card (card_command card card_spi CMD12 0)) (fun _ => fail card e)
        | Panic => panic card
        end))))
        (sys (MKC mem false crc false il false tk (BUSY k) PIdle) t ct) =
        (Err WriteError, sys (MKC (write_mem mem idx (firstn (prefix_len idx) blocks)) false crc false il false (tk5 + 1) (BUSY k6) PIdle) t6 ct)).
    { unfold card_acmd. unfold bind at 1. unfold bind at 1. unfold CMD55 in E1. unfold CMD55. rewrite E1.
      unfold ACMD23. change (if false then 1 else 0) with 0 in E2. rewrite E2.
      unfold bind at 1. rewrite E3. unfold CMD25. unfold bind at 1. rewrite E4. cbn [negb N.eqb].
      unfold bind at 1, attempt at 1. unfold bind at 1. rewrite E5.
      unfold bind at 1, attempt at 1. rewrite E6. reflexivity. }
    destruct blocks as [|x [|y ys]]; [exact Body|cbn in Hn1; congruence|exact Body].
  Qed.
End OffEnd.
