(* PROOFS, part 1 (arbitrary peer): every driver function returns without Panic
   (outside the arithmetic sites named below) and exchanges at most an explicit
   number of SPI bytes - for EVERY `spi` function, i.e. whatever the card does. *)
From Coq Require Import NArith Arith List Lia Bool ZArith.
From SdSd Require Import Poly CrcModel CrcProofs SdModel.
Import ListNotations.
Open Scope N_scope.

Definition call_bytes (c : spi_call) : N :=
  match c with
  | Write o | Transfer o | TransferInPlace o => N.of_nat (length o)
  | DelayUs _ => 0
  end.

(* number of bytes clocked over the bus in a trace *)
Fixpoint tbytes (t : list event) : N :=
  match t with
  | [] => 0
  | Ev c _ :: t' => call_bytes c + tbytes t'
  end.

Lemma tbytes_app a b : tbytes (a ++ b) = tbytes a + tbytes b.
Proof. induction a as [|[c r] a IH]; cbn [tbytes app]; [reflexivity|]. rewrite IH. lia. Qed.

Section Bound.
  Variable dstate : Type.
  Variable spi : dstate -> spi_call -> dstate * spi_reply.
  Variable o : opts.

  Notation M := (M dstate).
  Notation st := (st dstate).

  (* `m` never panics and clocks at most `b` bytes *)
  Definition costs {A} (m : M A) (b : N) : Prop :=
    forall s r s', m s = (r, s') -> r <> Panic /\ tbytes (tr s') <= tbytes (tr s) + b.

  (* `m` clocks at most `b` bytes (it may panic) *)
  Definition clocks {A} (m : M A) (b : N) : Prop :=
    forall s r s', m s = (r, s') -> tbytes (tr s') <= tbytes (tr s) + b.

  Lemma costs_clocks {A} (m : M A) b : costs m b -> clocks m b.
  Proof. intros H s r s' E. exact (proj2 (H s r s' E)). Qed.

  Lemma costs_ret {A} (a : A) : costs (ret dstate a) 0.
  Proof. intros s r s' E. inversion E; subst. split; [discriminate|lia]. Qed.
  Lemma costs_fail {A} e : costs (@fail dstate A e) 0.
  Proof. intros s r s' E. inversion E; subst. split; [discriminate|lia]. Qed.
  Lemma clocks_lift {A} (x : outcome A) : clocks (lift dstate x) 0.
  Proof. intros s r s' E. inversion E; subst. lia. Qed.
  Lemma clocks_panic {A} : clocks (@panic dstate A) 0.
  Proof. intros s r s' E. inversion E; subst. lia. Qed.

  Lemma costs_weaken {A} (m : M A) b b' : costs m b -> b <= b' -> costs m b'.
  Proof. intros H Hb s r s' E. destruct (H s r s' E). split; [assumption|lia]. Qed.
  Lemma clocks_weaken {A} (m : M A) b b' : clocks m b -> b <= b' -> clocks m b'.
  Proof. intros H Hb s r s' E. specialize (H s r s' E). lia. Qed.

  Lemma costs_bind {A B} (m : M A) (f : A -> M B) b1 b2 :
    costs m b1 -> (forall a, costs (f a) b2) -> costs (bind dstate m f) (b1 + b2).
  Proof.
    intros Hm Hf s r s' E. unfold bind in E.
    destruct (m s) as [[a|e|] s1] eqn:Em.
    - destruct (Hm _ _ _ Em) as [_ H1]. destruct (Hf a _ _ _ E) as [Hp H2]. split; [exact Hp|lia].
    - inversion E; subst. destruct (Hm _ _ _ Em) as [_ H1]. split; [discriminate|lia].
    - destruct (Hm _ _ _ Em) as [Hp _]. congruence.
  Qed.
  Lemma clocks_bind {A B} (m : M A) (f : A -> M B) b1 b2 :
    clocks m b1 -> (forall a, clocks (f a) b2) -> clocks (bind dstate m f) (b1 + b2).
  Proof.
    intros Hm Hf s r s' E. unfold bind in E.
    destruct (m s) as [[a|e|] s1] eqn:Em; specialize (Hm _ _ _ Em).
    - specialize (Hf a _ _ _ E). lia.
    - inversion E; subst. lia.
    - inversion E; subst. lia.
  Qed.

  Lemma costs_call c : costs (call dstate spi c) (call_bytes c).
  Proof.
    intros s r s' E. unfold call in E. destruct (spi (dev s) c) as [d' rp]. inversion E; subst.
    split; [discriminate|]. cbn [tr tbytes]. lia.
  Qed.

  Lemma costs_get_ctype : costs (get_ctype dstate) 0.
  Proof. intros s r s' E. inversion E; subst. split; [discriminate|lia]. Qed.
  Lemma costs_set_ctype c : costs (set_ctype dstate c) 0.
  Proof. intros s r s' E. inversion E; subst. split; [discriminate|cbn [tr]; lia]. Qed.

  Ltac cost_step :=
    first [ apply costs_ret | apply costs_fail | apply costs_call
          | apply costs_get_ctype | apply costs_set_ctype ].

  Lemma costs_transfer_byte b : costs (transfer_byte dstate spi b) 1.
  Proof.
    unfold transfer_byte. change 1 with (call_bytes (Transfer [b]) + 0).
    apply costs_bind; [apply costs_call|]. intros [l|]; cost_step.
  Qed.
  Lemma costs_read_byte : costs (read_byte dstate spi) 1.
  Proof. apply costs_transfer_byte. Qed.
  Lemma costs_write_byte b : costs (write_byte dstate spi b) 1.
  Proof.
    unfold write_byte. change 1 with (1 + 0). apply costs_bind; [apply costs_transfer_byte|].
    intros; cost_step.
  Qed.
  Lemma costs_write_bytes l : costs (write_bytes dstate spi l) (N.of_nat (length l)).
  Proof.
    unfold write_bytes. replace (N.of_nat (length l)) with (call_bytes (Write l) + 0) by (cbn; lia).
    apply costs_bind; [apply costs_call|]. intros [x|]; cost_step.
  Qed.
  Lemma costs_transfer_bytes l : costs (transfer_bytes dstate spi l) (N.of_nat (length l)).
  Proof.
    unfold transfer_bytes.
    replace (N.of_nat (length l)) with (call_bytes (TransferInPlace l) + 0) by (cbn; lia).
    apply costs_bind; [apply costs_call|]. intros [x|]; cost_step.
  Qed.
  Lemma costs_delay : costs (delay_us10 dstate spi) 0.
  Proof.
    unfold delay_us10. change 0 with (call_bytes (DelayUs 10) + 0).
    apply costs_bind; [apply costs_call|]. intros; cost_step.
  Qed.

  (* ---- the polling loops: at most retries + 1 bytes ---------------------- *)
  Lemma costs_poll stop err n : costs (poll dstate spi stop err n) (N.of_nat n + 1).
  Proof.
    induction n as [|n IH]; cbn [poll].
    - replace (N.of_nat 0 + 1) with (1 + 0) by lia. apply costs_bind; [apply costs_read_byte|].
      intros a. destruct (stop a); cost_step.
    - replace (N.of_nat (S n) + 1) with (1 + (N.of_nat n + 1)) by lia.
      apply costs_bind; [apply costs_read_byte|]. intros a.
      destruct (stop a); [eapply costs_weaken; [cost_step|lia]|].
      replace (N.of_nat n + 1) with (0 + (N.of_nat n + 1)) by lia.
      apply costs_bind; [apply costs_delay|]. intros _. exact IH.
  Qed.

  Lemma costs_wait_not_busy n : costs (wait_not_busy dstate spi n) (N.of_nat n + 1).
  Proof.
    unfold wait_not_busy. replace (N.of_nat n + 1) with (N.of_nat n + 1 + 0) by lia.
    apply costs_bind; [apply costs_poll|]. intros; cost_step.
  Qed.
  Lemma costs_command_response n c : costs (command_response dstate spi n c) (N.of_nat n + 1).
  Proof. apply costs_poll. Qed.
  Lemma costs_read_token n : costs (read_token dstate spi n) (N.of_nat n + 1).
  Proof. apply costs_poll. Qed.

  (* ---- explicit bounds, in the retry constants ------------------------------ *)
  Definition B_cmd : N := (COMMAND_RETRIES + 1) + 6 + 1 + (COMMAND_RETRIES + 1).
  Definition B_acmd : N := 2 * B_cmd.
  Definition B_read_data (len : N) : N := (READ_RETRIES + 1) + len + 2.
  Definition B_write_data (len : N) : N := 1 + len + 2 + 1.
  Definition B_enter : N := (acquire_retries o + 1) * (B_cmd + 255).
  Definition B_version : N := (COMMAND_RETRIES + 1) * (B_cmd + 4).
  Definition B_ready : N := (COMMAND_RETRIES + 1) * B_acmd.
  Definition B_acquire : N := B_enter + B_cmd + B_version + B_ready + (B_cmd + 4) + 1.
  Definition B_read (n : N) : N := B_cmd + n * B_read_data 512 + B_cmd.
  Definition B_write (n payload : N) : N :=
    B_acmd + (WRITE_RETRIES + 1) + B_cmd + (n * (WRITE_RETRIES + 1 + 4) + payload)
    + (WRITE_RETRIES + 1) + B_cmd + 1.
  Definition B_csd : N := B_cmd + B_read_data 16.

  Lemma frame_length c a : length (frame c a) = 6%nat.
  Proof. reflexivity. Qed.

  Lemma costs_card_command c a : costs (card_command dstate spi c a) B_cmd.
  Proof.
    unfold card_command, B_cmd.
    replace (COMMAND_RETRIES + 1 + 6 + 1 + (COMMAND_RETRIES + 1))
      with ((COMMAND_RETRIES + 1) + (6 + (1 + (COMMAND_RETRIES + 1)))) by lia.
    apply costs_bind.
    { destruct (negb (c =? CMD0) && negb (c =? CMD12)).
      - eapply costs_weaken; [apply costs_wait_not_busy|]. rewrite N2Nat.id. lia.
      - eapply costs_weaken; [cost_step|lia]. }
    intros _. apply costs_bind.
    { eapply costs_weaken; [apply costs_write_bytes|]. rewrite frame_length. cbn. lia. }
    intros _. apply costs_bind.
    { destruct (c =? CMD12).
      - replace 1 with (1 + 0) by lia. apply costs_bind; [apply costs_read_byte|]. intros; cost_step.
      - eapply costs_weaken; [cost_step|lia]. }
    intros _. eapply costs_weaken; [apply costs_command_response|]. rewrite N2Nat.id. lia.
  Qed.

  Lemma costs_card_acmd c a : costs (card_acmd dstate spi c a) B_acmd.
  Proof.
    unfold card_acmd, B_acmd. replace (2 * B_cmd) with (B_cmd + B_cmd) by lia.
    apply costs_bind; [apply costs_card_command|]. intros _. apply costs_card_command.
  Qed.

  Lemma repeat_length {A} (x : A) n : length (repeat x n) = n.
  Proof. apply repeat_length. Qed.

  Lemma costs_read_data len : costs (read_data dstate spi o len) (B_read_data (N.of_nat len)).
  Proof.
    unfold read_data, B_read_data.
    replace (READ_RETRIES + 1 + N.of_nat len + 2) with ((READ_RETRIES + 1) + (N.of_nat len + (2 + 0))) by lia.
    apply costs_bind.
    { eapply costs_weaken; [apply costs_read_token|]. rewrite N2Nat.id. lia. }
    intros status. destruct (negb (status =? DATA_START_BLOCK)); [eapply costs_weaken; [cost_step|lia]|].
    apply costs_bind.
    { eapply costs_weaken; [apply costs_transfer_bytes|]. rewrite repeat_length. lia. }
    intros buffer. apply costs_bind; [apply costs_transfer_bytes|].
    intros cb. destruct (use_crc o); [|cost_step].
    match goal with |- context [if ?b then _ else _] => destruct b end; cost_step.
  Qed.

  Lemma costs_write_data tok buf :
    costs (write_data dstate spi o tok buf) (B_write_data (N.of_nat (length buf))).
  Proof.
    unfold write_data, B_write_data.
    replace (1 + N.of_nat (length buf) + 2 + 1) with (1 + (N.of_nat (length buf) + (2 + (1 + 0)))) by lia.
    apply costs_bind; [apply costs_write_byte|]. intros _.
    apply costs_bind; [apply costs_write_bytes|]. intros _.
    apply costs_bind.
    { eapply costs_weaken; [apply costs_write_bytes|]. destruct (use_crc o); cbn; lia. }
    intros _. apply costs_bind; [apply costs_read_byte|]. intros status.
    match goal with |- context [if ?b then _ else _] => destruct b end; cost_step.
  Qed.

  Lemma costs_repeat_m n (m : M unit) b : costs m b -> costs (repeat_m dstate n m) (N.of_nat n * b).
  Proof.
    intros Hm. induction n as [|n IH]; cbn [repeat_m].
    - eapply costs_weaken; [cost_step|lia].
    - replace (N.of_nat (S n) * b) with (b + N.of_nat n * b) by lia.
      apply costs_bind; [exact Hm|]. intros _. exact IH.
  Qed.

  Lemma costs_attempt {A} (m : M A) b : costs m b -> costs (attempt dstate m) b.
  Proof.
    intros Hm s r s' E. unfold attempt in E. destruct (m s) as [r0 s0] eqn:Em.
    inversion E; subst. destruct (Hm _ _ _ Em). split; [discriminate|assumption].
  Qed.
  Lemma attempt_not_panic {A} (m : M A) b : costs m b ->
    forall s r s', attempt dstate m s = (Ok r, s') -> r <> Panic.
  Proof.
    intros Hm s r s' E. unfold attempt in E. destruct (m s) as [r0 s0] eqn:Em.
    inversion E; subst. exact (proj1 (Hm _ _ _ Em)).
  Qed.

  Lemma costs_enter_spi_mode n :
    costs (enter_spi_mode dstate spi n) ((N.of_nat n + 1) * (B_cmd + 255)).
  Proof.
    induction n as [|n IH]; cbn [enter_spi_mode].
    - replace ((N.of_nat 0 + 1) * (B_cmd + 255)) with (B_cmd + 255) by lia.
      intros s r s' E. unfold bind at 1 in E.
      destruct (attempt dstate (card_command dstate spi CMD0 0) s) as [[a|e|] s1] eqn:Ea.
      2:{ exfalso. unfold attempt in Ea. destruct (card_command dstate spi CMD0 0 s). discriminate. }
      2:{ exfalso. unfold attempt in Ea. destruct (card_command dstate spi CMD0 0 s). discriminate. }
      pose proof (costs_attempt _ _ (costs_card_command CMD0 0) _ _ _ Ea) as [_ H1].
      pose proof (attempt_not_panic _ _ (costs_card_command CMD0 0) _ _ _ Ea) as Hnp.
      assert (K : costs (bind dstate (repeat_m dstate (N.to_nat 255) (write_byte dstate spi 255))
                          (fun _ => @fail dstate unit CardNotFound)) 255).
      { eapply costs_weaken.
        { apply costs_bind; [apply costs_repeat_m, costs_write_byte|]. intros; cost_step. }
        rewrite N2Nat.id. lia. }
      destruct a as [r1|e|]; [| |congruence].
      + destruct (r1 =? R1_IDLE_STATE).
        * destruct (costs_ret tt _ _ _ E). split; [assumption|lia].
        * destruct (costs_fail (A:=unit) CardNotFound _ _ _ E). split; [assumption|lia].
      + destruct e as [| | | |c|c| | |g cc| | | | |];
          try (destruct (costs_fail (A:=unit) _ _ _ _ E); split; [assumption|lia]).
        destruct c as [|p];
          [|destruct (costs_fail (A:=unit) _ _ _ _ E); split; [assumption|lia]].
        destruct (K _ _ _ E). split; [assumption|lia].
    - replace ((N.of_nat (S n) + 1) * (B_cmd + 255))
        with ((B_cmd + 255) + (N.of_nat n + 1) * (B_cmd + 255)) by lia.
      intros s r s' E. unfold bind at 1 in E.
      destruct (attempt dstate (card_command dstate spi CMD0 0) s) as [[a|e|] s1] eqn:Ea.
      2:{ exfalso. unfold attempt in Ea. destruct (card_command dstate spi CMD0 0 s). discriminate. }
      2:{ exfalso. unfold attempt in Ea. destruct (card_command dstate spi CMD0 0 s). discriminate. }
      pose proof (costs_attempt _ _ (costs_card_command CMD0 0) _ _ _ Ea) as [_ H1].
      pose proof (attempt_not_panic _ _ (costs_card_command CMD0 0) _ _ _ Ea) as Hnp.
      assert (D : costs (bind dstate (delay_us10 dstate spi) (fun _ => enter_spi_mode dstate spi n))
                        ((N.of_nat n + 1) * (B_cmd + 255))).
      { replace ((N.of_nat n + 1) * (B_cmd + 255)) with (0 + (N.of_nat n + 1) * (B_cmd + 255)) by lia.
        apply costs_bind; [apply costs_delay|]. intros _. exact IH. }
      assert (K : costs (bind dstate (repeat_m dstate (N.to_nat 255) (write_byte dstate spi 255))
                          (fun _ => bind dstate (delay_us10 dstate spi) (fun _ => enter_spi_mode dstate spi n)))
                        (255 + (N.of_nat n + 1) * (B_cmd + 255))).
      { eapply costs_weaken.
        { apply costs_bind; [apply costs_repeat_m, costs_write_byte|intros _; exact D]. }
        rewrite N2Nat.id. lia. }
      destruct a as [r1|e|]; [| |congruence].
      + destruct (r1 =? R1_IDLE_STATE).
        * destruct (costs_ret tt _ _ _ E). split; [assumption|lia].
        * destruct (D _ _ _ E). split; [assumption|lia].
      + destruct e as [| | | |c|c| | |g cc| | | | |];
          try (destruct (costs_fail (A:=unit) _ _ _ _ E); split; [assumption|lia]).
        destruct c as [|p];
          [|destruct (costs_fail (A:=unit) _ _ _ _ E); split; [assumption|lia]].
        destruct (K _ _ _ E). split; [assumption|lia].
  Qed.

  Lemma costs_check_version n :
    costs (check_version dstate spi n) ((N.of_nat n + 1) * (B_cmd + 4)).
  Proof.
    induction n as [|n IH]; cbn [check_version].
    - replace ((N.of_nat 0 + 1) * (B_cmd + 4)) with (B_cmd + (4 + 0)) by lia.
      apply costs_bind; [apply costs_card_command|]. intros r.
      match goal with |- context [if ?b then _ else _] => destruct b end;
        [eapply costs_weaken; [cost_step|lia]|].
      apply costs_bind; [apply (costs_transfer_bytes [255;255;255;255])|]. intros buf.
      match goal with |- context [if ?b then _ else _] => destruct b end; cost_step.
    - replace ((N.of_nat (S n) + 1) * (B_cmd + 4))
        with (B_cmd + (4 + (0 + (N.of_nat n + 1) * (B_cmd + 4)))) by lia.
      apply costs_bind; [apply costs_card_command|]. intros r.
      match goal with |- context [if ?b then _ else _] => destruct b end;
        [eapply costs_weaken; [cost_step|lia]|].
      apply costs_bind; [apply (costs_transfer_bytes [255;255;255;255])|]. intros buf.
      match goal with |- context [if ?b then _ else _] => destruct b end;
        [eapply costs_weaken; [cost_step|lia]|].
      apply costs_bind; [apply costs_delay|]. intros _. exact IH.
  Qed.

  Lemma costs_wait_ready n a :
    costs (wait_ready dstate spi n a) ((N.of_nat n + 1) * B_acmd).
  Proof.
    induction n as [|n IH]; cbn [wait_ready].
    - replace ((N.of_nat 0 + 1) * B_acmd) with (B_acmd + 0) by lia.
      apply costs_bind; [apply costs_card_acmd|]. intros r.
      match goal with |- context [if ?b then _ else _] => destruct b end; cost_step.
    - replace ((N.of_nat (S n) + 1) * B_acmd) with (B_acmd + (0 + (N.of_nat n + 1) * B_acmd)) by lia.
      apply costs_bind; [apply costs_card_acmd|]. intros r.
      match goal with |- context [if ?b then _ else _] => destruct b end;
        [eapply costs_weaken; [cost_step|lia]|].
      apply costs_bind; [apply costs_delay|]. intros _. exact IH.
  Qed.

  Lemma costs_acquire_probe : costs (acquire_probe dstate spi o) (B_acquire - 1).
  Proof.
    unfold acquire_probe, B_acquire.
    replace (B_enter + B_cmd + B_version + B_ready + (B_cmd + 4) + 1 - 1)
      with (B_enter + (B_cmd + (B_version + (B_ready + (B_cmd + 4))))) by lia.
    apply costs_bind.
    { eapply costs_weaken; [apply costs_enter_spi_mode|]. rewrite N2Nat.id. unfold B_enter. lia. }
    intros _. apply costs_bind.
    { destruct (use_crc o); [|eapply costs_weaken; [cost_step|lia]].
      eapply costs_weaken.
      { apply costs_bind; [apply costs_card_command|].
        intros r. instantiate (1 := 0).
        match goal with |- context [if ?b then _ else _] => destruct b end; cost_step. }
      lia. }
    intros _. apply costs_bind.
    { eapply costs_weaken; [apply costs_check_version|]. rewrite N2Nat.id. unfold B_version. lia. }
    intros [ct arg]. apply costs_bind.
    { eapply costs_weaken; [apply costs_wait_ready|]. rewrite N2Nat.id. unfold B_ready. lia. }
    intros _.
    destruct ct; try (eapply costs_weaken; [cost_step|lia]).
    replace (B_cmd + 4) with (B_cmd + (4 + 0)) by lia.
    apply costs_bind; [apply costs_card_command|]. intros r.
    match goal with |- context [if ?b then _ else _] => destruct b end;
      [eapply costs_weaken; [cost_step|lia]|].
    apply costs_bind; [apply (costs_transfer_bytes [255;255;255;255])|]. intros buf.
    match goal with |- context [if ?b then _ else _] => destruct b end; cost_step.
  Qed.

  Lemma costs_acquire_inner : costs (acquire_inner dstate spi o) (B_acquire - 1).
  Proof.
    unfold acquire_inner. replace (B_acquire - 1) with (B_acquire - 1 + 0) by lia.
    apply costs_bind; [apply costs_acquire_probe|]. intros; cost_step.
  Qed.

  Lemma B_acquire_pos : 1 <= B_acquire.
  Proof. unfold B_acquire. lia. Qed.

  Lemma costs_acquire : costs (acquire dstate spi o) B_acquire.
  Proof.
    intros s r s' E. unfold acquire in E.
    destruct (acquire_inner dstate spi o s) as [r1 s1] eqn:E1.
    destruct (read_byte dstate spi s1) as [r2 s2] eqn:E2. inversion E; subst.
    destruct (costs_acquire_inner _ _ _ E1) as [Hp H1].
    destruct (costs_read_byte _ _ _ E2) as [_ H2].
    split; [exact Hp|]. pose proof B_acquire_pos. lia.
  Qed.

  Lemma costs_check_init : costs (check_init dstate spi o) B_acquire.
  Proof.
    unfold check_init. replace B_acquire with (0 + B_acquire) by lia.
    apply costs_bind; [apply costs_get_ctype|]. intros [c|]; [|apply costs_acquire].
    eapply costs_weaken; [cost_step|lia].
  Qed.

  (* ---- data transfer ------------------------------------------------------------ *)
  Lemma costs_read_blocks n : costs (read_blocks dstate spi o n) (N.of_nat n * B_read_data 512).
  Proof.
    induction n as [|n IH]; cbn [read_blocks].
    - eapply costs_weaken; [cost_step|lia].
    - replace (N.of_nat (S n) * B_read_data 512)
        with (B_read_data (N.of_nat 512) + (N.of_nat n * B_read_data 512 + 0))
        by (change (N.of_nat 512) with 512; lia).
      apply costs_bind; [apply costs_read_data|]. intros b.
      apply costs_bind; [exact IH|]. intros; cost_step.
  Qed.

  Lemma costs_start_idx idx err : costs (start_idx dstate idx err) 0.
  Proof.
    unfold start_idx. change 0 with (0 + 0). apply costs_bind; [apply costs_get_ctype|].
    intros [[| |]|]; try (destruct (2 ^ 32 <=? idx * 512)); cost_step.
  Qed.

  Lemma costs_first_error {A B} (a : outcome A) (b : outcome B) :
    a <> Panic -> b <> Panic -> costs (first_error dstate a b) 0.
  Proof. intros Ha Hb. unfold first_error. destruct a; [destruct b| |]; try congruence; cost_step. Qed.

  (* bind over `attempt`: the attempted computation's outcome is never Panic *)
  Lemma costs_bind_attempt {A B} (m : M A) (f : outcome A -> M B) b1 b2 :
    costs m b1 -> (forall a, a <> Panic -> costs (f a) b2) ->
    costs (bind dstate (attempt dstate m) f) (b1 + b2).
  Proof.
    intros Hm Hf s r s' E. unfold bind, attempt in E. destruct (m s) as [a s1] eqn:Em.
    destruct (Hm _ _ _ Em) as [Hp H1]. destruct (Hf a Hp _ _ _ E) as [Hq H2]. split; [exact Hq|lia].
  Qed.

  Lemma costs_read_inner n idx : costs (read_inner dstate spi o n idx) (B_read (N.of_nat n)).
  Proof.
    unfold read_inner, B_read. replace (B_cmd + N.of_nat n * B_read_data 512 + B_cmd)
      with (0 + (B_cmd + N.of_nat n * B_read_data 512 + B_cmd)) by lia.
    apply costs_bind; [apply costs_start_idx|]. intros a.
    assert (Multi : costs (bind dstate (card_command dstate spi CMD18 a) (fun r =>
                      if negb (r =? 0) then fail dstate ReadError else
                      bind dstate (attempt dstate (read_blocks dstate spi o n)) (fun result =>
                      bind dstate (attempt dstate (card_command dstate spi CMD12 0)) (fun stopped =>
                      first_error dstate result stopped))))
                    (B_cmd + N.of_nat n * B_read_data 512 + B_cmd)).
    { replace (B_cmd + N.of_nat n * B_read_data 512 + B_cmd)
        with (B_cmd + (N.of_nat n * B_read_data 512 + (B_cmd + 0))) by lia.
      apply costs_bind; [apply costs_card_command|]. intros r.
      destruct (negb (r =? 0)); [eapply costs_weaken; [cost_step|lia]|].
      apply costs_bind_attempt; [apply costs_read_blocks|]. intros res Hres.
      apply costs_bind_attempt; [apply costs_card_command|]. intros st Hst.
      apply costs_first_error; assumption. }
    destruct n as [|[|n]]; try exact Multi.
    eapply costs_weaken.
    { apply costs_bind; [apply costs_card_command|]. intros r. instantiate (1 := B_read_data 512).
      destruct (negb (r =? 0)); [eapply costs_weaken; [cost_step|lia]|].
      replace (B_read_data 512) with (B_read_data (N.of_nat 512) + 0) by (change (N.of_nat 512) with 512; lia).
      apply costs_bind; [apply (costs_read_data 512)|]. intros; cost_step. }
    change (N.of_nat 1) with 1. lia.
  Qed.

  Definition payload (blocks : list (list N)) : N := N.of_nat (length (concat blocks)).

  Lemma costs_write_blocks blocks :
    costs (write_blocks dstate spi o blocks)
          (N.of_nat (length blocks) * (WRITE_RETRIES + 1 + 4) + payload blocks).
  Proof.
    unfold payload. induction blocks as [|b bs IH]; cbn [write_blocks].
    - eapply costs_weaken; [cost_step|lia].
    - cbn [concat length]. rewrite app_length.
      replace (N.of_nat (S (length bs)) * (WRITE_RETRIES + 1 + 4) + N.of_nat (length b + length (concat bs)))
        with ((WRITE_RETRIES + 1) + (B_write_data (N.of_nat (length b))
              + (N.of_nat (length bs) * (WRITE_RETRIES + 1 + 4) + N.of_nat (length (concat bs)))))
        by (unfold B_write_data; lia).
      apply costs_bind.
      { eapply costs_weaken; [apply costs_wait_not_busy|]. rewrite N2Nat.id. lia. }
      intros _. apply costs_bind; [apply costs_write_data|]. intros _. exact IH.
  Qed.

  Lemma costs_write_inner blocks idx :
    costs (write_inner dstate spi o blocks idx) (B_write (N.of_nat (length blocks)) (payload blocks)).
  Proof.
    unfold write_inner, B_write.
    match goal with |- costs _ ?b => replace b with (0 + b) by lia end.
    apply costs_bind; [apply costs_start_idx|]. intros a.
    assert (Multi : costs
       (bind dstate (card_acmd dstate spi ACMD23 (N.of_nat (length blocks) mod 2 ^ 32)) (fun _ =>
        bind dstate (wait_not_busy dstate spi (N.to_nat WRITE_RETRIES)) (fun _ =>
        bind dstate (card_command dstate spi CMD25 a) (fun r =>
        if negb (r =? 0) then fail dstate WriteError else
        bind dstate (attempt dstate (bind dstate (write_blocks dstate spi o blocks)
                                       (fun _ => wait_not_busy dstate spi (N.to_nat WRITE_RETRIES)))) (fun result =>
        match result with
        | Ok _ => write_byte dstate spi STOP_TRAN_TOKEN
        | Err e => bind dstate (attempt dstate (card_command dstate spi CMD12 0)) (fun _ => fail dstate e)
        | Panic => panic dstate
        end)))))
       (B_acmd + (WRITE_RETRIES + 1) + B_cmd
        + (N.of_nat (length blocks) * (WRITE_RETRIES + 1 + 4) + payload blocks)
        + (WRITE_RETRIES + 1) + B_cmd + 1)).
    { eapply costs_weaken.
      { apply costs_bind; [apply costs_card_acmd|]. intros _.
        apply costs_bind; [apply costs_wait_not_busy|]. intros _.
        apply costs_bind; [apply costs_card_command|]. intros r.
        instantiate (1 := (N.of_nat (length blocks) * (WRITE_RETRIES + 1 + 4) + payload blocks
                           + (N.of_nat (N.to_nat WRITE_RETRIES) + 1)) + (B_cmd + 1)).
        destruct (negb (r =? 0)); [eapply costs_weaken; [cost_step|lia]|].
        apply costs_bind_attempt.
        { apply costs_bind; [apply costs_write_blocks|]. intros _. apply costs_wait_not_busy. }
        intros res Hres. destruct res as [u|e|]; [| |congruence].
        - eapply costs_weaken; [apply costs_write_byte|lia].
        - eapply costs_weaken.
          { apply costs_bind; [apply costs_attempt, costs_card_command|]. intros; cost_step. }
          lia. }
      rewrite N2Nat.id. lia. }
    destruct blocks as [|b [|b2 bs]]; try exact Multi.
    eapply costs_weaken.
    { apply costs_bind; [apply costs_card_command|]. intros r.
      instantiate (1 := B_write_data (N.of_nat (length b)) + ((N.of_nat (N.to_nat WRITE_RETRIES) + 1) + (B_cmd + 1))).
      destruct (negb (r =? 0)); [eapply costs_weaken; [cost_step|lia]|].
      apply costs_bind; [apply costs_write_data|]. intros _.
      apply costs_bind; [apply costs_wait_not_busy|]. intros _.
      apply costs_bind; [apply costs_card_command|]. intros r'.
      destruct (negb (r' =? 0)); [eapply costs_weaken; [cost_step|lia]|].
      replace 1 with (1 + 0) by lia. apply costs_bind; [apply costs_read_byte|]. intros r2.
      destruct (negb (r2 =? 0)); cost_step. }
    rewrite N2Nat.id. unfold payload, B_write_data, B_acmd. cbn [concat length]. rewrite app_nil_r.
    change (N.of_nat 1) with 1. lia.
  Qed.

  Lemma costs_read_csd : costs (read_csd dstate spi o) B_csd.
  Proof.
    unfold read_csd, B_csd. replace (B_cmd + B_read_data 16) with (0 + (B_cmd + B_read_data 16)) by lia.
    apply costs_bind; [apply costs_get_ctype|]. intros [ct|]; [|eapply costs_weaken; [cost_step|lia]].
    apply costs_bind; [apply costs_card_command|]; intros r.
    destruct (negb (r =? 0)); [eapply costs_weaken; [cost_step|unfold B_read_data; lia]|].
    replace (B_read_data 16) with (B_read_data (N.of_nat 16) + 0) by (change (N.of_nat 16) with 16; lia).
    apply costs_bind; [apply costs_read_data|]. intros d.
    repeat match goal with |- context [if ?b then _ else _] => destruct b end; cost_step.
  Qed.

  Lemma clocks_num_blocks_inner : clocks (num_blocks_inner dstate spi o) B_csd.
  Proof.
    unfold num_blocks_inner. replace B_csd with (B_csd + 0) by lia.
    apply clocks_bind; [apply costs_clocks, costs_read_csd|]. intros [d|d]; apply clocks_lift.
  Qed.
  Lemma clocks_num_bytes_inner : clocks (num_bytes_inner dstate spi o) B_csd.
  Proof.
    unfold num_bytes_inner. replace B_csd with (B_csd + 0) by lia.
    apply clocks_bind; [apply costs_clocks, costs_read_csd|]. intros [d|d]; apply clocks_lift.
  Qed.
  Lemma costs_erase_single : costs (erase_single_block_enabled_inner dstate spi o) B_csd.
  Proof.
    unfold erase_single_block_enabled_inner. replace B_csd with (B_csd + 0) by lia.
    apply costs_bind; [apply costs_read_csd|]. intros [d|d]; cost_step.
  Qed.

  (* ---- the public API ------------------------------------------------------------ *)
  Definition bound (c : api_call) : N :=
    match c with
    | CRead n _ => B_acquire + B_read (N.of_nat n)
    | CWrite blocks _ => B_acquire + B_write (N.of_nat (length blocks)) (payload blocks)
    | CNumBlocks | CNumBytes | CEraseSingle => B_acquire + B_csd
    | CMarkUninit => 0
    | CGetType => B_acquire
    end.

  Lemma costs_with_init {A} (m : M A) (k : A -> api_value) b :
    costs m b -> costs (with_init dstate spi o m k) (B_acquire + b).
  Proof.
    intros Hm. unfold with_init. apply costs_bind; [apply costs_check_init|]. intros _.
    replace b with (b + 0) by lia. apply costs_bind; [exact Hm|]. intros; cost_step.
  Qed.
  Lemma clocks_with_init {A} (m : M A) (k : A -> api_value) b :
    clocks m b -> clocks (with_init dstate spi o m k) (B_acquire + b).
  Proof.
    intros Hm. unfold with_init. apply clocks_bind; [apply costs_clocks, costs_check_init|]. intros _.
    replace b with (b + 0) by lia. apply clocks_bind; [exact Hm|]. intros; apply costs_clocks; cost_step.
  Qed.

  (* the bound holds for every call, whatever the peer does *)
  Theorem api_clocks c : clocks (api dstate spi o c) (bound c).
  Proof.
    destruct c as [n idx|blocks idx| | | | |]; cbn [api bound].
    - apply clocks_with_init, costs_clocks, costs_read_inner.
    - apply clocks_with_init, costs_clocks, costs_write_inner.
    - apply clocks_with_init, clocks_num_blocks_inner.
    - apply clocks_with_init, clocks_num_bytes_inner.
    - apply clocks_with_init, costs_clocks, costs_erase_single.
    - apply costs_clocks. change 0 with (0 + 0). apply costs_bind; [cost_step|]. intros; cost_step.
    - apply costs_clocks. replace B_acquire with (B_acquire + 0) by lia.
      apply costs_bind; [apply costs_attempt, costs_check_init|].
      intros [a|e|]; try cost_step. change 0 with (0 + 0). apply costs_bind; [cost_step|intros; cost_step].
  Qed.

  (* every call except the two capacity queries (treated in SdCapacity.v) *)
  Theorem api_costs_most c : c <> CNumBlocks -> c <> CNumBytes -> costs (api dstate spi o c) (bound c).
  Proof.
    destruct c as [n idx|blocks idx| | | | |]; cbn [api bound]; intros H1 H2; try congruence.
    - apply costs_with_init, costs_read_inner.
    - apply costs_with_init, costs_write_inner.
    - apply costs_with_init, costs_erase_single.
    - change 0 with (0 + 0). apply costs_bind; [cost_step|]. intros; cost_step.
    - replace B_acquire with (B_acquire + 0) by lia.
      apply costs_bind; [apply costs_attempt, costs_check_init|].
      intros [a|e|]; try cost_step. change 0 with (0 + 0). apply costs_bind; [cost_step|intros; cost_step].
  Qed.
End Bound.
