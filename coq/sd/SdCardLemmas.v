(* PROOFS, part 4: facts about LEGALCARD alone (byte-level behaviour of the card in
   the situations the driver creates) and about the rule checker alone. *)
From Coq Require Import NArith Arith List Lia Bool ZArith.
From SdSd Require Import Poly CrcModel CrcProofs SdModel SdSpec SdBound SdSafety SdCapacity.
Import ListNotations.
Open Scope N_scope.

(* ---- card_bytes ------------------------------------------------------------------ *)
Lemma card_bytes_app c a b :
  card_bytes c (a ++ b) =
  let '(c1, m1) := card_bytes c a in let '(c2, m2) := card_bytes c1 b in (c2, m1 ++ m2).
Proof.
  revert c. induction a as [|x a IH]; intros c; cbn [card_bytes app].
  - destruct (card_bytes c b) as [c2 m2]. reflexivity.
  - destruct (card_byte c x) as [c1 m]. rewrite IH.
    destruct (card_bytes c1 a) as [c1' m1]. destruct (card_bytes c1' b) as [c2 m2]. reflexivity.
Qed.

Lemma card_bytes_one c x : card_bytes c [x] = let '(c1, m) := card_byte c x in (c1, [m]).
Proof. cbn [card_bytes]. destruct (card_byte c x). reflexivity. Qed.

(* FF on MOSI with no frame in progress leaves the frame receiver alone *)
Lemma feed_frame_ff c : c_fbuf c = [] -> feed_frame c 255 = c.
Proof. intros H. unfold feed_frame. rewrite H. reflexivity. Qed.

Lemma set_out_fbuf c o p : c_fbuf (set_out c o p) = c_fbuf c.
Proof. reflexivity. Qed.

(* a queued byte goes out *)
Lemma card_byte_queued c b rest : c_fbuf c = [] -> c_out c = b :: rest ->
  card_byte c 255 = (set_out c rest (c_phase c), b).
Proof.
  intros Hf Ho. unfold card_byte. rewrite Ho. rewrite feed_frame_ff by exact Hf. reflexivity.
Qed.

Lemma set_out_same c : set_out c (c_out c) (c_phase c) = c.
Proof. destruct c; reflexivity. Qed.

Lemma set_out_set_out c o1 p1 o2 p2 : set_out (set_out c o1 p1) o2 p2 = set_out c o2 p2.
Proof. reflexivity. Qed.

(* the queue drains one byte per FF clock *)
Lemma card_bytes_queue l : forall c rest, c_fbuf c = [] -> c_out c = l ++ rest ->
  card_bytes c (FF (length l)) = (set_out c rest (c_phase c), l).
Proof.
  induction l as [|b l IH]; intros c rest Hf Ho; cbn [length FF repeat card_bytes].
  - cbn [app] in Ho. rewrite <- Ho. rewrite set_out_same. reflexivity.
  - cbn [app] in Ho. rewrite (card_byte_queued c b (l ++ rest) Hf Ho).
    fold (FF (length l)). rewrite (IH (set_out c (l ++ rest) (c_phase c)) rest); [|exact Hf|reflexivity].
    reflexivity.
Qed.

(* with an empty queue the card answers FF while idle or waiting for a write token *)
Definition quiet_phase (p : phase) : Prop := p = PIdle \/ exists b, p = PWaitTok true b.

Lemma card_byte_quiet c : c_fbuf c = [] -> c_out c = [] -> quiet_phase (c_phase c) ->
  card_byte c 255 = (c, 255).
Proof.
  intros Hf Ho [Hp|[b Hp]]; unfold card_byte; rewrite Ho, Hp.
  - rewrite feed_frame_ff by exact Hf. reflexivity.
  - rewrite Hf. cbn. rewrite feed_frame_ff by exact Hf. reflexivity.
Qed.

(* ---- receiving a command frame --------------------------------------------------- *)
(* while the card is not receiving a data block and not looking for a write token,
   every byte goes to the frame receiver and the queue (if any) drains *)
Definition pop (c : card) : card := set_out c (tl (c_out c)) (c_phase c).

Lemma card_byte_idle c m : c_phase c = PIdle ->
  card_byte c m = (feed_frame (pop c) m, hd 255 (c_out c)).
Proof.
  intros Hp. unfold card_byte, pop. destruct (c_out c) as [|b rest] eqn:Ho.
  - cbn [tl hd]. replace (set_out c [] (c_phase c)) with c by (rewrite <- Ho; symmetry; apply set_out_same).
    rewrite Hp. reflexivity.
  - reflexivity.
Qed.

Lemma pop_phase c : c_phase (pop c) = c_phase c. Proof. reflexivity. Qed.
Lemma pop_fbuf c : c_fbuf (pop c) = c_fbuf c. Proof. reflexivity. Qed.
Lemma set_fbuf_phase c f : c_phase (set_fbuf c f) = c_phase c. Proof. reflexivity. Qed.
Lemma pop_set_fbuf c f : pop (set_fbuf c f) = set_fbuf (pop c) f. Proof. reflexivity. Qed.

Fixpoint popn (n : nat) (c : card) : card := match n with O => c | S k => popn k (pop c) end.

(* six bytes that start like a frame, arriving at an idle-phase card with no frame in
   progress, are handed to on_frame; the card's own state is otherwise only drained *)
Lemma frame_received c b0 b1 b2 b3 b4 b5 :
  c_phase c = PIdle -> c_fbuf c = [] -> N.land b0 192 = 64 ->
  fst (card_bytes c [b0;b1;b2;b3;b4;b5]) = on_frame (popn 6 c) [b0;b1;b2;b3;b4;b5].
Proof.
  intros Hp Hf H0.
  assert (Step : forall c f x, c_phase c = PIdle -> c_fbuf c = f -> f <> [] -> Nat.eqb (length (f ++ [x])) 6 = false ->
            fst (card_byte c x) = set_fbuf (pop c) (f ++ [x])).
  { intros c' f x Hp' Hf' Hne Hl. rewrite (card_byte_idle c' x Hp'). cbn [fst]. unfold feed_frame.
    rewrite pop_fbuf, Hf'. destruct f; [congruence|]. rewrite Hl. reflexivity. }
  cbn [card_bytes].
  rewrite (card_byte_idle c b0 Hp). unfold feed_frame at 1. rewrite pop_fbuf, Hf.
  apply N.eqb_eq in H0. rewrite H0.
  set (c1 := set_fbuf (pop c) [b0]).
  assert (P1 : c_phase c1 = PIdle) by (subst c1; rewrite set_fbuf_phase, pop_phase; exact Hp).
  pose proof (Step c1 [b0] b1 P1 eq_refl ltac:(discriminate) eq_refl) as S1.
  destruct (card_byte c1 b1) as [c2 m1] eqn:E1. cbn [fst] in S1. subst c2.
  set (c2 := set_fbuf (pop c1) ([b0] ++ [b1])).
  assert (P2 : c_phase c2 = PIdle) by (subst c2; rewrite set_fbuf_phase, pop_phase; exact P1).
  pose proof (Step c2 [b0;b1] b2 P2 eq_refl ltac:(discriminate) eq_refl) as S2.
  destruct (card_byte c2 b2) as [c3 m2] eqn:E2. cbn [fst] in S2. subst c3.
  set (c3 := set_fbuf (pop c2) ([b0;b1] ++ [b2])).
  assert (P3 : c_phase c3 = PIdle) by (subst c3; rewrite set_fbuf_phase, pop_phase; exact P2).
  pose proof (Step c3 [b0;b1;b2] b3 P3 eq_refl ltac:(discriminate) eq_refl) as S3.
  destruct (card_byte c3 b3) as [c4 m3] eqn:E3. cbn [fst] in S3. subst c4.
  set (c4 := set_fbuf (pop c3) ([b0;b1;b2] ++ [b3])).
  assert (P4 : c_phase c4 = PIdle) by (subst c4; rewrite set_fbuf_phase, pop_phase; exact P3).
  pose proof (Step c4 [b0;b1;b2;b3] b4 P4 eq_refl ltac:(discriminate) eq_refl) as S4.
  destruct (card_byte c4 b4) as [c5 m4] eqn:E4. cbn [fst] in S4. subst c5.
  set (c5 := set_fbuf (pop c4) ([b0;b1;b2;b3] ++ [b4])).
  assert (P5 : c_phase c5 = PIdle) by (subst c5; rewrite set_fbuf_phase, pop_phase; exact P4).
  rewrite (card_byte_idle c5 b5 P5). cbn [card_bytes fst]. unfold feed_frame. rewrite pop_fbuf.
  change (c_fbuf c5) with [b0;b1;b2;b3;b4]. cbn [app length Nat.eqb].
  reflexivity.
Qed.

(* a well-formed frame is decoded to its command and argument and passes the CRC-7 check *)
Lemma on_frame_wellformed c cmd arg : cmd < 64 -> arg < 2 ^ 32 ->
  on_frame c (frame cmd arg) = exec (set_fbuf c []) cmd arg.
Proof.
  intros Hc Ha. destruct (frame_correct cmd arg Hc Ha) as (_ & _ & _ & _ & Hcmd & Harg & _).
  unfold on_frame. rewrite Hcmd, Harg.
  replace (crc7 (firstn 5 (frame cmd arg)) =? nth 5 (frame cmd arg) 0) with true.
  - rewrite andb_false_r. reflexivity.
  - symmetry. apply N.eqb_eq. reflexivity.
Qed.

Lemma frame_start cmd arg : cmd < 64 -> N.land (nth 0 (frame cmd arg) 0) 192 = 64.
Proof.
  intros Hc. unfold frame, frame5. cbn [app nth]. rewrite (lor64 _ Hc).
  apply (sweep 64 (fun c => N.land (64 + c) 192 =? 64)) in Hc; [|vm_compute; reflexivity].
  apply N.eqb_eq in Hc. exact Hc.
Qed.

Lemma frame_six cmd arg : exists b0 b1 b2 b3 b4 b5, frame cmd arg = [b0;b1;b2;b3;b4;b5].
Proof. unfold frame, frame5. cbn [app]. repeat eexists. Qed.

(* an idle-phase card that is handed a well-formed frame executes it *)
Lemma card_frame c cmd arg : cmd < 64 -> arg < 2 ^ 32 -> c_phase c = PIdle -> c_fbuf c = [] ->
  fst (card_bytes c (frame cmd arg)) = exec (set_fbuf (popn 6 c) []) cmd arg.
Proof.
  intros Hc Ha Hp Hf. pose proof (frame_start cmd arg Hc) as Hs.
  destruct (frame_six cmd arg) as (b0 & b1 & b2 & b3 & b4 & b5 & E). rewrite E in Hs |- *. cbn [nth] in Hs.
  rewrite (frame_received c b0 b1 b2 b3 b4 b5 Hp Hf Hs). rewrite <- E. apply on_frame_wellformed; assumption.
Qed.

(* ---- the rule checker as a function of the recorded trace (newest event first) ---- *)
Definition mon (t : list event) : hstate + N := fold_right (fun e m => hmon false m e) (inl h_init) t.

Lemma mon_cons e t : mon (e :: t) = hmon false (mon t) e.
Proof. reflexivity. Qed.

Lemma mon_accept t : accept_state false (rev t) = mon t.
Proof.
  unfold accept_state, mon. rewrite <- (rev_involutive t) at 2.
  rewrite (fold_left_rev_right (fun e m => hmon false m e)). reflexivity.
Qed.

(* ---- a card that is streaming blocks (multiple-block read) -------------------------------- *)
(* everything about a card except its queue, phase, tick and frame buffer *)
Definition core_eq (a b : card) : Prop :=
  k_kind a = k_kind b /\ k_csd a = k_csd b /\ k_tim a = k_tim b /\ c_mem a = c_mem b /\
  c_idle a = c_idle b /\ c_crc a = c_crc b /\ c_app a = c_app b /\ c_init_left a = c_init_left b /\
  c_reading a = c_reading b.

Lemma core_eq_refl a : core_eq a a.
Proof. repeat split. Qed.
Lemma core_eq_trans a b c : core_eq a b -> core_eq b c -> core_eq a c.
Proof. unfold core_eq. intros (?&?&?&?&?&?&?&?&?) (?&?&?&?&?&?&?&?&?). repeat split; congruence. Qed.

Definition stream_phase (p : phase) : Prop := p = PIdle \/ exists b, p = PNextBlock b.

(* the card after driving one byte, before it looks at MOSI *)
Definition adv (c : card) : card :=
  match c_out c with
  | _ :: rest => set_out c rest (c_phase c)
  | [] => match c_phase c with
          | PNextBlock b =>
              if b <? nblocks c then
                match FF (t_nac (k_tim c) (c_tick c)) ++ data_packet (c_mem c b) with
                | _ :: rest => set_out (tick c) rest (PNextBlock (b + 1))
                | [] => c
                end
              else c
          | _ => c
          end
  end.

Lemma adv_props c : stream_phase (c_phase c) ->
  stream_phase (c_phase (adv c)) /\ core_eq (adv c) c /\ c_fbuf (adv c) = c_fbuf c /\
  (c_tick (adv c) = c_tick c \/ c_tick (adv c) = c_tick c + 1).
Proof.
  intros Hs. unfold adv. destruct (c_out c) as [|x rest].
  - destruct Hs as [Hp|[b Hp]]; rewrite Hp.
    + split; [left; exact Hp|]. split; [apply core_eq_refl|]. split; [reflexivity|left; reflexivity].
    + destruct (b <? nblocks c).
      * destruct (FF _ ++ data_packet _) as [|m rest].
        -- split; [right; exists b; exact Hp|]. split; [apply core_eq_refl|]. split; [reflexivity|left; reflexivity].
        -- split; [right; exists (b + 1); reflexivity|]. split; [repeat split|]. split; [reflexivity|right; reflexivity].
      * split; [right; exists b; exact Hp|]. split; [apply core_eq_refl|]. split; [reflexivity|left; reflexivity].
  - split; [exact Hs|]. split; [repeat split|]. split; [reflexivity|left; reflexivity].
Qed.

Lemma card_byte_stream c m : stream_phase (c_phase c) -> exists x, card_byte c m = (feed_frame (adv c) m, x).
Proof.
  intros Hs. unfold card_byte, adv. destruct (c_out c) as [|x rest]; [|eexists; reflexivity].
  destruct Hs as [Hp|[b Hp]]; rewrite Hp; [eexists; reflexivity|].
  destruct (b <? nblocks c); [|eexists; reflexivity].
  destruct (FF _ ++ data_packet _); eexists; reflexivity.
Qed.

(* six frame bytes arriving at a streaming (or idle) card *)
Lemma frame_received_stream c b0 b1 b2 b3 b4 b5 :
  stream_phase (c_phase c) -> c_fbuf c = [] -> N.land b0 192 = 64 ->
  exists c6, fst (card_bytes c [b0;b1;b2;b3;b4;b5]) = on_frame c6 [b0;b1;b2;b3;b4;b5] /\
             core_eq c6 c /\ (c_tick c <= c_tick c6 <= c_tick c + 6).
Proof.
  intros Hs Hf H0.
  (* one step: a byte appended to a frame buffer of length < 5 *)
  assert (Step : forall c f x, stream_phase (c_phase c) -> c_fbuf c = f -> f <> [] -> Nat.eqb (length (f ++ [x])) 6 = false ->
            exists c', fst (card_byte c x) = c' /\ stream_phase (c_phase c') /\ c_fbuf c' = f ++ [x] /\
                       core_eq c' c /\ (c_tick c <= c_tick c' <= c_tick c + 1)).
  { intros c' f x Hs' Hf' Hne Hl. destruct (card_byte_stream c' x Hs') as [y E]. rewrite E. cbn [fst].
    destruct (adv_props c' Hs') as (P1 & P2 & P3 & P4).
    unfold feed_frame. rewrite P3, Hf'. destruct f; [congruence|]. rewrite Hl.
    eexists. split; [reflexivity|]. cbn [c_phase c_fbuf set_fbuf c_tick].
    repeat split; try apply P2; try assumption; lia. }
  destruct (card_byte_stream c b0 Hs) as [y0 E0]. destruct (adv_props c Hs) as (P1 & P2 & P3 & P4).
  cbn [card_bytes]. rewrite E0. unfold feed_frame at 1. rewrite P3, Hf.
  apply N.eqb_eq in H0. rewrite H0.
  set (c1 := set_fbuf (adv c) [b0]).
  assert (S1 : stream_phase (c_phase c1)) by exact P1.
  assert (K1 : core_eq c1 c) by exact P2.
  assert (T1 : c_tick c <= c_tick c1 <= c_tick c + 1) by (cbn [c1 c_tick set_fbuf]; lia).
  destruct (Step c1 [b0] b1 S1 eq_refl ltac:(discriminate) eq_refl) as (c2 & E2 & S2 & F2 & K2 & T2).
  destruct (card_byte c1 b1) as [cc2 m1]. cbn [fst] in E2. subst cc2.
  destruct (Step c2 _ b2 S2 F2 ltac:(discriminate) eq_refl) as (c3 & E3 & S3 & F3 & K3 & T3).
  destruct (card_byte c2 b2) as [cc3 m2]. cbn [fst] in E3. subst cc3.
  destruct (Step c3 _ b3 S3 F3 ltac:(discriminate) eq_refl) as (c4 & E4 & S4 & F4 & K4 & T4).
  destruct (card_byte c3 b3) as [cc4 m3]. cbn [fst] in E4. subst cc4.
  destruct (Step c4 _ b4 S4 F4 ltac:(discriminate) eq_refl) as (c5 & E5 & S5 & F5 & K5 & T5).
  destruct (card_byte c4 b4) as [cc5 m4]. cbn [fst] in E5. subst cc5.
  destruct (card_byte_stream c5 b5 S5) as [y5 E6]. destruct (adv_props c5 S5) as (Q1 & Q2 & Q3 & Q4).
  rewrite E6. cbn [card_bytes fst]. unfold feed_frame. rewrite Q3, F5. cbn [app length Nat.eqb].
  exists (adv c5). split; [reflexivity|]. split.
  - repeat (eapply core_eq_trans; [eassumption|]). apply core_eq_refl.
  - lia.
Qed.
