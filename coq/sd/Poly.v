(* Polynomials over GF(2) represented as N (bit i = coefficient of x^i) and the
   remainder of polynomial long division.  This file is the SPECIFICATION side
   of C19: nothing here mentions the code. *)
From Coq Require Import NArith Arith List Lia Bool.
Import ListNotations.
Open Scope N_scope.

(* One pass of long division: for the bit positions d+n-1 down to d, if the
   coefficient is set subtract (= xor) the divisor aligned at that position. *)
Fixpoint prem_from (n : nat) (g d a : N) : N :=
  match n with
  | O => a
  | S n' =>
      let a' := if N.testbit a (d + N.of_nat n')
                then N.lxor a (N.shiftl g (N.of_nat n')) else a in
      prem_from n' g d a'
  end.

(* remainder of a modulo g, where g is a polynomial of degree d *)
Definition prem (g d a : N) : N := prem_from (N.to_nat (N.size a)) g d a.

(* message polynomial: bytes big-endian, most significant bit first *)
Definition msg_poly (m : list N) : N := fold_left (fun acc b => acc * 256 + b) m 0.

(* the two SD generator polynomials *)
Definition G7 : N := 137.      (* x^7 + x^3 + 1          = 0x89    *)
Definition G16 : N := 69665.   (* x^16 + x^12 + x^5 + 1  = 0x11021 *)

Definition crc7_spec (m : list N) : N := 2 * prem G7 7 (N.shiftl (msg_poly m) 7) + 1.
Definition crc16_spec (m : list N) : N := prem G16 16 (N.shiftl (msg_poly m) 16).

(* ------------------------------------------------------------------------ *)
(* bounds as bit statements *)

Definition bounded (m a : N) : Prop := forall i, m <= i -> N.testbit a i = false.

Lemma bounded_lt m a : a < 2 ^ m -> bounded m a.
Proof.
  intros H i Hi. destruct (N.eq_dec a 0) as [->|Hz]; [apply N.bits_0|].
  apply N.bits_above_log2. apply N.log2_lt_pow2 in H; lia.
Qed.

Lemma lt_bounded m a : bounded m a -> a < 2 ^ m.
Proof.
  intros H. destruct (N.eq_dec a 0) as [->|Hz].
  - apply N.neq_0_lt_0, N.pow_nonzero; lia.
  - apply N.log2_lt_pow2; [lia|].
    destruct (N.lt_ge_cases (N.log2 a) m) as [Hl|Hl]; [exact Hl|].
    specialize (H _ Hl). rewrite N.bit_log2 in H by exact Hz. discriminate.
Qed.

Lemma bounded_lxor m a b : bounded m a -> bounded m b -> bounded m (N.lxor a b).
Proof. intros Ha Hb i Hi. rewrite N.lxor_spec, Ha, Hb by exact Hi. reflexivity. Qed.

Lemma bounded_mono m m' a : m <= m' -> bounded m a -> bounded m' a.
Proof. intros H Ha i Hi. apply Ha; lia. Qed.

Lemma bounded_shiftl m a k : bounded m a -> bounded (m + k) (N.shiftl a k).
Proof.
  intros Ha i Hi. rewrite N.shiftl_spec_high' by lia. apply Ha; lia.
Qed.

Lemma land_lxor_distr_l a b c : N.land (N.lxor a b) c = N.lxor (N.land a c) (N.land b c).
Proof.
  apply N.bits_inj; intro i. rewrite !N.lxor_spec, !N.land_spec, N.lxor_spec.
  destruct (N.testbit a i), (N.testbit b i), (N.testbit c i); reflexivity.
Qed.

Ltac xor_ring :=
  apply N.bits_inj; intro; unfold N.eqf; repeat rewrite N.lxor_spec, ?N.bits_0;
  repeat match goal with |- context [N.testbit ?a ?i] => destruct (N.testbit a i) end;
  reflexivity.

(* ------------------------------------------------------------------------ *)
(* a divisor of degree d: bit d set, nothing above *)

Definition monic (g d : N) : Prop := N.testbit g d = true /\ bounded (d + 1) g.

Lemma monic_G7 : monic G7 7.
Proof. split; [reflexivity|]. apply bounded_lt. reflexivity. Qed.
Lemma monic_G16 : monic G16 16.
Proof. split; [reflexivity|]. apply bounded_lt. reflexivity. Qed.

Section Division.
Variables g d : N.
Hypothesis Hg : monic g d.
Set Default Proof Using "Hg".

Lemma g_shift_top k : N.testbit (N.shiftl g k) (d + k) = true.
Proof. rewrite N.shiftl_spec_high' by lia. replace (d + k - k) with d by lia. apply Hg. Qed.

Lemma g_shift_above k i : d + k < i -> N.testbit (N.shiftl g k) i = false.
Proof.
  intros H. rewrite N.shiftl_spec_high' by lia. apply (proj2 Hg). lia.
Qed.

(* linearity *)
Lemma prem_from_lxor n a b :
  prem_from n g d (N.lxor a b) = N.lxor (prem_from n g d a) (prem_from n g d b).
Proof.
  revert a b; induction n as [|n IH]; intros a b; cbn [prem_from]; [reflexivity|].
  rewrite N.lxor_spec.
  destruct (N.testbit a (d + N.of_nat n)), (N.testbit b (d + N.of_nat n)); cbn [xorb];
    rewrite <- IH; f_equal; xor_ring.
Qed.

Lemma prem_from_0 n : prem_from n g d 0 = 0.
Proof. induction n as [|n IH]; cbn [prem_from]; [reflexivity|]. rewrite N.bits_0. exact IH. Qed.

(* adding an aligned copy of the divisor does not change the remainder *)
Lemma prem_from_add_g n k a :
  (N.to_nat k < n)%nat -> prem_from n g d (N.lxor a (N.shiftl g k)) = prem_from n g d a.
Proof.
  revert a; induction n as [|n IH]; intros a Hk; [lia|]. cbn [prem_from].
  destruct (N.eq_dec (N.of_nat n) k) as [E|E].
  - rewrite E. rewrite N.lxor_spec, g_shift_top.
    destruct (N.testbit a (d + k)); cbn [xorb negb].
    + reflexivity.
    + rewrite N.lxor_assoc, N.lxor_nilpotent, N.lxor_0_r. reflexivity.
  - assert (Hlt : (N.to_nat k < n)%nat) by lia.
    rewrite N.lxor_spec, (g_shift_above k (d + N.of_nat n)) by lia.
    rewrite xorb_false_r.
    destruct (N.testbit a (d + N.of_nat n)).
    + rewrite N.lxor_assoc, (N.lxor_comm (N.shiftl g k)), <- N.lxor_assoc. apply IH; exact Hlt.
    + apply IH; exact Hlt.
Qed.

(* more fuel than needed changes nothing *)
Lemma prem_from_more n n0 a :
  bounded (d + N.of_nat n0) a -> (n0 <= n)%nat -> prem_from n g d a = prem_from n0 g d a.
Proof.
  intros Hb Hle. induction Hle as [|n Hle IH]; [reflexivity|].
  cbn [prem_from]. rewrite Hb by lia. exact IH.
Qed.

(* the remainder has degree < d *)
Lemma prem_from_bounded n a :
  bounded (d + N.of_nat n) a -> bounded d (prem_from n g d a).
Proof.
  revert a; induction n as [|n IH]; intros a Hb; cbn [prem_from].
  - intros i Hi. apply Hb; lia.
  - apply IH. intros i Hi.
    destruct (N.testbit a (d + N.of_nat n)) eqn:Et.
    + rewrite N.lxor_spec. destruct (N.eq_dec i (d + N.of_nat n)) as [->|Hne].
      * rewrite Et, g_shift_top. reflexivity.
      * rewrite Hb by lia. rewrite g_shift_above by lia. reflexivity.
    + destruct (N.eq_dec i (d + N.of_nat n)) as [->|Hne]; [exact Et|]. apply Hb; lia.
Qed.

(* small polynomials are their own remainder *)
Lemma prem_from_small n a : bounded d a -> prem_from n g d a = a.
Proof.
  intros Hb; induction n as [|n IH]; cbn [prem_from]; [reflexivity|].
  rewrite Hb by lia. exact IH.
Qed.

(* multiples of g: xor-combinations of shifted copies *)
Definition span_eval (ks : list N) : N :=
  fold_right (fun k acc => N.lxor (N.shiftl g k) acc) 0 ks.

Lemma span_app ks1 ks2 : span_eval (ks1 ++ ks2) = N.lxor (span_eval ks1) (span_eval ks2).
Proof.
  induction ks1 as [|k ks IH]; cbn [span_eval fold_right app].
  - rewrite N.lxor_0_l. reflexivity.
  - fold (span_eval (ks ++ ks2)). fold (span_eval ks). rewrite IH, N.lxor_assoc. reflexivity.
Qed.

Lemma span_shift ks j : N.shiftl (span_eval ks) j = span_eval (map (fun k => k + j) ks).
Proof.
  induction ks as [|k ks IH]; cbn [span_eval fold_right map].
  - apply N.shiftl_0_l.
  - fold (span_eval ks). fold (span_eval (map (fun k => k + j) ks)).
    rewrite N.shiftl_lxor, N.shiftl_shiftl, IH. reflexivity.
Qed.

Lemma prem_from_quot n a : exists ks, a = N.lxor (prem_from n g d a) (span_eval ks).
Proof.
  revert a; induction n as [|n IH]; intros a; cbn [prem_from].
  - exists []. cbn. rewrite N.lxor_0_r. reflexivity.
  - destruct (N.testbit a (d + N.of_nat n)).
    + destruct (IH (N.lxor a (N.shiftl g (N.of_nat n)))) as [ks Hks].
      exists (N.of_nat n :: ks). cbn [span_eval fold_right]. fold (span_eval ks).
      rewrite (N.lxor_comm (N.shiftl g _)), <- N.lxor_assoc, <- Hks.
      rewrite N.lxor_assoc, N.lxor_nilpotent, N.lxor_0_r. reflexivity.
    + apply IH.
Qed.

(* ---- the wrapper with its own fuel ---- *)

Lemma size_bounded a : bounded (d + N.of_nat (N.to_nat (N.size a))) a.
Proof.
  apply bounded_lt. rewrite N2Nat.id.
  eapply N.lt_le_trans; [apply N.size_gt|]. apply N.pow_le_mono_r; lia.
Qed.

Lemma prem_fuel a n : bounded (d + N.of_nat n) a -> prem g d a = prem_from n g d a.
Proof.
  intros Hb. unfold prem.
  destruct (Nat.le_ge_cases n (N.to_nat (N.size a))) as [H|H].
  - apply prem_from_more; assumption.
  - symmetry. apply prem_from_more; [apply size_bounded | exact H].
Qed.

Lemma prem_bounded a : bounded d (prem g d a).
Proof. apply prem_from_bounded, size_bounded. Qed.

Lemma prem_lt a : prem g d a < 2 ^ d.
Proof. apply lt_bounded, prem_bounded. Qed.

Lemma prem_small a : a < 2 ^ d -> prem g d a = a.
Proof. intros H. apply prem_from_small, bounded_lt, H. Qed.

Lemma prem_0 : prem g d 0 = 0.
Proof. apply prem_from_0. Qed.

Lemma common_fuel a b : exists n, bounded (d + N.of_nat n) a /\ bounded (d + N.of_nat n) b.
Proof.
  exists (N.to_nat (N.size a) + N.to_nat (N.size b))%nat. split.
  - eapply bounded_mono; [|apply size_bounded]. lia.
  - eapply bounded_mono; [|apply size_bounded]. lia.
Qed.

Lemma prem_lxor a b : prem g d (N.lxor a b) = N.lxor (prem g d a) (prem g d b).
Proof.
  destruct (common_fuel a b) as [n [Ha Hb]].
  rewrite (prem_fuel a n Ha), (prem_fuel b n Hb), (prem_fuel (N.lxor a b) n).
  - apply prem_from_lxor.
  - apply bounded_lxor; assumption.
Qed.

Lemma prem_gshift k : prem g d (N.shiftl g k) = 0.
Proof.
  assert (Hb : bounded (d + N.of_nat (S (N.to_nat k))) (N.shiftl g k)).
  { intros i Hi. apply g_shift_above. lia. }
  rewrite (prem_fuel _ _ Hb).
  rewrite <- (N.lxor_0_l (N.shiftl g k)), prem_from_add_g by lia. apply prem_from_0.
Qed.

Lemma prem_span ks : prem g d (span_eval ks) = 0.
Proof.
  induction ks as [|k ks IH]; cbn [span_eval fold_right]; [apply prem_0|].
  fold (span_eval ks). rewrite prem_lxor, prem_gshift, IH. reflexivity.
Qed.

(* congruence modulo g *)
Definition cong (a b : N) : Prop := exists ks, a = N.lxor b (span_eval ks).

Lemma cong_prem a b : cong a b -> prem g d a = prem g d b.
Proof. intros [ks ->]. rewrite prem_lxor, prem_span, N.lxor_0_r. reflexivity. Qed.

Lemma cong_prem_self a : cong a (prem g d a).
Proof. unfold prem. apply prem_from_quot. Qed.

Lemma cong_shift a b j : cong a b -> cong (N.shiftl a j) (N.shiftl b j).
Proof.
  intros [ks ->]. exists (map (fun k => k + j) ks).
  rewrite N.shiftl_lxor, span_shift. reflexivity.
Qed.

Lemma cong_lxor a b c : cong a b -> cong (N.lxor a c) (N.lxor b c).
Proof.
  intros [ks ->]. exists ks.
  rewrite !N.lxor_assoc. f_equal. apply N.lxor_comm.
Qed.

(* prem of a shifted value only depends on the remainder of the value *)
Lemma prem_shift_prem a j : prem g d (N.shiftl (prem g d a) j) = prem g d (N.shiftl a j).
Proof. symmetry. apply cong_prem, cong_shift, cong_prem_self. Qed.

(* prem is idempotent *)
Lemma prem_prem a : prem g d (prem g d a) = prem g d a.
Proof. apply prem_small, prem_lt. Qed.

(* x is invertible modulo g when g has a constant term *)
Hypothesis Hodd : N.testbit g 0 = true.
Hypothesis Hd : 0 < d.
Set Default Proof Using "Hg Hodd Hd".

Lemma prem_shift1_nonzero a : prem g d (N.shiftl a 1) = 0 -> prem g d a = 0.
Proof.
  rewrite <- prem_shift_prem. set (r := prem g d a).
  assert (Hr : bounded d r) by apply prem_bounded.
  assert (Hb : bounded (d + N.of_nat 1) (N.shiftl r 1)).
  { replace (d + N.of_nat 1) with (d + 1) by lia. apply bounded_shiftl, Hr. }
  rewrite (prem_fuel _ 1%nat Hb). cbn [prem_from N.of_nat]. rewrite N.add_0_r, N.shiftl_0_r.
  destruct (N.testbit (N.shiftl r 1) d) eqn:Et; intros H.
  - exfalso. apply N.lxor_eq in H.
    assert (Hc : N.testbit (N.shiftl r 1) 0 = N.testbit g 0) by (rewrite H; reflexivity).
    rewrite N.shiftl_spec_low in Hc by lia. rewrite Hodd in Hc. discriminate.
  - apply N.bits_inj_0. intro i.
    assert (Hi : N.testbit (N.shiftl r 1) (i + 1) = false) by (rewrite H; apply N.bits_0).
    rewrite N.shiftl_spec_high' in Hi by lia. replace (i + 1 - 1) with i in Hi by lia. exact Hi.
Qed.

Lemma prem_shift_nonzero k a : prem g d (N.shiftl a (N.of_nat k)) = 0 -> prem g d a = 0.
Proof.
  induction k as [|k IH]; intros H.
  - rewrite N.shiftl_0_r in H. exact H.
  - apply IH. apply prem_shift1_nonzero.
    rewrite N.shiftl_shiftl. replace (N.of_nat k + 1) with (N.of_nat (S k)) by lia. exact H.
Qed.

(* a burst narrower than the divisor is never a multiple of it *)
Lemma burst_nonzero b i : b <> 0 -> b < 2 ^ d -> prem g d (N.shiftl b i) <> 0.
Proof.
  intros Hb Hlt H. rewrite <- (N2Nat.id i) in H. apply prem_shift_nonzero in H.
  rewrite prem_small in H by exact Hlt. contradiction.
Qed.

End Division.
