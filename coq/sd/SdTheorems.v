(* PROOFS, part 3: the statements of C13/C14 in their final form, assembled from
   SdBound / SdSafety / SdCapacity (property files only `exact` these). *)
From Coq Require Import NArith List Bool Lia.
From SdSd Require Import Poly CrcModel CrcProofs SdModel SdSpec SdBound SdSafety SdCapacity.
Import ListNotations.
Open Scope N_scope.

Lemma bounded_total (dstate : Type) (spi : dstate -> spi_call -> dstate * spi_reply)
    (o : opts) (c : api_call) (s s' : st dstate) (r : outcome api_value) :
  api dstate spi o c s = (r, s') ->
  r <> Panic /\ tbytes (tr s') <= tbytes (tr s) + bound o c.
Proof. exact (api_costs dstate spi o c s r s'). Qed.

Lemma transport_all (dstate : Type) (spi : dstate -> spi_call -> dstate * spi_reply) (o : opts) :
  tp dstate (acquire_inner dstate spi o) /\
  tp dstate (num_blocks_inner dstate spi o) /\
  tp dstate (num_bytes_inner dstate spi o) /\
  tp dstate (erase_single_block_enabled_inner dstate spi o) /\
  (forall c a, tp dstate (card_command dstate spi c a)) /\
  (forall len, tp dstate (read_data dstate spi o len)) /\
  (forall tok buf, tp dstate (write_data dstate spi o tok buf)) /\
  (forall n idx, tpw dstate (read_inner dstate spi o n idx)) /\
  (forall blocks idx, tpw dstate (write_inner dstate spi o blocks idx)).
Proof.
  repeat split.
  - exact (tp_acquire_inner dstate spi o).
  - exact (tp_num_blocks_inner dstate spi o).
  - exact (tp_num_bytes_inner dstate spi o).
  - exact (tp_erase_single dstate spi o).
  - exact (tp_card_command dstate spi).
  - exact (tp_read_data dstate spi o).
  - exact (tp_write_data dstate spi o).
  - exact (tpw_read_inner dstate spi o).
  - exact (tpw_write_inner dstate spi o).
Qed.

Lemma detects_burst_read (dstate : Type) (spi : dstate -> spi_call -> dstate * spi_reply) (o : opts)
    (len : nat) (s s' : st dstate) (r : outcome (list N)) (d ed : list N) (ec b i : N) (rest : list event) :
  use_crc o = true -> read_data dstate spi o len s = (r, s') ->
  tr s' = Ev (TransferInPlace [255;255]) (Bytes (be16 (N.lxor (crc16 d) ec))) ::
          Ev (TransferInPlace (repeat 255 len)) (Bytes (xor_bytes d ed)) :: rest ->
  length d = len -> length ed = len -> bytes d -> bytes ed -> ec < 65536 ->
  b <> 0 -> b < 2 ^ 16 -> msg_poly ed * 65536 + ec = N.shiftl b i ->
  exists x y, r = Err (CrcError x y).
Proof.
  intros Hc E Ht Hd Hed Bd Bed Hec Hb0 Hb HE.
  apply (corrupted_result dstate spi o len s r s' d ed ec rest); try assumption.
  apply (crc16_detects_burst d ed ec b i); try assumption. congruence.
Qed.

Lemma detects_double_read (dstate : Type) (spi : dstate -> spi_call -> dstate * spi_reply) (o : opts)
    (s s' : st dstate) (r : outcome (list N)) (d ed : list N) (ec i j : N) (rest : list event) :
  use_crc o = true -> read_data dstate spi o 512 s = (r, s') ->
  tr s' = Ev (TransferInPlace [255;255]) (Bytes (be16 (N.lxor (crc16 d) ec))) ::
          Ev (TransferInPlace (repeat 255 512)) (Bytes (xor_bytes d ed)) :: rest ->
  length d = 512%nat -> length ed = 512%nat -> bytes d -> bytes ed -> ec < 65536 ->
  i < j -> j < 4112 -> msg_poly ed * 65536 + ec = N.lxor (2 ^ i) (2 ^ j) ->
  exists x y, r = Err (CrcError x y).
Proof.
  intros Hc E Ht Hd Hed Bd Bed Hec Hij Hj HE.
  apply (corrupted_result dstate spi o 512 s r s' d ed ec rest); try assumption.
  apply (crc16_detects_double d ed ec i j); try assumption.
  - congruence.
  - rewrite Hd. exact Hj.
  - rewrite Hd. discriminate.
Qed.

Lemma write_rejected (dstate : Type) (spi : dstate -> spi_call -> dstate * spi_reply) (o : opts)
    (tok : N) (buf : list N) (s s' : st dstate) (r : outcome unit) (l : list N) (rest : list event) :
  write_data dstate spi o tok buf s = (r, s') ->
  tr s' = Ev (Transfer [255]) (Bytes l) :: rest ->
  N.land (nth 0 (fit [0] l) 0) 31 <> 5 -> r = Err WriteError.
Proof.
  intros E Ht Hst.
  destruct (write_data_cases dstate spi o tok buf s r s' E) as (d' & _ & _ & H).
  destruct H as [[T _]|[(m0 & T & _)|[(m0 & m1 & T & _)|[(m0 & m1 & m2 & T & _)|(m0 & m1 & m2 & l' & T & R)]]]];
    rewrite T in Ht; try discriminate.
  assert (l' = l) by (inversion Ht; reflexivity). subst l'.
  apply N.eqb_neq in Hst. unfold DATA_RES_MASK, DATA_RES_ACCEPTED in R.
  rewrite Hst in R. exact R.
Qed.

Lemma bad_token (dstate : Type) (spi : dstate -> spi_call -> dstate * spi_reply) (o : opts)
    (len : nat) (s s' : st dstate) (r : outcome (list N)) (l : list N) (rest : list event) :
  read_data dstate spi o len s = (r, s') ->
  tr s' = Ev (Transfer [255]) (Bytes l) :: rest ->
  nth 0 (fit [0] l) 0 <> 255 -> nth 0 (fit [0] l) 0 <> 254 -> r = Err ReadError.
Proof.
  intros E Ht H1 H2.
  destruct (read_data_cases dstate spi o len s r s' E)
    as [(d' & rp & rest' & -> & H)|[(d' & rest' & -> & H)|[(d' & dat & rest' & -> & H)|(d' & dat & crcb & rest' & -> & H)]]];
    cbn [tr mk] in Ht; try discriminate.
  inversion Ht; subst. cbv zeta in H. destruct H as [[H _]|(_ & _ & H)]; [contradiction|exact H].
Qed.

(* a single-block write returns Ok only if the card accepted command, data block and
   reported a clean status: R1 of CMD24 = 0, data response accepted, CMD13 -> 00 00 *)
Section WriteStatus.
  Variable dstate : Type.
  Variable spi : dstate -> spi_call -> dstate * spi_reply.
  Variable o : opts.

  Lemma write1_ok_inv b idx s s' :
    write_inner dstate spi o [b] idx s = (Ok tt, s') ->
    exists a s0 s1 s2 s3 s4,
      start_idx dstate idx WriteError s = (Ok a, s0) /\
      card_command dstate spi CMD24 a s0 = (Ok 0, s1) /\
      write_data dstate spi o DATA_START_BLOCK b s1 = (Ok tt, s2) /\
      wait_not_busy dstate spi (N.to_nat WRITE_RETRIES) s2 = (Ok tt, s3) /\
      card_command dstate spi CMD13 0 s3 = (Ok 0, s4) /\
      read_byte dstate spi s4 = (Ok 0, s').
  Proof.
    unfold write_inner. intros E.
    apply bind_ok in E. destruct E as (a & s0 & E0 & E).
    apply bind_ok in E. destruct E as (r & s1 & E1 & E).
    destruct (N.eqb_spec r 0) as [->|Hr]; cbn [negb] in E; [|discriminate].
    apply bind_ok in E. destruct E as ([] & s2 & E2 & E).
    apply bind_ok in E. destruct E as ([] & s3 & E3 & E).
    apply bind_ok in E. destruct E as (r' & s4 & E4 & E).
    destruct (N.eqb_spec r' 0) as [->|Hr']; cbn [negb] in E; [|discriminate].
    apply bind_ok in E. destruct E as (r2 & s5 & E5 & E).
    destruct (N.eqb_spec r2 0) as [->|Hr2]; cbn [negb] in E; [|discriminate].
    inversion E; subst. exists a, s0, s1, s2, s3, s4. repeat split; assumption.
  Qed.
End WriteStatus.
