(* PROOFS, part 6: initialisation of LEGALCARD by the driver, for every kind, CRC mode
   and legal timing (C12_init), with the rule checker following along (C14). *)
From Coq Require Import NArith Arith List Lia Bool ZArith.
From SdSd Require Import Poly CrcModel CrcProofs SdModel SdSpec SdBound SdSafety SdCapacity SdCardLemmas SdSystem.
Import ListNotations.
Open Scope N_scope.

Section Init.
  Variable o : opts.
  Variable kd : kind.
  Variable csd : list N.
  Variable tim : timing.
  Hypothesis Htim : legal_timing tim.

  Lemma ncr_ok k : (t_ncr tim k <= N.to_nat COMMAND_RETRIES)%nat.
  Proof. apply le8_RC. exact (proj1 (Htim k)). Qed.

  Notation MKC := (mkc kd csd tim).

  (* ---- step 1: CMD0 ------------------------------------------------------------------ *)
  Lemma enter_spi_mode_sys n c t ct h :
    k_kind c = kd -> k_csd c = csd -> k_tim c = tim ->
    c_fbuf c = [] -> c_phase c = PIdle -> mon t = inl h -> h_mode h = HFree ->
    exists t', enter_spi_mode card card_spi n (sys c t ct) =
                 (Ok tt, sys (MKC (c_mem c) true false false (t_init tim (c_tick c)) false (c_tick c + 1) [] PIdle) t' ct) /\
               mon t' = inl (mkh HFree 1 (IIdle false) false false).
  Proof.
    intros Hk Hc Ht Hf Hp Hm Hmode.
    destruct (card_command0_sys c t ct h
                (MKC (c_mem c) true false false (t_init tim (c_tick c)) false (c_tick c + 1)
                     (FF (t_ncr tim (c_tick c)) ++ [1]) PIdle)
                (t_ncr tim (c_tick c)) 1 [] Hf Hp) as (t' & E & M); try reflexivity; try assumption.
    - destruct c; cbn in Hk, Hc, Ht, Hf, Hp |- *; subst. unfold exec. cbn -[FF BUSY t_ncr t_init]. reflexivity.
    - apply ncr_ok.
    - exists t'. split.
      + assert (R : forall m, attempt card (card_command card card_spi CMD0 0) (sys c t ct) = m ->
                     m = (Ok (Ok 1), sys (MKC (c_mem c) true false false (t_init tim (c_tick c)) false (c_tick c + 1) [] PIdle) t' ct)).
        { intros m <-. unfold attempt. rewrite E. reflexivity. }
        destruct n; cbn [enter_spi_mode]; unfold bind; rewrite (R _ eq_refl); reflexivity.
      + rewrite M. reflexivity.
  Qed.

  (* ---- step 2: CMD59 (only when CRC is on) ------------------------------------------------ *)
  Lemma cmd59_sys mem il tk k t ct last :
    (k <= N.to_nat COMMAND_RETRIES)%nat ->
    mon t = inl (mkh HFree last (IIdle false) false false) ->
    exists t', card_command card card_spi CMD59 1 (sys (MKC mem true false false il false tk (BUSY k) PIdle) t ct) =
                 (Ok 1, sys (MKC mem true true false il false (tk + 1) [] PIdle) t' ct) /\
               mon t' = inl (mkh HFree 1 (IIdle true) true false).
  Proof.
    intros Hk Hm.
    destruct (card_command_sys 59 1 k (MKC mem true false false il false tk (BUSY k) PIdle) t ct
                (mkh HFree last (IIdle false) false false)
                (MKC mem true true false il false (tk + 1) (FF (t_ncr tim tk) ++ [1]) PIdle)
                (t_ncr tim tk) 1 []) as (t' & E & M); try reflexivity; try assumption; try discriminate.
    - apply ncr_ok.
    - exists t'. split; [exact E|]. rewrite M. reflexivity.
  Qed.

  Lemma mon_inplace t out ms : mon (Ev (TransferInPlace out) (Bytes ms) :: t) =
    match mon t with inl h => hbytes false h out (fit out ms) true | inr c => inr c end.
  Proof. rewrite mon_cons. destruct (mon t); reflexivity. Qed.

  Lemma kind_eq_dec (a b : kind) : {a = b} + {a <> b}.
  Proof. decide equality. Qed.

  (* ---- step 3: CMD8 ---------------------------------------------------------------------- *)
  Definition version_of (k : kind) : card_type * N :=
    match k with V1SC => (SD1, 0) | _ => (SD2, 1073741824) end.
  Definition is_v2 (k : kind) : bool := match k with V1SC => false | _ => true end.

  Lemma check_version_sys n mem crc il tk k t ct last cd :
    (k <= N.to_nat COMMAND_RETRIES)%nat ->
    mon t = inl (mkh HFree last (IIdle cd) crc false) ->
    exists t', check_version card card_spi n (sys (MKC mem true crc false il false tk (BUSY k) PIdle) t ct) =
                 (Ok (version_of kd), sys (MKC mem true crc false il false (tk + 1) [] PIdle) t' ct) /\
               exists last', mon t' = inl (mkh HFree last' (IVersion (is_v2 kd)) crc false).
  Proof.
    intros Hk Hm.
    assert (V1 : kd = V1SC -> exists t', card_command card card_spi CMD8 426 (sys (MKC mem true crc false il false tk (BUSY k) PIdle) t ct) =
                 (Ok 5, sys (MKC mem true crc false il false (tk + 1) [] PIdle) t' ct) /\
               mon t' = inl (mkh HFree 5 (IVersion false) crc false)).
    { intros ->.
      destruct (card_command_sys 8 426 k (mkc V1SC csd tim mem true crc false il false tk (BUSY k) PIdle) t ct
                  (mkh HFree last (IIdle cd) crc false)
                  (mkc V1SC csd tim mem true crc false il false (tk + 1) (FF (t_ncr tim tk) ++ [5]) PIdle)
                  (t_ncr tim tk) 5 []) as (t' & E & M); try reflexivity; try assumption; try discriminate.
      - apply ncr_ok.
      - exists t'. split; [exact E|]. rewrite M. reflexivity. }
    assert (V2 : kd <> V1SC -> exists t', card_command card card_spi CMD8 426 (sys (MKC mem true crc false il false tk (BUSY k) PIdle) t ct) =
                 (Ok 1, sys (MKC mem true crc false il false (tk + 1) [0;0;1;170] PIdle) t' ct) /\
               mon t' = inl (mkh (HTail 8 0 4) 1 (IIdle cd) crc false)).
    { intros Hne.
      destruct (card_command_sys 8 426 k (MKC mem true crc false il false tk (BUSY k) PIdle) t ct
                  (mkh HFree last (IIdle cd) crc false)
                  (MKC mem true crc false il false (tk + 1) (FF (t_ncr tim tk) ++ [1;0;0;1;170]) PIdle)
                  (t_ncr tim tk) 1 [0;0;1;170]) as (t' & E & M); try reflexivity; try assumption; try discriminate.
      - destruct kd; [congruence|reflexivity|reflexivity].
      - apply ncr_ok.
      - exists t'. split; [exact E|]. rewrite M. reflexivity. }
    assert (TB : forall t', transfer_bytes card card_spi [255;255;255;255]
                    (sys (MKC mem true crc false il false (tk + 1) [0;0;1;170] PIdle) t' ct) =
                  (Ok [0;0;1;170], sys (MKC mem true crc false il false (tk + 1) [] PIdle)
                                       (Ev (TransferInPlace [255;255;255;255]) (Bytes [0;0;1;170]) :: t') ct)).
    { intros t'.
      exact (transfer_bytes_sys (MKC mem true crc false il false (tk + 1) [0;0;1;170] PIdle) t' ct [255;255;255;255]
               (MKC mem true crc false il false (tk + 1) [] PIdle) [0;0;1;170]
               (card_bytes_queue [0;0;1;170] (MKC mem true crc false il false (tk + 1) [0;0;1;170] PIdle) [] eq_refl eq_refl)). }
    destruct (kind_eq_dec kd V1SC) as [Ek|Ek].
    - destruct (V1 Ek) as (t' & E & M). exists t'. split.
      + replace (version_of kd) with (SD1, 0) by (rewrite Ek; reflexivity).
        destruct n; cbn [check_version]; unfold bind at 1; rewrite E; reflexivity.
      + exists 5. rewrite M. replace (is_v2 kd) with false by (rewrite Ek; reflexivity). reflexivity.
    - destruct (V2 Ek) as (t' & E & M).
      eexists. split.
      + replace (version_of kd) with (SD2, 1073741824) by (destruct kd; [congruence|reflexivity|reflexivity]).
        destruct n; cbn [check_version]; unfold bind at 1; rewrite E;
          change (1 =? N.lor R1_ILLEGAL_COMMAND R1_IDLE_STATE) with false; cbv iota;
          unfold bind at 1; rewrite TB; reflexivity.
      + exists 170. rewrite mon_inplace, M.
        replace (is_v2 kd) with true by (destruct kd; [congruence|reflexivity|reflexivity]). reflexivity.
  Qed.

  (* ---- step 4: CMD55 + ACMD41 until ready ------------------------------------------------- *)
  Lemma cmd55_sys mem idle crc il tk k t ct last st :
    (k <= N.to_nat COMMAND_RETRIES)%nat ->
    mon t = inl (mkh HFree last st crc false) -> (st = IReady \/ exists v, st = IVersion v) ->
    exists t', card_command card card_spi CMD55 0 (sys (MKC mem idle crc false il false tk (BUSY k) PIdle) t ct) =
                 (Ok (if idle then 1 else 0), sys (MKC mem idle crc true il false (tk + 1) [] PIdle) t' ct) /\
               mon t' = inl (mkh HFree (if idle then 1 else 0) st crc true).
  Proof.
    intros Hk Hm Hst.
    destruct (card_command_sys 55 0 k (MKC mem idle crc false il false tk (BUSY k) PIdle) t ct
                (mkh HFree last st crc false)
                (MKC mem idle crc true il false (tk + 1) (FF (t_ncr tim tk) ++ [if idle then 1 else 0]) PIdle)
                (t_ncr tim tk) (if idle then 1 else 0) []) as (t' & E & M);
      try reflexivity; try assumption; try discriminate; try apply ncr_ok;
      try (destruct idle; reflexivity); try (destruct Hst as [->|[v ->]]; reflexivity).
    exists t'. split; [exact E|]. rewrite M. destruct idle; reflexivity.
  Qed.

  Definition ready_stage (k : kind) : istage := if is_v2 k then IOpReady else IReady.

  Lemma acmd41_sys mem crc il tk k t ct last :
    (k <= N.to_nat COMMAND_RETRIES)%nat ->
    mon t = inl (mkh HFree last (IVersion (is_v2 kd)) crc true) ->
    exists t', card_command card card_spi ACMD41 (snd (version_of kd))
                 (sys (MKC mem true crc true il false tk (BUSY k) PIdle) t ct) =
                 (Ok (match il with O => 0 | S _ => 1 end),
                  sys (MKC mem (match il with O => false | S _ => true end) crc false (pred il) false (tk + 1) [] PIdle) t' ct) /\
               mon t' = inl (mkh HFree (match il with O => 0 | S _ => 1 end)
                                 (match il with O => ready_stage kd | S _ => IVersion (is_v2 kd) end) crc false).
  Proof.
    intros Hk Hm.
    destruct (card_command_sys 41 (snd (version_of kd)) k (MKC mem true crc true il false tk (BUSY k) PIdle) t ct
                (mkh HFree last (IVersion (is_v2 kd)) crc true)
                (MKC mem (match il with O => false | S _ => true end) crc false (pred il) false (tk + 1)
                     (FF (t_ncr tim tk) ++ [match il with O => 0 | S _ => 1 end]) PIdle)
                (t_ncr tim tk) (match il with O => 0 | S _ => 1 end) []) as (t' & E & M);
      try reflexivity; try assumption; try discriminate; try apply ncr_ok;
      try (destruct kd, il; reflexivity).
    exists t'. split; [exact E|]. rewrite M. unfold ready_stage. destruct kd, il; reflexivity.
  Qed.

  Lemma wait_ready_sys mem crc : forall il n tk k t ct last,
    (il <= n)%nat -> (k <= N.to_nat COMMAND_RETRIES)%nat ->
    mon t = inl (mkh HFree last (IVersion (is_v2 kd)) crc false) ->
    exists t' tk', wait_ready card card_spi n (snd (version_of kd))
                     (sys (MKC mem true crc false il false tk (BUSY k) PIdle) t ct) =
                   (Ok tt, sys (MKC mem false crc false O false tk' [] PIdle) t' ct) /\
               exists last', mon t' = inl (mkh HFree last' (ready_stage kd) crc false).
  Proof.
    induction il as [|il IH]; intros n tk k t ct last Hn Hk Hm.
    - destruct (cmd55_sys mem true crc O tk k t ct last _ Hk Hm (or_intror (ex_intro _ _ eq_refl))) as (t1 & E1 & M1).
      destruct (acmd41_sys mem crc O (tk + 1) O t1 ct 1 ltac:(lia) M1) as (t2 & E2 & M2).
      change (BUSY 0) with (@nil N) in E2.
      exists t2, (tk + 1 + 1). split.
      + destruct n; cbn [wait_ready]; unfold bind at 1, card_acmd, bind at 1; rewrite E1; rewrite E2; reflexivity.
      + exists 0. exact M2.
    - destruct n as [|n]; [lia|].
      destruct (cmd55_sys mem true crc (S il) tk k t ct last _ Hk Hm (or_intror (ex_intro _ _ eq_refl))) as (t1 & E1 & M1).
      destruct (acmd41_sys mem crc (S il) (tk + 1) O t1 ct 1 ltac:(lia) M1) as (t2 & E2 & M2).
      cbn [pred] in E2. change (BUSY 0) with (@nil N) in E2.
      destruct (IH n (tk + 1 + 1) O (Ev (DelayUs 10) (Bytes []) :: t2) ct 1 ltac:(lia) ltac:(lia)) as (t3 & tk3 & E3 & M3).
      { rewrite mon_delay. exact M2. }
      change (BUSY 0) with (@nil N) in E3.
      exists t3, tk3. split; [|exact M3].
      cbn [wait_ready]. unfold bind at 1, card_acmd, bind at 1. rewrite E1. rewrite E2.
      change (1 =? R1_READY_STATE) with false. cbv iota. unfold bind at 1. rewrite delay_sys. exact E3.
  Qed.

  (* ---- step 5: CMD58 on version 2 cards, and the whole of acquire ---------------------------- *)
  Definition type_of (k : kind) : card_type := match k with V1SC => SD1 | V2SC => SD2 | V2HC => SDHC end.
  Definition ocr0_of (k : kind) : N := match k with V2HC => 192 | _ => 128 end.

  Lemma cmd58_sys mem crc tk k t ct last :
    (k <= N.to_nat COMMAND_RETRIES)%nat ->
    mon t = inl (mkh HFree last IOpReady crc false) ->
    exists t', card_command card card_spi CMD58 0 (sys (MKC mem false crc false O false tk (BUSY k) PIdle) t ct) =
                 (Ok 0, sys (MKC mem false crc false O false (tk + 1) [ocr0_of kd; 255; 128; 0] PIdle) t' ct) /\
               mon t' = inl (mkh (HTail 58 0 4) 0 IOpReady crc false).
  Proof.
    intros Hk Hm.
    destruct (card_command_sys 58 0 k (MKC mem false crc false O false tk (BUSY k) PIdle) t ct
                (mkh HFree last IOpReady crc false)
                (MKC mem false crc false O false (tk + 1) (FF (t_ncr tim tk) ++ [0; ocr0_of kd; 255; 128; 0]) PIdle)
                (t_ncr tim tk) 0 [ocr0_of kd; 255; 128; 0]) as (t' & E & M);
      try reflexivity; try assumption; try discriminate; try apply ncr_ok; try (destruct kd; reflexivity).
    exists t'. split; [exact E|]. rewrite M. reflexivity.
  Qed.

  Lemma acquire_probe_sys c t ct h :
    k_kind c = kd -> k_csd c = csd -> k_tim c = tim ->
    c_fbuf c = [] -> c_phase c = PIdle -> mon t = inl h -> h_mode h = HFree ->
    exists t' tk', acquire_probe card card_spi o (sys c t ct) =
                 (Ok (type_of kd), sys (MKC (c_mem c) false (use_crc o) false O false tk' [] PIdle) t' ct) /\
               exists last', mon t' = inl (mkh HFree last' IReady (use_crc o) false).
  Proof.
    intros Hk Hc Ht Hf Hp Hm Hmode. unfold acquire_probe.
    destruct (enter_spi_mode_sys (N.to_nat (acquire_retries o)) c t ct h Hk Hc Ht Hf Hp Hm Hmode) as (t1 & E1 & M1).
    unfold bind at 1. rewrite E1.
    set (mem := c_mem c). set (il := t_init tim (c_tick c)). set (tk := c_tick c + 1).
    assert (Hil : (il <= N.to_nat COMMAND_RETRIES)%nat) by (apply (Htim (c_tick c))).
    (* CMD59 *)
    assert (S2 : exists t2 tk2, (if use_crc o
                  then bind card (card_command card card_spi CMD59 1) (fun r =>
                       if negb (r =? R1_IDLE_STATE) then fail card CantEnableCRC else ret card tt)
                  else ret card tt) (sys (MKC mem true false false il false tk [] PIdle) t1 ct) =
                 (Ok tt, sys (MKC mem true (use_crc o) false il false tk2 [] PIdle) t2 ct) /\
                 exists last cd, mon t2 = inl (mkh HFree last (IIdle cd) (use_crc o) false)).
    { destruct (use_crc o).
      - destruct (cmd59_sys mem il tk O t1 ct 1 ltac:(lia) M1) as (t2 & E2 & M2).
        change (BUSY 0) with (@nil N) in E2. exists t2, (tk + 1). split.
        + unfold bind. rewrite E2. reflexivity.
        + exists 1, true. exact M2.
      - exists t1, tk. split; [reflexivity|]. exists 1, false. exact M1. }
    destruct S2 as (t2 & tk2 & E2 & last2 & cd & M2).
    unfold bind at 1. rewrite E2.
    (* CMD8 *)
    destruct (check_version_sys (N.to_nat COMMAND_RETRIES) mem (use_crc o) il tk2 O t2 ct last2 cd ltac:(lia) M2)
      as (t3 & E3 & last3 & M3).
    change (BUSY 0) with (@nil N) in E3. unfold bind at 1. rewrite E3.
    (* ACMD41 *)
    destruct (wait_ready_sys mem (use_crc o) il (N.to_nat COMMAND_RETRIES) (tk2 + 1) O t3 ct last3 Hil ltac:(lia) M3)
      as (t4 & tk4 & E4 & last4 & M4).
    change (BUSY 0) with (@nil N) in E4.
    replace (version_of kd) with (fst (version_of kd), snd (version_of kd)) by (destruct (version_of kd); reflexivity).
    unfold bind at 1. rewrite E4.
    (* CMD58 *)
    pose proof (cmd58_sys mem (use_crc o) tk4 O t4 ct last4 ltac:(lia)) as C58.
    destruct kd eqn:Ek; cbn [version_of fst type_of].
    - exists t4, tk4. split; [reflexivity|]. exists last4. exact M4.
    - destruct (C58 M4) as (t5 & E5 & M5).
      change (BUSY 0) with (@nil N) in E5. cbn [ocr0_of] in E5.
      eexists _, (tk4 + 1). split.
      + unfold bind at 1. unfold CMD58 in *. rewrite E5. cbn [negb N.eqb]. unfold bind at 1.
        rewrite (transfer_bytes_sys _ t5 ct [255;255;255;255] (mkc V2SC csd tim mem false (use_crc o) false O false (tk4 + 1) [] PIdle) [128;255;128;0]
                   (card_bytes_queue [128;255;128;0] (mkc V2SC csd tim mem false (use_crc o) false O false (tk4 + 1) [128;255;128;0] PIdle) [] eq_refl eq_refl)).
        reflexivity.
      + exists 0. rewrite mon_inplace, M5. reflexivity.
    - destruct (C58 M4) as (t5 & E5 & M5).
      change (BUSY 0) with (@nil N) in E5. cbn [ocr0_of] in E5.
      eexists _, (tk4 + 1). split.
      + unfold bind at 1. unfold CMD58 in *. rewrite E5. cbn [negb N.eqb]. unfold bind at 1.
        rewrite (transfer_bytes_sys _ t5 ct [255;255;255;255] (mkc V2HC csd tim mem false (use_crc o) false O false (tk4 + 1) [] PIdle) [192;255;128;0]
                   (card_bytes_queue [192;255;128;0] (mkc V2HC csd tim mem false (use_crc o) false O false (tk4 + 1) [192;255;128;0] PIdle) [] eq_refl eq_refl)).
        reflexivity.
      + exists 0. rewrite mon_inplace, M5. reflexivity.
  Qed.

  Lemma mkc_quiet_byte mem idle crc app il tk :
    card_byte (MKC mem idle crc app il false tk [] PIdle) 255 = (MKC mem idle crc app il false tk [] PIdle, 255).
  Proof. apply card_byte_quiet; [reflexivity|reflexivity|left; reflexivity]. Qed.

  (* C12_init, in full: from any card state in which CMD0 can be received *)
  Lemma acquire_sys c t h :
    k_kind c = kd -> k_csd c = csd -> k_tim c = tim ->
    c_fbuf c = [] -> c_phase c = PIdle -> mon t = inl h -> h_mode h = HFree ->
    exists t' tk', acquire card card_spi o (sys c t None) =
                 (Ok tt, sys (MKC (c_mem c) false (use_crc o) false O false tk' [] PIdle) t' (Some (type_of kd))) /\
               mon t' = inl (mkh HFree 255 IReady (use_crc o) false).
  Proof.
    intros Hk Hc Ht Hf Hp Hm Hmode.
    destruct (acquire_probe_sys c t None h Hk Hc Ht Hf Hp Hm Hmode) as (t1 & tk1 & E1 & last1 & M1).
    eexists _, tk1. split.
    - assert (EI : acquire_inner card card_spi o (sys c t None) =
                   (Ok tt, sys (MKC (c_mem c) false (use_crc o) false O false tk1 [] PIdle) t1 (Some (type_of kd)))).
      { unfold acquire_inner, bind. rewrite E1. reflexivity. }
      unfold acquire. rewrite EI.
      rewrite (read_byte_sys _ t1 (Some (type_of kd)) _ 255 (mkc_quiet_byte (c_mem c) false (use_crc o) false O tk1)).
      reflexivity.
    - rewrite mon_transfer1, M1. reflexivity.
  Qed.

  Lemma check_init_sys c t h :
    k_kind c = kd -> k_csd c = csd -> k_tim c = tim ->
    c_fbuf c = [] -> c_phase c = PIdle -> mon t = inl h -> h_mode h = HFree ->
    exists t' tk', check_init card card_spi o (sys c t None) =
                 (Ok tt, sys (MKC (c_mem c) false (use_crc o) false O false tk' [] PIdle) t' (Some (type_of kd))) /\
               mon t' = inl (mkh HFree 255 IReady (use_crc o) false).
  Proof. intros. unfold check_init, bind, get_ctype. cbn [ctype sys]. eapply acquire_sys; eassumption. Qed.
End Init.
