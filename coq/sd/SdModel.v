(* MODEL of src/sdcard/mod.rs (SdCard / SdCardInner / Delay) and of the CSD part
   of src/sdcard/proto.rs, transcribed function by function.  No proofs here.

   The SPI device and the delayer are ONE function parameter
       spi : dstate -> spi_call -> dstate * spi_reply
   (Section variable).  Every `self.spi.write / transfer / transfer_in_place`
   and every `delayer.delay_us` of the Rust code is one `call` here, in the same
   order and with the same segmentation.  Bytes are N (< 256 by construction on
   the way out, masked with `u8` on the way in).  Every polling loop is a
   structural recursion on the `retries_left` counter of the Rust `Delay`.
   Arithmetic that panics under the dev profile yields `Panic`. *)
From Coq Require Import NArith List Bool.
From SdSd Require Import CrcModel.
Import ListNotations.
Open Scope N_scope.

(* ---- bus vocabulary ------------------------------------------------------ *)
Inductive spi_call :=
| Write (out : list N)             (* SpiDevice::write(&out)                       *)
| Transfer (out : list N)          (* SpiDevice::transfer(&mut [0;len out], &out)  *)
| TransferInPlace (out : list N)   (* SpiDevice::transfer_in_place(&mut out)       *)
| DelayUs (us : N).                (* DelayNs::delay_us(us)                        *)

Inductive spi_reply := Bytes (l : list N) | Fail.

Inductive event := Ev (c : spi_call) (r : spi_reply).

Inductive card_type := SD1 | SD2 | SDHC.

Inductive error :=
| Transport | CantEnableCRC | TimeoutReadBuffer | TimeoutWaitNotBusy
| TimeoutCommand (c : N) | TimeoutACommand (c : N) | Cmd58Error | RegisterReadError
| CrcError (got calc : N) | ReadError | WriteError | BadState | CardNotFound | GpioError.

Inductive outcome (A : Type) := Ok (a : A) | Err (e : error) | Panic.
Arguments Ok {A} a.
Arguments Err {A} e.
Arguments Panic {A}.

(* ---- constants of proto.rs ------------------------------------------------ *)
Definition CMD0 : N := 0.     Definition CMD8 : N := 8.     Definition CMD9 : N := 9.
Definition CMD12 : N := 12.   Definition CMD13 : N := 13.   Definition CMD17 : N := 17.
Definition CMD18 : N := 18.   Definition CMD24 : N := 24.   Definition CMD25 : N := 25.
Definition CMD55 : N := 55.   Definition CMD58 : N := 58.   Definition CMD59 : N := 59.
Definition ACMD23 : N := 23.  Definition ACMD41 : N := 41.
Definition R1_READY_STATE : N := 0.
Definition R1_IDLE_STATE : N := 1.
Definition R1_ILLEGAL_COMMAND : N := 4.
Definition DATA_START_BLOCK : N := 254.
Definition STOP_TRAN_TOKEN : N := 253.
Definition WRITE_MULTIPLE_TOKEN : N := 252.
Definition DATA_RES_MASK : N := 31.
Definition DATA_RES_ACCEPTED : N := 5.

(* Delay::DEFAULT_*_RETRIES *)
Definition READ_RETRIES : N := 10000.
Definition WRITE_RETRIES : N := 50000.
Definition COMMAND_RETRIES : N := 10000.

(* AcquireOpts *)
Record opts := { use_crc : bool; acquire_retries : N }.

(* the buffer a transfer leaves behind: the reply bytes (each a u8), positions
   the device did not fill keep their previous content *)
Fixpoint fit (dflt l : list N) : list N :=
  match dflt with
  | [] => []
  | d :: dflt' => match l with
                  | [] => d :: fit dflt' []
                  | x :: l' => u8 x :: fit dflt' l'
                  end
  end.

(* ---- CSD accessors (structure.rs define_field!/access_field!) -------------- *)
(*  (self.data[off] >> start) & (((1u16 << nbits) - 1) as u8)  *)
Definition field (data : list N) (off : nat) (start nbits : N) : N :=
  N.land (N.shiftr (nth off data 0) start) (u8 (N.shiftl 1 nbits - 1)).
(*  (self.data[off] & (1 << bit)) != 0  *)
Definition field_bool (data : list N) (off : nat) (bit : N) : bool :=
  negb (N.land (nth off data 0) (N.shiftl 1 bit) =? 0).

(*  result <<= nbits; result |= part;   in a `bits`-wide unsigned  *)
Definition acc_field (bits : N) (result : N) (data : list N) (off : nat) (start nbits : N) : N :=
  N.lor (N.land (N.shiftl result nbits) (N.shiftl 1 bits - 1)) (field data off start nbits).

Definition csd_ver (d : list N) : N := field d 0 6 2.
Definition read_block_length (d : list N) : N := field d 5 0 4.
(* CsdV1: define_field!(device_size, u32, [(6, 0, 2), (7, 0, 8), (8, 6, 2)]) *)
Definition v1_device_size (d : list N) : N :=
  acc_field 32 (acc_field 32 (acc_field 32 0 d 6 0 2) d 7 0 8) d 8 6 2.
(* CsdV1: define_field!(device_size_multiplier, u8, [(9, 0, 2), (10, 7, 1)]) *)
Definition v1_device_size_multiplier (d : list N) : N :=
  acc_field 8 (acc_field 8 0 d 9 0 2) d 10 7 1.
(* CsdV2: define_field!(device_size, u32, [(7, 0, 6), (8, 0, 8), (9, 0, 8)]) *)
Definition v2_device_size (d : list N) : N :=
  acc_field 32 (acc_field 32 (acc_field 32 0 d 7 0 6) d 8 0 8) d 9 0 8.
Definition erase_single_block_enabled_field (d : list N) : bool := field_bool d 10 6.

(*  let multiplier = self.device_size_multiplier() + self.read_block_length() + 2;   (u8)
    (u64::from(self.device_size()) + 1) << multiplier                                       *)
Definition v1_capacity_bytes (d : list N) : outcome N :=
  let m := v1_device_size_multiplier d + read_block_length d + 2 in
  if 256 <=? m then Panic else
  if 64 <=? m then Panic else
  Ok (((v1_device_size d + 1) * 2 ^ m) mod 2 ^ 64).
(*  (self.card_capacity_bytes() >> 9) as u32  *)
Definition v1_capacity_blocks (d : list N) : outcome N :=
  match v1_capacity_bytes d with
  | Ok b => Ok ((b / 2 ^ 9) mod 2 ^ 32)
  | Err e => Err e
  | Panic => Panic
  end.
(*  (u64::from(self.device_size()) + 1) * 512 * 1024  *)
Definition v2_capacity_bytes (d : list N) : outcome N :=
  let a := (v2_device_size d + 1) * 512 in
  if 2 ^ 64 <=? a then Panic else
  if 2 ^ 64 <=? a * 1024 then Panic else Ok (a * 1024).
(*  (self.device_size() + 1).saturating_mul(1024)     (u32)  *)
Definition v2_capacity_blocks (d : list N) : outcome N :=
  let a := v2_device_size d + 1 in
  if 2 ^ 32 <=? a then Panic else
  Ok (if 2 ^ 32 <=? a * 1024 then 2 ^ 32 - 1 else a * 1024).

Inductive csd := CsdV1 (d : list N) | CsdV2 (d : list N).

(* ---- the driver ------------------------------------------------------------- *)
Section Driver.
  Variable dstate : Type.
  Variable spi : dstate -> spi_call -> dstate * spi_reply.
  Variable o : opts.

  (* SdCardInner: spi+delayer (dev), card_type; `tr` is the recorded bus trace,
     newest event first (ghost state, never read by the driver) *)
  Record st := { dev : dstate; tr : list event; ctype : option card_type }.

  Definition M (A : Type) : Type := st -> outcome A * st.
  Definition ret {A} (a : A) : M A := fun s => (Ok a, s).
  Definition fail {A} (e : error) : M A := fun s => (Err e, s).
  Definition panic {A} : M A := fun s => (Panic, s).
  Definition bind {A B} (m : M A) (f : A -> M B) : M B :=
    fun s => match m s with
             | (Ok a, s') => f a s'
             | (Err e, s') => (Err e, s')
             | (Panic, s') => (Panic, s')
             end.
  Notation "x <- m ;; f" := (bind m (fun x => f)) (at level 61, m at next level, right associativity).
  Notation "m ;;; f" := (bind m (fun _ => f)) (at level 61, right associativity).

  Definition lift {A} (r : outcome A) : M A := fun s => (r, s).

  (* one call on the SPI device / the delayer *)
  Definition call (c : spi_call) : M spi_reply :=
    fun s => let '(d', r) := spi (dev s) c in
             (Ok r, {| dev := d'; tr := Ev c r :: tr s; ctype := ctype s |}).

  Definition get_ctype : M (option card_type) := fun s => (Ok (ctype s), s).
  Definition set_ctype (c : option card_type) : M unit :=
    fun s => (Ok tt, {| dev := dev s; tr := tr s; ctype := c |}).

  (* fn transfer_byte(&mut self, out: u8) -> Result<u8, Error> *)
  Definition transfer_byte (out : N) : M N :=
    r <- call (Transfer [out]) ;;
    match r with
    | Bytes l => ret (nth 0 (fit [0] l) 0)
    | Fail => fail Transport
    end.
  (* fn read_byte *)
  Definition read_byte : M N := transfer_byte 255.
  (* fn write_byte *)
  Definition write_byte (out : N) : M unit := _ <- transfer_byte out ;; ret tt.
  (* fn write_bytes *)
  Definition write_bytes (out : list N) : M unit :=
    r <- call (Write out) ;;
    match r with Bytes _ => ret tt | Fail => fail Transport end.
  (* fn transfer_bytes(&mut self, in_out: &mut [u8]) *)
  Definition transfer_bytes (in_out : list N) : M (list N) :=
    r <- call (TransferInPlace in_out) ;;
    match r with Bytes l => ret (fit in_out l) | Fail => fail Transport end.

  (* Delay::delay: `fuel` is retries_left *)
  Definition delay_us10 : M unit := _ <- call (DelayUs 10) ;; ret tt.

  (* the polling loop shared by wait_not_busy, the response loop of card_command and the
     token loop of read_data:
         loop { let s = self.read_byte()?; if <stop s> { break s; } delay.delay(.., err)?; }
     `retries_left` is the field of the Rust `Delay` *)
  Fixpoint poll (stop : N -> bool) (err : error) (retries_left : nat) : M N :=
    s <- read_byte ;;
    if stop s then ret s else
    match retries_left with
    | O => fail err
    | S r => delay_us10 ;;; poll stop err r
    end.

  (* fn wait_not_busy(&mut self, mut delay: Delay) *)
  Definition wait_not_busy (retries_left : nat) : M unit :=
    _ <- poll (fun s => s =? 255) TimeoutWaitNotBusy retries_left ;; ret tt.

  (* the response loop of card_command *)
  Definition command_response (retries_left : nat) (command : N) : M N :=
    poll (fun result => N.land result 128 =? 0) (TimeoutCommand command) retries_left.

  Definition frame5 (command arg : N) : list N :=
    [N.lor 64 command; u8 (N.shiftr arg 24); u8 (N.shiftr arg 16); u8 (N.shiftr arg 8); u8 arg].
  Definition frame (command arg : N) : list N :=
    frame5 command arg ++ [crc7 (frame5 command arg)].

  (* fn card_command(&mut self, command: u8, arg: u32) -> Result<u8, Error> *)
  Definition card_command (command arg : N) : M N :=
    (if negb (command =? CMD0) && negb (command =? CMD12)
     then wait_not_busy (N.to_nat COMMAND_RETRIES) else ret tt) ;;;
    write_bytes (frame command arg) ;;;
    (if command =? CMD12 then _ <- read_byte ;; ret tt else ret tt) ;;;
    command_response (N.to_nat COMMAND_RETRIES) command.

  (* fn card_acmd *)
  Definition card_acmd (command arg : N) : M N :=
    card_command CMD55 0 ;;; card_command command arg.

  (* first loop of read_data: "Get first non-FF byte" *)
  Definition read_token (retries_left : nat) : M N :=
    poll (fun s => negb (s =? 255)) TimeoutReadBuffer retries_left.

  (* fn read_data(&mut self, buffer: &mut [u8]); `len` = buffer.len() *)
  Definition read_data (len : nat) : M (list N) :=
    status <- read_token (N.to_nat READ_RETRIES) ;;
    if negb (status =? DATA_START_BLOCK) then fail ReadError else
    buffer <- transfer_bytes (repeat 255 len) ;;
    crc_bytes <- transfer_bytes [255; 255] ;;
    if use_crc o then
      let crc := be16_val (nth 0 crc_bytes 0) (nth 1 crc_bytes 0) in
      let calc_crc := crc16 buffer in
      if negb (crc =? calc_crc) then fail (CrcError crc calc_crc) else ret buffer
    else ret buffer.

  (* fn write_data(&mut self, token: u8, buffer: &[u8]) *)
  Definition write_data (token : N) (buffer : list N) : M unit :=
    write_byte token ;;;
    write_bytes buffer ;;;
    write_bytes (if use_crc o then be16 (crc16 buffer) else [255; 255]) ;;;
    status <- read_byte ;;
    if negb (N.land status DATA_RES_MASK =? DATA_RES_ACCEPTED) then fail WriteError else ret tt.

  Fixpoint repeat_m (n : nat) (m : M unit) : M unit :=
    match n with O => ret tt | S k => m ;;; repeat_m k m end.

  (* the value of a computation as data (for `match s.card_command(..) { Err(..) => .. }`) *)
  Definition attempt {A} (m : M A) : M (outcome A) := fun s => let '(r, s') := m s in (Ok r, s').

  (* acquire, "Enter SPI mode": `for _attempts in 1.. { .. delay.delay(.., CardNotFound)?; }`
     with delay = Delay::new(acquire_retries) *)
  Fixpoint enter_spi_mode (retries_left : nat) : M unit :=
    r <- attempt (card_command CMD0 0) ;;
    match r with
    | Err (TimeoutCommand 0) =>
        repeat_m (N.to_nat 255) (write_byte 255) ;;;
        match retries_left with
        | O => fail CardNotFound
        | S k => delay_us10 ;;; enter_spi_mode k
        end
    | Err e => fail e
    | Panic => panic
    | Ok r1 =>
        if r1 =? R1_IDLE_STATE then ret tt else
        match retries_left with
        | O => fail CardNotFound
        | S k => delay_us10 ;;; enter_spi_mode k
        end
    end.

  (* acquire, "Check card version": returns (card_type, arg) *)
  Fixpoint check_version (retries_left : nat) : M (card_type * N) :=
    r <- card_command CMD8 426 ;;
    if r =? N.lor R1_ILLEGAL_COMMAND R1_IDLE_STATE then ret (SD1, 0) else
    buffer <- transfer_bytes [255; 255; 255; 255] ;;
    if nth 3 buffer 0 =? 170 then ret (SD2, 1073741824) else
    match retries_left with
    | O => fail (TimeoutCommand CMD8)
    | S k => delay_us10 ;;; check_version k
    end.

  (* acquire: `while s.card_acmd(ACMD41, arg)? != R1_READY_STATE { delay.delay(..)?; }` *)
  Fixpoint wait_ready (retries_left : nat) (arg : N) : M unit :=
    r <- card_acmd ACMD41 arg ;;
    if r =? R1_READY_STATE then ret tt else
    match retries_left with
    | O => fail (TimeoutACommand ACMD41)
    | S k => delay_us10 ;;; wait_ready k arg
    end.

  (* the closure `f` of acquire up to `debug!("Card version: ..")`: yields card_type *)
  Definition acquire_probe : M card_type :=
    enter_spi_mode (N.to_nat (acquire_retries o)) ;;;
    (if use_crc o
     then r <- card_command CMD59 1 ;;
          if negb (r =? R1_IDLE_STATE) then fail CantEnableCRC else ret tt
     else ret tt) ;;;
    ca <- check_version (N.to_nat COMMAND_RETRIES) ;;
    let '(card_type0, arg) := ca in
    wait_ready (N.to_nat COMMAND_RETRIES) arg ;;;
    match card_type0 with
    | SD2 =>
        r <- card_command CMD58 0 ;;
        if negb (r =? 0) then fail Cmd58Error else
        buffer <- transfer_bytes [255; 255; 255; 255] ;;
        if N.land (nth 0 buffer 0) 192 =? 192 then ret SDHC else ret SD2
    | t => ret t
    end.

  (* the closure `f` of acquire: ..; s.card_type = Some(card_type); Ok(()) *)
  Definition acquire_inner : M unit :=
    card_type1 <- acquire_probe ;; set_ctype (Some card_type1).

  (* fn acquire:  let result = f(self); let _ = self.read_byte(); result *)
  Definition acquire : M unit :=
    fun s => let '(result, s1) := acquire_inner s in
             let '(_, s2) := read_byte s1 in (result, s2).

  (* fn check_init *)
  Definition check_init : M unit :=
    c <- get_ctype ;;
    match c with None => acquire | Some _ => ret tt end.

  (* start_block_idx.0.checked_mul(512).ok_or(err)? / start_block_idx.0 *)
  Definition start_idx (idx : N) (err : error) : M N :=
    c <- get_ctype ;;
    match c with
    | Some SD1 | Some SD2 => if 2 ^ 32 <=? idx * 512 then fail err else ret (idx * 512)
    | Some SDHC => ret idx
    | None => fail CardNotFound
    end.

  Fixpoint read_blocks (n : nat) : M (list (list N)) :=
    match n with
    | O => ret []
    | S k => b <- read_data 512 ;; bs <- read_blocks k ;; ret (b :: bs)
    end.

  (*  let stopped = ..; result?; stopped?;  *)
  Definition first_error {A B} (result : outcome A) (stopped : outcome B) : M A :=
    match result with
    | Ok a => match stopped with Ok _ => ret a | Err e => fail e | Panic => panic end
    | Err e => fail e
    | Panic => panic
    end.

  (* SdCardInner::read; `n` = blocks.len(); the result is the content of `blocks` *)
  Definition read_inner (n : nat) (idx : N) : M (list (list N)) :=
    a <- start_idx idx ReadError ;;
    match n with
    | S O =>
        r <- card_command CMD17 a ;;
        if negb (r =? 0) then fail ReadError else
        b <- read_data 512 ;; ret [b]
    | _ =>
        r <- card_command CMD18 a ;;
        if negb (r =? 0) then fail ReadError else
        (* the loop stops at the first failed block; CMD12 is sent in either case *)
        result <- attempt (read_blocks n) ;;
        stopped <- attempt (card_command CMD12 0) ;;
        first_error result stopped
    end.

  Fixpoint write_blocks (blocks : list (list N)) : M unit :=
    match blocks with
    | [] => ret tt
    | b :: bs =>
        wait_not_busy (N.to_nat WRITE_RETRIES) ;;;
        write_data WRITE_MULTIPLE_TOKEN b ;;;
        write_blocks bs
    end.

  (* SdCardInner::write *)
  Definition write_inner (blocks : list (list N)) (idx : N) : M unit :=
    a <- start_idx idx WriteError ;;
    match blocks with
    | [b] =>
        r <- card_command CMD24 a ;;
        if negb (r =? 0) then fail WriteError else
        write_data DATA_START_BLOCK b ;;;
        wait_not_busy (N.to_nat WRITE_RETRIES) ;;;
        r <- card_command CMD13 0 ;;
        if negb (r =? 0) then fail WriteError else
        r2 <- read_byte ;;
        if negb (r2 =? 0) then fail WriteError else ret tt
    | _ =>
        (* blocks.len() as u32 *)
        card_acmd ACMD23 (N.of_nat (length blocks) mod 2 ^ 32) ;;;
        wait_not_busy (N.to_nat WRITE_RETRIES) ;;;
        r <- card_command CMD25 a ;;
        if negb (r =? 0) then fail WriteError else
        (* the block loop stops at the first failure, then (if all went well) one more
           wait_not_busy; Ok -> stop token, Err -> CMD12 (result ignored) and the error *)
        result <- attempt (write_blocks blocks ;;; wait_not_busy (N.to_nat WRITE_RETRIES)) ;;
        match result with
        | Ok _ => write_byte STOP_TRAN_TOKEN
        | Err e => _ <- attempt (card_command CMD12 0) ;; fail e
        | Panic => panic
        end
    end.

  (* fn read_csd: the register's CSD_STRUCTURE field (data[0] >> 6) selects the layout *)
  Definition read_csd : M csd :=
    c <- get_ctype ;;
    match c with
    | None => fail CardNotFound
    | Some _ =>
        r <- card_command CMD9 0 ;;
        if negb (r =? 0) then fail RegisterReadError else
        d <- read_data 16 ;;
        let v := N.shiftr (nth 0 d 0) 6 in
        if v =? 0 then ret (CsdV1 d)
        else if v =? 1 then ret (CsdV2 d)
        else fail RegisterReadError
    end.

  Definition num_blocks_inner : M N :=
    c <- read_csd ;;
    match c with
    | CsdV1 d => lift (v1_capacity_blocks d)
    | CsdV2 d => lift (v2_capacity_blocks d)
    end.
  Definition num_bytes_inner : M N :=
    c <- read_csd ;;
    match c with
    | CsdV1 d => lift (v1_capacity_bytes d)
    | CsdV2 d => lift (v2_capacity_bytes d)
    end.
  Definition erase_single_block_enabled_inner : M bool :=
    c <- read_csd ;;
    match c with
    | CsdV1 d => ret (erase_single_block_enabled_field d)
    | CsdV2 d => ret (erase_single_block_enabled_field d)
    end.

  (* ---- the public API of SdCard ------------------------------------------- *)
  Inductive api_call :=
  | CRead (n : nat) (idx : N)
  | CWrite (blocks : list (list N)) (idx : N)
  | CNumBlocks | CNumBytes | CEraseSingle | CMarkUninit | CGetType.

  Inductive api_value :=
  | VUnit | VBlocks (l : list (list N)) | VNum (n : N) | VBool (b : bool) | VType (t : option card_type).

  Definition with_init {A} (m : M A) (k : A -> api_value) : M api_value :=
    check_init ;;; a <- m ;; ret (k a).

  Definition api (c : api_call) : M api_value :=
    match c with
    | CRead n idx => with_init (read_inner n idx) VBlocks
    | CWrite blocks idx => with_init (write_inner blocks idx) (fun _ => VUnit)
    | CNumBlocks => with_init num_blocks_inner VNum
    | CNumBytes => with_init num_bytes_inner VNum
    | CEraseSingle => with_init erase_single_block_enabled_inner VBool
    | CMarkUninit => set_ctype None ;;; ret VUnit
    | CGetType =>
        (* inner.check_init().ok()?; inner.card_type *)
        r <- attempt check_init ;;
        match r with
        | Ok _ => t <- get_ctype ;; ret (VType t)
        | _ => ret (VType None)
        end
    end.

  (* a history of calls; results newest first; a Rust panic ends the history
     (the RefCell stays borrowed: every later call would panic as well) *)
  Fixpoint run_calls (cs : list api_call) (acc : list (outcome api_value)) : st -> list (outcome api_value) * st :=
    fun s => match cs with
             | [] => (acc, s)
             | c :: cs' => match api c s with
                           | (Panic, s') => (Panic :: acc, s')
                           | (r, s') => run_calls cs' (r :: acc) s'
                           end
             end.

  Definition init_st (d : dstate) : st := {| dev := d; tr := []; ctype := None |}.
End Driver.

Arguments dev {dstate} s.
Arguments tr {dstate} s.
Arguments ctype {dstate} s.

(* ---- instantiation (i): ORACLE - an arbitrary peer ---------------------------
   The peer is an arbitrary MISO byte stream (then `pad` forever) and an arbitrary
   set of SPI calls that fail.  A failing call clocks nothing. *)
Record ostate := { o_miso : list N; o_pad : N; o_calln : N; o_fails : N -> bool }.

Fixpoint take_pad (n : nat) (l : list N) (pad : N) : list N * list N :=
  match n with
  | O => ([], l)
  | S k => match l with
           | [] => let '(a, r) := take_pad k [] pad in (pad :: a, r)
           | x :: l' => let '(a, r) := take_pad k l' pad in (x :: a, r)
           end
  end.

Definition oracle_xfer (s : ostate) (out : list N) : ostate * spi_reply :=
  if o_fails s (o_calln s)
  then ({| o_miso := o_miso s; o_pad := o_pad s; o_calln := o_calln s + 1; o_fails := o_fails s |}, Fail)
  else let '(a, r) := take_pad (length out) (o_miso s) (o_pad s) in
       ({| o_miso := r; o_pad := o_pad s; o_calln := o_calln s + 1; o_fails := o_fails s |}, Bytes a).

Definition oracle_spi (s : ostate) (c : spi_call) : ostate * spi_reply :=
  match c with
  | Write out => oracle_xfer s out
  | Transfer out => oracle_xfer s out
  | TransferInPlace out => oracle_xfer s out
  | DelayUs _ => (s, Bytes [])
  end.
