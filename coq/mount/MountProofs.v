(* PROOFS for C15. *)
From Coq Require Import NArith List Bool Lia ZArith.
From Coq Require Import ZifyClasses ZifyInst Zify.
From SdMount Require Import MountModel MountSpec.
Import ListNotations.
Open Scope N_scope.
Ltac Zify.zify_post_hook ::= Z.to_euclidean_division_equations.
Arguments N.add : simpl never.
Arguments N.sub : simpl never.
Arguments N.mul : simpl never.
Arguments N.div : simpl never.
Arguments N.modulo : simpl never.

(* ======================================================================== *)
(* 1. ranges of the little-endian accessors *)

Lemma get8_lt b off : block_ok b -> off < 512 -> get8 b off < 256.
Proof. intros Hb Ho. apply Hb. exact Ho. Qed.

Lemma get16_lt b off : block_ok b -> off + 1 < 512 -> get16 b off < 65536.
Proof.
  intros Hb Ho. unfold get16.
  assert (H0 := Hb off ltac:(lia)). assert (H1 := Hb (off + 1) ltac:(lia)). lia.
Qed.

Lemma get32_le b off : block_ok b -> off + 3 < 512 -> get32 b off <= U32_MAX.
Proof.
  intros Hb Ho. unfold get32, U32_MAX.
  assert (H0 := Hb off ltac:(lia)). assert (H1 := Hb (off + 1) ltac:(lia)).
  assert (H2 := Hb (off + 2) ltac:(lia)). assert (H3 := Hb (off + 3) ltac:(lia)). lia.
Qed.

(* ======================================================================== *)
(* 2. the arithmetic helpers *)

Lemma add32_ok a b : a + b <= U32_MAX -> add32 a b = Ok (a + b).
Proof. intros H. unfold add32. destruct (N.leb_spec (a + b) U32_MAX); [reflexivity|lia]. Qed.
Lemma mul32_ok a b : a * b <= U32_MAX -> mul32 a b = Ok (a * b).
Proof. intros H. unfold mul32. destruct (N.leb_spec (a * b) U32_MAX); [reflexivity|lia]. Qed.
Lemma sub32_ok a b : b <= a -> sub32 a b = Ok (a - b).
Proof. intros H. unfold sub32. destruct (N.leb_spec b a); [reflexivity|lia]. Qed.
Lemma div32_ok a b : b <> 0 -> div32 a b = Ok (a / b).
Proof. intros H. unfold div32. destruct (N.eqb_spec b 0); [contradiction|reflexivity]. Qed.

Lemma checked_add32_some a b : a + b <= U32_MAX -> checked_add32 a b = Some (a + b).
Proof. intros H. unfold checked_add32. destruct (N.leb_spec (a + b) U32_MAX); [reflexivity|lia]. Qed.
Lemma checked_mul32_some a b : a * b <= U32_MAX -> checked_mul32 a b = Some (a * b).
Proof. intros H. unfold checked_mul32. destruct (N.leb_spec (a * b) U32_MAX); [reflexivity|lia]. Qed.
Lemma checked_sub32_some a b : b <= a -> checked_sub32 a b = Some (a - b).
Proof. intros H. unfold checked_sub32. destruct (N.leb_spec b a); [reflexivity|lia]. Qed.
Lemma checked_div32_some a b : b <> 0 -> checked_div32 a b = Some (a / b).
Proof. intros H. unfold checked_div32. destruct (N.eqb_spec b 0); [contradiction|reflexivity]. Qed.

Lemma checked_add32_inv a b r : checked_add32 a b = Some r -> r = a + b /\ a + b <= U32_MAX.
Proof. unfold checked_add32. destruct (N.leb_spec (a + b) U32_MAX) as [L|L]; intros H; inversion H; auto. Qed.
Lemma checked_mul32_inv a b r : checked_mul32 a b = Some r -> r = a * b /\ a * b <= U32_MAX.
Proof. unfold checked_mul32. destruct (N.leb_spec (a * b) U32_MAX) as [L|L]; intros H; inversion H; auto. Qed.
Lemma checked_sub32_inv a b r : checked_sub32 a b = Some r -> r = a - b /\ b <= a.
Proof. unfold checked_sub32. destruct (N.leb_spec b a) as [L|L]; intros H; inversion H; auto. Qed.
Lemma checked_div32_inv a b r : checked_div32 a b = Some r -> r = a / b /\ b <> 0.
Proof. unfold checked_div32. destruct (N.eqb_spec b 0) as [L|L]; intros H; inversion H; auto. Qed.

(* BlockCount::from_bytes is the rounded-up quotient and cannot overflow *)
Lemma from_bytes_ok bc : bc <= U32_MAX -> from_bytes bc = Ok ((bc + 511) / 512).
Proof.
  intros H. unfold from_bytes, U32_MAX in *.
  rewrite div32_ok by discriminate. cbn [bind].
  rewrite mul32_ok by (unfold U32_MAX; lia). cbn [bind].
  destruct (N.eqb_spec (bc / 512 * 512) bc) as [E|E]; cbn [negb].
  - f_equal. lia.
  - rewrite add32_ok by (unfold U32_MAX; lia). f_equal. lia.
Qed.

(* ======================================================================== *)
(* 3. Bpb::create_from_bytes: never panics, and what an accepted boot sector satisfies *)

Definition bpb_rdb (d : block) : N := (bpb_root_entries_count d * 32 + 511) / 512.
Definition bpb_non_data (d : block) : N :=
  bpb_num_fats d * bpb_fat_size d + bpb_reserved_block_count d + bpb_rdb d.

Definition bpb_inv (d : block) (b : bpb) : Prop :=
  bpb_data b = d /\
  bpb_num_fats d * bpb_fat_size d <= U32_MAX /\
  bpb_non_data d <= bpb_total_blocks d /\
  1 <= bpb_total_blocks d /\
  bpb_blocks_per_cluster d <> 0 /\
  bpb_cluster_count b = (bpb_total_blocks d - bpb_non_data d) / bpb_blocks_per_cluster d /\
  4085 <= bpb_cluster_count b /\
  bpb_fat_type b = (if bpb_cluster_count b <? 65525 then Fat16 else Fat32) /\
  (bpb_fat_type b = Fat32 -> bpb_fs_ver d = 0).

Lemma bpb_fields_range d : block_ok d ->
  bpb_root_entries_count d < 65536 /\ bpb_reserved_block_count d < 65536 /\
  bpb_num_fats d < 256 /\ bpb_blocks_per_cluster d < 256 /\
  bpb_fat_size d <= U32_MAX /\ bpb_total_blocks d <= U32_MAX /\ bpb_fs_info d < 65536.
Proof.
  intros Hd. unfold bpb_root_entries_count, bpb_reserved_block_count, bpb_num_fats,
    bpb_blocks_per_cluster, bpb_fat_size, bpb_total_blocks, bpb_fs_info,
    bpb_fat_size16, bpb_fat_size32, bpb_total_blocks16, bpb_total_blocks32.
  assert (H1 := get16_lt d 17 Hd ltac:(lia)). assert (H2 := get16_lt d 14 Hd ltac:(lia)).
  assert (H3 := get8_lt d 16 Hd ltac:(lia)). assert (H4 := get8_lt d 13 Hd ltac:(lia)).
  assert (H5 := get16_lt d 22 Hd ltac:(lia)). assert (H6 := get32_le d 36 Hd ltac:(lia)).
  assert (H7 := get16_lt d 19 Hd ltac:(lia)). assert (H8 := get32_le d 32 Hd ltac:(lia)).
  assert (H9 := get16_lt d 48 Hd ltac:(lia)).
  repeat split; try assumption.
  - destruct (negb (get16 d 22 =? 0)); [unfold U32_MAX; lia|exact H6].
  - destruct (negb (get16 d 19 =? 0)); [unfold U32_MAX; lia|exact H8].
Qed.

Lemma bpb_create_inv d : block_ok d ->
  match bpb_create d with
  | Panic => False
  | Err _ => True
  | Ok b => bpb_inv d b
  end.
Proof.
  intros Hd. destruct (bpb_fields_range d Hd) as (Hre & Hrs & Hnf & Hspc & Hfs & Htot & Hfi).
  unfold bpb_create.
  destruct (negb (bpb_footer d =? 43605)); [exact I|].
  rewrite mul32_ok by (unfold U32_MAX; lia). cbn [bind].
  rewrite from_bytes_ok by (unfold U32_MAX; lia). cbn [bind].
  fold (bpb_rdb d).
  destruct (checked_mul32 (bpb_num_fats d) (bpb_fat_size d)) as [m|] eqn:Em; cbn [obind]; [|exact I].
  apply checked_mul32_inv in Em. destruct Em as [-> Hm].
  destruct (checked_add32 _ (bpb_reserved_block_count d)) as [a1|] eqn:Ea1; cbn [obind]; [|exact I].
  apply checked_add32_inv in Ea1. destruct Ea1 as [-> Ha1].
  destruct (checked_add32 _ (bpb_rdb d)) as [a2|] eqn:Ea2; [|exact I].
  apply checked_add32_inv in Ea2. destruct Ea2 as [-> Ha2].
  destruct (checked_sub32 _ _) as [db|] eqn:Edb; [|exact I].
  apply checked_sub32_inv in Edb. destruct Edb as [-> Hdb].
  destruct (checked_div32 _ _) as [cc|] eqn:Ecc; [|exact I].
  apply checked_div32_inv in Ecc. destruct Ecc as [-> Hcc].
  fold (bpb_non_data d) in *.
  destruct (N.ltb_spec ((bpb_total_blocks d - bpb_non_data d) / bpb_blocks_per_cluster d) 4085) as [Hlo|Hlo];
    [exact I|].
  assert (Hpos : 1 <= bpb_total_blocks d).
  { assert (Hnz : bpb_total_blocks d - bpb_non_data d <> 0).
    { intros E. rewrite E, N.div_0_l in Hlo by exact Hcc. lia. }
    lia. }
  destruct (N.ltb_spec ((bpb_total_blocks d - bpb_non_data d) / bpb_blocks_per_cluster d) 65525) as [Hhi|Hhi].
  - unfold bpb_inv. cbn [bpb_data bpb_cluster_count bpb_fat_type].
    destruct (N.ltb_spec ((bpb_total_blocks d - bpb_non_data d) / bpb_blocks_per_cluster d) 65525); [|lia].
    repeat split; try assumption; try reflexivity. discriminate.
  - destruct (N.eqb_spec (bpb_fs_ver d) 0) as [Ev|Ev]; [|exact I].
    unfold bpb_inv. cbn [bpb_data bpb_cluster_count bpb_fat_type].
    destruct (N.ltb_spec ((bpb_total_blocks d - bpb_non_data d) / bpb_blocks_per_cluster d) 65525); [lia|].
    repeat split; try assumption; try reflexivity. intros _; exact Ev.
Qed.

(* ======================================================================== *)
(* 4. parse_volume and mount never panic, for any bytes and any volume index *)

Lemma info_create_no_panic d : info_create d <> Panic.
Proof.
  unfold info_create.
  destruct (negb (get32 d 0 =? LEAD_SIG)); [discriminate|].
  destruct (negb (get32 d 484 =? STRUC_SIG)); [discriminate|].
  destruct (negb (get32 d 508 =? TRAIL_SIG)); discriminate.
Qed.

Lemma parse_volume_total dev lba nb :
  device_ok dev -> lba <= U32_MAX -> parse_volume dev lba nb <> Panic.
Proof.
  intros Hdev Hlba. unfold parse_volume, read_block.
  destruct (dev lba) as [blk|] eqn:Eblk; cbn [bind]; [|discriminate].
  assert (Hblk : block_ok blk) by (eapply Hdev; eassumption).
  assert (Hinv := bpb_create_inv blk Hblk).
  destruct (bpb_create blk) as [b|e|]; cbn [bind]; [|discriminate|contradiction].
  destruct Hinv as (Hdata & Hmul & Hnd & Hpos & Hspc & Hcc & Hlo & Hty & Hver).
  rewrite Hdata.
  destruct (bpb_fields_range blk Hblk) as (Hre & Hrs & Hnf & _ & Hfs & Htot & Hfi).
  destruct (checked_add32 lba (bpb_total_blocks blk)) as [fit|] eqn:Efit; [|discriminate].
  apply checked_add32_inv in Efit. destruct Efit as [_ Hfit].
  destruct ((bpb_reserved_block_count blk =? 0) || (bpb_num_fats blk =? 0)); [discriminate|].
  destruct (bpb_fat_size blk * 512 <? _); [discriminate|].
  unfold bpb_non_data in Hnd.
  assert (Hsec : (if bpb_num_fats blk =? 2
                  then let! s := add32 (bpb_reserved_block_count blk) (bpb_fat_size blk) in Ok (Some s)
                  else Ok None) <> Panic /\
                 forall e, (if bpb_num_fats blk =? 2
                  then let! s := add32 (bpb_reserved_block_count blk) (bpb_fat_size blk) in Ok (Some s)
                  else Ok None) <> Err e).
  { destruct (N.eqb_spec (bpb_num_fats blk) 2) as [E2|E2].
    - rewrite add32_ok by (rewrite E2 in Hnd; lia). cbn [bind]. split; [|intro]; discriminate.
    - split; [|intro]; discriminate. }
  destruct Hsec as [Hsec1 Hsec2].
  destruct (if bpb_num_fats blk =? 2 then _ else _) as [sec|e|]; cbn [bind];
    [|exfalso; eapply Hsec2; reflexivity|contradiction].
  destruct (bpb_fat_type b) eqn:Ety.
  - (* FAT16 *)
    destruct (negb (bpb_bytes_per_block blk =? 512)); [discriminate|].
    rewrite mul32_ok by (unfold U32_MAX; lia). cbn [bind].
    rewrite add32_ok by (unfold U32_MAX; lia). cbn [bind].
    rewrite div32_ok by discriminate. cbn [bind].
    rewrite mul32_ok by exact Hmul. cbn [bind].
    rewrite add32_ok by lia. cbn [bind].
    fold (bpb_rdb blk).
    rewrite add32_ok by lia. cbn [bind]. discriminate.
  - (* FAT32 *)
    rewrite mul32_ok by exact Hmul. cbn [bind].
    rewrite add32_ok by lia. cbn [bind].
    destruct (268435445 <? bpb_cluster_count b); [discriminate|].
    unfold bpb_fs_info_block. rewrite Ety.
    destruct ((bpb_fs_info (bpb_data b) =? 0) || (bpb_reserved_block_count blk <=? bpb_fs_info (bpb_data b))) eqn:Hloc; [discriminate|].
    apply Bool.orb_false_iff in Hloc. destruct Hloc as [_ Hloc]. apply N.leb_gt in Hloc.
    rewrite Hdata in Hloc.
    rewrite Hdata, add32_ok by (unfold bpb_non_data in *; lia). cbn [bind].
    destruct (dev (lba + bpb_fs_info blk)) as [ib|]; cbn [bind]; [|discriminate].
    assert (Hi := info_create_no_panic ib).
    destruct (info_create ib) as [i|e|]; cbn [bind]; [discriminate|discriminate|contradiction].
Qed.

Lemma read_mbr_inv dev idx :
  device_ok dev ->
  match read_mbr dev idx with
  | Panic => False
  | Err _ => True
  | Ok (t, lba, nb) => lba <= U32_MAX /\ nb <= U32_MAX /\ t < 256
  end.
Proof.
  intros Hdev. unfold read_mbr, read_block.
  destruct (dev 0) as [blk|] eqn:Eblk; cbn [bind]; [|exact I].
  assert (Hblk : block_ok blk) by (eapply Hdev; eassumption).
  destruct (negb (get16 blk 510 =? 43605)); [exact I|].
  destruct (partition_start idx) as [p|] eqn:Ep; [|exact I].
  assert (Hp : p + 15 < 512).
  { unfold partition_start in Ep.
    destruct idx as [|[[[]|[]|]|[[]|[]|]|]]; inversion Ep; subst; lia. }
  destruct (negb (N.land (get8 blk (p + 0)) 127 =? 0)); [exact I|].
  split; [|split].
  - apply get32_le; [exact Hblk|lia].
  - apply get32_le; [exact Hblk|lia].
  - apply get8_lt; [exact Hblk|lia].
Qed.

Theorem mount_total dev idx : device_ok dev -> mount dev idx <> Panic.
Proof.
  intros Hdev. unfold mount.
  assert (H := read_mbr_inv dev idx Hdev).
  destruct (read_mbr dev idx) as [[[t lba] nb]|e|]; cbn [bind]; [|discriminate|contradiction].
  destruct H as (Hlba & Hnb & Ht).
  destruct (supported_type t); [|discriminate].
  apply parse_volume_total; assumption.
Qed.

(* ======================================================================== *)
(* 5. the formatter: little-endian round trips and the fields of the formatted sectors *)

Lemma byte_id v : v < 256 -> byte v = v.
Proof. intros H. unfold byte. apply N.mod_small. exact H. Qed.

Lemma le16_rt v : v < 65536 -> byte v + 256 * byte (v / 256) = v.
Proof. intros H. unfold byte. lia. Qed.

Lemma le32_rt v : v < TWO32 ->
  byte v + 256 * byte (v / 256) + 65536 * byte (v / 65536) + 16777216 * byte (v / 16777216) = v.
Proof. intros H. unfold byte, TWO32 in *. lia. Qed.

Lemma range_0_11 k : In k (range 0 11) -> k < 11.
Proof. cbv [range N.succ Pos.succ]. cbn [In]. intros H. intuition (subst; lia). Qed.

Lemma label_bytes g : (forall k, k < 11 -> g_label g k < 256) ->
  map (fun k => byte (g_label g k)) (range 0 11) = map (g_label g) (range 0 11).
Proof.
  intros H. apply map_ext_in. intros k Hk. apply byte_id. apply H. apply range_0_11. exact Hk.
Qed.

(* what a mount reads in the formatted MBR *)
Lemma mbr_facts g p : partition_start (g_slot g) = Some p ->
  get16 (mbr_sector g) 510 = 43605 /\
  get8 (mbr_sector g) (p + 0) = byte (g_status g) /\
  get8 (mbr_sector g) (p + 4) = byte (g_ptype g) /\
  get32 (mbr_sector g) (p + 8) =
    byte (g_lba g) + 256 * byte (g_lba g / 256) + 65536 * byte (g_lba g / 65536)
    + 16777216 * byte (g_lba g / 16777216) /\
  get32 (mbr_sector g) (p + 12) =
    byte (g_part_blocks g) + 256 * byte (g_part_blocks g / 256) + 65536 * byte (g_part_blocks g / 65536)
    + 16777216 * byte (g_part_blocks g / 16777216).
Proof.
  unfold mbr_sector, mbr_fields. intros Hp.
  destruct (g_slot g) as [|[[[]|[]|]|[[]|[]|]|]]; cbn in Hp; inversion Hp; subst p;
    repeat split; reflexivity.
Qed.

Definition boot_facts (g : geom) (d : block) : Prop :=
  bpb_footer d = 43605 /\ bpb_bytes_per_block d = 512 /\
  bpb_blocks_per_cluster d = g_spc g /\ bpb_reserved_block_count d = g_reserved g /\
  bpb_num_fats d = g_nfats g /\ bpb_root_entries_count d = g_root_entries g /\
  bpb_fat_size d = g_fat_size g /\ bpb_total_blocks d = g_total g /\
  (if is_fat32 g then
     bpb_fs_ver d = 0 /\ bpb_first_root_dir_cluster d = g_root_cluster g /\
     bpb_fs_info d = g_fs_info g /\
     map (get8 d) (range 71 11) = map (g_label g) (range 0 11)
   else map (get8 d) (range 43 11) = map (g_label g) (range 0 11)).

Ltac valid_split Hv :=
  destruct Hv as (Hslot & Hstatus & Hptype & Hlba & Hpart & Hend & Hspc & Hres & Hnf & Hfs & Hre &
                  Hfd & Htot & Hu16 & Hmedia & Hhidden & Hbk & Hlabel & Hn & Hkind);
  cbn [In] in Hstatus, Hnf.

Lemma spc_small g : pow2_upto_128 (g_spc g) -> 1 <= g_spc g < 256.
Proof. unfold pow2_upto_128. cbn [In]. lia. Qed.

Lemma total_field16 (u : bool) t : (u = true -> t < 65536) ->
  byte (if u then t else 0) + 256 * byte ((if u then t else 0) / 256) = if u then t else 0.
Proof. intros H. apply le16_rt. destruct u; [auto|lia]. Qed.

Lemma total_field32 (u : bool) t : t < TWO32 ->
  let v := if u then 0 else t in
  byte v + 256 * byte (v / 256) + 65536 * byte (v / 65536) + 16777216 * byte (v / 16777216) = v.
Proof. intros H v. apply le32_rt. subst v. destruct u; unfold TWO32 in *; lia. Qed.

Lemma total_choice (u : bool) t : 1 <= t ->
  (if negb ((if u then t else 0) =? 0) then (if u then t else 0) else (if u then 0 else t)) = t.
Proof.
  intros H. destruct u.
  - destruct (N.eqb_spec t 0); [lia|reflexivity].
  - reflexivity.
Qed.

Lemma boot_sector_facts g : valid_geom g -> boot_facts g (boot_sector g).
Proof.
  intros Hv. valid_split Hv. unfold boot_facts, boot_sector.
  assert (Hspc' := spc_small g Hspc).
  assert (Htot1 : 1 <= g_total g) by (unfold spec_first_data in Hfd; lia).
  destruct (is_fat32 g) eqn:E32.
  - destruct Hkind as (Hmax & Hfat & Hre0 & Hu & Hrc & Hfi & Hfree & Hnext).
    set (d := lookup (boot32_fields g)).
    split; [reflexivity|]. split; [reflexivity|].
    split; [change (bpb_blocks_per_cluster d) with (byte (g_spc g)); apply byte_id; lia|].
    split; [change (bpb_reserved_block_count d) with (byte (g_reserved g) + 256 * byte (g_reserved g / 256));
            apply le16_rt; lia|].
    split; [change (bpb_num_fats d) with (byte (g_nfats g)); apply byte_id; lia|].
    split; [change (bpb_root_entries_count d) with (byte (g_root_entries g) + 256 * byte (g_root_entries g / 256));
            apply le16_rt; lia|].
    split.
    { change (bpb_fat_size d) with
        (byte (g_fat_size g) + 256 * byte (g_fat_size g / 256) + 65536 * byte (g_fat_size g / 65536)
         + 16777216 * byte (g_fat_size g / 16777216)).
      apply le32_rt. lia. }
    split.
    { unfold bpb_total_blocks.
      change (bpb_total_blocks16 d) with
        (byte (if g_use16 g then g_total g else 0) + 256 * byte ((if g_use16 g then g_total g else 0) / 256)).
      change (bpb_total_blocks32 d) with
        (let v := if g_use16 g then 0 else g_total g in
         byte v + 256 * byte (v / 256) + 65536 * byte (v / 65536) + 16777216 * byte (v / 16777216)).
      rewrite total_field16 by exact Hu16. rewrite total_field32 by exact Htot.
      apply total_choice. exact Htot1. }
    split; [reflexivity|].
    split.
    { change (bpb_first_root_dir_cluster d) with
        (byte (g_root_cluster g) + 256 * byte (g_root_cluster g / 256) + 65536 * byte (g_root_cluster g / 65536)
         + 16777216 * byte (g_root_cluster g / 16777216)).
      apply le32_rt. unfold TWO32. lia. }
    split; [change (bpb_fs_info d) with (byte (g_fs_info g) + 256 * byte (g_fs_info g / 256));
            apply le16_rt; lia|].
    change (map (get8 d) (range 71 11)) with (map (fun k => byte (g_label g k)) (range 0 11)).
    apply label_bytes. exact Hlabel.
  - destruct Hkind as (Hfat & Hfs16 & Hre1).
    set (d := lookup (boot16_fields g)).
    split; [reflexivity|]. split; [reflexivity|].
    split; [change (bpb_blocks_per_cluster d) with (byte (g_spc g)); apply byte_id; lia|].
    split; [change (bpb_reserved_block_count d) with (byte (g_reserved g) + 256 * byte (g_reserved g / 256));
            apply le16_rt; lia|].
    split; [change (bpb_num_fats d) with (byte (g_nfats g)); apply byte_id; lia|].
    split; [change (bpb_root_entries_count d) with (byte (g_root_entries g) + 256 * byte (g_root_entries g / 256));
            apply le16_rt; lia|].
    split.
    { unfold bpb_fat_size.
      change (bpb_fat_size16 d) with (byte (g_fat_size g) + 256 * byte (g_fat_size g / 256)).
      rewrite le16_rt by lia. destruct (N.eqb_spec (g_fat_size g) 0); [lia|reflexivity]. }
    split.
    { unfold bpb_total_blocks.
      change (bpb_total_blocks16 d) with
        (byte (if g_use16 g then g_total g else 0) + 256 * byte ((if g_use16 g then g_total g else 0) / 256)).
      change (bpb_total_blocks32 d) with
        (let v := if g_use16 g then 0 else g_total g in
         byte v + 256 * byte (v / 256) + 65536 * byte (v / 65536) + 16777216 * byte (v / 16777216)).
      rewrite total_field16 by exact Hu16. rewrite total_field32 by exact Htot.
      apply total_choice. exact Htot1. }
    change (map (get8 d) (range 43 11)) with (map (fun k => byte (g_label g k)) (range 0 11)).
    apply label_bytes. exact Hlabel.
Qed.

(* ======================================================================== *)
(* 6. mounting a formatted device *)

Lemma bpb_create_of_facts g d : valid_geom g -> boot_facts g d ->
  bpb_create d = Ok (mkBpb d (if is_fat32 g then Fat32 else Fat16) (n_clusters g)).
Proof.
  intros Hv Hf. valid_split Hv.
  destruct Hf as (Ffoot & Fbpb & Fspc & Fres & Fnf & Fre & Ffs & Ftot & Fkind).
  assert (Hspc' := spc_small g Hspc).
  unfold bpb_create. rewrite Ffoot, Fre, Fnf, Ffs, Fres, Ftot, Fspc. cbn [N.eqb Pos.eqb negb].
  rewrite mul32_ok by (unfold U32_MAX; lia). cbn [bind].
  rewrite from_bytes_ok by (unfold U32_MAX; lia). cbn [bind].
  fold (root_dir_blocks g).
  unfold spec_first_data in Hfd. unfold TWO32 in *.
  rewrite checked_mul32_some by (unfold U32_MAX; lia). cbn [obind].
  rewrite checked_add32_some by (unfold U32_MAX; lia). cbn [obind].
  rewrite checked_add32_some by (unfold U32_MAX; lia).
  rewrite checked_sub32_some by lia.
  rewrite checked_div32_some by lia.
  replace (g_nfats g * g_fat_size g + g_reserved g + root_dir_blocks g) with (spec_first_data g)
    by (unfold spec_first_data; lia).
  fold (n_clusters g).
  destruct (N.ltb_spec (n_clusters g) 4085) as [Hlo|Hlo]; [lia|].
  unfold is_fat32 in *.
  destruct (N.ltb_spec (n_clusters g) 65525) as [Hhi|Hhi];
    destruct (N.leb_spec 65525 (n_clusters g)) as [Hge|Hge]; try lia.
  - reflexivity.
  - destruct Fkind as (Fver & _). rewrite Fver. reflexivity.
Qed.

Lemma hint_agrees d n :
  match info_next_free_cluster d with Some c => if c <? n + 2 then Some c else None | None => None end
  = spec_hint n (get32 d 492).
Proof.
  unfold info_next_free_cluster, spec_hint, U32_MAX. cbv zeta.
  destruct (N.eqb_spec (get32 d 492) 4294967295) as [E|E]; [reflexivity|].
  cbn [orb].
  destruct (N.eqb_spec (get32 d 492) 0) as [E0|E0].
  { destruct (N.ltb_spec (get32 d 492) 2) as [L|L]; [reflexivity|lia]. }
  destruct (N.eqb_spec (get32 d 492) 1) as [E1|E1].
  { destruct (N.ltb_spec (get32 d 492) 2) as [L|L]; [reflexivity|lia]. }
  destruct (N.ltb_spec (get32 d 492) 2) as [L|L]; [lia|]. cbn [orb].
  destruct (N.ltb_spec (get32 d 492) (n + 2)) as [A|A]; destruct (N.leb_spec (n + 2) (get32 d 492)) as [B|B];
    cbn [orb]; try reflexivity; try lia.
Qed.

Lemma free_agrees d : info_free_clusters_count d = spec_free (get32 d 488).
Proof. reflexivity. Qed.

(* the result of mounting a formatted device whose FS information sector is [ib] *)
Definition mounted_with (g : geom) (ib : block) : outcome volume :=
  if is_fat32 g then
    let! i := info_create ib in Ok (layout_with g (get32 i 488) (get32 i 492))
  else Ok (layout g).

Lemma format_with_0 g ib : format_with g ib 0 = Some (mbr_sector g).
Proof. reflexivity. Qed.

Lemma format_with_lba g ib : 1 <= g_lba g -> format_with g ib (g_lba g) = Some (boot_sector g).
Proof.
  intros H. unfold format_with.
  destruct (N.eqb_spec (g_lba g) 0); [lia|]. rewrite N.eqb_refl. reflexivity.
Qed.

Lemma format_with_info g ib : 1 <= g_lba g -> 1 <= g_fs_info g -> is_fat32 g = true ->
  format_with g ib (g_lba g + g_fs_info g) = Some ib.
Proof.
  intros H1 H2 H3. unfold format_with.
  destruct (N.eqb_spec (g_lba g + g_fs_info g) 0); [lia|].
  destruct (N.eqb_spec (g_lba g + g_fs_info g) (g_lba g)); [lia|].
  rewrite H3, N.eqb_refl. reflexivity.
Qed.

(* KNOWN CLASS: a volume whose last block is block 2^32 - 1.  Block ranges are half-open u32
   intervals in the crate (BlockIdx::range), so such a volume is refused at mount. *)
Definition ends_at_limit (g : geom) : Prop := g_lba g + g_total g = TWO32.

Lemma parse_volume_format g ib : valid_geom g -> ~ ends_at_limit g ->
  parse_volume (format_with g ib) (g_lba g) (g_part_blocks g) = mounted_with g ib.
Proof.
  intros Hv Hlim. unfold ends_at_limit in Hlim.
  assert (Hf := boot_sector_facts g Hv).
  assert (Hb := bpb_create_of_facts g _ Hv Hf).
  valid_split Hv.
  destruct Hf as (Ffoot & Fbpb & Fspc & Fres & Fnf & Fre & Ffs & Ftot & Fkind).
  unfold parse_volume, read_block. rewrite format_with_lba by exact Hlba. cbn [bind].
  rewrite Hb. cbn [bind bpb_data bpb_fat_type bpb_cluster_count].
  rewrite Ftot, Fres, Fnf, Ffs, Fspc.
  unfold spec_first_data in Hfd. unfold TWO32 in *.
  rewrite checked_add32_some by (unfold U32_MAX; lia).
  replace ((g_reserved g =? 0) || (g_nfats g =? 0)) with false
    by (symmetry; apply Bool.orb_false_iff; split; apply N.eqb_neq; lia).
  replace (g_fat_size g * 512 <? (n_clusters g + 2) * match (if is_fat32 g then Fat32 else Fat16) with Fat16 => 2 | Fat32 => 4 end)
    with false by (symmetry; apply N.ltb_ge; destruct (is_fat32 g); lia).
  assert (Hsec : (if g_nfats g =? 2 then let! s := add32 (g_reserved g) (g_fat_size g) in Ok (Some s) else Ok None)
                 = Ok (if g_nfats g =? 2 then Some (g_reserved g + g_fat_size g) else None)).
  { destruct (N.eqb_spec (g_nfats g) 2) as [E2|E2]; [|reflexivity].
    rewrite add32_ok by (unfold U32_MAX; rewrite E2 in Hfd; lia). reflexivity. }
  rewrite Hsec. cbn [bind].
  unfold mounted_with, bpb_volume_label, bpb_fs_info_block. cbn [bpb_data bpb_fat_type].
  destruct (is_fat32 g) eqn:E32.
  - destruct Hkind as (Hmax & Hfat & Hre0 & Hu & Hrc & Hfi & Hfree & Hnext).
    destruct Fkind as (Fver & Frc & Ffi & Flab).
    rewrite mul32_ok by (unfold U32_MAX; lia). cbn [bind].
    rewrite add32_ok by (unfold U32_MAX; lia). cbn [bind].
    replace (268435445 <? n_clusters g) with false by (symmetry; apply N.ltb_ge; lia).
    rewrite Ffi, Frc, Flab.
    replace ((g_fs_info g =? 0) || (g_reserved g <=? g_fs_info g)) with false
      by (symmetry; apply Bool.orb_false_iff; split; [apply N.eqb_neq|apply N.leb_gt]; lia).
    rewrite add32_ok by (unfold U32_MAX; lia). cbn [bind].
    rewrite format_with_info by (assumption || lia). cbn [bind].
    destruct (info_create ib) as [i|e|]; cbn [bind]; try reflexivity.
    rewrite hint_agrees, free_agrees.
    unfold layout_with. rewrite E32. f_equal. f_equal.
    unfold spec_first_data, root_dir_blocks. rewrite Hre0. cbn. lia.
  - destruct Hkind as (Hfat & Hfs16 & Hre1).
    rewrite Fbpb, Fre. cbn [N.eqb Pos.eqb negb].
    rewrite mul32_ok by (unfold U32_MAX; lia). cbn [bind].
    rewrite add32_ok by (unfold U32_MAX; lia). cbn [bind].
    rewrite div32_ok by discriminate. cbn [bind].
    fold (root_dir_blocks g) in *.
    rewrite mul32_ok by (unfold U32_MAX; lia). cbn [bind].
    rewrite add32_ok by (unfold U32_MAX; lia). cbn [bind].
    rewrite add32_ok by (unfold U32_MAX; lia). cbn [bind].
    rewrite Fkind. unfold layout, layout_with. rewrite E32. reflexivity.
Qed.

Lemma read_mbr_format g ib : valid_geom g ->
  read_mbr (format_with g ib) (g_slot g) = Ok (g_ptype g, g_lba g, g_part_blocks g).
Proof.
  intros Hv. valid_split Hv. unfold read_mbr, read_block. rewrite format_with_0. cbn [bind].
  assert (Hp : exists p, partition_start (g_slot g) = Some p).
  { destruct (g_slot g) as [|[[[]|[]|]|[[]|[]|]|]]; try lia; eexists; reflexivity. }
  destruct Hp as [p Hp]. rewrite Hp.
  destruct (mbr_facts g p Hp) as (Mfoot & Mst & Mty & Mlba & Mnb).
  rewrite Mfoot, Mst, Mty, Mlba, Mnb. cbn [N.eqb Pos.eqb negb].
  unfold TWO32, spec_first_data in *.
  rewrite (le32_rt (g_lba g)) by (unfold TWO32; lia).
  rewrite (le32_rt (g_part_blocks g)) by (unfold TWO32; lia).
  assert (Hty : byte (g_ptype g) = g_ptype g) by (apply byte_id; unfold fat_partition_type in Hptype; cbn [In] in Hptype; lia).
  rewrite Hty.
  destruct Hstatus as [<- | [<- | []]]; reflexivity.
Qed.

Lemma supported_fat_types t : fat_partition_type t -> supported_type t = true.
Proof. unfold fat_partition_type. intros [<-|[<-|[<-|[<-|[<-|[]]]]]]; reflexivity. Qed.

Theorem mount_format_with g ib : valid_geom g -> ~ ends_at_limit g ->
  mount (format_with g ib) (g_slot g) = mounted_with g ib.
Proof.
  intros Hv Hlim. unfold mount. rewrite read_mbr_format by exact Hv. cbn [bind].
  rewrite supported_fat_types by (valid_split Hv; exact Hptype).
  apply parse_volume_format; assumption.
Qed.

(* the formatter's own FS information sector *)
Lemma info_sector_facts g : g_info_free g < TWO32 -> g_info_next g < TWO32 ->
  info_create (info_sector g) = Ok (info_sector g) /\
  get32 (info_sector g) 488 = g_info_free g /\ get32 (info_sector g) 492 = g_info_next g.
Proof.
  intros Hf Hn. split; [|split].
  - vm_compute. reflexivity.
  - change (get32 (info_sector g) 488) with
      (byte (g_info_free g) + 256 * byte (g_info_free g / 256) + 65536 * byte (g_info_free g / 65536)
       + 16777216 * byte (g_info_free g / 16777216)).
    apply le32_rt. exact Hf.
  - change (get32 (info_sector g) 492) with
      (byte (g_info_next g) + 256 * byte (g_info_next g / 256) + 65536 * byte (g_info_next g / 65536)
       + 16777216 * byte (g_info_next g / 16777216)).
    apply le32_rt. exact Hn.
Qed.

Theorem mount_format g : valid_geom g -> ~ ends_at_limit g ->
  mount (format g) (g_slot g) = Ok (layout g).
Proof.
  intros Hv Hlim. unfold format. rewrite mount_format_with by assumption.
  unfold mounted_with. destruct (is_fat32 g) eqn:E32; [|reflexivity].
  valid_split Hv. rewrite E32 in Hkind.
  destruct Hkind as (Hmax & Hfat & Hre0 & Hu & Hrc & Hfi & Hfree & Hnext).
  destruct (info_sector_facts g Hfree Hnext) as (Hc & H488 & H492).
  rewrite Hc. cbn [bind]. rewrite H488, H492. reflexivity.
Qed.

(* the known class is refused, with the "does not fit" message, whatever the FS information sector *)
Theorem mount_limit_refused g ib : valid_geom g -> ends_at_limit g ->
  mount (format_with g ib) (g_slot g) = Err (FormatError NoFit).
Proof.
  intros Hv Hlim. unfold ends_at_limit in Hlim. unfold mount. rewrite read_mbr_format by exact Hv. cbn [bind].
  rewrite supported_fat_types by (valid_split Hv; exact Hptype).
  assert (Hf := boot_sector_facts g Hv).
  assert (Hb := bpb_create_of_facts g _ Hv Hf).
  valid_split Hv.
  destruct Hf as (Ffoot & Fbpb & Fspc & Fres & Fnf & Fre & Ffs & Ftot & Fkind).
  unfold parse_volume, read_block. rewrite format_with_lba by exact Hlba. cbn [bind].
  rewrite Hb. cbn [bind bpb_data bpb_fat_type bpb_cluster_count].
  rewrite Ftot. unfold checked_add32. unfold TWO32 in Hlim.
  destruct (N.leb_spec (g_lba g + g_total g) U32_MAX) as [H|H]; [unfold U32_MAX in H; lia|reflexivity].
Qed.

(* ======================================================================== *)
(* 7. the validity decider agrees with valid_geom *)

Lemma mem_spec x l : mem x l = true <-> In x l.
Proof.
  unfold mem. rewrite existsb_exists. split.
  - intros (y & Hy & E). apply N.eqb_eq in E. subst. exact Hy.
  - intros H. exists x. split; [exact H|apply N.eqb_refl].
Qed.

Lemma in_range_0_11 k : k < 11 -> In k (range 0 11).
Proof.
  intros H. cbv [range N.succ Pos.succ]. cbn [In].
  assert (C : k = 0 \/ k = 1 \/ k = 2 \/ k = 3 \/ k = 4 \/ k = 5 \/ k = 6 \/ k = 7 \/ k = 8 \/ k = 9 \/ k = 10) by lia.
  intuition auto.
Qed.

Lemma valid_geomb_spec g : valid_geomb g = true <-> valid_geom g.
Proof.
  unfold valid_geomb, valid_geom, pow2_upto_128, fat_partition_type.
  repeat rewrite andb_true_iff.
  repeat rewrite mem_spec. cbn [In].
  repeat rewrite N.ltb_lt. repeat rewrite N.leb_le.
  rewrite forallb_forall.
  assert (Hl : (forall x, In x (range 0 11) -> (g_label g x <? 256) = true) <-> (forall k, k < 11 -> g_label g k < 256)).
  { split; intros H k Hk.
    - apply N.ltb_lt. apply H. apply in_range_0_11. exact Hk.
    - apply N.ltb_lt. apply H. apply range_0_11. exact Hk. }
  rewrite Hl. clear Hl.
  assert (Hu : (if g_use16 g then g_total g <? 65536 else true) = true <-> (g_use16 g = true -> g_total g < 65536)).
  { destruct (g_use16 g); [rewrite N.ltb_lt|]; intuition congruence. }
  rewrite Hu. clear Hu.
  destruct (is_fat32 g).
  - repeat rewrite andb_true_iff. repeat rewrite N.ltb_lt. repeat rewrite N.leb_le.
    rewrite N.eqb_eq, negb_true_iff.
    split; intros H; repeat match goal with H : _ /\ _ |- _ => destruct H end; repeat split; assumption.
  - repeat rewrite andb_true_iff. repeat rewrite N.ltb_lt. repeat rewrite N.leb_le.
    split; intros H; repeat match goal with H : _ /\ _ |- _ => destruct H end; repeat split; assumption.
Qed.

(* ======================================================================== *)
(* 8. FS information sector: signatures and sentinels; partition-table errors *)

Lemma info_create_cases d :
  info_create d =
  if negb (get32 d 0 =? LEAD_SIG) then Err (FormatError LeadSig)
  else if negb (get32 d 484 =? STRUC_SIG) then Err (FormatError StrucSig)
  else if negb (get32 d 508 =? TRAIL_SIG) then Err (FormatError TrailSig)
  else Ok d.
Proof. reflexivity. Qed.

Theorem info_sentinels g ib :
  valid_geom g -> ~ ends_at_limit g -> is_fat32 g = true ->
  let r := mount (format_with g ib) (g_slot g) in
  (get32 ib 0 <> LEAD_SIG -> r = Err (FormatError LeadSig)) /\
  (get32 ib 0 = LEAD_SIG -> get32 ib 484 <> STRUC_SIG -> r = Err (FormatError StrucSig)) /\
  (get32 ib 0 = LEAD_SIG -> get32 ib 484 = STRUC_SIG -> get32 ib 508 <> TRAIL_SIG ->
     r = Err (FormatError TrailSig)) /\
  (get32 ib 0 = LEAD_SIG -> get32 ib 484 = STRUC_SIG -> get32 ib 508 = TRAIL_SIG ->
     exists v, r = Ok v /\ v = layout_with g (get32 ib 488) (get32 ib 492) /\
       (get32 ib 488 = 4294967295 -> free_clusters_count v = None) /\
       (get32 ib 488 <> 4294967295 -> free_clusters_count v = Some (get32 ib 488)) /\
       (get32 ib 492 = 4294967295 \/ get32 ib 492 = 0 \/ get32 ib 492 = 1 -> next_free_cluster v = None) /\
       (get32 ib 492 <> 4294967295 -> 2 <= get32 ib 492 -> get32 ib 492 < n_clusters g + 2 ->
          next_free_cluster v = Some (get32 ib 492)) /\
       (n_clusters g + 2 <= get32 ib 492 -> next_free_cluster v = None)).
Proof.
  intros Hv Hlim E32 r. subst r.
  rewrite mount_format_with by assumption.
  unfold mounted_with. rewrite E32, info_create_cases.
  split; [|split; [|split]].
  - intros H. destruct (N.eqb_spec (get32 ib 0) LEAD_SIG); [contradiction|reflexivity].
  - intros H1 H2. rewrite H1, N.eqb_refl. cbn [negb].
    destruct (N.eqb_spec (get32 ib 484) STRUC_SIG); [contradiction|reflexivity].
  - intros H1 H2 H3. rewrite H1, H2, !N.eqb_refl. cbn [negb].
    destruct (N.eqb_spec (get32 ib 508) TRAIL_SIG); [contradiction|reflexivity].
  - intros H1 H2 H3. rewrite H1, H2, H3, !N.eqb_refl. cbn [negb bind].
    eexists. split; [reflexivity|]. split; [reflexivity|].
    unfold layout_with. cbn [free_clusters_count next_free_cluster]. rewrite E32.
    unfold spec_free, spec_hint.
    split; [|split; [|split; [|split]]].
    + intros ->. reflexivity.
    + intros H. destruct (N.eqb_spec (get32 ib 488) 4294967295); [contradiction|reflexivity].
    + intros [-> |[-> | ->]]; reflexivity.
    + intros Ha Hb Hc. destruct (N.eqb_spec (get32 ib 492) 4294967295); [contradiction|].
      destruct (N.ltb_spec (get32 ib 492) 2); [lia|].
      destruct (N.leb_spec (n_clusters g + 2) (get32 ib 492)); [lia|reflexivity].
    + intros Hc. destruct (N.eqb_spec (get32 ib 492) 4294967295); [reflexivity|].
      destruct (N.ltb_spec (get32 ib 492) 2); [reflexivity|].
      destruct (N.leb_spec (n_clusters g + 2) (get32 ib 492)); [reflexivity|lia].
Qed.

Lemma partition_start_lt4 idx : idx < 4 -> partition_start idx = Some (446 + 16 * idx).
Proof.
  intros H. assert (C : idx = 0 \/ idx = 1 \/ idx = 2 \/ idx = 3) by lia.
  destruct C as [->|[->|[->| ->]]]; reflexivity.
Qed.

Lemma partition_start_ge4 idx : 4 <= idx -> partition_start idx = None.
Proof.
  intros H. destruct idx as [|[[[]|[]|]|[[]|[]|]|]]; try reflexivity; lia.
Qed.

Theorem mbr_rejects (dev : device) (idx : N) :
  (dev 0 = None -> mount dev idx = Err DeviceError) /\
  (forall m, dev 0 = Some m ->
     (get16 m 510 <> 43605 -> mount dev idx = Err (FormatError MbrSig)) /\
     (get16 m 510 = 43605 ->
        (4 <= idx -> mount dev idx = Err NoSuchVolume) /\
        (idx < 4 ->
           let p := 446 + 16 * idx in
           (N.land (get8 m p) 127 <> 0 -> mount dev idx = Err (FormatError PartStatus)) /\
           (N.land (get8 m p) 127 = 0 -> ~ In (get8 m (p + 4)) [4; 6; 11; 12; 14] ->
              mount dev idx = Err (FormatError PartType)) /\
           (N.land (get8 m p) 127 = 0 -> In (get8 m (p + 4)) [4; 6; 11; 12; 14] ->
              mount dev idx = parse_volume dev (get32 m (p + 8)) (get32 m (p + 12)))))).
Proof.
  unfold mount, read_mbr, read_block. split.
  - intros ->. reflexivity.
  - intros m ->. cbn [bind]. split.
    + intros H. destruct (N.eqb_spec (get16 m 510) 43605); [contradiction|reflexivity].
    + intros ->. cbn [N.eqb Pos.eqb negb]. split.
      * intros H. rewrite partition_start_ge4 by exact H. reflexivity.
      * intros H. rewrite partition_start_lt4 by exact H. rewrite N.add_0_r. set (p := 446 + 16 * idx).
        split; [|split].
        -- intros Hs. destruct (N.eqb_spec (N.land (get8 m p) 127) 0); [contradiction|reflexivity].
        -- intros -> Ht. cbn [N.eqb negb bind].
           assert (E : supported_type (get8 m (p + 4)) = false).
           { unfold supported_type. cbn [In] in Ht.
             repeat match goal with |- context [N.eqb ?a ?b] => destruct (N.eqb_spec a b) end;
               try reflexivity; exfalso; apply Ht; rewrite e; auto 10. }
           rewrite E. reflexivity.
        -- intros -> Ht. cbn [N.eqb negb bind].
           assert (E : supported_type (get8 m (p + 4)) = true).
           { cbn [In] in Ht. destruct Ht as [<-|[<-|[<-|[<-|[<-|[]]]]]]; reflexivity. }
           rewrite E. reflexivity.
Qed.

(* ======================================================================== *)
(* 9. the formatter only ever writes bytes; concrete geometries *)

Lemma byte_lt v : byte v < 256.
Proof. unfold byte. apply N.mod_lt. discriminate. Qed.

Lemma lookup_ok l : Forall (fun kv => snd kv < 256) l -> block_ok (lookup l).
Proof.
  intros H i _. induction H as [|[k v] r Hv _ IH]; cbn [lookup]; [reflexivity|].
  destruct (N.eqb i k); [exact Hv|exact IH].
Qed.

Ltac bytes_list := repeat (apply Forall_cons; [cbn [snd]; first [apply byte_lt | reflexivity]|]); apply Forall_nil.

Lemma format_device_ok g ib : block_ok ib -> device_ok (format_with g ib).
Proof.
  intros Hib idx b. unfold format_with.
  destruct (idx =? 0).
  { intros H. inversion H. apply lookup_ok. unfold mbr_fields, le16, le32. cbn [app]. bytes_list. }
  destruct (idx =? g_lba g).
  { intros H. inversion H. unfold boot_sector. destruct (is_fat32 g); apply lookup_ok.
    - cbv [boot32_fields boot_common le16 le32 bytes_at range map app N.succ Pos.succ]. bytes_list.
    - cbv [boot16_fields boot_common le16 le32 bytes_at range map app N.succ Pos.succ]. bytes_list. }
  destruct (is_fat32 g && (idx =? g_lba g + g_fs_info g)).
  { intros H. inversion H. subst. exact Hib. }
  intros H. inversion H. intros i _. reflexivity.
Qed.

Lemma info_sector_ok g : block_ok (info_sector g).
Proof. apply lookup_ok. unfold info_fields, le32. cbn [app]. bytes_list. Qed.

Lemma format_ok g : device_ok (format g).
Proof. apply format_device_ok. apply info_sector_ok. Qed.

(* FAT16: 4085 clusters of one block, two FATs of 17 blocks, 512 root entries, at block 63,
   total in the 16-bit field *)
Definition ex16 : geom :=
  mkGeom 0 0 6 63 5000 4152 true 1 1 2 17 512 0 0 0 248 63 0 0 (fun _ => 32).
(* FAT32: 65928 clusters of one block, 32 reserved, two FATs of 520 blocks, second MBR entry,
   bootable, free count unknown, hint 1 (not a cluster) *)
Definition ex32 : geom :=
  mkGeom 1 128 12 2048 70000 67000 false 1 32 2 520 0 2 1 6 248 2048 4294967295 1 (fun k => 65 + k).
(* a FAT16 volume whose last block is block 2^32-1 of the card *)
Definition ex_edge : geom :=
  mkGeom 3 0 6 4294963144 4152 4152 true 1 1 2 17 512 0 0 0 248 63 0 0 (fun _ => 32).

(* BPB_NumFATs is a byte and the specification asks for "at least 1": three FAT copies, and the maximum
   of 255 copies (17 blocks each), in front of the same 512 root entries and 4085 one-block clusters *)
Definition ex_fats3 : geom :=
  mkGeom 0 0 6 63 5000 4169 true 1 1 3 17 512 0 0 0 248 63 0 0 (fun _ => 32).
Definition ex_fats255 : geom :=
  mkGeom 2 0 6 2048 9000 8453 true 1 1 255 17 512 0 0 0 248 2048 0 0 (fun _ => 32).

Lemma ex16_valid : valid_geom ex16.
Proof. apply valid_geomb_spec. vm_compute. reflexivity. Qed.
Lemma ex32_valid : valid_geom ex32.
Proof. apply valid_geomb_spec. vm_compute. reflexivity. Qed.
Lemma ex_edge_valid : valid_geom ex_edge.
Proof. apply valid_geomb_spec. vm_compute. reflexivity. Qed.

Lemma ex_fats3_valid : valid_geom ex_fats3.
Proof. apply valid_geomb_spec. vm_compute. reflexivity. Qed.
Lemma ex_fats255_valid : valid_geom ex_fats255.
Proof. apply valid_geomb_spec. vm_compute. reflexivity. Qed.
(* no second-FAT record (the count is not 2); the root directory and the data area lie behind ALL copies *)
Lemma ex_fats3_mounts :
  mount (format ex_fats3) 0 =
  Ok (mkVolume 63 5000 [32;32;32;32;32;32;32;32;32;32;32] 1 84 1 None None None 4085 (Fat16Info 52 512)).
Proof. vm_compute. reflexivity. Qed.
Lemma ex_fats255_mounts :
  mount (format ex_fats255) 2 =
  Ok (mkVolume 2048 9000 [32;32;32;32;32;32;32;32;32;32;32] 1 4368 1 None None None 4085 (Fat16Info 4336 512)).
Proof. vm_compute. reflexivity. Qed.

Lemma ex16_mounts :
  mount (format ex16) 0 =
  Ok (mkVolume 63 5000 [32;32;32;32;32;32;32;32;32;32;32] 1 67 1 (Some 18) None None 4085 (Fat16Info 35 512)).
Proof. vm_compute. reflexivity. Qed.
Lemma ex32_mounts :
  mount (format ex32) 1 =
  Ok (mkVolume 2048 70000 [65;66;67;68;69;70;71;72;73;74;75] 1 1072 32 (Some 552) None None 65928
        (Fat32Info 2 2049)).
Proof. vm_compute. reflexivity. Qed.

(* the volume ending at block 2^32 - 1 is the known class: refused *)
Lemma ex_edge_refused :
  ends_at_limit ex_edge /\ mount (format ex_edge) 3 = Err (FormatError NoFit).
Proof. split; vm_compute; reflexivity. Qed.

(* the byte-range premise of the totality theorem matters, and Panic is a live outcome of
   the model: a "sector" whose entries are not bytes overflows root_entries_count * 32 *)
Definition unbounded_device : device :=
  fun idx => Some (fun off =>
    if idx =? 0 then lookup (mbr_fields ex16) off
    else if off =? 17 then 1099511627776 else lookup (boot16_fields ex16) off).
Lemma panic_is_reachable_without_byte_range : mount unbounded_device 0 = Panic.
Proof. vm_compute. reflexivity. Qed.

(* an all-ones card is a device of bytes, and is turned away at the MBR signature *)
Definition ones_device : device := fun _ => Some (fun _ => 255).
Lemma ones_device_ok : device_ok ones_device.
Proof. intros idx b H. inversion H. intros i _. reflexivity. Qed.
Lemma ones_device_rejected : mount ones_device 0 = Err (FormatError MbrSig).
Proof. vm_compute. reflexivity. Qed.

(* the prescribed layout spelled out field by field *)
Theorem mount_format_fields g :
  valid_geom g -> ~ ends_at_limit g ->
  exists v, mount (format g) (g_slot g) = Ok v /\
    lba_start v = g_lba g /\ num_blocks v = g_part_blocks g /\
    name v = map (g_label g) (range 0 11) /\
    blocks_per_cluster v = g_spc g /\
    fat_start v = g_reserved g /\
    second_fat_start v = (if g_nfats g =? 2 then Some (g_reserved g + g_fat_size g) else None) /\
    first_data_block v = g_reserved g + g_nfats g * g_fat_size g + (g_root_entries g * 32 + 511) / 512 /\
    cluster_count v = (g_total g - first_data_block v) / g_spc g /\
    (cluster_count v < 65525 ->
       fat_specific_info v = Fat16Info (g_reserved g + g_nfats g * g_fat_size g) (g_root_entries g) /\
       free_clusters_count v = None /\ next_free_cluster v = None) /\
    (65525 <= cluster_count v ->
       fat_specific_info v = Fat32Info (g_root_cluster g) (g_lba g + g_fs_info g) /\
       free_clusters_count v = spec_free (g_info_free g) /\
       next_free_cluster v = spec_hint (n_clusters g) (g_info_next g)).
Proof.
  intros Hv Hlim. exists (layout g). split; [apply mount_format; assumption|].
  unfold layout, layout_with.
  cbn [lba_start num_blocks name blocks_per_cluster fat_start second_fat_start first_data_block
       cluster_count fat_specific_info free_clusters_count next_free_cluster].
  repeat (split; [reflexivity|]).
  unfold is_fat32. split; intros H.
  - destruct (N.leb_spec 65525 (n_clusters g)); [lia|]. repeat split.
  - destruct (N.leb_spec 65525 (n_clusters g)); [|lia]. repeat split.
Qed.
