(* Extraction of the executable model and of the spec-side formatter / layout /
   validity decider (ExtrOcamlBasic only). *)
From Coq Require Import NArith List Extraction ExtrOcamlBasic.
From SdMount Require Import MountModel MountSpec.
Extraction Language OCaml.
Extraction "../../build/extract/mount/mountx.ml"
  mount format valid_geomb layout is_fat32 n_clusters spec_first_data zero_block.
