(* MODEL for C15: Gallina transcription of the mounting path of embedded-sdmmc 0.9.0
     src/volume_mgr.rs   VolumeManager::open_raw_volume   (MBR part; the handle table is not modelled:
                          a fresh manager has no open volume, so TooManyOpenVolumes / VolumeAlreadyOpen /
                          LockError cannot occur)
     src/fat/volume.rs   parse_volume
     src/fat/bpb.rs      Bpb::create_from_bytes and the accessors (define_field! of src/structure.rs)
     src/fat/info.rs     InfoSector
     src/blockdevice.rs  BlockCount::from_bytes, Add impls of BlockIdx / BlockCount (plain `+`)
   Data are N.  Every `+ - * /` of the Rust that is not a checked_* operation is an
   [add32]/[mul32]/... returning [Panic] when the dev profile (overflow checks on) would panic.
   No proofs in this file. *)
From Coq Require Import NArith List Bool.
Import ListNotations.
Open Scope N_scope.

(* a block is its byte at each offset (only offsets 0..511 are ever read);
   a device gives a block for an index, or None = the read reports a device error *)
Definition block := N -> N.
Definition device := N -> option block.

(* the &'static str carried by Error::FormatError, one constructor per message *)
Inductive fmsg :=
| MbrSig       (* "Invalid MBR signature" *)
| PartStatus   (* "Invalid partition status" *)
| PartType     (* "Partition type not supported" *)
| BpbFooter    (* "Bad BPB footer" *)
| BpbCounts    (* "Bad BPB block counts" *)
| BpbSpc       (* "Bad BPB blocks per cluster" *)
| Fat12        (* "FAT12 is unsupported" *)
| FatFormat    (* "Invalid FAT format" *)
| NoFit        (* "Volume does not fit the device" *)
| FatSmall     (* "FAT too small for the cluster count" *)
| InfoLoc      (* "Bad FS info location" *)
| LeadSig      (* "Bad lead signature on InfoSector" *)
| StrucSig     (* "Bad struc signature on InfoSector" *)
| TrailSig.    (* "Bad trail signature on InfoSector" *)

Inductive error :=
| DeviceError
| FormatError (m : fmsg)
| NoSuchVolume
| BadBlockSize (n : N).

Inductive outcome (A : Type) :=
| Ok (a : A)
| Err (e : error)
| Panic.
Arguments Ok {A} a.
Arguments Err {A} e.
Arguments Panic {A}.

Definition bind {A B} (x : outcome A) (f : A -> outcome B) : outcome B :=
  match x with Ok a => f a | Err e => Err e | Panic => Panic end.
Notation "'let!' x ':=' e 'in' k" := (bind e (fun x => k)) (at level 200, x name, right associativity).

Definition obind {A B} (x : option A) (f : A -> option B) : option B :=
  match x with Some a => f a | None => None end.

(* ---- u32 arithmetic *)
Definition U32_MAX : N := 4294967295.
(* plain operators: panic on overflow / division by zero in the dev profile *)
Definition add32 (a b : N) : outcome N := if a + b <=? U32_MAX then Ok (a + b) else Panic.
Definition mul32 (a b : N) : outcome N := if a * b <=? U32_MAX then Ok (a * b) else Panic.
Definition div32 (a b : N) : outcome N := if b =? 0 then Panic else Ok (a / b).
Definition sub32 (a b : N) : outcome N := if b <=? a then Ok (a - b) else Panic.
(* checked_* : None instead *)
Definition checked_add32 (a b : N) : option N := if a + b <=? U32_MAX then Some (a + b) else None.
Definition checked_mul32 (a b : N) : option N := if a * b <=? U32_MAX then Some (a * b) else None.
Definition checked_sub32 (a b : N) : option N := if b <=? a then Some (a - b) else None.
Definition checked_div32 (a b : N) : option N := if b =? 0 then None else Some (a / b).

(* ---- little-endian field access (byteorder::LittleEndian::read_u16 / read_u32, data[off]) *)
Definition get8 (b : block) (off : N) : N := b off.
Definition get16 (b : block) (off : N) : N := b off + 256 * b (off + 1).
Definition get32 (b : block) (off : N) : N :=
  b off + 256 * b (off + 1) + 65536 * b (off + 2) + 16777216 * b (off + 3).

(* ---- blockdevice.rs *)
(* BlockCount::from_bytes *)
Definition from_bytes (byte_count : N) : outcome N :=
  let! count := div32 byte_count 512 in
  let! m := mul32 count 512 in
  if negb (m =? byte_count) then add32 count 1 else Ok count.

(* ---- fat/bpb.rs *)
Definition bpb_bytes_per_block (d : block) := get16 d 11.
Definition bpb_blocks_per_cluster (d : block) := get8 d 13.
Definition bpb_reserved_block_count (d : block) := get16 d 14.
Definition bpb_num_fats (d : block) := get8 d 16.
Definition bpb_root_entries_count (d : block) := get16 d 17.
Definition bpb_total_blocks16 (d : block) := get16 d 19.
Definition bpb_fat_size16 (d : block) := get16 d 22.
Definition bpb_total_blocks32 (d : block) := get32 d 32.
Definition bpb_footer (d : block) := get16 d 510.
Definition bpb_fat_size32 (d : block) := get32 d 36.
Definition bpb_fs_ver (d : block) := get16 d 42.
Definition bpb_first_root_dir_cluster (d : block) := get32 d 44.
Definition bpb_fs_info (d : block) := get16 d 48.

Definition bpb_fat_size (d : block) : N :=
  let result := bpb_fat_size16 d in
  if negb (result =? 0) then result else bpb_fat_size32 d.

Definition bpb_total_blocks (d : block) : N :=
  let result := bpb_total_blocks16 d in
  if negb (result =? 0) then result else bpb_total_blocks32 d.

Inductive fat_type := Fat16 | Fat32.

Record bpb := mkBpb { bpb_data : block; bpb_fat_type : fat_type; bpb_cluster_count : N }.

Definition range (start : N) (len : nat) : list N :=
  (fix go (len : nat) (i : N) : list N :=
     match len with O => [] | S k => i :: go k (N.succ i) end) len start.

(* volume_label: data[43..=53] on FAT16, data[71..=81] on FAT32 *)
Definition bpb_volume_label (b : bpb) : list N :=
  match bpb_fat_type b with
  | Fat16 => map (get8 (bpb_data b)) (range 43 11)
  | Fat32 => map (get8 (bpb_data b)) (range 71 11)
  end.

Definition bpb_fs_info_block (b : bpb) : option N :=
  match bpb_fat_type b with
  | Fat16 => None
  | Fat32 => Some (bpb_fs_info (bpb_data b))
  end.

(* Bpb::create_from_bytes *)
Definition bpb_create (d : block) : outcome bpb :=
  if negb (bpb_footer d =? 43605) (* 0xAA55 *) then Err (FormatError BpbFooter) else
  let! root_bytes := mul32 (bpb_root_entries_count d) 32 in
  let! root_dir_blocks := from_bytes root_bytes in
  match obind (obind (checked_mul32 (bpb_num_fats d) (bpb_fat_size d))
                     (fun n => checked_add32 n (bpb_reserved_block_count d)))
              (fun n => checked_add32 n root_dir_blocks) with
  | None => Err (FormatError BpbCounts)
  | Some non_data_blocks =>
    match checked_sub32 (bpb_total_blocks d) non_data_blocks with
    | None => Err (FormatError BpbCounts)
    | Some data_blocks =>
      match checked_div32 data_blocks (bpb_blocks_per_cluster d) with
      | None => Err (FormatError BpbSpc)
      | Some cluster_count =>
        if cluster_count <? 4085 then Err (FormatError Fat12) else
        let ft := if cluster_count <? 65525 then Fat16 else Fat32 in
        match ft with
        | Fat16 => Ok (mkBpb d Fat16 cluster_count)
        | Fat32 => if bpb_fs_ver d =? 0 then Ok (mkBpb d Fat32 cluster_count)
                   else Err (FormatError FatFormat)
        end
      end
    end
  end.

(* ---- fat/info.rs *)
Definition LEAD_SIG : N := 1096897106.   (* 0x41615252 *)
Definition STRUC_SIG : N := 1631679090.  (* 0x61417272 *)
Definition TRAIL_SIG : N := 2857697280.  (* 0xAA550000 *)

Definition info_create (d : block) : outcome block :=
  if negb (get32 d 0 =? LEAD_SIG) then Err (FormatError LeadSig) else
  if negb (get32 d 484 =? STRUC_SIG) then Err (FormatError StrucSig) else
  if negb (get32 d 508 =? TRAIL_SIG) then Err (FormatError TrailSig) else
  Ok d.

Definition info_free_clusters_count (d : block) : option N :=
  let n := get32 d 488 in
  if n =? U32_MAX then None else Some n.

Definition info_next_free_cluster (d : block) : option N :=
  let n := get32 d 492 in
  if (n =? U32_MAX) || (n =? 0) || (n =? 1) then None else Some n.

(* ---- fat/volume.rs *)
Inductive fat_specific :=
| Fat16Info (first_root_dir_block root_entries_count : N)
| Fat32Info (first_root_dir_cluster info_location : N).

Record volume := mkVolume {
  lba_start : N;
  num_blocks : N;
  name : list N;                   (* the 11 label bytes *)
  blocks_per_cluster : N;
  first_data_block : N;
  fat_start : N;
  second_fat_start : option N;
  free_clusters_count : option N;
  next_free_cluster : option N;
  cluster_count : N;
  fat_specific_info : fat_specific }.

Definition read_block (dev : device) (idx : N) : outcome block :=
  match dev idx with Some b => Ok b | None => Err DeviceError end.

(* parse_volume *)
Definition parse_volume (dev : device) (lba_start num_blocks : N) : outcome volume :=
  let! blk := read_block dev lba_start in
  let! b := bpb_create blk in
  let d := bpb_data b in
  match checked_add32 lba_start (bpb_total_blocks d) with
  | None => Err (FormatError NoFit)
  | Some _ =>
    if (bpb_reserved_block_count d =? 0) || (bpb_num_fats d =? 0) then Err (FormatError BpbCounts) else
    (* u64 arithmetic in the code: no overflow *)
    if bpb_fat_size d * 512 <? (bpb_cluster_count b + 2) * (match bpb_fat_type b with Fat16 => 2 | Fat32 => 4 end)
    then Err (FormatError FatSmall) else
    let fat_start := bpb_reserved_block_count d in
    let! second_fat_start :=
      (if bpb_num_fats d =? 2 then let! s := add32 fat_start (bpb_fat_size d) in Ok (Some s)
       else Ok None) in
    match bpb_fat_type b with
    | Fat16 =>
      if negb (bpb_bytes_per_block d =? 512) then Err (BadBlockSize (bpb_bytes_per_block d)) else
      let! rb := mul32 (bpb_root_entries_count d) 32 in
      let! rb511 := add32 rb 511 in
      let! root_dir_blocks := div32 rb511 512 in
      let! fats := mul32 (bpb_num_fats d) (bpb_fat_size d) in
      let! first_root_dir_block := add32 fat_start fats in
      let! first_data_block := add32 first_root_dir_block root_dir_blocks in
      Ok (mkVolume lba_start num_blocks (bpb_volume_label b) (bpb_blocks_per_cluster d)
            first_data_block fat_start second_fat_start None None (bpb_cluster_count b)
            (Fat16Info first_root_dir_block (bpb_root_entries_count d)))
    | Fat32 =>
      let! fats := mul32 (bpb_num_fats d) (bpb_fat_size d) in
      let! first_data_block := add32 fat_start fats in
      if 268435445 <? bpb_cluster_count b then Err (FormatError FatFormat) else
      match bpb_fs_info_block b with
      | None => Panic   (* .unwrap() *)
      | Some info_location =>
        if (info_location =? 0) || (fat_start <=? info_location) then Err (FormatError InfoLoc) else
        let! info_idx := add32 lba_start info_location in      (* in the struct literal *)
        let! info_idx2 := add32 lba_start info_location in     (* argument of the read *)
        let! info_block := read_block dev info_idx2 in
        let! info := info_create info_block in
        Ok (mkVolume lba_start num_blocks (bpb_volume_label b) (bpb_blocks_per_cluster d)
              first_data_block fat_start second_fat_start
              (info_free_clusters_count info)
              (match info_next_free_cluster info with Some c => if c <? bpb_cluster_count b + 2 then Some c else None | None => None end)
              (bpb_cluster_count b)
              (Fat32Info (bpb_first_root_dir_cluster d) info_idx))
      end
    end
  end.

(* ---- volume_mgr.rs : open_raw_volume, from (device, VolumeIdx) to the FatVolume *)
Definition partition_start (volume_idx : N) : option N :=
  match volume_idx with
  | 0 => Some 446
  | 1 => Some 462
  | 2 => Some 478
  | 3 => Some 494
  | _ => None
  end.

Definition supported_type (t : N) : bool :=
  (t =? 11) (* 0x0B FAT32_CHS_LBA *) || (t =? 12) (* 0x0C FAT32_LBA *) ||
  (t =? 14) (* 0x0E FAT16_LBA *) || (t =? 6) (* FAT16 *) || (t =? 4) (* FAT16_SMALL *).

(* (part_type, lba_start, num_blocks) *)
Definition read_mbr (dev : device) (volume_idx : N) : outcome (N * N * N) :=
  let! blk := read_block dev 0 in
  if negb (get16 blk 510 =? 43605) then Err (FormatError MbrSig) else
  match partition_start volume_idx with
  | None => Err NoSuchVolume
  | Some p =>
    if negb (N.land (get8 blk (p + 0)) 127 =? 0) then Err (FormatError PartStatus) else
    let lba_start := get32 blk (p + 8) in
    let num_blocks := get32 blk (p + 12) in
    Ok (get8 blk (p + 4), lba_start, num_blocks)
  end.

Definition mount (dev : device) (volume_idx : N) : outcome volume :=
  let! r := read_mbr dev volume_idx in
  let '(part_type, lba_start, num_blocks) := r in
  if supported_type part_type then parse_volume dev lba_start num_blocks
  else Err (FormatError PartType).
