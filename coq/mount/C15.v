(* Property C15 - mounting locates every valid FAT16/32 layout and rejects bad ones
   without panic.  Only the property theorems, each closed by `exact`. *)
From Coq Require Import NArith List.
From SdMount Require Import MountModel MountSpec MountProofs.
Import ListNotations.
Open Scope N_scope.

Theorem C15_total : forall (dev : device) (volume_idx : N),
  device_ok dev -> mount dev volume_idx <> Panic.
Proof. exact mount_total. Qed.

Print Assumptions C15_total.
