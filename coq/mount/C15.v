(* Property C15 - mounting locates every valid FAT16/32 layout and rejects bad ones
   without panic.  Only the property theorems, each closed by `exact`, pinned by
   `Check`, followed by `Print Assumptions`.

   mount       : MountModel.v, the transcription of open_raw_volume / parse_volume /
                 Bpb::create_from_bytes / InfoSector (Panic = a panic of the dev profile)
   valid_geom, format, format_with, layout, layout_with : MountSpec.v, written from the
                 FAT specification (independent formatter and prescribed layout)         *)
From Coq Require Import NArith List.
From SdMount Require Import MountModel MountSpec MountProofs.
Import ListNotations.
Open Scope N_scope.

(* ---- 1. every well-formed partition table + boot sector (+ FS information sector): the
   mount succeeds and reports exactly the layout the FAT specification prescribes - every
   field of FatVolume.
   FULL STATEMENT (property text): forall g, valid_geom g -> mount (format g) (g_slot g) = Ok (layout g).
   It is FALSE of the model and of the crate for exactly one class, recorded as a known finding
   (known_findings.txt, class ends_at_limit): a volume whose last block is block 2^32 - 1
   (g_lba + g_total = 2^32).  The crate's block ranges are half-open u32 intervals
   (BlockIdx::range), listing a directory in the last cluster of such a volume overflowed, and the
   repair refuses the volume at mount: C15_limit_refused is the witness lemma. *)
Theorem C15_valid : forall g : geom,
  valid_geom g -> ~ ends_at_limit g -> mount (format g) (g_slot g) = Ok (layout g).
Proof. exact mount_format. Qed.

Theorem C15_limit_refused : forall (g : geom) (ib : block),
  valid_geom g -> ends_at_limit g -> mount (format_with g ib) (g_slot g) = Err (FormatError NoFit).
Proof. exact mount_limit_refused. Qed.

(* the layout, field by field (this is `layout g` unfolded; `Check` below pins it) *)
Theorem C15_valid_fields : forall g : geom,
  valid_geom g -> ~ ends_at_limit g ->
  exists v, mount (format g) (g_slot g) = Ok v /\
    lba_start v = g_lba g /\ num_blocks v = g_part_blocks g /\
    name v = map (g_label g) (range 0 11) /\
    blocks_per_cluster v = g_spc g /\
    fat_start v = g_reserved g /\
    second_fat_start v = (if g_nfats g =? 2 then Some (g_reserved g + g_fat_size g) else None) /\
    first_data_block v = g_reserved g + g_nfats g * g_fat_size g + (g_root_entries g * 32 + 511) / 512 /\
    cluster_count v = (g_total g - first_data_block v) / g_spc g /\
    (cluster_count v < 65525 ->
       fat_specific_info v = Fat16Info (g_reserved g + g_nfats g * g_fat_size g) (g_root_entries g) /\
       free_clusters_count v = None /\ next_free_cluster v = None) /\
    (65525 <= cluster_count v ->
       fat_specific_info v = Fat32Info (g_root_cluster g) (g_lba g + g_fs_info g) /\
       free_clusters_count v = spec_free (g_info_free g) /\
       next_free_cluster v = spec_hint (n_clusters g) (g_info_next g)).
Proof. exact mount_format_fields. Qed.

(* ---- 2. any other contents: arbitrary bytes in every block of the device (MBR, boot sector,
   FS information sector, wherever the sectors point), any volume index, device read errors
   included (dev idx = None): never a panic, division by zero or overflow *)
Theorem C15_total : forall (dev : device) (volume_idx : N),
  device_ok dev -> mount dev volume_idx <> Panic.
Proof. exact mount_total. Qed.

(* ---- 3. FS information sector of a valid FAT32 volume replaced by ANY block: signatures
   and sentinels *)
Theorem C15_info_sentinels : forall (g : geom) (ib : block),
  valid_geom g -> ~ ends_at_limit g -> is_fat32 g = true ->
  let r := mount (format_with g ib) (g_slot g) in
  (get32 ib 0 <> LEAD_SIG -> r = Err (FormatError LeadSig)) /\
  (get32 ib 0 = LEAD_SIG -> get32 ib 484 <> STRUC_SIG -> r = Err (FormatError StrucSig)) /\
  (get32 ib 0 = LEAD_SIG -> get32 ib 484 = STRUC_SIG -> get32 ib 508 <> TRAIL_SIG ->
     r = Err (FormatError TrailSig)) /\
  (get32 ib 0 = LEAD_SIG -> get32 ib 484 = STRUC_SIG -> get32 ib 508 = TRAIL_SIG ->
     exists v, r = Ok v /\ v = layout_with g (get32 ib 488) (get32 ib 492) /\
       (get32 ib 488 = 4294967295 -> free_clusters_count v = None) /\
       (get32 ib 488 <> 4294967295 -> free_clusters_count v = Some (get32 ib 488)) /\
       (get32 ib 492 = 4294967295 \/ get32 ib 492 = 0 \/ get32 ib 492 = 1 -> next_free_cluster v = None) /\
       (get32 ib 492 <> 4294967295 -> 2 <= get32 ib 492 -> get32 ib 492 < n_clusters g + 2 ->
          next_free_cluster v = Some (get32 ib 492)) /\
       (n_clusters g + 2 <= get32 ib 492 -> next_free_cluster v = None)).
Proof. exact info_sentinels. Qed.

(* partition table: the specific error for each defect, for any device *)
Theorem C15_rejects : forall (dev : device) (idx : N),
  (dev 0 = None -> mount dev idx = Err DeviceError) /\
  (forall m, dev 0 = Some m ->
     (get16 m 510 <> 43605 -> mount dev idx = Err (FormatError MbrSig)) /\
     (get16 m 510 = 43605 ->
        (4 <= idx -> mount dev idx = Err NoSuchVolume) /\
        (idx < 4 ->
           let p := 446 + 16 * idx in
           (N.land (get8 m p) 127 <> 0 -> mount dev idx = Err (FormatError PartStatus)) /\
           (N.land (get8 m p) 127 = 0 -> ~ In (get8 m (p + 4)) [4; 6; 11; 12; 14] ->
              mount dev idx = Err (FormatError PartType)) /\
           (N.land (get8 m p) 127 = 0 -> In (get8 m (p + 4)) [4; 6; 11; 12; 14] ->
              mount dev idx = parse_volume dev (get32 m (p + 8)) (get32 m (p + 12)))))).
Proof. exact mbr_rejects. Qed.

(* the decider used by the correspondence check to classify geometries is valid_geom *)
Theorem C15_decider : forall g : geom, valid_geomb g = true <-> valid_geom g.
Proof. exact valid_geomb_spec. Qed.

(* ---- non-vacuity *)
Example C15_ex_fat16 : valid_geom ex16 /\ is_fat32 ex16 = false /\
  mount (format ex16) 0 =
  Ok (mkVolume 63 5000 [32;32;32;32;32;32;32;32;32;32;32] 1 67 1 (Some 18) None None 4085 (Fat16Info 35 512)).
Proof. exact (conj ex16_valid (conj eq_refl ex16_mounts)). Qed.

Example C15_ex_fat32 : valid_geom ex32 /\ is_fat32 ex32 = true /\
  mount (format ex32) 1 =
  Ok (mkVolume 2048 70000 [65;66;67;68;69;70;71;72;73;74;75] 1 1072 32 (Some 552) None None 65928
        (Fat32Info 2 2049)).
Proof. exact (conj ex32_valid (conj eq_refl ex32_mounts)). Qed.

(* any number of FAT copies from 1 to 255 (BPB_NumFATs is one byte): a 3-FAT and a 255-FAT volume are valid,
   mount, record no second-FAT start (that field exists for exactly two copies) and place the root directory
   and the data area behind ALL copies; C15_valid applies to them *)
Example C15_ex_many_fats :
  valid_geom ex_fats3 /\ valid_geom ex_fats255 /\ g_nfats ex_fats3 = 3 /\ g_nfats ex_fats255 = 255 /\
  mount (format ex_fats3) 0 =
    Ok (mkVolume 63 5000 [32;32;32;32;32;32;32;32;32;32;32] 1 84 1 None None None 4085 (Fat16Info 52 512)) /\
  mount (format ex_fats255) 2 =
    Ok (mkVolume 2048 9000 [32;32;32;32;32;32;32;32;32;32;32] 1 4368 1 None None None 4085 (Fat16Info 4336 512)) /\
  mount (format ex_fats3) (g_slot ex_fats3) = Ok (layout ex_fats3) /\
  mount (format ex_fats255) (g_slot ex_fats255) = Ok (layout ex_fats255).
Proof.
  split; [exact ex_fats3_valid|]. split; [exact ex_fats255_valid|]. split; [reflexivity|]. split; [reflexivity|].
  split; [exact ex_fats3_mounts|]. split; [exact ex_fats255_mounts|]. split.
  - apply C15_valid; [exact ex_fats3_valid|]. unfold ends_at_limit. vm_compute. discriminate.
  - apply C15_valid; [exact ex_fats255_valid|]. unfold ends_at_limit. vm_compute. discriminate.
Qed.

(* a FAT16 volume whose last block is block 2^32-1 of the card: valid, in the known class, refused *)
Example C15_ex_last_block : valid_geom ex_edge /\ ends_at_limit ex_edge /\
  mount (format ex_edge) 3 = Err (FormatError NoFit).
Proof. exact (conj ex_edge_valid ex_edge_refused). Qed.

(* the formatter produces devices of bytes, so C15_total applies to every formatted device;
   an all-ones card is a device of bytes; and Panic is a live outcome of the model when the
   byte range is dropped *)
Example C15_ex_total_applies : (forall g, device_ok (format g)) /\ device_ok ones_device /\
  mount ones_device 0 = Err (FormatError MbrSig) /\ mount unbounded_device 0 = Panic.
Proof. exact (conj format_ok (conj ones_device_ok (conj ones_device_rejected panic_is_reachable_without_byte_range))). Qed.

Check (C15_valid : forall g, valid_geom g -> ~ ends_at_limit g -> mount (format g) (g_slot g) = Ok (layout g)).
Check (C15_total : forall dev idx, device_ok dev -> mount dev idx <> Panic).

Print Assumptions C15_valid.
Print Assumptions C15_limit_refused.
Print Assumptions C15_valid_fields.
Print Assumptions C15_total.
Print Assumptions C15_info_sentinels.
Print Assumptions C15_rejects.
Print Assumptions C15_decider.
