(* SPEC side for C15, written from the FAT specification (Microsoft "FAT: General
   Overview of On-Disk Format" 1.03) and the MBR partition-table layout, not from the
   crate: a geometry record, what makes it well formed, an independent formatter that
   produces MBR + boot sector (+ FS information sector) bytes, and the layout the
   specification prescribes for a mounted volume.  No proofs here. *)
From Coq Require Import NArith List Bool.
From SdMount Require Import MountModel.
Import ListNotations.
Open Scope N_scope.

Record geom := mkGeom {
  (* partition table entry *)
  g_slot : N;            (* which of the four MBR entries *)
  g_status : N;          (* 0x00 or 0x80 (bootable) *)
  g_ptype : N;           (* partition type byte *)
  g_lba : N;             (* first block of the partition *)
  g_part_blocks : N;     (* length of the partition in the table *)
  (* BPB (boot sector fields) *)
  g_total : N;           (* total sectors of the volume *)
  g_use16 : bool;        (* total stored in the 16-bit field (BPB_TotSec16) else in BPB_TotSec32 *)
  g_spc : N;             (* sectors per cluster *)
  g_reserved : N;        (* reserved sectors (boot sector included) *)
  g_nfats : N;
  g_fat_size : N;        (* sectors per FAT *)
  g_root_entries : N;    (* FAT16 root directory entries; 0 on FAT32 *)
  g_root_cluster : N;    (* FAT32: first cluster of the root directory *)
  g_fs_info : N;         (* FAT32: sector of the FS information structure *)
  g_backup_boot : N;     (* FAT32: BPB_BkBootSec, not interpreted by a mount *)
  g_media : N;           (* BPB_Media, not interpreted *)
  g_hidden : N;          (* BPB_HiddSec, not interpreted *)
  (* FS information sector, raw fields *)
  g_info_free : N;       (* FSI_Free_Count *)
  g_info_next : N;       (* FSI_Nxt_Free *)
  g_label : N -> N       (* the 11 bytes of the volume label *)
}.

(* ---- the layout the specification prescribes *)
(* RootDirSectors = ((BPB_RootEntCnt * 32) + (BPB_BytsPerSec - 1)) / BPB_BytsPerSec *)
Definition root_dir_blocks (g : geom) : N := (g_root_entries g * 32 + 511) / 512.
(* FirstDataSector = BPB_ResvdSecCnt + (BPB_NumFATs * FATSz) + RootDirSectors *)
Definition spec_first_data (g : geom) : N :=
  g_reserved g + g_nfats g * g_fat_size g + root_dir_blocks g.
(* CountofClusters = (TotSec - FirstDataSector) / BPB_SecPerClus, rounded down *)
Definition n_clusters (g : geom) : N := (g_total g - spec_first_data g) / g_spc g.
(* "if CountofClusters < 4085 FAT12 else if CountofClusters < 65525 FAT16 else FAT32" *)
Definition is_fat32 (g : geom) : bool := 65525 <=? n_clusters g.

Definition pow2_upto_128 (x : N) : Prop := In x [1; 2; 4; 8; 16; 32; 64; 128].
Definition fat_partition_type (t : N) : Prop := In t [4; 6; 14; 11; 12].  (* 0x04 0x06 0x0E 0x0B 0x0C *)

Definition TWO32 : N := 4294967296.

(* BPB_NumFATs: "the count of FAT data structures on the volume"; one byte, at least 1.  Any count is
   allowed (the usual value is 2); the layout below is written with the general count *)
Definition valid_geom (g : geom) : Prop :=
  (* partition table *)
  g_slot g < 4 /\ In (g_status g) [0; 128] /\ fat_partition_type (g_ptype g) /\
  1 <= g_lba g /\ g_total g <= g_part_blocks g /\ g_lba g + g_part_blocks g <= TWO32 /\
  (* BPB *)
  pow2_upto_128 (g_spc g) /\ 1 <= g_reserved g < 65536 /\ 1 <= g_nfats g < 256 /\
  1 <= g_fat_size g < TWO32 /\ g_root_entries g < 65536 /\
  spec_first_data g <= g_total g /\ g_total g < TWO32 /\
  (g_use16 g = true -> g_total g < 65536) /\
  g_media g < 256 /\ g_hidden g < TWO32 /\ g_backup_boot g < 65536 /\
  (forall k, k < 11 -> g_label g k < 256) /\
  (* kind by cluster count, and the conditions of each kind *)
  4085 <= n_clusters g /\
  (if is_fat32 g then
     n_clusters g <= 268435445 (* 0x0FFFFFF5 *) /\
     (n_clusters g + 2) * 4 <= g_fat_size g * 512 /\
     g_root_entries g = 0 /\ g_use16 g = false /\
     2 <= g_root_cluster g < n_clusters g + 2 /\
     1 <= g_fs_info g < g_reserved g /\
     g_info_free g < TWO32 /\ g_info_next g < TWO32
   else
     (n_clusters g + 2) * 2 <= g_fat_size g * 512 /\ g_fat_size g < 65536 /\
     1 <= g_root_entries g).

(* decidable version, extracted and used by the correspondence check to classify inputs *)
Definition mem (x : N) (l : list N) : bool := existsb (N.eqb x) l.
Definition valid_geomb (g : geom) : bool :=
  (g_slot g <? 4) && mem (g_status g) [0; 128] && mem (g_ptype g) [4; 6; 14; 11; 12] &&
  (1 <=? g_lba g) && (g_total g <=? g_part_blocks g) && (g_lba g + g_part_blocks g <=? TWO32) &&
  mem (g_spc g) [1; 2; 4; 8; 16; 32; 64; 128] && (1 <=? g_reserved g) && (g_reserved g <? 65536) &&
  (1 <=? g_nfats g) && (g_nfats g <? 256) && (1 <=? g_fat_size g) && (g_fat_size g <? TWO32) &&
  (g_root_entries g <? 65536) && (spec_first_data g <=? g_total g) && (g_total g <? TWO32) &&
  (if g_use16 g then g_total g <? 65536 else true) &&
  (g_media g <? 256) && (g_hidden g <? TWO32) && (g_backup_boot g <? 65536) &&
  forallb (fun k => g_label g k <? 256) (range 0 11) &&
  (4085 <=? n_clusters g) &&
  (if is_fat32 g then
     (n_clusters g <=? 268435445) && ((n_clusters g + 2) * 4 <=? g_fat_size g * 512) &&
     (g_root_entries g =? 0) && negb (g_use16 g) &&
     (2 <=? g_root_cluster g) && (g_root_cluster g <? n_clusters g + 2) &&
     (1 <=? g_fs_info g) && (g_fs_info g <? g_reserved g) &&
     (g_info_free g <? TWO32) && (g_info_next g <? TWO32)
   else
     ((n_clusters g + 2) * 2 <=? g_fat_size g * 512) && (g_fat_size g <? 65536) &&
     (1 <=? g_root_entries g)).

(* FSI_Free_Count: 0xFFFFFFFF = unknown.  FSI_Nxt_Free: 0xFFFFFFFF = no hint; clusters 0
   and 1 do not exist, so they cannot be a hint either *)
Definition spec_free (raw : N) : option N := if raw =? 4294967295 then None else Some raw.
(* "... must be range checked for a valid cluster number" (FSI_Nxt_Free) *)
Definition spec_hint (nclus raw : N) : option N :=
  if raw =? 4294967295 then None else if raw <? 2 then None else if nclus + 2 <=? raw then None else Some raw.

(* what a mounted volume must say, for given raw FS information fields *)
Definition layout_with (g : geom) (free_raw next_raw : N) : volume :=
  mkVolume (g_lba g) (g_part_blocks g) (map (g_label g) (range 0 11)) (g_spc g)
    (spec_first_data g)
    (g_reserved g)
    (if g_nfats g =? 2 then Some (g_reserved g + g_fat_size g) else None)
    (if is_fat32 g then spec_free free_raw else None)
    (if is_fat32 g then spec_hint (n_clusters g) next_raw else None)
    (n_clusters g)
    (if is_fat32 g then Fat32Info (g_root_cluster g) (g_lba g + g_fs_info g)
     else Fat16Info (g_reserved g + g_nfats g * g_fat_size g) (g_root_entries g)).
Definition layout (g : geom) : volume := layout_with g (g_info_free g) (g_info_next g).

(* ---- the formatter: sectors as association lists offset -> byte, zero elsewhere *)
Fixpoint lookup (l : list (N * N)) (i : N) : N :=
  match l with
  | [] => 0
  | (k, v) :: r => if N.eqb i k then v else lookup r i
  end.

Definition byte (v : N) : N := v mod 256.
Definition le16 (off v : N) : list (N * N) := [(off, byte v); (off + 1, byte (v / 256))].
Definition le32 (off v : N) : list (N * N) :=
  [(off, byte v); (off + 1, byte (v / 256)); (off + 2, byte (v / 65536)); (off + 3, byte (v / 16777216))].
Definition bytes_at (off : N) (f : N -> N) (len : nat) : list (N * N) :=
  map (fun k => (off + k, byte (f k))) (range 0 len).

Definition mbr_fields (g : geom) : list (N * N) :=
  let p := 446 + 16 * g_slot g in
  [(p, byte (g_status g)); (p + 4, byte (g_ptype g))] ++
  le32 (p + 8) (g_lba g) ++ le32 (p + 12) (g_part_blocks g) ++
  le16 510 43605 (* 0xAA55 *).

Definition boot_common (g : geom) : list (N * N) :=
  [(0, 235); (1, 60); (2, 144)] ++            (* jmp short, nop *)
  le16 11 512 ++                              (* BPB_BytsPerSec *)
  [(13, byte (g_spc g))] ++                   (* BPB_SecPerClus *)
  le16 14 (g_reserved g) ++                   (* BPB_RsvdSecCnt *)
  [(16, byte (g_nfats g))] ++                 (* BPB_NumFATs *)
  le16 17 (g_root_entries g) ++               (* BPB_RootEntCnt *)
  le16 19 (if g_use16 g then g_total g else 0) ++   (* BPB_TotSec16 *)
  [(21, byte (g_media g))] ++                 (* BPB_Media *)
  le32 28 (g_hidden g) ++                     (* BPB_HiddSec *)
  le32 32 (if g_use16 g then 0 else g_total g) ++   (* BPB_TotSec32 *)
  le16 510 43605.

Definition boot16_fields (g : geom) : list (N * N) :=
  le16 22 (g_fat_size g) ++                   (* BPB_FATSz16 *)
  [(38, 41)] ++                               (* BS_BootSig 0x29 *)
  bytes_at 43 (g_label g) 11 ++               (* BS_VolLab *)
  boot_common g.

Definition boot32_fields (g : geom) : list (N * N) :=
  le16 22 0 ++                                (* BPB_FATSz16 = 0 *)
  le32 36 (g_fat_size g) ++                   (* BPB_FATSz32 *)
  le16 42 0 ++                                (* BPB_FSVer 0.0 *)
  le32 44 (g_root_cluster g) ++               (* BPB_RootClus *)
  le16 48 (g_fs_info g) ++                    (* BPB_FSInfo *)
  le16 50 (g_backup_boot g) ++                (* BPB_BkBootSec *)
  [(66, 41)] ++                               (* BS_BootSig *)
  bytes_at 71 (g_label g) 11 ++               (* BS_VolLab *)
  boot_common g.

Definition info_fields (g : geom) : list (N * N) :=
  le32 0 1096897106 ++                        (* FSI_LeadSig 0x41615252 *)
  le32 484 1631679090 ++                      (* FSI_StrucSig 0x61417272 *)
  le32 488 (g_info_free g) ++
  le32 492 (g_info_next g) ++
  le32 508 2857697280.                        (* FSI_TrailSig 0xAA550000 *)

Definition mbr_sector (g : geom) : block := lookup (mbr_fields g).
Definition boot_sector (g : geom) : block :=
  if is_fat32 g then lookup (boot32_fields g) else lookup (boot16_fields g).
Definition info_sector (g : geom) : block := lookup (info_fields g).
Definition zero_block : block := fun _ => 0.

(* the formatted device: MBR at 0, boot sector at the partition start, on FAT32 the
   given FS information sector, zero elsewhere *)
Definition format_with (g : geom) (info : block) : device :=
  fun idx =>
    if idx =? 0 then Some (mbr_sector g)
    else if idx =? g_lba g then Some (boot_sector g)
    else if is_fat32 g && (idx =? g_lba g + g_fs_info g) then Some info
    else Some zero_block.
Definition format (g : geom) : device := format_with g (info_sector g).

(* every byte a mount can read is a byte *)
Definition block_ok (b : block) : Prop := forall i, i < 512 -> b i < 256.
Definition device_ok (dev : device) : Prop := forall idx b, dev idx = Some b -> block_ok b.

(* replace one block of a device *)
Definition override (dev : device) (at_idx : N) (b : block) : device :=
  fun idx => if idx =? at_idx then Some b else dev idx.
