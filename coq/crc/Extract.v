(* Extraction of the executable model and spec (ExtrOcamlBasic only). *)
From Coq Require Import NArith List Extraction ExtrOcamlBasic.
From SdCrc Require Import Poly CrcModel.
Extraction Language OCaml.
Extraction "../../build/extract/crc/crcx.ml" crc7 crc16 crc7_spec crc16_spec crc16_byte crc7_byte.
