(* Property C19 - CRC-7 and CRC-16 equal the SD specification's polynomials for
   every message.  This file contains only the property theorems, each closed
   by `exact`, pinned by `Check`, followed by `Print Assumptions`. *)
From Coq Require Import NArith List.
From SdCrc Require Import Poly CrcModel CrcProofs.
Import ListNotations.
Open Scope N_scope.

(* command checksum = (message * x^7 mod x^7+x^3+1) shifted left, end bit set *)
Theorem C19_crc7 : forall m : list N, bytes m ->
  crc7 m = 2 * prem G7 7 (N.shiftl (msg_poly m) 7) + 1.
Proof. exact crc7_correct. Qed.

(* data checksum = message * x^16 mod x^16+x^12+x^5+1, zero initial value *)
Theorem C19_crc16 : forall m : list N, bytes m ->
  crc16 m = prem G16 16 (N.shiftl (msg_poly m) 16).
Proof. exact crc16_correct. Qed.

(* appending the big-endian checksum gives a message whose checksum is zero *)
Theorem C19_residue : forall m : list N, bytes m -> crc16 (m ++ be16 (crc16 m)) = 0.
Proof. exact crc16_residue. Qed.

(* any non-zero error pattern confined to a window of 16 consecutive bits (this
   includes every single-bit error), anywhere in data + checksum, for messages
   of EVERY length, changes the verdict of the receiver's check *)
Theorem C19_detects_burst : forall (d ed : list N) (ec b i : N),
  length d = length ed -> bytes d -> bytes ed -> ec < 65536 ->
  b <> 0 -> b < 2 ^ 16 -> msg_poly ed * 65536 + ec = N.shiftl b i ->
  crc16 (xor_bytes d ed) <> N.lxor (crc16 d) ec.
Proof. exact crc16_detects_burst. Qed.

(* any two flipped bits in a frame of at most 4112 bits (512 data bytes + 2) *)
Theorem C19_detects_double : forall (d ed : list N) (ec i j : N),
  length d = length ed -> bytes d -> bytes ed -> ec < 65536 ->
  i < j -> j < 8 * (N.of_nat (length d) + 2) -> 8 * (N.of_nat (length d) + 2) <= 4112 ->
  msg_poly ed * 65536 + ec = N.lxor (2 ^ i) (2 ^ j) ->
  crc16 (xor_bytes d ed) <> N.lxor (crc16 d) ec.
Proof. exact crc16_detects_double. Qed.

Check (C19_crc7 : forall m, bytes m -> crc7 m = crc7_spec m).
Check (C19_crc16 : forall m, bytes m -> crc16 m = crc16_spec m).

Print Assumptions C19_crc7.
Print Assumptions C19_crc16.
Print Assumptions C19_residue.
Print Assumptions C19_detects_burst.
Print Assumptions C19_detects_double.
