(* PROOFS: reading back BY NAME, for files of the ROOT directory.
   root_name_slot        in a state of the invariant, a top-level FILE node of the tree whose 8.3 name is
                         sfn is what the lookup of sfn in the root finds: names of live short entries are
                         unique (dir_ok.do_names), so the FIRST match is the node's own slot
   C01x_read_root_by_name   OpenFile root name ReadOnly + Read n returns the first n bytes the API shows at
                         the slot of THAT node - the slot is no premise about the lookup any more, only
                         "the node at p is a top-level node of the tree" (slot_in_root) *)
From Coq Require Import NArith ZArith List Bool Lia Arith FMapPositive Permutation.
From SdFs Require Import FsTypes FsBase FsFat FsMgr FsExt FsLemmas PrBase PrFat PrAlloc PrDir PrChain PrCount PrWf PrOpenClose.
From SdFs Require PrHandles PrOrder PrBounds PrSeek PrModes.
From SdFs Require Import PrGlobalDef PrGlobalOpen PrGlobal.
From SdFs Require Import PrExt PrExt2 PrExt3.
From SdFs Require Import PrContentDef PrContentDef2 PrContentDef3.
From SdFs Require Import PrExt4.
From SdFs Require Import PrSess7 PrByName.
Import ListNotations.
Open Scope N_scope.
Local Arguments N.mul : simpl never.
Local Arguments N.add : simpl never.
Local Arguments N.sub : simpl never.

Lemma nodup_map_inj {A B} (f : A -> B) l x y : NoDup (map f l) -> In x l -> In y l -> f x = f y -> x = y.
Proof.
  induction l as [|a l IH]; intros Hnd Hx Hy E; [destruct Hx|].
  cbn [map] in Hnd. inversion Hnd as [|? ? Hni Hnd']; subst.
  destruct Hx as [->|Hx], Hy as [->|Hy].
  - reflexivity.
  - exfalso. apply Hni. rewrite E. apply in_map. exact Hy.
  - exfalso. apply Hni. rewrite <- E. apply in_map. exact Hx.
  - exact (IH Hnd' Hx Hy E).
Qed.

(* the lookup of the name of a top-level file node of the tree finds the slot of that node *)
Theorem root_name_slot fsz vid s vi v bl rch T e0 ch0 sfn :
  fs_inv_at fsz vid s vi v bl rch T -> In (NFile e0 ch0) T -> e_name e0 = sfn ->
  sfn_wf sfn -> get8 sfn 0 <> 229 ->
  dir_blocks (s_disk s) v CL_ROOT = Some bl /\
  exists t, find (t_matches sfn) (live_in_blocks (s_disk s) bl) = Some t /\
    t_entry (v_fat32 v) t = e0.
Proof.
  intros Hat Hin Hname Hwf H229.
  pose proof (fi_disk _ _ _ _ _ _ _ _ Hat) as [Droot Dtree Drootok Dnodes Dwf Dpos].
  assert (Hbl : dir_blocks (s_disk s) v CL_ROOT = Some bl).
  { unfold root_dir in Droot. unfold dir_blocks, dir_first_cluster. rewrite N.eqb_refl, !andb_true_r.
    destruct (v_fat32 v); cbn [negb].
    - destruct Droot as (Hch & ->). unfold chain_at in Hch. rewrite Hch. reflexivity.
    - destruct Droot as (_ & ->). reflexivity. }
  split; [exact Hbl|].
  (* the node's own slot *)
  destruct (Forall2_In_l _ _ _ _ Dtree Hin) as (tn & Htn & Hrep).
  apply node_rep_file in Hrep. destruct Hrep as (Ee & _ & _).
  assert (Hsh : In tn (dir_shorts (s_disk s) bl)).
  { unfold dir_nodes in Htn. apply filter_In in Htn. destruct Htn as (Hl & Hn). unfold dir_shorts. apply filter_In.
    split; [exact Hl|]. unfold node_slot in Hn. apply andb_true_iff in Hn. exact (proj1 Hn). }
  assert (Hnm : t_name tn = sfn).
  { rewrite <- Hname, Ee. reflexivity. }
  (* the lookup finds a slot: not None, because tn matches *)
  destruct (find (t_matches sfn) (live_in_blocks (s_disk s) bl)) as [t|] eqn:Hfind.
  - exists t. split; [reflexivity|].
    destruct (found_slot _ v CL_ROOT CL_ROOT bl sfn t Drootok Hwf H229 Hfind) as (Ht & Htn').
    rewrite (nodup_map_inj t_name _ t tn (do_names _ _ _ _ _ Drootok) Ht Hsh ltac:(congruence)). symmetry. exact Ee.
  - exfalso. apply (notfound_slot _ v CL_ROOT CL_ROOT bl sfn Drootok Hfind).
    rewrite <- Hnm. apply in_map. exact Hsh.
Qed.

(* the API: a read-only open BY NAME through a root handle, then Read *)
Theorem C01x_read_root_by_name fsz vid s age a d di dd vi v name sfn hn s' n vi0 bl rch T e0 ch0 :
  fs_inv_at fsz vid s vi0 v bl rch T -> PrHandles.handles_ok age s -> age + 1 < U32 - 1 ->
  e5_name name = false -> observes fsz vid s a ->
  PrModes.resolves s d di dd vi v -> d_cluster dd = CL_ROOT -> sfn_of_str name = Some sfn ->
  (* slot_in_root: the file is a top-level node of the tree, under that name *)
  In (NFile e0 ch0) T -> e_name e0 = sfn ->
  xstep (XOp (OpenFile d name ReadOnly)) s = (Ok (XR (RHandle hn)), s') ->
  exists fv, vget (e_block e0, e_offset e0) (ob_mem a) = Some fv /\ fv_name fv = sfn /\
    fst (xstep (XOp (Read hn n)) s') = Ok (XR (RBytes (firstn (N.to_nat n) (fv_bytes fv)))).
Proof.
  intros Hat Hh Hage Hn Ho Hres Hroot Hsfn Hin Hname E.
  assert (Hinv : fs_inv fsz vid s) by (exists vi0, v, bl, rch, T; exact Hat).
  destruct (C01x_open_ro_by_name fsz vid s age a d di dd vi v name sfn hn s' n Hinv Hh Hage Hn Ho Hres Hsfn E)
    as (e & s1 & fv & Hfind & _ & Ev & En & Hread).
  assert (H229 : get8 sfn 0 <> 229).
  { unfold e5_name in Hn. rewrite Hsfn in Hn. apply N.eqb_neq. exact Hn. }
  destruct (root_name_slot fsz vid s vi0 v bl rch T e0 ch0 sfn Hat Hin Hname (sfn_of_str_wf name sfn Hsfn) H229)
    as (Hbl & t & Ht & Ete).
  destruct (go_facts _ _ _ _ _ _ _ _ Hat) as (_ & Hnf & Hc & Ev0 & _ & Hv0 & Hvok & _).
  assert (Evi : nth_error (s_vols s) vi = Some v).
  { destruct Hres as (_ & _ & _ & _ & H4). rewrite PrHandles.get_vol_eq in H4.
    destruct (nth_error (s_vols s) vi) as [x|]; inversion H4; reflexivity. }
  rewrite Hroot in Hfind.
  destruct (C06_find vi v CL_ROOT sfn s bl Evi Hvok Hnf Hc Hbl) as (s2 & Hrun & _).
  rewrite Hfind, Ht in Hrun. injection Hrun as He _. rewrite Ete in He. subst e.
  exists fv. split; [exact Ev|]. split; [exact En|exact Hread].
Qed.

Print Assumptions root_name_slot.
Print Assumptions C01x_read_root_by_name.
