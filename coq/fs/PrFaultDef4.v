(* PROOFS: clause (b) of `fault_outcome` - the handle tables after a call that did not return Ok - for
   every operation and ANY fault schedule (from the table frames of PrHandles), and the assembled
   `step_fault` for the operations whose step is a prefix run (PrFaultDef3.pfx_step_prop). *)
From Coq Require Import NArith ZArith List Bool Lia Arith FMapPositive.
From SdFs Require Import FsTypes FsBase FsFat FsMgr FsLemmas PrBase PrAllocEffect PrChain PrFault PrGlobalDef.
From SdFs Require PrHandles PrCrash PrGlobal PrCrashAll.
From SdFs Require Import PrFault2 PrCrashDef PrCrashDef2 PrCrashDef4 PrFaultDef PrFaultDef2 PrFaultDef3.
Import ListNotations.
Open Scope N_scope.

(* ================================================================== 1. tables *)
Definition ids_kept (s s' : st) : Prop :=
  s_lock s' = s_lock s /\ PrHandles.vids s' = PrHandles.vids s /\ PrHandles.dids s' = PrHandles.dids s /\
  PrHandles.fids s' = PrHandles.fids s.

Lemma shape_ids s s' : PrHandles.same_tables_shape s s' -> ids_kept s s'.
Proof. intros (A1 & A2 & A3 & _ & A5 & _). repeat split; assumption. Qed.
Lemma burned_ids s s' : PrHandles.burned s s' -> ids_kept s s'.
Proof. intros (A1 & A2 & A3 & _ & A5 & _). repeat split; assumption. Qed.
Lemma ids_kept_refl s : ids_kept s s.
Proof. repeat split. Qed.

Lemma lift_inv {A} (f : A -> res) (m : M A) s r s' : lift f m s = (r, s') ->
  exists r1, m s = (r1, s') /\ ((forall a, r <> Ok a) -> forall a, r1 <> Ok a).
Proof.
  unfold lift, bind, ret. destruct (m s) as [[a|e| |] s1]; intros E; injection E as <- <-;
    eexists; (split; [reflexivity|]); intros H a0 Ha; try discriminate. exact (H _ eq_refl).
Qed.

Lemma keeps_ids {A} (m : M A) : (forall s0, PrHandles.keeps s0 m) -> forall s r s', m s = (r, s') -> ids_kept s s'.
Proof. intros H s r s' E. exact (shape_ids _ _ (PrHandles.keeps_frame m H s r s' E)). Qed.

Lemma fin_ids K s o s' : PrHandles.Fin K s o s' -> (forall h, o <> Ok h) -> ids_kept s s'.
Proof.
  intros [(_ & [H|H])|(H & _)] Hn; [exact (shape_ids _ _ H)|exact (burned_ids _ _ H)|exfalso; exact (Hn _ H)].
Qed.

(* swap_remove of the last index drops the last element *)
Lemma swap_remove_last {A} (l : list A) x : swap_remove (l ++ [x]) (length l) = l.
Proof.
  unfold swap_remove. rewrite rev_app_distr. cbn [rev app]. rewrite app_length. cbn [length].
  replace (length l + 1 - 1)%nat with (length l) by lia. rewrite Nat.eqb_refl.
  rewrite firstn_app, firstn_all, Nat.sub_diag. cbn [firstn]. apply app_nil_r.
Qed.

Lemma find_idx_app_fresh {A} (p : A -> bool) (l : list A) x : forall i,
  (forall y, In y l -> p y = false) -> p x = true -> find_idx p (l ++ [x]) i = Some (i + length l)%nat.
Proof.
  induction l as [|a l IH]; intros i Hl Hx; cbn [app find_idx length].
  - rewrite Hx. f_equal. lia.
  - rewrite (Hl a (or_introl eq_refl)). rewrite IH; [f_equal; lia| |exact Hx].
    intros y Hy. apply Hl. right. exact Hy.
Qed.

Lemma open_root_dir_eq h s : s_lock s = false ->
  open_root_dir h s =
  if is_full (s_dirs s) (s_maxd s)
  then (Err TooManyOpenDirs, set_s_next_id s ((s_next_id s + 1) mod U32))
  else (Ok (s_next_id s),
        set_s_dirs (set_s_next_id s ((s_next_id s + 1) mod U32)) (s_dirs s ++ [mk_dirinfo (s_next_id s) h CL_ROOT])).
Proof.
  intros Hl. unfold open_root_dir. rewrite (PrHandles.locked_free _ s Hl).
  unfold generate, push_dir, bind, get, modify, ret, fail. cbn [s_dirs s_maxd set_s_next_id s_next_id].
  destruct (is_full (s_dirs s) (s_maxd s)); reflexivity.
Qed.

(* Label: the root directory handle it opens is closed again whatever the listing did *)
Lemma label_ids h s r s' : s_lock s = false -> id_fresh s ->
  get_root_volume_label h s = (r, s') -> (exists e, r = Err e) -> ids_kept s s'.
Proof.
  intros Hl Hfr E (err0 & ->). unfold get_root_volume_label in E. rewrite (PrHandles.locked_free _ s Hl) in E.
  unfold bind at 1 in E. rewrite PrHandles.get_volume_by_id_eq in E.
  destruct (find_idx _ _ _) as [vi|]; [|injection E as _ <-; apply ids_kept_refl].
  unfold bind at 1 in E. rewrite PrHandles.get_vol_eq in E.
  destruct (nth_error (s_vols s) vi) as [vv|]; [|injection E as _ <-; apply ids_kept_refl].
  destruct (trim_rev (rev (v_name vv))); [|injection E as _ <-; apply ids_kept_refl].
  unfold bind at 1 in E.
  (* open_root_dir *)
  rewrite (open_root_dir_eq h s Hl) in E.
  destruct (is_full (s_dirs s) (s_maxd s)).
  { injection E as _ <-. repeat split. }
  set (rd := s_next_id s) in *.
  set (s1 := set_s_dirs (set_s_next_id s ((s_next_id s + 1) mod U32)) (s_dirs s ++ [mk_dirinfo rd h CL_ROOT])) in *.
  assert (E' : (r0 <- try (mgr_iterate rd (ret tt)) ;;
                _ <- try (close_dir rd) ;;
                match r0 with
                | inr e => fail e
                | inl (es, _) => match filter (fun e => e_attr e =? A_VOLUME) es with
                                 | e :: _ => ret (Some (e_name e)) | [] => ret None end
                end) s1 = (Err err0, s')).
  { exact E. }
  clear E. unfold bind at 1 in E'. unfold try at 1 in E'.
  destruct (mgr_iterate rd (ret tt) s1) as [o2 s2] eqn:E2.
  assert (Hl1 : s_lock s1 = false) by exact Hl.
  (* the listing keeps the shape *)
  assert (Hs2 : PrHandles.same_tables_shape s1 s2).
  { rewrite (proj1 (PrHandles.C08_iterate_holds_lock _ rd (ret tt) s1 Hl1)) in E2.
    destruct (PrHandles.iter_listing rd s1) as [o1 t1] eqn:E1.
    pose proof (PrHandles.keeps_frame _ (fun s0 => PrHandles.keeps_iter_listing s0 rd) _ _ _ E1) as Hk.
    unfold PrHandles.iterate_outcome, ret in E2.
    destruct o1 as [[|e0 shown]|e| |]; injection E2 as <- <-; try exact Hk.
    destruct Hk as (K1 & K2 & K3 & K4 & K5 & K6 & K7 & K8). repeat split; try assumption.
    cbn [s_lock set_s_lock]. symmetry. exact Hl1. }
  assert (Hclose : forall (x : (list dirent * option (unit + err)) + err) rr ss,
            PrHandles.same_tables_shape s1 s2 ->
            (_ <- try (close_dir rd) ;;
             match x with
             | inr e => fail e
             | inl (es, _) => match filter (fun e => e_attr e =? A_VOLUME) es with
                              | e :: _ => ret (Some (e_name e)) | [] => ret None end
             end) s2 = (rr, ss) -> ids_kept s ss).
  { intros x rr ss (K1 & K2 & K3 & K4 & K5 & _) Ex.
    assert (Hl2 : s_lock s2 = false) by congruence.
    unfold bind at 1 in Ex. unfold try in Ex. unfold close_dir in Ex. rewrite (PrHandles.locked_free _ s2 Hl2) in Ex.
    unfold bind at 1 in Ex. rewrite PrHandles.get_dir_by_id_eq in Ex.
    assert (Hd2 : PrHandles.dids s2 = PrHandles.dids s ++ [rd]).
    { rewrite K2. unfold PrHandles.dids, s1. cbn [s_dirs set_s_dirs]. rewrite map_app. reflexivity. }
    (* s_dirs s2 = l ++ [x] with ids as above *)
    assert (Hsplit : exists l x0, s_dirs s2 = l ++ [x0] /\ map d_id l = PrHandles.dids s /\ d_id x0 = rd).
    { unfold PrHandles.dids in Hd2. destruct (s_dirs s2) as [|a l] eqn:El using rev_ind.
      - cbn in Hd2. destruct (map d_id (s_dirs s)); discriminate.
      - clear IHl. rewrite map_app in Hd2. cbn [map] in Hd2. apply app_inj_tail in Hd2. destruct Hd2 as (P1 & P2).
        exists l, a. repeat split; assumption. }
    destruct Hsplit as (l & x0 & El & Eids & Ex0).
    assert (Hfind : find_idx (fun d0 => d_id d0 =? rd) (s_dirs s2) 0 = Some (length l)).
    { rewrite El. rewrite (find_idx_app_fresh _ l x0 0%nat); [reflexivity| |apply N.eqb_eq; exact Ex0].
      intros y Hy. apply N.eqb_neq. intros Ey. apply (Hfr rd); [|reflexivity].
      unfold PrHandles.all_ids. apply in_or_app. right. apply in_or_app. left.
      rewrite <- Eids, <- Ey. apply in_map. exact Hy. }
    rewrite Hfind in Ex. unfold modify at 1 in Ex.
    set (s3 := set_s_dirs s2 (swap_remove (s_dirs s2) (length l))) in *.
    assert (Hk : ids_kept s s3).
    { unfold ids_kept, s3, PrHandles.vids, PrHandles.dids, PrHandles.fids. cbn [s_lock s_vols s_dirs s_files set_s_dirs].
      split; [congruence|]. split; [exact K1|]. split; [|exact K3].
      rewrite El, swap_remove_last. exact Eids. }
    destruct x as [[es o3]|e]; [destruct (filter _ es)|]; injection Ex as _ <-; exact Hk. }
  destruct o2 as [a|e| |].
  - exact (Hclose (inl a) _ _ Hs2 E').
  - exact (Hclose (inr e) _ _ Hs2 E').
  - injection E' as E' _; discriminate.
  - injection E' as E' _; discriminate.
Qed.

Lemma lift_keeps {A} (f : A -> res) (m : M A) : (forall s0, PrHandles.keeps s0 m) ->
  forall s r s', lift f m s = (r, s') -> ids_kept s s'.
Proof. intros H. apply keeps_ids. intros s0. apply PrHandles.keeps_lift. apply H. Qed.

Lemma lift_fin K (f : N -> res) (m : M N) :
  (forall s o s', m s = (o, s') -> PrHandles.Fin K s o s') ->
  forall s e s', lift f m s = (Err e, s') -> ids_kept s s'.
Proof.
  intros H s e s' E. destruct (lift_inv f m s _ s' E) as (r1 & E1 & Hn).
  apply (fin_ids K s r1 s' (H _ _ _ E1)). apply Hn. intros a; discriminate.
Qed.

(* every operation, any schedule: a call that returned an error left the handle tables as they were
   (CloseFile is the exception: it removes its handle even when the flush failed) *)
Theorem err_tables o s e s' : s_lock s = false -> id_fresh s -> step o s = (Err e, s') ->
  match o with CloseFile _ | OpenVol _ | CloseVol _ | Remount _ => True | _ => ids_kept s s' end.
Proof.
  intros Hl Hfr E. destruct o; try exact I; cbn [step] in E.
  - exact (lift_fin PrHandles.KD _ _ (PrHandles.open_root_dir_fin v) _ _ _ E).
  - exact (lift_fin PrHandles.KD _ _ (PrHandles.open_dir_fin d name) _ _ _ E).
  - (* CloseDir *)
    destruct (lift_inv _ _ _ _ _ E) as (r1 & E1 & Hn). unfold close_dir in E1.
    rewrite (PrHandles.locked_free _ s Hl) in E1. unfold bind in E1. rewrite PrHandles.get_dir_by_id_eq in E1.
    destruct (find_idx _ _ _); [|injection E1 as _ <-; apply ids_kept_refl].
    unfold modify in E1. injection E1 as <- _. exfalso. apply (Hn ltac:(intros a; discriminate) tt). reflexivity.
  - exact (lift_keeps _ _ (fun s0 => PrHandles.keeps_mgr_find s0 d name) _ _ _ E).
  - (* Iter *)
    unfold bind at 1 in E.
    destruct (mgr_iterate d match inner with Some o' => step o' | None => ret RUnit end s) as [r1 s1] eqn:E1.
    rewrite (proj1 (PrHandles.C08_iterate_holds_lock _ d _ s Hl)) in E1.
    destruct (PrHandles.iter_listing d s) as [o1 t1] eqn:El.
    pose proof (PrHandles.keeps_frame _ (fun s0 => PrHandles.keeps_iter_listing s0 d) _ _ _ El) as Hk.
    unfold PrHandles.iterate_outcome in E1.
    destruct o1 as [[|e0 shown]|e1| |].
    + injection E1 as <- <-. discriminate.
    + destruct (match inner with Some o' => step o' | None => ret RUnit end (set_s_lock t1 true)) as [[a|e2| |] s2];
        injection E1 as <- <-; discriminate.
    + injection E1 as <- <-. injection E as _ <-. exact (shape_ids _ _ Hk).
    + injection E1 as <- <-. discriminate.
    + injection E1 as <- <-. discriminate.
  - exact (lift_fin PrHandles.KF _ _ (PrHandles.open_file_in_dir_fin d name m) _ _ _ E).
  - exact (lift_keeps _ _ (fun s0 => PrHandles.keeps_flush_file s0 f) _ _ _ E).
  - exact (lift_keeps _ _ (fun s0 => PrHandles.keeps_mgr_read s0 f n) _ _ _ E).
  - exact (lift_keeps _ _ (fun s0 => PrHandles.keeps_mgr_write s0 f data) _ _ _ E).
  - exact (lift_keeps _ _ (fun s0 => PrHandles.keeps_seek_start s0 f x) _ _ _ E).
  - exact (lift_keeps _ _ (fun s0 => PrHandles.keeps_seek_cur s0 f x) _ _ _ E).
  - exact (lift_keeps _ _ (fun s0 => PrHandles.keeps_seek_end s0 f x) _ _ _ E).
  - exact (lift_keeps _ _ (fun s0 => PrHandles.keeps_file_length s0 f) _ _ _ E).
  - exact (lift_keeps _ _ (fun s0 => PrHandles.keeps_file_offset s0 f) _ _ _ E).
  - exact (lift_keeps _ _ (fun s0 => PrHandles.keeps_file_eof s0 f) _ _ _ E).
  - exact (lift_keeps _ _ (fun s0 => PrHandles.keeps_delete_file_in_dir s0 d name) _ _ _ E).
  - exact (lift_keeps _ _ (fun s0 => PrHandles.keeps_make_dir_in_dir s0 d name) _ _ _ E).
  - (* Label *)
    destruct (lift_inv _ _ _ _ _ E) as (r1 & E1 & Hn).
    assert (exists e1, r1 = Err e1) as He.
    { unfold lift, bind in E. rewrite E1 in E. destruct r1; try discriminate. eexists; reflexivity. }
    exact (label_ids v s r1 s' Hl Hfr E1 He).
  - exact (lift_keeps _ _ (fun s0 => PrHandles.keeps_has_open_handles s0) _ _ _ E).
  - exact (lift_keeps _ _ (fun s0 => PrHandles.keeps_io_seek s0 f w x) _ _ _ E).
  - exact (lift_keeps _ _ (fun s0 => PrHandles.keeps_io_read s0 f n) _ _ _ E).
  - exact (lift_keeps _ _ (fun s0 => PrHandles.keeps_io_write s0 f data) _ _ _ E).
Qed.

Definition not_close_file (o : op) : Prop :=
  match o with CloseFile _ | OpenVol _ | CloseVol _ | Remount _ => False | _ => True end.

(* clause (b), any schedule *)
Theorem fault_tables o s i e s' : s_lock s = false -> id_fresh s -> not_close_file o ->
  step o (arm s i) = (Err e, s') -> tables_kept o s s'.
Proof.
  intros Hl Hfr Hn E. pose proof (err_tables o (arm s i) e s' Hl Hfr E) as H.
  destruct o; try destruct Hn; destruct H as (A1 & A2 & A3 & A4);
    (split; [rewrite A1; exact Hl|]; split; [exact A2|]; split; [exact A3|exact A4]).
Qed.

Print Assumptions fault_tables.
