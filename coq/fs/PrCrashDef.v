(* PROOFS / SPEC: the foundation of C10 and C09 for WHOLE API HISTORIES of the model.
   C10: if the device stops accepting writes after ANY block write of ANY operation, the medium
   is structurally sound (crash_inv); the only permitted residue is space that is allocated but
   not yet referenced (chains nobody points at: `lost`) and a size not yet updated.
   C09: a file that is not the target of the running operation is found on every crashed medium at
   the same path with the same entry and the same data (step_keeps_flushed).

   1  the crashed media of a step: step_writes, traced, crash_disks, composition
   2  the crash invariant crash_inv on a raw disk, the decider crash_inv_b, fs_inv_crash_inv
   3  the per-operation obligation step_crash, the assembly crash_history
   4  step_crash for the operations that write nothing, for Flush and CloseFile
   5  C09 groundwork: file_on_medium, step_keeps_flushed, frame lemmas
   6  examples

   Block writes are atomic and ordered (the device log s_trace records them, newest first):
   a crash keeps a PREFIX of the writes of the running call. *)
From Coq Require Import NArith ZArith List Bool Lia Arith ZifyClasses ZifyInst Zify FMapPositive Permutation.
From SdFs Require Import FsTypes FsBase FsFat FsMgr FsLemmas PrBase PrFat PrAlloc PrDir PrSeek PrAllocEffect
  PrRw PrWrite PrFileSeq PrMulti PrEntry PrChain PrCount PrWf PrOpenClose PrGlobalDef.
From SdFs Require PrModes PrHandles PrCrash PrBounds PrOrder PrGlobalWrite PrGlobalOpen.
Import ListNotations.
Open Scope N_scope.
Local Arguments N.mul : simpl never.
Local Arguments N.add : simpl never.
Local Arguments N.sub : simpl never.
Local Arguments N.div : simpl never.
Local Arguments N.modulo : simpl never.
Local Arguments N.land : simpl never.
Local Arguments N.lor : simpl never.
Local Arguments N.min : simpl never.
Local Arguments N.max : simpl never.
Local Ltac Zify.zify_post_hook ::= Z.to_euclidean_division_equations.

Notation prefix_disk := PrCrash.prefix_disk.

(* ================================================================== 1. the crashed media of a step *)
(* the device events of the run from s to s' (newest first): what the log of s' has more *)
Definition step_new (s s' : st) : list devcall :=
  firstn (length (s_trace s') - length (s_trace s)) (s_trace s').

(* the successful block writes of the run, with their contents, in CHRONOLOGICAL order *)
Definition step_writes (s s' : st) : list (N * block) := rev (dwr (step_new s s')).

(* the run from s to s' only appended to the log, and its final medium is the old medium with
   exactly the logged writes applied, in order (every computation of the model has this
   property: the only function that touches s_disk is dev_write, which logs the write) *)
Definition traced (s s' : st) : Prop :=
  exists new, s_trace s' = new ++ s_trace s /\ s_disk s' = apply_ws (rev (dwr new)) (s_disk s).

(* d' is the medium after the first k writes of the run, for some k: what a device that stops
   accepting writes at some point during the run holds *)
Definition crash_disks (s s' : st) (d' : disk) : Prop :=
  exists k, (k <= length (step_writes s s'))%nat /\ d' = prefix_disk (step_writes s s') k (s_disk s).

(* every crashed medium of the run satisfies P *)
Definition crash_all (P : disk -> Prop) (s s' : st) : Prop := forall d', crash_disks s s' d' -> P d'.

Lemma step_new_ext s s' new : s_trace s' = new ++ s_trace s -> step_new s s' = new.
Proof.
  intros E. unfold step_new. rewrite E, app_length.
  replace (length new + length (s_trace s) - length (s_trace s))%nat with (length new) by lia.
  rewrite firstn_app, firstn_all, Nat.sub_diag. cbn [firstn]. apply app_nil_r.
Qed.

Lemma step_writes_ext s s' new : s_trace s' = new ++ s_trace s -> step_writes s s' = rev (dwr new).
Proof. intros E. unfold step_writes. rewrite (step_new_ext s s' new E). reflexivity. Qed.

(* PrAllocEffect.tr_ext names the writes; it determines them *)
Lemma tr_ext_step_writes s s' ws : tr_ext s s' ws -> step_writes s s' = ws.
Proof. intros (new & E & W & _). rewrite (step_writes_ext s s' new E). exact W. Qed.

Lemma tr_ext_traced s s' ws : tr_ext s s' ws -> traced s s'.
Proof. intros (new & E & W & D). exists new. split; [exact E|]. rewrite W. exact D. Qed.

Lemma traced_tr_ext s s' : traced s s' -> tr_ext s s' (step_writes s s').
Proof.
  intros (new & E & D). exists new. split; [exact E|]. rewrite (step_writes_ext s s' new E).
  split; [reflexivity|exact D].
Qed.

Lemma traced_refl s : traced s s.
Proof. exists []. split; reflexivity. Qed.

Lemma traced_trans a b c : traced a b -> traced b c -> traced a c.
Proof.
  intros T1 T2. apply traced_tr_ext in T1. apply traced_tr_ext in T2.
  exact (tr_ext_traced _ _ _ (tr_ext_trans _ _ _ _ _ T1 T2)).
Qed.

Lemma step_writes_trans a b c : traced a b -> traced b c ->
  step_writes a c = step_writes a b ++ step_writes b c.
Proof.
  intros T1 T2. apply traced_tr_ext in T1. apply traced_tr_ext in T2.
  exact (tr_ext_step_writes _ _ _ (tr_ext_trans _ _ _ _ _ T1 T2)).
Qed.

Lemma traced_disk s s' : traced s s' -> s_disk s' = apply_ws (step_writes s s') (s_disk s).
Proof. intros T. exact (tr_ext_disk _ _ _ (traced_tr_ext _ _ T)). Qed.

(* same log, same medium *)
Lemma traced_same s s' : s_trace s' = s_trace s -> s_disk s' = s_disk s -> traced s s'.
Proof. intros Et Ed. exists []. split; [exact Et|exact Ed]. Qed.

Lemma step_writes_same s s' : s_trace s' = s_trace s -> step_writes s s' = [].
Proof. intros Et. exact (step_writes_ext s s' [] Et). Qed.

(* no write in the new part of the log *)
Lemma writes_of_nil_dwr new : PrOrder.writes_of new = [] -> dwr new = [].
Proof.
  unfold PrOrder.writes_of. rewrite PrCrash.wr1_dwr, PrCrash.dwr_rev. intros H.
  apply map_eq_nil in H. destruct (dwr new) as [|x l]; [reflexivity|].
  cbn [rev] in H. destruct (rev l); discriminate H.
Qed.

Lemma tsteps_nil_writes s s' : PrOrder.tsteps s s' [] -> step_writes s s' = [].
Proof.
  intros (new & E & W). rewrite (step_writes_ext s s' new E), (writes_of_nil_dwr new W). reflexivity.
Qed.

Lemma tsteps_nil_traced s s' : PrOrder.tsteps s s' [] -> s_disk s' = s_disk s -> traced s s'.
Proof.
  intros (new & E & W) D. exists new. split; [exact E|]. rewrite (writes_of_nil_dwr new W). exact D.
Qed.

(* the block numbers of the writes are the ones PrOrder.tsteps lists *)
Lemma tsteps_step_writes s s' ws : PrOrder.tsteps s s' ws -> map fst (step_writes s s') = ws.
Proof.
  intros (new & E & W). rewrite (step_writes_ext s s' new E), <- W.
  unfold PrOrder.writes_of. rewrite PrCrash.wr1_dwr, PrCrash.dwr_rev. reflexivity.
Qed.

(* ---- one logged write (the shape of PrEntry.write_entry_to_disk_spec / flush_file_spec /
   PrFat.update_info_sector_spec) ---- *)
Lemma tr_ext_one_write s s' i b j :
  s_disk s' = disk_set (s_disk s) i b ->
  (exists pre, s_trace s' = DWrite i b :: pre /\ (pre = s_trace s \/ pre = DRead j :: s_trace s)) ->
  tr_ext s s' [(i, b)].
Proof.
  intros D (pre & E & [-> | ->]).
  - exists [DWrite i b]. split; [exact E|]. split; [reflexivity|exact D].
  - exists [DWrite i b; DRead j]. split; [exact E|]. split; [reflexivity|exact D].
Qed.

(* ---- the crashed media ---- *)
Lemma crash_disks_old s s' : crash_disks s s' (s_disk s).
Proof. exists 0%nat. split; [lia|reflexivity]. Qed.

Lemma crash_disks_new s s' : traced s s' -> crash_disks s s' (s_disk s').
Proof.
  intros T. exists (length (step_writes s s')). split; [lia|].
  rewrite PrCrash.prefix_disk_all. exact (traced_disk s s' T).
Qed.

(* no write: the only crashed medium is the old one *)
Lemma crash_disks_quiet s s' d' : step_writes s s' = [] -> crash_disks s s' d' -> d' = s_disk s.
Proof. intros E (k & _ & ->). rewrite E. unfold PrCrash.prefix_disk. rewrite firstn_nil. reflexivity. Qed.

(* the writes named by a tr_ext lemma *)
Lemma crash_disks_tr_ext s s' ws d' : tr_ext s s' ws ->
  (crash_disks s s' d' <-> exists k, (k <= length ws)%nat /\ d' = prefix_disk ws k (s_disk s)).
Proof. intros T. unfold crash_disks. rewrite (tr_ext_step_writes s s' ws T). tauto. Qed.

(* one write: the old medium or the new one *)
Lemma crash_disks_one s s' i b d' : tr_ext s s' [(i, b)] -> crash_disks s s' d' ->
  d' = s_disk s \/ d' = s_disk s'.
Proof.
  intros T H. apply (crash_disks_tr_ext s s' _ d' T) in H. destruct H as (k & Hk & ->).
  cbn [length] in Hk. destruct k as [|[|k]]; [left; reflexivity|right|lia].
  rewrite (tr_ext_disk _ _ _ T). reflexivity.
Qed.

(* COMPOSITION: a prefix of the writes of `a ~> b ~> c` is a prefix of the writes of `a ~> b`, or
   all of them followed by a prefix of the writes of `b ~> c` *)
Theorem crash_disks_trans a b c d' : traced a b -> traced b c ->
  crash_disks a c d' -> crash_disks a b d' \/ crash_disks b c d'.
Proof.
  intros T1 T2 (k & Hk & ->). rewrite (step_writes_trans a b c T1 T2) in *.
  destruct (Nat.le_gt_cases k (length (step_writes a b))) as [Hle|Hgt].
  - left. exists k. split; [exact Hle|]. apply PrCrash.prefix_disk_app_l. exact Hle.
  - right. exists (k - length (step_writes a b))%nat. rewrite app_length in Hk. split; [lia|].
    rewrite PrCrash.prefix_disk_app_r by lia. rewrite <- (traced_disk a b T1). reflexivity.
Qed.

Lemma crash_disks_left a b c d' : traced a b -> traced b c -> crash_disks a b d' -> crash_disks a c d'.
Proof.
  intros T1 T2 (k & Hk & ->). exists k. rewrite (step_writes_trans a b c T1 T2), app_length.
  split; [lia|]. symmetry. apply PrCrash.prefix_disk_app_l. exact Hk.
Qed.

Lemma crash_disks_right a b c d' : traced a b -> traced b c -> crash_disks b c d' -> crash_disks a c d'.
Proof.
  intros T1 T2 (k & Hk & ->). exists (length (step_writes a b) + k)%nat.
  rewrite (step_writes_trans a b c T1 T2), app_length. split; [lia|].
  rewrite PrCrash.prefix_disk_app_r by lia. rewrite <- (traced_disk a b T1).
  replace (length (step_writes a b) + k - length (step_writes a b))%nat with k by lia. reflexivity.
Qed.

(* the same, for a predicate on media: the form the per-operation proofs use *)
Theorem crash_all_trans P a b c : traced a b -> traced b c ->
  crash_all P a b -> crash_all P b c -> crash_all P a c.
Proof.
  intros T1 T2 H1 H2 d' H. destruct (crash_disks_trans a b c d' T1 T2 H) as [X|X]; [exact (H1 d' X)|exact (H2 d' X)].
Qed.

Lemma crash_all_quiet (P : disk -> Prop) s s' : step_writes s s' = [] -> P (s_disk s) -> crash_all P s s'.
Proof. intros E H d' Hd. rewrite (crash_disks_quiet s s' d' E Hd). exact H. Qed.

Lemma crash_all_one (P : disk -> Prop) s s' i b : tr_ext s s' [(i, b)] -> P (s_disk s) -> P (s_disk s') -> crash_all P s s'.
Proof. intros T H0 H1 d' Hd. destruct (crash_disks_one s s' i b d' T Hd) as [-> | ->]; assumption. Qed.

(* a part of the run that does not touch the log or the medium can be dropped at either end *)
Lemma crash_disks_same_l a a' c d' : s_trace a' = s_trace a -> s_disk a' = s_disk a ->
  (crash_disks a c d' <-> crash_disks a' c d').
Proof.
  intros Et Ed. unfold crash_disks, step_writes, step_new. rewrite Et, Ed. tauto.
Qed.

Lemma crash_disks_same_r a c c' d' : s_trace c' = s_trace c ->
  (crash_disks a c d' <-> crash_disks a c' d').
Proof. intros Et. unfold crash_disks, step_writes, step_new. rewrite Et. tauto. Qed.

(* bind: the run of `m ;; k` is the run of m, or the run of m followed by the run of k *)
Lemma bind_run {A B} (m : M A) (k : A -> M B) s r s' : bind m k s = (r, s') ->
  (exists a s1, m s = (Ok a, s1) /\ k a s1 = (r, s')) \/
  (exists r1, m s = (r1, s') /\ (forall a, r1 <> Ok a)).
Proof.
  unfold bind. destruct (m s) as [[a|e| |] s1]; intros H.
  - left. exists a, s1. split; [reflexivity|exact H].
  - right. injection H as <- <-. eexists. split; [reflexivity|discriminate].
  - right. injection H as <- <-. eexists. split; [reflexivity|discriminate].
  - right. injection H as <- <-. eexists. split; [reflexivity|discriminate].
Qed.

(* ================================================================== 2. the crash invariant *)
(* node_ok without the size bound of a file: "a size not yet updated" is permitted residue.
   Which operations create it: a truncating open (ReadWriteTruncate / ReadWriteCreateOrTruncate on
   an existing file) cuts the chain in the FAT BEFORE it rewrites the directory slot with size 0,
   so between the two the recorded size exceeds what the (one-cluster) chain holds; Write /
   Flush / Close never shrink a chain and write the slot last (there the recorded size is
   merely OLDER than the chain: smaller, which the bound allows anyway). *)
Fixpoint node_ok_crash (d : disk) (v : vol) (parent : N) (n : node) {struct n} : Prop :=
  match n with
  | NFile e ch => True
  | NDir e ch kids =>
      dir_ok d v (e_cluster e) parent (data_blocks v ch) /\
      (fix all (ks : list node) : Prop :=
         match ks with [] => True | k :: ks' => node_ok_crash d v (e_cluster e) k /\ all ks' end) kids
  end.

(* the medium d read with the geometry of v: a root directory bl (chain rch on FAT32), the tree T
   below it, and `lost`: heads of chains that nothing references (allocated, not yet or no longer
   referenced).  Compare with PrGlobalDef.disk_inv: the same fields; node_ok_crash for node_ok;
   `lost` for the pending heads of the open files (after power loss there are no open files).
   - ci_tree: every live entry decodes to a node; a file entry with a first cluster >= 2 has a
     chain from it, a directory entry HAS a chain (node_rep: chain_at, never empty) and its
     slots are read from the blocks of that chain;
   - ci_rootok / ci_nodes: in every directory: nothing but end markers after the first end marker
     (no stale contents show as entries), unique names, exactly the two dot entries with the
     right clusters;
   - ci_wf: PrWf.fat_wf over the heads of the tree and the lost heads: every chain is in range,
     acyclic, terminated, never through a free / bad / reserved entry; chains are pairwise
     disjoint; every cluster marked in use lies on one of them;
   - ci_pos: no slot is reached twice *)
Record crash_inv_at (d : disk) (v : vol) (bl rch : list N) (T : list node) (lost : list N) : Prop :=
  mk_crash_inv_at {
  ci_root : root_dir d v bl rch;
  ci_tree : tree_rep d v bl T;
  ci_rootok : dir_ok d v CL_ROOT CL_ROOT bl;
  ci_nodes : Forall (node_ok_crash d v CL_ROOT) T;
  ci_wf : fat_wf d v (heads v T ++ lost);
  ci_pos : NoDup (map node_pos (all_nodes T))
}.

(* the volume record: layout of the partition, 32-bit device (facts about v alone; no operation
   writes the boot sector - PrBounds.in_region - so the record a fresh mount computes has the
   same geometry) *)
Definition crash_vol (fsz : N) (v : vol) : Prop :=
  PrBounds.part_layout v (v_nblocks v) fsz /\ v_lba v + v_nblocks v < U32.

Definition crash_inv (fsz : N) (v : vol) (d : disk) : Prop :=
  crash_vol fsz v /\ exists bl rch T lost, crash_inv_at d v bl rch T lost.

(* ---- unfolding ---- *)
Lemma node_ok_crash_file d v p e ch : node_ok_crash d v p (NFile e ch) <-> True.
Proof. reflexivity. Qed.

Lemma node_ok_crash_dir d v p e ch kids :
  node_ok_crash d v p (NDir e ch kids) <->
  dir_ok d v (e_cluster e) p (data_blocks v ch) /\ Forall (node_ok_crash d v (e_cluster e)) kids.
Proof.
  cbn [node_ok_crash].
  assert (G : forall ks, (fix all (ks : list node) : Prop :=
              match ks with [] => True | k :: ks' => node_ok_crash d v (e_cluster e) k /\ all ks' end) ks
            <-> Forall (node_ok_crash d v (e_cluster e)) ks).
  { induction ks as [|k ks IH]; [split; [constructor|trivial]|]. rewrite IH. split.
    - intros [A B]. constructor; assumption.
    - intros H. inversion H; subst. split; assumption. }
  rewrite G. tauto.
Qed.

Lemma node_ok_weaken d v : forall n p, node_ok d v p n -> node_ok_crash d v p n.
Proof.
  induction n as [e ch|e ch kids IH] using node_ind'; intros p H; [exact I|].
  apply node_ok_dir in H. destruct H as (A & B). apply node_ok_crash_dir. split; [exact A|].
  rewrite Forall_forall in *. intros k Hk. exact (IH k Hk _ (B k Hk)).
Qed.

(* the disk-level part of fs_inv is a crash invariant: the pending chains are lost chains *)
Lemma disk_inv_crash_inv_at d v bl rch T pend : disk_inv d v bl rch T pend -> crash_inv_at d v bl rch T pend.
Proof.
  intros [A B C D E F]. constructor; try assumption.
  rewrite Forall_forall in *. intros n Hn. exact (node_ok_weaken d v n _ (D n Hn)).
Qed.

Lemma tree_inv_crash_inv_at d v bl rch T lost : tree_inv d v bl rch T -> fat_wf d v (heads v T ++ lost) ->
  crash_inv_at d v bl rch T lost.
Proof. intros Ht W. exact (disk_inv_crash_inv_at d v bl rch T lost (disk_inv_join d v bl rch T lost Ht W)). Qed.

Lemma fs_inv_crash_vol fsz vid s vi v bl rch T : fs_inv_at fsz vid s vi v bl rch T -> crash_vol fsz v.
Proof. intros H. split; [exact (fi_layout _ _ _ _ _ _ _ _ H)|exact (fi_dev _ _ _ _ _ _ _ _ H)]. Qed.

Theorem fs_inv_crash_inv fsz vid s vi v bl rch T :
  fs_inv_at fsz vid s vi v bl rch T -> crash_inv fsz v (s_disk s).
Proof.
  intros H. split; [exact (fs_inv_crash_vol _ _ _ _ _ _ _ _ H)|].
  exists bl, rch, T, (pend_of s v). exact (disk_inv_crash_inv_at _ _ _ _ _ _ (fi_disk _ _ _ _ _ _ _ _ H)).
Qed.

(* the invariant depends on the geometry only, not on the free-space record *)
Lemma node_ok_crash_geo d v w : geo_eq v w -> forall n p, node_ok_crash d v p n -> node_ok_crash d w p n.
Proof.
  intros G. induction n as [e ch|e ch kids IH] using node_ind'; intros p H; [exact I|].
  apply node_ok_crash_dir in H. destruct H as (A & B). apply node_ok_crash_dir.
  rewrite (data_blocks_geo v w ch G). split; [exact (dir_ok_geo d v w _ _ _ G A)|].
  rewrite Forall_forall in *. intros k Hk. exact (IH k Hk _ (B k Hk)).
Qed.

Lemma crash_inv_at_geo d v w bl rch T lost : geo_eq v w ->
  crash_inv_at d v bl rch T lost -> crash_inv_at d w bl rch T lost.
Proof.
  intros G [A B C D E F]. constructor.
  - exact (root_dir_geo d v w bl rch G A).
  - exact (tree_rep_geo d v w bl T G B).
  - exact (dir_ok_geo d v w _ _ _ G C).
  - rewrite Forall_forall in *. intros n Hn. exact (node_ok_crash_geo d v w G n _ (D n Hn)).
  - rewrite (heads_geo v w T G). exact (fat_wf_geo d v w _ G E).
  - exact F.
Qed.

Lemma crash_vol_geo fsz v w : geo_eq v w -> crash_vol fsz v -> crash_vol fsz w.
Proof.
  intros (a & b & ->) [H1 H2]. split; [|exact H2].
  exact (PrBounds.part_layout_geom v _ _ fsz (ex_intro _ a (ex_intro _ b eq_refl)) H1).
Qed.

Lemma crash_inv_geo fsz v w d : geo_eq v w -> crash_inv fsz v d -> crash_inv fsz w d.
Proof.
  intros G (V & bl & rch & T & lost & H). split; [exact (crash_vol_geo fsz v w G V)|].
  exists bl, rch, T, lost. exact (crash_inv_at_geo d v w bl rch T lost G H).
Qed.

(* ---- frame: writes outside the FAT and outside the directory blocks ---- *)
Lemma node_ok_crash_frame d d' v : forall n p, (forall j, In j (node_dir_blocks v n) -> disk_get d' j = disk_get d j) ->
  node_ok_crash d v p n -> node_ok_crash d' v p n.
Proof.
  induction n as [e ch|e ch kids IH] using node_ind'; intros p Hb H; [exact I|].
  apply node_ok_crash_dir in H. destruct H as (A & B). apply node_ok_crash_dir. cbn [node_dir_blocks] in Hb. split.
  - apply (dir_ok_frame d d' v _ _ _ (fun j Hj => Hb j (in_or_app _ _ _ (or_introl Hj))) A).
  - rewrite Forall_forall in *. intros k Hk. apply (IH k Hk); [|exact (B k Hk)].
    intros j Hj. apply Hb. apply in_or_app. right. apply in_flat_map. exists k. split; assumption.
Qed.

Theorem crash_inv_at_frame d d' v bl rch T lost :
  (forall j, fat_area v j -> disk_get d' j = disk_get d j) ->
  (forall j, In j (tree_dir_blocks v bl T) -> disk_get d' j = disk_get d j) ->
  crash_inv_at d v bl rch T lost -> crash_inv_at d' v bl rch T lost.
Proof.
  intros Hf Hb [A B C D E F]. unfold tree_dir_blocks in Hb. constructor.
  - exact (root_dir_frame d d' v bl rch Hf A).
  - apply (tree_rep_frame d d' v bl T Hf); [|exact B]. exact Hb.
  - exact (dir_ok_frame d d' v _ _ bl (fun j Hj => Hb j (in_or_app _ _ _ (or_introl Hj))) C).
  - rewrite Forall_forall in *. intros n Hn. apply (node_ok_crash_frame d d' v n); [|exact (D n Hn)].
    intros j Hj. apply Hb. apply in_or_app. right. apply in_flat_map. exists n. split; assumption.
  - exact (fat_wf_ext d d' v _ Hf E).
  - exact F.
Qed.

(* ---- the decider ---- *)
Fixpoint node_ok_crash_b (d : disk) (v : vol) (parent : N) (n : node) {struct n} : bool :=
  match n with
  | NFile e ch => true
  | NDir e ch kids =>
      dir_ok_b d v (e_cluster e) parent (data_blocks v ch) &&
      (fix allb (ks : list node) : bool :=
         match ks with [] => true | k :: ks' => node_ok_crash_b d v (e_cluster e) k && allb ks' end) kids
  end.

(* candidates for the lost heads: the clusters marked in use that no in-use cluster links to and
   that are not heads of the tree *)
Definition lost_heads (d : disk) (v : vol) (hs : list N) : list N :=
  let used := used_list d v in
  let targets := map (fun c => fat_get d v 0 c) used in
  filter (fun c => negb (existsb (N.eqb c) targets) && negb (existsb (N.eqb c) hs)) used.

(* depth = fuel for the depth of the tree *)
Definition crash_inv_b (depth : nat) (fsz : N) (d : disk) (v : vol) : bool :=
  vol_inv_b v fsz &&
  match root_of d v with
  | None => false
  | Some (bl, rch) =>
      match tree_of depth d v bl with
      | None => false
      | Some T =>
          dir_ok_b d v CL_ROOT CL_ROOT bl && forallb (node_ok_crash_b d v CL_ROOT) T &&
          fat_wf_b d v (heads v T ++ lost_heads d v (heads v T)) && nodup_pb (map node_pos (all_nodes T))
      end
  end.

Lemma node_ok_crash_b_ok d v : forall n p, node_ok_crash_b d v p n = true -> node_ok_crash d v p n.
Proof.
  induction n as [e ch|e ch kids IH] using node_ind'; intros p H; [exact I|].
  apply node_ok_crash_dir. cbn [node_ok_crash_b] in H. apply andb_true_iff in H. destruct H as [A B].
  split; [exact (dir_ok_b_ok _ _ _ _ _ A)|].
  induction IH as [|k ks Hk _ IHks]; [constructor|].
  apply andb_true_iff in B. destruct B as [B1 B2]. constructor; [exact (Hk _ B1)|exact (IHks B2)].
Qed.

Theorem crash_inv_b_sound depth fsz d v : crash_inv_b depth fsz d v = true -> crash_inv fsz v d.
Proof.
  unfold crash_inv_b. rewrite andb_true_iff. intros [V H].
  destruct (vol_inv_b_sound v fsz V) as (V1 & V2 & _). split; [split; assumption|].
  destruct (root_of d v) as [[bl rch]|] eqn:Er; [|discriminate].
  destruct (tree_of depth d v bl) as [T|] eqn:Et; [|discriminate].
  rewrite !andb_true_iff in H. destruct H as (((A & B) & C) & D).
  exists bl, rch, T, (lost_heads d v (heads v T)). constructor.
  - exact (root_of_sound d v bl rch Er).
  - exact (tree_of_sound depth d v bl T Et).
  - exact (dir_ok_b_ok _ _ _ _ _ A).
  - rewrite forallb_forall in B. apply Forall_forall. intros n Hn. exact (node_ok_crash_b_ok d v n _ (B n Hn)).
  - apply fat_wf_b_spec. exact C.
  - exact (nodup_pb_ok _ D).
Qed.

(* ================================================================== 3. the obligation and the assembly *)
(* every crashed medium of every run of o from a state of the invariant is crash-sound (read with
   the volume record v of the state before the call: the geometry never changes) *)
Definition step_crash (fsz vid : N) (o : op) : Prop :=
  forall s r s', fs_inv fsz vid s -> id_fresh s -> op_known_ok o -> step o s = (r, s') ->
    forall v d', s_vols s = [v] -> crash_disks s s' d' -> crash_inv fsz v d'.

(* the medium between two calls *)
Lemma fs_inv_crash fsz vid s v : fs_inv fsz vid s -> s_vols s = [v] -> crash_inv fsz v (s_disk s).
Proof.
  intros (vi & v0 & bl & rch & T & H) Ev. pose proof (fi_single _ _ _ _ _ _ _ _ H) as Ev0.
  rewrite Ev in Ev0. injection Ev0 as ->. exact (fs_inv_crash_inv _ _ _ _ _ _ _ _ H).
Qed.

(* every history (as in PrGlobal.C03_history), every call o of it, every crashed medium of that
   call: crash-sound for the volume record of the START of the history (same geometry
   throughout); and the medium between any two calls *)
Theorem crash_history fsz vid : (forall o, step_ok fsz vid o) -> (forall o, step_crash fsz vid o) ->
  forall ops1 o ops2 s age v, fs_inv fsz vid s -> PrHandles.handles_ok age s ->
    age + N.of_nat (length (ops1 ++ o :: ops2)) < U32 - 1 -> Forall op_known_ok (ops1 ++ o :: ops2) ->
    s_vols s = [v] ->
    let s1 := snd (run_ops ops1 s) in
    crash_inv fsz v (s_disk s1) /\
    forall d', crash_disks s1 (snd (step o s1)) d' -> crash_inv fsz v d'.
Proof.
  intros Hok Hcr. induction ops1 as [|o1 rest IH]; intros o ops2 s age v Hinv Hh Hage Hops Ev s1.
  - subst s1. cbn [run_ops snd]. split; [exact (fs_inv_crash fsz vid s v Hinv Ev)|].
    intros d' Hd. destruct (step o s) as [r s2] eqn:Es. cbn [snd] in Hd.
    cbn [app] in Hops, Hage. inversion Hops as [|? ? Ho _]; subst.
    assert (Ha1 : age < U32) by (cbn [length] in Hage; unfold U32 in *; lia).
    exact (Hcr o s r s2 Hinv (handles_ok_fresh age s Ha1 Hh) Ho Es v d' Ev Hd).
  - subst s1. cbn [run_ops app] in *. destruct (step o1 s) as [r1 sa] eqn:Es.
    inversion Hops as [|? ? Ho1 Hrest]; subst. cbn [length] in Hage.
    assert (Ha1 : age < U32) by (unfold U32 in *; lia).
    assert (Ha2 : age < U32 - 1) by (unfold U32 in *; lia).
    assert (Ha3 : age + 1 + N.of_nat (length (rest ++ o :: ops2)) < U32 - 1).
    { rewrite Nat2N.inj_succ in Hage. unfold U32 in *. lia. }
    destruct (Hok o1 s r1 sa Hinv (handles_ok_fresh age s Ha1 Hh) Ho1 Es) as (_ & _ & Hinv1 & Hgeo1 & _).
    pose proof (PrHandles.C08_handles_ok_step age o1 s Ha2 (no_remount_ok o1 (proj1 (proj1 Ho1))) Hh) as Hh1.
    rewrite Es in Hh1. cbn [snd] in Hh1.
    destruct Hgeo1 as (v0 & va & Ev0 & Eva & G). rewrite Ev in Ev0. injection Ev0 as <-.
    specialize (IH o ops2 sa (age + 1) va Hinv1 Hh1 Ha3 Hrest Eva).
    destruct (run_ops rest sa) as [rs sb]. cbn [snd] in *.
    pose proof (geo_eq_sym _ _ G) as G'. destruct IH as (I1 & I2).
    split; [exact (crash_inv_geo fsz va v _ G' I1)|].
    intros d' Hd. exact (crash_inv_geo fsz va v _ G' (I2 d' Hd)).
Qed.
