(* MODEL, layer B: monad, errors, byte codecs, device and the one-block cache
   (src/blockdevice.rs), transcribed function by function.  No proofs here. *)
From Coq Require Import NArith ZArith List Bool.
From SdFs Require Import FsTypes.
Import ListNotations.
Open Scope N_scope.

Inductive err :=
  | DeviceError | FormatError | NoSuchVolume | FilenameError | TooManyOpenVolumes
  | TooManyOpenDirs | TooManyOpenFiles | BadHandle | NotFound | FileAlreadyOpen
  | DirAlreadyOpen | OpenedDirAsFile | OpenedFileAsDir | DeleteDirAsFile
  | VolumeStillInUse | VolumeAlreadyOpen | Unsupported | EndOfFile | BadCluster
  | ConversionError | NotEnoughSpace | AllocationError | UnterminatedFatChain
  | ReadOnlyErr | FileAlreadyExists | BadBlockSize | InvalidOffset | DiskFull
  | DirAlreadyExists | LockError.

Definition err_eqb (a b : err) : bool :=
  match a, b with
  | DeviceError, DeviceError | FormatError, FormatError | NoSuchVolume, NoSuchVolume
  | FilenameError, FilenameError | TooManyOpenVolumes, TooManyOpenVolumes
  | TooManyOpenDirs, TooManyOpenDirs | TooManyOpenFiles, TooManyOpenFiles
  | BadHandle, BadHandle | NotFound, NotFound | FileAlreadyOpen, FileAlreadyOpen
  | DirAlreadyOpen, DirAlreadyOpen | OpenedDirAsFile, OpenedDirAsFile
  | OpenedFileAsDir, OpenedFileAsDir | DeleteDirAsFile, DeleteDirAsFile
  | VolumeStillInUse, VolumeStillInUse | VolumeAlreadyOpen, VolumeAlreadyOpen
  | Unsupported, Unsupported | EndOfFile, EndOfFile | BadCluster, BadCluster
  | ConversionError, ConversionError | NotEnoughSpace, NotEnoughSpace
  | AllocationError, AllocationError | UnterminatedFatChain, UnterminatedFatChain
  | ReadOnlyErr, ReadOnlyErr | FileAlreadyExists, FileAlreadyExists
  | BadBlockSize, BadBlockSize | InvalidOffset, InvalidOffset | DiskFull, DiskFull
  | DirAlreadyExists, DirAlreadyExists | LockError, LockError => true
  | _, _ => false
  end.

(* Panic: unwrap/expect/assert!/arithmetic overflow under the dev profile/index out of
   range.  OutOfFuel: a loop of the model ran out of its explicit fuel (the Rust loop
   would still be running); every theorem excludes it. *)
Inductive outcome (A : Type) := Ok (a : A) | Err (e : err) | Panic | OutOfFuel.
Arguments Ok {A} a. Arguments Err {A} e. Arguments Panic {A}. Arguments OutOfFuel {A}.

Definition M (A : Type) := st -> outcome A * st.
Definition ret {A} (a : A) : M A := fun s => (Ok a, s).
Definition fail {A} (e : err) : M A := fun s => (Err e, s).
Definition panic {A} : M A := fun s => (Panic, s).
Definition out_of_fuel {A} : M A := fun s => (OutOfFuel, s).
Definition bind {A B} (m : M A) (k : A -> M B) : M B :=
  fun s => match m s with
           | (Ok a, s') => k a s'
           | (Err e, s') => (Err e, s')
           | (Panic, s') => (Panic, s')
           | (OutOfFuel, s') => (OutOfFuel, s')
           end.
Notation "x <- m ;; k" := (bind m (fun x => k)) (at level 61, m at next level, right associativity).
Notation "' p <- m ;; k" := (bind m (fun x => let 'p := x in k))
  (at level 61, p pattern, m at next level, right associativity).
Notation "m ;;; k" := (bind m (fun _ => k)) (at level 61, right associativity).

(* `match expr { Ok(x) => .., Err(e) => .. }` : errors become values, Panic/OutOfFuel pass *)
Definition try {A} (m : M A) : M (A + err) :=
  fun s => match m s with
           | (Ok a, s') => (Ok (inl a), s')
           | (Err e, s') => (Ok (inr e), s')
           | (Panic, s') => (Panic, s')
           | (OutOfFuel, s') => (OutOfFuel, s')
           end.
Definition get : M st := fun s => (Ok s, s).
Definition modify (f : st -> st) : M unit := fun s => (Ok tt, f s).

(* ---- u32 arithmetic with the dev-profile overflow checks ---- *)
Definition U32 : N := 4294967296.
Definition add32 (a b : N) : M N := if a + b <? U32 then ret (a + b) else panic.
Definition sub32 (a b : N) : M N := if b <=? a then ret (a - b) else panic.
Definition mul32 (a b : N) : M N := if a * b <? U32 then ret (a * b) else panic.

(* ---- bytes ---- *)
Definition get8 (b : block) (off : N) : N := nth (N.to_nat off) b 0.
Definition le16 (b : block) (off : N) : N := get8 b off + 256 * get8 b (off + 1).
Definition le32 (b : block) (off : N) : N :=
  get8 b off + 256 * get8 b (off + 1) + 65536 * get8 b (off + 2) + 16777216 * get8 b (off + 3).
Definition bytes16 (v : N) : list N := [v mod 256; (v / 256) mod 256].
Definition bytes32 (v : N) : list N :=
  [v mod 256; (v / 256) mod 256; (v / 65536) mod 256; (v / 16777216) mod 256].
Definition set_bytes (b : block) (off : N) (l : list N) : block :=
  firstn (N.to_nat off) b ++ l ++ skipn (N.to_nat off + length l) b.
Definition slice (b : block) (off len : N) : list N := firstn (N.to_nat len) (skipn (N.to_nat off) b).

Fixpoint list_eqb (a b : list N) : bool :=
  match a, b with
  | [], [] => true
  | x :: a', y :: b' => N.eqb x y && list_eqb a' b'
  | _, _ => false
  end.

(* ---- the block device: call log, fault schedule (by device-call index), disk ---- *)
Definition scribble : block := repeat 170 512.   (* a failed read leaves 0xAA in the buffer *)

Definition faulty (s : st) : bool := existsb (N.eqb (s_ncalls s)) (s_faults s).

Definition dev_read (i : N) : M block := fun s =>
  let s1 := set_s_ncalls s (s_ncalls s + 1) in
  if faulty s then (Err DeviceError, set_s_trace s1 (DReadFail i :: s_trace s))
  else (Ok (disk_get (s_disk s) i), set_s_trace s1 (DRead i :: s_trace s)).

Definition dev_write (i : N) (b : block) : M unit := fun s =>
  let s1 := set_s_ncalls s (s_ncalls s + 1) in
  if faulty s then (Err DeviceError, set_s_trace s1 (DWriteFail i :: s_trace s))
  else (Ok tt, set_s_trace (set_s_disk s1 (disk_set (s_disk s) i b)) (DWrite i b :: s_trace s)).

(* ---- BlockCache ---- *)
Definition opt_eqb (a : option N) (i : N) : bool :=
  match a with Some j => N.eqb i j | None => false end.

(* read / read_mut: identical bodies *)
Definition cache_read (i : N) : M block :=
  s <- get ;;
  if opt_eqb (s_tag s) i then ret (s_cache s)
  else
    modify (fun s => set_s_tag s None) ;;;
    r <- try (dev_read i) ;;
    match r with
    | inl b => modify (fun s => set_s_tag (set_s_cache s b) (Some i)) ;;; ret b
    | inr e => modify (fun s => set_s_cache s scribble) ;;; fail e
    end.

(* mutate the cached block in place (the `&mut Block` the Rust code holds) *)
Definition cache_modify (f : block -> block) : M unit :=
  modify (fun s => set_s_cache s (f (s_cache s))).

(* a failed write invalidates the cache tag (the device does not hold the cached block) *)
Definition write_back : M unit :=
  s <- get ;;
  match s_tag s with
  | None => panic                      (* expect("write_back with no read") *)
  | Some i =>
      r <- try (dev_write i (s_cache s)) ;;
      match r with
      | inl _ => ret tt
      | inr e => modify (fun s => set_s_tag s None) ;;; fail e
      end
  end.

Definition write_back_with_duplicate (dup : N) : M unit :=
  s <- get ;;
  match s_tag s with
  | None => panic
  | Some i =>
      r <- try (dev_write i (s_cache s)) ;;
      match r with
      | inl _ => dev_write dup (s_cache s)
      | inr e => modify (fun s => set_s_tag s None) ;;; fail e
      end
  end.

Definition blank_mut (i : N) : M unit :=
  modify (fun s => set_s_cache (set_s_tag s (Some i)) zero_block).

(* BlockCount::from_bytes *)
Definition from_bytes (n : N) : N := if (n / 512) * 512 =? n then n / 512 else n / 512 + 1.

(* for block_idx in first.range(BlockCount(size)) { body }  : first + size is computed
   (overflow check) before the loop; body returns Some r to leave the loop early *)
Fixpoint for_blocks_from {R} (n : nat) (i : N) (body : N -> M (option R)) : M (option R) :=
  match n with
  | O => ret None
  | S n' => r <- body i ;;
            match r with
            | Some x => ret (Some x)
            | None => for_blocks_from n' (i + 1) body
            end
  end.
Definition for_blocks {R} (first size : N) (body : N -> M (option R)) : M (option R) :=
  _ <- add32 first size ;;
  for_blocks_from (N.to_nat size) first body.
