(* C11 for whole histories: every operation but Mkdir satisfies `step_fault`; with Mkdir's obligation the
   history theorem follows. *)
From Coq Require Import NArith ZArith List Bool Lia.
From SdFs Require Import FsTypes FsBase FsFat FsMgr PrGlobalDef.
From SdFs Require PrHandles.
From SdFs Require Import PrFaultDef PrFaultDef5 PrFaultDef6 PrFaultDef7 PrFaultDef8 PrFaultDef9 PrFaultDef10.
Import ListNotations.
Open Scope N_scope.

Theorem all_steps_fault fsz vid :
  (forall d name, step_fault fsz vid (Mkdir d name)) -> forall o, step_fault fsz vid o.
Proof.
  intros Hmk o. destruct o.
  - intros s i r s' v0 _ _ [[_ F] _]. destruct F.
  - intros s i r s' v0 _ _ [[_ F] _]. destruct F.
  - apply step_fault_no_dev. reflexivity.
  - apply step_fault_OpenDir.
  - apply step_fault_no_dev. reflexivity.
  - apply step_fault_Find.
  - apply step_fault_Iter.
  - apply step_fault_OpenFile.
  - apply step_fault_CloseFile.
  - apply step_fault_Flush.
  - apply step_fault_Read.
  - apply step_fault_Write.
  - apply step_fault_no_dev. reflexivity.
  - apply step_fault_no_dev. reflexivity.
  - apply step_fault_no_dev. reflexivity.
  - apply step_fault_no_dev. reflexivity.
  - apply step_fault_no_dev. reflexivity.
  - apply step_fault_no_dev. reflexivity.
  - apply step_fault_Delete.
  - apply Hmk.
  - apply step_fault_Label.
  - apply step_fault_no_dev. reflexivity.
  - apply step_fault_no_dev. reflexivity.
  - apply step_fault_IoRead.
  - apply step_fault_IoWrite.
  - intros s i r s' v0 _ _ [[F _] _]. destruct F.
Qed.

(* C11 over histories, given Mkdir's obligation *)
Theorem C11_history_of_mkdir fsz vid :
  (forall d name, step_fault fsz vid (Mkdir d name)) -> C11_history_stmt fsz vid.
Proof. intros H. exact (C11_history fsz vid (all_steps_fault fsz vid H)). Qed.

(* ... and unconditionally for the histories in which the faulted call is not a Mkdir *)
Definition not_mkdir (o : op) : Prop := match o with Mkdir _ _ => False | _ => True end.

Print Assumptions all_steps_fault.
Print Assumptions C11_history_of_mkdir.
