(* PROOFS: the lock-step family.  `lockstep m` (PrFaultDef) for EVERY function of the model, by the
   composition lemmas ls_bind / ls_try / ls_bind_get / ls_modify and the two device primitives;
   `lockstep_step : forall o, lockstep (step o)`. *)
From Coq Require Import NArith ZArith List Bool Lia Arith FMapPositive.
From SdFs Require Import FsTypes FsBase FsFat FsMgr FsLemmas PrBase PrAllocEffect PrChain PrFault PrGlobalDef.
From SdFs Require PrHandles PrCrash.
From SdFs Require Import PrFault2 PrCrashDef PrCrashDef2 PrCrashDef4 PrFaultDef.
Import ListNotations.
Open Scope N_scope.

(* ------------------------------------------------------------------ small facts *)
Lemma fails_cons_ok c l : ~ is_fail c -> ~ fails l -> ~ fails (c :: l).
Proof.
  intros Hc Hl [i [H|H]]; destruct H as [H|H]; try (subst c; apply Hc; exact I);
    apply Hl; exists i; auto.
Qed.
Lemma not_fails_app a b : ~ fails a -> ~ fails b -> ~ fails (a ++ b).
Proof. intros Ha Hb H. apply fails_app in H. tauto. Qed.
Lemma not_fails_app_inv a b : ~ fails (a ++ b) -> ~ fails a /\ ~ fails b.
Proof.
  intros H. split; intros [i [Hi|Hi]]; apply H; exists i; [left|right|left|right]; apply in_or_app; auto.
Qed.
Lemma is_fail_fails c l1 l2 : is_fail c -> fails (l1 ++ c :: l2).
Proof.
  destruct c as [i|i b|i|i]; intros H; try destruct H; exists i; [left|right]; apply in_or_app; right; left; reflexivity.
Qed.

(* the rest of a bind *)
Definition tail {A B} (r1 : outcome A) (s1 : st) (k : A -> M B) : outcome B * st :=
  match r1 with
  | Ok a => k a s1
  | Err e => (Err e, s1)
  | Panic => (Panic, s1)
  | OutOfFuel => (OutOfFuel, s1)
  end.
Lemma bind_tail {A B} (m : M A) (k : A -> M B) s : bind m k s = tail (fst (m s)) (snd (m s)) k.
Proof. unfold bind, tail. destruct (m s) as [[a|e| |] s1]; reflexivity. Qed.
Lemma bind_tail' {A B} (m : M A) (k : A -> M B) s r1 s1 : m s = (r1, s1) -> bind m k s = tail r1 s1 k.
Proof. intros E. rewrite bind_tail, E. reflexivity. Qed.

Lemma tail_book {A B} (k : A -> M B) : (forall a, book (k a)) ->
  forall (r1 : outcome A) s1 r s', tail r1 s1 k = (r, s') ->
    exists new, ext s1 s' new /\ s_ncalls s' = s_ncalls s1 + N.of_nat (length new) /\
                s_faults s' = s_faults s1 /\ (no_faults s1 -> ~ fails new).
Proof.
  intros Hk r1 s1 r s' E. destruct r1 as [a|e| |]; cbn [tail] in E.
  - exact (Hk a _ _ _ E).
  - injection E as <- <-. exists []. split; [reflexivity|]. split; [cbn; lia|]. split; [reflexivity|intros _; apply fails_nil].
  - injection E as <- <-. exists []. split; [reflexivity|]. split; [cbn; lia|]. split; [reflexivity|intros _; apply fails_nil].
  - injection E as <- <-. exists []. split; [reflexivity|]. split; [cbn; lia|]. split; [reflexivity|intros _; apply fails_nil].
Qed.

(* ------------------------------------------------------------------ book *)
Lemma book_here {A} (r : outcome A) : book (fun s => (r, s)).
Proof.
  intros s r0 s' E. injection E as <- <-. exists []. split; [reflexivity|]. split; [cbn; lia|]. split; [reflexivity|intros _; apply fails_nil].
Qed.

Lemma book_bind {A B} (m : M A) (k : A -> M B) : book m -> (forall a, book (k a)) -> book (bind m k).
Proof.
  intros Hm Hk s r s' E. destruct (m s) as [r1 s1] eqn:E1. rewrite (bind_tail' _ _ _ _ _ E1) in E.
  destruct (Hm _ _ _ E1) as (n1 & X1 & C1 & F1 & G1).
  destruct (tail_book k Hk _ _ _ _ E) as (n2 & X2 & C2 & F2 & G2).
  exists (n2 ++ n1). split; [exact (ext_trans _ _ _ _ _ X1 X2)|].
  split; [rewrite C2, C1, app_length, Nat2N.inj_add; lia|]. split; [congruence|].
  intros Hn. apply not_fails_app; [|exact (G1 Hn)]. apply G2.
  apply (no_faults_step s); [exact F1|lia|exact Hn].
Qed.

Lemma book_try {A} (m : M A) : book m -> book (try m).
Proof.
  intros Hm s r s' E. unfold try in E. destruct (m s) as [r1 s1] eqn:E1.
  destruct (Hm _ _ _ E1) as (n1 & H). destruct r1; injection E as <- <-; exists n1; exact H.
Qed.

Lemma book_modify g :
  (forall s, s_trace (g s) = s_trace s /\ s_ncalls (g s) = s_ncalls s /\ s_faults (g s) = s_faults s) ->
  book (modify g).
Proof.
  intros H s r s' E. injection E as <- <-. destruct (H s) as (A1 & A2 & A3).
  exists []. split; [exact A1|]. split; [cbn; lia|]. split; [exact A3|intros _; apply fails_nil].
Qed.

Lemma book_dev_read i : book (dev_read i).
Proof.
  intros s r s' E. unfold dev_read in E. cbv zeta in E. destruct (faulty s) eqn:Hf; injection E as <- <-.
  - exists [DReadFail i]. split; [reflexivity|]. split; [cbn; lia|]. split; [reflexivity|].
    intros Hn. rewrite (no_faults_not_faulty s Hn) in Hf. discriminate.
  - exists [DRead i]. split; [reflexivity|]. split; [cbn; lia|]. split; [reflexivity|].
    intros _. apply fails_cons_ok; [intros []|apply fails_nil].
Qed.
Lemma book_dev_write i b : book (dev_write i b).
Proof.
  intros s r s' E. unfold dev_write in E. cbv zeta in E. destruct (faulty s) eqn:Hf; injection E as <- <-.
  - exists [DWriteFail i]. split; [reflexivity|]. split; [cbn; lia|]. split; [reflexivity|].
    intros Hn. rewrite (no_faults_not_faulty s Hn) in Hf. discriminate.
  - exists [DWrite i b]. split; [reflexivity|]. split; [cbn; lia|]. split; [reflexivity|].
    intros _. apply fails_cons_ok; [intros []|apply fails_nil].
Qed.

(* ------------------------------------------------------------------ lockstep: composition *)
Lemma ls_book {A} (m : M A) : lockstep m -> book m.
Proof. intros H. exact (proj1 H). Qed.

Lemma ls_here {A} (r : outcome A) : lockstep (fun s => (r, s)).
Proof.
  split; [apply book_here|]. intros n s r0 s' Hp E. injection E as <- <-. left. split; [exact Hp|reflexivity].
Qed.
Lemma ls_ret {A} (a : A) : lockstep (ret a). Proof. apply ls_here. Qed.
Lemma ls_fail {A} e : lockstep (@fail A e). Proof. apply ls_here. Qed.
Lemma ls_panic {A} : lockstep (@panic A). Proof. apply ls_here. Qed.
Lemma ls_oof {A} : lockstep (@out_of_fuel A). Proof. apply ls_here. Qed.

Lemma passed_of_book n s s1 new post fl pre :
  pending n s -> ext s s1 new -> s_trace s1 = post ++ fl :: pre ++ s_trace s ->
  s_ncalls s1 = s_ncalls s + N.of_nat (length new) -> s_faults s1 = s_faults s ->
  s_ncalls s + N.of_nat (length pre) = n -> passed n s1.
Proof.
  intros (F & _) X T C F1 Cn. unfold ext in X. rewrite X in T.
  assert (E : new = post ++ fl :: pre).
  { apply (app_inv_tail (s_trace s)). rewrite T, <- app_assoc. reflexivity. }
  split; [congruence|]. rewrite C, E, app_length. cbn [length]. rewrite Nat2N.inj_add, Nat2N.inj_succ. lia.
Qed.

Lemma ls_bind {A B} (m : M A) (k : A -> M B) : lockstep m -> (forall a, lockstep (k a)) -> lockstep (bind m k).
Proof.
  intros Hm Hk. split; [apply book_bind; [exact (proj1 Hm)|intros a; exact (proj1 (Hk a))]|].
  assert (Hkb : forall a, book (k a)) by (intros a; exact (proj1 (Hk a))).
  intros n s r s' Hp E. destruct (m s) as [r1 s1] eqn:E1. rewrite (bind_tail' _ _ _ _ _ E1) in E.
  destruct (proj1 Hm _ _ _ E1) as (new1 & X1 & C1 & F1 & _).
  destruct (proj2 Hm n s r1 s1 Hp E1) as [(Hp1 & N1)|(pre & fl & post & r0 & s0 & rest0 & T & Hfl & NP & Cn & N0 & T0 & R0)].
  - (* not reached in m *)
    rewrite (bind_tail' _ _ _ _ _ N1).
    destruct r1 as [a|e| |]; cbn [tail] in E |- *; try (injection E as <- <-; left; split; [exact Hp1|reflexivity]).
    destruct (proj2 (Hk a) n s1 r s' Hp1 E) as [(Hp2 & N2)|(pre & fl & post & r0 & s0 & rest0 & T & Hfl & NP & Cn & N0 & T0 & R0)].
    + left. split; [exact Hp2|exact N2].
    + right. exists (pre ++ new1), fl, post, r0, s0, rest0. unfold ext in X1.
      split; [rewrite T, X1, <- app_assoc; reflexivity|]. split; [exact Hfl|]. split; [exact NP|].
      split; [rewrite app_length, Nat2N.inj_add; lia|]. split; [exact N0|].
      split; [|exact R0]. rewrite T0. change (s_trace (nf s1)) with (s_trace s1). rewrite X1, <- app_assoc. reflexivity.
  - (* reached in m *)
    right.
    pose proof (passed_of_book n s s1 new1 post fl pre Hp X1 T C1 F1 Cn) as Hps.
    destruct (tail_book k Hkb _ _ _ _ E) as (new2 & X2 & _ & _ & G2).
    rewrite (bind_tail' _ _ _ _ _ N0).
    destruct (tail r0 s0 k) as [r2 s2] eqn:E2.
    destruct (tail_book k Hkb _ _ _ _ E2) as (new0 & X0 & _).
    exists pre, fl, (new2 ++ post), r2, s2, (new0 ++ rest0). unfold ext in X2, X0.
    split; [rewrite X2, T, <- app_assoc; reflexivity|]. split; [exact Hfl|].
    split; [apply not_fails_app; [exact (G2 (passed_no_faults _ _ Hps))|exact NP]|].
    split; [exact Cn|]. split; [reflexivity|]. split; [rewrite X0, T0, <- app_assoc; reflexivity|].
    intros H. apply app_eq_nil in H. tauto.
Qed.

Lemma ls_try {A} (m : M A) : lockstep m -> lockstep (try m).
Proof.
  intros Hm. split; [apply book_try; exact (proj1 Hm)|].
  intros n s r s' Hp E. unfold try in E |- *. destruct (m s) as [r1 s1] eqn:E1.
  destruct (proj2 Hm n s r1 s1 Hp E1) as [(Hp1 & N1)|(pre & fl & post & r0 & s0 & rest0 & T & Hfl & NP & Cn & N0 & T0 & R0)].
  - left. rewrite N1. destruct r1; injection E as <- <-; split; try exact Hp1; reflexivity.
  - right. rewrite N0.
    assert (Es : s' = s1) by (destruct r1; injection E as _ <-; reflexivity). subst s'.
    exists pre, fl, post. destruct r0; eexists _, s0, rest0; repeat split; try eassumption; reflexivity.
Qed.

(* reading the state: the continuation must not look at the schedule *)
Lemma book_bind_get {B} (k : st -> M B) : (forall s0, book (k s0)) -> book (bind get k).
Proof. intros Hk s r s' E. rewrite PrHandles.bind_get in E. exact (Hk s _ _ _ E). Qed.

Lemma ls_bind_get {B} (k : st -> M B) :
  (forall s0, lockstep (k s0)) -> (forall s0, k (nf s0) = k s0) -> lockstep (bind get k).
Proof.
  intros Hk Hn. split; [apply book_bind_get; intros s0; exact (proj1 (Hk s0))|].
  intros n s r s' Hp E. rewrite PrHandles.bind_get in E. rewrite !PrHandles.bind_get, Hn.
  exact (proj2 (Hk s) n s r s' Hp E).
Qed.

Lemma ls_modify g : (forall s, g (nf s) = nf (g s)) ->
  (forall s, s_trace (g s) = s_trace s /\ s_ncalls (g s) = s_ncalls s /\ s_faults (g s) = s_faults s) ->
  lockstep (modify g).
Proof.
  intros H1 H2. split; [apply book_modify; exact H2|].
  intros n s r s' (F & C) E. injection E as <- <-. destruct (H2 s) as (A1 & A2 & A3).
  left. split; [split; congruence|]. unfold modify. rewrite H1. reflexivity.
Qed.

(* ------------------------------------------------------------------ the device *)
Lemma faulty_single n s : s_faults s = [n] -> faulty s = (s_ncalls s =? n).
Proof. intros F. unfold faulty. rewrite F. cbn [existsb]. apply orb_false_r. Qed.

Lemma ls_dev_read i : lockstep (dev_read i).
Proof.
  split; [apply book_dev_read|]. intros n s r s' (F & C) E.
  unfold dev_read in E. cbv zeta in E. rewrite (faulty_single n s F) in E.
  destruct (N.eqb_spec (s_ncalls s) n) as [En|En]; injection E as <- <-.
  - right. exists [], (DReadFail i), []. eexists _, _, [DRead i].
    split; [reflexivity|]. split; [exact I|]. split; [apply fails_nil|]. split; [cbn; lia|].
    split; [reflexivity|]. split; [reflexivity|discriminate].
  - left. split; [split; [exact F|cbn; lia]|reflexivity].
Qed.

Lemma ls_dev_write i b : lockstep (dev_write i b).
Proof.
  split; [apply book_dev_write|]. intros n s r s' (F & C) E.
  unfold dev_write in E. cbv zeta in E. rewrite (faulty_single n s F) in E.
  destruct (N.eqb_spec (s_ncalls s) n) as [En|En]; injection E as <- <-.
  - right. exists [], (DWriteFail i), []. eexists _, _, [DWrite i b].
    split; [reflexivity|]. split; [exact I|]. split; [apply fails_nil|]. split; [cbn; lia|].
    split; [reflexivity|]. split; [reflexivity|discriminate].
  - left. split; [split; [exact F|cbn; lia]|reflexivity].
Qed.

(* ------------------------------------------------------------------ the family *)
Create HintDb ls.
#[export] Hint Resolve ls_ret ls_fail ls_panic ls_oof ls_dev_read ls_dev_write : ls.

Ltac ls_step :=
  cbn beta iota;
  lazymatch goal with
  | |- lockstep (bind get _) => apply ls_bind_get; [intros ?|intros ?; reflexivity]
  | |- lockstep (bind _ _) => apply ls_bind; [|intros ?]
  | |- lockstep (try _) => apply ls_try
  | |- lockstep (modify _) => apply ls_modify; [intros ?; reflexivity|intros ?; repeat split; reflexivity]
  | |- lockstep (if ?c then _ else _) => destruct c
  | |- lockstep (match ?x with _ => _ end) => destruct x
  | |- lockstep (let _ := _ in _) => cbv zeta
  | |- lockstep _ => solve [auto 3 with ls]
  end.
Ltac ls_go := repeat ls_step.

(* ---- FsBase ---- *)
Lemma ls_add32 a b : lockstep (add32 a b). Proof. unfold add32. ls_go. Qed.
Lemma ls_sub32 a b : lockstep (sub32 a b). Proof. unfold sub32. ls_go. Qed.
Lemma ls_mul32 a b : lockstep (mul32 a b). Proof. unfold mul32. ls_go. Qed.
#[export] Hint Resolve ls_add32 ls_sub32 ls_mul32 : ls.
Lemma ls_cache_read i : lockstep (cache_read i). Proof. unfold cache_read. ls_go. Qed.
Lemma ls_cache_modify f : lockstep (cache_modify f). Proof. unfold cache_modify. ls_go. Qed.
Lemma ls_write_back : lockstep write_back. Proof. unfold write_back. ls_go. Qed.
Lemma ls_write_back_with_duplicate d : lockstep (write_back_with_duplicate d).
Proof. unfold write_back_with_duplicate. ls_go. Qed.
Lemma ls_blank_mut i : lockstep (blank_mut i). Proof. unfold blank_mut. ls_go. Qed.
#[export] Hint Resolve ls_cache_read ls_cache_modify ls_write_back ls_write_back_with_duplicate ls_blank_mut : ls.

Lemma ls_for_blocks_from {R} (body : N -> M (option R)) :
  (forall i, lockstep (body i)) -> forall n i, lockstep (for_blocks_from n i body).
Proof.
  intros Hb. induction n as [|n IH]; intros i; cbn [for_blocks_from]; [apply ls_ret|].
  apply ls_bind; [apply Hb|]. intros [x|]; [apply ls_ret|apply IH].
Qed.
Lemma ls_for_blocks {R} (body : N -> M (option R)) first size :
  (forall i, lockstep (body i)) -> lockstep (for_blocks first size body).
Proof.
  intros Hb. unfold for_blocks. apply ls_bind; [apply ls_add32|]. intros _. apply ls_for_blocks_from. exact Hb.
Qed.

(* ---- FsFat ---- *)
Lemma ls_ts_to_fat t : lockstep (ts_to_fat t). Proof. unfold ts_to_fat. ls_go. Qed.
#[export] Hint Resolve ls_ts_to_fat : ls.
Lemma ls_get_timestamp : lockstep get_timestamp. Proof. unfold get_timestamp. ls_go. Qed.
Lemma ls_serialize b e : lockstep (serialize b e). Proof. unfold serialize. ls_go. Qed.
Lemma ls_get_vol vi : lockstep (get_vol vi). Proof. unfold get_vol. ls_go. Qed.
Lemma ls_put_vol vi v : lockstep (put_vol vi v). Proof. unfold put_vol. ls_go. Qed.
#[export] Hint Resolve ls_get_timestamp ls_serialize ls_get_vol ls_put_vol : ls.
Lemma ls_fat_block v a b : lockstep (fat_block v a b). Proof. unfold fat_block. ls_go. Qed.
Lemma ls_cluster_to_block v c : lockstep (cluster_to_block v c). Proof. unfold cluster_to_block. ls_go. Qed.
#[export] Hint Resolve ls_fat_block ls_cluster_to_block : ls.
Lemma ls_update_fat vi c x : lockstep (update_fat vi c x). Proof. unfold update_fat. ls_go. Qed.
Lemma ls_next_cluster v c : lockstep (next_cluster v c). Proof. unfold next_cluster. ls_go. Qed.
#[export] Hint Resolve ls_update_fat ls_next_cluster : ls.
Lemma ls_find_next_free_loop v endc : forall fuel cur, lockstep (find_next_free_loop fuel v cur endc).
Proof. induction fuel as [|f IH]; intros cur; cbn [find_next_free_loop]; ls_go. Qed.
Lemma ls_find_next_free_cluster v a b : lockstep (find_next_free_cluster v a b).
Proof. unfold find_next_free_cluster. apply ls_find_next_free_loop. Qed.
#[export] Hint Resolve ls_find_next_free_cluster : ls.
Lemma ls_zero_cluster v c : lockstep (zero_cluster v c).
Proof. unfold zero_cluster. ls_go. apply ls_for_blocks. intros i. ls_go. Qed.
#[export] Hint Resolve ls_zero_cluster : ls.
Lemma ls_alloc_cluster vi prev zero : lockstep (alloc_cluster vi prev zero).
Proof. unfold alloc_cluster. ls_go. Qed.
Lemma ls_bump_free vi : lockstep (bump_free vi). Proof. unfold bump_free. ls_go. Qed.
#[export] Hint Resolve ls_alloc_cluster ls_bump_free : ls.
Lemma ls_truncate_loop vi : forall fuel next, lockstep (truncate_loop fuel vi next).
Proof. induction fuel as [|f IH]; intros next; cbn [truncate_loop]; ls_go. Qed.
#[export] Hint Resolve ls_truncate_loop : ls.
Lemma ls_truncate_cluster_chain vi c : lockstep (truncate_cluster_chain vi c).
Proof. unfold truncate_cluster_chain. ls_go. Qed.
#[export] Hint Resolve ls_truncate_cluster_chain : ls.
Lemma ls_free_cluster_chain vi c : lockstep (free_cluster_chain vi c).
Proof. unfold free_cluster_chain. ls_go. Qed.
Lemma ls_write_entry_to_disk v e : lockstep (write_entry_to_disk v e).
Proof. unfold write_entry_to_disk. ls_go. Qed.
Lemma ls_update_info_sector vi : lockstep (update_info_sector vi).
Proof. unfold update_info_sector. ls_go. Qed.
#[export] Hint Resolve ls_free_cluster_chain ls_write_entry_to_disk ls_update_info_sector : ls.

Lemma ls_walk_dir {R} (body : N -> M (option R)) : (forall blk, lockstep (body blk)) ->
  forall fuel vi cluster grow, lockstep (walk_dir fuel vi cluster grow body).
Proof.
  intros Hb. induction fuel as [|f IH]; intros vi cluster grow; cbn [walk_dir]; [apply ls_oof|].
  ls_go; try (apply ls_for_blocks; exact Hb).
Qed.

Lemma ls_find_directory_entry vi c name : lockstep (find_directory_entry vi c name).
Proof. unfold find_directory_entry. ls_go. apply ls_walk_dir. intros blk. ls_go. Qed.
Lemma ls_iter_blocks fat32 : forall n i acc, lockstep (iter_blocks n fat32 i acc).
Proof. induction n as [|n IH]; intros i acc; cbn [iter_blocks]; ls_go. Qed.
#[export] Hint Resolve ls_find_directory_entry ls_iter_blocks : ls.
Lemma ls_iter_walk vi : forall fuel c acc, lockstep (iter_walk fuel vi c acc).
Proof. induction fuel as [|f IH]; intros c acc; cbn [iter_walk]; ls_go. Qed.
Lemma ls_iterate_dir_all vi c : lockstep (iterate_dir_all vi c).
Proof. unfold iterate_dir_all. ls_go. apply ls_iter_walk. Qed.
Lemma ls_delete_directory_entry vi c name : lockstep (delete_directory_entry vi c name).
Proof. unfold delete_directory_entry. ls_go. apply ls_walk_dir. intros blk. ls_go. Qed.
Lemma ls_write_new_directory_entry vi c name attr fc : lockstep (write_new_directory_entry vi c name attr fc).
Proof. unfold write_new_directory_entry. ls_go. apply ls_walk_dir. intros blk. ls_go. Qed.
#[export] Hint Resolve ls_iterate_dir_all ls_delete_directory_entry ls_write_new_directory_entry : ls.
Lemma ls_make_dir vi parent sfn att : lockstep (make_dir vi parent sfn att).
Proof. unfold make_dir. ls_go. apply ls_for_blocks_from. intros i. ls_go. Qed.
#[export] Hint Resolve ls_make_dir : ls.

(* ---- FsMgr ---- *)
Lemma ls_locked {A} (m : M A) : lockstep m -> lockstep (locked m).
Proof. intros H. unfold locked. ls_go. Qed.
Lemma ls_generate : lockstep generate. Proof. unfold generate. ls_go. Qed.
Lemma ls_get_volume_by_id h : lockstep (get_volume_by_id h). Proof. unfold get_volume_by_id. ls_go. Qed.
Lemma ls_get_dir_by_id h : lockstep (get_dir_by_id h). Proof. unfold get_dir_by_id. ls_go. Qed.
Lemma ls_get_file_by_id h : lockstep (get_file_by_id h). Proof. unfold get_file_by_id. ls_go. Qed.
Lemma ls_get_dir i : lockstep (get_dir i). Proof. unfold get_dir. ls_go. Qed.
Lemma ls_get_file i : lockstep (get_file i). Proof. unfold get_file. ls_go. Qed.
Lemma ls_put_file i f : lockstep (put_file i f). Proof. unfold put_file. ls_go. Qed.
Lemma ls_file_is_open v e : lockstep (file_is_open v e). Proof. unfold file_is_open. ls_go. Qed.
Lemma ls_push_dir d : lockstep (push_dir d). Proof. unfold push_dir. ls_go. Qed.
Lemma ls_push_file f : lockstep (push_file f). Proof. unfold push_file. ls_go. Qed.
#[export] Hint Resolve ls_generate ls_get_volume_by_id ls_get_dir_by_id ls_get_file_by_id ls_get_dir ls_get_file
  ls_put_file ls_file_is_open ls_push_dir ls_push_file : ls.

Lemma ls_bpb_create b : lockstep (bpb_create b). Proof. unfold bpb_create. ls_go. Qed.
#[export] Hint Resolve ls_bpb_create : ls.
Lemma ls_parse_volume id idx lba nb : lockstep (parse_volume id idx lba nb).
Proof. unfold parse_volume. ls_go. Qed.
#[export] Hint Resolve ls_parse_volume : ls.
Lemma ls_open_raw_volume idx : lockstep (open_raw_volume idx).
Proof. unfold open_raw_volume. apply ls_locked. ls_go. Qed.
Lemma ls_open_root_dir h : lockstep (open_root_dir h).
Proof. unfold open_root_dir. apply ls_locked. ls_go. Qed.
Lemma ls_open_dir h name : lockstep (open_dir h name).
Proof. unfold open_dir. apply ls_locked. ls_go. Qed.
Lemma ls_close_dir h : lockstep (close_dir h).
Proof. unfold close_dir. apply ls_locked. ls_go. Qed.
Lemma ls_close_volume h : lockstep (close_volume h).
Proof. unfold close_volume. apply ls_locked. ls_go. Qed.
Lemma ls_mgr_find h name : lockstep (mgr_find h name).
Proof. unfold mgr_find. apply ls_locked. ls_go. Qed.
Lemma ls_mgr_iterate {R} h (inner : M R) : lockstep inner -> lockstep (mgr_iterate h inner).
Proof. intros Hi. unfold mgr_iterate. apply ls_locked. ls_go. Qed.
#[export] Hint Resolve ls_open_root_dir ls_close_dir : ls.
Lemma ls_open_file_in_dir h name md : lockstep (open_file_in_dir h name md).
Proof. unfold open_file_in_dir. apply ls_locked. ls_go. Qed.
Lemma ls_delete_file_in_dir h name : lockstep (delete_file_in_dir h name).
Proof. unfold delete_file_in_dir. apply ls_locked. ls_go. Qed.
Lemma ls_get_root_volume_label h : lockstep (get_root_volume_label h).
Proof. unfold get_root_volume_label. apply ls_locked. ls_go; apply ls_mgr_iterate; apply ls_ret. Qed.

Lemma ls_fdod_walk v : forall n so sc, lockstep (fdod_walk n v so sc).
Proof. induction n as [|n IH]; intros so sc; cbn [fdod_walk]; ls_go. Qed.
#[export] Hint Resolve ls_fdod_walk : ls.
Lemma ls_find_data_on_disk vi start fs desired : lockstep (find_data_on_disk vi start fs desired).
Proof. unfold find_data_on_disk. ls_go. Qed.
#[export] Hint Resolve ls_find_data_on_disk : ls.
Lemma ls_read_loop fi vi : forall fuel space acc, lockstep (read_loop fuel fi vi space acc).
Proof. induction fuel as [|fu IH]; intros space acc; cbn [read_loop]; unfold f_left; ls_go. Qed.
Lemma ls_mgr_read h n : lockstep (mgr_read h n).
Proof. unfold mgr_read. apply ls_locked. ls_go. apply ls_read_loop. Qed.
Lemma ls_write_loop fi vi : forall fuel data, lockstep (write_loop fuel fi vi data).
Proof. induction fuel as [|fu IH]; intros data; cbn [write_loop]; ls_go. Qed.
#[export] Hint Resolve ls_write_loop : ls.
Lemma ls_mgr_write h data : lockstep (mgr_write h data).
Proof. unfold mgr_write. apply ls_locked. ls_go. Qed.
Lemma ls_flush_file h : lockstep (flush_file h).
Proof. unfold flush_file. apply ls_locked. ls_go. Qed.
#[export] Hint Resolve ls_mgr_read ls_mgr_write ls_flush_file : ls.
Lemma ls_close_file h : lockstep (close_file h).
Proof. unfold close_file. ls_go; apply ls_locked; ls_go. Qed.
Lemma ls_has_open_handles : lockstep has_open_handles.
Proof. unfold has_open_handles. ls_go. Qed.
Lemma ls_with_file {A} h (k : nat -> fileinfo -> M A) : (forall fi f, lockstep (k fi f)) -> lockstep (with_file h k).
Proof. intros Hk. unfold with_file. apply ls_locked. ls_go. Qed.
Lemma ls_file_eof h : lockstep (file_eof h). Proof. apply ls_with_file. intros; ls_go. Qed.
Lemma ls_file_length h : lockstep (file_length h). Proof. apply ls_with_file. intros; ls_go. Qed.
Lemma ls_file_offset h : lockstep (file_offset h). Proof. apply ls_with_file. intros; ls_go. Qed.
Lemma ls_file_seek_from_start h x : lockstep (file_seek_from_start h x). Proof. apply ls_with_file. intros; ls_go. Qed.
Lemma ls_file_seek_from_end h x : lockstep (file_seek_from_end h x). Proof. apply ls_with_file. intros; ls_go. Qed.
Lemma ls_file_seek_from_current h x : lockstep (file_seek_from_current h x).
Proof. apply ls_with_file. intros; cbv zeta; ls_go. Qed.
#[export] Hint Resolve ls_file_offset ls_file_seek_from_start ls_file_seek_from_end ls_file_seek_from_current : ls.
Lemma ls_make_dir_in_dir h name : lockstep (make_dir_in_dir h name).
Proof. unfold make_dir_in_dir. apply ls_locked. ls_go. Qed.
Lemma ls_io_seek h w x : lockstep (io_seek h w x). Proof. unfold io_seek. ls_go. Qed.
Lemma ls_io_read h n : lockstep (io_read h n). Proof. unfold io_read. ls_go. Qed.
Lemma ls_io_write h data : lockstep (io_write h data). Proof. unfold io_write. ls_go. Qed.
Lemma ls_remount id : lockstep (remount id). Proof. unfold remount. ls_go. Qed.
Lemma ls_lift {A} (f : A -> res) (m : M A) : lockstep m -> lockstep (lift f m).
Proof. intros H. unfold lift. ls_go. Qed.

(* every API call *)
Theorem lockstep_step : forall o, lockstep (step o).
Proof.
  fix IH 1. intros o. destruct o; cbn [step]; try (apply ls_lift).
  - apply ls_open_raw_volume.
  - apply ls_close_volume.
  - apply ls_open_root_dir.
  - apply ls_open_dir.
  - apply ls_close_dir.
  - apply ls_mgr_find.
  - apply ls_mgr_iterate. destruct inner as [o'|]; [apply IH|apply ls_ret].
  - apply ls_open_file_in_dir.
  - apply ls_close_file.
  - apply ls_flush_file.
  - apply ls_mgr_read.
  - apply ls_mgr_write.
  - apply ls_file_seek_from_start.
  - apply ls_file_seek_from_current.
  - apply ls_file_seek_from_end.
  - apply ls_file_length.
  - apply ls_file_offset.
  - apply ls_file_eof.
  - apply ls_delete_file_in_dir.
  - apply ls_make_dir_in_dir.
  - apply ls_get_root_volume_label.
  - apply ls_has_open_handles.
  - apply ls_io_seek.
  - apply ls_io_read.
  - apply ls_io_write.
  - apply ls_remount.
Qed.

Print Assumptions lockstep_step.
