(* PROOFS: EVERY computation of the model is `traced` (PrCrashDef): whatever the outcome - Ok,
   error, panic, out of fuel, with or without device faults - the device log only grows and the
   final medium is the old medium with exactly the logged successful writes applied, in order.
   Reason: dev_write is the only function that touches s_disk, and it logs the write.
   Consequence: the composition lemmas of PrCrashDef (crash_disks_trans, crash_all_trans) never
   leave a `traced` obligation open: `tm_<function> _ _ _ Hrun` discharges it for any run of any
   model function, `traced_step` for a whole API call. *)
From Coq Require Import NArith ZArith List Bool Lia Arith FMapPositive.
From SdFs Require Import FsTypes FsBase FsFat FsMgr FsLemmas PrBase PrAllocEffect PrCrashDef.
Import ListNotations.
Open Scope N_scope.

Definition tm {A} (m : M A) : Prop := forall s r s', m s = (r, s') -> traced s s'.

Lemma tm_here {A} (r : outcome A) : tm (fun s => (r, s)).
Proof. intros s r0 s' E. injection E as <- <-. apply traced_refl. Qed.
Lemma tm_ret {A} (a : A) : tm (ret a). Proof. apply tm_here. Qed.
Lemma tm_fail {A} e : tm (@fail A e). Proof. apply tm_here. Qed.
Lemma tm_panic {A} : tm (@panic A). Proof. apply tm_here. Qed.
Lemma tm_oof {A} : tm (@out_of_fuel A). Proof. apply tm_here. Qed.
Lemma tm_get : tm get.
Proof. intros s r s' E. injection E as <- <-. apply traced_refl. Qed.

Lemma tm_modify g : (forall s, s_disk (g s) = s_disk s /\ s_trace (g s) = s_trace s) -> tm (modify g).
Proof. intros H s r s' E. injection E as <- <-. destruct (H s) as (A & B). exact (traced_same s (g s) B A). Qed.

Lemma tm_bind {A B} (m : M A) (k : A -> M B) : tm m -> (forall a, tm (k a)) -> tm (bind m k).
Proof.
  intros Hm Hk s r s' E. unfold bind in E. destruct (m s) as [o s1] eqn:Em.
  pose proof (Hm s o s1 Em) as T1. destruct o as [a|e| |].
  - exact (traced_trans _ _ _ T1 (Hk a s1 r s' E)).
  - injection E as <- <-. exact T1.
  - injection E as <- <-. exact T1.
  - injection E as <- <-. exact T1.
Qed.

Lemma tm_try {A} (m : M A) : tm m -> tm (try m).
Proof.
  intros Hm s r s' E. unfold try in E. destruct (m s) as [o s1] eqn:Em.
  pose proof (Hm s o s1 Em) as T1. destruct o; injection E as <- <-; exact T1.
Qed.

Lemma tm_dev_read i : tm (dev_read i).
Proof.
  intros s r s' E. unfold dev_read in E. cbv zeta in E. destruct (faulty s); injection E as <- <-.
  - exists [DReadFail i]. split; reflexivity.
  - exists [DRead i]. split; reflexivity.
Qed.

Lemma tm_dev_write i b : tm (dev_write i b).
Proof.
  intros s r s' E. unfold dev_write in E. cbv zeta in E. destruct (faulty s); injection E as <- <-.
  - exists [DWriteFail i]. split; reflexivity.
  - exists [DWrite i b]. split; reflexivity.
Qed.

Create HintDb tm.
#[export] Hint Resolve tm_ret tm_fail tm_panic tm_oof tm_get tm_dev_read tm_dev_write : tm.

Ltac tm_step :=
  match goal with
  | |- tm (bind _ _) => apply tm_bind; [|intros ?]
  | |- tm (try _) => apply tm_try
  | |- tm (modify _) => apply tm_modify; intros ?; split; reflexivity
  | |- tm (if ?b then _ else _) => destruct b
  | |- tm (match ?x with _ => _ end) => destruct x
  | |- tm (let _ := _ in _) => cbv zeta
  | |- tm _ => solve [auto 3 with tm]
  end.
Ltac tm_go := repeat tm_step.

(* ---- FsBase ---- *)
Lemma tm_add32 a b : tm (add32 a b). Proof. unfold add32. tm_go. Qed.
Lemma tm_sub32 a b : tm (sub32 a b). Proof. unfold sub32. tm_go. Qed.
Lemma tm_mul32 a b : tm (mul32 a b). Proof. unfold mul32. tm_go. Qed.
#[export] Hint Resolve tm_add32 tm_sub32 tm_mul32 : tm.
Lemma tm_cache_read i : tm (cache_read i). Proof. unfold cache_read. tm_go. Qed.
Lemma tm_cache_modify f : tm (cache_modify f). Proof. unfold cache_modify. tm_go. Qed.
Lemma tm_write_back : tm write_back. Proof. unfold write_back. tm_go. Qed.
Lemma tm_write_back_with_duplicate d : tm (write_back_with_duplicate d).
Proof. unfold write_back_with_duplicate. tm_go. Qed.
Lemma tm_blank_mut i : tm (blank_mut i). Proof. unfold blank_mut. tm_go. Qed.
#[export] Hint Resolve tm_cache_read tm_cache_modify tm_write_back tm_write_back_with_duplicate tm_blank_mut : tm.

Lemma tm_for_blocks_from {R} (body : N -> M (option R)) :
  (forall i, tm (body i)) -> forall n i, tm (for_blocks_from n i body).
Proof.
  intros Hb. induction n as [|n IH]; intros i; cbn [for_blocks_from]; [apply tm_ret|].
  apply tm_bind; [apply Hb|]. intros [x|]; [apply tm_ret|apply IH].
Qed.
Lemma tm_for_blocks {R} (body : N -> M (option R)) first size :
  (forall i, tm (body i)) -> tm (for_blocks first size body).
Proof.
  intros Hb. unfold for_blocks. apply tm_bind; [apply tm_add32|]. intros _. apply tm_for_blocks_from. exact Hb.
Qed.

(* ---- FsFat ---- *)
Lemma tm_ts_to_fat t : tm (ts_to_fat t). Proof. unfold ts_to_fat. tm_go. Qed.
#[export] Hint Resolve tm_ts_to_fat : tm.
Lemma tm_get_timestamp : tm get_timestamp. Proof. unfold get_timestamp. tm_go. Qed.
Lemma tm_serialize b e : tm (serialize b e). Proof. unfold serialize. tm_go. Qed.
Lemma tm_get_vol vi : tm (get_vol vi). Proof. unfold get_vol. tm_go. Qed.
Lemma tm_put_vol vi v : tm (put_vol vi v). Proof. unfold put_vol. tm_go. Qed.
#[export] Hint Resolve tm_get_timestamp tm_serialize tm_get_vol tm_put_vol : tm.
Lemma tm_fat_block v a b : tm (fat_block v a b). Proof. unfold fat_block. tm_go. Qed.
Lemma tm_cluster_to_block v c : tm (cluster_to_block v c). Proof. unfold cluster_to_block. tm_go. Qed.
#[export] Hint Resolve tm_fat_block tm_cluster_to_block : tm.
Lemma tm_update_fat vi c x : tm (update_fat vi c x). Proof. unfold update_fat. tm_go. Qed.
Lemma tm_next_cluster v c : tm (next_cluster v c). Proof. unfold next_cluster. tm_go. Qed.
#[export] Hint Resolve tm_update_fat tm_next_cluster : tm.
Lemma tm_find_next_free_loop v endc : forall fuel cur, tm (find_next_free_loop fuel v cur endc).
Proof. induction fuel as [|f IH]; intros cur; cbn [find_next_free_loop]; tm_go. Qed.
Lemma tm_find_next_free_cluster v a b : tm (find_next_free_cluster v a b).
Proof. unfold find_next_free_cluster. apply tm_find_next_free_loop. Qed.
#[export] Hint Resolve tm_find_next_free_cluster : tm.
Lemma tm_zero_cluster v c : tm (zero_cluster v c).
Proof. unfold zero_cluster. tm_go. apply tm_for_blocks. intros i. tm_go. Qed.
#[export] Hint Resolve tm_zero_cluster : tm.
Lemma tm_alloc_cluster vi prev zero : tm (alloc_cluster vi prev zero).
Proof. unfold alloc_cluster. tm_go. Qed.
Lemma tm_bump_free vi : tm (bump_free vi). Proof. unfold bump_free. tm_go. Qed.
#[export] Hint Resolve tm_alloc_cluster tm_bump_free : tm.
Lemma tm_truncate_loop vi : forall fuel next, tm (truncate_loop fuel vi next).
Proof. induction fuel as [|f IH]; intros next; cbn [truncate_loop]; tm_go. Qed.
#[export] Hint Resolve tm_truncate_loop : tm.
Lemma tm_truncate_cluster_chain vi c : tm (truncate_cluster_chain vi c).
Proof. unfold truncate_cluster_chain. tm_go. Qed.
#[export] Hint Resolve tm_truncate_cluster_chain : tm.
Lemma tm_free_cluster_chain vi c : tm (free_cluster_chain vi c).
Proof. unfold free_cluster_chain. tm_go. Qed.
Lemma tm_write_entry_to_disk v e : tm (write_entry_to_disk v e).
Proof. unfold write_entry_to_disk. tm_go. Qed.
Lemma tm_update_info_sector vi : tm (update_info_sector vi).
Proof. unfold update_info_sector. tm_go. Qed.
#[export] Hint Resolve tm_free_cluster_chain tm_write_entry_to_disk tm_update_info_sector : tm.

Lemma tm_walk_dir {R} (body : N -> M (option R)) : (forall blk, tm (body blk)) ->
  forall fuel vi cluster grow, tm (walk_dir fuel vi cluster grow body).
Proof.
  intros Hb. induction fuel as [|f IH]; intros vi cluster grow; cbn [walk_dir]; [apply tm_oof|].
  tm_go; try (apply tm_for_blocks; exact Hb).
Qed.

Lemma tm_find_directory_entry vi c name : tm (find_directory_entry vi c name).
Proof. unfold find_directory_entry. tm_go. apply tm_walk_dir. intros blk. tm_go. Qed.
Lemma tm_iter_blocks fat32 : forall n i acc, tm (iter_blocks n fat32 i acc).
Proof. induction n as [|n IH]; intros i acc; cbn [iter_blocks]; tm_go. Qed.
#[export] Hint Resolve tm_find_directory_entry tm_iter_blocks : tm.
Lemma tm_iter_walk vi : forall fuel c acc, tm (iter_walk fuel vi c acc).
Proof. induction fuel as [|f IH]; intros c acc; cbn [iter_walk]; tm_go. Qed.
Lemma tm_iterate_dir_all vi c : tm (iterate_dir_all vi c).
Proof. unfold iterate_dir_all. tm_go. apply tm_iter_walk. Qed.
Lemma tm_delete_directory_entry vi c name : tm (delete_directory_entry vi c name).
Proof. unfold delete_directory_entry. tm_go. apply tm_walk_dir. intros blk. tm_go. Qed.
Lemma tm_write_new_directory_entry vi c name attr fc : tm (write_new_directory_entry vi c name attr fc).
Proof. unfold write_new_directory_entry. tm_go. apply tm_walk_dir. intros blk. tm_go. Qed.
#[export] Hint Resolve tm_iterate_dir_all tm_delete_directory_entry tm_write_new_directory_entry : tm.
Lemma tm_make_dir vi parent sfn att : tm (make_dir vi parent sfn att).
Proof. unfold make_dir. tm_go. apply tm_for_blocks_from. intros i. tm_go. Qed.
#[export] Hint Resolve tm_make_dir : tm.

(* ---- FsMgr ---- *)
Lemma tm_locked {A} (m : M A) : tm m -> tm (locked m).
Proof. intros H. unfold locked. tm_go. Qed.
Lemma tm_generate : tm generate. Proof. unfold generate. tm_go. Qed.
Lemma tm_get_volume_by_id h : tm (get_volume_by_id h). Proof. unfold get_volume_by_id. tm_go. Qed.
Lemma tm_get_dir_by_id h : tm (get_dir_by_id h). Proof. unfold get_dir_by_id. tm_go. Qed.
Lemma tm_get_file_by_id h : tm (get_file_by_id h). Proof. unfold get_file_by_id. tm_go. Qed.
Lemma tm_get_dir i : tm (get_dir i). Proof. unfold get_dir. tm_go. Qed.
Lemma tm_get_file i : tm (get_file i). Proof. unfold get_file. tm_go. Qed.
Lemma tm_put_file i f : tm (put_file i f). Proof. unfold put_file. tm_go. Qed.
Lemma tm_file_is_open v e : tm (file_is_open v e). Proof. unfold file_is_open. tm_go. Qed.
Lemma tm_push_dir d : tm (push_dir d). Proof. unfold push_dir. tm_go. Qed.
Lemma tm_push_file f : tm (push_file f). Proof. unfold push_file. tm_go. Qed.
#[export] Hint Resolve tm_generate tm_get_volume_by_id tm_get_dir_by_id tm_get_file_by_id tm_get_dir tm_get_file
  tm_put_file tm_file_is_open tm_push_dir tm_push_file : tm.

Lemma tm_bpb_create b : tm (bpb_create b). Proof. unfold bpb_create. tm_go. Qed.
#[export] Hint Resolve tm_bpb_create : tm.
Lemma tm_parse_volume id idx lba nb : tm (parse_volume id idx lba nb).
Proof. unfold parse_volume. tm_go. Qed.
#[export] Hint Resolve tm_parse_volume : tm.
Lemma tm_open_raw_volume idx : tm (open_raw_volume idx).
Proof. unfold open_raw_volume. apply tm_locked. tm_go. Qed.
Lemma tm_open_root_dir h : tm (open_root_dir h).
Proof. unfold open_root_dir. apply tm_locked. tm_go. Qed.
Lemma tm_open_dir h name : tm (open_dir h name).
Proof. unfold open_dir. apply tm_locked. tm_go. Qed.
Lemma tm_close_dir h : tm (close_dir h).
Proof. unfold close_dir. apply tm_locked. tm_go. Qed.
Lemma tm_close_volume h : tm (close_volume h).
Proof. unfold close_volume. apply tm_locked. tm_go. Qed.
Lemma tm_mgr_find h name : tm (mgr_find h name).
Proof. unfold mgr_find. apply tm_locked. tm_go. Qed.
Lemma tm_mgr_iterate {R} h (inner : M R) : tm inner -> tm (mgr_iterate h inner).
Proof. intros Hi. unfold mgr_iterate. apply tm_locked. tm_go. Qed.
#[export] Hint Resolve tm_open_root_dir tm_close_dir : tm.
Lemma tm_open_file_in_dir h name md : tm (open_file_in_dir h name md).
Proof. unfold open_file_in_dir. apply tm_locked. tm_go. Qed.
Lemma tm_delete_file_in_dir h name : tm (delete_file_in_dir h name).
Proof. unfold delete_file_in_dir. apply tm_locked. tm_go. Qed.
Lemma tm_get_root_volume_label h : tm (get_root_volume_label h).
Proof. unfold get_root_volume_label. apply tm_locked. tm_go; apply tm_mgr_iterate; apply tm_ret. Qed.

Lemma tm_fdod_walk v : forall n so sc, tm (fdod_walk n v so sc).
Proof. induction n as [|n IH]; intros so sc; cbn [fdod_walk]; tm_go. Qed.
#[export] Hint Resolve tm_fdod_walk : tm.
Lemma tm_find_data_on_disk vi start fs desired : tm (find_data_on_disk vi start fs desired).
Proof. unfold find_data_on_disk. tm_go. Qed.
#[export] Hint Resolve tm_find_data_on_disk : tm.
Lemma tm_read_loop fi vi : forall fuel space acc, tm (read_loop fuel fi vi space acc).
Proof. induction fuel as [|fu IH]; intros space acc; cbn [read_loop]; unfold f_left; tm_go. Qed.
Lemma tm_mgr_read h n : tm (mgr_read h n).
Proof. unfold mgr_read. apply tm_locked. tm_go. apply tm_read_loop. Qed.
Lemma tm_write_loop fi vi : forall fuel data, tm (write_loop fuel fi vi data).
Proof. induction fuel as [|fu IH]; intros data; cbn [write_loop]; tm_go. Qed.
#[export] Hint Resolve tm_write_loop : tm.
Lemma tm_mgr_write h data : tm (mgr_write h data).
Proof. unfold mgr_write. apply tm_locked. tm_go. Qed.
Lemma tm_flush_file h : tm (flush_file h).
Proof. unfold flush_file. apply tm_locked. tm_go. Qed.
#[export] Hint Resolve tm_mgr_read tm_mgr_write tm_flush_file : tm.
Lemma tm_close_file h : tm (close_file h).
Proof. unfold close_file. tm_go; apply tm_locked; tm_go. Qed.
Lemma tm_has_open_handles : tm has_open_handles.
Proof. unfold has_open_handles. tm_go. Qed.
Lemma tm_with_file {A} h (k : nat -> fileinfo -> M A) : (forall fi f, tm (k fi f)) -> tm (with_file h k).
Proof. intros Hk. unfold with_file. apply tm_locked. tm_go. Qed.
Lemma tm_file_eof h : tm (file_eof h). Proof. apply tm_with_file. intros; tm_go. Qed.
Lemma tm_file_length h : tm (file_length h). Proof. apply tm_with_file. intros; tm_go. Qed.
Lemma tm_file_offset h : tm (file_offset h). Proof. apply tm_with_file. intros; tm_go. Qed.
Lemma tm_file_seek_from_start h x : tm (file_seek_from_start h x). Proof. apply tm_with_file. intros; tm_go. Qed.
Lemma tm_file_seek_from_end h x : tm (file_seek_from_end h x). Proof. apply tm_with_file. intros; tm_go. Qed.
Lemma tm_file_seek_from_current h x : tm (file_seek_from_current h x).
Proof. apply tm_with_file. intros; cbv zeta; tm_go. Qed.
#[export] Hint Resolve tm_file_offset tm_file_seek_from_start tm_file_seek_from_end tm_file_seek_from_current : tm.
Lemma tm_make_dir_in_dir h name : tm (make_dir_in_dir h name).
Proof. unfold make_dir_in_dir. apply tm_locked. tm_go. Qed.
Lemma tm_io_seek h w x : tm (io_seek h w x). Proof. unfold io_seek. tm_go. Qed.
Lemma tm_io_read h n : tm (io_read h n). Proof. unfold io_read. tm_go. Qed.
Lemma tm_io_write h data : tm (io_write h data). Proof. unfold io_write. tm_go. Qed.
Lemma tm_remount id : tm (remount id). Proof. unfold remount. tm_go. Qed.
Lemma tm_lift {A} (f : A -> res) (m : M A) : tm m -> tm (lift f m).
Proof. intros H. unfold lift. tm_go. Qed.

(* every API call, every outcome, every state *)
Theorem tm_step : forall o, tm (step o).
Proof.
  fix IH 1. intros o. destruct o; cbn [step]; try (apply tm_lift).
  - apply tm_open_raw_volume.
  - apply tm_close_volume.
  - apply tm_open_root_dir.
  - apply tm_open_dir.
  - apply tm_close_dir.
  - apply tm_mgr_find.
  - apply tm_mgr_iterate. destruct inner as [o'|]; [apply IH|apply tm_ret].
  - apply tm_open_file_in_dir.
  - apply tm_close_file.
  - apply tm_flush_file.
  - apply tm_mgr_read.
  - apply tm_mgr_write.
  - apply tm_file_seek_from_start.
  - apply tm_file_seek_from_current.
  - apply tm_file_seek_from_end.
  - apply tm_file_length.
  - apply tm_file_offset.
  - apply tm_file_eof.
  - apply tm_delete_file_in_dir.
  - apply tm_make_dir_in_dir.
  - apply tm_get_root_volume_label.
  - apply tm_has_open_handles.
  - apply tm_io_seek.
  - apply tm_io_read.
  - apply tm_io_write.
  - apply tm_remount.
Qed.

Theorem traced_step o s r s' : step o s = (r, s') -> traced s s'.
Proof. exact (tm_step o s r s'). Qed.

(* consequences: the last crashed medium of a call is the medium of the state after it, and the
   block numbers of the writes are the ones step_ok lists *)
Corollary crash_disks_final o s r s' : step o s = (r, s') -> crash_disks s s' (s_disk s').
Proof. intros H. exact (crash_disks_new s s' (traced_step o s r s' H)). Qed.

Print Assumptions traced_step.
